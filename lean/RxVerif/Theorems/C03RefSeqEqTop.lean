import RxVerif.Theorems.C03RefSeqEqGlobal
/-
C03-REF, sequence_equal, part 5: `zip.finalize` (all registered chains are torn down), the teardown of the outer
controller's observer, `outer.finalize`.
-/
namespace Rx.SeqRef
open Rx.Sim Rx.Ref Rx.Comb Rx.CRef

variable {k : Nat} {σ : GS} {hl : List (LockId × Bool)} {w : World}

theorem tJ_jx (b : CB) : (tJ b).jx.map (·.1) = b.jx.map (·.1) := by
  simp only [tJ]; cases b.jx <;> rfl

theorem tFC_jx (b : CB) : (tFC b).jx.map (·.1) = b.jx.map (·.1) := by
  simp only [tFC]; split
  · show (tJ (tC b)).jx.map _ = _; rw [tJ_jx, tC_jx]
  · rfl

theorem tZ_jx (b : CB) : (tZ b).jx.map (·.1) = b.jx.map (·.1) := by
  simp only [tZ]; split
  · rw [tFC_jx]
  · rfl

/-- the chains of `l` torn down -/
def tearAll (ch : Nat → CB) (l : List Nat) : Nat → CB := fun j => if l.contains j then tZ (ch j) else ch j

theorem tearAll_nil (ch : Nat → CB) : tearAll ch [] = ch := by funext j; simp [tearAll]

theorem tearAll_snoc (ch : Nat → CB) (pre : List Nat) (i : Nat) (hi : i ∉ pre) :
    upd (tearAll ch pre) i (tZ (tearAll ch pre i)) = tearAll ch (pre ++ [i]) := by
  funext j
  by_cases e : j = i
  · subst e
    simp [upd, tearAll, hi]
  · simp [upd, tearAll, e]

theorem GRel.setHeld (h : GRel k σ hl w) (hl' : List (LockId × Bool))
    (hok : ∀ p ∈ hl', p.1 = .cell (omap k) ∨ p.1 = .cell (zmap k)) : GRel k σ hl' { w with held := hl' } :=
  { h with held := rfl, hlOk := hok, chains := fun j hj => (h.chains j hj).setHeld _ }

/-- changes confined to the cells of the two upper controllers and to observers 0, 1 do not affect the chains -/
theorem chains_of_same {w' : World} {cs os : List Nat} (h : GRel k σ hl w) (s : Same w w' cs os)
    (hc : ∀ c ∈ cs, 2 * k ≤ c ∧ c < 2 * k + 5) (ho : ∀ o ∈ os, o < 2) :
    ∀ j, j < k → ChainAt k j (σ.ch j) w' := by
  intro j hj
  refine (h.chains j hj).of_same s ?_ ?_
  · intro c hcm hq
    have := hc c hq
    simp only [List.mem_cons, List.not_mem_nil, or_false, cser, cmap, cq, mmap, mst] at hcm
    omega
  · intro o hom hq
    have := ho o hq
    have i1 := idx_lt hj
    simp only [chainObs, lowObs, List.mem_cons, Zo, Co, Mo] at hom i1
    rcases hom with q | q | q | q
    · omega
    · omega
    · omega
    · have := jx_bound (h.chains j hj) q; omega

/-- `zip.finalize` (its subscriber, the outer controller's observer, has already lost its callbacks): every chain
    still in zip's map is torn down -/
theorem zipFin_spec (h : GRel k σ hl w) (hd : σ.oL = false) (hnd : σ.reg.Nodup)
    (hhl : ∀ p ∈ hl, p.1 = .cell (omap k)) :
    WP (scZ k).finalize w (GRel k { σ with reg := [], ch := tearAll σ.ch σ.reg } hl) := by
  have hok' : ∀ p ∈ (LockId.cell (zmap k), false) :: hl, p.1 = .cell (omap k) ∨ p.1 = .cell (zmap k) := by
    intro p hp; simp only [List.mem_cons] at hp
    rcases hp with rfl | hp
    · exact .inr rfl
    · exact .inl (hhl p hp)
  let Inv : List (Nat × Nat) → World → Prop := fun l' w1 =>
    ∃ pre rest, σ.reg = pre ++ rest ∧ l' = rest.map (fun i => (i, Zo i)) ∧
      GRel k { σ with ch := tearAll σ.ch pre } ((.cell (zmap k), false) :: hl) w1
  have hfree : w.conflicts (.cell (scZ k).map) false = false :=
    noconf_ne _ fun p hp q => by
      rw [h.held] at hp; rw [hhl p hp] at q; have := LockId.cell.inj q; simp only [scZ, zmap, omap] at this; omega
  refine finalize_gen (scZ k) (σ.reg.map fun i => (i, Zo i)) (Inv := Inv) h.zM hfree
    ⟨[], σ.reg, rfl, rfl, by rw [tearAll_nil]; rw [← h.held]; exact h.setHeld _ (by rw [h.held]; exact hok')⟩ ?_ ?_
  · rintro p rest' w1 ⟨pre, rest, hreg, hl', h1⟩
    cases rest with
    | nil => simp at hl'
    | cons i rest'' =>
      simp only [List.map_cons, List.cons.injEq] at hl'
      obtain ⟨rfl, rfl⟩ := hl'
      have hi : i < k := h.regLt i (by rw [hreg]; simp)
      have hip : i ∉ pre := by
        rw [hreg] at hnd
        have := (List.nodup_append.1 hnd).2.2 i
        intro q; exact this q i (by simp) rfl
      have hf : HF (chainCells k i) w1 := by
        intro p hp; rw [h1.held] at hp
        rcases hok' p hp with q | q
        · exact ⟨omap k, q, by simp only [chainCells, omap, mmap, cmap, List.mem_cons, List.not_mem_nil, or_false]; omega⟩
        · exact ⟨zmap k, q, by simp only [chainCells, zmap, mmap, cmap, List.mem_cons, List.not_mem_nil, or_false]; omega⟩
      refine (unsubZ_spec (h1.chains i hi) hi hf).conseq fun w2 ⟨h2, s2⟩ => ?_
      refine ⟨pre ++ [i], rest'', by rw [hreg]; simp, rfl, ?_⟩
      have := h1.chain_step hi h2 s2 (tZ_jx _)
      simp only [tearAll_snoc σ.ch pre i hip] at this
      exact this
  · rintro w2 ⟨pre, rest, hreg, hl', h2⟩
    have hrest : rest = [] := by cases rest <;> simp at hl' ⊢
    subst hrest
    rw [List.append_nil] at hreg
    subst hreg
    have hsub := h2.o1
    simp only [hd, Bool.false_eq_true, ↓reduceIte] at hsub
    refine finTail_spec (scZ k) (x := deadObs _) h2.held
      (fun p hp q => by rw [hhl p hp] at q; have := LockId.cell.inj q; simp only [scZ, zmap, omap] at this; omega)
      (fun p hp => ⟨_, hhl p hp⟩) hsub rfl h2.zF ?_
    have s : Same { w2 with held := hl } { w2 with held := hl, cells := w2.cells.set (scZ k).map .lnil } [zmap k] [] :=
      ⟨fun c hc => set_get_other _ (fun q => hc (by rw [← q]; simp [scZ])), fun _ _ => rfl, rfl, rfl, rfl, rfl,
        rfl, rfl⟩
    have hcs : ∀ c, c ≠ zmap k → (w2.cells.set (scZ k).map .lnil)[c]? = w2.cells[c]? :=
      fun c hc => set_get_other _ (fun q => hc (by rw [← q]; simp [scZ]))
    exact
    { status := h2.status, held := rfl
      hlOk := fun p hp => .inl (hhl p hp)
      root := h2.root, user := h2.user, log := h2.log
      oS := by show (w2.cells.set _ _)[_]? = _; rw [hcs _ (by simp only [oser, zmap]; omega)]; exact h2.oS
      oM := by show (w2.cells.set _ _)[_]? = _; rw [hcs _ (by simp only [omap, zmap]; omega)]; exact h2.oM
      oF := h2.oF, o1 := h2.o1
      zS := by show (w2.cells.set _ _)[_]? = _; rw [hcs _ (by simp only [zser, zmap]; omega)]; exact h2.zS
      zM := by show (w2.cells.set _ _)[_]? = _; exact set_get_same _ h2.zM
      zQ := by show (w2.cells.set _ _)[_]? = _; rw [hcs _ (by simp only [zq, zmap]; omega)]; exact h2.zQ
      zF := h2.zF
      regLt := by intro i hi; cases hi
      chains := fun j hj => by
        have := ((h2.chains j hj).setHeld hl).of_same (s.mono (fun _ q => q) (fun _ q => q))
          (by intro c hc; simp only [List.mem_cons, List.not_mem_nil, or_false, cser, cmap, cq, mmap, mst] at hc
              simp only [List.mem_singleton, zmap]; omega)
          (by intro o _; simp)
        exact this
      jInj := h2.jInj }

/-- the outer controller's observer loses its callbacks and its teardown (if it still had one, zip was finalized) -/
def tO (σ : GS) : GS :=
  if σ.oH then { σ with oL := false, oH := false, reg := [], ch := tearAll σ.ch σ.reg }
  else { σ with oL := false, oH := false }

theorem GRel.setO1 (h : GRel k σ hl w) (f : Obs → Obs) (l hk : Bool)
    (hf : ∀ x, w.obs[1]? = some x →
      f x = if l then outerObs k (optHook hk (scZ k).finalize) else deadObs (optHook hk (scZ k).finalize)) :
    GRel k { σ with oL := l, oH := hk } hl { w with obs := w.obs.modify 1 f } := by
  have s : Same w { w with obs := w.obs.modify 1 f } [] [1] :=
    ⟨fun _ _ => rfl, fun o ho => modify_get_other _ _ (fun q => ho (by simp [q])), rfl, rfl, rfl, rfl, rfl, by simp⟩
  exact
  { h with
    root := by show (w.obs.modify _ _)[0]? = _; rw [modify_get_other _ _ (by omega)]; exact h.root
    o1 := by show (w.obs.modify _ _)[1]? = _; rw [modify_get_same _ _ h.o1, hf _ h.o1]
    chains := chains_of_same (σ := σ) h s (by intro c hc; cases hc) (by intro o ho; simp at ho; omega) }

/-- `unsubscribe` of the outer controller's observer on zip (its teardown is `zip.finalize`) -/
theorem unsubO1_spec (h : GRel k σ hl w) (hnd : σ.reg.Nodup) (hhl : ∀ p ∈ hl, p.1 = .cell (omap k)) :
    WP (.obsUnsub 1 .done) w (GRel k (tO σ) hl) := by
  have hO := h.setO1 (fun x => { x.cleared with onUnsub := none }) false false (by
    intro x hx
    rw [h.o1] at hx; cases hx
    exact dead_of _ _ _ rfl)
  cases hH : σ.oH with
  | false =>
    refine wp_obsUnsub_none h.o1 (by cases σ.oL <;> simp [outerObs, deadObs, optHook, hH]) (WP.done ?_)
    have e : tO σ = { σ with oL := false, oH := false } := by simp [tO, hH]
    rw [e]; exact hO
  | true =>
    refine wp_obsUnsub_some (f := (scZ k).finalize) h.o1
      (by cases σ.oL <;> simp [outerObs, deadObs, optHook, hH]) ?_
    refine (zipFin_spec hO rfl hnd hhl).conseq fun w2 h2 => WP.done ?_
    have e : tO σ = { σ with oL := false, oH := false, reg := [], ch := tearAll σ.ch σ.reg } := by simp [tO, hH]
    rw [e]; exact h2

theorem GRel.setOmap (h : GRel k σ hl w) (r : Bool) :
    GRel k { σ with oR := r } hl
      { w with cells := w.cells.set (omap k) (encMap (if r then [(0, 1)] else [])) } := by
  have s : Same w { w with cells := w.cells.set (omap k) (encMap (if r then [(0, 1)] else [])) } [omap k] [] :=
    ⟨fun c hc => set_get_other _ (fun q => hc (by simp [q])), fun _ _ => rfl, rfl, rfl, rfl, rfl, rfl, rfl⟩
  have hcs : ∀ c, c ≠ omap k → (w.cells.set (omap k) (encMap (if r then [(0, 1)] else [])))[c]? = w.cells[c]? :=
    fun c hc => set_get_other _ (Ne.symm hc)
  exact
  { h with
    oS := by show (w.cells.set _ _)[_]? = _; rw [hcs _ (by simp only [oser, omap]; omega)]; exact h.oS
    oM := by show (w.cells.set _ _)[_]? = _; exact set_get_same _ h.oM
    zS := by show (w.cells.set _ _)[_]? = _; rw [hcs _ (by simp only [zser, omap]; omega)]; exact h.zS
    zM := by show (w.cells.set _ _)[_]? = _; rw [hcs _ (by simp only [zmap, omap]; omega)]; exact h.zM
    zQ := by show (w.cells.set _ _)[_]? = _; rw [hcs _ (by simp only [zq, omap]; omega)]; exact h.zQ
    chains := chains_of_same (σ := σ) h s (by intro c hc; simp at hc; subst hc; simp only [omap]; omega)
      (by intro o ho; cases ho) }

def tOF (σ : GS) : GS := { (if σ.oR then tO σ else σ) with oR := false }

theorem tO_alive (σ : GS) : (tO σ).alive = σ.alive ∧ (tO σ).oR = σ.oR := by
  simp only [tO]; split <;> exact ⟨rfl, rfl⟩

/-- `outer.finalize` (the test user's root observer has already lost its callbacks) -/
theorem outerFin_spec (h : GRel k σ [] w) (hd : σ.alive = false) (hnd : σ.reg.Nodup) :
    WP (scO k).finalize w (GRel k (tOF σ) []) := by
  let σE : GS := if σ.oR then tO σ else σ
  let Inv : List (Nat × Nat) → World → Prop := fun l' w1 =>
    (l' = (if σ.oR then [(0, 1)] else []) ∧ GRel k σ [(.cell (omap k), false)] w1) ∨
    (l' = [] ∧ GRel k σE [(.cell (omap k), false)] w1)
  have hok : ∀ p ∈ [(LockId.cell (omap k), false)], p.1 = .cell (omap k) ∨ p.1 = .cell (zmap k) := by
    intro p hp; simp at hp; subst hp; exact .inl rfl
  refine finalize_gen (scO k) (if σ.oR then [(0, 1)] else []) (Inv := Inv) h.oM
    (noconf_of_held_nil h.held _ _) (.inl ⟨rfl, by rw [h.held]; exact h.setHeld _ hok⟩) ?_ ?_
  · rintro p rest w1 (⟨hl', h1⟩ | ⟨hl', _⟩)
    · have hr : σ.oR = true := by cases q : σ.oR <;> simp [q] at hl'; rfl
      simp only [hr, ↓reduceIte, List.cons.injEq] at hl'
      obtain ⟨rfl, rfl⟩ := hl'
      refine (unsubO1_spec h1 hnd (by intro p hp; simp at hp; subst hp; rfl)).conseq fun w2 h2 => .inr ⟨rfl, ?_⟩
      simp only [σE, hr, ↓reduceIte]; exact h2
    · exact absurd hl' (by simp)
  · rintro w2 hI
    have hE : GRel k σE [(.cell (omap k), false)] w2 := by
      rcases hI with ⟨hl', h1⟩ | ⟨_, h1⟩
      · have hr : σ.oR = false := by cases q : σ.oR <;> simp [q] at hl'; rfl
        simp only [σE, hr, Bool.false_eq_true, ↓reduceIte]; exact h1
      · exact h1
    have hal : σE.alive = false := by
      simp only [σE]; split
      · rw [(tO_alive σ).1]; exact hd
      · exact hd
    have hsub := hE.root
    rw [hal] at hsub
    refine finTail_spec (scO k) (x := rootObs k false) hE.held (by intro p hp; cases hp) (by intro p hp; cases hp)
      hsub rfl hE.oF ?_
    have := (hE.setHeld [] (by intro p hp; cases hp)).setOmap false
    exact this

def tOA (σ : GS) : GS := if σ.oR then { tO σ with oR := false } else σ

/-- `outer.upstream_abort_observe(0)` (stream_controller.rs:124-130) -/
theorem outerAbort_spec (h : GRel k σ [] w) (hnd : σ.reg.Nodup) :
    WP ((scO k).abortObserve 0) w (GRel k (tOA σ) []) := by
  have hok : ∀ p ∈ [(LockId.cell (omap k), true)], p.1 = .cell (omap k) ∨ p.1 = .cell (zmap k) := by
    intro p hp; simp at hp; subst hp; exact .inl rfl
  simp only [Sctl.abortObserve, scO]
  refine wp_lockAcq (noconf_of_held_nil h.held _ _) (wp_cellRead_g ?_)
  have hr : ({ w with held := (LockId.cell (omap k), true) :: w.held } : World).cells[omap k]?.getD .unit =
      encMap (if σ.oR then [(0, 1)] else []) := by
    show w.cells[omap k]?.getD .unit = _; rw [h.oM]; rfl
  rw [hr, amapRemove_encMap, amapGet_encMap]
  have hfil : (if σ.oR then [((0 : Nat), (1 : Nat))] else []).filter (fun p => p.1 != 0) = [] := by
    cases σ.oR <;> simp
  rw [hfil]
  refine wp_cellWrite_g ?_
  have h1 : GRel k { σ with oR := false } [(.cell (omap k), true)]
      { w with held := (.cell (omap k), true) :: w.held, cells := w.cells.set (omap k) (encMap []) } := by
    have := (h.setHeld [(.cell (omap k), true)] hok).setOmap false
    rw [h.held]; exact this
  apply WP.seq
  cases hR : σ.oR with
  | false =>
    simp only [Bool.false_eq_true, ↓reduceIte, List.find?_nil, Option.map_none]
    refine WP.done (wp_lockRel ?_)
    rw [release_head _ _ _ _ h1.held]
    refine WP.done ?_
    have e : tOA σ = { σ with oR := false } := by simp [tOA, hR]; cases σ; simp_all
    rw [e]
    exact h1.setHeld [] (by intro p hp; cases hp)
  | true =>
    simp only [↓reduceIte, List.find?_cons, beq_self_eq_true, Option.map_some, toNat_int]
    refine (unsubO1_spec h1 hnd (by intro p hp; simp at hp; subst hp; rfl)).conseq fun w2 h2 => ?_
    refine wp_lockRel ?_
    rw [release_head _ _ _ _ h2.held]
    refine WP.done ?_
    have e : tOA σ = tO { σ with oR := false } := by
      simp only [tOA, hR, ↓reduceIte, tO]; split <;> rfl
    rw [e]
    exact h2.setHeld [] (by intro p hp; cases hp)

end Rx.SeqRef
