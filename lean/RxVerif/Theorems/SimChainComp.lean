import RxVerif.Theorems.SimChainStage
/-
SIM for chains, part 8 (pure): composition over the stages — the subscriber of the flat chain machine sees
`chainRun Ks s`.
-/
namespace Rx.Chain
open Rx.Sim

/-- a log cut after its first terminal -/
def trunc (l : List Ev) : List Ev := (evsStream l).toEvs

def NoTerm (l : List Ev) : Prop := ∀ e ∈ l, e.isTerminal = false

theorem trunc_cons_next (d : Data) (l : List Ev) : trunc (.next d :: l) = .next d :: trunc l := by
  simp [trunc, evsStream, Stream.toEvs]

theorem trunc_noTerm (l l' : List Ev) (h : NoTerm l) : trunc (l ++ l') = l ++ trunc l' := by
  induction l with
  | nil => rfl
  | cons e l ih =>
    have he := h e (by simp)
    have hl : NoTerm l := fun e' he' => h e' (by simp [he'])
    cases e with
    | next d => rw [List.cons_append, trunc_cons_next, ih hl]; rfl
    | error e => cases he
    | complete => cases he

theorem trunc_self_noTerm (l : List Ev) (h : NoTerm l) : trunc l = l := by
  have := trunc_noTerm l [] h
  simpa [trunc, evsStream, Stream.toEvs, Ending.toEvs] using this

theorem evsStream_toEvs (s : Stream) : evsStream s.toEvs = s := by
  obtain ⟨xs, e⟩ := s
  induction xs with
  | nil => cases e <;> rfl
  | cons x xs ih =>
    simp only [Stream.toEvs, List.map_cons, List.cons_append, evsStream] at ih ⊢
    rw [ih]

theorem trunc_toEvs (s : Stream) : trunc s.toEvs = s.toEvs := by
  simp [trunc, evsStream_toEvs]

/-! ### kernel runs are well formed: nothing after a terminal -/

structure WFr (r : KRun) : Prop where
  tr : trunc r.out = r.out
  nt : r.alive = true → NoTerm r.out

theorem noTerm_append {l l' : List Ev} (h : NoTerm l) (h' : NoTerm l') : NoTerm (l ++ l') := by
  intro e he
  rcases List.mem_append.mp he with h1 | h1
  · exact h e h1
  · exact h' e h1

theorem wfr_actX (r : KRun) (a : Act) (h : WFr r) : WFr (actX r a) := by
  cases hal : r.alive with
  | false =>
    have ho : (actX r a).out = r.out := by rw [actX_out, delta_dead r a hal, List.append_nil]
    refine ⟨by rw [ho]; exact h.tr, fun h' => ?_⟩
    rw [actX_alive_false r a hal] at h'; cases h'
  | true =>
    have hn := h.nt hal
    have key : ∀ l', (actX r a).out = r.out ++ l' → (NoTerm l' ∨ ((actX r a).alive = false ∧ trunc l' = l')) →
        WFr (actX r a) := by
      intro l' ho hc
      rcases hc with hc | ⟨hc1, hc2⟩
      · exact ⟨by rw [ho]; exact trunc_self_noTerm _ (noTerm_append hn hc), fun _ => by
          rw [ho]; exact noTerm_append hn hc⟩
      · exact ⟨by rw [ho, trunc_noTerm _ _ hn, hc2], fun h' => by rw [hc1] at h'; cases h'⟩
    apply key _ (actX_out r a)
    cases a with
    | emit d => left; simp only [delta, hal, ↓reduceIte]; intro e he; simp at he; subst he; rfl
    | emitAll ds =>
      left; simp only [delta, hal, ↓reduceIte]; intro e he
      obtain ⟨d, _, rfl⟩ := List.mem_map.mp he; rfl
    | fail e => right; simp only [delta, hal, ↓reduceIte]; exact ⟨by simp [actX, KRun.act, hal], rfl⟩
    | complete => right; simp only [delta, hal, ↓reduceIte]; exact ⟨by simp [actX, KRun.act, hal], rfl⟩
    | abortSelf => left; simp only [delta]; intro e he; cases he
    | finalize => left; simp only [delta]; intro e he; cases he

theorem wfr_actsX (as : List Act) : ∀ (r : KRun), WFr r → WFr (actsX r as) := by
  induction as with
  | nil => intro r h; exact h
  | cons a as ih => intro r h; simp only [actsX, List.foldl_cons]; exact ih _ (wfr_actX r a h)

theorem wfr_feedX {σ} (K : Kernel σ) (xs : List Data) : ∀ (st : σ) (r : KRun), WFr r → WFr (feedX K st r xs).2 := by
  induction xs with
  | nil => intro st r h; exact h
  | cons x xs ih =>
    intro st r h
    simp only [feedX]; split
    · exact h
    · exact ih _ _ (wfr_actsX _ r h)

theorem wfr_finishX {σ} (K : Kernel σ) (st : σ) (r : KRun) (e : Ending) (h : WFr r) : WFr (finishX K st r e) := by
  cases e with
  | silent => exact h
  | complete => simp only [finishX]; split
                · exact h
                · exact wfr_actsX _ r h
  | error e => simp only [finishX]; split
               · exact h
               · exact wfr_actsX _ r h

/-- the output of every kernel run is `next* terminal?` -/
theorem trunc_run {σ} (K : Kernel σ) (s : Stream) : trunc (K.run s) = K.run s := by
  rw [← runFullX_out]
  have h0 : WFr ({} : KRun) := ⟨rfl, fun _ e he => by cases he⟩
  exact (wfr_finishX K _ _ s.2 (wfr_feedX K s.1 K.init {} h0)).tr

/-! ### composition over the stages -/

/-- the stages' kernel runs composed, stage `j-1` first (it is the innermost), stage 0 last -/
def runStages (ks : Nat → DK) : Nat → List Ev → List Ev
  | 0, l => l
  | j+1, l => runStages ks j ((ks j).kernel.run (evsStream l))

/-- nothing has happened yet at or below observer `j` -/
structure Fresh (ks : Nat → DK) (j : Nat) (x : CSt) : Prop where
  sub : ∀ i, i ≤ j → x.sub i = true
  rg : ∀ i, i < j → x.rg i = true
  st : ∀ i, i < j → x.st i = (ks i).init

theorem pf0_out (n : Nat) (ks : Nat → DK) (l : List Ev) : ∀ (x : CSt), x.sub 0 = true →
    (pf n ks 0 l x).out = x.out ++ trunc l := by
  induction l with
  | nil => intro x _; simp [pf_nil, trunc, evsStream, Stream.toEvs, Ending.toEvs]
  | cons e l ih =>
    intro x hs
    rw [pf_cons]
    simp only [hs, ↓reduceIte, deliver]
    cases e with
    | next d =>
      rw [ih _ (by simpa [Ev.isTerminal] using hs), trunc_cons_next]; simp
    | error e =>
      rw [pf_dead _ _ _ _ _ (by simp [Ev.isTerminal, upd_apply])]
      simp [trunc, evsStream, Stream.toEvs, Ending.toEvs]
    | complete =>
      rw [pf_dead _ _ _ _ _ (by simp [Ev.isTerminal, upd_apply])]
      simp [trunc, evsStream, Stream.toEvs, Ending.toEvs]

theorem stages_out (n : Nat) (ks : Nat → DK) : ∀ (j : Nat) (l : List Ev) (x : CSt), Fresh ks j x →
    (pf n ks j l x).out = x.out ++ trunc (runStages ks j l) := by
  intro j
  induction j with
  | zero => intro l x h; exact pf0_out n ks l x (h.sub 0 (Nat.le_refl _))
  | succ j ih =>
    intro l x h
    have hs := stage_sim n ks j x (h.sub j (Nat.le_succ _)) (h.sub (j + 1) (Nat.le_refl _))
      (h.rg j (Nat.lt_succ_self _)) (h.st j (Nat.lt_succ_self _)) l
    rw [hs.out, ih _ x ⟨fun i hi => h.sub i (by omega), fun i hi => h.rg i (by omega), fun i hi => h.st i (by omega)⟩]
    rfl

theorem runStages_congr {ks ks' : Nat → DK} : ∀ (j : Nat) (l : List Ev), (∀ i, i < j → ks i = ks' i) →
    runStages ks j l = runStages ks' j l := by
  intro j
  induction j with
  | zero => intro l _; rfl
  | succ j ih =>
    intro l h
    simp only [runStages, h j (Nat.lt_succ_self _)]
    exact ih _ (fun i hi => h i (by omega))

/-- a kernel seen through its state cell runs like the kernel itself -/
theorem dk_feed {σ} (K : Kernel σ) (hK : Kernel.WellEncoded K) (xs : List Data) : ∀ (st : σ) (r : KRun),
    K.dk.kernel.feed (K.enc st) r xs = (K.enc (K.feed st r xs).1, (K.feed st r xs).2) := by
  induction xs with
  | nil => intro st r; rfl
  | cons x xs ih =>
    intro st r
    simp only [Kernel.feed]
    split
    · rfl
    · have e1 : (K.dk.kernel.onNext (K.enc st) x) = (K.enc (K.onNext st x).1, (K.onNext st x).2) := by
        show (K.enc (K.onNext (K.dec (K.enc st)) x).1, (K.onNext (K.dec (K.enc st)) x).2) = _
        rw [hK st]
      show K.dk.kernel.feed (K.dk.kernel.onNext (K.enc st) x).1
        (r.acts (K.dk.kernel.onNext (K.enc st) x).2) xs = _
      rw [e1]
      exact ih _ _

theorem dk_run {σ} (K : Kernel σ) (hK : Kernel.WellEncoded K) (s : Stream) : K.dk.kernel.run s = K.run s := by
  obtain ⟨xs, e⟩ := s
  have hf := dk_feed K hK xs K.init {}
  have hf' : K.dk.kernel.feed K.dk.kernel.init {} xs = (K.enc (K.feed K.init {} xs).1, (K.feed K.init {} xs).2) := hf
  simp only [Kernel.run, hf']
  cases e with
  | silent => rfl
  | complete =>
    simp only [Kernel.finish]
    show (if _ then _ else KRun.acts _ (K.onComplete (K.dec (K.enc _))).2).out = _
    rw [hK]
  | error e =>
    simp only [Kernel.finish]
    show (if _ then _ else KRun.acts _ (K.onError (K.dec (K.enc _)) e).2).out = _
    rw [hK]

def AllWE (Ks : List AnyKernel) : Prop := ∀ A ∈ Ks, Kernel.WellEncoded A.K

theorem ksOf_cons_last (A : AnyKernel) (Ks : List AnyKernel) : ksOf (A :: Ks) Ks.length = A.K.dk := by
  have : (A :: Ks).reverse[Ks.length]? = some A := by
    rw [List.reverse_cons]
    have h : Ks.length = Ks.reverse.length := by simp
    rw [h, List.getElem?_concat_length]
  simp only [ksOf, this]

theorem ksOf_cons_lt (A : AnyKernel) (Ks : List AnyKernel) (i : Nat) (hi : i < Ks.length) :
    ksOf (A :: Ks) i = ksOf Ks i := by
  have : (A :: Ks).reverse[i]? = Ks.reverse[i]? := by
    rw [List.reverse_cons, List.getElem?_append_left (by simpa using hi)]
  simp only [ksOf, this]

theorem runStages_eq : ∀ (Ks : List AnyKernel) (l : List Ev), AllWE Ks →
    runStages (ksOf Ks) Ks.length l = chainRunEvs Ks l := by
  intro Ks
  induction Ks with
  | nil => intro l _; rfl
  | cons A Ks ih =>
    intro l h
    simp only [List.length_cons, runStages, chainRunEvs, ksOf_cons_last]
    rw [dk_run A.K (h A (by simp))]
    rw [runStages_congr (ks' := ksOf Ks) _ _ (fun i hi => ksOf_cons_lt A Ks i hi)]
    exact ih _ (fun B hB => h B (by simp [hB]))

theorem trunc_chainRunEvs : ∀ (Ks : List AnyKernel) (l : List Ev), trunc l = l →
    trunc (chainRunEvs Ks l) = chainRunEvs Ks l := by
  intro Ks
  induction Ks with
  | nil => intro l h; exact h
  | cons A Ks ih => intro l _; exact ih _ (trunc_run A.K _)

theorem fresh_init (n : Nat) (ks : Nat → DK) : Fresh ks n (CSt.init n ks) :=
  ⟨fun _ _ => rfl, fun _ _ => rfl, fun _ _ => rfl⟩

/-- model B for chains = the specification: the flat chain machine shows its subscriber `chainRun Ks s` -/
theorem chainFlat_out (Ks : List AnyKernel) (hK : AllWE Ks) (s : Stream) :
    (chainFlat Ks s).out = chainRun Ks s := by
  unfold chainFlat
  rw [scriptC_eq_pf, stages_out _ _ _ _ _ (fresh_init _ _), runStages_eq Ks _ hK]
  show [] ++ trunc (chainRunEvs Ks s.toEvs) = chainRunEvs Ks s.toEvs
  rw [List.nil_append, trunc_chainRunEvs Ks _ (trunc_toEvs s)]

end Rx.Chain
