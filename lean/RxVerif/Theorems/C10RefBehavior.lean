import RxVerif.Theorems.C10RefReplay
/-
C10-REF, BehaviorSubject — model A's `BSubj` macros (`Machine/Subjects.lean`, transliterating
src/subjects/behavior_subject.rs on top of `Subj`) refine `SubjM` with kind `.behavior v`.

World layout of `progB`.  Fixed: cells 0,1 = Subject.observers / serial, 2 = last_item, 3 = last_error.
A `subscribe` that finds a stored terminal only hands it over: it allocates the root observer and nothing else.
A `subscribe` that registers allocates root observer, forwarder, `sbsc` cell and the armed flag of the live
`Subscription`.  So the layout is described by the list `L : List Bool` ("subscription u registered"):
with `k u` = number of registrations among subscriptions `< u`,
  root observer of u = `u + k u`, its forwarder = `u + k u + 1`, `sbsc` = cell `4 + 2 k u`, armed flag = `5 + 2 k u`.
-/
namespace Rx.RefB
open Rx.Sim Rx.SubjM Rx.Ref Rx.RefR

/-! ### the layout -/

def kOf (L : List Bool) (u : Nat) : Nat := (L.take u).count true

theorem kOf_zero (L : List Bool) : kOf L 0 = 0 := by simp [kOf]

theorem kOf_succ (L : List Bool) (u : Nat) :
    kOf L (u + 1) = kOf L u + (match L[u]? with | some true => 1 | _ => 0) := by
  unfold kOf
  rw [List.take_add_one]
  cases h : L[u]? with
  | none => simp
  | some b => cases b <;> simp

theorem kOf_mono (L : List Bool) {u u' : Nat} (h : u ≤ u') : kOf L u ≤ kOf L u' := by
  induction u' with
  | zero => have : u = 0 := by omega
            subst this; exact Nat.le_refl _
  | succ k ih =>
    rcases Nat.lt_or_ge u (k + 1) with hlt | hge
    · have := ih (by omega)
      rw [kOf_succ]; omega
    · have : u = k + 1 := by omega
      subst this; exact Nat.le_refl _

theorem kOf_strict (L : List Bool) {u u' : Nat} (h : u < u') (hr : L[u]? = some true) : kOf L u + 1 ≤ kOf L u' := by
  have h1 : kOf L (u + 1) = kOf L u + 1 := by rw [kOf_succ, hr]
  have h2 := kOf_mono L (show u + 1 ≤ u' by omega)
  omega

theorem kOf_append_le (L : List Bool) (b : Bool) {u : Nat} (h : u ≤ L.length) : kOf (L ++ [b]) u = kOf L u := by
  unfold kOf; rw [List.take_append_of_le_length h]

theorem kOf_append_last (L : List Bool) (b : Bool) :
    kOf (L ++ [b]) (L.length + 1) = kOf L L.length + (if b then 1 else 0) := by
  rw [kOf_succ, kOf_append_le _ _ (Nat.le_refl _)]
  cases b <;> simp

theorem get_append_lt (L : List Bool) (b : Bool) {u : Nat} (h : u < L.length) : (L ++ [b])[u]? = L[u]? :=
  List.getElem?_append_left h

/-- two different subscriptions use different observers and cells -/
theorem lay_lt (L : List Bool) {u u' : Nat} (h : u < u') :
    kOf L u ≤ kOf L u' ∧ (L[u]? = some true → kOf L u + 1 ≤ kOf L u') :=
  ⟨kOf_mono L (by omega), fun hr => kOf_strict L h hr⟩

/-! ### the relation -/

def b0 : BSubj := ⟨sj0, 2, 3⟩

@[simp] theorem b0_lastItem : b0.lastItem = 2 := rfl
@[simp] theorem b0_lastError : b0.lastError = 3 := rfl
@[simp] theorem b0_inner : b0.inner = sj0 := rfl

def rootHookB (c : Nat) : Prog := .cellRead c false fun h => subUnsub h

def rootOfB (L : List Bool) (u : Nat) (r : ObsSt) : Obs :=
  ⟨cbN r.alive u, cbE r.alive u, cbC r.alive u, if r.hook then some (rootHookB (4 + 2 * kOf L u)) else none⟩

def fwdOfB (L : List Bool) (u : Nat) (r : ObsSt) : Obs :=
  ⟨if r.inAlive then some (.code fun x => .obsNext (u + kOf L u) x .done) else none,
   if r.inAlive then some (.code fun e => .obsError (u + kOf L u) e .done) else none,
   if r.inAlive then some (.code (.obsComplete (u + kOf L u) .done)) else none,
   r.inHook.map fun s => hookProg sj0 (s : Int)⟩

def handleB (L : List Bool) (u : Nat) : Data :=
  .pair (.int ((u + kOf L u + 1 : Nat) : Int)) (.int ((5 + 2 * kOf L u : Nat) : Int))

structure UserOkB (L : List Bool) (w : World) (u : Nat) (r : ObsSt) : Prop where
  user : ∃ a, w.users[u]? = some ⟨u + kOf L u, noReact, true, a⟩ ∧ (r.hook = true → a = true)
  root : w.obs[u + kOf L u]? = some (rootOfB L u r)
  reg : L[u]? = some true →
    w.obs[u + kOf L u + 1]? = some (fwdOfB L u r) ∧ w.cells[4 + 2 * kOf L u]? = some (handleB L u) ∧
    w.cells[5 + 2 * kOf L u]? = some (.bool r.armed)
  unreg : L[u]? = some false → r.hook = false
  log : logOf w u = r.log
  seen : r.seen = true
  dead : r.hook = false → r.alive = false

def mapB (L : List Bool) (l : List (Nat × Nat)) : List (Nat × Nat) := l.map fun p => (p.1, p.2 + kOf L p.2 + 1)

structure RelB (L : List Bool) (w : World) (st : State) : Prop where
  status : w.status = .ok
  held : w.held = []
  cellO : w.cells[0]? = some (encMap (mapB L st.observers))
  cellS : w.cells[1]? = some (.int st.serial)
  cellI : w.cells[2]? = some (Data.optEnc st.lastItem)
  cellE : w.cells[3]? = some (Data.optEnc (st.lastError.map fun (e : Nat) => Data.int (e : Int)))
  nCells : w.cells.length = 4 + 2 * kOf L L.length
  slotA : w.slots[0]? = some none
  slotB : w.slots[1]? = some none
  obsv : w.obsvs[0]? = some b0.observable
  nUsers : w.users.length = L.length
  nObs : w.obs.length = L.length + kOf L L.length
  users : ∀ u, u < L.length → UserOkB L w u (st.obs u)
  unseen : ∀ u, L.length ≤ u → st.obs u = {}
  quiet : ∀ u, L.length ≤ u → logOf w u = []
  keys : ∀ p ∈ st.observers, p.1 ≤ st.serial
  regd : ∀ p ∈ st.observers, L[p.2]? = some true

structure SameUB (L : List Bool) (w w' : World) (u : Nat) : Prop where
  user : w'.users[u]? = w.users[u]?
  root : w'.obs[u + kOf L u]? = w.obs[u + kOf L u]?
  fwd : L[u]? = some true → w'.obs[u + kOf L u + 1]? = w.obs[u + kOf L u + 1]?
  sb : L[u]? = some true → w'.cells[4 + 2 * kOf L u]? = w.cells[4 + 2 * kOf L u]?
  ac : L[u]? = some true → w'.cells[5 + 2 * kOf L u]? = w.cells[5 + 2 * kOf L u]?
  log : logOf w' u = logOf w u

theorem UserOkB.frame {L w w' u r} (h : UserOkB L w u r) (s : SameUB L w w' u) : UserOkB L w' u r :=
  ⟨s.user ▸ h.user, s.root ▸ h.root,
   fun hr => ⟨(s.fwd hr) ▸ (h.reg hr).1, (s.sb hr) ▸ (h.reg hr).2.1, (s.ac hr) ▸ (h.reg hr).2.2⟩,
   h.unreg, s.log ▸ h.log, h.seen, h.dead⟩

theorem keys_mapB {L : List Bool} {l : List (Nat × Nat)} {s : Nat} (h : ∀ p ∈ l, p.1 ≤ s) :
    ∀ p ∈ mapB L l, p.1 ≤ s := by
  intro p hp
  obtain ⟨q, hq, rfl⟩ := List.mem_map.1 hp
  exact h q hq

theorem RelB.lt_of_reg {L : List Bool} {u : Nat} (h : L[u]? = some true) : u < L.length := by
  rcases Nat.lt_or_ge u L.length with hlt | hge
  · exact hlt
  · rw [List.getElem?_eq_none hge] at h; cases h

/-- a change of the world confined to subscription `o` (its user record, its observers, its armed flag, its log)
    and to the map cell -/
theorem RelB.patch {L w st} (h : RelB L w st) {o : Nat} (ho : o < L.length) (w' : World) (r' : ObsSt)
    (O' : List (Nat × Nat))
    (hstatus : w'.status = w.status) (hheld : w'.held = w.held)
    (hslots : w'.slots = w.slots) (hobsvs : w'.obsvs = w.obsvs)
    (hclen : w'.cells.length = w.cells.length)
    (hcell0 : w'.cells[0]? = some (encMap (mapB L O')))
    (hcells : ∀ i, i ≠ 0 → ¬ (L[o]? = some true ∧ i = 5 + 2 * kOf L o) → w'.cells[i]? = w.cells[i]?)
    (hac : L[o]? = some true → w'.cells[5 + 2 * kOf L o]? = some (.bool r'.armed))
    (hulen : w'.users.length = w.users.length)
    (husers : ∀ i, i ≠ o → w'.users[i]? = w.users[i]?)
    (huser : ∃ a, w'.users[o]? = some ⟨o + kOf L o, noReact, true, a⟩ ∧ (r'.hook = true → a = true))
    (hlen : w'.obs.length = w.obs.length)
    (hothers : ∀ i, i ≠ o + kOf L o → ¬ (L[o]? = some true ∧ i = o + kOf L o + 1) → w'.obs[i]? = w.obs[i]?)
    (hlogs : ∀ u, u ≠ o → logOf w' u = logOf w u)
    (hroot : w'.obs[o + kOf L o]? = some (rootOfB L o r'))
    (hfwd : L[o]? = some true → w'.obs[o + kOf L o + 1]? = some (fwdOfB L o r'))
    (hunreg : L[o]? = some false → r'.hook = false)
    (hlog : logOf w' o = r'.log)
    (hseen : r'.seen = true) (hdead : r'.hook = false → r'.alive = false)
    (hkeys : ∀ p ∈ O', p.1 ≤ st.serial) (hregd : ∀ p ∈ O', L[p.2]? = some true) :
    RelB L w' { st with observers := O', obs := upd st.obs o r' } :=
  { status := hstatus ▸ h.status
    held := hheld ▸ h.held
    cellO := hcell0
    cellS := by rw [hcells 1 (by omega) (by omega)]; exact h.cellS
    cellI := by rw [hcells 2 (by omega) (by omega)]; exact h.cellI
    cellE := by rw [hcells 3 (by omega) (by omega)]; exact h.cellE
    nCells := hclen ▸ h.nCells
    slotA := hslots ▸ h.slotA
    slotB := hslots ▸ h.slotB
    obsv := hobsvs ▸ h.obsv
    nUsers := hulen ▸ h.nUsers
    nObs := hlen ▸ h.nObs
    users := by
      intro u hu
      have U := h.users u hu
      by_cases e : u = o
      · subst e
        simp only [upd, ↓reduceIte]
        exact ⟨huser, hroot,
          fun hr => ⟨hfwd hr, by rw [hcells _ (by omega) (by omega)]; exact (U.reg hr).2.1, hac hr⟩,
          hunreg, hlog, hseen, hdead⟩
      · simp only [upd, e, ↓reduceIte]
        rcases Nat.lt_or_gt_of_ne e with hlt | hgt
        · have A := lay_lt L hlt
          refine U.frame ⟨husers u e, hothers _ (by omega) (by omega), fun hr => ?_, fun hr => ?_, fun hr => ?_,
            hlogs u e⟩
          · have := A.2 hr; exact hothers _ (by omega) (by omega)
          · exact hcells _ (by omega) (by omega)
          · have := A.2 hr; exact hcells _ (by omega) (by omega)
        · have B := lay_lt L hgt
          refine U.frame ⟨husers u e, hothers _ (by omega) ?_, fun hr => ?_, fun hr => ?_, fun hr => ?_,
            hlogs u e⟩
          · rintro ⟨hr, e2⟩; have := B.2 hr; omega
          · refine hothers _ (by omega) ?_
            rintro ⟨hr2, e2⟩; have := B.2 hr2; omega
          · exact hcells _ (by omega) (by omega)
          · refine hcells _ (by omega) ?_
            rintro ⟨hr2, e2⟩; have := B.2 hr2; omega
    unseen := by
      intro u hu
      have : u ≠ o := by omega
      simp only [upd, this, ↓reduceIte]; exact h.unseen u hu
    quiet := by
      intro u hu
      rw [hlogs u (by omega)]; exact h.quiet u hu
    keys := hkeys
    regd := hregd }

/-- … confined to the two observers and the log of a registered subscription -/
theorem RelB.patchObs {L w st} (h : RelB L w st) {o : Nat} (hr : L[o]? = some true) (w' : World) (r' : ObsSt)
    (hstatus : w'.status = w.status) (hheld : w'.held = w.held) (hcells : w'.cells = w.cells)
    (hslots : w'.slots = w.slots) (hobsvs : w'.obsvs = w.obsvs) (husers : w'.users = w.users)
    (hlen : w'.obs.length = w.obs.length)
    (hothers : ∀ i, i ≠ o + kOf L o → i ≠ o + kOf L o + 1 → w'.obs[i]? = w.obs[i]?)
    (hlogs : ∀ u, u ≠ o → logOf w' u = logOf w u)
    (hroot : w'.obs[o + kOf L o]? = some (rootOfB L o r'))
    (hfwd : w'.obs[o + kOf L o + 1]? = some (fwdOfB L o r'))
    (hlog : logOf w' o = r'.log) (hhook : r'.hook = (st.obs o).hook) (harmed : r'.armed = (st.obs o).armed)
    (hseen : r'.seen = true) (hdead : r'.hook = false → r'.alive = false) :
    RelB L w' { st with obs := upd st.obs o r' } := by
  have ho := RelB.lt_of_reg hr
  have U := h.users o ho
  exact h.patch ho w' r' st.observers hstatus hheld hslots hobsvs (by rw [hcells])
    (by rw [hcells]; exact h.cellO) (fun i _ _ => by rw [hcells])
    (fun _ => by rw [hcells, harmed]; exact (U.reg hr).2.2) (by rw [husers]) (fun i _ => by rw [husers])
    (by obtain ⟨a, ha, hb⟩ := U.user; exact ⟨a, by rw [husers]; exact ha, fun x => hb (hhook ▸ x)⟩)
    hlen (fun i h1 h2 => hothers i h1 (fun e => h2 ⟨hr, e⟩)) hlogs hroot (fun _ => hfwd)
    (fun hf => by rw [hr] at hf; cases hf) hlog hseen hdead h.keys h.regd

theorem recvK_behavior_dead (i : Data) (ev : Ev) (r : ObsSt) (h : r.inAlive = false) :
    recvK (.behavior i) ev r = r := by
  cases r; simp_all [recvK]

theorem codeBody_fwdB (ev : Ev) (k : Nat) :
    codeBody ev (fun x => .obsNext k x .done) (fun e => .obsError k e .done) (.obsComplete k .done) =
      evProg ev k .done := by
  cases ev <;> rfl

/-- one entry of the snapshot: the forwarder's callback, which calls the subscriber's (behavior_subject.rs:79-85) -/
theorem deliverB1_spec {L w st} (i : Data) (h : RelB L w st) (ev : Ev) (o : Nat) (hr : L[o]? = some true) :
    WP (evProg ev (o + kOf L o + 1) .done) w
      (fun w' => RelB L w' { st with obs := upd st.obs o (recvK (.behavior i) ev (st.obs o)) }) := by
  have hlt := RelB.lt_of_reg hr
  have U := h.users o hlt
  have Ufwd := (U.reg hr).1
  cases hia : (st.obs o).inAlive with
  | false =>
    refine wp_ev_dead Ufwd (by simp [fwdOfB, hia]) (WP.done ?_)
    rw [recvK_behavior_dead i ev _ hia, upd_self]; exact h
  | true =>
    refine wp_ev_code Ufwd (by simp [fwdOfB, hia]; rfl) (by simp [fwdOfB, hia]; rfl) (by simp [fwdOfB, hia]; rfl) ?_
    rw [codeBody_fwdB]
    have hw1root : (if ev.isTerminal then w.setObs (o + kOf L o + 1) Obs.cleared else w).obs[o + kOf L o]? =
        some (rootOfB L o (st.obs o)) := by
      split
      · rw [getElem?_setObs_other _ (by omega)]; exact U.root
      · exact U.root
    have hw1users : (if ev.isTerminal then w.setObs (o + kOf L o + 1) Obs.cleared else w).users = w.users := by
      split <;> rfl
    cases hal : (st.obs o).alive with
    | false =>
      refine wp_ev_dead hw1root (by simp [rootOfB, hal, cbN]) (WP.done (WP.done ?_))
      refine h.patchObs hr _ _ (by split <;> rfl) (by split <;> rfl) (by split <;> rfl) (by split <;> rfl)
        (by split <;> rfl) hw1users (by split <;> simp [World.setObs]) ?_ (by intro u _; split <;> rfl)
        ?_ ?_ ?_ rfl rfl U.seen ?_
      · intro j h1 h2; split
        · rw [getElem?_setObs_other _ (fun e => h2 e.symm)]
        · rfl
      · rw [hw1root]; simp [rootOfB, recvK, hal]
      · split
        · rename_i ht
          rw [getElem?_setObs_same _ Ufwd]; simp [fwdOfB, recvK, hia, ht, Obs.cleared]
        · rename_i ht
          rw [Ufwd]; simp [fwdOfB, recvK, hia, ht]
      · have : logOf (if ev.isTerminal then w.setObs (o + kOf L o + 1) Obs.cleared else w) o = logOf w o := by
          split <;> rfl
        rw [this, U.log]; simp [recvK, hal]
      · intro _; simp [recvK, hia, hal]
    | true =>
      obtain ⟨a, hua, _⟩ := U.user
      have hu : (if ev.isTerminal then w.setObs (o + kOf L o + 1) Obs.cleared else w).users[o]? =
          some ⟨o + kOf L o, noReact, true, a⟩ := by rw [hw1users]; exact hua
      refine wp_ev_user (s := o) hw1root (by simp [rootOfB, hal, cbN]) (by simp [rootOfB, hal, cbE])
        (by simp [rootOfB, hal, cbC]) hu rfl (WP.done (WP.done ?_))
      cases ht : ev.isTerminal with
      | false =>
        simp only [Bool.false_eq_true, ↓reduceIte]
        refine h.patchObs hr _ _ ?_ ?_ ?_ ?_ ?_ ?_ ?_ ?_ ?_ ?_ ?_ ?_ rfl rfl U.seen ?_
        all_goals (try (simp only [World.deliverTo, ht, Bool.false_eq_true, ↓reduceIte]))
        all_goals (try rfl)
        · intro j _ _; rfl
        · intro u hu; exact logOf_emit_other _ _ _ _ (fun e => hu e.symm)
        · show w.obs[o + kOf L o]? = _; rw [U.root]; simp [rootOfB, recvK, hal, hia, ht]
        · show w.obs[o + kOf L o + 1]? = _; rw [Ufwd]; simp [fwdOfB, recvK, hia, ht]
        · rw [logOf_emit_same, U.log]; simp [recvK, hia, hal]
        · intro hh; have := U.dead hh; simp [hal] at this
      | true =>
        simp only [↓reduceIte]
        refine h.patchObs hr _ _ ?_ ?_ ?_ ?_ ?_ ?_ ?_ ?_ ?_ ?_ ?_ ?_ rfl rfl U.seen ?_
        all_goals (try (simp only [World.deliverTo, ht, ↓reduceIte]))
        all_goals (try rfl)
        · simp [World.emit, World.setObs]
        · intro j h1 h2
          show ((w.setObs (o + kOf L o + 1) Obs.cleared).setObs (o + kOf L o) Obs.cleared).obs[j]? = _
          rw [getElem?_setObs_other _ (fun e => h1 e.symm), getElem?_setObs_other _ (fun e => h2 e.symm)]
        · intro u hu; exact logOf_emit_other _ _ _ _ (fun e => hu e.symm)
        · show ((w.setObs (o + kOf L o + 1) Obs.cleared).setObs (o + kOf L o) Obs.cleared).obs[o + kOf L o]? = _
          rw [getElem?_setObs_same _ (by rw [getElem?_setObs_other _ (by omega)]; exact U.root)]
          simp [rootOfB, recvK, hal, hia, ht, Obs.cleared, cbN, cbE, cbC]
        · show ((w.setObs (o + kOf L o + 1) Obs.cleared).setObs (o + kOf L o) Obs.cleared).obs[o + kOf L o + 1]? = _
          rw [getElem?_setObs_other _ (by omega), getElem?_setObs_same _ Ufwd]
          simp [fwdOfB, recvK, hia, ht, Obs.cleared]
        · rw [logOf_emit_same]
          show logOf w o ++ _ = _
          rw [U.log]; simp [recvK, hia, hal]
        · intro _; simp [recvK, hia, ht]

theorem toNat_fwdB (L : List Bool) (o : Nat) :
    (Data.int ((o + kOf L o + 1 : Nat) : Int)).toInt.toNat = o + kOf L o + 1 := toNat_int _

theorem deliverB_loop {L} (i : Data) (ev : Ev) (l : List (Nat × Nat)) (hl : ∀ p ∈ l, L[p.2]? = some true) :
    ∀ (st : State) (w : World), RelB L w st →
      WP (forEach ((mapB L l).map fun p => Data.int p.2) fun o => evProg ev o.toInt.toNat .done) w
        (fun w' => RelB L w' { st with obs := deliver (.behavior i) ev l st.obs }) := by
  induction l with
  | nil => intro st w h; exact WP.done h
  | cons p rest ih =>
    intro st w h
    simp only [mapB, List.map_cons, forEach, toNat_fwdB]
    apply WP.seq
    refine (deliverB1_spec i h ev p.2 (hl p (List.mem_cons_self ..))).conseq fun w1 h1 => ?_
    exact ih (fun q hq => hl q (List.mem_cons_of_mem _ hq)) _ w1 h1

theorem SameUB.setCell (L : List Bool) (w : World) (c : Nat) (d : Data) (u : Nat) (hc : c < 4) :
    SameUB L w { w with cells := w.cells.set c d } u :=
  ⟨rfl, rfl, fun _ => rfl, fun _ => set_get_other _ (by omega), fun _ => set_get_other _ (by omega), rfl⟩

def evCallB : Ev → Prog
  | .next v => b0.next v
  | .error e => b0.error e
  | .complete => b0.complete

/-- `BehaviorSubject::next / error / complete` (behavior_subject.rs:26-37) = `SubjM.emit (.behavior i)` -/
theorem emitB_spec {L w st} (i : Data) (h : RelB L w st) (ev : Ev) :
    WP (evCallB ev) w (fun w' => RelB L w' (emit (.behavior i) st ev)) := by
  cases ev with
  | next v =>
    simp only [evCallB, BSubj.next, Subj.next, b0_lastItem, b0_inner, sj0_observers]
    refine wp_cellWrite h.held ?_
    have h1 : RelB L { w with cells := w.cells.set 2 (Data.optEnc (some v)) } { st with lastItem := some v } :=
      { h with
        cellO := by show (w.cells.set _ _)[_]? = _; rw [set_get_other _ (by decide)]; exact h.cellO
        cellS := by show (w.cells.set _ _)[_]? = _; rw [set_get_other _ (by decide)]; exact h.cellS
        cellI := set_get_same _ h.cellI
        cellE := by show (w.cells.set _ _)[_]? = _; rw [set_get_other _ (by decide)]; exact h.cellE
        nCells := by simp [h.nCells]
        users := fun u hu => (h.users u hu).frame (SameUB.setCell L w 2 _ u (by decide)) }
    refine wp_cellRead h1.held ?_
    rw [show ({ w with cells := w.cells.set 2 (Data.optEnc (some v)) } : World).cells[0]?.getD .unit
        = encMap (mapB L st.observers) from by rw [h1.cellO]; rfl, amapVals_encMap]
    exact (deliverB_loop i (.next v) st.observers h.regd _ _ h1).conseq fun w' h' => h'
  | error e =>
    simp only [evCallB, BSubj.error, Subj.error, b0_lastError, b0_inner, sj0_observers]
    refine wp_cellWrite h.held ?_
    refine wp_cellRead h.held ?_
    refine wp_cellWrite h.held ?_
    rw [show ({ w with cells := w.cells.set 3 (Data.optEnc (some (.int e))) } : World).cells[0]?.getD .unit
        = encMap (mapB L st.observers) from by
      show (w.cells.set 3 _)[0]?.getD .unit = _
      rw [set_get_other _ (by decide), h.cellO]; rfl, amapVals_encMap]
    have h1 : RelB L { w with cells := (w.cells.set 3 (Data.optEnc (some (.int e)))).set 0 .lnil }
        { st with lastError := some e, observers := [] } :=
      { h with
        cellO := set_get_same _ (by rw [set_get_other _ (by decide)]; exact h.cellO)
        cellS := by
          show ((w.cells.set _ _).set _ _)[_]? = _
          rw [set_get_other _ (by decide), set_get_other _ (by decide)]; exact h.cellS
        cellI := by
          show ((w.cells.set _ _).set _ _)[_]? = _
          rw [set_get_other _ (by decide), set_get_other _ (by decide)]; exact h.cellI
        cellE := by
          show ((w.cells.set _ _).set _ _)[_]? = _
          rw [set_get_other _ (by decide)]; exact set_get_same _ h.cellE
        nCells := by simp [h.nCells]
        users := fun u hu => ((h.users u hu).frame (SameUB.setCell L w 3 _ u (by decide))).frame
          (SameUB.setCell L _ 0 _ u (by decide))
        keys := by intro p hp; cases hp
        regd := by intro p hp; cases hp }
    exact (deliverB_loop i (.error e) st.observers h.regd _ _ h1).conseq fun w' h' => h'
  | complete =>
    simp only [evCallB, BSubj.complete, Subj.complete, b0_lastItem, b0_inner, sj0_observers]
    refine wp_cellWrite h.held ?_
    refine wp_cellRead h.held ?_
    refine wp_cellWrite h.held ?_
    rw [show ({ w with cells := w.cells.set 2 .lnil } : World).cells[0]?.getD .unit
        = encMap (mapB L st.observers) from by
      show (w.cells.set 2 _)[0]?.getD .unit = _
      rw [set_get_other _ (by decide), h.cellO]; rfl, amapVals_encMap]
    have h1 : RelB L { w with cells := (w.cells.set 2 .lnil).set 0 .lnil }
        { st with lastItem := none, observers := [] } :=
      { h with
        cellO := set_get_same _ (by rw [set_get_other _ (by decide)]; exact h.cellO)
        cellS := by
          show ((w.cells.set _ _).set _ _)[_]? = _
          rw [set_get_other _ (by decide), set_get_other _ (by decide)]; exact h.cellS
        cellI := by
          show ((w.cells.set _ _).set _ _)[_]? = _
          rw [set_get_other _ (by decide)]; exact set_get_same _ h.cellI
        cellE := by
          show ((w.cells.set _ _).set _ _)[_]? = _
          rw [set_get_other _ (by decide), set_get_other _ (by decide)]; exact h.cellE
        nCells := by simp [h.nCells]
        users := fun u hu => ((h.users u hu).frame (SameUB.setCell L w 2 _ u (by decide))).frame
          (SameUB.setCell L _ 0 _ u (by decide))
        keys := by intro p hp; cases hp
        regd := by intro p hp; cases hp }
    exact (deliverB_loop i .complete st.observers h.regd _ _ h1).conseq fun w' h' => h'

/-! ### unsubscribe -/

theorem mapB_filter (L : List Bool) (l : List (Nat × Nat)) (s : Nat) :
    (mapB L l).filter (fun p => p.1 != s) = mapB L (l.filter fun p => p.1 != s) := by
  simp only [mapB, List.filter_map]; rfl

theorem getElem?_some_of_lt (L : List Bool) {u : Nat} (h : u < L.length) : ∃ b, L[u]? = some b :=
  ⟨L[u], List.getElem?_eq_getElem h⟩

theorem unsubscribeB_spec {L w st} (i : Data) (h : RelB L w st) (u : Nat) :
    WP (.userUnsub u .done) w (fun w' => RelB L w' (step (.behavior i) st (.unsubscribe u))) := by
  show WP _ w (fun w' => RelB L w' (unsubscribeN (.behavior i) st u).1)
  rcases Nat.lt_or_ge u L.length with hlt | hge
  · have U := h.users u hlt
    obtain ⟨a, hua, hah⟩ := U.user
    cases ha : a with
    | false =>
      subst ha
      have hk : (st.obs u).hook = false := by
        cases hk : (st.obs u).hook with
        | false => rfl
        | true => exact absurd (hah hk) (by simp)
      refine wp_userUnsub_spent hua (by simp) (WP.done ?_)
      rw [unsub_noop _ _ _ hk (U.dead hk)]; exact h
    | true =>
      subst ha
      refine wp_userUnsub_armed hua (by simp) ?_
      -- facts about the world after `Subscription::unsubscribe` took the handle and cleared the root observer
      have key : ∀ w1, w1 = ((w.setUser u fun x => { x with armed := false }).setObs (u + kOf L u) fun x =>
            { x.cleared with onUnsub := none }) →
          w1.cells = w.cells ∧ w1.held = [] ∧ w1.users[u]? = some ⟨u + kOf L u, noReact, true, false⟩ ∧
          (∀ j, j ≠ u → w1.users[j]? = w.users[j]?) ∧ w1.users.length = w.users.length ∧
          w1.obs.length = w.obs.length ∧ w1.obs[u + kOf L u]? = some ⟨none, none, none, none⟩ ∧
          (∀ j, j ≠ u + kOf L u → w1.obs[j]? = w.obs[j]?) ∧ (∀ j, logOf w1 j = logOf w j) ∧
          w1.status = w.status ∧ w1.slots = w.slots ∧ w1.obsvs = w.obsvs := by
        intro w1 hw1
        subst hw1
        refine ⟨rfl, h.held, ?_, ?_, ?_, ?_, ?_, ?_, fun _ => rfl, rfl, rfl, rfl⟩
        · show (w.setUser u _).users[u]? = _; rw [users_modify_same _ hua]
        · intro j hj; exact users_modify_other _ hj
        · simp [World.setObs, World.setUser]
        · simp [World.setObs, World.setUser]
        · show ((w.setUser u _).setObs (u + kOf L u) _).obs[u + kOf L u]? = _
          rw [getElem?_setObs_same _ (show (w.setUser u _).obs[u + kOf L u]? = _ from U.root)]; rfl
        · intro j hj
          show ((w.setUser u _).setObs (u + kOf L u) _).obs[j]? = _
          rw [getElem?_setObs_other _ (fun e => hj e.symm)]; rfl
      cases hk : (st.obs u).hook with
      | false =>
        have hal := U.dead hk
        refine wp_obsUnsub_none (x := rootOfB L u (st.obs u)) U.root (by simp [rootOfB, hk]) (WP.done ?_)
        obtain ⟨c1, held1, u1, u1o, u1l, o1l, o1r, o1o, l1, s1, sl1, ov1⟩ := key _ rfl
        rw [unsub_noop _ _ _ hk hal]
        have := h.patch hlt _ (st.obs u) st.observers s1 (held1.trans h.held.symm) sl1 ov1 (by rw [c1])
          (by rw [c1]; exact h.cellO) (fun j _ _ => by rw [c1])
          (fun hr => by rw [c1]; exact (U.reg hr).2.2) u1l u1o ⟨false, u1, fun x => by rw [hk] at x; cases x⟩
          o1l (fun j a _ => o1o j a) (fun j _ => l1 j)
          (by rw [o1r]; simp [rootOfB, cbN, cbE, cbC, hk, hal])
          (fun hr => by rw [o1o _ (by omega)]; exact (U.reg hr).1) U.unreg (by rw [l1, U.log]) U.seen U.dead
          h.keys h.regd
        rw [upd_self] at this
        exact this
      | true =>
        obtain ⟨b, hb⟩ := getElem?_some_of_lt L hlt
        have hr : L[u]? = some true := by
          cases b with
          | true => exact hb
          | false => have := U.unreg hb; rw [hk] at this; cases this
        obtain ⟨Ufwd, Usb, Uac⟩ := U.reg hr
        refine wp_obsUnsub_some (f := rootHookB (4 + 2 * kOf L u)) (x := rootOfB L u (st.obs u)) U.root
          (by simp [rootOfB, hk]) ?_
        generalize hw1 : World.setObs _ _ _ = w1
        obtain ⟨c1, held1, u1, u1o, u1l, o1l, o1r, o1o, l1, s1, sl1, ov1⟩ := key w1 hw1.symm
        unfold rootHookB
        refine wp_cellRead held1 ?_
        rw [c1, Usb]
        simp only [Option.getD_some, handleB, subUnsub, Int.toNat_natCast]
        refine wp_cellRead held1 ?_
        rw [c1, Uac]
        simp only [Option.getD_some, Data.toBool]
        rw [unsub_eta, unsub_obs_upd _ _ _ U.seen, unsub_observers]
        cases har : (st.obs u).armed with
        | false =>
          have hre : reaches (.behavior i) (st.obs u) = false := by simp [reaches, har, Kind.isPlain]
          simp only [Bool.false_eq_true, ↓reduceIte]
          refine WP.done (WP.done ?_)
          cases hin : (st.obs u).inHook <;> simp only [hre, Bool.false_eq_true, ↓reduceIte] <;>
          exact h.patch hlt w1 _ st.observers s1 (held1.trans h.held.symm) sl1 ov1 (by rw [c1])
            (by rw [c1]; exact h.cellO)
            (fun j _ _ => by rw [c1]) (fun _ => by rw [c1, Uac]; simp [har]) u1l u1o ⟨false, u1, fun x => by cases x⟩
            o1l (fun j a _ => o1o j a) (fun j _ => l1 j) (by rw [o1r]; simp [rootOfB, cbN, cbE, cbC])
            (fun _ => by rw [o1o _ (by omega), Ufwd]; simp [fwdOfB, hk, hin, Kind.isPlain])
            (fun _ => rfl) (by rw [l1, U.log]) U.seen (fun _ => rfl) h.keys h.regd
        | true =>
          simp only [↓reduceIte]
          refine wp_cellWrite held1 ?_
          generalize hw2 : World.mk _ _ _ _ _ _ _ _ = w2
          have held2 : w2.held = [] := by rw [← hw2]; exact held1
          have f2 : w2.obs[u + kOf L u + 1]? = some (fwdOfB L u (st.obs u)) := by
            rw [← hw2]; show w1.obs[u + kOf L u + 1]? = _; rw [o1o _ (by omega)]; exact Ufwd
          have c2 : w2.cells = w.cells.set (5 + 2 * kOf L u) (.bool false) := by rw [← hw2, ← c1]
          have hre : reaches (.behavior i) (st.obs u) = true := by simp [reaches, U.seen, hk, har]
          cases hin : (st.obs u).inHook with
          | none =>
            refine wp_obsUnsub_none f2 (by simp [fwdOfB, hin]) (WP.done (WP.done ?_))
            simp only []
            refine h.patch hlt _ _ st.observers (by rw [← hw2]; exact s1) (held2.trans h.held.symm)
              (by rw [← hw2]; exact sl1) (by rw [← hw2]; exact ov1)
              (by show w2.cells.length = _; rw [c2]; simp)
              (by show w2.cells[0]? = _; rw [c2, set_get_other _ (by omega)]; exact h.cellO)
              (fun j _ hj => by
                show w2.cells[j]? = _
                rw [c2, set_get_other _ (fun e => hj ⟨hr, e.symm⟩)])
              (fun _ => by show w2.cells[5 + 2 * kOf L u]? = _; rw [c2, set_get_same _ Uac]; simp [hk])
              (by rw [← hw2]; exact u1l) (fun j hj => by rw [← hw2]; exact u1o j hj)
              ⟨false, by rw [← hw2]; exact u1, fun x => by cases x⟩
              (by rw [← hw2]; simp [World.setObs, o1l])
              (fun j a b => by
                rw [getElem?_setObs_other _ (fun e => b ⟨hr, e.symm⟩), ← hw2]; exact o1o j a)
              (fun j _ => by rw [← hw2]; exact l1 j)
              (by rw [getElem?_setObs_other _ (by omega), ← hw2, o1r]; simp [rootOfB, cbN, cbE, cbC])
              (fun _ => by rw [getElem?_setObs_same _ f2]; simp [fwdOfB, hk, hin, Obs.cleared])
              (fun _ => rfl)
              (by rw [← hw2]; show logOf w1 u = _; rw [l1, U.log]) U.seen (fun _ => rfl) h.keys h.regd
          | some s =>
            simp only [hre, ↓reduceIte]
            refine wp_obsUnsub_some (f := hookProg sj0 (s : Int)) f2 (by simp [fwdOfB, hin]) ?_
            generalize hw3 : World.setObs _ _ _ = w3
            have held3 : w3.held = [] := by rw [← hw3]; exact held2
            have c3 : w3.cells = w.cells.set (5 + 2 * kOf L u) (.bool false) := by rw [← hw3]; exact c2
            unfold hookProg
            simp only [sj0_observers, sj0_onUnsub]
            refine wp_cellRead held3 ?_
            rw [c3, set_get_other _ (by omega), h.cellO]
            simp only [Option.getD_some, amapRemove_encMap, mapB_filter]
            refine wp_cellWrite held3 ?_
            refine wp_lockedSlotCall_none held3
              (by rw [← hw3, ← hw2]; show w1.slots[1]? = _; rw [sl1]; exact h.slotB)
              (WP.done (WP.done (WP.done ?_)))
            refine h.patch hlt _ _ _ (by rw [← hw3, ← hw2]; exact s1) (held3.trans h.held.symm)
              (by rw [← hw3, ← hw2]; exact sl1) (by rw [← hw3, ← hw2]; exact ov1)
              (by show (w3.cells.set _ _).length = _; rw [c3]; simp)
              (by show (w3.cells.set _ _)[0]? = _
                  rw [c3]; exact set_get_same _ (by rw [set_get_other _ (by omega)]; exact h.cellO))
              (fun j h0 hj => by
                show (w3.cells.set _ _)[j]? = _
                rw [c3, set_get_other _ (fun e => h0 e.symm), set_get_other _ (fun e => hj ⟨hr, e.symm⟩)])
              (fun _ => by
                show (w3.cells.set _ _)[5 + 2 * kOf L u]? = _
                rw [c3, set_get_other _ (by omega), set_get_same _ Uac]; simp [hk])
              (by rw [← hw3, ← hw2]; exact u1l) (fun j hj => by rw [← hw3, ← hw2]; exact u1o j hj)
              ⟨false, by rw [← hw3, ← hw2]; exact u1, fun x => by cases x⟩
              (by rw [← hw3, ← hw2]; simp [World.setObs, o1l])
              (fun j a b => by
                rw [← hw3]
                show (w2.setObs _ _).obs[j]? = _
                rw [getElem?_setObs_other _ (fun e => b ⟨hr, e.symm⟩), ← hw2]; exact o1o j a)
              (fun j _ => by rw [← hw3, ← hw2]; exact l1 j)
              (by rw [← hw3]
                  show (w2.setObs _ _).obs[u + kOf L u]? = _
                  rw [getElem?_setObs_other _ (by omega), ← hw2, o1r]; simp [rootOfB, cbN, cbE, cbC])
              (fun _ => by
                rw [← hw3]
                show (w2.setObs _ _).obs[u + kOf L u + 1]? = _
                rw [getElem?_setObs_same _ f2]; simp [fwdOfB, hk, Obs.cleared])
              (fun _ => rfl)
              (by rw [← hw3, ← hw2]; show logOf w1 u = _; rw [l1, U.log]) U.seen (fun _ => rfl)
              (fun p hp => h.keys p (List.mem_filter.1 hp).1) (fun p hp => h.regd p (List.mem_filter.1 hp).1)
  · refine wp_userUnsub_none (by apply List.getElem?_eq_none; rw [h.nUsers]; exact hge) (WP.done ?_)
    have : (unsubscribeN (.behavior i) st u).1 = st := by
      unfold unsubscribeN; simp [h.unseen u hge]
    rw [this]; exact h

/-! ### subscribe -/

theorem mapB_append (L : List Bool) (b : Bool) (l : List (Nat × Nat)) (hl : ∀ p ∈ l, L[p.2]? = some true) :
    mapB (L ++ [b]) l = mapB L l := by
  unfold mapB
  apply List.map_congr_left
  intro p hp
  rw [kOf_append_le _ _ (Nat.le_of_lt (RelB.lt_of_reg (hl p hp)))]

/-- the subscriptions made so far are untouched by a world that only grows and only rewrites cells 0,1 -/
theorem RelB.old_users {L w st} (h : RelB L w st) (b : Bool) (w' : World)
    (hu : ∀ j, j < L.length → w'.users[j]? = w.users[j]?)
    (ho : ∀ j, j < w.obs.length → w'.obs[j]? = w.obs[j]?)
    (hc : ∀ j, 2 ≤ j → j < w.cells.length → w'.cells[j]? = w.cells[j]?)
    (hl : ∀ u, u < L.length → logOf w' u = logOf w u) :
    ∀ u, u < L.length → UserOkB (L ++ [b]) w' u (st.obs u) := by
  intro u hlt
  have U := h.users u hlt
  have A := lay_lt L hlt
  have hk : kOf (L ++ [b]) u = kOf L u := kOf_append_le _ _ (Nat.le_of_lt hlt)
  have hg : (L ++ [b])[u]? = L[u]? := get_append_lt _ _ hlt
  have hol := h.nObs
  have hcl := h.nCells
  refine ⟨?_, ?_, ?_, ?_, ?_, U.seen, U.dead⟩
  · rw [hk, hu u hlt]; exact U.user
  · rw [hk, ho _ (by omega)]
    have : rootOfB (L ++ [b]) u (st.obs u) = rootOfB L u (st.obs u) := by simp [rootOfB, hk]
    rw [this]; exact U.root
  · intro hr
    rw [hg] at hr
    have := A.2 hr
    obtain ⟨f1, f2, f3⟩ := U.reg hr
    rw [hk, ho _ (by omega), hc _ (by omega) (by omega), hc _ (by omega) (by omega)]
    have e1 : fwdOfB (L ++ [b]) u (st.obs u) = fwdOfB L u (st.obs u) := by simp [fwdOfB, hk]
    have e2 : handleB (L ++ [b]) u = handleB L u := by simp [handleB, hk]
    rw [e1, e2]; exact ⟨f1, f2, f3⟩
  · intro hr; rw [hg] at hr; exact U.unreg hr
  · rw [hl u hlt]; exact U.log

/-- a `subscribe` that found a stored terminal: one observer (already ended), one user, one event -/
theorem RelB.extendUnreg {L w st} (h : RelB L w st) (w' : World) (t : Ev)
    (hstatus : w'.status = w.status) (hheld : w'.held = w.held) (hslots : w'.slots = w.slots)
    (hobsvs : w'.obsvs = w.obsvs) (hcells : w'.cells = w.cells)
    (hobs : w'.obs = w.obs ++ [⟨none, none, none, none⟩])
    (husers : w'.users = w.users ++ [⟨L.length + kOf L L.length, noReact, true, true⟩])
    (htrace : w'.trace = w.trace ++ [Rec.ev L.length t]) :
    RelB (L ++ [false]) w' { st with obs := upd st.obs L.length { seen := true, log := [t] } } := by
  have hlogs : ∀ u, logOf w' u = logOf w u ++ if L.length = u then [t] else [] := by
    intro u
    have e1 : logOf w' u = logOf { w with trace := w.trace ++ [t].map (Rec.ev L.length) } u := by
      simp only [logOf, htrace, List.map_cons, List.map_nil]
    rw [e1, logOf_trace_append, logOf_evs]
  have hkn : kOf (L ++ [false]) (L.length + 1) = kOf L L.length := by rw [kOf_append_last]; simp
  have hkl : kOf (L ++ [false]) L.length = kOf L L.length := kOf_append_le _ _ (Nat.le_refl _)
  have old := h.old_users false w'
    (fun j hj => by rw [husers, get_app_lt _ _ _ (by rw [h.nUsers]; exact hj)])
    (fun j hj => by rw [hobs, get_app_lt _ _ _ hj])
    (fun j _ _ => by rw [hcells])
    (fun u hu => by rw [hlogs]; simp [show ¬ L.length = u by omega])
  exact
    { status := hstatus ▸ h.status
      held := hheld ▸ h.held
      cellO := by rw [hcells, mapB_append _ _ _ h.regd]; exact h.cellO
      cellS := by rw [hcells]; exact h.cellS
      cellI := by rw [hcells]; exact h.cellI
      cellE := by rw [hcells]; exact h.cellE
      nCells := by rw [hcells, h.nCells]; simp [hkn]
      slotA := hslots ▸ h.slotA
      slotB := hslots ▸ h.slotB
      obsv := hobsvs ▸ h.obsv
      nUsers := by rw [husers]; simp [h.nUsers]
      nObs := by rw [hobs]; simp [h.nObs, hkn]; omega
      users := by
        intro u hu
        simp only [List.length_append, List.length_cons, List.length_nil] at hu
        by_cases e : u = L.length
        · subst e
          simp only [upd, ↓reduceIte]
          refine ⟨⟨true, by rw [husers, hkl, get_app_at _ _ _ 0 (by rw [h.nUsers]; rfl)]; rfl, fun _ => rfl⟩, ?_, ?_,
            fun _ => rfl, ?_, rfl, fun _ => rfl⟩
          · rw [hobs, hkl, get_app_at _ _ _ 0 (by rw [h.nObs]; rfl)]; rfl
          · intro hr; simp at hr
          · rw [hlogs, h.quiet _ (Nat.le_refl _)]; simp
        · simp only [upd, e, ↓reduceIte]
          exact old u (by omega)
      unseen := by
        intro u hu
        simp only [List.length_append, List.length_cons, List.length_nil] at hu
        have : u ≠ L.length := by omega
        simp only [upd, this, ↓reduceIte]; exact h.unseen u (by omega)
      quiet := by
        intro u hu
        simp only [List.length_append, List.length_cons, List.length_nil] at hu
        rw [hlogs, h.quiet u (by omega)]
        simp [show ¬ L.length = u by omega]
      keys := h.keys
      regd := fun p hp => by
        have := h.regd p hp
        rw [get_append_lt _ _ (RelB.lt_of_reg this)]; exact this }

/-- a `subscribe` that registers: root observer, forwarder, `sbsc`, armed flag, the latest value recorded -/
theorem RelB.extendReg {L w st} (h : RelB L w st) (w' : World) (rF : ObsSt)
    (hstatus : w'.status = w.status) (hheld : w'.held = w.held) (hslots : w'.slots = w.slots)
    (hobsvs : w'.obsvs = w.obsvs)
    (hobs : w'.obs = w.obs ++ [rootOfB (L ++ [true]) L.length rF, fwdOfB (L ++ [true]) L.length rF])
    (husers : w'.users = w.users ++ [⟨L.length + kOf L L.length, noReact, true, true⟩])
    (hcells : w'.cells = (w.cells.set 1 (.int ((st.serial + 1 : Nat) : Int))).set 0
        (encMap (mapB (L ++ [true]) (st.observers ++ [(st.serial + 1, L.length)]))) ++
      [handleB (L ++ [true]) L.length, .bool rF.armed])
    (htrace : w'.trace = w.trace ++ rF.log.map (Rec.ev L.length))
    (hseen : rF.seen = true) (hdead : rF.hook = false → rF.alive = false) :
    RelB (L ++ [true]) w'
      { st with serial := st.serial + 1, observers := st.observers ++ [(st.serial + 1, L.length)],
                obs := upd st.obs L.length rF } := by
  have hcl := h.nCells
  have hol := h.nObs
  have hul := h.nUsers
  have hB : ((w.cells.set 1 (.int ((st.serial + 1 : Nat) : Int))).set 0
      (encMap (mapB (L ++ [true]) (st.observers ++ [(st.serial + 1, L.length)])))).length = w.cells.length := by
    simp
  have cfix : ∀ j, 2 ≤ j → j < w.cells.length → w'.cells[j]? = w.cells[j]? := by
    intro j h2 hj
    rw [hcells, get_app_lt _ _ _ (by rw [hB]; exact hj), set_get_other _ (by omega), set_get_other _ (by omega)]
  have hlogs : ∀ u, logOf w' u = logOf w u ++ if L.length = u then rF.log else [] := by
    intro u
    have e1 : logOf w' u = logOf { w with trace := w.trace ++ rF.log.map (Rec.ev L.length) } u := by
      simp only [logOf, htrace]
    rw [e1, logOf_trace_append, logOf_evs]
  have hkn : kOf (L ++ [true]) (L.length + 1) = kOf L L.length + 1 := by rw [kOf_append_last]; simp
  have hkl : kOf (L ++ [true]) L.length = kOf L L.length := kOf_append_le _ _ (Nat.le_refl _)
  have old := h.old_users true w'
    (fun j hj => by rw [husers, get_app_lt _ _ _ (by rw [h.nUsers]; exact hj)])
    (fun j hj => by rw [hobs, get_app_lt _ _ _ hj])
    cfix
    (fun u hu => by rw [hlogs]; simp [show ¬ L.length = u by omega])
  exact
    { status := hstatus ▸ h.status
      held := hheld ▸ h.held
      cellO := by
        rw [hcells, get_app_lt _ _ _ (by rw [hB]; omega)]
        exact set_get_same _ (by rw [set_get_other _ (by omega)]; exact h.cellO)
      cellS := by
        rw [hcells, get_app_lt _ _ _ (by rw [hB]; omega), set_get_other _ (by omega)]
        exact set_get_same _ h.cellS
      cellI := by rw [cfix 2 (by omega) (by omega)]; exact h.cellI
      cellE := by rw [cfix 3 (by omega) (by omega)]; exact h.cellE
      nCells := by
        rw [hcells, List.length_append, hB, hcl]
        simp [hkn]; omega
      slotA := hslots ▸ h.slotA
      slotB := hslots ▸ h.slotB
      obsv := hobsvs ▸ h.obsv
      nUsers := by rw [husers]; simp [hul]
      nObs := by rw [hobs]; simp [hol, hkn]; omega
      users := by
        intro u hu
        simp only [List.length_append, List.length_cons, List.length_nil] at hu
        by_cases e : u = L.length
        · subst e
          simp only [upd, ↓reduceIte]
          refine ⟨⟨true, by rw [husers, hkl, get_app_at _ _ _ 0 (by rw [hul]; rfl)]; rfl, fun _ => rfl⟩, ?_, ?_, ?_, ?_,
            hseen, hdead⟩
          · rw [hobs, hkl, get_app_at _ _ _ 0 (by rw [hol]; rfl)]; rfl
          · intro _
            refine ⟨?_, ?_, ?_⟩
            · rw [hobs, hkl, get_app_at _ _ _ 1 (by rw [hol])]; rfl
            · rw [hcells, hkl, get_app_at _ _ _ 0 (by rw [hB, hcl]; rfl)]; rfl
            · rw [hcells, hkl, get_app_at _ _ _ 1 (by rw [hB, hcl]; omega)]; rfl
          · intro hr; simp at hr
          · rw [hlogs, h.quiet _ (Nat.le_refl _)]; simp
        · simp only [upd, e, ↓reduceIte]
          exact old u (by omega)
      unseen := by
        intro u hu
        simp only [List.length_append, List.length_cons, List.length_nil] at hu
        have : u ≠ L.length := by omega
        simp only [upd, this, ↓reduceIte]; exact h.unseen u (by omega)
      quiet := by
        intro u hu
        simp only [List.length_append, List.length_cons, List.length_nil] at hu
        rw [hlogs, h.quiet u (by omega)]
        simp [show ¬ L.length = u by omega]
      keys := by
        intro p hp
        rcases List.mem_append.1 hp with hp | hp
        · have := h.keys p hp; show p.1 ≤ st.serial + 1; omega
        · simp at hp; subst hp; exact Nat.le_refl _
      regd := by
        intro p hp
        rcases List.mem_append.1 hp with hp | hp
        · have := h.regd p hp
          rw [get_append_lt _ _ (RelB.lt_of_reg this)]; exact this
        · simp at hp; subst hp; simp }

/-- the record of a subscriber that joined a BehaviorSubject holding `v` -/
def liveRecB (serial : Nat) (v : Data) : ObsSt :=
  { seen := true, alive := true, log := [.next v], hook := true, inAlive := true, inHook := some (serial + 1), armed := true }

/-- `SubjM.step (.behavior i) _ (.subscribe n)` for an unused id, computed -/
theorem stepB_subscribe (i : Data) (st : State) (n : Nat) (hu : (st.obs n).seen = false) :
    step (.behavior i) st (.subscribe n) =
      match st.lastError with
      | some e => { st with obs := upd st.obs n { seen := true, log := [.error e] } }
      | none =>
        match st.lastItem with
        | none => { st with obs := upd st.obs n { seen := true, log := [.complete] } }
        | some v =>
          { st with
            serial := st.serial + 1
            observers := st.observers ++ [(st.serial + 1, n)]
            obs := upd st.obs n (liveRecB st.serial v) } := by
  simp only [step, subscribeA, hu, Bool.false_eq_true, ↓reduceIte, subscribeB, Kind.isReplay, Bool.false_and,
    subscribeH]
  cases h1 : st.lastError with
  | some e => rfl
  | none =>
    cases h2 : st.lastItem with
    | none => rfl
    | some v => simp [register, liveRecB, h1, h2]

theorem stepB_sub_err (i : Data) (st : State) (n : Nat) (hu : (st.obs n).seen = false) {e : Nat}
    (hle : st.lastError = some e) :
    step (.behavior i) st (.subscribe n) = { st with obs := upd st.obs n { seen := true, log := [.error e] } } := by
  rw [stepB_subscribe i st n hu]; simp [hle]

theorem stepB_sub_done (i : Data) (st : State) (n : Nat) (hu : (st.obs n).seen = false)
    (hle : st.lastError = none) (hli : st.lastItem = none) :
    step (.behavior i) st (.subscribe n) = { st with obs := upd st.obs n { seen := true, log := [.complete] } } := by
  rw [stepB_subscribe i st n hu]; simp [hle, hli]

theorem stepB_sub_live (i : Data) (st : State) (n : Nat) (hu : (st.obs n).seen = false) {v : Data}
    (hle : st.lastError = none) (hli : st.lastItem = some v) :
    step (.behavior i) st (.subscribe n) =
      { st with
        serial := st.serial + 1
        observers := st.observers ++ [(st.serial + 1, n)]
        obs := upd st.obs n (liveRecB st.serial v) } := by
  rw [stepB_subscribe i st n hu]; simp [hle, hli]

theorem subscribeB_spec {L w st} (i : Data) (h : RelB L w st) :
    WP (.userSub 0 noReact .done) w
      (fun w' => ∃ b, RelB (L ++ [b]) w' (step (.behavior i) st (.subscribe L.length))) := by
  have hu : (st.obs L.length).seen = false := by rw [h.unseen _ (Nat.le_refl _)]
  generalize hstF : step (.behavior i) st (.subscribe L.length) = stF
  refine wp_userSub h.obsv ?_
  unfold BSubj.observable
  simp only [b0_lastItem, b0_lastError, b0_inner]
  refine wp_cellRead h.held ?_
  refine wp_cellRead h.held ?_
  dsimp only
  rw [h.cellI, h.cellE]
  simp only [Option.getD_some]
  have hroot : ∀ (us : List User) (tr : List Rec),
      ({ w with
          obs := w.obs ++ [⟨some (.user w.users.length), some (.user w.users.length), some (.user w.users.length), none⟩]
          users := us, trace := tr } : World).obs[w.obs.length]? =
        some ⟨some (.user w.users.length), some (.user w.users.length), some (.user w.users.length), none⟩ := by
    intro us tr; dsimp only; rw [get_app0]; rfl
  cases hle : st.lastError with
  | some e =>
    rw [stepB_sub_err i st _ hu hle] at hstF
    subst hstF
    simp only [Option.map_some, Data.optEnc, Data.optDec, toNat_int]
    refine wp_ev_user (ev := .error e) (hroot _ _) rfl rfl rfl (by dsimp only; rw [get_app0]; rfl) rfl
      (WP.done (wp_userReady (WP.done ?_)))
    simp only [World.deliverTo, Ev.isTerminal, ↓reduceIte]
    dsimp only [World.setUser, World.setObs, World.emit]
    rw [modify_app0, modify_app0]
    simp only [List.modify_cons, ↓reduceIte, Obs.cleared]
    refine ⟨false, ?_⟩
    refine RelB.extendUnreg h _ (.error e) (by rfl) (by rfl) (by rfl) (by rfl) (by rfl) (by rfl) ?_ ?_
    · dsimp only; rw [h.nObs]
    · dsimp only; rw [h.nUsers]
  | none =>
    cases hli : st.lastItem with
    | none =>
      rw [stepB_sub_done i st _ hu hle hli] at hstF
      subst hstF
      simp only [Option.map_none, Data.optEnc, Data.optDec]
      refine wp_ev_user (ev := .complete) (hroot _ _) rfl rfl rfl (by dsimp only; rw [get_app0]; rfl) rfl
        (WP.done (wp_userReady (WP.done ?_)))
      simp only [World.deliverTo, Ev.isTerminal, ↓reduceIte]
      dsimp only [World.setUser, World.setObs, World.emit]
      rw [modify_app0, modify_app0]
      simp only [List.modify_cons, ↓reduceIte, Obs.cleared]
      refine ⟨false, ?_⟩
      refine RelB.extendUnreg h _ .complete (by rfl) (by rfl) (by rfl) (by rfl) (by rfl) (by rfl) ?_ ?_
      · dsimp only; rw [h.nObs]
      · dsimp only; rw [h.nUsers]
    | some v =>
      rw [stepB_sub_live i st _ hu hle hli] at hstF
      subst hstF
      simp only [Option.map_none, Data.optEnc, Data.optDec]
      refine wp_ev_user (ev := .next v) (hroot _ _) rfl rfl rfl (by dsimp only; rw [get_app0]; rfl) rfl ?_
      simp only [World.deliverTo, Ev.isTerminal, Bool.false_eq_true, ↓reduceIte]
      dsimp only [World.emit]
      refine wp_obsIsSub (hroot _ _) ?_
      simp only [Obs.isSub, Option.isSome_some, Bool.and_self, Bool.not_true, Bool.false_eq_true, ↓reduceIte]
      refine wp_cellNew ?_
      dsimp only
      refine wp_obsSetOnUnsub h.held ?_
      dsimp only [World.setObs]
      rw [modify_app0]
      simp only [List.modify_cons, ↓reduceIte]
      generalize hrh : (Prog.cellRead w.cells.length false fun h => subUnsub h) = rh
      unfold subscribeWith
      refine wp_obsNew ?_
      dsimp only
      simp only [List.length_append, List.length_cons, List.length_nil, List.append_assoc, List.cons_append,
        List.nil_append, Nat.zero_add]
      refine WP.seq ?_
      simp only [Obsv.sub]
      refine wp_obsIsSub (by dsimp only; rw [get_app_ge _ _ 1]; rfl) ?_
      simp only [Obs.isSub, Option.isSome_some, Bool.and_self, ↓reduceIte]
      have hcl : 4 ≤ w.cells.length := by rw [h.nCells]; omega
      refine observable_spec (sj := sj0) (serial := st.serial) (obsl := mapB L st.observers) h.held
        (by dsimp only; rw [get_app_ge _ _ 1]; rfl) rfl (by decide)
        (by dsimp only [sj0_serial]; rw [get_app_lt _ _ _ (by omega)]; exact h.cellS)
        (by dsimp only [sj0_observers]; rw [get_app_lt _ _ _ (by omega)]; exact h.cellO)
        (keys_mapB h.keys) h.slotA ?_
      dsimp only [subWorld, World.setObs, sj0_serial, sj0_observers]
      rw [modify_app _ _ 1]
      simp only [List.modify_cons, ↓reduceIte, Nat.reduceEqDiff, Nat.add_one_sub_one]
      rw [set_app_lt _ _ _ _ (by omega), set_app_lt _ _ _ _ (by simp; omega)]
      refine wp_cellNew ?_
      dsimp only
      simp only [List.length_append, List.length_set, List.length_cons, List.length_nil, Nat.zero_add]
      refine wp_cellWrite h.held ?_
      dsimp only
      rw [List.append_assoc, set_app_at _ _ _ 0 _ (by simp)]
      simp only [List.cons_append, List.nil_append, List.set_cons_zero]
      refine WP.done (wp_userReady (WP.done ?_))
      dsimp only [World.setUser]
      rw [modify_app0]
      simp only [List.modify_cons, ↓reduceIte]
      subst hrh
      have hkl : kOf (L ++ [true]) L.length = kOf L L.length := kOf_append_le _ _ (Nat.le_refl _)
      refine ⟨true, ?_⟩
      refine RelB.extendReg h _ (liveRecB st.serial v) (by rfl) (by rfl) (by rfl) (by rfl) ?_ ?_ ?_ ?_ rfl
        (by simp [liveRecB])
      · dsimp only
        rw [h.nObs, h.nUsers, h.nCells]
        simp [rootOfB, fwdOfB, liveRecB, hkl, cbN, cbE, cbC, rootHookB]
      · dsimp only; rw [h.nObs]
      · dsimp only
        have hm : mapB (L ++ [true]) (st.observers ++ [(st.serial + 1, L.length)]) =
            mapB L st.observers ++ [(st.serial + 1, L.length + kOf L L.length + 1)] := by
          have := mapB_append L true _ h.regd
          simp only [mapB, List.map_append, List.map_cons, List.map_nil, hkl] at this ⊢
          rw [this]
        rw [h.nObs, h.nCells, hm]
        simp [handleB, liveRecB, hkl]
        omega
      · dsimp only; rw [h.nUsers]; simp [liveRecB]

/-! ### call sequences, the whole program -/

def callProgB (b : BSubj) (id : Nat) : Call → Prog
  | .subscribe _ => .userSub id noReact .done
  | .unsubscribe o => .userUnsub o .done
  | .next v => b.next v
  | .error e => b.error e
  | .complete => b.complete

theorem callB_spec {L w st} (i : Data) (h : RelB L w st) (c : Call) (hc : wfFrom L.length [c] = true) :
    WP (callProgB b0 0 c) w
      (fun w' => ∃ L', L'.length = L.length + subs [c] ∧ RelB L' w' (step (.behavior i) st c)) := by
  cases c with
  | subscribe o =>
    have : o = L.length := by simpa [wfFrom] using hc
    subst this
    refine (subscribeB_spec i h).conseq ?_
    rintro w' ⟨b, hb⟩
    exact ⟨L ++ [b], by simp [subs, isSubscribe, List.filter], hb⟩
  | unsubscribe o => exact (unsubscribeB_spec i h o).conseq fun w' h' => ⟨L, rfl, h'⟩
  | next v => exact (emitB_spec i h (.next v)).conseq fun w' h' => ⟨L, rfl, h'⟩
  | error e => exact (emitB_spec i h (.error e)).conseq fun w' h' => ⟨L, rfl, h'⟩
  | complete => exact (emitB_spec i h .complete).conseq fun w' h' => ⟨L, rfl, h'⟩

theorem callsB_spec (i : Data) (cs : List Call) : ∀ (L : List Bool) (w : World) (st : State), RelB L w st →
    wfFrom L.length cs = true →
    WP (forEach cs (callProgB b0 0)) w
      (fun w' => ∃ L', L'.length = L.length + subs cs ∧ RelB L' w' (runFrom (.behavior i) st cs)) := by
  induction cs with
  | nil => intro L w st h _; exact WP.done ⟨L, rfl, h⟩
  | cons c rest ih =>
    intro L w st h hwf
    rw [wfFrom_cons, Bool.and_eq_true] at hwf
    simp only [forEach]
    apply WP.seq
    refine (callB_spec i h c hwf.1).conseq ?_
    rintro w1 ⟨L1, hl1, h1⟩
    refine (ih L1 w1 _ h1 (by rw [hl1]; exact hwf.2)).conseq ?_
    rintro w2 ⟨L2, hl2, h2⟩
    exact ⟨L2, by rw [hl2, hl1, subs_cons c rest, Nat.add_assoc], h2⟩

/-- allocate a `BehaviorSubject` holding `i` (behavior_subject.rs `new`: Subject, last_item = Some(i),
    last_error = None), make its observable, perform the calls in order -/
def progB (i : Data) (cs : List Call) : Prog :=
  subjNew fun sj => .cellNew (Data.optEnc (some i)) fun li => .cellNew .lnil fun le =>
    .obsvNew (BSubj.observable ⟨sj, li, le⟩) fun id => forEach cs (callProgB ⟨sj, li, le⟩ id)

theorem relB_init (i : Data) :
    RelB [] { cells := [.lnil, .int 0, Data.optEnc (some i), .lnil], slots := [none, none], obsvs := [b0.observable] }
      (init (.behavior i)) :=
  { status := rfl, held := rfl, cellO := rfl, cellS := rfl, cellI := rfl, cellE := rfl, nCells := rfl
    slotA := rfl, slotB := rfl, obsv := rfl, nUsers := rfl, nObs := rfl
    users := fun u hu => by simp at hu
    unseen := fun _ _ => rfl
    quiet := fun _ _ => rfl
    keys := fun p hp => by cases hp
    regd := fun p hp => by cases hp }

theorem progB_spec (i : Data) (cs : List Call) (hwf : wfFrom 0 cs = true) :
    WP (progB i cs) {} (fun w' => ∃ L, RelB L w' (SubjM.run (.behavior i) cs)) := by
  unfold progB subjNew
  refine wp_cellNew (wp_cellNew (wp_slotNew (wp_slotNew (wp_cellNew (wp_cellNew (wp_obsvNew ?_))))))
  refine (callsB_spec i cs [] _ _ (relB_init i) hwf).conseq ?_
  rintro w' ⟨L, _, h⟩
  exact ⟨L, h⟩

def FinalB (i : Data) (cs : List Call) (w : World) : Prop :=
  ∃ n0, ∀ fuel, n0 ≤ fuel → run fuel [progB i cs] {} = w

theorem FinalB.unique {i cs w w'} (h : FinalB i cs w) (h' : FinalB i cs w') : w = w' := by
  obtain ⟨a, ha⟩ := h
  obtain ⟨b, hb⟩ := h'
  rw [← ha (a + b) (by omega), ← hb (a + b) (by omega)]

/-- what the differential test compares (`O=` is `mapCount`) -/
structure AgreesB (w : World) (st : State) : Prop where
  status : w.status = .ok
  held : w.held = []
  logs : ∀ u, logOf w u = SubjM.logOf st u
  count : mapCount w = (registered st).length
  alive : ∀ u, w.isSubOf u = aliveOf st u

theorem RelB.agrees {L w st} (h : RelB L w st) : AgreesB w st := by
  have hc : w.cells[0]?.getD .lnil = encMap (mapB L st.observers) := by rw [h.cellO]; rfl
  refine ⟨h.status, h.held, ?_, ?_, ?_⟩
  · intro u
    rcases Nat.lt_or_ge u L.length with hlt | hge
    · exact (h.users u hlt).log
    · rw [h.quiet u hge, SubjM.logOf, h.unseen u hge]
  · simp [mapCount, hc, amapLen_encMap, registered, mapB]
  · intro u
    rcases Nat.lt_or_ge u L.length with hlt | hge
    · have U := h.users u hlt
      obtain ⟨a, hua, _⟩ := U.user
      simp only [World.isSubOf, hua, U.root, aliveOf]
      cases ha : (st.obs u).alive <;> simp [rootOfB, Obs.isSub, ha, cbN, cbE, cbC]
    · have : w.users[u]? = none := by apply List.getElem?_eq_none; rw [h.nUsers]; exact hge
      simp only [World.isSubOf, this, aliveOf, h.unseen u hge]

/-- **C10-REF, BehaviorSubject.**  For every initial value and every call sequence whose `subscribe` calls are
    numbered in order, model A's program (allocate the behavior subject, perform the calls through the
    transliterated macros of `Machine/Subjects.lean`) terminates with `status = ok` and agrees with `SubjM`
    (kind `.behavior i`) on every user's log, on the size of the observer map and on who is still subscribed. -/
theorem behavior_refines (i : Data) (cs : List Call) (hwf : wfFrom 0 cs = true) :
    ∃ w, FinalB i cs w ∧ AgreesB w (SubjM.run (.behavior i) cs) := by
  obtain ⟨n0, w, ⟨L, hrel⟩, hrun⟩ := WP.run_top (progB_spec i cs hwf)
  exact ⟨w, ⟨n0, hrun⟩, hrel.agrees⟩

theorem behavior_refines_fuel (i : Data) (cs : List Call) (hwf : wfFrom 0 cs = true) :
    ∃ n0, ∀ fuel, n0 ≤ fuel →
      (run fuel [progB i cs] {}).status = .ok ∧
      (∀ u, logOf (run fuel [progB i cs] {}) u = SubjM.logOf (SubjM.run (.behavior i) cs) u) ∧
      mapCount (run fuel [progB i cs] {}) = (registered (SubjM.run (.behavior i) cs)).length ∧
      (∀ u, (run fuel [progB i cs] {}).isSubOf u = aliveOf (SubjM.run (.behavior i) cs) u) := by
  obtain ⟨w, ⟨n0, hrun⟩, ha⟩ := behavior_refines i cs hwf
  refine ⟨n0, fun fuel hf => ?_⟩
  rw [hrun fuel hf]
  exact ⟨ha.status, ha.logs, ha.count, ha.alive⟩

theorem callB_run {L w st} (i : Data) (h : RelB L w st) (c : Call) (hc : wfFrom L.length [c] = true) :
    ∃ n0, ∀ fuel, n0 ≤ fuel →
      ∃ L', L'.length = L.length + subs [c] ∧ RelB L' (run fuel [callProgB b0 0 c] w) (step (.behavior i) st c) := by
  obtain ⟨n0, w', hrel, hrun⟩ := WP.run_top (callB_spec i h c hc)
  exact ⟨n0, fun fuel hf => by rw [hrun fuel hf]; exact hrel⟩

theorem finalB_agrees {i cs w} (hwf : wfFrom 0 cs = true) (h : FinalB i cs w) :
    AgreesB w (SubjM.run (.behavior i) cs) := by
  obtain ⟨w', hf, ha⟩ := behavior_refines i cs hwf
  rw [h.unique hf]; exact ha

/-! ### C10's BehaviorSubject statements on model A -/

/-- **`behavior_handover` on model A**: a new user of the machine's BehaviorSubject first records the stored error
    and nothing else, or — the last item having been emptied by `complete` — just `complete`, or else the latest
    value followed by exactly what a plain Subject gives an observer subscribed at that moment. -/
theorem machine_behavior_handover (i : Data) (pre post : List Call) (o : Nat)
    (hwf : wfFrom 0 (pre ++ .subscribe o :: post) = true) {w : World}
    (h : FinalB i (pre ++ .subscribe o :: post) w) :
    logOf w o =
      match storedError none pre with
      | some e => [.error e]
      | none =>
        match latestValue (some i) pre with
        | none => [.complete]
        | some v => .next v :: plainExpect o post := by
  rw [(finalB_agrees hwf h).logs, behavior_handover i pre post o (wf_fresh pre post o hwf)]
  have hplain : SubjM.logOf (SubjM.run .plain (.subscribe o :: post)) o = plainExpect o post := by
    simpa using plain_log_spec [] post o (by simp)
  rw [hplain]
  cases storedError none pre with
  | some e => rfl
  | none => cases latestValue (some i) pre <;> rfl

/-- **`no_observer_after_terminal` on model A** (behavior) -/
theorem machine_behavior_no_observer_after_terminal (i : Data) (cs : List Call) (c : Call) (ev : Ev)
    (hc : c.toEv? = some ev) (ht : ev.isTerminal = true) (hwf : wfFrom 0 (cs ++ [c]) = true) {w : World}
    (h : FinalB i (cs ++ [c]) w) : mapCount w = 0 := by
  have b := finalB_agrees hwf h
  have := no_observer_after_terminal (.behavior i) cs c ev hc ht
  rw [← run_snoc] at this
  rw [b.count, this]; rfl

/-- as written (behavior_subject.rs:26-29) a `next` after `complete` brings the value back — on model A too -/
theorem machine_behavior_forgets_complete {w : World}
    (h : FinalB (.int 0) [.complete, .next (.int 5), .subscribe 0, .next (.int 6)] w) :
    logOf w 0 = [.next (.int 5), .next (.int 6)] := by
  rw [(finalB_agrees (by decide) h).logs]; exact behavior_forgets_complete

/-! ### non-vacuity -/

def demoB : List Call :=
  [.subscribe 0, .next (.int 1), .subscribe 1, .unsubscribe 0, .next (.int 2), .complete, .subscribe 2,
   .next (.int 3), .subscribe 3, .error 7, .subscribe 4, .unsubscribe 2]

example : wfFrom 0 demoB = true := by decide
example : (run 2000 [progB (.int 0) demoB] {}).status = .ok := by decide +kernel
example : (List.range 5).map (logOf (run 2000 [progB (.int 0) demoB] {})) =
    (List.range 5).map (SubjM.logOf (SubjM.run (.behavior (.int 0)) demoB)) := by decide +kernel
example : (List.range 5).map (SubjM.logOf (SubjM.run (.behavior (.int 0)) demoB)) =
    [[.next (.int 0), .next (.int 1)], [.next (.int 1), .next (.int 2), .complete], [.complete],
     [.next (.int 3), .error 7], [.error 7]] := by decide +kernel
example : mapCount (run 2000 [progB (.int 0) (demoB.take 5)] {}) = 1 ∧
    registered (SubjM.run (.behavior (.int 0)) (demoB.take 5)) = [1] := by decide +kernel
example : ∃ w L, FinalB (.int 9) [.subscribe 0, .complete, .subscribe 1, .unsubscribe 0] w ∧
    RelB L w (SubjM.run (.behavior (.int 9)) [.subscribe 0, .complete, .subscribe 1, .unsubscribe 0]) := by
  obtain ⟨n0, w, ⟨L, hrel⟩, hrun⟩ := WP.run_top (progB_spec (.int 9) [.subscribe 0, .complete, .subscribe 1, .unsubscribe 0]
    (by decide))
  exact ⟨w, L, ⟨n0, hrun⟩, hrel⟩

/-
NOT DONE HERE — AsyncSubject: see C10RefAsync.lean (the subject was repaired, F17; it no longer goes through `stdOp`).
Wanted:   theorem async_refines (cs : List Call) (hwf : wfFrom 0 cs = true) :
            ∃ w, FinalA cs w ∧ AgreesA w (SubjM.run .async cs)
Missing:  a per-subscription representation of the StreamController that `stdOp` allocates for every subscriber
          (serial cell, `unscribers` map cell, kernel state cell, `on_finalize` slot, the take_last observer).
          `Sim.Rep` (Theorems/SimBase.lean) describes ONE such subscription in isolation; it has to become a family
          indexed by the user with a layout function like `kOf` above, and `Sim.loop_spec`'s handler lemmas have to be
          run inside the broadcast loop (`deliverB_loop` shape) instead of on a cold source.
-/

#print axioms behavior_refines
#print axioms behavior_refines_fuel
#print axioms callB_run
#print axioms machine_behavior_handover
#print axioms machine_behavior_no_observer_after_terminal
#print axioms machine_behavior_forgets_complete

end Rx.RefB
