/-
C09 — observe_on / subscribe_on hand events to the scheduler: none lost, none reordered.
Theorems about the transition systems of `RxVerif/Conc/Handoff.lean`, for ALL scripts and ALL interleavings.
-/
import RxVerif.Conc.Handoff

namespace Rx.Handoff

theorem step_split {s s' : State} {l : Label} (h : step s l = some s') :
    srcStep s l.kind = some s' ∨ wrkStep s l.kind = some s' ∨ unsStep s l.kind = some s' := by
  simp only [step] at h
  split at h
  · exact .inl h
  · exact .inr (.inl h)
  · exact .inr (.inr h)
  · cases h

/-- case analysis on one step of a thread: one goal per enabled micro-step, the successor state an explicit record -/
macro "thread_cases " h:ident : tactic => `(tactic| (
  simp only [srcStep, wrkStep, unsStep, finW, finU, finEnabled, finEffect, finNext] at $h:ident
  repeat' (split at $h:ident)
  all_goals (first | (cases $h:ident; done) | (simp only [Option.some.injEq] at $h:ident; subst $h:ident))))

theorem Ev.isTerminal_eq (e : Ev) : e.isTerminal = (e.isErr || e.isCompl) := by
  cases e <;> rfl

/-! ## Invariant S: slots, claims, abort -/

/-- the unsubscriber has executed its first clear -/
def UPc.began : UPc → Bool
  | .idle | .c0 | .done => false
  | _ => true

/-- the worker is inside the terminal delivery after a successful claim -/
def WPc.claiming : WPc → Bool
  | .clrOther | .takeOwn | .cbT | .inCbT => true
  | _ => false

def WPc.inFin : WPc → Bool
  | .fin _ => true
  | _ => false

/-- the unsubscriber has passed `f.call(())` in `finalize` -/
def UPc.stopped : UPc → Bool
  | .fin .unlock | .ret => true
  | _ => false

structure InvSa (s : State) : Prop where
  slots : s.sNext = true → s.sErr = true ∧ s.sCompl = true
  wclaim : s.wpc.claiming = true → s.sNext = false
  wterm : (s.wpc.claiming = true ∨ s.wpc = .claim ∨ s.wpc = .remove) → s.wcur.isTerminal = true
  ubegan : s.unsubBegan = (s.upc.began || s.unsubReturned)
  uret : s.unsubReturned = true → s.upc = .done
  uc1 : s.upc.began = true → s.sNext = false
  uc2 : (s.upc.began = true ∧ s.upc ≠ .c1) → s.sErr = false
  uc3 : (s.upc.began = true ∧ s.upc ≠ .c1 ∧ s.upc ≠ .c2) → s.sCompl = false
  wfin : s.wpc.inFin = true → s.sNext = false
  onfin : s.onFin = false → s.abort = true
  claimed : s.claimed = true → s.sNext = false
  fresh : (s.unsubBegan = false ∧ s.claimed = false) → s.sNext = true
  own1 : (s.unsubBegan = false ∧ s.wpc = .clrOther) → s.sErr = true ∧ s.sCompl = true
  own2 : (s.unsubBegan = false ∧ s.wpc = .takeOwn) → s.ownS s.wcur = true

structure InvSb (s : State) : Prop where
  first : s.claimed = true → s.termReturned = true ∨ s.unsubBegan = true ∨ s.wpc.claiming = true
  finwhy : s.wpc.inFin = true → s.termReturned = true ∨ s.unsubBegan = true
  abortwhy : s.abort = true → s.termReturned = true ∨ s.unsubBegan = true
  tstart : s.termStarted = true → s.claimed = true
  tret : s.termReturned = true → s.termStarted = true
  ustop : (s.upc.stopped = true ∨ s.unsubReturned = true) → s.abort = true
  late : s.curLate = false ∧ s.lateCb = false
  wdone : s.wpc = .done → s.abort = true
  nonest : s.wpc ≠ .fin .nested ∧ s.upc ≠ .fin .nested
  wclaimed : s.wpc.claiming = true → s.claimed = true
  wincbt : s.wpc = .inCbT → s.termStarted = true
  ubn : s.unsubBegan = true → s.sNext = false
  udone : s.unsubReturned = true → s.sErr = false ∧ s.sCompl = false

/-- invariant S: subscriber slots, claims and the abort flag -/
def InvS (s : State) : Prop := InvSa s ∧ InvSb s

theorem invS_init (cfg : Config) : InvS (init cfg) := by
  constructor <;> constructor <;> simp [init] <;> cases cfg.hasUnsub <;>
    simp [UPc.began, WPc.claiming, WPc.inFin, UPc.stopped]

macro "invS_tac" : tactic => `(tactic| (
  all_goals
    constructor <;> dsimp only <;> first | assumption |
    grind [State.ownS, UPc.began, WPc.claiming, WPc.inFin, UPc.stopped, Ev.isTerminal, Ev.isTerminal_eq, Ev.isErr,
      Ev.isCompl]))

theorem invS_src {s s' : State} {k : Kind} (h : InvS s) (hs : srcStep s k = some s') : InvS s' := by
  obtain ⟨⟨h1, h2, h3, h4, h5, h6, h7, h8, h9, h10, h11, h12, h13, h14⟩,
    ⟨h15, h16, h17, h18, h19, h20, h21, h22, h23, h24, h25, h26, h27⟩⟩ := h
  thread_cases hs
  all_goals constructor
  invS_tac

theorem invSa_wrk {s s' : State} {k : Kind} (h : InvS s) (hs : wrkStep s k = some s') : InvSa s' := by
  obtain ⟨⟨h1, h2, h3, h4, h5, h6, h7, h8, h9, h10, h11, h12, h13, h14⟩,
    ⟨h15, h16, h17, h18, h19, h20, h21, h22, h23, h24, h25, h26, h27⟩⟩ := h
  thread_cases hs
  invS_tac

theorem invSb_wrk {s s' : State} {k : Kind} (h : InvS s) (hs : wrkStep s k = some s') : InvSb s' := by
  obtain ⟨⟨h1, h2, h3, h4, h5, h6, h7, h8, h9, h10, h11, h12, h13, h14⟩,
    ⟨h15, h16, h17, h18, h19, h20, h21, h22, h23, h24, h25, h26, h27⟩⟩ := h
  thread_cases hs
  invS_tac

theorem invS_uns {s s' : State} {k : Kind} (h : InvS s) (hs : unsStep s k = some s') : InvS s' := by
  obtain ⟨⟨h1, h2, h3, h4, h5, h6, h7, h8, h9, h10, h11, h12, h13, h14⟩,
    ⟨h15, h16, h17, h18, h19, h20, h21, h22, h23, h24, h25, h26, h27⟩⟩ := h
  thread_cases hs
  all_goals constructor
  invS_tac

theorem invS_step {s s' : State} {l : Label} (h : InvS s) (hs : step s l = some s') : InvS s' := by
  rcases step_split hs with h1 | h1 | h1
  · exact invS_src h h1
  · exact ⟨invSa_wrk h h1, invSb_wrk h h1⟩
  · exact invS_uns h h1

theorem invS_reachable {cfg : Config} {s : State} (h : Reachable cfg s) : InvS s := by
  induction h with
  | init => exact invS_init cfg
  | step _ hs ih => exact invS_step ih hs

/-! ## Invariant P: delivered ≤ taken ≤ posted ≤ consumed ≤ script (prefix order) -/

theorem pre_snoc {l m : List Ev} (a : Ev) (h : l <+: m) : l <+: m ++ [a] :=
  h.trans (List.prefix_append _ _)

theorem pre_of_snoc_eq {l m : List Ev} {a : Ev} (h : l ++ [a] = m) : l <+: m := h ▸ List.prefix_append _ _

theorem pre_of_eq {l m : List Ev} (h : l = m) : l <+: m := h ▸ List.prefix_refl _

/-- the worker holds a task and has not yet decided whether the callback will run -/
def WPc.pre : WPc → Bool
  | .chk0 | .chk1 | .chk2 | .fetch | .remove | .claim => true
  | _ => false

/-- the worker is committed to run the callback of the task it holds (function fetched / `fn_next` claimed) -/
def WPc.com : WPc → Bool
  | .clrOther | .takeOwn | .cbN | .cbT => true
  | _ => false

structure InvP (cfg : Config) (s : State) : Prop where
  script : cfg.script = s.consumed ++ s.todo
  sbusy : s.spc ≠ .idle → s.posted ++ [s.scur] = s.consumed
  sidle : s.spc = .idle → s.posted <+: s.consumed ∧ (s.upNext = true → s.posted = s.consumed)
  sterm : (s.spc = .clrOther ∨ s.spc = .takeOwn) → s.upNext = false
  chan : s.taken <+: s.posted ∧ (s.abort = false → s.posted = s.taken ++ s.queue)
  wpre : s.wpc.pre = true → s.delivered <+: s.taken ∧ (s.sNext = true → s.delivered ++ [s.wcur] = s.taken)
  wcom : s.wpc.com = true → s.delivered ++ [s.wcur] = s.taken
  woth : (s.wpc.pre = false ∧ s.wpc.com = false) →
    s.delivered <+: s.taken ∧ (s.sNext = true → s.delivered = s.taken)

theorem invP_init (cfg : Config) : InvP cfg (init cfg) := by
  constructor <;> simp [init, WPc.pre, WPc.com]

macro "invP_tac" : tactic => `(tactic| (
  all_goals
    constructor <;> dsimp only <;> first | assumption |
    grind [WPc.pre, WPc.com, WPc.claiming, WPc.inFin, UPc.began, pre_snoc, pre_of_snoc_eq, pre_of_eq,
      List.append_assoc, List.prefix_refl]))

theorem invP_src {cfg : Config} {s s' : State} {k : Kind} (h : InvP cfg s)
    (hs : srcStep s k = some s') : InvP cfg s' := by
  obtain ⟨h1, h2, h3, h4, h5, h6, h7, h8⟩ := h
  thread_cases hs
  invP_tac

theorem invP_wrk {cfg : Config} {s s' : State} {k : Kind} (h : InvP cfg s) (hS : InvS s)
    (hs : wrkStep s k = some s') : InvP cfg s' := by
  obtain ⟨h1, h2, h3, h4, h5, h6, h7, h8⟩ := h
  obtain ⟨⟨g1, g2, -, -, -, -, -, -, g9, -, -, -, -, -⟩, -⟩ := hS
  thread_cases hs
  invP_tac

theorem invP_uns {cfg : Config} {s s' : State} {k : Kind} (h : InvP cfg s)
    (hs : unsStep s k = some s') : InvP cfg s' := by
  obtain ⟨h1, h2, h3, h4, h5, h6, h7, h8⟩ := h
  thread_cases hs
  invP_tac

theorem invP_reachable {cfg : Config} {s : State} (h : Reachable cfg s) : InvP cfg s := by
  induction h with
  | init => exact invP_init cfg
  | step hr hs ih =>
    rcases step_split hs with h1 | h1 | h1
    · exact invP_src ih h1
    · exact invP_wrk ih (invS_reachable hr) h1
    · exact invP_uns ih h1

/-! ## Invariant L: the ghost log -/

structure InvL (s : State) : Prop where
  dlog : s.delivered = cbStarts s.log
  lcb : ∀ t e, ((t, LEv.cbStart e) ∈ s.log ∨ (t, LEv.cbReturn e) ∈ s.log) → t = workerT
  lpost : ∀ t e, (t, LEv.post e) ∈ s.log → t = srcT
  lstop : ∀ t, (t, LEv.stop) ∈ s.log → s.abort = true
  lopen : openCbs s.log = if (s.wpc = .inCbN ∨ s.wpc = .inCbT) then 1 else 0

theorem invL_init (cfg : Config) : InvL (init cfg) := by
  constructor <;> simp [init, cbStarts, openCbs]

macro "invL_tac" : tactic => `(tactic| (
  all_goals
    constructor <;> dsimp only <;> first | assumption |
    grind [cbStarts, openCbs]))

theorem invL_step {s s' : State} {l : Label} (h : InvL s) (hs : step s l = some s') : InvL s' := by
  obtain ⟨h1, h2, h3, h4, h5⟩ := h
  rcases step_split hs with hs | hs | hs
  · thread_cases hs
    invL_tac
  · thread_cases hs
    invL_tac
  · thread_cases hs
    invL_tac

theorem invL_reachable {cfg : Config} {s : State} (h : Reachable cfg s) : InvL s := by
  induction h with
  | init => exact invL_init cfg
  | step _ hs ih => exact invL_step ih hs

/-! ## Invariant E: nothing is lost unless an unsubscribe came early -/

/-- a terminal event can only be the last one -/
def wf : List Ev → Bool
  | [] => true
  | [_] => true
  | e :: rest => !e.isTerminal && wf rest

theorem wf_tail {e : Ev} {rest : List Ev} (h : wf (e :: rest) = true) : wf rest = true := by
  cases rest with
  | nil => rfl
  | cons a l => simp [wf] at h; exact h.2

theorem wf_term {e : Ev} {rest : List Ev} (h : wf (e :: rest) = true) (ht : e.isTerminal = true) : rest = [] := by
  cases rest with
  | nil => rfl
  | cons a l => simp [wf, ht] at h

theorem wf_events (sc : Script) : wf sc.events = true := by
  obtain ⟨items, term⟩ := sc
  induction items with
  | nil => cases term <;> rfl
  | cons a l ih =>
    simp only [Script.events, List.map_cons, List.cons_append] at ih ⊢
    generalize List.map Ev.next l ++ term.events = r at ih
    cases r with
    | nil => rfl
    | cons b r => simp [wf, Ev.isTerminal, ih]

theorem prefix_wf_term {l m : List Ev} (hp : l <+: m) (hw : wf m = true) (ht : ∃ e ∈ l, e.isTerminal = true) :
    l = m := by
  induction l generalizing m with
  | nil => simp at ht
  | cons a l ih =>
    cases m with
    | nil => simp at hp
    | cons b m =>
      obtain ⟨rfl, hp'⟩ := List.cons_prefix_cons.mp hp
      by_cases hta : a.isTerminal = true
      · have := wf_term hw hta
        subst this
        simp at hp'
        simp [hp']
      · have : ∃ e ∈ l, e.isTerminal = true := by
          obtain ⟨e, he, het⟩ := ht
          rcases List.mem_cons.mp he with rfl | he
          · exact absurd het hta
          · exact ⟨e, he, het⟩
        rw [ih hp' (wf_tail hw) this]

theorem Ev.not_both (e : Ev) (h : e.isErr = true) : e.isCompl = false := by
  cases e <;> simp_all [Ev.isErr, Ev.isCompl]

structure InvE (s : State) : Prop where
  wftodo : wf s.todo = true
  e1 : (s.unsubBegan = false ∧ s.claimed = false ∧ s.spc = .idle) → s.posted = s.consumed
  e2a : (s.unsubBegan = false ∧ s.claimed = false ∧ s.todo ≠ []) →
    s.upNext = true ∧ s.upErr = true ∧ s.upCompl = true
  e2b : (s.unsubBegan = false ∧ s.claimed = false ∧ s.spc = .clrOther) →
    s.upErr = true ∧ s.upCompl = true ∧ s.scur.isTerminal = true
  e2c : (s.unsubBegan = false ∧ s.claimed = false ∧ s.spc = .takeOwn) → s.ownUp s.scur = true
  e3 : (s.spc = .clrOther ∨ s.spc = .takeOwn) → s.todo = []
  e4 : s.termStarted = true → ∃ e ∈ s.delivered, e.isTerminal = true
  e5 : (s.unsubBegan = true ∧ s.unsubEarly = false) → s.termStarted = true

theorem invE_init (cfg : Config) (hw : wf cfg.script = true) : InvE (init cfg) := by
  constructor <;> simp [init, hw]

macro "invE_tac" : tactic => `(tactic| (
  all_goals
    constructor <;> dsimp only <;> first | assumption |
    grind [State.ownUp, WPc.claiming, WPc.inFin, UPc.began, Ev.isTerminal_eq, Ev.not_both, wf_tail, wf_term]))

theorem invE_src {cfg : Config} {s s' : State} {k : Kind} (h : InvE s) (hP : InvP cfg s)
    (hs : srcStep s k = some s') : InvE s' := by
  obtain ⟨h1, h2, h3, h4, h5, h6, h7, h8⟩ := h
  obtain ⟨-, p2, -, -, -, -, -, -⟩ := hP
  thread_cases hs
  invE_tac

theorem invE_wrk {s s' : State} {k : Kind} (h : InvE s) (hS : InvS s)
    (hs : wrkStep s k = some s') : InvE s' := by
  obtain ⟨h1, h2, h3, h4, h5, h6, h7, h8⟩ := h
  obtain ⟨⟨-, -, g3, -, -, -, -, -, -, -, -, -, -, -⟩, ⟨-, g16, -, g18, g19, -, -, -, -, -, -, -, -⟩⟩ := hS
  thread_cases hs
  invE_tac

theorem invE_uns {s s' : State} {k : Kind} (h : InvE s) (hS : InvS s)
    (hs : unsStep s k = some s') : InvE s' := by
  obtain ⟨h1, h2, h3, h4, h5, h6, h7, h8⟩ := h
  obtain ⟨⟨-, -, -, g4, -, -, -, -, -, -, -, -, -, -⟩, -⟩ := hS
  thread_cases hs
  invE_tac

theorem invE_reachable {cfg : Config} {s : State} (hw : wf cfg.script = true) (h : Reachable cfg s) : InvE s := by
  induction h with
  | init => exact invE_init cfg hw
  | step hr hs ih =>
    rcases step_split hs with h1 | h1 | h1
    · exact invE_src ih (invP_reachable hr) h1
    · exact invE_wrk ih (invS_reachable hr) h1
    · exact invE_uns ih (invS_reachable hr) h1

/-- without an unsubscriber thread nothing ever counts as an early unsubscribe -/
theorem no_unsub_reachable {cfg : Config} {s : State} (hu : cfg.hasUnsub = false) (h : Reachable cfg s) :
    s.upc = .done ∧ s.unsubBegan = false ∧ s.unsubEarly = false ∧ s.unsubReturned = false := by
  induction h with
  | init => simp [init, hu]
  | step hr hs ih =>
    obtain ⟨i1, i2, i3, i4⟩ := ih
    rcases step_split hs with hs | hs | hs
    · thread_cases hs
      all_goals (dsimp only; exact ⟨i1, i2, i3, i4⟩)
    · thread_cases hs
      all_goals (dsimp only; exact ⟨i1, i2, i3, i4⟩)
    · thread_cases hs
      all_goals simp_all

/-! ## Main theorems: observe_on -/

/-- **C09 / observe_on, safety.**  In every reachable state, for every script and every interleaving:
the events whose subscriber callback has started are a prefix of the script the source emits (same order, no gaps,
no duplicates); every callback start/return was performed by the worker thread, which is not the thread on which
the source posts; and at most one callback is open (this holds for every reachable state, i.e. for every prefix
of every history: callbacks never overlap). -/
theorem observe_on_prefix {cfg : Config} {s : State} (h : Reachable cfg s) :
    cbStarts s.log <+: cfg.script ∧
    (∀ t e, ((t, LEv.cbStart e) ∈ s.log ∨ (t, LEv.cbReturn e) ∈ s.log) → t = workerT ∧ t ≠ srcT) ∧
    (∀ t e, (t, LEv.post e) ∈ s.log → t = srcT) ∧
    openCbs s.log ≤ 1 := by
  have hP := invP_reachable h
  have hL := invL_reachable h
  refine ⟨?_, ?_, hL.lpost, ?_⟩
  · rw [← hL.dlog]
    have h1 : s.delivered <+: s.taken := by
      cases hp : s.wpc.pre
      · cases hc : s.wpc.com
        · exact (hP.woth ⟨hp, hc⟩).1
        · exact pre_of_snoc_eq (hP.wcom hc)
      · exact (hP.wpre hp).1
    have h2 : s.posted <+: s.consumed := by
      by_cases hi : s.spc = .idle
      · exact (hP.sidle hi).1
      · exact pre_of_snoc_eq (hP.sbusy hi)
    have h3 : s.consumed <+: cfg.script := hP.script ▸ List.prefix_append _ _
    exact h1.trans (hP.chan.1.trans (h2.trans h3))
  · intro t e ht
    have := hL.lcb t e ht
    subst this
    exact ⟨rfl, by decide⟩
  · rw [hL.lopen]; split <;> omega

/-- a callback starts only when no callback is open -/
theorem cb_start_when_none_open {cfg : Config} {s s' : State} {l : Label} {t : Nat} {e : Ev}
    (h : Reachable cfg s) (hs : step s l = some s') (hl : s'.log = (t, LEv.cbStart e) :: s.log) :
    openCbs s.log = 0 := by
  have := (observe_on_prefix (.step h hs)).2.2.2
  rw [hl] at this
  simp only [openCbs] at this
  omega

/-- **C09 / observe_on, nothing lost.**  Well-formed script (items, then at most one terminal).  If no
unsubscribe began before a terminal callback had started (in particular: if there is no unsubscriber), then in every
state where the source has finished its script and the worker has exited or is parked on the empty queue, the
delivered events are exactly the script: nothing lost, nothing reordered, terminal last. -/
theorem observe_on_exact {sc : Script} {cfg : Config} {s : State} (hsc : cfg.script = sc.events)
    (h : Reachable cfg s) (hu : s.unsubEarly = false) (hq : s.quiescent) :
    cbStarts s.log = cfg.script := by
  have hw : wf cfg.script = true := hsc ▸ wf_events sc
  have hP := invP_reachable h
  have hL := invL_reachable h
  obtain ⟨hSa, hSb⟩ := invS_reachable h
  have hE := invE_reachable hw h
  have hpre := (observe_on_prefix h).1
  obtain ⟨q1, q2, q3⟩ := hq
  by_cases hts : s.termStarted = true
  · exact prefix_wf_term hpre hw (hL.dlog ▸ hE.e4 hts)
  · have hts : s.termStarted = false := by simpa using hts
    have hub : s.unsubBegan = false := by
      cases hb : s.unsubBegan
      · rfl
      · have := hE.e5 ⟨hb, hu⟩; simp_all
    have htr : s.termReturned = false := by
      cases hb : s.termReturned
      · rfl
      · have := hSb.tret hb; simp_all
    have hab : s.abort = false := by
      cases hb : s.abort
      · rfl
      · rcases hSb.abortwhy hb with h' | h' <;> simp_all
    have hcl : s.claimed = false := by
      cases hb : s.claimed
      · rfl
      · rcases hSb.first hb with h' | h' | h'
        · simp_all
        · simp_all
        · rcases q3 with q3 | ⟨q3, -, -⟩ <;> simp [q3, WPc.claiming] at h'
    have hwp : s.wpc = .take ∧ s.queue = [] := by
      rcases q3 with q3 | ⟨q3, q4, -⟩
      · have := hSb.wdone q3; simp_all
      · exact ⟨q3, q4⟩
    have e1 := hE.e1 ⟨hub, hcl, q2⟩
    have e2 := hP.chan.2 hab
    have e3 := (hP.woth (by simp [hwp.1, WPc.pre, WPc.com])).2 (hSa.fresh ⟨hub, hcl⟩)
    rw [← hL.dlog, hP.script, q1, e3, ← e1, e2, hwp.2]
    simp

/-- … in particular without any unsubscriber -/
theorem observe_on_exact_no_unsub {sc : Script} {cfg : Config} {s : State} (hsc : cfg.script = sc.events)
    (hu : cfg.hasUnsub = false) (h : Reachable cfg s) (hq : s.quiescent) :
    cbStarts s.log = sc.events :=
  hsc ▸ observe_on_exact hsc h (no_unsub_reachable hu h).2.2.1 hq

/-- **C09 / abort only after the end.**  `scheduler.abort()` (= `stop`: clear the queue, set `abort`) has been
executed only if a terminal callback has RETURNED or the unsubscriber has cleared the subscriber's `fn_next`; in
both cases `fn_next` is gone, so no item discarded by `stop` could have been delivered anyway. -/
theorem abort_only_after_end {cfg : Config} {s : State} (h : Reachable cfg s) :
    (∀ t, (t, LEv.stop) ∈ s.log → s.abort = true) ∧
    (s.abort = true → (s.termReturned = true ∨ s.unsubBegan = true) ∧ s.sNext = false) := by
  obtain ⟨hSa, hSb⟩ := invS_reachable h
  refine ⟨(invL_reachable h).lstop, fun ha => ⟨hSb.abortwhy ha, ?_⟩⟩
  rcases hSb.abortwhy ha with h' | h'
  · exact hSa.claimed (hSb.tstart (hSb.tret h'))
  · exact hSb.ubn h'

/-- **C09 / nothing after unsubscribe.**  No callback ever starts for a task that the worker took after
`unsubscribe()` had returned; in fact after `unsubscribe()` returned `abort` is set and the subscriber's slots are
empty, so the worker takes no task at all any more (whatever the source still posts stays in the queue). -/
theorem after_unsub_nothing {cfg : Config} {s : State} (h : Reachable cfg s) :
    s.lateCb = false ∧
    (s.unsubReturned = true →
      s.abort = true ∧ s.sNext = false ∧ s.sErr = false ∧ s.sCompl = false ∧
      step s ⟨workerT, .take⟩ = none) := by
  obtain ⟨hSa, hSb⟩ := invS_reachable h
  refine ⟨hSb.late.2, fun hr => ?_⟩
  have ha := hSb.ustop (.inr hr)
  have hb : s.unsubBegan = true := by rw [hSa.ubegan, hr]; simp
  refine ⟨ha, hSb.ubn hb, ?_, ?_, ?_⟩
  · exact (hSb.udone hr).1
  · exact (hSb.udone hr).2
  · simp [step, workerT, wrkStep, ha]
    split <;> simp_all

/-- the nested `subscriber.unsubscribe()` inside `finalize` (stream_controller.rs 137-139) is never executed:
whenever `finalize` runs, `fn_next` of the subscriber is already empty -/
theorem finalize_never_nested {cfg : Config} {s : State} (h : Reachable cfg s) :
    s.wpc ≠ .fin .nested ∧ s.upc ≠ .fin .nested :=
  (invS_reachable h).2.nonest

/-! ## Stacking: `observe_on(..).observe_on(..)`

Composition of the single-stage theorems.  Stage 2's source is stage 1's subscriber: the callbacks of stage 1 are,
by `observe_on_prefix`, a sequential (never overlapping) emission on one thread (worker 1) of the list
`cbStarts s1.log`; this is exactly what the source thread of the stage-2 system is: one thread emitting a script.
So stage 2 is an instance of the same transition system with `script := cbStarts s1.log`.  (An unsubscribe of stage 1
issued by stage 2's `finalize` is an unsubscriber of stage 1; without a user unsubscribe it happens only after the
stage-2 terminal callback, hence after the stage-1 terminal callback started: not "early".) -/

theorem observe_on_twice_prefix {c1 c2 : Config} {s1 s2 : State} (h1 : Reachable c1 s1) (h2 : Reachable c2 s2)
    (hc : c2.script = cbStarts s1.log) :
    cbStarts s2.log <+: c1.script ∧ openCbs s2.log ≤ 1 ∧
    (∀ t e, ((t, LEv.cbStart e) ∈ s2.log ∨ (t, LEv.cbReturn e) ∈ s2.log) → t = workerT) := by
  have p1 := observe_on_prefix h1
  have p2 := observe_on_prefix h2
  exact ⟨(hc ▸ p2.1).trans p1.1, p2.2.2.2, fun t e ht => (p2.2.1 t e ht).1⟩

theorem observe_on_twice_exact {sc : Script} {c1 c2 : Config} {s1 s2 : State} (hsc : c1.script = sc.events)
    (h1 : Reachable c1 s1) (h2 : Reachable c2 s2) (hc : c2.script = cbStarts s1.log)
    (u1 : s1.unsubEarly = false) (u2 : s2.unsubEarly = false) (q1 : s1.quiescent) (q2 : s2.quiescent) :
    cbStarts s2.log = sc.events := by
  have e1 := observe_on_exact hsc h1 u1 q1
  have hsc2 : c2.script = sc.events := by rw [hc, e1, hsc]
  rw [observe_on_exact hsc2 h2 u2 q2, hsc2]

/-! ## Non-vacuity and witnesses -/

def exCfg : Config := { script := (Script.mk [.int 1] .complete).events, hasUnsub := false }

/-- a complete run: item posted, delivered; `complete` posted, delivered; `finalize` → `stop`; worker exits -/
def exRun : List Label := mk
  [(0, .emit), (0, .post), (1, .take), (1, .chk), (1, .chk), (1, .chk), (1, .fetch), (1, .cbStart), (1, .cbReturn),
   (0, .emit), (0, .clrOther), (0, .takeOwn), (0, .post), (1, .take), (1, .chk), (1, .chk), (1, .chk), (1, .remove),
   (1, .claim), (1, .clrOther), (1, .takeOwn), (1, .cbStart), (1, .cbReturn), (1, .fIter), (1, .fClear), (1, .fChk),
   (1, .fLock), (1, .fStop), (1, .fUnlock), (1, .exit)]

def exState : State := (replay exCfg exRun).getD default

theorem exState_reachable : Reachable exCfg exState := reachable_of_replay (ls := exRun) rfl

/-- hypotheses of `observe_on_prefix` / `observe_on_exact` are satisfiable by a non-trivial run -/
example : Reachable exCfg exState ∧ exState.quiescent ∧ exState.unsubEarly = false ∧
    cbStarts exState.log = [.next (.int 1), .complete] ∧ exState.abort = true ∧ exState.termReturned = true :=
  ⟨exState_reachable, by decide, by decide, by decide, by decide, by decide⟩

/-- the worker parked on the empty queue (script without terminal) -/
def exCfg2 : Config := { script := (Script.mk [.int 1, .int 2] .none).events, hasUnsub := false }
def exRun2 : List Label := mk
  [(0, .emit), (0, .post), (0, .emit), (0, .post), (1, .take), (1, .chk), (1, .chk), (1, .chk), (1, .fetch),
   (1, .cbStart), (1, .cbReturn), (1, .take), (1, .chk), (1, .chk), (1, .chk), (1, .fetch), (1, .cbStart),
   (1, .cbReturn)]
def exState2 : State := (replay exCfg2 exRun2).getD default
example : Reachable exCfg2 exState2 ∧ exState2.quiescent ∧ exState2.abort = false ∧
    cbStarts exState2.log = [.next (.int 1), .next (.int 2)] :=
  ⟨reachable_of_replay (ls := exRun2) rfl, by decide, by decide, by decide⟩

/-- a run with an unsubscriber: the item is taken, its function fetched, then `unsubscribe()` runs to completion
(`abort` set, slots cleared), and the already fetched callback still starts AFTER `unsubscribe()` returned — the
reason why `after_unsub_nothing` speaks about tasks TAKEN after the return.  The second item is posted into the
stopped queue and never taken. -/
def exCfg3 : Config := { script := (Script.mk [.int 1, .int 2] .complete).events, hasUnsub := true }
def exRun3 : List Label := mk
  [(0, .emit), (0, .post), (1, .take), (1, .chk), (1, .chk), (1, .chk), (1, .fetch),
   (2, .unsubCall), (2, .clr), (2, .clr), (2, .clr), (2, .onUnsub), (2, .fIter), (0, .emit), (2, .fUp), (2, .fUp),
   (2, .fUp), (2, .fClear), (2, .fChk), (2, .fLock), (2, .fStop), (2, .fUnlock), (2, .unsubRet),
   (1, .cbStart), (0, .post), (1, .cbReturn), (0, .emit), (1, .exit)]
def exState3 : State := (replay exCfg3 exRun3).getD default
example : Reachable exCfg3 exState3 ∧ exState3.unsubReturned = true ∧ exState3.abort = true ∧
    exState3.log.head? = some (srcT, .drop .complete) ∧ exState3.queue = [.next (.int 2)] ∧
    cbStarts exState3.log = [.next (.int 1)] ∧ exState3.lateCb = false ∧ exState3.wpc = .done :=
  ⟨reachable_of_replay (ls := exRun3) rfl, by decide, by decide, by decide, by decide, by decide, by decide,
   by decide⟩

/-- **The literal reading "stop only after the unsubscriber cleared the (three) slots" is FALSE of the code**:
after the unsubscriber cleared only `fn_next`, the worker's `fn_next.clear_if_available()` fails, it runs `finalize`
and stops the scheduler while `fn_error` and `fn_complete` of the subscriber are still present and no terminal
callback ran.  (Harmless: `fn_next` is gone, nothing can be delivered any more — `abort_only_after_end`.) -/
def exCfg4 : Config := { script := (Script.mk [] (.error 7)).events, hasUnsub := true }
def exRun4 : List Label := mk
  [(0, .emit), (0, .clrOther), (0, .takeOwn), (0, .post), (1, .take), (1, .chk), (1, .chk), (1, .chk),
   (2, .unsubCall), (2, .clr), (1, .claim), (1, .fIter), (1, .fUp), (1, .fUp), (1, .fUp), (1, .fClear), (1, .fChk),
   (1, .fLock), (1, .fStop)]
def exState4 : State := (replay exCfg4 exRun4).getD default
theorem stop_before_all_slots_cleared :
    Reachable exCfg4 exState4 ∧ exState4.abort = true ∧ exState4.termStarted = false ∧
    exState4.sErr = true ∧ exState4.sCompl = true ∧ exState4.upc = .c1 :=
  ⟨reachable_of_replay (ls := exRun4) rfl, by decide, by decide, by decide, by decide, by decide⟩

/-- two stacked stages, both quiescent: hypotheses of `observe_on_twice_exact` are satisfiable -/
example : Reachable exCfg exState ∧ Reachable { exCfg with script := cbStarts exState.log } exState ∧
    exState.quiescent ∧ exState.unsubEarly = false :=
  ⟨exState_reachable, reachable_of_replay (ls := exRun) rfl, by decide, by decide⟩

end Rx.Handoff

/-! # subscribe_on -/

namespace Rx.Handoff.SubOn

theorem step_split {s s' : State} {l : Label} (h : step s l = some s') :
    srcStep s l.kind = some s' ∨ wrkStep s l.kind = some s' ∨ unsStep s l.kind = some s' := by
  simp only [step] at h
  split at h
  · exact .inl h
  · exact .inr (.inl h)
  · exact .inr (.inr h)
  · cases h

macro "so_cases " h:ident : tactic => `(tactic| (
  simp only [srcStep, wrkStep, unsStep, finW, finU, finEnabled, finEffect, finNext] at $h:ident
  repeat' (split at $h:ident)
  all_goals (first | (cases $h:ident; done) | (simp only [Option.some.injEq] at $h:ident; subst $h:ident))))

def WPc.claiming : WPc → Bool
  | .clrOther | .takeOwn | .cbT | .inCbT => true
  | _ => false

def WPc.inFin : WPc → Bool
  | .fin _ => true
  | _ => false

/-- the worker has not yet entered the source -/
def WPc.early : WPc → Bool
  | .newObs | .rchk0 | .rchk1 | .rchk2 | .rrem | .ruc0 | .ruc1 | .ruc2 | .sub0 | .sub1 | .sub2 => true
  | _ => false

/-- `new_observer` found the subscription ended and is detaching the upstream it has just registered -/
def WPc.detach : WPc → Bool
  | .rrem | .ruc0 | .ruc1 | .ruc2 => true
  | _ => false

structure InvSa (s : State) : Prop where
  slots : s.sNext = true → s.sErr = true ∧ s.sCompl = true
  wclaim : s.wpc.claiming = true → s.sNext = false
  wterm : (s.wpc.claiming = true ∨ s.wpc = .claim ∨ s.wpc = .remove ∨ s.wpc = .uClrOther ∨ s.wpc = .uTakeOwn) →
    s.wcur.isTerminal = true
  ubegan : s.unsubBegan = (s.upc.began || s.unsubReturned)
  uret : s.unsubReturned = true → s.upc = .done
  uc1 : s.upc.began = true → s.sNext = false
  uc2 : (s.upc.began = true ∧ s.upc ≠ .c1) → s.sErr = false
  uc3 : (s.upc.began = true ∧ s.upc ≠ .c1 ∧ s.upc ≠ .c2) → s.sCompl = false
  wfin : s.wpc.inFin = true → s.sNext = false
  onfin : s.onFin = false → s.abort = true
  claimed : s.claimed = true → s.sNext = false
  fresh : (s.unsubBegan = false ∧ s.claimed = false) → s.sNext = true
  own1 : (s.unsubBegan = false ∧ s.wpc = .clrOther) → s.sErr = true ∧ s.sCompl = true
  own2 : (s.unsubBegan = false ∧ s.wpc = .takeOwn) → s.ownS s.wcur = true

structure InvSb (s : State) : Prop where
  first : s.claimed = true → s.termReturned = true ∨ s.unsubBegan = true ∨ s.wpc.claiming = true
  finwhy : s.wpc.inFin = true → s.termReturned = true ∨ s.unsubBegan = true
  abortwhy : s.abort = true → s.termReturned = true ∨ s.unsubBegan = true
  tstart : s.termStarted = true → s.claimed = true
  tret : s.termReturned = true → s.termStarted = true
  ustop : (s.upc.stopped = true ∨ s.unsubReturned = true) → s.abort = true
  wdone : s.wpc = .done → s.abort = true
  nonest : s.wpc ≠ .fin .nested ∧ s.upc ≠ .fin .nested
  wclaimed : s.wpc.claiming = true → s.claimed = true
  wincbt : s.wpc = .inCbT → s.termStarted = true
  ubn : s.unsubBegan = true → s.sNext = false
  udone : s.unsubReturned = true → s.sErr = false ∧ s.sCompl = false
  late1 : s.curLate = true → s.unsubReturned = true
  late2 : (s.curLate = true ∧ (s.wpc = .cbN ∨ s.wpc = .cbT ∨ s.wpc = .clrOther ∨ s.wpc = .takeOwn)) → False
  late3 : s.lateCb = false

def InvS (s : State) : Prop := InvSa s ∧ InvSb s

theorem invS_init (cfg : Config) : InvS (init cfg) := by
  constructor <;> constructor <;> simp [init] <;> cases cfg.hasUnsub <;>
    simp [UPc.began, WPc.claiming, WPc.inFin, UPc.stopped]

macro "so_invS_tac" : tactic => `(tactic| (
  all_goals
    constructor <;> dsimp only <;> first | assumption |
    grind [State.ownS, UPc.began, WPc.claiming, WPc.inFin, UPc.stopped, Ev.isTerminal, Ev.isTerminal_eq, Ev.isErr,
      Ev.isCompl]))

theorem invS_src {s s' : State} {k : Kind} (h : InvS s) (hs : srcStep s k = some s') : InvS s' := by
  obtain ⟨⟨h1, h2, h3, h4, h5, h6, h7, h8, h9, h10, h11, h12, h13, h14⟩,
    ⟨h15, h16, h17, h18, h19, h20, h21, h22, h23, h24, h25, h26, h27, h28, h29⟩⟩ := h
  so_cases hs
  all_goals constructor
  so_invS_tac

set_option maxHeartbeats 1000000 in
theorem invSa_wrk {s s' : State} {k : Kind} (h : InvS s) (hs : wrkStep s k = some s') : InvSa s' := by
  obtain ⟨⟨h1, h2, h3, h4, h5, h6, h7, h8, h9, h10, h11, h12, h13, h14⟩,
    ⟨h15, h16, h17, h18, h19, h20, h21, h22, h23, h24, h25, h26, h27, h28, h29⟩⟩ := h
  so_cases hs
  so_invS_tac

set_option maxHeartbeats 1000000 in
theorem invSb_wrk {s s' : State} {k : Kind} (h : InvS s) (hs : wrkStep s k = some s') : InvSb s' := by
  obtain ⟨⟨h1, h2, h3, h4, h5, h6, h7, h8, h9, h10, h11, h12, h13, h14⟩,
    ⟨h15, h16, h17, h18, h19, h20, h21, h22, h23, h24, h25, h26, h27, h28, h29⟩⟩ := h
  so_cases hs
  so_invS_tac

theorem invS_uns {s s' : State} {k : Kind} (h : InvS s) (hs : unsStep s k = some s') : InvS s' := by
  obtain ⟨⟨h1, h2, h3, h4, h5, h6, h7, h8, h9, h10, h11, h12, h13, h14⟩,
    ⟨h15, h16, h17, h18, h19, h20, h21, h22, h23, h24, h25, h26, h27, h28, h29⟩⟩ := h
  so_cases hs
  all_goals constructor
  so_invS_tac


theorem invS_step {s s' : State} {l : Label} (h : InvS s) (hs : step s l = some s') : InvS s' := by
  rcases step_split hs with h1 | h1 | h1
  · exact invS_src h h1
  · exact ⟨invSa_wrk h h1, invSb_wrk h h1⟩
  · exact invS_uns h h1

theorem invS_reachable {cfg : Config} {s : State} (h : Reachable cfg s) : InvS s := by
  induction h with
  | init => exact invS_init cfg
  | step _ hs ih => exact invS_step ih hs

/-! ### SubOn invariant P -/

def WPc.pre : WPc → Bool
  | .uClrOther | .uTakeOwn | .chk0 | .chk1 | .chk2 | .fetch | .remove | .claim => true
  | _ => false

def WPc.com : WPc → Bool
  | .clrOther | .takeOwn | .cbN | .cbT => true
  | _ => false

/-- a terminal is in flight between the upstream claim and the subscriber claim -/
def WPc.tflight : WPc → Bool
  | .uClrOther | .uTakeOwn | .chk0 | .chk1 | .chk2 | .remove | .claim => true
  | _ => false

structure InvQ (s : State) : Prop where
  q1 : (s.upNext = false ∨ s.upErr = false ∨ s.upCompl = false) →
    s.sNext = false ∨ (s.wpc.tflight = true ∧ s.wcur.isTerminal = true)
  q2 : (s.wpc = .uTakeOwn ∧ s.ownUp s.wcur = false) → s.sNext = false
  q3 : (s.wpc = .uClrOther ∧ (s.upErr = false ∨ s.upCompl = false)) → s.sNext = false
  q4 : s.wpc.detach = true → s.sNext = false

theorem invQ_init (cfg : Config) : InvQ (init cfg) := by
  constructor <;> simp [init, WPc.detach]

macro "so_invQ_tac" : tactic => `(tactic| (
  all_goals
    constructor <;> dsimp only <;> first | assumption |
    grind [State.ownUp, WPc.tflight, WPc.detach, WPc.claiming, WPc.inFin, UPc.began, Ev.isTerminal, Ev.isTerminal_eq, Ev.isErr,
      Ev.isCompl, Ev.not_both]))

theorem invQ_step {s s' : State} {l : Label} (h : InvQ s) (hS : InvS s) (hs : step s l = some s') : InvQ s' := by
  obtain ⟨h5, h6, h7, h8⟩ := h
  obtain ⟨⟨g1, g2, g3, -, -, g6, -, -, g9, -, -, -, -, -⟩, -⟩ := hS
  rcases step_split hs with hs | hs | hs
  · so_cases hs
    so_invQ_tac
  · so_cases hs
    so_invQ_tac
  · so_cases hs
    so_invQ_tac

theorem invQ_reachable {cfg : Config} {s : State} (h : Reachable cfg s) : InvQ s := by
  induction h with
  | init => exact invQ_init cfg
  | step hr hs ih => exact invQ_step ih (invS_reachable hr) hs

structure InvP (cfg : Config) (s : State) : Prop where
  script : cfg.script = s.consumed ++ s.todo
  wpre : s.wpc.pre = true → s.delivered <+: s.consumed ∧ (s.sNext = true → s.delivered ++ [s.wcur] = s.consumed)
  wcom : s.wpc.com = true → s.delivered ++ [s.wcur] = s.consumed
  woth : (s.wpc.pre = false ∧ s.wpc.com = false) →
    s.delivered <+: s.consumed ∧ (s.sNext = true → s.delivered = s.consumed)

theorem invP_init (cfg : Config) : InvP cfg (init cfg) := by
  constructor <;> simp [init, WPc.pre, WPc.com]

macro "so_invP_tac" : tactic => `(tactic| (
  all_goals
    constructor <;> dsimp only <;> first | assumption |
    grind [WPc.pre, WPc.com, WPc.tflight, WPc.claiming, WPc.inFin, pre_snoc, pre_of_snoc_eq, pre_of_eq, List.append_assoc,
      List.prefix_refl, Ev.isTerminal]))

theorem invP_step {cfg : Config} {s s' : State} {l : Label} (h : InvP cfg s) (hS : InvS s) (hQ : InvQ s)
    (hs : step s l = some s') : InvP cfg s' := by
  obtain ⟨h1, h2, h3, h4⟩ := h
  obtain ⟨⟨g1, g2, g3, -, -, -, -, -, g9, -, -, -, -, -⟩, -⟩ := hS
  obtain ⟨q1, q2, -, -⟩ := hQ
  rcases step_split hs with hs | hs | hs
  · so_cases hs
    so_invP_tac
  · so_cases hs
    so_invP_tac
  · so_cases hs
    so_invP_tac

theorem invP_reachable {cfg : Config} {s : State} (h : Reachable cfg s) : InvP cfg s := by
  induction h with
  | init => exact invP_init cfg
  | step hr hs ih => exact invP_step ih (invS_reachable hr) (invQ_reachable hr) hs

/-! ### SubOn invariants L (log) and E (nothing lost) -/

structure InvL (s : State) : Prop where
  dlog : s.delivered = cbStarts s.log
  lcb : ∀ t e, ((t, LEv.cbStart e) ∈ s.log ∨ (t, LEv.cbReturn e) ∈ s.log) → t = workerT
  lpost : ∀ t e, (t, LEv.post e) ∈ s.log → t = srcT
  lstop : ∀ t, (t, LEv.stop) ∈ s.log → s.abort = true
  lopen : openCbs s.log = if (s.wpc = .inCbN ∨ s.wpc = .inCbT) then 1 else 0

theorem invL_init (cfg : Config) : InvL (init cfg) := by
  constructor <;> simp [init, cbStarts, openCbs]

macro "so_invL_tac" : tactic => `(tactic| (
  all_goals
    constructor <;> dsimp only <;> first | assumption |
    grind [cbStarts, openCbs]))

theorem invL_step {s s' : State} {l : Label} (h : InvL s) (hs : step s l = some s') : InvL s' := by
  obtain ⟨h1, h2, h3, h4, h5⟩ := h
  rcases step_split hs with hs | hs | hs
  · so_cases hs
    so_invL_tac
  · so_cases hs
    so_invL_tac
  · so_cases hs
    so_invL_tac

theorem invL_reachable {cfg : Config} {s : State} (h : Reachable cfg s) : InvL s := by
  induction h with
  | init => exact invL_init cfg
  | step _ hs ih => exact invL_step ih hs

structure InvE (s : State) : Prop where
  wftodo : wf s.todo = true
  p0 : s.posted = false → s.queued = false ∧ (s.wpc = .take ∨ s.wpc = .done) ∧ s.taskDone = false
  q0 : s.queued = true → (s.wpc = .take ∨ s.wpc = .done) ∧ s.taskDone = false
  pretask : (s.wpc.early = true ∨ ((s.wpc = .take ∨ s.wpc = .done) ∧ s.taskDone = false)) → s.claimed = false
  upfresh : (s.unsubBegan = false ∧ (s.wpc.early = true ∨ ((s.wpc = .take ∨ s.wpc = .done) ∧ s.taskDone = false))) →
    s.upNext = true ∧ s.upErr = true ∧ s.upCompl = true
  done1 : s.taskDone = true → (s.todo = [] ∨ s.skipped = true) ∧ (s.wpc = .take ∨ s.wpc = .done)
  skip1 : s.skipped = true → s.unsubBegan = true
  e4 : s.termStarted = true → ∃ e ∈ s.delivered, e.isTerminal = true
  e5 : (s.unsubBegan = true ∧ s.unsubEarly = false) → s.termStarted = true
  rdead : s.wpc.detach = true → s.unsubBegan = true

theorem invE_init (cfg : Config) (hw : wf cfg.script = true) : InvE (init cfg) := by
  constructor <;> simp [init, hw, WPc.early, WPc.detach]

macro "so_invE_tac" : tactic => `(tactic| (
  all_goals
    constructor <;> dsimp only <;> first | assumption |
    grind [WPc.early, WPc.detach, WPc.claiming, WPc.inFin, UPc.began, Ev.isTerminal_eq, wf_tail, wf_term]))

set_option maxHeartbeats 1000000 in
theorem invE_step {s s' : State} {l : Label} (h : InvE s) (hS : InvS s) (hs : step s l = some s') : InvE s' := by
  obtain ⟨h1, h2, h3, h4, h5, h6, h7, h8, h9, h10⟩ := h
  obtain ⟨⟨g1, -, g3, g4, -, -, -, -, -, -, -, g12, -, -⟩, ⟨-, g16, -, g18, g19, -, -, -, -, -, -, -, -, -, -⟩⟩ := hS
  rcases step_split hs with hs | hs | hs
  · so_cases hs
    so_invE_tac
  · so_cases hs
    so_invE_tac
  · so_cases hs
    so_invE_tac

theorem invE_reachable {cfg : Config} {s : State} (hw : wf cfg.script = true) (h : Reachable cfg s) : InvE s := by
  induction h with
  | init => exact invE_init cfg hw
  | step hr hs ih => exact invE_step ih (invS_reachable hr) hs


theorem no_unsub_reachable {cfg : Config} {s : State} (hu : cfg.hasUnsub = false) (h : Reachable cfg s) :
    s.upc = .done ∧ s.unsubBegan = false ∧ s.unsubEarly = false ∧ s.unsubReturned = false := by
  induction h with
  | init => simp [init, hu]
  | step hr hs ih =>
    obtain ⟨i1, i2, i3, i4⟩ := ih
    rcases step_split hs with hs | hs | hs
    · so_cases hs
      all_goals (dsimp only; exact ⟨i1, i2, i3, i4⟩)
    · so_cases hs
      all_goals (dsimp only; exact ⟨i1, i2, i3, i4⟩)
    · so_cases hs
      all_goals simp_all

/-! ## Main theorems: subscribe_on -/

/-- the source is driven by the worker only: a step of thread 0 (the subscribing thread) or of the unsubscriber
never starts an emission and never delivers -/
theorem emissions_only_on_worker {s s' : State} {k : Kind} (hs : srcStep s k = some s' ∨ unsStep s k = some s') :
    s'.todo = s.todo ∧ s'.consumed = s.consumed ∧ s'.delivered = s.delivered ∧ cbStarts s'.log = cbStarts s.log := by
  rcases hs with hs | hs
  · so_cases hs
    all_goals simp [cbStarts]
  · so_cases hs
    all_goals (first | simp [cbStarts] | (split <;> simp [cbStarts]))

/-- **C09 / subscribe_on, safety.**  In every reachable state: the delivered events are a prefix of the source's
script; every callback start/return is performed by the worker thread, which is not the subscribing thread (the
only thing thread 0 does is `post`); callbacks never overlap. -/
theorem subscribe_on_runs_on_worker {cfg : Config} {s : State} (h : Reachable cfg s) :
    cbStarts s.log <+: cfg.script ∧
    (∀ t e, ((t, LEv.cbStart e) ∈ s.log ∨ (t, LEv.cbReturn e) ∈ s.log) → t = workerT ∧ t ≠ srcT) ∧
    (∀ t e, (t, LEv.post e) ∈ s.log → t = srcT) ∧
    openCbs s.log ≤ 1 := by
  have hP := invP_reachable h
  have hL := invL_reachable h
  refine ⟨?_, ?_, hL.lpost, ?_⟩
  · rw [← hL.dlog]
    have h1 : s.delivered <+: s.consumed := by
      cases hp : s.wpc.pre
      · cases hc : s.wpc.com
        · exact (hP.woth ⟨hp, hc⟩).1
        · exact pre_of_snoc_eq (hP.wcom hc)
      · exact (hP.wpre hp).1
    exact h1.trans (hP.script ▸ List.prefix_append _ _)
  · intro t e ht
    have := hL.lcb t e ht
    subst this
    exact ⟨rfl, by decide⟩
  · rw [hL.lopen]; split <;> omega

/-- **C09 / subscribe_on, nothing lost.**  Well-formed script; no unsubscribe began before a terminal callback had
started (in particular: no unsubscriber).  Once the subscription task has returned on the worker, the delivered
events are exactly the script. -/
theorem subscribe_on_exact {sc : Script} {cfg : Config} {s : State} (hsc : cfg.script = sc.events)
    (h : Reachable cfg s) (hu : s.unsubEarly = false) (hd : s.taskDone = true) :
    cbStarts s.log = cfg.script := by
  have hw : wf cfg.script = true := hsc ▸ wf_events sc
  have hP := invP_reachable h
  have hL := invL_reachable h
  obtain ⟨hSa, hSb⟩ := invS_reachable h
  have hE := invE_reachable hw h
  have hpre := (subscribe_on_runs_on_worker h).1
  obtain ⟨d1, d2⟩ := hE.done1 hd
  by_cases hts : s.termStarted = true
  · exact prefix_wf_term hpre hw (hL.dlog ▸ hE.e4 hts)
  · have hts : s.termStarted = false := by simpa using hts
    have hub : s.unsubBegan = false := by
      cases hb : s.unsubBegan
      · rfl
      · have := hE.e5 ⟨hb, hu⟩; simp_all
    have htr : s.termReturned = false := by
      cases hb : s.termReturned
      · rfl
      · have := hSb.tret hb; simp_all
    have hcl : s.claimed = false := by
      cases hb : s.claimed
      · rfl
      · rcases hSb.first hb with h' | h' | h'
        · simp_all
        · simp_all
        · rcases d2 with q3 | q3 <;> simp [q3, WPc.claiming] at h'
    have htodo : s.todo = [] := by
      rcases d1 with d1 | d1
      · exact d1
      · have := hE.skip1 d1; simp_all
    have e3 := (hP.woth (by rcases d2 with q | q <;> simp [q, WPc.pre, WPc.com])).2 (hSa.fresh ⟨hub, hcl⟩)
    rw [← hL.dlog, hP.script, htodo, e3]
    simp

theorem subscribe_on_exact_no_unsub {sc : Script} {cfg : Config} {s : State} (hsc : cfg.script = sc.events)
    (hu : cfg.hasUnsub = false) (h : Reachable cfg s) (hd : s.taskDone = true) :
    cbStarts s.log = sc.events :=
  hsc ▸ subscribe_on_exact hsc h (no_unsub_reachable hu h).2.2.1 hd

/-- `stop` only after a terminal callback returned or after the unsubscriber cleared `fn_next` -/
theorem subscribe_on_abort_only_after_end {cfg : Config} {s : State} (h : Reachable cfg s) :
    (∀ t, (t, LEv.stop) ∈ s.log → s.abort = true) ∧
    (s.abort = true → (s.termReturned = true ∨ s.unsubBegan = true) ∧ s.sNext = false) := by
  obtain ⟨hSa, hSb⟩ := invS_reachable h
  refine ⟨(invL_reachable h).lstop, fun ha => ⟨hSb.abortwhy ha, ?_⟩⟩
  rcases hSb.abortwhy ha with h' | h'
  · exact hSa.claimed (hSb.tstart (hSb.tret h'))
  · exact hSb.ubn h'

/-- no callback starts for an event whose emission the source started after `unsubscribe()` had returned; after
the return `abort` is set, the subscriber's slots are empty and the (not yet taken) subscription task is never taken -/
theorem subscribe_on_after_unsub_nothing {cfg : Config} {s : State} (h : Reachable cfg s) :
    s.lateCb = false ∧
    (s.unsubReturned = true →
      s.abort = true ∧ s.sNext = false ∧ s.sErr = false ∧ s.sCompl = false ∧
      step s ⟨workerT, .take⟩ = none) := by
  obtain ⟨hSa, hSb⟩ := invS_reachable h
  refine ⟨hSb.late3, fun hr => ?_⟩
  have ha := hSb.ustop (.inr hr)
  have hb : s.unsubBegan = true := by rw [hSa.ubegan, hr]; simp
  refine ⟨ha, hSb.ubn hb, (hSb.udone hr).1, (hSb.udone hr).2, ?_⟩
  simp [step, workerT, wrkStep, ha]
  split <;> simp_all

theorem subscribe_on_finalize_never_nested {cfg : Config} {s : State} (h : Reachable cfg s) :
    s.wpc ≠ .fin .nested ∧ s.upc ≠ .fin .nested :=
  (invS_reachable h).2.nonest

/-! ### the re-check of `new_observer`: an upstream attached after the subscription ended is never started -/

structure InvA (s : State) : Prop where
  a1 : s.lateAttach = true → s.sNext = false ∧ s.consumed = [] ∧ s.delivered = [] ∧ s.queued = false
  a2 : s.lateAttach = true → (s.wpc = .rchk0 ∨ s.wpc.detach = true ∨ s.wpc = .sub0 ∨
    ((s.wpc = .take ∨ s.wpc = .done) ∧ s.taskDone = true ∧ s.skipped = true))
  a3 : (s.wpc = .ruc1 ∨ s.wpc = .ruc2 ∨ (s.wpc = .sub0 ∧ s.lateAttach = true)) → s.upNext = false
  a4 : s.posted = false → s.queued = false ∧ (s.wpc = .take ∨ s.wpc = .done) ∧ s.lateAttach = false ∧ s.taskDone = false
  a5 : s.queued = true → (s.wpc = .take ∨ s.wpc = .done) ∧ s.taskDone = false
  a6 : s.wpc = .newObs → s.consumed = [] ∧ s.delivered = []
  a7 : ((s.wpc = .take ∨ s.wpc = .done) ∧ s.taskDone = false) → s.consumed = [] ∧ s.delivered = []

theorem invA_init (cfg : Config) : InvA (init cfg) := by
  constructor <;> simp [init, WPc.detach]

macro "so_invA_tac" : tactic => `(tactic| (
  all_goals
    constructor <;> dsimp only <;> first | assumption |
    grind [WPc.detach, UPc.began]))

set_option maxHeartbeats 1000000 in
theorem invA_step {s s' : State} {l : Label} (h : InvA s) (hS : InvS s) (hs : step s l = some s') : InvA s' := by
  obtain ⟨h1, h2, h3, h4, h5, h6, h7⟩ := h
  obtain ⟨-, ⟨-, -, -, -, -, -, -, -, -, -, g25, -, -, -, -⟩⟩ := hS
  rcases step_split hs with hs | hs | hs
  · so_cases hs
    so_invA_tac
  · so_cases hs
    so_invA_tac
  · so_cases hs
    so_invA_tac

theorem invA_reachable {cfg : Config} {s : State} (h : Reachable cfg s) : InvA s := by
  induction h with
  | init => exact invA_init cfg
  | step hr hs ih => exact invA_step ih (invS_reachable hr) hs

/-- **C09 / subscribe_on, late attach (stream_controller.rs 76-89).**  If the unsubscriber had already cleared the
subscriber's `fn_next` (in particular: if `unsubscribe()` had already returned) when the subscription task registered
the upstream in `new_observer`, the source is never started: nothing is ever consumed from the script, nothing is
delivered, and the worker never stands inside the source.  (Before the re-check was added to `new_observer` this was
false of the code: `finalize` had already walked the table, the fresh observer stayed subscribed and a synchronous
source ran to its end on the worker.) -/
theorem subscribe_on_late_attach_never_starts {cfg : Config} {s : State} (h : Reachable cfg s)
    (hl : s.lateAttach = true) :
    s.consumed = [] ∧ s.delivered = [] ∧ cbStarts s.log = [] ∧ s.wpc ≠ .src := by
  have hA := invA_reachable h
  obtain ⟨-, hc, hd, -⟩ := hA.a1 hl
  refine ⟨hc, hd, (invL_reachable h).dlog ▸ hd, ?_⟩
  rcases hA.a2 hl with h' | h' | h' | ⟨h' | h', -⟩ <;> intro hw <;> simp [hw, WPc.detach] at h'

/-- `lateAttach` is set exactly by an unsubscribe that began before the registration; after `unsubscribe()` returned it
is the only way the task can go -/
theorem late_attach_of_unsub_returned {s s' : State} (hS : InvS s) (hr : s.unsubReturned = true)
    (hs : wrkStep s .task = some s') (hw : s.wpc = .newObs) : s'.lateAttach = true := by
  have hb : s.unsubBegan = true := by rw [hS.1.ubegan, hr]; simp
  simp only [wrkStep, hw] at hs
  simp only [Option.some.injEq] at hs
  subst hs
  exact hb

/-! ### non-vacuity -/

def exCfg : Config := { script := (Script.mk [.int 1] (.error 3)).events, hasUnsub := false }

def exRun : List Label := mk
  [(0, .post), (1, .take), (1, .task), (1, .chk), (1, .chk), (1, .chk), (1, .chk), (1, .chk), (1, .chk),
   (1, .emit), (1, .chk), (1, .chk), (1, .chk), (1, .fetch), (1, .cbStart), (1, .cbReturn),
   (1, .emit), (1, .clrOther), (1, .takeOwn), (1, .chk), (1, .chk), (1, .chk), (1, .claim), (1, .clrOther),
   (1, .takeOwn), (1, .cbStart), (1, .cbReturn), (1, .fIter), (1, .fUp), (1, .fUp), (1, .fUp), (1, .fClear),
   (1, .fChk), (1, .fLock), (1, .fStop), (1, .fUnlock), (1, .task), (1, .exit)]

def exState : State := (replay exCfg exRun).getD default

example : Reachable exCfg exState ∧ exState.taskDone = true ∧ exState.unsubEarly = false ∧
    cbStarts exState.log = [.next (.int 1), .error 3] ∧ exState.wpc = .done :=
  ⟨reachable_of_replay (ls := exRun) rfl, by decide, by decide, by decide, by decide⟩

/-- unsubscribe before the worker takes the subscription task: the source is never subscribed -/
def exCfg2 : Config := { script := (Script.mk [.int 1] .complete).events, hasUnsub := true }
def exRun2 : List Label := mk
  [(0, .post), (2, .unsubCall), (2, .clr), (2, .clr), (2, .clr), (2, .onUnsub), (2, .fIter), (2, .fClear), (2, .fChk),
   (2, .fLock), (2, .fStop), (2, .fUnlock), (2, .unsubRet), (1, .exit)]
def exState2 : State := (replay exCfg2 exRun2).getD default
example : Reachable exCfg2 exState2 ∧ exState2.unsubReturned = true ∧ exState2.queued = false ∧
    exState2.consumed = [] ∧ exState2.wpc = .done :=
  ⟨reachable_of_replay (ls := exRun2) rfl, by decide, by decide, by decide, by decide⟩

/-- witness: the unsubscriber clears `fn_next` between the worker's `take` and `new_observer`; the re-check fails, the
entry is removed, the fresh observer is unsubscribed, `inner_subscribe` skips the source -/
def exCfg3 : Config := { script := (Script.mk [.int 1] .complete).events, hasUnsub := true }
def exRun3 : List Label := mk
  [(0, .post), (1, .take), (2, .unsubCall), (2, .clr), (1, .task), (1, .chk), (1, .remove), (1, .fUp), (1, .fUp),
   (1, .fUp), (1, .chk), (2, .clr), (2, .clr), (2, .onUnsub), (2, .fIter), (2, .fClear), (2, .fChk), (2, .fLock),
   (2, .fStop), (2, .fUnlock), (2, .unsubRet), (1, .exit)]
def exState3 : State := (replay exCfg3 exRun3).getD default
example : Reachable exCfg3 exState3 ∧ exState3.lateAttach = true ∧ exState3.skipped = true ∧
    exState3.consumed = [] ∧ exState3.taskDone = true ∧ exState3.wpc = .done ∧ exState3.unsubReturned = true :=
  ⟨reachable_of_replay (ls := exRun3) rfl, by decide, by decide, by decide, by decide, by decide, by decide⟩

end Rx.Handoff.SubOn

/-! ## Axioms -/
#print axioms Rx.Handoff.observe_on_prefix
#print axioms Rx.Handoff.cb_start_when_none_open
#print axioms Rx.Handoff.observe_on_exact
#print axioms Rx.Handoff.observe_on_exact_no_unsub
#print axioms Rx.Handoff.abort_only_after_end
#print axioms Rx.Handoff.after_unsub_nothing
#print axioms Rx.Handoff.finalize_never_nested
#print axioms Rx.Handoff.stop_before_all_slots_cleared
#print axioms Rx.Handoff.observe_on_twice_prefix
#print axioms Rx.Handoff.observe_on_twice_exact
#print axioms Rx.Handoff.SubOn.emissions_only_on_worker
#print axioms Rx.Handoff.SubOn.subscribe_on_runs_on_worker
#print axioms Rx.Handoff.SubOn.subscribe_on_exact
#print axioms Rx.Handoff.SubOn.subscribe_on_exact_no_unsub
#print axioms Rx.Handoff.SubOn.subscribe_on_abort_only_after_end
#print axioms Rx.Handoff.SubOn.subscribe_on_after_unsub_nothing
#print axioms Rx.Handoff.SubOn.subscribe_on_finalize_never_nested
#print axioms Rx.Handoff.SubOn.subscribe_on_late_attach_never_starts
#print axioms Rx.Handoff.SubOn.late_attach_of_unsub_returned
