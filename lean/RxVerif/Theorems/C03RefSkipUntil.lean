import RxVerif.Theorems.C03RefGStatic
import RxVerif.Theorems.C03
/-
C03-REF, skip_until: model A's `oSkipUntil` (Machine/Lib.lean, transliterating src/operators/skip_until.rs) over
two plain hot subjects (0 = source, 1 = trigger) REFINES the pure history machine `Comb.skipUntil`.
-/
namespace Rx.GRef.SkipUntil
open Rx.Sim Rx.Ref Rx.Comb Rx.CRef

/-- the `enable` flag is allocated BEFORE the controller: cell 4; controller cells 5, 6; slot 4 -/
def sc : Sctl := ⟨0, 5, 6, 4⟩

def perm (e : Nat) : Nat := if e = 0 then 1 else if e = 1 then 0 else e

theorem perm_inj (a b : Nat) (h : perm a = perm b) : a = b := by
  unfold perm at h; split at h <;> split at h <;> (try split at h) <;> (try split at h) <;> omega

/-- skip_until.rs:40-68: the trigger's observer is created first (serial 0, observer 1), then the source's
    (serial 1, observer 2) -/
def lay : GLay where
  k := 2
  cs := 5
  cm := 6
  cx := 4
  fin := 4
  ser := perm
  ob e := 1 + perm e
  hn e x := if e = 0 then .cellRead 4 false fun b => if b.toBool then sc.sinkNext x else .done
            else .cellWrite 4 false (.bool true) (sc.abortObserve 0)
  he e err := if e = 0 then sc.sinkError err else .done
  hc e := if e = 0 then sc.sinkCompleteForce else .done

theorem lay_ok : lay.Ok where
  cs := by decide
  cm := by decide
  cx := by decide
  ne1 := by decide
  ne2 := by decide
  ne3 := by decide
  fin := by decide
  obPos := by intro e; simp only [lay]; omega
  obInj := by intro a b h; simp only [lay] at h; exact perm_inj a b (by omega)
  serInj := perm_inj

structure R (s : skipUntil.State) (out : List Ev) (w : World) : Prop where
  rel : ∃ E, Rel lay E [] s.ctl ⟨.bool s.enable, 2, 3⟩ out w ∧ Static E s.ctl 2

theorem R.mk' {c : Ctl} {en : Bool} {out : List Ev} {w : World} {E : Ent}
    (h : Rel lay E [] c ⟨.bool en, 2, 3⟩ out w) (hs : Static E c 2) : R ⟨c, en⟩ out w := ⟨⟨E, h, hs⟩⟩

/-- one history entry = `Comb.skipUntil.step` -/
theorem step_spec (s : skipUntil.State) (out : List Ev) (w : World) (p : Nat × Ev) (h : R s out w) :
    WP (callOf (sjs 2) p) w (R (skipUntil.step s p).1 (out ++ (skipUntil.step s p).2)) := by
  obtain ⟨i, ev⟩ := p
  obtain ⟨c, en⟩ := s
  obtain ⟨⟨E, h, hs⟩⟩ := h
  have ok := lay_ok
  rcases Nat.lt_or_ge i 2 with hi | hi
  · rw [callOf_lt hi]
    refine static_call ok h hs (j := i) hi ev ?_ ?_
    · intro hlv E1 w1 h1 hs1
      simp only [skipUntil.step, Ctl.isLive, hlv, Bool.false_eq_true, ↓reduceIte, List.append_nil]
      exact R.mk' h1 hs1
    · intro hlv E1 w1 h1 hs1
      rcases (by omega : i = 0 ∨ i = 1) with e | e
      · subst e
        simp only [skipUntil.step, Ctl.isLive, hlv, ↓reduceIte, beq_self_eq_true]
        cases ev with
        | next d =>
          show WP (.cellRead 4 false fun b => if b.toBool then sc.sinkNext d else .done) _ _
          refine wp_cellRead_val h1.held (GRef.xc_some h1 (by simp)) ?_
          cases en with
          | true =>
            simp only [Data.toBool, ↓reduceIte]
            exact (GRef.sinkNext_spec ok h1 d).conseq fun w2 h2 => R.mk' h2 (hs1.mono (sinkNext_sub _ _))
          | false =>
            simp only [Data.toBool, Bool.false_eq_true, ↓reduceIte, List.append_nil]
            exact WP.done (R.mk' h1 hs1)
        | error e =>
          exact (GRef.sinkError_spec ok h1 e).conseq fun w2 h2 => R.mk' h2 (hs1.mono (sinkError_sub _ _))
        | complete =>
          exact (GRef.sinkCompleteForce_spec ok h1).conseq fun w2 h2 => R.mk' h2 (hs1.mono (sinkForce_sub _))
      · subst e
        simp only [skipUntil.step, Ctl.isLive, hlv, ↓reduceIte, beq_self_eq_true,
          show ((1 : Nat) == 0) = false from rfl, Bool.false_eq_true]
        cases ev with
        | next d =>
          show WP (.cellWrite 4 false (.bool true) (sc.abortObserve 0)) _ _
          refine wp_cellWrite h1.held ?_
          simp only [List.append_nil]
          exact (GRef.abort_spec ok (h1.setX ok (by simp) (.bool true)) 1).conseq fun w2 h2 =>
            R.mk' h2 (hs1.mono (abort_sub _ _))
        | error e => simp only [List.append_nil]; exact WP.done (R.mk' h1 hs1)
        | complete => simp only [List.append_nil]; exact WP.done (R.mk' h1 hs1)
  · rw [callOf_ge hi]
    have hlv : c.live.contains i = false := by
      cases q : c.live.contains i with
      | false => rfl
      | true => have := (hs.on i (by simpa using q)).1; omega
    simp only [skipUntil.step, Ctl.isLive, hlv, Bool.false_eq_true, ↓reduceIte, List.append_nil]
    exact WP.done (R.mk' h hs)

theorem drive_su (H : History) (s : skipUntil.State) (out : List Ev) (w : World) (h : R s out w) :
    WP (drive (sjs 2) H) w (R (finalFrom skipUntil.step s H) (out ++ runFrom skipUntil.step s H)) :=
  drive_spec skipUntil.step R (callOf (sjs 2)) step_spec H s out w h

/-! ### the program -/

/-- two plain subjects; test user 0 subscribes to `s0.skip_until(s1)`; then the history -/
def prog (H : History) : Prog :=
  subjsNew 2 fun sjs =>
    .obsvNew (oSkipUntil (sjs.getD 0 default).observable (sjs.getD 1 default).observable) fun id =>
    .userSub id noReact (drive sjs H)

def theObsv : Nat → Prog := oSkipUntil (sjOf 0).observable (sjOf 1).observable

/-- the world when the first `new_observer` starts -/
def W0 : World :=
  { obs := [rootObs lay true], users := [⟨0, noReact, false, true⟩],
    cells := [.lnil, .int 0, .lnil, .int 0, .bool false, .int 0, .lnil],
    slots := [none, none, none, none, none], obsvs := [theObsv] }

theorem two_cases {P : Nat → Prop} (h0 : P 0) (h1 : P 1) : ∀ j, j < 2 → P j := by
  intro j hj
  rcases (by omega : j = 0 ∨ j = 1) with e | e <;> subst e <;> assumption

theorem rel_W0 : Rel lay E0 [] ⟨true, [], []⟩ ⟨.bool false, 0, 1⟩ [] W0 :=
  rel_init (L := lay) (w := W0) lay_ok rfl rfl rfl ⟨_, rfl, rfl⟩ (two_cases rfl rfl) (two_cases rfl rfl) rfl rfl
    (by intro j hj; rcases (by simp only [lay] at hj; omega : j = 0 ∨ j = 1 ∨ j = 2 ∨ j = 3) with e | e | e | e
          <;> subst e <;> rfl) rfl rfl

/-- where the two entities end up -/
def E2 : Ent := (((E0.attach 1 1).attach 0 0).activate 1 1).activate 0 0

theorem prog_spec (H : History) :
    WP (prog H) {} (R (finalFrom skipUntil.step skipUntil.init H) (skipUntil.run 2 H)) := by
  have ok := lay_ok
  unfold prog
  refine wp_subjsNew 2 0 {} _ _ rfl rfl ?_
  refine wp_obsvNew ?_
  refine wp_userSub (f := theObsv) rfl ?_
  simp only [theObsv, oSkipUntil, sctlNew]
  refine wp_cellNew (wp_cellNew (wp_cellNew (wp_slotNew (wp_obsSetOnUnsub rfl ?_))))
  have e2 : ∀ (W : World) p Q, W = W0 → WP p W0 Q → WP p W Q := fun W p Q q hq => q ▸ hq
  refine e2 _ _ _ ?_ ?_
  · simp [W0, World.setObs, rootObs, GLay.sc, lay, subjCells, theObsv, List.range'_succ, List.replicate_succ]
  refine newObserver_spec (L := lay) ok rel_W0 rfl (e := 1) (j := 1) (by decide) rfl rfl rfl _ _ _ rfl _
    fun w1 h1 => ?_
  refine newObserver_spec (L := lay) ok h1 rfl (e := 0) (j := 0) (by decide) rfl rfl rfl _ _ _ rfl _
    fun w2 h2 => ?_
  apply WP.seq
  refine (subscribe_ent ok h2 (e := 1) (j := 1) (by decide) rfl rfl rfl (by decide)).conseq fun w3 h3 => ?_
  refine (subscribe_ent ok h3 (e := 0) (j := 0) (by decide) rfl rfl rfl (by decide)).conseq fun w4 h4 => ?_
  refine wp_userReady ?_
  have h5 := (h4.setUser (fun u => { u with ready := true }) (fun _ => rfl)).perm (Ctl.init 2) rfl
    (by intro e; simp [Ctl.init, Ctl.addObserver, List.range_succ, or_comm])
    (by intro e; rw [Bool.eq_iff_iff]; simp [Ctl.init, Ctl.addObserver, List.range_succ, or_comm])
    (two_cases (by decide) (by decide))
  have hs : Static E2 (Ctl.init 2) 2 :=
    ⟨by decide, two_cases (by decide) (by decide), by
      intro e he
      have : e = 0 ∨ e = 1 := by simpa [Ctl.init, List.range_succ] using he
      rcases this with q | q <;> subst q <;> exact ⟨by decide, by decide⟩⟩
  have h6 := drive_su H skipUntil.init [] _ (R.mk' h5 hs)
  simpa [skipUntil.run, sjs] using h6

/-- **C03-REF, skip_until.**  For EVERY history over the two subjects the program ends, for all sufficient fuel,
    with `status = ok`, no guard held, the user's log equal to the output of `Comb.skipUntil`, and subject `i`
    holding one observer iff `i` is in the machine's final `live` set. -/
theorem skip_until_refines (H : History) :
    ∃ n0, ∀ fuel, n0 ≤ fuel →
      Agrees 2 (run fuel [prog H] {}) (finalFrom skipUntil.step skipUntil.init H).ctl.live (skipUntil.run 2 H) := by
  obtain ⟨n0, w, ⟨⟨E, hrel, hs⟩⟩, hrun⟩ := WP.run_top (prog_spec H)
  refine ⟨n0, fun fuel hf => ?_⟩
  rw [hrun fuel hf]
  refine ⟨hrel.status, hrel.held, hrel.log, fun i hi => ?_⟩
  rw [hrel.regCount (by simpa [lay] using hi), hs.inMap_eq hi]
  split <;> rfl

/-- the C03 list specification transported to model A -/
theorem skip_until_machine_spec (H : History) (hwf : WellFormed 2 H) :
    ∃ n0, ∀ fuel, n0 ≤ fuel → (run fuel [prog H] {}).status = .ok ∧
      logOf (run fuel [prog H] {}) 0 = skipUntilSpec H := by
  obtain ⟨n0, h⟩ := skip_until_refines H
  exact ⟨n0, fun fuel hf => ⟨(h fuel hf).status, by rw [(h fuel hf).log, skip_until_spec 2 H hwf]⟩⟩

/-! non-vacuity -/
def demo : History :=
  [(0, .next (.int 1)), (1, .next (.int 0)), (0, .next (.int 2)), (1, .next (.int 9)), (0, .next (.int 3)),
   (0, .complete), (1, .complete)]

example : (run 3000 [prog demo] {}).status = .ok := by decide +kernel
example : logOf (run 3000 [prog demo] {}) 0 = [.next (.int 2), .next (.int 3), .complete] := by decide +kernel
example : skipUntil.run 2 demo = [.next (.int 2), .next (.int 3), .complete] := by decide +kernel
example : (List.range 2).map (regCount (run 3000 [prog (demo.take 2)] {})) = [1, 0] ∧
    (finalFrom skipUntil.step skipUntil.init (demo.take 2)).ctl.live = [0] := by decide +kernel
example : WellFormed 2 demo := by decide
example : logOf (run 3000 [prog demo] {}) 0 = skipUntilSpec demo := by decide +kernel

#print axioms skip_until_refines
#print axioms skip_until_machine_spec

end Rx.GRef.SkipUntil
