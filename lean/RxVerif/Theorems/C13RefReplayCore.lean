import RxVerif.Theorems.C13Ref
/-
C13-REF, replay (replay.rs = ref_count.rs over a `ReplaySubject`) over a hot plain source: the users' side.
Everything is allocated in call order and the first `subscribe` also allocates the source subscription, so the layout
is carried in lists: for user `u`  `roots[u]` root observer, `fwds[u]` forwarder registered in the inner Subject,
`sbs[u]` its `sbsc` cell, `acs[u]` the armed flag of its live `Subscription`.
Fixed: cells 0,1 = hot source H, 2,3 = inner Subject S, 4 = items, 5 = was_error, 6 = was_completed,
7 = `connecting`, 8 = `subscription`, 9 = `cancelled`; slots 2,3 = the hooks on S.
-/
namespace Rx.CRef
open Rx.Sim Rx.SubjM Rx.Ref Rx.RefR

def rR : RSubj := ⟨Sp, 4, 5, 6⟩
def fnR : Data → Prog := fun x => rR.next x
def feR : Nat → Prog := fun e => rR.error e
def fcR : Prog := rR.complete

structure LayR where
  roots : List Nat
  fwds : List Nat
  sbs : List Nat
  acs : List Nat

def LayR.n (L : LayR) : Nat := L.roots.length

def rootHookL (sb : Nat) : Prog := .cellRead sb false fun h => subUnsub h

/-- the root observer of user `u`: its teardown takes `sbsc` (replay_subject.rs:52-58) -/
def rootOfL (sb : Nat) (u : Nat) (r : ObsSt) : Obs :=
  ⟨cbN r.alive u, cbE r.alive u, cbC r.alive u, if r.hook then some (rootHookL sb) else none⟩

/-- the forwarder of user `u` (replay_subject.rs:87-93), registered in S -/
def fwdOfL (root : Nat) (r : ObsSt) : Obs :=
  ⟨if r.inAlive then some (.code fun x => .obsNext root x .done) else none,
   if r.inAlive then some (.code fun e => .obsError root e .done) else none,
   if r.inAlive then some (.code (.obsComplete root .done)) else none,
   r.inHook.map fun s => hookProg Sp (s : Int)⟩

def handleL (L : LayR) (u : Nat) : Data :=
  .pair (.int (rootAt L.fwds u : Nat)) (.int (rootAt L.acs u : Nat))

/-- everything the world holds for subscription `u`; `unst` = the subscription whose `sbsc` is not stored yet -/
structure UserOkL (L : LayR) (pend unst : Option Nat) (w : World) (u : Nat) (r : ObsSt) : Prop where
  user : ∃ rd, w.users[u]? = some ⟨rootAt L.roots u, noReact, rd, r.hook⟩ ∧ (pend ≠ some u → rd = true)
  root : w.obs[rootAt L.roots u]? = some (rootOfL (rootAt L.sbs u) u r)
  fwd : w.obs[rootAt L.fwds u]? = some (fwdOfL (rootAt L.roots u) r)
  sb : w.cells[rootAt L.sbs u]? = some (if unst = some u then .lnil else handleL L u)
  ac : unst ≠ some u → w.cells[rootAt L.acs u]? = some (.bool r.armed)
  unarmed : unst = some u → r.armed = false
  log : logOf w u = r.log
  seen : r.seen = true
  dead : r.hook = false → r.alive = false

/-- the inner Subject's map as stored: serial ↦ forwarder -/
def mapL (L : LayR) (l : List (Nat × Nat)) : List (Nat × Nat) := l.map fun p => (p.1, rootAt L.fwds p.2)

structure UsersPartR (L : LayR) (pend unst : Option Nat) (w : World) (s : SubjM.State) : Prop where
  lenF : L.fwds.length = L.roots.length
  lenS : L.sbs.length = L.roots.length
  /-- the armed flag of the subscription whose `sbsc` is not stored yet has not been allocated -/
  lenA : L.acs.length + (if unst.isSome then 1 else 0) = L.roots.length
  unstLast : ∀ n, unst = some n → n + 1 = L.roots.length
  cellO : w.cells[2]? = some (encMap (mapL L s.observers))
  cellS : w.cells[3]? = some (.int s.serial)
  cellI : w.cells[4]? = some (Data.ofList s.items)
  cellE : w.cells[5]? = some (Data.optEnc (s.wasError.map fun (e : Nat) => Data.int (e : Int)))
  cellC : w.cells[6]? = some (.bool s.wasCompleted)
  nUsers : w.users.length = L.roots.length
  users : ∀ u, u < L.roots.length → UserOkL L pend unst w u (s.obs u)
  unseen : ∀ u, L.roots.length ≤ u → s.obs u = {}
  quiet : ∀ u, L.roots.length ≤ u → logOf w u = []
  keys : ∀ p ∈ s.observers, p.1 ≤ s.serial
  regBound : ∀ p ∈ s.observers, p.2 < L.roots.length
  /-- the per-user cells are distinct, apart from the fixed ones, and allocated -/
  cellsNodup : (L.sbs ++ L.acs).Nodup
  cellsGe : ∀ c ∈ L.sbs ++ L.acs, 10 ≤ c ∧ c < w.cells.length

/-- two worlds hold the same things for subscription `u` -/
structure SameUL (L : LayR) (unst : Option Nat) (w w' : World) (u : Nat) : Prop where
  user : w'.users[u]? = w.users[u]?
  root : w'.obs[rootAt L.roots u]? = w.obs[rootAt L.roots u]?
  fwd : w'.obs[rootAt L.fwds u]? = w.obs[rootAt L.fwds u]?
  sb : w'.cells[rootAt L.sbs u]? = w.cells[rootAt L.sbs u]?
  ac : unst ≠ some u → w'.cells[rootAt L.acs u]? = w.cells[rootAt L.acs u]?
  log : logOf w' u = logOf w u

theorem UserOkL.frame {L pend unst w w' u r} (h : UserOkL L pend unst w u r) (s : SameUL L unst w w' u) :
    UserOkL L pend unst w' u r :=
  ⟨s.user ▸ h.user, s.root ▸ h.root, s.fwd ▸ h.fwd, s.sb ▸ h.sb, fun x => (s.ac x) ▸ h.ac x, h.unarmed,
   s.log ▸ h.log, h.seen, h.dead⟩

/-! ### distinctness of the layout -/

theorem nodup_append_ne {l1 l2 : List Nat} (h : (l1 ++ l2).Nodup) {i j : Nat} (hi : i < l1.length)
    (hj : j < l2.length) : rootAt l1 i ≠ rootAt l2 j :=
  (List.nodup_append.1 h).2.2 _ (rootAt_mem hi) _ (rootAt_mem hj)

theorem GlobR.root_ne_fwd {L : LayR} {cobs w} (g : Glob (L.roots ++ L.fwds) cobs w) {u v : Nat}
    (hu : u < L.roots.length) (hv : v < L.fwds.length) : rootAt L.roots u ≠ rootAt L.fwds v :=
  nodup_append_ne (List.nodup_append.1 g.nodup).1 hu hv

theorem GlobR.root_inj {L : LayR} {cobs w} (g : Glob (L.roots ++ L.fwds) cobs w) {u v : Nat}
    (hu : u < L.roots.length) (hv : v < L.roots.length) (h : rootAt L.roots u = rootAt L.roots v) : u = v :=
  rootAt_inj (List.nodup_append.1 (List.nodup_append.1 g.nodup).1).1 hu hv h

theorem GlobR.fwd_inj {L : LayR} {cobs w} (g : Glob (L.roots ++ L.fwds) cobs w) {u v : Nat}
    (hu : u < L.fwds.length) (hv : v < L.fwds.length) (h : rootAt L.fwds u = rootAt L.fwds v) : u = v :=
  rootAt_inj (List.nodup_append.1 (List.nodup_append.1 g.nodup).1).2.1 hu hv h

theorem GlobR.root_mem {L : LayR} {u : Nat} (hu : u < L.roots.length) : rootAt L.roots u ∈ L.roots ++ L.fwds :=
  List.mem_append_left _ (rootAt_mem hu)

theorem GlobR.fwd_mem {L : LayR} {u : Nat} (hu : u < L.fwds.length) : rootAt L.fwds u ∈ L.roots ++ L.fwds :=
  List.mem_append_right _ (rootAt_mem hu)

theorem rootAt_mem_append_idx {l1 l2 : List Nat} {i : Nat} (h : i < l1.length) :
    rootAt (l1 ++ l2) i = rootAt l1 i := by
  simp [rootAt, List.getD_eq_getElem?_getD, List.getElem?_append_left h]

theorem GlobR.root_ne_cob {L : LayR} {cobs w} (g : Glob (L.roots ++ L.fwds) cobs w) {u i : Nat}
    (hu : u < L.roots.length) (hi : i < cobs.length) : rootAt L.roots u ≠ rootAt cobs i :=
  (List.nodup_append.1 g.nodup).2.2 _ (GlobR.root_mem hu) _ (rootAt_mem hi)

theorem GlobR.fwd_ne_cob {L : LayR} {cobs w} (g : Glob (L.roots ++ L.fwds) cobs w) {u i : Nat}
    (hu : u < L.fwds.length) (hi : i < cobs.length) : rootAt L.fwds u ≠ rootAt cobs i :=
  (List.nodup_append.1 g.nodup).2.2 _ (GlobR.fwd_mem hu) _ (rootAt_mem hi)

theorem UsersPartR.stored_lt {L pend unst w s} (h : UsersPartR L pend unst w s) {u : Nat}
    (hu : u < L.roots.length) (hst : unst ≠ some u) : u < L.acs.length := by
  have := h.lenA
  cases hun : unst with
  | none => simp [hun] at this; omega
  | some n =>
    have hl := h.unstLast n hun
    have : u ≠ n := fun e => hst (by rw [hun, e])
    simp [hun] at *; omega

theorem rootAt_zero_or_mem (l : List Nat) (i : Nat) : rootAt l i = 0 ∨ rootAt l i ∈ l := by
  rcases Nat.lt_or_ge i l.length with hl | hl
  · exact Or.inr (rootAt_mem hl)
  · left; simp [rootAt, List.getD_eq_getElem?_getD, List.getElem?_eq_none hl]

theorem UsersPartR.ac_zero_or {L pend unst w s} (h : UsersPartR L pend unst w s) (u : Nat) :
    rootAt L.acs u = 0 ∨ (10 ≤ rootAt L.acs u ∧ rootAt L.acs u < w.cells.length) := by
  rcases rootAt_zero_or_mem L.acs u with h0 | hm
  · exact Or.inl h0
  · exact Or.inr (h.cellsGe _ (List.mem_append_right _ hm))

theorem UsersPartR.sb_ge {L pend unst w s} (h : UsersPartR L pend unst w s) {u : Nat} (hu : u < L.roots.length) :
    10 ≤ rootAt L.sbs u ∧ rootAt L.sbs u < w.cells.length :=
  h.cellsGe _ (List.mem_append_left _ (rootAt_mem (h.lenS ▸ hu)))

theorem UsersPartR.sb_ne_ac {L pend unst w s} (h : UsersPartR L pend unst w s) {u : Nat}
    (hu : u < L.roots.length) (v : Nat) : rootAt L.sbs u ≠ rootAt L.acs v := by
  rcases rootAt_zero_or_mem L.acs v with h0 | hm
  · have := (h.sb_ge hu).1; omega
  · exact (List.nodup_append.1 h.cellsNodup).2.2 _ (rootAt_mem (h.lenS ▸ hu)) _ hm

theorem UsersPartR.sb_inj {L pend unst w s} (h : UsersPartR L pend unst w s) {u v : Nat}
    (hu : u < L.roots.length) (hv : v < L.roots.length) (e : rootAt L.sbs u = rootAt L.sbs v) : u = v :=
  rootAt_inj (List.nodup_append.1 h.cellsNodup).1 (h.lenS ▸ hu) (h.lenS ▸ hv) e

theorem UsersPartR.ac_ge {L pend unst w s} (h : UsersPartR L pend unst w s) {u : Nat} (hu : u < L.roots.length)
    (hst : unst ≠ some u) : 10 ≤ rootAt L.acs u ∧ rootAt L.acs u < w.cells.length :=
  h.cellsGe _ (List.mem_append_right _ (rootAt_mem (h.stored_lt hu hst)))

/-- the armed flag of a stored subscription is not that of another subscription -/
theorem UsersPartR.ac_ne {L pend unst w s} (h : UsersPartR L pend unst w s) {u o : Nat} (hu : u < L.roots.length)
    (hst : unst ≠ some u) (hne : u ≠ o) : rootAt L.acs u ≠ rootAt L.acs o := by
  have hul := h.stored_lt hu hst
  rcases Nat.lt_or_ge o L.acs.length with hol | hol
  · exact fun e => hne (rootAt_inj (List.nodup_append.1 h.cellsNodup).2.1 hul hol e)
  · have h0 : rootAt L.acs o = 0 := by simp [rootAt, List.getD_eq_getElem?_getD, List.getElem?_eq_none hol]
    have := (h.ac_ge hu hst).1; omega

/-- a change of the world confined to subscription `o` (user record, root, forwarder, armed flag, log) and to
    the inner Subject's map cell -/
theorem UsersPartR.patch {L pend unst w s cobs} (h : UsersPartR L pend unst w s)
    (g : Glob (L.roots ++ L.fwds) cobs w) {o : Nat} (ho : o < L.roots.length) (w' : World) (r' : ObsSt)
    (O' : List (Nat × Nat))
    (hclen : w'.cells.length = w.cells.length)
    (hcell2 : w'.cells[2]? = some (encMap (mapL L O')))
    (hcells : ∀ i, i ≠ 2 → i ≠ rootAt L.acs o → w'.cells[i]? = w.cells[i]?)
    (hac : unst ≠ some o → w'.cells[rootAt L.acs o]? = some (.bool r'.armed))
    (hunarmed : unst = some o → r'.armed = false)
    (hulen : w'.users.length = w.users.length)
    (husers : ∀ i, i ≠ o → w'.users[i]? = w.users[i]?)
    (huser : ∃ rd, w'.users[o]? = some ⟨rootAt L.roots o, noReact, rd, r'.hook⟩ ∧ (pend ≠ some o → rd = true))
    (hothers : ∀ i, i ≠ rootAt L.roots o → i ≠ rootAt L.fwds o → w'.obs[i]? = w.obs[i]?)
    (hlogs : ∀ u, u ≠ o → logOf w' u = logOf w u)
    (hroot : w'.obs[rootAt L.roots o]? = some (rootOfL (rootAt L.sbs o) o r'))
    (hfwd : w'.obs[rootAt L.fwds o]? = some (fwdOfL (rootAt L.roots o) r'))
    (hlog : logOf w' o = r'.log) (hseen : r'.seen = true) (hdead : r'.hook = false → r'.alive = false)
    (hkeys : ∀ p ∈ O', p.1 ≤ s.serial) (hreg : ∀ p ∈ O', p.2 < L.roots.length) :
    UsersPartR L pend unst w' { s with observers := O', obs := upd s.obs o r' } :=
  { lenF := h.lenF, lenS := h.lenS, lenA := h.lenA, unstLast := h.unstLast
    cellO := hcell2
    cellS := by rw [hcells 3 (by omega) (by have := h.ac_zero_or o; omega)]; exact h.cellS
    cellI := by rw [hcells 4 (by omega) (by have := h.ac_zero_or o; omega)]; exact h.cellI
    cellE := by rw [hcells 5 (by omega) (by have := h.ac_zero_or o; omega)]; exact h.cellE
    cellC := by rw [hcells 6 (by omega) (by have := h.ac_zero_or o; omega)]; exact h.cellC
    nUsers := hulen ▸ h.nUsers
    users := by
      intro u hu
      have U := h.users u hu
      by_cases e : u = o
      · subst e
        simp only [upd, ↓reduceIte]
        exact ⟨huser, hroot, hfwd,
          by rw [hcells _ (by have := (h.sb_ge hu).1; omega) (h.sb_ne_ac hu u)]; exact U.sb, hac, hunarmed,
          hlog, hseen, hdead⟩
      · simp only [upd, e, ↓reduceIte]
        refine U.frame ⟨husers u e, hothers _ ?_ ?_, hothers _ ?_ ?_, hcells _ ?_ ?_,
          fun hst => hcells _ (by have := (h.ac_ge hu hst).1; omega) (h.ac_ne hu hst e), hlogs u e⟩
        · exact fun x => e (GlobR.root_inj g hu ho x)
        · exact GlobR.root_ne_fwd g hu (h.lenF ▸ ho)
        · exact fun x => GlobR.root_ne_fwd g ho (h.lenF ▸ hu) x.symm
        · exact fun x => e (GlobR.fwd_inj g (h.lenF ▸ hu) (h.lenF ▸ ho) x)
        · have := (h.sb_ge hu).1; omega
        · exact h.sb_ne_ac hu o
    unseen := by
      intro u hu
      have : u ≠ o := by omega
      simp only [upd, this, ↓reduceIte]; exact h.unseen u hu
    quiet := by
      intro u hu
      rw [hlogs u (by omega)]; exact h.quiet u hu
    keys := hkeys
    regBound := hreg
    cellsNodup := h.cellsNodup
    cellsGe := fun c hc => hclen ▸ h.cellsGe c hc }

end Rx.CRef
