import RxVerif.Theorems.C03RefSeqEqSetup
/-
C03-REF, sequence_equal, part 16: the set-up loop — `subscribe all`: source `j`'s `with_end` pipeline is subscribed to
zip's observer `j`.
-/
namespace Rx.SeqRef
open Rx.Sim Rx.Ref Rx.Comb Rx.CRef

/-- the world after the chains `< j` have been built -/
structure SetupInv (k j : Nat) (w : World) : Prop where
  status : w.status = .ok
  held : w.held = []
  user : ∃ u, w.users[0]? = some u ∧ u.react = noReact
  trace : w.trace = []
  cLen : w.cells.length = 2 * k + 5 + 6 * j
  sLen : w.slots.length = 2 * k + 2 + 2 * j
  oLen : w.obs.length = k + 2 + 2 * j
  root : w.obs[0]? = some (rootObs k true)
  o1 : w.obs[1]? = some (outerObs k (some (scZ k).finalize))
  oS : w.cells[oser k]? = some (.int ((1 : Nat) : Int))
  oM : w.cells[omap k]? = some (encMap [(0, 1)])
  oF : w.slots[ofin k]? = some none
  zS : w.cells[zser k]? = some (.int (k : Int))
  zM : w.cells[zmap k]? = some (encMap ((List.range k).map fun i => (i, Zo i)))
  zQ : w.cells[zq k]? = some (encQ (List.replicate k []))
  zF : w.slots[zfin k]? = some none
  zfresh : ∀ j', j ≤ j' → j' < k → w.obs[Zo j']? = some (zipObs k j' none)
  sfresh : ∀ j', j ≤ j' → j' < k → w.cells[2 * j']? = some .lnil ∧ w.cells[2 * j' + 1]? = some (.int 0) ∧
    w.slots[2 * j']? = some none ∧ w.slots[2 * j' + 1]? = some none
  done : ∀ j', j' < j → ChainAt k j' bLive w

variable {k j : Nat} {w : World}

theorem setup_step (h : SetupInv k j w) (hj : j < k) :
    WP ((oWithEnd (sjOf j).observable).sub (Zo j)) w (SetupInv k (j + 1)) := by
  have hZ := h.zfresh j (Nat.le_refl _) hj
  simp only [Obsv.sub]
  refine wp_obsIsSub hZ ?_
  simp only [zipObs, Obs.isSub, Option.isSome_some, Bool.and_self, ↓reduceIte, oWithEnd, oConcat]
  refine wp_stage1 (Zo j) (.int 0) (fun sc _ _ x => sc.sinkNext x) (fun sc _ _ e => sc.sinkError e)
    (fun sc q _ => concatNext sc q [oJust (Data.optEnc none)] 100000)
    (fun _ _ ob => (stdOp kSome (sjOf j).observable).sub ob) h.held hZ rfl fun w1 p1 => ?_
  -- concat_j has been created; now map_j
  have hC := p1.obsNew
  simp only [Obsv.sub]
  refine wp_obsIsSub hC ?_
  simp only [Obs.isSub, Option.isSome_some, Bool.and_self, ↓reduceIte, stdOp]
  refine wp_stage1 w.obs.length (kSome.enc kSome.init)
    (fun sc c serial x => .cellRead c false fun st =>
      let r := kSome.onNext (kSome.dec st) x
      .cellWrite c false (kSome.enc r.1) (holdAcq kSome.holdNext c ;; actsP sc serial r.2 ;; holdRel kSome.holdNext c))
    (fun sc c serial e => .cellRead c false fun st =>
      let r := kSome.onError (kSome.dec st) e
      .cellWrite c false (kSome.enc r.1) (actsP sc serial r.2))
    (fun sc c serial => .cellRead c false fun st =>
      let r := kSome.onComplete (kSome.dec st)
      .cellWrite c false (kSome.enc r.1)
        (holdAcq kSome.holdComplete c ;; actsP sc serial r.2 ;; holdRel kSome.holdComplete c))
    (fun _ _ o => (sjOf j).observable.sub o) (by rw [p1.held]; exact h.held) hC rfl fun w2 p2 => ?_
  -- map_j has been created; now the subject
  have hM := p2.obsNew
  simp only [Obsv.sub]
  refine wp_obsIsSub hM ?_
  simp only [Obs.isSub, Option.isSome_some, Bool.and_self, ↓reduceIte]
  -- index bookkeeping
  have hcL := h.cLen; have hsL := h.sLen; have hoL := h.oLen
  have c1L := p1.cellsLen; have s1L := p1.slotsLen; have o1L := p1.obsLen
  have c2L := p2.cellsLen; have s2L := p2.slotsLen; have o2L := p2.obsLen
  obtain ⟨sf1, sf2, sf3, sf4⟩ := h.sfresh j (Nat.le_refl _) hj
  have old_c : ∀ c, c < w.cells.length → w2.cells[c]? = w.cells[c]? := fun c hc => by
    rw [p2.cellsOld c (by omega), p1.cellsOld c hc]
  have old_s : ∀ t, t < w.slots.length → w2.slots[t]? = w.slots[t]? := fun t ht => by
    rw [p2.slotsOld t (by omega), p1.slotsOld t ht]
  have old_o : ∀ o, o < w.obs.length → o ≠ Zo j → w2.obs[o]? = w.obs[o]? := fun o ho hne => by
    rw [p2.obsOld o (by omega) (by omega), p1.obsOld o ho hne]
  refine observable_spec (sj := sjOf j) (serial := 0) (obsl := []) (by rw [p2.held, p1.held]; exact h.held) hM rfl
    (by simp [sjOf]) (by show w2.cells[2 * j + 1]? = _; rw [old_c _ (by omega)]; exact sf2)
    (by show w2.cells[2 * j]? = _; rw [old_c _ (by omega)]; exact sf1) (by intro p hp; cases hp)
    (by show w2.slots[2 * j]? = _; rw [old_s _ (by omega)]; exact sf3) ?_
  -- the world after the subscription
  have eO : w.obs.length = Co k j := by rw [hoL]; rfl
  have eM : w1.obs.length = Mo k j := by rw [o1L, hoL]; rfl
  have eC : (⟨Zo j, w.cells.length, w.cells.length + 1, w.slots.length⟩ : Sctl) = scC k j := by
    simp only [scC, cser, cmap, cfin, hcL, hsL]
  have eMs : (⟨w.obs.length, w1.cells.length, w1.cells.length + 1, w1.slots.length⟩ : Sctl) = scM k j := by
    simp only [scM, mser, mmap, mfin, c1L, s1L, hcL, hsL, eO]
  have eq1 : w.cells.length + 2 = cq k j := by rw [hcL]; rfl
  have eq2 : w1.cells.length + 2 = mst k j := by rw [c1L, hcL]; rfl
  have cells3 : ∀ c, c ≠ 2 * j → c ≠ 2 * j + 1 →
      (subWorld (sjOf j) w2 w1.obs.length 0 []).cells[c]? = w2.cells[c]? := by
    intro c h1 h2
    simp only [subWorld, sjOf]
    rw [set_get_other _ (Ne.symm h1), set_get_other _ (Ne.symm h2)]
  have obs3 : ∀ o, o ≠ w1.obs.length → (subWorld (sjOf j) w2 w1.obs.length 0 []).obs[o]? = w2.obs[o]? := by
    intro o ho; show (w2.obs.modify _ _)[o]? = _; rw [modify_get_other _ _ (Ne.symm ho)]
  have top_c : ∀ c, 2 * k ≤ c → c < 2 * k + 5 →
      (subWorld (sjOf j) w2 w1.obs.length 0 []).cells[c]? = w.cells[c]? := fun c h1 h2 => by
    rw [cells3 c (by omega) (by omega), old_c c (by omega)]
  have zj : ∀ a, Zo a = 2 + a := fun _ => rfl
  have eMv : w1.obs.length = k + 2 + 2 * j + 1 := by omega
  exact
  { status := by show w2.status = _; rw [p2.status, p1.status]; exact h.status
    held := by show w2.held = _; rw [p2.held, p1.held]; exact h.held
    user := by show ∃ u, w2.users[0]? = some u ∧ _; rw [p2.users, p1.users]; exact h.user
    trace := by show w2.trace = _; rw [p2.trace, p1.trace]; exact h.trace
    cLen := by show (List.set (List.set _ _ _) _ _).length = _; simp only [List.length_set]; omega
    sLen := by show w2.slots.length = _; omega
    oLen := by show (w2.obs.modify _ _).length = _; rw [List.length_modify]; omega
    root := by rw [obs3 0 (by omega), old_o 0 (by omega) (by rw [zj]; omega)]; exact h.root
    o1 := by rw [obs3 1 (by omega), old_o 1 (by omega) (by rw [zj]; omega)]; exact h.o1
    oS := by rw [top_c _ (by simp only [oser]; omega) (by simp only [oser]; omega)]; exact h.oS
    oM := by rw [top_c _ (by simp only [omap]; omega) (by simp only [omap]; omega)]; exact h.oM
    oF := by show w2.slots[_]? = _; rw [old_s _ (by simp only [ofin]; omega)]; exact h.oF
    zS := by rw [top_c _ (by simp only [zser]; omega) (by simp only [zser]; omega)]; exact h.zS
    zM := by rw [top_c _ (by simp only [zmap]; omega) (by simp only [zmap]; omega)]; exact h.zM
    zQ := by rw [top_c _ (by simp only [zq]; omega) (by simp only [zq]; omega)]; exact h.zQ
    zF := by show w2.slots[_]? = _; rw [old_s _ (by simp only [zfin]; omega)]; exact h.zF
    zfresh := by
      intro j' h1 h2
      rw [obs3 _ (by rw [zj]; omega), old_o _ (by rw [zj]; omega) (by rw [zj, zj]; omega)]
      exact h.zfresh j' (by omega) h2
    sfresh := by
      intro j' h1 h2
      obtain ⟨a1, a2, a3, a4⟩ := h.sfresh j' (by omega) h2
      refine ⟨?_, ?_, ?_, ?_⟩
      · rw [cells3 _ (by omega) (by omega), old_c _ (by omega)]; exact a1
      · rw [cells3 _ (by omega) (by omega), old_c _ (by omega)]; exact a2
      · show w2.slots[_]? = _; rw [old_s _ (by omega)]; exact a3
      · show w2.slots[_]? = _; rw [old_s _ (by omega)]; exact a4
    done := by
      intro j' hj'
      rcases Nat.lt_or_ge j' j with hlt | hge
      · -- an older chain: untouched
        refine (h.done j' hlt).congr' ?_ ?_ ?_
        · intro c hc
          simp only [List.mem_cons, List.not_mem_nil, or_false, cser, cmap, cq, mmap, mst] at hc
          rw [cells3 c (by omega) (by omega), old_c c (by omega)]
        · intro o ho
          simp only [chainObs, lowObs, jl, bLive, List.map_nil, List.mem_cons, List.not_mem_nil, or_false, Zo, Co,
            Mo] at ho
          rw [obs3 o (by omega), old_o o (by omega) (by rw [zj]; omega)]
        · intro t ht
          simp only [List.mem_cons, List.not_mem_nil, or_false, cfin, mfin] at ht
          show w2.slots[t]? = _
          exact old_s t (by omega)
      · -- the new chain
        have hjj : j' = j := by omega
        subst hjj
        have hZ1 := p1.obsS _ hZ
        rw [eC] at hZ1
        have hC2 := p2.obsS _ hC
        rw [eMs, eC, eq1] at hC2
        rw [eMs, eq2] at hM
        exact
        { subjO := by
            simp only [subWorld, sjOf]
            rw [set_get_same _ (by rw [set_get_other _ (by omega)]; rw [old_c _ (by omega)]; exact sf1), eM]
            rfl
          subjS := by
            simp only [subWorld, sjOf]
            rw [set_get_other _ (by omega), set_get_same _ (by rw [old_c _ (by omega)]; exact sf2)]
          sl1 := by show w2.slots[_]? = _; rw [old_s _ (by omega)]; exact sf3
          sl2 := by show w2.slots[_]? = _; rw [old_s _ (by omega)]; exact sf4
          sl3 := by
            show w2.slots[_]? = _
            rw [p2.slotsOld _ (by simp only [cfin]; omega)]
            have := p1.slotNew; rw [hsL] at this; exact this
          sl4 := by
            show w2.slots[_]? = _
            have := p2.slotNew; rw [s1L, hsL] at this; exact this
          cS := by
            rw [cells3 _ (by simp only [cser]; omega) (by simp only [cser]; omega),
              p2.cellsOld _ (by simp only [cser]; omega)]
            have := p1.cSer; rw [hcL] at this; exact this
          cM := by
            rw [cells3 _ (by simp only [cmap]; omega) (by simp only [cmap]; omega),
              p2.cellsOld _ (by simp only [cmap]; omega)]
            have := p1.cMap; rw [hcL, eO] at this; exact this
          cQ := by
            rw [cells3 _ (by simp only [cq]; omega) (by simp only [cq]; omega),
              p2.cellsOld _ (by simp only [cq]; omega)]
            have := p1.cExt; rw [hcL] at this; exact this
          mM := by
            rw [cells3 _ (by simp only [mmap]; omega) (by simp only [mmap]; omega)]
            have := p2.cMap; rw [c1L, hcL, eM] at this; exact this
          mT := by
            rw [cells3 _ (by simp only [mst]; omega) (by simp only [mst]; omega)]
            have := p2.cExt; rw [c1L, hcL] at this; exact this
          oZ := by
            rw [obs3 _ (by rw [zj]; omega), p2.obsOld _ (by rw [zj]; omega) (by rw [zj]; omega), hZ1]
            rfl
          oC := by
            rw [← eO, obs3 _ (by omega), hC2]
            rfl
          oM := by
            show (w2.obs.modify _ _)[_]? = _
            rw [← eM, modify_get_same _ _ hM]
            rfl
          oJ := by intro p hp; cases hp } }

end Rx.SeqRef
