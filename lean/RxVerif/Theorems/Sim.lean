import RxVerif.Theorems.SimLoop
import RxVerif.Machine.Closed
/-
SIM: the object machine runs a standard operator exactly as its kernel says.

`stdOp K src` (Machine/Lib.lean; the shape of src/operators/take.rs, skip.rs, map.rs, … : one
`StreamController::new`, one state cell, one `new_observer` with three closures, `source.inner_subscribe`)
subscribed by a plain test subscriber to a polite script source, from an ARBITRARY ready world,
produces for the new subscriber exactly `K.run s`, disturbs nobody else, and leaves the upstream
observer unsubscribed exactly when the (machine-exact) kernel run says `cancelled` or the source
delivered its own terminal.

Layers: `SimBase` (WP calculus + `Rep`), `SimMacro` (StreamController macros vs `actX`), `SimLoop`
(the three closures, the script loop), this file (subscription set-up, `KRun` vs the machine-exact
run, main theorems).
-/
namespace Rx.Sim

/-! ### subscription set-up -/

/-- the shape shared by every standard operator: one controller, one state cell, one upstream observer -/
def genOp (N : Sctl → Nat → Nat → Data → Prog) (E : Sctl → Nat → Nat → Nat → Prog)
    (C : Sctl → Nat → Nat → Prog) (init : Data) (src : Obsv) : Obsv := fun s =>
  sctlNew s fun sc => .cellNew init fun c => sc.newObserver (N sc c) (E sc c) (C sc c) fun o => src.sub o

theorem modify_concat_length {α} (l : List α) (x : α) (f : α → α) :
    (l ++ [x]).modify l.length f = l ++ [f x] := by
  induction l with
  | nil => rfl
  | cons a l ih => simp [ih]

theorem set3_0 {α} (l : List α) (a b c a' : α) : (l ++ [a, b, c]).set l.length a' = l ++ [a', b, c] := by
  induction l with
  | nil => rfl
  | cons x l ih => simp [ih]

theorem set3_1 {α} (l : List α) (a b c b' : α) :
    (l ++ [a, b, c]).set (l.length + 1) b' = l ++ [a, b', c] := by
  induction l with
  | nil => rfl
  | cons x l ih => simp [ih]

theorem get3_0 {α} (l : List α) (a b c : α) : (l ++ [a, b, c])[l.length]? = some a := by simp
theorem get3_1 {α} (l : List α) (a b c : α) : (l ++ [a, b, c])[l.length + 1]? = some b := by simp
theorem get3_2 {α} (l : List α) (a b c : α) : (l ++ [a, b, c])[l.length + 2]? = some c := by simp
theorem get2_0 {α} (l : List α) (a b : α) : (l ++ [a, b])[l.length]? = some a := by simp
theorem get2_1 {α} (l : List α) (a b : α) : (l ++ [a, b])[l.length + 1]? = some b := by simp

/-- configuration of the subscription that `genOp N E C` creates in world `w` -/
def cfgGen (N : Sctl → Nat → Nat → Data → Prog) (E : Sctl → Nat → Nat → Nat → Prog)
    (C : Sctl → Nat → Nat → Prog) (w : World) : Cfg :=
  let sc : Sctl := ⟨w.obs.length, w.cells.length, w.cells.length + 1, w.slots.length⟩
  { R := w.obs.length, U := w.obs.length + 1, sU := w.users.length
    cs := w.cells.length, cm := w.cells.length + 1, cc := w.cells.length + 2, fin := w.slots.length
    hn := N sc (w.cells.length + 2) 0, he := E sc (w.cells.length + 2) 0, hc := C sc (w.cells.length + 2) 0
    base := logOf w }

theorem cfgGen_ok (N E C) (w : World) : (cfgGen N E C w).Ok :=
  ⟨by simp [cfgGen], by simp [cfgGen]⟩

/-- the world right after `subscribe` has reached the source's emission loop -/
def setupW (N : Sctl → Nat → Nat → Data → Prog) (E : Sctl → Nat → Nat → Nat → Prog)
    (C : Sctl → Nat → Nat → Prog) (init : Data) (f : Nat → Prog) (tag : Nat) (w : World) : World :=
  let c := cfgGen N E C w
  { obs := w.obs ++ [xR c true true, xU c true]
    slots := w.slots ++ [none]
    cells := w.cells ++ [.int 1, mapD c true, init]
    obsvs := w.obsvs ++ [f]
    users := w.users ++ [⟨w.obs.length, fun _ _ _ => .done, false, true⟩]
    held := []
    trace := w.trace ++ [.probe (tag * 4) (.int (w.obs.length + 1 : Nat))]
    status := .ok }

theorem setup_run (N E C init tag evs) (w : World) (hs : w.status = .ok) (hh : w.held = [])
    (fuel : Nat) (st : List Prog) :
    run (fuel + 15) ((Prog.obsvNew (genOp N E C init (oScript tag true evs)) fun id =>
        .userSub id (fun _ _ _ => .done) .done) :: st) w
      = run fuel (scriptLoop tag true (w.obs.length + 1) evs :: .userReady w.users.length .done :: st)
          (setupW N E C init (genOp N E C init (oScript tag true evs)) tag w) := by
  obtain ⟨obs, slots, cells, obsvs, users, held, trace, status⟩ := w
  simp only at hs hh
  subst hs hh
  simp only [genOp, run, sctlNew, Sctl.newObserver, Obsv.sub, oScript, List.getElem?_concat_length,
    World.conflicts, List.any_nil, World.setObs, World.emit, Bool.false_eq_true, ↓reduceIte, Bool.and_false,
    List.append_assoc, List.cons_append, List.nil_append, List.length_append, List.length_cons, List.length_nil,
    modify_concat_length, get3_0, get3_1, set3_0, set3_1, get2_0, get2_1, Option.getD_some, Data.toInt, Int.toNat_zero,
    Obs.isSub, Option.isSome_some, Bool.and_self, Nat.zero_add, Nat.reduceAdd]
  rfl

theorem setup_rep (N E C init f tag) (w : World) (hq : logOf w w.users.length = []) :
    Rep (cfgGen N E C w) true true true [] init [] (setupW N E C init f tag w) where
  status := rfl
  held := rfl
  obsR := ⟨true, get2_0 _ _ _⟩
  obsU := get2_1 _ _ _
  map := get3_1 _ _ _ _
  cst := get3_2 _ _ _ _
  slot := by simp [setupW, cfgGen]
  user := ⟨⟨w.obs.length, fun _ _ _ => .done, false, true⟩, by simp [setupW, cfgGen], rfl⟩
  log := by
    show logOf (w.emit (.probe _ _)) _ = _
    rw [logOf_emit_probe]; exact hq
  others := fun s' _ => by
    show logOf (w.emit (.probe _ _)) _ = _
    rw [logOf_emit_probe]; rfl

/-! ### the statement's vocabulary -/

def subscribeScript {σ} (K : Kernel σ) (tag : Nat) (s : Stream) : Prog :=
  .obsvNew (stdOp K (oScript tag true (s.toEvs))) fun id => .userSub id (fun _ _ _ => .done) .done

/-- any world a finished, successful run can have left behind -/
structure Ready (w : World) : Prop where
  status : w.status = .ok
  held : w.held = []
  inv : Inv w

/-- the observer `stdOp` handed to the source (created right after the subscriber's root observer)
    is no longer subscribed -/
def upstreamCancelled (w w' : World) : Bool :=
  (w'.obs[w.obs.length + 1]?.map Obs.isSub) == some false

def stdN {σ} (K : Kernel σ) : Sctl → Nat → Nat → Data → Prog := fun sc c serial x =>
  .cellRead c false fun st =>
    let r := K.onNext (K.dec st) x
    .cellWrite c false (K.enc r.1) (holdAcq K.holdNext c ;; actsP sc serial r.2 ;; holdRel K.holdNext c)
def stdE {σ} (K : Kernel σ) : Sctl → Nat → Nat → Nat → Prog := fun sc c serial e =>
  .cellRead c false fun st =>
    let r := K.onError (K.dec st) e
    .cellWrite c false (K.enc r.1) (actsP sc serial r.2)
def stdC {σ} (K : Kernel σ) : Sctl → Nat → Nat → Prog := fun sc c serial =>
  .cellRead c false fun st =>
    let r := K.onComplete (K.dec st)
    .cellWrite c false (K.enc r.1) (holdAcq K.holdComplete c ;; actsP sc serial r.2 ;; holdRel K.holdComplete c)

theorem stdOp_eq_genOp {σ} (K : Kernel σ) (src : Obsv) :
    stdOp K src = genOp (stdN K) (stdE K) (stdC K) (K.enc K.init) src := rfl

theorem std_handlers {σ} (K : Kernel σ) (w : World) :
    Handlers K (cfgGen (stdN K) (stdE K) (stdC K) w) :=
  ⟨fun _ => rfl, fun _ => rfl, rfl⟩

/-! ### machine = machine-exact kernel run -/

theorem stdOp_simX {σ} (K : Kernel σ) (hK : Kernel.WellEncoded K) (w : World) (hw : Ready w) (tag : Nat)
    (s : Stream) :
    ∃ N, ∀ fuel, N ≤ fuel →
      let w' := run fuel [subscribeScript K tag s] w
      w'.status = .ok ∧
      logOf w' w.users.length = (runFullX K s).out ∧
      (∀ s', s' ≠ w.users.length → logOf w' s' = logOf w s') ∧
      upstreamCancelled w w' = ((runFullX K s).cancelled || s.2 != .silent) ∧
      w'.held = [] := by
  let c := cfgGen (stdN K) (stdE K) (stdC K) w
  have ok : c.Ok := cfgGen_ok _ _ _ w
  have h1 : RepK c false {} [] (K.enc K.init)
      (setupW (stdN K) (stdE K) (stdC K) (K.enc K.init) (stdOp K (oScript tag true s.toEvs)) tag w) :=
    setup_rep _ _ _ _ _ _ w (hw.inv.quiet _ (Nat.le_refl _))
  obtain ⟨n, w2, ⟨cs', h2⟩, hrun⟩ := loop_spec ok (std_handlers K w) hK tag s.2 s.1 K.init {} _ h1
  refine ⟨n + 18, fun fuel hf => ?_⟩
  obtain ⟨k, rfl⟩ : ∃ k, fuel = k + 1 + 1 + 1 + n + 15 := ⟨fuel - (n + 18), by omega⟩
  have e : run (k + 1 + 1 + 1 + n + 15) [subscribeScript K tag s] w
      = w2.setUser w.users.length fun u => { u with ready := true } := by
    show run _ ((Prog.obsvNew (genOp (stdN K) (stdE K) (stdC K) (K.enc K.init)
      (oScript tag true s.toEvs)) _) :: _) w = _
    rw [setup_run _ _ _ _ _ _ w hw.status hw.held]
    exact (hrun (k + 1 + 1 + 1) [.userReady w.users.length .done]).trans rfl
  simp only [e]
  unfold RepK at h2
  refine ⟨h2.status, h2.log, h2.others, ?_, h2.held⟩
  have hu := h2.obsU
  show ((w2.obs[w.obs.length + 1]?).map Obs.isSub == some false) = _
  have hu' : w2.obs[w.obs.length + 1]? = some (xU c (!((runFullX K s).cancelled || s.2 != .silent))) := hu
  rw [hu']
  cases (runFullX K s).cancelled || s.2 != .silent <;> rfl

/-! ### `KRun` against the machine-exact run

`KRun.act .abortSelf` says `cancelled := true`; the machine (and the Rust code) unsubscribes the
upstream observer only if its serial is still registered.  The two can differ only after the
downstream has already received its terminal, so the subscriber's log is the same for EVERY kernel;
the `cancelled` flag is the same for every kernel whose `on_next` never completes before aborting
(`AbortsFirst`: true of every kernel of Kernel/Basic.lean). -/

theorem actX_dead (r : KRun) (a : Act) (h1 : r.alive = false) (h2 : r.registered = false) :
    actX r a = r := by
  obtain ⟨al, ca, rg, out⟩ := r
  simp only at h1 h2
  subst h1 h2
  cases a <;> simp [actX, KRun.act]

theorem actsX_dead (as : List Act) (r : KRun) (h1 : r.alive = false) (h2 : r.registered = false) :
    actsX r as = r := by
  induction as with
  | nil => rfl
  | cons a as ih => simp only [actsX, List.foldl_cons, actX_dead r a h1 h2]; exact ih

theorem act_dead (r : KRun) (a : Act) (h1 : r.alive = false) :
    (r.act a).alive = false ∧ (r.act a).out = r.out ∧ (r.cancelled = true → (r.act a).cancelled = true) := by
  cases a <;> simp [KRun.act, h1] <;> intro h <;> simp [h]

/-- from the initial state: an unregistered upstream is cancelled unless the downstream is already dead -/
def GoodR (r : KRun) : Prop := r.registered = false → r.cancelled = true ∨ r.alive = false

theorem goodR_act (r : KRun) (a : Act) (h : GoodR r) : GoodR (r.act a) := by
  obtain ⟨al, ca, rg, out⟩ := r
  unfold GoodR at *
  cases a <;> cases al <;> cases ca <;> cases rg <;> simp_all [KRun.act]

/-- the two runs have parted: `KRun` believes `cancelled`, the machine's upstream is still subscribed;
    the downstream is dead on both sides, so nothing more is ever delivered -/
structure Div (r rx : KRun) : Prop where
  rc : r.cancelled = true
  ra : r.alive = false
  xa : rx.alive = false
  xr : rx.registered = false
  out : rx.out = r.out

def J (r rx : KRun) : Prop := (rx = r ∧ GoodR r) ∨ Div r rx

theorem J.out {r rx : KRun} (h : J r rx) : rx.out = r.out := by
  rcases h with ⟨rfl, _⟩ | h
  · rfl
  · exact h.out

theorem J_act (r rx : KRun) (a : Act) (h : J r rx) : J (r.act a) (actX rx a) := by
  rcases h with ⟨rfl, hg⟩ | h
  · by_cases ha : a = .abortSelf
    · subst ha
      obtain ⟨al, ca, rg, out⟩ := rx
      unfold GoodR at hg
      cases rg with
      | true => left; refine ⟨by simp [actX, KRun.act], ?_⟩; simp [GoodR, KRun.act]
      | false =>
        cases ca with
        | true => left; refine ⟨by simp [actX, KRun.act], ?_⟩; simp [GoodR, KRun.act]
        | false =>
          right
          have : al = false := by simpa using hg
          subst this
          exact ⟨rfl, rfl, rfl, rfl, rfl⟩
    · left
      refine ⟨?_, goodR_act _ _ hg⟩
      cases a <;> first | rfl | exact absurd rfl ha
  · right
    have := act_dead r a h.ra
    rw [actX_dead rx a h.xa h.xr]
    exact ⟨this.2.2 h.rc, this.1, h.xa, h.xr, by rw [this.2.1]; exact h.out⟩

theorem J_acts (as : List Act) : ∀ (r rx : KRun), J r rx → J (r.acts as) (actsX rx as) := by
  induction as with
  | nil => intro r rx h; exact h
  | cons a as ih =>
    intro r rx h
    simp only [KRun.acts, actsX, List.foldl_cons]
    exact ih _ _ (J_act r rx a h)

def JS {σ} (p q : σ × KRun) : Prop := (q.2 = p.2 ∧ q.1 = p.1 ∧ GoodR p.2) ∨ Div p.2 q.2

theorem feed_cancelled {σ} (K : Kernel σ) (st : σ) (r : KRun) (xs : List Data) (h : r.cancelled = true) :
    K.feed st r xs = (st, r) := by
  cases xs <;> simp [Kernel.feed, h]

theorem JS_feed {σ} (K : Kernel σ) (xs : List Data) : ∀ (st stx : σ) (r rx : KRun),
    JS (st, r) (stx, rx) → JS (K.feed st r xs) (feedX K stx rx xs) := by
  induction xs with
  | nil => intro st stx r rx h; simpa [Kernel.feed, feedX] using h
  | cons x xs ih =>
    intro st stx r rx h
    rcases h with ⟨h1, h2, hg⟩ | h
    · simp only at h1 h2 hg
      subst h1 h2
      cases hc : rx.cancelled with
      | true =>
        simp only [Kernel.feed, feedX, hc, ↓reduceIte]
        exact Or.inl ⟨rfl, rfl, hg⟩
      | false =>
        simp only [Kernel.feed, feedX, hc, Bool.false_eq_true, ↓reduceIte]
        apply ih
        rcases J_acts (K.onNext stx x).2 rx rx (Or.inl ⟨rfl, hg⟩) with ⟨e, g⟩ | d
        · exact Or.inl ⟨e, rfl, g⟩
        · exact Or.inr d
    · simp only at h
      rw [feed_cancelled K st r _ h.rc]
      cases hc : rx.cancelled with
      | true =>
        simp only [feedX, hc, ↓reduceIte]
        exact Or.inr h
      | false =>
        simp only [feedX, hc, Bool.false_eq_true, ↓reduceIte]
        rw [actsX_dead _ rx h.xa h.xr]
        have := ih st (K.onNext stx x).1 r rx (Or.inr h)
        rwa [feed_cancelled K st r _ h.rc] at this

theorem JS_finish {σ} (K : Kernel σ) (e : Ending) (p q : σ × KRun) (h : JS p q) :
    (finishX K q.1 q.2 e).out = (K.finish p.1 p.2 e).out := by
  obtain ⟨st, r⟩ := p
  obtain ⟨stx, rx⟩ := q
  rcases h with ⟨h1, h2, hg⟩ | h
  · simp only at h1 h2 hg
    subst h1 h2
    cases e with
    | silent => rfl
    | complete =>
      simp only [finishX, Kernel.finish]
      split
      · rfl
      · exact (J_acts _ rx rx (Or.inl ⟨rfl, hg⟩)).out
    | error e =>
      simp only [finishX, Kernel.finish]
      split
      · rfl
      · exact (J_acts _ rx rx (Or.inl ⟨rfl, hg⟩)).out
  · simp only at h
    have hr : K.finish st r e = r := by cases e <;> simp [Kernel.finish, h.rc]
    rw [hr]
    cases e with
    | silent => exact h.out
    | complete =>
      simp only [finishX]
      split
      · exact h.out
      · rw [actsX_dead _ rx h.xa h.xr]; exact h.out
    | error e =>
      simp only [finishX]
      split
      · exact h.out
      · rw [actsX_dead _ rx h.xa h.xr]; exact h.out

/-- the subscriber's log: `KRun` is exact for every kernel -/
theorem runFullX_out {σ} (K : Kernel σ) (s : Stream) : (runFullX K s).out = K.run s := by
  have h0 : JS (K.init, ({} : KRun)) (K.init, ({} : KRun)) :=
    Or.inl ⟨rfl, rfl, by intro h; cases h⟩
  have := JS_finish K s.2 _ _ (JS_feed K s.1 _ _ _ _ h0)
  simpa [runFullX, Kernel.run] using this

/-- no `complete` before an `abortSelf` in one action list (`ab`: an `abortSelf` has been seen) -/
def okActs : Bool → List Act → Bool
  | _, [] => true
  | _, .abortSelf :: as => okActs true as
  | ab, .complete :: as => ab && okActs ab as
  | ab, _ :: as => okActs ab as

/-- `on_next` never calls `sink_complete` without having called `upstream_abort_observe` first -/
def _root_.Rx.Kernel.AbortsFirst {σ} (K : Kernel σ) : Prop := ∀ st x, okActs false (K.onNext st x).2 = true

/-- the upstream is registered or already cancelled -/
def RegOrCanc (r : KRun) : Prop := r.registered = true ∨ r.cancelled = true

theorem actX_eq (r : KRun) (a : Act) (h : RegOrCanc r) : actX r a = r.act a := by
  obtain ⟨al, ca, rg, out⟩ := r
  unfold RegOrCanc at h
  cases a <;> first | rfl | (rcases h with h | h <;> simp only at h <;> subst h <;> simp [actX, KRun.act])

theorem canc_act (r : KRun) (a : Act) (h : r.cancelled = true) : (r.act a).cancelled = true := by
  obtain ⟨al, ca, rg, out⟩ := r
  simp only at h
  subst h
  cases a <;> cases al <;> simp [KRun.act]

theorem regOrCanc_act (r : KRun) (a : Act) (h : RegOrCanc r) (ha : a ≠ .complete ∨ r.cancelled = true) :
    RegOrCanc (r.act a) := by
  obtain ⟨al, ca, rg, out⟩ := r
  unfold RegOrCanc at *
  cases a <;> cases al <;> cases ca <;> cases rg <;> simp_all [KRun.act]

theorem acts_exact (as : List Act) : ∀ (ab : Bool) (r : KRun), okActs ab as = true →
    (ab = true → r.cancelled = true) → RegOrCanc r →
    actsX r as = r.acts as ∧ RegOrCanc (r.acts as) := by
  induction as with
  | nil => intro ab r _ _ h; exact ⟨rfl, h⟩
  | cons a as ih =>
    intro ab r hok hab hr
    simp only [actsX, KRun.acts, List.foldl_cons]
    rw [actX_eq r a hr]
    cases a with
    | abortSelf =>
      exact ih true _ (by simpa [okActs] using hok) (fun _ => by simp [KRun.act])
        (regOrCanc_act _ _ hr (Or.inl (by simp)))
    | complete =>
      simp only [okActs, Bool.and_eq_true] at hok
      exact ih ab _ hok.2 (fun _ => canc_act _ _ (hab hok.1)) (regOrCanc_act _ _ hr (Or.inr (hab hok.1)))
    | emit d =>
      exact ih ab _ (by simpa [okActs] using hok) (fun h => canc_act _ _ (hab h))
        (regOrCanc_act _ _ hr (Or.inl (by simp)))
    | emitAll ds =>
      exact ih ab _ (by simpa [okActs] using hok) (fun h => canc_act _ _ (hab h))
        (regOrCanc_act _ _ hr (Or.inl (by simp)))
    | fail e =>
      exact ih ab _ (by simpa [okActs] using hok) (fun h => canc_act _ _ (hab h))
        (regOrCanc_act _ _ hr (Or.inl (by simp)))
    | finalize =>
      exact ih ab _ (by simpa [okActs] using hok) (fun h => canc_act _ _ (hab h))
        (regOrCanc_act _ _ hr (Or.inl (by simp)))

theorem feed_exact {σ} (K : Kernel σ) (hA : Kernel.AbortsFirst K) (xs : List Data) : ∀ (st : σ) (r : KRun),
    RegOrCanc r → feedX K st r xs = K.feed st r xs := by
  induction xs with
  | nil => intro st r _; rfl
  | cons x xs ih =>
    intro st r hr
    simp only [feedX, Kernel.feed]
    split
    · rfl
    · have := acts_exact (K.onNext st x).2 false r (hA st x) (by intro h; cases h) hr
      rw [this.1]
      exact ih _ _ this.2

theorem cancelled_exact {σ} (K : Kernel σ) (hA : Kernel.AbortsFirst K) (s : Stream) :
    ((runFullX K s).cancelled || s.2 != .silent) = ((K.runFull s).cancelled || s.2 != .silent) := by
  obtain ⟨xs, e⟩ := s
  cases e with
  | silent =>
    simp only [runFullX, Kernel.runFull, finishX, Kernel.finish]
    rw [feed_exact K hA xs K.init {} (Or.inl rfl)]
  | complete =>
    have h : (Ending.complete != Ending.silent) = true := rfl
    simp [h]
  | error e =>
    have h : (Ending.error e != Ending.silent) = true := by
      rw [bne_iff_ne]; intro h; cases h
    simp [h]

/-! ### main theorems -/

/-- SIM.  `K.run s` is what the new subscriber sees — for EVERY well-encoded kernel, from ANY ready
    world — and nobody else is disturbed.  The cancellation link is stated with the machine-exact run
    (`runFullX`); `stdOp_sim_cancel` below replaces it by `K.runFull` for kernels that abort first. -/
theorem stdOp_sim {σ} (K : Kernel σ) (hK : Kernel.WellEncoded K) (w : World) (hw : Ready w) (tag : Nat)
    (s : Stream) :
    ∃ N, ∀ fuel, N ≤ fuel →
      let w' := run fuel [subscribeScript K tag s] w
      w'.status = .ok ∧
      logOf w' w.users.length = K.run s ∧
      (∀ s', s' ≠ w.users.length → logOf w' s' = logOf w s') ∧
      upstreamCancelled w w' = ((runFullX K s).cancelled || s.2 != .silent) := by
  obtain ⟨N, h⟩ := stdOp_simX K hK w hw tag s
  refine ⟨N, fun fuel hf => ?_⟩
  have := h fuel hf
  rw [runFullX_out] at this
  exact ⟨this.1, this.2.1, this.2.2.1, this.2.2.2.1⟩

/-- the world after the subscription is ready again: subscriptions can be chained -/
theorem stdOp_ready {σ} (K : Kernel σ) (hK : Kernel.WellEncoded K) (w : World) (hw : Ready w) (tag : Nat)
    (s : Stream) :
    ∃ N, ∀ fuel, N ≤ fuel → Ready (run fuel [subscribeScript K tag s] w) := by
  obtain ⟨N, h⟩ := stdOp_simX K hK w hw tag s
  refine ⟨N, fun fuel hf => ?_⟩
  have := h fuel hf
  exact ⟨this.1, this.2.2.2.2, run_closed inv_closed _ _ _ hw.inv⟩

/-- C06 link: the upstream observer ends up unsubscribed iff the kernel run says `cancelled`, or the
    source delivered its own terminal (which also clears the observer's slots). -/
theorem stdOp_sim_cancel {σ} (K : Kernel σ) (hK : Kernel.WellEncoded K) (hA : Kernel.AbortsFirst K)
    (w : World) (hw : Ready w) (tag : Nat) (s : Stream) :
    ∃ N, ∀ fuel, N ≤ fuel →
      let w' := run fuel [subscribeScript K tag s] w
      w'.status = .ok ∧
      logOf w' w.users.length = K.run s ∧
      (∀ s', s' ≠ w.users.length → logOf w' s' = logOf w s') ∧
      upstreamCancelled w w' = ((K.runFull s).cancelled || s.2 != .silent) := by
  obtain ⟨N, h⟩ := stdOp_sim K hK w hw tag s
  refine ⟨N, fun fuel hf => ?_⟩
  have := h fuel hf
  rw [cancelled_exact K hA] at this
  exact this

/-- a source that never terminates: unsubscribed ⇔ cancelled, exactly -/
theorem stdOp_sim_silent {σ} (K : Kernel σ) (hK : Kernel.WellEncoded K) (hA : Kernel.AbortsFirst K)
    (w : World) (hw : Ready w) (tag : Nat) (xs : List Data) :
    ∃ N, ∀ fuel, N ≤ fuel →
      upstreamCancelled w (run fuel [subscribeScript K tag (xs, .silent)] w)
        = (K.runFull (xs, .silent)).cancelled := by
  obtain ⟨N, h⟩ := stdOp_sim_cancel K hK hA w hw tag (xs, .silent)
  refine ⟨N, fun fuel hf => ?_⟩
  have := (h fuel hf).2.2.2
  simpa using this

/-- C14: what a new subscriber sees does not depend on the world it subscribes in -/
theorem subscribe_independent {σ} (K : Kernel σ) (hK : Kernel.WellEncoded K) (w₁ w₂ : World)
    (h₁ : Ready w₁) (h₂ : Ready w₂) (tag₁ tag₂ : Nat) (s : Stream) :
    ∃ N, ∀ fuel, N ≤ fuel →
      logOf (run fuel [subscribeScript K tag₁ s] w₁) w₁.users.length
        = logOf (run fuel [subscribeScript K tag₂ s] w₂) w₂.users.length := by
  obtain ⟨N₁, a⟩ := stdOp_sim K hK w₁ h₁ tag₁ s
  obtain ⟨N₂, b⟩ := stdOp_sim K hK w₂ h₂ tag₂ s
  refine ⟨max N₁ N₂, fun fuel hf => ?_⟩
  have ha := (a fuel (by omega)).2.1
  have hb := (b fuel (by omega)).2.1
  exact ha.trans hb.symm

/-- every world a run of ANY program leaves behind in good order is ready for the next subscription -/
theorem ready_run (n : Nat) (p : Prog) (h : (run n [p] {}).status = .ok) (hh : (run n [p] {}).held = []) :
    Ready (run n [p] {}) :=
  ⟨h, hh, run_closed inv_closed n [p] {} ⟨fun _ => trivial, by intro o x s hx; simp at hx,
    by intro o x s hx; simp at hx, fun _ _ => rfl, by intro o x hx; simp at hx,
    by intro s o x hx; simp [roots] at hx, by intro s o hx; simp [roots] at hx⟩⟩

/-! ### every kernel of Kernel/Basic.lean is well encoded and aborts first -/

theorem optDec_optEnc (o : Option Data) : Data.optDec (Data.optEnc o) = o := by
  cases o <;> rfl

theorem we_unit (K : Kernel Unit) : Kernel.WellEncoded K := fun _ => rfl

theorem we_kMap (f : Fn) : Kernel.WellEncoded (kMap f) := we_unit _
theorem we_kFilter (p : Pred) : Kernel.WellEncoded (kFilter p) := we_unit _
theorem we_kTake (n : Nat) : Kernel.WellEncoded (kTake n) := fun st => by simp [kTake, Data.toInt]
theorem we_kSkip (n : Nat) : Kernel.WellEncoded (kSkip n) := fun st => by simp [kSkip, Data.toInt]
theorem we_kTakeWhile (p : Pred) : Kernel.WellEncoded (kTakeWhile p) := we_unit _
theorem we_kSkipWhile (p : Pred) : Kernel.WellEncoded (kSkipWhile p) := fun st => by
  simp [kSkipWhile, Data.toBool]
theorem we_kTakeLast (n : Nat) : Kernel.WellEncoded (kTakeLast n) := fun st => by simp [kTakeLast]
theorem we_kSkipLast (n : Nat) : Kernel.WellEncoded (kSkipLast n) := fun st => by simp [kSkipLast]
theorem we_kDistinct : Kernel.WellEncoded kDistinct := fun st => optDec_optEnc st
theorem we_kScan (f : Fn2) : Kernel.WellEncoded (kScan f) := fun st => optDec_optEnc st
theorem we_kFold (f : Data → Data → Data) : Kernel.WellEncoded (kFold f) := fun st => optDec_optEnc st
theorem we_kReduce (f : Fn2) : Kernel.WellEncoded (kReduce f) := we_kFold _
theorem we_kSum : Kernel.WellEncoded kSum := we_kFold _
theorem we_kMin : Kernel.WellEncoded kMin := we_kFold _
theorem we_kMax : Kernel.WellEncoded kMax := we_kFold _
theorem we_kCount : Kernel.WellEncoded kCount := fun st => by simp [kCount, Data.toInt]
theorem we_kSumAndCount : Kernel.WellEncoded kSumAndCount := fun st => by
  obtain ⟨a, n⟩ := st
  simp [kSumAndCount, optDec_optEnc]
theorem we_kContains (d : Data) : Kernel.WellEncoded (kContains d) := we_unit _
theorem we_kDefaultIfEmpty (d : Data) : Kernel.WellEncoded (kDefaultIfEmpty d) := fun st => by
  simp [kDefaultIfEmpty, Data.toBool]
theorem we_kIgnoreElements : Kernel.WellEncoded kIgnoreElements := we_unit _
theorem we_kBuffer (n : Nat) : Kernel.WellEncoded (kBuffer n) := fun st => by simp [kBuffer]
theorem we_kMaterialize : Kernel.WellEncoded kMaterialize := we_unit _
theorem we_kDematerialize : Kernel.WellEncoded kDematerialize := we_unit _
theorem we_kId : Kernel.WellEncoded kId := we_unit _

theorem af_kMap (f : Fn) : Kernel.AbortsFirst (kMap f) := fun _ _ => rfl
theorem af_kFilter (p : Pred) : Kernel.AbortsFirst (kFilter p) := fun _ x => by
  simp only [kFilter]; split <;> rfl
theorem af_kTake (n : Nat) : Kernel.AbortsFirst (kTake n) := fun st x => by
  simp only [kTake]; split <;> split <;> rfl
theorem af_kSkip (n : Nat) : Kernel.AbortsFirst (kSkip n) := fun st x => by
  simp only [kSkip]; split <;> rfl
theorem af_kTakeWhile (p : Pred) : Kernel.AbortsFirst (kTakeWhile p) := fun _ x => by
  simp only [kTakeWhile]; split <;> rfl
theorem af_kSkipWhile (p : Pred) : Kernel.AbortsFirst (kSkipWhile p) := fun st x => by
  simp only [kSkipWhile]; split <;> rfl
theorem af_kTakeLast (n : Nat) : Kernel.AbortsFirst (kTakeLast n) := fun _ _ => rfl
theorem af_kSkipLast (n : Nat) : Kernel.AbortsFirst (kSkipLast n) := fun st x => by
  simp only [kSkipLast]; split
  · simp only; split <;> rfl
  · rfl
theorem af_kDistinct : Kernel.AbortsFirst kDistinct := fun st x => by
  simp only [kDistinct]; split
  · split <;> rfl
  · rfl
theorem af_kScan (f : Fn2) : Kernel.AbortsFirst (kScan f) := fun _ _ => rfl
theorem af_kFold (f : Data → Data → Data) : Kernel.AbortsFirst (kFold f) := fun _ _ => rfl
theorem af_kReduce (f : Fn2) : Kernel.AbortsFirst (kReduce f) := af_kFold _
theorem af_kSum : Kernel.AbortsFirst kSum := af_kFold _
theorem af_kMin : Kernel.AbortsFirst kMin := af_kFold _
theorem af_kMax : Kernel.AbortsFirst kMax := af_kFold _
theorem af_kCount : Kernel.AbortsFirst kCount := fun _ _ => rfl
theorem af_kSumAndCount : Kernel.AbortsFirst kSumAndCount := fun _ _ => rfl
theorem af_kContains (d : Data) : Kernel.AbortsFirst (kContains d) := fun _ x => by
  simp only [kContains]; split <;> rfl
theorem af_kDefaultIfEmpty (d : Data) : Kernel.AbortsFirst (kDefaultIfEmpty d) := fun _ _ => rfl
theorem af_kIgnoreElements : Kernel.AbortsFirst kIgnoreElements := fun _ _ => rfl
theorem af_kBuffer (n : Nat) : Kernel.AbortsFirst (kBuffer n) := fun st x => by
  simp only [kBuffer]; split <;> rfl
theorem af_kMaterialize : Kernel.AbortsFirst kMaterialize := fun _ _ => rfl
theorem af_kDematerialize : Kernel.AbortsFirst kDematerialize := fun _ x => by
  simp only [kDematerialize]; split <;> rfl
theorem af_kId : Kernel.AbortsFirst kId := fun _ _ => rfl

/-- e.g. `take(n)`, unconditionally -/
theorem take_sim (n : Nat) (w : World) (hw : Ready w) (tag : Nat) (s : Stream) :
    ∃ N, ∀ fuel, N ≤ fuel →
      let w' := run fuel [subscribeScript (kTake n) tag s] w
      w'.status = .ok ∧
      logOf w' w.users.length = (kTake n).run s ∧
      (∀ s', s' ≠ w.users.length → logOf w' s' = logOf w s') ∧
      upstreamCancelled w w' = (((kTake n).runFull s).cancelled || s.2 != .silent) :=
  stdOp_sim_cancel (kTake n) (we_kTake n) (af_kTake n) w hw tag s

/-! ### FOUND FALSE: `upstreamCancelled w' = (K.runFull s).cancelled` for arbitrary kernels

A kernel whose `on_next` completes first and aborts afterwards: `sink_complete` removes the serial
from the map, so the later `upstream_abort_observe` finds nothing and the upstream observer stays
subscribed, while `KRun.act .abortSelf` reports `cancelled = true`.  (No operator of the crate does
this; `AbortsFirst` is exactly the condition that rules it out.) -/

def kBad : Kernel Unit :=
  { init := (), onNext := fun _ _ => ((), [.complete, .abortSelf]), enc := fun _ => .unit, dec := fun _ => () }

theorem ready_empty : Ready {} :=
  ⟨rfl, rfl, ⟨fun _ => trivial, by intro o x s hx; simp at hx, by intro o x s hx; simp at hx,
    fun _ _ => rfl, by intro o x hx; simp at hx, by intro s o x hx; simp [roots] at hx,
    by intro s o hx; simp [roots] at hx⟩⟩

theorem kBad_not_cancelled :
    upstreamCancelled {} (run 200 [subscribeScript kBad 0 ([.int 1], .silent)] {}) = false ∧
    (kBad.runFull ([.int 1], .silent)).cancelled = true ∧
    (runFullX kBad ([.int 1], .silent)).cancelled = false := by decide

/-! ### non-vacuity -/

example : Ready {} := ready_empty
/-- a non-trivial ready world: the one a first subscription leaves behind -/
example : Ready (run 400 [subscribeScript (kTake 2) 7 ([.int 1, .int 2, .int 3], .complete)] {}) :=
  ready_run _ _ (by decide) (by decide)
/-- `Rep` (hypothesis of every macro lemma) holds right after set-up, whatever the closures are -/
example (N E C) : Rep (cfgGen N E C {}) true true true [] .unit [] (setupW N E C .unit (fun _ => .done) 0 {}) :=
  setup_rep N E C .unit _ 0 {} rfl
example : Kernel.WellEncoded (kTake 2) ∧ Kernel.AbortsFirst (kTake 2) := ⟨we_kTake 2, af_kTake 2⟩

/-- the conclusion of `stdOp_sim_cancel` on `take(2)` and a 3-item script, computed by the machine -/
example :
    let s : Stream := ([.int 1, .int 2, .int 3], .complete)
    let w' := run 400 [subscribeScript (kTake 2) 7 s] {}
    w'.status = .ok ∧
    logOf w' 0 = [.next (.int 1), .next (.int 2), .complete] ∧
    logOf w' 0 = (kTake 2).run s ∧
    upstreamCancelled {} w' = true ∧
    ((kTake 2).runFull s).cancelled = true := by decide

/-- a hold-carrying kernel (`take_last`: read guard alive across the emissions), silent source excluded -/
example :
    let s : Stream := ([.int 1, .int 2, .int 3], .complete)
    let w' := run 400 [subscribeScript (kTakeLast 2) 7 s] {}
    w'.status = .ok ∧ w'.held = [] ∧
    logOf w' 0 = [.next (.int 2), .next (.int 3), .complete] ∧
    upstreamCancelled {} w' = true ∧ ((kTakeLast 2).runFull s).cancelled = false := by decide

/-- a second subscription in the world the first one left behind (independence, C14) -/
example :
    let s : Stream := ([.int 1, .int 2, .int 3], .silent)
    let w1 := run 400 [subscribeScript (kTake 2) 7 s] {}
    let w2 := run 400 [subscribeScript (kSkip 1) 8 s] w1
    w1.status = .ok ∧ w1.held = [] ∧
    logOf w2 1 = [.next (.int 2), .next (.int 3)] ∧ logOf w2 0 = logOf w1 0 ∧
    upstreamCancelled w1 w2 = false := by decide

end Rx.Sim

#print axioms Rx.Sim.finalize_spec
#print axioms Rx.Sim.acts_spec
#print axioms Rx.Sim.loop_spec
#print axioms Rx.Sim.stdOp_simX
#print axioms Rx.Sim.runFullX_out
#print axioms Rx.Sim.cancelled_exact
#print axioms Rx.Sim.stdOp_sim
#print axioms Rx.Sim.stdOp_ready
#print axioms Rx.Sim.stdOp_sim_cancel
#print axioms Rx.Sim.stdOp_sim_silent
#print axioms Rx.Sim.subscribe_independent
#print axioms Rx.Sim.ready_run
#print axioms Rx.Sim.take_sim
#print axioms Rx.Sim.kBad_not_cancelled
