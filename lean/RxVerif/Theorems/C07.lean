/-
C07 — ranked lock acquisition never deadlocks (model: `RxVerif/Conc/LockOrder.lean`).
-/
import RxVerif.Conc.LockOrder

namespace Rx.C07
open Rx.LockOrder

/-! ### sequential facts about `rankedFrom` -/

theorem map_fst_eraseP (h : List (Nat × Bool)) (l : Nat) :
    (h.eraseP (fun x => x.1 == l)).map Prod.fst = (h.map Prod.fst).erase l := by
  induction h with
  | nil => rfl
  | cons a t ih =>
    by_cases e : a.1 = l
    · simp [e]
    · simp [e, ih]

/-- `Ranked` = rank discipline + balanced -/
theorem rankedFrom_split (rank : Nat → Nat) (h : List Nat) (p : List Op) :
    rankedFrom rank h p = (rankedPrefixFrom rank h p && (finalHeld h p).isEmpty) := by
  fun_induction rankedFrom rank h p <;> simp_all [rankedPrefixFrom, finalHeld, Bool.and_assoc]

theorem rankedFrom_append (rank : Nat → Nat) (h : List Nat) (p q : List Op) :
    rankedFrom rank h (p ++ q) = (rankedPrefixFrom rank h p && rankedFrom rank (finalHeld h p) q) := by
  fun_induction rankedPrefixFrom rank h p <;> simp_all [rankedFrom, finalHeld, Bool.and_assoc]

/-- every prefix of a ranked program is rank-consistent -/
theorem ranked_prefix {rank : Nat → Nat} {p q : List Op} (h : Ranked rank (p ++ q)) :
    RankedPrefix rank p := by
  unfold Ranked at h
  rw [rankedFrom_append] at h
  simp only [Bool.and_eq_true] at h
  exact h.1

theorem rankedFrom_releases (rank : Nat → Nat) (h : List Nat) :
    rankedFrom rank h (h.map Op.rel) = true := by
  induction h with
  | nil => rfl
  | cons a t ih => simpa [rankedFrom] using ih

/-- conversely every rank-consistent prefix can be completed to a ranked program (release what is held),
    so `RankedPrefix` is exactly "prefix of some ranked program" -/
theorem rankedPrefix_completion {rank : Nat → Nat} {p : List Op} (h : RankedPrefix rank p) :
    Ranked rank (p ++ (finalHeld [] p).map Op.rel) := by
  unfold Ranked
  rw [rankedFrom_append, rankedFrom_releases]
  simpa [RankedPrefix] using h

/-! ### the invariant -/

/-- every thread's remaining program is ranked from the locks it holds now -/
def Inv (rank : Nat → Nat) (st : State) : Prop :=
  ∀ th ∈ st, rankedFrom rank (th.held.map Prod.fst) th.rest = true

theorem inv_init {rank : Nat → Nat} {progs : List (List Op)} (h : ∀ p ∈ progs, Ranked rank p) :
    Inv rank (init progs) := by
  intro th hth
  simp only [init, List.mem_map] at hth
  obtain ⟨p, hp, rfl⟩ := hth
  exact h p hp

theorem stepG_some {wp : Bool} {st st' : State} {t : Label} (h : stepG wp st t = some st') :
    ∃ th op rest, st[t]? = some th ∧ th.rest = op :: rest ∧ opEnabled wp st op = true ∧
      st' = st.set t ⟨rest, heldAfter th.held op⟩ := by
  unfold stepG at h
  split at h
  · cases h
  · rename_i th hth
    split at h
    · cases h
    · rename_i op rest hr
      split at h
      · rename_i hen
        cases h
        exact ⟨th, op, rest, hth, hr, hen, rfl⟩
      · cases h

theorem stepG_none {wp : Bool} {st : State} {t : Label} {th : Thread} {op : Op} {rest : List Op}
    (hth : st[t]? = some th) (hr : th.rest = op :: rest) (h : stepG wp st t = none) :
    opEnabled wp st op = false := by
  simpa [stepG, hth, hr] using h

theorem rankedFrom_heldAfter {rank : Nat → Nat} {held : List (Nat × Bool)} {op : Op} {rest : List Op}
    (h : rankedFrom rank (held.map Prod.fst) (op :: rest) = true) :
    rankedFrom rank ((heldAfter held op).map Prod.fst) rest = true := by
  cases op <;> simp_all [rankedFrom, heldAfter, map_fst_eraseP]

theorem inv_step {rank : Nat → Nat} {wp : Bool} {st st' : State} {t : Label}
    (hi : Inv rank st) (h : stepG wp st t = some st') : Inv rank st' := by
  obtain ⟨th, op, rest, hth, hr, -, rfl⟩ := stepG_some h
  intro u hu
  rcases List.mem_or_eq_of_mem_set hu with hu | rfl
  · exact hi u hu
  · have := hi th (List.mem_of_getElem? hth)
    rw [hr] at this
    exact rankedFrom_heldAfter this

theorem inv_reachable {rank : Nat → Nat} {wp : Bool} {progs : List (List Op)} {st : State}
    (h : ∀ p ∈ progs, Ranked rank p) (hr : ReachableG wp progs st) : Inv rank st := by
  induction hr with
  | init => exact inv_init h
  | step _ hs ih => exact inv_step ih hs

/-! ### blocked threads -/

theorem holds_of_holdsW {th : Thread} {l : Nat} (h : th.holdsW l = true) : th.holds l = true := by
  simp only [Thread.holdsW, Thread.holds, List.any_eq_true, Bool.and_eq_true] at *
  obtain ⟨x, hx, hl, -⟩ := h
  exact ⟨x, hx, hl⟩

theorem waitsW_rest {th : Thread} {l : Nat} (h : th.waitsW l = true) :
    ∃ rest, th.rest = Op.acq l true :: rest := by
  unfold Thread.waitsW at h
  split at h
  · rename_i l' rest hr
    exact ⟨rest, by simp_all⟩
  · cases h

/-- in a deadlocked state every unfinished thread stands in front of a refused acquisition -/
theorem blocked_of_deadlocked {wp : Bool} {st : State} (hd : DeadlockedG wp st) {th : Thread}
    (hth : th ∈ st) (hne : th.rest ≠ []) :
    ∃ l w rest, th.rest = Op.acq l w :: rest ∧ grant wp st l w = false := by
  obtain ⟨i, hi⟩ := List.getElem?_of_mem hth
  cases hr : th.rest with
  | nil => exact absurd hr hne
  | cons op rest =>
    have := stepG_none hi hr (hd.2 i)
    cases op with
    | acq l w => exact ⟨l, w, rest, rfl, this⟩
    | rel l => simp [opEnabled] at this
    | work => simp [opEnabled] at this

theorem holder_of_not_canAcq {st : State} {l : Nat} {w : Bool} (h : canAcq st l w = false) :
    ∃ u ∈ st, u.holds l = true := by
  simp only [canAcq, List.all_eq_false] at h
  obtain ⟨u, hu, hc⟩ := h
  refine ⟨u, hu, ?_⟩
  cases w with
  | true => simpa using hc
  | false => exact holds_of_holdsW (by simpa using hc)

/-- in a deadlocked state a refused acquisition of `l` means that somebody holds `l`
    (with writer preference: the reader is refused because of a parked writer, which in turn is refused
    because of a holder) -/
theorem holder_of_refused {wp : Bool} {st : State} (hd : DeadlockedG wp st) {l : Nat} {w : Bool}
    (h : grant wp st l w = false) : ∃ u ∈ st, u.holds l = true := by
  cases hc : canAcq st l w with
  | false => exact holder_of_not_canAcq hc
  | true =>
    have : ¬ ((!wp || w || !st.any (fun u => u.waitsW l)) = true) := by
      intro h'
      simp [grant, hc, h'] at h
    simp only [Bool.or_eq_true, Bool.not_eq_true', not_or, Bool.not_eq_false,
      List.any_eq_true] at this
    obtain ⟨-, v, hv, hw⟩ := this
    obtain ⟨rest, hr⟩ := waitsW_rest hw
    obtain ⟨l2, w2, rest2, hr2, hg⟩ := blocked_of_deadlocked hd hv (by simp [hr])
    rw [hr] at hr2
    cases hr2
    have : canAcq st l true = false := by simpa [grant] using hg
    exact holder_of_not_canAcq this

/-- from a thread blocked on `l` we find a thread blocked on a lock of strictly greater rank -/
theorem climb {rank : Nat → Nat} {wp : Bool} {st : State} (hi : Inv rank st) (hd : DeadlockedG wp st)
    {th : Thread} (hth : th ∈ st) {l : Nat} {w : Bool} {r : List Op} (hr : th.rest = Op.acq l w :: r) :
    ∃ th' ∈ st, ∃ l' w' r', th'.rest = Op.acq l' w' :: r' ∧ rank l < rank l' := by
  obtain ⟨l2, w2, r2, hr2, hg⟩ := blocked_of_deadlocked hd hth (by simp [hr])
  rw [hr] at hr2
  cases hr2
  obtain ⟨u, hu, hh⟩ := holder_of_refused hd hg
  have hiu := hi u hu
  simp only [Thread.holds, List.any_eq_true, beq_iff_eq] at hh
  obtain ⟨x, hx, rfl⟩ := hh
  have hne : u.rest ≠ [] := by
    intro he
    rw [he] at hiu
    cases hh' : u.held with
    | nil => simp [hh'] at hx
    | cons a t => simp [hh', rankedFrom] at hiu
  obtain ⟨l', w', r', hr', -⟩ := blocked_of_deadlocked hd hu hne
  refine ⟨u, hu, l', w', r', hr', ?_⟩
  rw [hr'] at hiu
  simp only [rankedFrom, Bool.and_eq_true, List.all_eq_true, decide_eq_true_eq] at hiu
  exact hiu.1 x.1 (List.mem_map.2 ⟨x, hx, rfl⟩)

/-- rank of the lock a thread stands in front of -/
def waitRank (rank : Nat → Nat) (th : Thread) : Nat :=
  match th.rest with
  | .acq l _ :: _ => rank l
  | _ => 0

def bound (rank : Nat → Nat) : State → Nat
  | [] => 0
  | th :: st => max (waitRank rank th) (bound rank st)

theorem le_bound (rank : Nat → Nat) {st : State} {th : Thread} (h : th ∈ st) :
    waitRank rank th ≤ bound rank st := by
  induction st with
  | nil => cases h
  | cons a t ih =>
    rcases List.mem_cons.1 h with rfl | h
    · simp only [bound]; omega
    · have := ih h
      simp only [bound]; omega

/-- the core: a state satisfying the invariant is not deadlocked, under either admission policy -/
theorem inv_not_deadlocked {rank : Nat → Nat} {wp : Bool} {st : State} (hi : Inv rank st) :
    ¬ DeadlockedG wp st := by
  intro hd
  have key : ∀ n : Nat, ∃ th ∈ st, ∃ l w r, th.rest = Op.acq l w :: r ∧ n ≤ rank l := by
    intro n
    induction n with
    | zero =>
      obtain ⟨th, hth, hne⟩ := hd.1
      obtain ⟨l, w, r, hr, -⟩ := blocked_of_deadlocked hd hth hne
      exact ⟨th, hth, l, w, r, hr, Nat.zero_le _⟩
    | succ n ih =>
      obtain ⟨th, hth, l, w, r, hr, hn⟩ := ih
      obtain ⟨th', hth', l', w', r', hr', hlt⟩ := climb hi hd hth hr
      exact ⟨th', hth', l', w', r', hr', by omega⟩
  obtain ⟨th, hth, l, w, r, hr, hn⟩ := key (bound rank st + 1)
  have := le_bound rank hth
  simp only [waitRank, hr] at this
  omega

/-! ### main theorems -/

/-- **C07-L.**  Any number of threads, any number of locks: if every thread program is ranked, no
    reachable state is deadlocked. -/
theorem ranked_no_deadlock {rank : Nat → Nat} {progs : List (List Op)} {st : State}
    (h : ∀ p ∈ progs, Ranked rank p) (hr : Reachable progs st) : ¬ Deadlocked st :=
  inv_not_deadlocked (inv_reachable h hr)

/-- the same in the `prog : thread → program` presentation with `n` threads -/
theorem ranked_no_deadlock_fn {rank : Nat → Nat} {n : Nat} {prog : Nat → List Op} {st : State}
    (h : ∀ t, Ranked rank (prog t)) (hr : Reachable ((List.range n).map prog) st) : ¬ Deadlocked st := by
  refine ranked_no_deadlock (rank := rank) ?_ hr
  intro p hp
  obtain ⟨t, -, rfl⟩ := List.mem_map.1 hp
  exact h t

/-- every step of the writer-preferring system is a step of the plain system -/
theorem stepWP_step {st st' : State} {t : Label} (h : stepWP st t = some st') : step st t = some st' := by
  obtain ⟨th, op, rest, hth, hr, hen, rfl⟩ := stepG_some h
  have : opEnabled false st op = true := by
    cases op <;> simp_all [opEnabled, grant]
  simp [step, stepG, hth, hr, this]

theorem reachableWP_reachable {progs : List (List Op)} {st : State} (h : ReachableWP progs st) :
    Reachable progs st := by
  induction h with
  | init => exact .init
  | step _ hs ih => exact .step ih (stepWP_step hs)

/-- a state with no plain step has no writer-preferring step: plain deadlock implies WP deadlock -/
theorem deadlocked_deadlockedWP {st : State} (h : Deadlocked st) : DeadlockedWP st := by
  refine ⟨h.1, fun t => ?_⟩
  cases hs : stepG true st t with
  | none => rfl
  | some st' => have := stepWP_step hs; simp [step, h.2 t] at this

/-- strongest form: in every state reachable under the *plain* policy (a superset of what a
    writer-preferring lock can reach) not even the *writer-preferring* notion of "nobody can move" holds.
    It implies `ranked_no_deadlock` and `ranked_no_deadlock_wp`. -/
theorem ranked_no_deadlock_strong {rank : Nat → Nat} {progs : List (List Op)} {st : State}
    (h : ∀ p ∈ progs, Ranked rank p) (hr : Reachable progs st) : ¬ DeadlockedWP st :=
  inv_not_deadlocked (inv_reachable h hr)

theorem ranked_no_deadlock_wp {rank : Nat → Nat} {progs : List (List Op)} {st : State}
    (h : ∀ p ∈ progs, Ranked rank p) (hr : ReachableWP progs st) : ¬ DeadlockedWP st :=
  inv_not_deadlocked (inv_reachable h hr)

/-- progress: in a reachable state of a ranked system in which some thread is unfinished, some step is
    enabled (even under writer preference) -/
theorem ranked_progress_wp {rank : Nat → Nat} {progs : List (List Op)} {st : State}
    (h : ∀ p ∈ progs, Ranked rank p) (hr : Reachable progs st) (hu : Unfinished st) :
    ∃ t st', stepWP st t = some st' := by
  apply Classical.byContradiction
  intro hn
  refine ranked_no_deadlock_strong h hr ⟨hu, fun t => ?_⟩
  cases hs : stepG true st t with
  | none => rfl
  | some st' => exact absurd ⟨t, st', hs⟩ hn

theorem ranked_progress {rank : Nat → Nat} {progs : List (List Op)} {st : State}
    (h : ∀ p ∈ progs, Ranked rank p) (hr : Reachable progs st) (hu : Unfinished st) :
    ∃ t st', step st t = some st' := by
  obtain ⟨t, st', hs⟩ := ranked_progress_wp h hr hu
  exact ⟨t, st', stepWP_step hs⟩

/-- finished threads of a ranked system hold nothing: when all threads are finished all locks are free -/
theorem ranked_finished_holds_nothing {rank : Nat → Nat} {progs : List (List Op)} {st : State}
    (h : ∀ p ∈ progs, Ranked rank p) (hr : Reachable progs st) {th : Thread} (hth : th ∈ st)
    (hf : th.rest = []) : th.held = [] := by
  have := inv_reachable h hr th hth
  rw [hf] at this
  cases hh : th.held with
  | nil => rfl
  | cons a t => simp [hh, rankedFrom] at this

/-! ### replay and the decidable deadlock test (used for the concrete witnesses) -/

theorem replayG_reachable {wp : Bool} {progs : List (List Op)} {ls : List Label} {st st' : State}
    (hr : ReachableG wp progs st) (h : replayG wp st ls = some st') : ReachableG wp progs st' := by
  induction ls generalizing st with
  | nil => simp only [replayG, Option.some.injEq] at h; exact h ▸ hr
  | cons t ts ih =>
    simp only [replayG] at h
    split at h
    · cases h
    · rename_i st1 hs
      exact ih (.step hr hs) h

theorem replay_reachable {progs : List (List Op)} {ls : List Label} {st : State}
    (h : replay progs ls = some st) : Reachable progs st :=
  replayG_reachable .init h

theorem deadlockedB_sound {wp : Bool} {st : State} (h : deadlockedB wp st = true) : DeadlockedG wp st := by
  simp only [deadlockedB, Bool.and_eq_true, List.any_eq_true, List.all_eq_true, List.mem_range,
    Bool.not_eq_true', List.isEmpty_eq_false_iff, Option.isNone_iff_eq_none] at h
  refine ⟨h.1, fun t => ?_⟩
  by_cases ht : t < st.length
  · exact h.2 t ht
  · have : st[t]? = none := List.getElem?_eq_none (Nat.le_of_not_lt ht)
    simp [stepG, this]

/-! ### the hypothesis matters: unranked witnesses -/

/-- a single thread that takes `l` for writing and then again for reading blocks on itself -/
def selfProg : List Op := [.acq 0 true, .acq 0 false, .rel 0, .rel 0]

theorem self_reacquire_blocks :
    (∀ rank, ¬ Ranked rank selfProg) ∧
    ∃ st, Reachable [selfProg] st ∧ ReachableWP [selfProg] st ∧ Deadlocked st ∧ DeadlockedWP st := by
  refine ⟨fun rank => by simp [selfProg, Ranked, rankedFrom], ?_⟩
  refine ⟨[⟨[.acq 0 false, .rel 0, .rel 0], [(0, true)]⟩], ?_, ?_, ?_, ?_⟩
  · exact replay_reachable (ls := [0]) (by decide)
  · exact replayG_reachable (ls := [0]) .init (by decide)
  · exact deadlockedB_sound (by decide)
  · exact deadlockedB_sound (by decide)

/-- same for read-then-write (lock upgrade) -/
theorem self_upgrade_blocks :
    ∃ st, Reachable [[.acq 0 false, .acq 0 true, .rel 0, .rel 0]] st ∧ Deadlocked st :=
  ⟨[⟨[.acq 0 true, .rel 0, .rel 0], [(0, false)]⟩], replay_reachable (ls := [0]) (by decide),
    deadlockedB_sound (by decide)⟩

/-- the AB/BA cycle -/
def cycleProgs : List (List Op) :=
  [[.acq 0 true, .acq 1 true, .rel 1, .rel 0], [.acq 1 true, .acq 0 true, .rel 0, .rel 1]]

theorem two_thread_cycle :
    (∀ rank, ¬ ∀ p ∈ cycleProgs, Ranked rank p) ∧
    ∃ st, Reachable cycleProgs st ∧ ReachableWP cycleProgs st ∧ Deadlocked st ∧ DeadlockedWP st := by
  constructor
  · intro rank h
    have h0 := h _ (List.mem_cons_self)
    have h1 := h _ (List.mem_cons_of_mem _ List.mem_cons_self)
    simp [Ranked, rankedFrom] at h0 h1
    omega
  · refine ⟨[⟨[.acq 1 true, .rel 1, .rel 0], [(0, true)]⟩, ⟨[.acq 0 true, .rel 0, .rel 1], [(1, true)]⟩],
      ?_, ?_, ?_, ?_⟩
    · exact replay_reachable (ls := [0, 1]) (by decide)
    · exact replayG_reachable (ls := [0, 1]) .init (by decide)
    · exact deadlockedB_sound (by decide)
    · exact deadlockedB_sound (by decide)

/-- the cycle also arises with *read* locks on one side as long as the other side writes -/
theorem two_thread_cycle_rw :
    ∃ st, Reachable [[.acq 0 false, .acq 1 true, .rel 1, .rel 0], [.acq 1 false, .acq 0 true, .rel 0, .rel 1]] st
      ∧ Deadlocked st :=
  ⟨[⟨[.acq 1 true, .rel 1, .rel 0], [(0, false)]⟩, ⟨[.acq 0 true, .rel 0, .rel 1], [(1, false)]⟩],
    replay_reachable (ls := [0, 1]) (by decide), deadlockedB_sound (by decide)⟩

/-- re-entrant READ acquisition: harmless for the plain policy, a deadlock under writer preference
    (thread 0 holds `0` for reading and wants it again, thread 1 is parked on a write of `0`).
    The program of thread 0 is not ranked, so this does not contradict `ranked_no_deadlock_strong`. -/
def rereadProgs : List (List Op) :=
  [[.acq 0 false, .acq 0 false, .rel 0, .rel 0], [.work, .acq 0 true, .rel 0]]

theorem reentrant_read_deadlocks_under_writer_preference :
    ∃ st, ReachableWP rereadProgs st ∧ DeadlockedWP st ∧ ¬ Deadlocked st := by
  refine ⟨[⟨[.acq 0 false, .rel 0, .rel 0], [(0, false)]⟩, ⟨[.acq 0 true, .rel 0], []⟩], ?_, ?_, ?_⟩
  · exact replayG_reachable (ls := [0, 1]) .init (by decide)
  · exact deadlockedB_sound (by decide)
  · intro h
    have := h.2 0
    revert this
    decide

/-! ### non-vacuity: a concrete ranked two-thread system -/

def goodProgs : List (List Op) :=
  [[.acq 0 true, .work, .acq 1 false, .rel 1, .rel 0], [.acq 0 false, .acq 1 true, .rel 0, .work, .rel 1]]

/-- hypotheses of `ranked_no_deadlock` / `ranked_progress` hold for `goodProgs`, rank = identity, in a
    state where thread 0 holds lock 0 for writing and thread 1 is blocked on it -/
example : (∀ p ∈ goodProgs, Ranked id p) ∧
    ∃ st, Reachable goodProgs st ∧ Unfinished st ∧ step st 1 = none ∧ (step st 0).isSome ∧ ¬ Deadlocked st := by
  have hr : ∀ p ∈ goodProgs, Ranked id p := by decide
  have hreach : Reachable goodProgs
      [⟨[.acq 1 false, .rel 1, .rel 0], [(0, true)]⟩, ⟨[.acq 0 false, .acq 1 true, .rel 0, .work, .rel 1], []⟩] :=
    replay_reachable (ls := [0, 0]) (by decide)
  exact ⟨hr, _, hreach, ⟨_, List.mem_cons_self, by simp⟩, by decide, by decide, ranked_no_deadlock hr hreach⟩

/-- `ranked_no_deadlock_fn`: three threads given as a function -/
example : ∀ st, Reachable ((List.range 3).map fun t => [Op.acq t true, .acq (t + 1) false, .rel t, .rel (t + 1)]) st →
    ¬ Deadlocked st := by
  intro st h
  refine ranked_no_deadlock_fn (rank := id) (fun t => ?_) h
  simp [Ranked, rankedFrom]

/-- the ranked system can run to completion: all threads finished, all locks free -/
example : ∃ st, Reachable goodProgs st ∧ ¬ Unfinished st ∧ ∀ th ∈ st, th.held = [] :=
  ⟨[⟨[], []⟩, ⟨[], []⟩], replay_reachable (ls := [0, 0, 0, 0, 0, 1, 1, 1, 1, 1]) (by decide), by
    simp [Unfinished], by simp⟩

/-! ### recorded traces -/

theorem checkFrom_iff (rank : Nat → Nat) (w : Bool) (held : Nat → List Nat) (es : List Event) :
    checkFrom rank held es = true ↔ ∀ t, rankedPrefixFrom rank (held t) (proj w t es) = true := by
  induction es generalizing held with
  | nil => simp [checkFrom, proj, rankedPrefixFrom]
  | cons e es ih =>
    obtain ⟨u, a, l⟩ := e
    cases a with
    | true =>
      simp only [checkFrom, Bool.and_eq_true, ih]
      constructor
      · rintro ⟨h1, h2⟩ t
        by_cases htu : t = u
        · subst htu
          have := h2 t
          simp only [updHeld, if_true] at this
          simp [proj, rankedPrefixFrom, h1, this]
        · have := h2 t
          simp only [updHeld, if_neg htu] at this
          simp [proj, htu, this]
      · intro h
        have hu := h u
        simp only [proj, if_true, rankedPrefixFrom, Bool.and_eq_true] at hu
        refine ⟨hu.1, fun t => ?_⟩
        by_cases htu : t = u
        · subst htu; simpa [updHeld] using hu.2
        · have := h t
          simpa [updHeld, proj, htu] using this
    | false =>
      simp only [checkFrom, ih]
      constructor
      · intro h2 t
        by_cases htu : t = u
        · subst htu
          have := h2 t
          simp only [updHeld, if_true] at this
          simp [proj, rankedPrefixFrom, this]
        · have := h2 t
          simp only [updHeld, if_neg htu] at this
          simp [proj, htu, this]
      · intro h t
        by_cases htu : t = u
        · subst htu
          have hu := h t
          simpa [updHeld, proj, rankedPrefixFrom] using hu
        · have := h t
          simpa [updHeld, proj, htu] using this

/-- **soundness of the trace checker**: if `checkTrace` accepts, the program prefix every thread has
    executed according to the trace is rank-consistent (whatever modes the acquisitions had) -/
theorem checkTrace_sound {rank : Nat → Nat} {events : List (Nat × Bool × Nat)}
    (h : checkTrace rank events = true) : ∀ (w : Bool) (t : Nat), RankedPrefix rank (proj w t events) :=
  fun w => (checkFrom_iff rank w (fun _ => []) events).1 h

/-- and each such prefix extends to a fully `Ranked` program by releasing what is still held -/
theorem checkTrace_sound_ranked {rank : Nat → Nat} {events : List (Nat × Bool × Nat)}
    (h : checkTrace rank events = true) (w : Bool) (t : Nat) :
    Ranked rank (proj w t events ++ (finalHeld [] (proj w t events)).map Op.rel) :=
  rankedPrefix_completion (checkTrace_sound h w t)

/-- completeness: the checker rejects only traces in which some thread's prefix breaks the discipline -/
theorem checkTrace_complete {rank : Nat → Nat} {events : List (Nat × Bool × Nat)} (w : Bool)
    (h : ∀ t, RankedPrefix rank (proj w t events)) : checkTrace rank events = true :=
  (checkFrom_iff rank w (fun _ => []) events).2 h

/-- non-vacuity: an accepted interleaved trace of two threads, and a rejected one (AB/BA) -/
example : checkTrace id [(0, true, 0), (1, true, 0), (0, true, 1), (0, false, 1), (1, true, 2), (0, false, 0),
    (1, false, 0), (1, false, 2)] = true := by decide
example : checkTrace id [(0, true, 0), (1, true, 1), (0, true, 1), (1, true, 0)] = false := by decide
example : proj true 1 [(0, true, 0), (1, true, 0), (0, true, 1), (1, false, 0)] = [.acq 0 true, .rel 0] := by decide

/-! ### the checker raises no false alarm on the model: every run of a ranked system is accepted -/

/-- lock ids held by thread `t` in `st` -/
def heldOf (st : State) (t : Nat) : List Nat :=
  match st[t]? with
  | some th => th.held.map Prod.fst
  | none => []

theorem heldOf_set {st : State} {u : Nat} {th th' : Thread} (hth : st[u]? = some th) (t : Nat) :
    heldOf (st.set u th') t = if t = u then th'.held.map Prod.fst else heldOf st t := by
  have hlt : u < st.length := (List.getElem?_eq_some_iff.1 hth).1
  by_cases htu : t = u
  · subst htu; simp [heldOf, hlt]
  · have : u ≠ t := fun h => htu h.symm
    simp [heldOf, this, htu]

theorem run_trace_ranked {rank : Nat → Nat} (wp w : Bool) (ls : List Label) {st : State} (hi : Inv rank st) :
    ∀ t, rankedPrefixFrom rank (heldOf st t) (proj w t (traceOf wp st ls)) = true := by
  induction ls generalizing st with
  | nil => intro t; simp [traceOf, proj, rankedPrefixFrom]
  | cons u ls ih =>
    intro t
    cases hs : stepG wp st u with
    | none => simp [traceOf, hs, proj, rankedPrefixFrom]
    | some st' =>
      have hi' := inv_step hi hs
      obtain ⟨th, op, rest, hth, hr, -, rfl⟩ := stepG_some hs
      have ih' := ih hi' t
      rw [heldOf_set hth] at ih'
      have hiu := hi th (List.mem_of_getElem? hth)
      rw [hr, rankedFrom_split] at hiu
      have hu : heldOf st u = th.held.map Prod.fst := by simp [heldOf, hth]
      simp only [traceOf, hs, hth, hr]
      cases op with
      | work =>
        by_cases htu : t = u
        · subst htu; simpa [eventOf, heldAfter, hu] using ih'
        · simpa [eventOf, htu] using ih'
      | acq l m =>
        by_cases htu : t = u
        · subst htu
          simp only [rankedPrefixFrom, Bool.and_eq_true] at hiu
          simp only [if_true, heldAfter, List.map_cons] at ih'
          simp [eventOf, proj, rankedPrefixFrom, heldAfter, hu, ih', hiu.1.1]
        · simpa [eventOf, proj, htu] using ih'
      | rel l =>
        by_cases htu : t = u
        · subst htu
          simp only [if_true, heldAfter, map_fst_eraseP] at ih'
          simp [eventOf, proj, rankedPrefixFrom, heldAfter, hu, ih']
        · simpa [eventOf, proj, htu] using ih'

/-- every run (complete or not) of a ranked system, under either policy, produces a trace that `checkTrace` accepts -/
theorem ranked_run_checkTrace {rank : Nat → Nat} {progs : List (List Op)} (h : ∀ p ∈ progs, Ranked rank p)
    (wp : Bool) (ls : List Label) : checkTrace rank (traceOf wp (init progs) ls) = true := by
  refine (checkFrom_iff rank true (fun _ => []) _).2 (fun t => ?_)
  have := run_trace_ranked wp true ls (inv_init h) t
  have h0 : heldOf (init progs) t = [] := by
    simp only [heldOf, init]
    cases hp : (List.map (fun p => (⟨p, []⟩ : Thread)) progs)[t]? with
    | none => rfl
    | some th =>
      have := List.mem_of_getElem? hp
      simp only [List.mem_map] at this
      obtain ⟨p, -, rfl⟩ := this
      rfl
  rw [h0] at this
  exact this

/-- non-vacuity: the trace of a full run of `goodProgs`, and the rejected trace of the AB/BA run -/
example : traceOf false (init goodProgs) [0, 0, 0, 0, 0, 1, 1] =
    [(0, true, 0), (0, true, 1), (0, false, 1), (0, false, 0), (1, true, 0), (1, true, 1)] := by decide
example : checkTrace id (traceOf false (init cycleProgs) [0, 0, 0, 0, 1, 1]) = false := by decide
/-- CAVEAT for whoever records traces: the model trace contains *granted* acquisitions only, so the run of
    `cycleProgs` that actually deadlocks is accepted (the two offending acquisitions never complete).
    A recorder that wants the checker to flag the deadlocking run itself must log the acquire event
    before calling `lock`/`read`/`write` (at the attempt), as in the second line. -/
example : checkTrace id (traceOf false (init cycleProgs) [0, 1]) = true := by decide
example : checkTrace id (traceOf false (init cycleProgs) [0, 1] ++ [(0, true, 1), (1, true, 0)]) = false := by decide


/-! ### model sanity: the locks really are reader/writer locks (holds for ALL programs, ranked or not) -/

theorem mem_heldAfter {held : List (Nat × Bool)} {op : Op} {x : Nat × Bool} (h : x ∈ heldAfter held op) :
    x ∈ held ∨ op = Op.acq x.1 x.2 := by
  cases op with
  | acq l w =>
    simp only [heldAfter, List.mem_cons] at h
    rcases h with rfl | h
    · exact .inr rfl
    · exact .inl h
  | rel l => exact .inl (List.mem_of_mem_eraseP h)
  | work => exact .inl h

/-- a write holder excludes every other thread: if thread `i` holds `l` for writing and thread `j` holds `l`
    in any mode then `i = j` — in every reachable state of every system under either policy -/
theorem rw_exclusion {wp : Bool} {progs : List (List Op)} {st : State} (hr : ReachableG wp progs st) :
    ∀ (i j : Nat) (u v : Thread) (l : Nat), st[i]? = some u → st[j]? = some v →
      u.holdsW l = true → v.holds l = true → i = j := by
  induction hr with
  | init =>
    intro i j u v l hu _ hw _
    have := List.mem_of_getElem? hu
    simp only [init, List.mem_map] at this
    obtain ⟨p, -, rfl⟩ := this
    simp [Thread.holdsW] at hw
  | @step st st' t _ hs ih =>
    obtain ⟨th, op, rest, hth, hrest, hen, rfl⟩ := stepG_some hs
    have hlt : t < st.length := (List.getElem?_eq_some_iff.1 hth).1
    intro i j u v l hu hv hw hh
    apply Classical.byContradiction
    intro hij
    simp only [Thread.holdsW, List.any_eq_true, Bool.and_eq_true, beq_iff_eq] at hw
    obtain ⟨x, hx, hxl, hxw⟩ := hw
    simp only [Thread.holds, List.any_eq_true, beq_iff_eq] at hh
    obtain ⟨y, hy, hyl⟩ := hh
    have holdsW_of : ∀ {a : Thread} {z : Nat × Bool}, z ∈ a.held → z.1 = l → z.2 = true →
        a.holdsW l = true := by
      intro a z hz h1 h2
      simp only [Thread.holdsW, List.any_eq_true, Bool.and_eq_true, beq_iff_eq]
      exact ⟨z, hz, h1, h2⟩
    have holds_of : ∀ {a : Thread} {z : Nat × Bool}, z ∈ a.held → z.1 = l → a.holds l = true := by
      intro a z hz h1
      simp only [Thread.holds, List.any_eq_true, beq_iff_eq]
      exact ⟨z, hz, h1⟩
    by_cases hit : i = t
    · subst hit
      have hjt : j ≠ i := fun h => hij h.symm
      rw [List.getElem?_set_self hlt] at hu
      rw [List.getElem?_set_ne (Ne.symm hjt)] at hv
      cases hu
      rcases mem_heldAfter hx with hx | hop
      · exact hij (ih i j th v l hth hv (holdsW_of hx hxl hxw) (holds_of hy hyl))
      · subst hop
        have hc : canAcq st x.1 x.2 = true := by
          simp only [opEnabled, grant, Bool.and_eq_true] at hen; exact hen.1
        simp only [canAcq, List.all_eq_true, hxw, if_true, Bool.not_eq_true'] at hc
        have := hc v (List.mem_of_getElem? hv)
        rw [hxl, holds_of hy hyl] at this
        cases this
    · rw [List.getElem?_set_ne (Ne.symm hit)] at hu
      by_cases hjt : j = t
      · subst hjt
        rw [List.getElem?_set_self hlt] at hv
        cases hv
        rcases mem_heldAfter hy with hy | hop
        · exact hij (ih i j u th l hu hth (holdsW_of hx hxl hxw) (holds_of hy hyl))
        · subst hop
          have hc : canAcq st y.1 y.2 = true := by
            simp only [opEnabled, grant, Bool.and_eq_true] at hen; exact hen.1
          simp only [canAcq, List.all_eq_true] at hc
          have := hc u (List.mem_of_getElem? hu)
          have h1 : u.holdsW y.1 = true := hyl ▸ holdsW_of hx hxl hxw
          have h2 : u.holds y.1 = true := holds_of_holdsW h1
          cases hyw : y.2 <;> simp [hyw, h1, h2] at this
      · rw [List.getElem?_set_ne (Ne.symm hjt)] at hv
        exact hij (ih i j u v l hu hv (holdsW_of hx hxl hxw) (holds_of hy hyl))

/-- many readers at once are possible (both threads hold lock 0 for reading), a writer is then refused -/
example : ∃ st, Reachable [[.acq 0 false, .rel 0], [.acq 0 false, .rel 0], [.acq 0 true, .rel 0]] st ∧
    (∀ th ∈ st.take 2, th.holds 0 = true) ∧ step st 2 = none ∧ (step st 0).isSome :=
  ⟨[⟨[.rel 0], [(0, false)]⟩, ⟨[.rel 0], [(0, false)]⟩, ⟨[.acq 0 true, .rel 0], []⟩],
    replay_reachable (ls := [0, 1]) (by decide), by decide, by decide, by decide⟩


#print axioms ranked_no_deadlock
#print axioms ranked_no_deadlock_fn
#print axioms ranked_no_deadlock_strong
#print axioms ranked_no_deadlock_wp
#print axioms ranked_progress
#print axioms ranked_progress_wp
#print axioms ranked_finished_holds_nothing
#print axioms self_reacquire_blocks
#print axioms self_upgrade_blocks
#print axioms two_thread_cycle
#print axioms two_thread_cycle_rw
#print axioms reentrant_read_deadlocks_under_writer_preference
#print axioms checkTrace_sound
#print axioms checkTrace_sound_ranked
#print axioms checkTrace_complete
#print axioms ranked_prefix
#print axioms rankedPrefix_completion
#print axioms ranked_run_checkTrace
#print axioms rw_exclusion

end Rx.C07
