import RxVerif.Theorems.C13RefColdReplayOps
/-
C13-REF, replay over a COLD source: source-subscription teardown and the world after the script.
-/
namespace Rx.CRef
open Rx.Sim Rx.SubjM Rx.Ref Rx.RefR

theorem ConnsPartC.acell_congr {fn fe fc acell acell' cobs w conns armed}
    (h : ConnsPartC fn fe fc acell cobs w conns armed) (he : ∀ i, i < armed.length → acell' i = acell i) :
    ConnsPartC fn fe fc acell' cobs w conns armed :=
  { h with acell := fun i hi => by rw [he i hi]; exact h.acell i hi }

/-- `Subscription::unsubscribe` of source subscription `i` on a cold replay world -/
theorem srcUnsubRc_spec {script L cobs cacs armed pend unst Hd w st}
    (h : RelRpc script L cobs cacs armed pend unst Hd w st) {i : Nat} (hi : i < st.conns.length) :
    WP (subUnsub (.pair (.int (rootAt cobs i : Nat)) (.int (rootAt cacs i : Nat)))) w (fun w' =>
      RelRpc script L cobs cacs (armed.set i false) pend unst Hd w' { st with conns := st.conns.set i false }) := by
  obtain ⟨g, U, X⟩ := h.ur
  have hlc : cacs.length = armed.length := by rw [X.lenCa, h.inv.conns.lenC, h.full]
  refine (srcUnsubCold_spec (K := KCa cacs) h.inv.held h.inv.conns g
    (fun a b ha hb e => rootAt_inj X.caNodup (hlc ▸ ha) (hlc ▸ hb) e)
    (fun j hj => Or.inr (rootAt_mem (hlc ▸ hj))) (i := i) (by rw [h.full]; exact hi)).conseq ?_
  rintro w1 ⟨C1, t1, htr⟩
  exact ⟨⟨g.touch t1, t1.held ▸ h.inv.held, h.inv.ur.touchConns t1 htr, C1⟩,
    by simp only [List.length_set]; exact h.full, h.pristine⟩

theorem not_KR_rootAt {L : LayR} {cobsX cacs Hd cg sb cn w} (X : ExtrasR L cobsX cacs Hd cg sb cn w) (i : Nat) :
    ¬ KR (rootAt cacs i) := by
  intro hk
  rcases rootAt_zero_or_mem cacs i with h0 | hm
  · rw [h0] at hk; simp [KR] at hk
  · have := (X.caGe _ hm).1; simp only [KR] at hk; omega

/-- after the script: the handle's flag is allocated and the handle stored in `self.subscription` -/
theorem connectedRc_mid {script L cobs cacs armed pend unst Hd w w2 st}
    (h : RelRpc script L cobs cacs armed pend unst Hd w st)
    (h2 : ColdInv (URrc script L (cobs ++ [w.obs.length]) cobs cacs pend unst Hd true st.subscription st.cancelled)
      fnR feR fcR (rootAt cacs) (L.roots ++ L.fwds) (cobs ++ [w.obs.length]) w2 (coldFold .replay script st) armed) :
    RelRpc script L (cobs ++ [w.obs.length]) (cacs ++ [w2.cells.length]) (armed ++ [true]) pend unst Hd
      (armStore w2 8 w.obs.length) { coldFold .replay script st with subscription := some st.conns.length } := by
  obtain ⟨g2, U2, X2, hs2⟩ := h2.ur
  have hm : st.conns.length = cobs.length := h.inv.conns.lenC.symm
  have hmc : st.conns.length = cacs.length := by rw [hm, X2.lenCa]
  have hac : armed.length = cacs.length := by rw [h.full, hmc]
  have h9 : 9 < w2.cells.length := lt_of_getElem?_some X2.cellN
  have hfl := foldRecv_flags .replay st.conns.length script
    { st with connecting := true, conns := st.conns ++ [true] }
  have hlenF : (coldFold .replay script st).conns.length = st.conns.length + 1 := by
    unfold coldFold; rw [foldRecv_len]; simp
  have hcells : ∀ i, i ≠ 8 → i < w2.cells.length → (armStore w2 8 w.obs.length).cells[i]? = w2.cells[i]? := by
    intro i h8 hi
    show ((w2.cells ++ _).set 8 _)[i]? = _
    rw [set_get_other _ (Ne.symm h8), get_app_lt _ _ _ hi]
  have hlenW : (armStore w2 8 w.obs.length).cells.length = w2.cells.length + 1 := by simp [armStore]
  have C1 : ConnsPartC fnR feR fcR (rootAt (cacs ++ [w2.cells.length])) (cobs ++ [w.obs.length]) w2
      (coldFold .replay script st).conns armed :=
    h2.conns.acell_congr (fun i hi => rootAt_append_lt _ _ (hac ▸ hi))
  have C2 := C1.arm (by rw [hlenF, h.full]) (by rw [hac, rootAt_append_last])
    (fun i hi => by rw [rootAt_append_lt _ _ (hac ▸ hi)]; exact (X2.caGe _ (rootAt_mem (hac ▸ hi))).2)
  have gF : Glob (L.roots ++ L.fwds) (cobs ++ [w.obs.length]) (armStore w2 8 w.obs.length) :=
    ⟨g2.status, g2.nObs, g2.rootsLt, g2.cobsLt, g2.nodup⟩
  refine ⟨?_, by simp only [List.length_append, List.length_cons, List.length_nil, hlenF, h.full],
    fun hc => by
      have e1 : (coldFold .replay script st).connecting = true := hfl.1
      rw [show ({ coldFold .replay script st with subscription := some st.conns.length } : ConnM.State).connecting =
        (coldFold .replay script st).connecting from rfl, e1] at hc
      cases hc⟩
  show ColdInv (URrc script L _ _ _ pend unst Hd (coldFold .replay script st).connecting (some st.conns.length)
    (coldFold .replay script st).cancelled) fnR feR fcR _ _ _ _ _ _
  have e1 : (coldFold .replay script st).connecting = true := hfl.1
  have e2 : (coldFold .replay script st).cancelled = st.cancelled := hfl.2.1
  rw [e1, e2]
  refine ⟨gF, h2.held, ⟨gF, ?_, ?_, hs2⟩, ?_⟩
  · refine U2.frameW rfl (by rw [hlenW]; omega) (fun i h2' h6 => hcells i (by omega) (by omega)) ?_ (fun _ _ => rfl)
      (fun _ => rfl)
    intro c hc
    have := U2.cellsGe c hc
    exact hcells c (by omega) this.2
  · refine
      { held := X2.held, slot0 := X2.slot0, slot1 := X2.slot1, slot2 := X2.slot2, slot3 := X2.slot3
        obsvS := X2.obsvS
        cellG := (hcells 7 (by decide) (by omega)).trans X2.cellG
        cellB := ?_
        cellN := (hcells 9 (by decide) (by omega)).trans X2.cellN
        sbLt := ?_, lenCa := by simp [X2.lenCa], caNodup := ?_, caGe := ?_, caDisj := ?_ }
    · show ((w2.cells ++ _).set 8 _)[8]? = _
      rw [List.getElem?_set_self (by simp; omega)]
      simp only [subCellR]
      rw [hm, rootAt_append_last, ← hm, hmc, rootAt_append_last]
    · intro i hi
      have : i = st.conns.length := (Option.some.inj hi).symm
      simp; omega
    · rw [List.nodup_append]
      refine ⟨X2.caNodup, by simp, ?_⟩
      intro a ha b hb
      simp at hb; subst hb
      have := (X2.caGe a ha).2; omega
    · intro c hc
      rw [hlenW]
      rcases List.mem_append.1 hc with hc | hc
      · have := X2.caGe c hc; omega
      · simp at hc; subst hc; omega
    · intro c hc
      rcases List.mem_append.1 hc with hc | hc
      · exact X2.caDisj c hc
      · simp at hc; subst hc
        intro hm2
        have := (U2.cellsGe _ hm2).2; omega
  · refine C2.frame (fun _ _ => rfl) ?_ rfl
    intro i hi
    show ((w2.cells ++ _).set 8 _)[_]? = (w2.cells ++ _)[_]?
    refine set_get_other _ ?_
    simp only [List.length_append, List.length_cons, List.length_nil] at hi
    by_cases e : i = armed.length
    · rw [e, hac, rootAt_append_last]; omega
    · rw [rootAt_append_lt _ _ (by omega)]
      have := (X2.caGe _ (rootAt_mem (l := cacs) (i := i) (by omega))).1; omega

end Rx.CRef
