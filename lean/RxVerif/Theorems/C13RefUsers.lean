import RxVerif.Theorems.C13RefHot
/-
C13-REF, part 4: a test user subscribing to / unsubscribing from the connectable's (plain) subject S, up to the
`on_subscribe(len)` / `on_unsubscribe(len)` call sites, whose hooks are kind specific (none for publish, the
connect / disconnect closures of ref_count.rs:41-90 for ref_count).
-/
namespace Rx.CRef
open Rx.Sim Rx.SubjM Rx.Ref Rx.RefR

theorem rootAt_append_lt (l : List Nat) (r : Nat) {i : Nat} (h : i < l.length) : rootAt (l ++ [r]) i = rootAt l i := by
  simp [rootAt, List.getD_eq_getElem?_getD, List.getElem?_append_left h]

theorem rootAt_append_last (l : List Nat) (r : Nat) : rootAt (l ++ [r]) l.length = r := by
  simp [rootAt, List.getD_eq_getElem?_getD]

theorem mapRoots_append (roots : List Nat) (r : Nat) (l : List (Nat × Nat)) (hl : ∀ p ∈ l, p.2 < roots.length) :
    mapRoots (roots ++ [r]) l = mapRoots roots l := by
  unfold mapRoots
  apply List.map_congr_left
  intro p hp
  rw [rootAt_append_lt _ _ (hl p hp)]

theorem keys_mapRoots {roots : List Nat} {l : List (Nat × Nat)} {s : Nat} (h : ∀ p ∈ l, p.1 ≤ s) :
    ∀ p ∈ mapRoots roots l, p.1 ≤ s := by
  intro p hp
  obtain ⟨q, hq, rfl⟩ := List.mem_map.1 hp
  exact h q hq

/-- the world when `Subject::observable`'s closure reaches `on_subscribe(len)` for the new user -/
def subUserWorld (S : Subj) (w : World) (roots : List Nat) (observers : List (Nat × Nat)) (serial : Nat) : World :=
  subWorld S
    { w with
      obs := w.obs ++ [⟨some (.user w.users.length), some (.user w.users.length), some (.user w.users.length), none⟩]
      users := w.users ++ [⟨w.obs.length, noReact, false, true⟩] }
    w.obs.length serial (mapRoots roots observers)

theorem userSub_pre {S : Subj} {sid : Nat} {roots : List Nat} {w : World} {observers : List (Nat × Nat)}
    {serial : Nat} {f : Nat → ObsSt} {Q : World → Prop} (hobsv : w.obsvs[sid]? = some S.observable)
    (hh : SlotReads w.held) (U : UsersPart S roots none w observers serial f)
    (hQ : WP (slotTail S.onSub (.int ((observers.length + 1 : Nat) : Int))) (subUserWorld S w roots observers serial)
      fun w2 => WP (.userReady w.users.length .done) w2 Q) :
    WP (.userSub sid noReact .done) w Q := by
  refine wp_userSub hobsv ?_
  refine observable_pre (x := ⟨some (.user w.users.length), some (.user w.users.length), some (.user w.users.length), none⟩)
    (serial := serial) (obsl := mapRoots roots observers) hh (by dsimp only; rw [get_app0]; rfl) rfl U.ne
    U.cellS U.cellO (keys_mapRoots U.keys) ?_
  have : (mapRoots roots observers).length = observers.length := by simp [mapRoots]
  rw [this]
  exact hQ

/-- the record of a user that has just been registered in a plain subject -/
def freshRec (serial : Nat) : ObsSt := { seen := true, alive := true, hook := true, inHook := some (serial + 1) }

theorem subUserWorld_eq (S : Subj) (w : World) (roots : List Nat) (observers : List (Nat × Nat)) (serial : Nat) :
    subUserWorld S w roots observers serial =
      { w with
        obs := w.obs ++ [obsOf S w.users.length (freshRec serial)]
        users := w.users ++ [⟨w.obs.length, noReact, false, true⟩]
        cells := (w.cells.set S.serial (.int ((serial + 1 : Nat) : Int))).set S.observers
          (encMap (mapRoots roots observers ++ [(serial + 1, w.obs.length)])) } := by
  unfold subUserWorld subWorld
  dsimp only [World.setObs]
  rw [modify_app0]
  rfl

theorem subUser_obs_lt (S : Subj) (w : World) (roots observers serial) {j : Nat} (hj : j < w.obs.length) :
    (subUserWorld S w roots observers serial).obs[j]? = w.obs[j]? := by
  rw [subUserWorld_eq]; exact get_app_lt _ _ _ hj

theorem subUser_cells (S : Subj) (w : World) (roots observers serial) {i : Nat} (h1 : i ≠ S.observers)
    (h2 : i ≠ S.serial) : (subUserWorld S w roots observers serial).cells[i]? = w.cells[i]? := by
  rw [subUserWorld_eq]
  show ((w.cells.set _ _).set _ _)[i]? = _
  rw [set_get_other _ (Ne.symm h1), set_get_other _ (Ne.symm h2)]

theorem subUser_cellsLen (S : Subj) (w : World) (roots observers serial) :
    (subUserWorld S w roots observers serial).cells.length = w.cells.length := by
  rw [subUserWorld_eq]; simp

theorem subUser_glob {S roots cobs w} (g : Glob roots cobs w) (observers serial) :
    Glob (roots ++ [w.obs.length]) cobs (subUserWorld S w roots observers serial) := by
  rw [subUserWorld_eq]
  refine ⟨g.status, by simp [g.nObs]; omega, ?_, ?_, ?_⟩
  · intro r hr
    simp only [List.length_append, List.length_cons, List.length_nil]
    rcases List.mem_append.1 hr with hr | hr
    · have := g.rootsLt r hr; omega
    · simp at hr; omega
  · intro c hc
    simp only [List.length_append, List.length_cons, List.length_nil]
    have := g.cobsLt c hc; omega
  · have hn := g.nodup
    rw [List.append_assoc, List.nodup_append] at *
    obtain ⟨h1, h2, h3⟩ := hn
    refine ⟨h1, ?_, ?_⟩
    · simp only [List.singleton_append, List.nodup_cons]
      exact ⟨fun hm => absurd (g.cobsLt _ hm) (Nat.lt_irrefl _), h2⟩
    · intro a ha b hb
      rcases List.mem_append.1 hb with hb | hb
      · simp at hb; subst hb
        intro e; subst e
        exact absurd (g.rootsLt _ ha) (Nat.lt_irrefl _)
      · exact h3 a ha b hb

theorem subUser_users {S roots cobs w observers serial f} (g : Glob roots cobs w)
    (U : UsersPart S roots none w observers serial f) :
    UsersPart S (roots ++ [w.obs.length]) (some roots.length) (subUserWorld S w roots observers serial)
      (observers ++ [(serial + 1, roots.length)]) (serial + 1) (upd f roots.length (freshRec serial)) := by
  rw [subUserWorld_eq]
  have hun := View.eq (U.unseen roots.length (Nat.le_refl _))
  have hfix : ∀ (P : ObsSt → Prop) (u : Nat) (r : ObsSt), (u ≠ roots.length → P (f u)) → (u = roots.length → P r) →
      P (upd f roots.length r u) := by
    intro P u r h1 h2
    by_cases e : u = roots.length
    · subst e; simpa [upd] using h2 rfl
    · simpa [upd, e] using h1 e
  have hlen : (roots ++ [w.obs.length]).length = roots.length + 1 := by simp
  have hmap : mapRoots (roots ++ [w.obs.length]) (observers ++ [(serial + 1, roots.length)]) =
      mapRoots roots observers ++ [(serial + 1, w.obs.length)] := by
    have := mapRoots_append roots w.obs.length observers U.regBound
    simp only [mapRoots, List.map_append, List.map_cons, List.map_nil, rootAt_append_last] at this ⊢
    rw [this]
  exact
    { ne := U.ne
      cellO := by rw [hmap]; exact set_get_same _ (by rw [set_get_other _ (Ne.symm U.ne)]; exact U.cellO)
      cellS := by
        show ((w.cells.set S.serial _).set S.observers _)[S.serial]? = _
        rw [set_get_other _ U.ne]; exact set_get_same _ U.cellS
      nUsers := by simp [U.nUsers]
      user := by
        intro u hu
        rw [hlen] at hu
        by_cases e : u = roots.length
        · subst e
          refine ⟨false, ?_, fun x => absurd rfl x⟩
          show (w.users ++ [_])[roots.length]? = _
          rw [get_app_at _ _ _ 0 (by rw [U.nUsers]; rfl), rootAt_append_last]
          simp [upd, freshRec]
        · have hlt : u < roots.length := by omega
          obtain ⟨rd, h1, h2⟩ := U.user u hlt
          refine ⟨rd, ?_, fun _ => h2 (by simp)⟩
          show (w.users ++ [_])[u]? = _
          rw [get_app_lt _ _ _ (by rw [U.nUsers]; exact hlt), h1, rootAt_append_lt _ _ hlt]
          simp [upd, e]
      obs := by
        intro u hu
        rw [hlen] at hu
        by_cases e : u = roots.length
        · subst e
          show (w.obs ++ [_])[_]? = _
          rw [rootAt_append_last, get_app0, U.nUsers]
          simp [upd]
        · have hlt : u < roots.length := by omega
          show (w.obs ++ [_])[_]? = _
          rw [rootAt_append_lt _ _ hlt, get_app_lt _ _ _ (g.rootsLt _ (rootAt_mem hlt)), U.obs u hlt]
          simp [upd, e]
      seen := fun u hu => hfix (fun r => r.seen = true) u _ (fun e => U.seen u (by rw [hlen] at hu; omega)) (fun _ => rfl)
      unseen := fun u hu => hfix (fun r => View r = View {}) u _ (fun _ => U.unseen u (by rw [hlen] at hu; omega))
        (fun e => by rw [hlen] at hu; omega)
      hookIff := fun u => hfix (fun r => r.hook = r.inHook.isSome) u _ (fun _ => U.hookIff u) (fun _ => rfl)
      deadNoHook := fun u => hfix (fun r => r.hook = false → r.alive = false) u _ (fun _ => U.deadNoHook u)
        (fun _ hh => by simp [freshRec] at hh)
      log := by
        intro u
        show logOf w u = _
        rw [U.log]
        exact hfix (fun r => (f u).log = r.log) u _ (fun _ => rfl) (fun e => by subst e; simpa [freshRec] using hun.2.2.1)
      keys := by
        intro p hp
        rcases List.mem_append.1 hp with hp | hp
        · have := U.keys p hp; omega
        · simp at hp; subst hp; simp
      regBound := by
        intro p hp
        rw [hlen]
        rcases List.mem_append.1 hp with hp | hp
        · have := U.regBound p hp; omega
        · simp at hp; subst hp; simp }

/-- `subscribe` has returned: the handle exists -/
theorem UsersPart.ready {S roots n w observers serial f} (U : UsersPart S roots (some n) w observers serial f) :
    UsersPart S roots none (w.setUser n fun u => { u with ready := true }) observers serial f :=
  { U with
    nUsers := by simp [World.setUser, U.nUsers]
    user := by
      intro u hu
      obtain ⟨rd, h1, h2⟩ := U.user u hu
      by_cases e : u = n
      · subst e
        exact ⟨true, by rw [users_modify_same _ h1], fun _ => rfl⟩
      · exact ⟨rd, by rw [users_modify_other _ e]; exact h1, fun _ => h2 (fun x => e (Option.some.inj x).symm)⟩ }

/-! ### unsubscribe -/

theorem mapRoots_filter (roots : List Nat) (l : List (Nat × Nat)) (s : Nat) :
    (mapRoots roots l).filter (fun p => p.1 != s) = mapRoots roots (l.filter fun p => p.1 != s) := by
  simp only [mapRoots, List.filter_map]; rfl

/-- the world when the user's teardown reaches `on_unsubscribe(len)` -/
def unsubUserWorld (S : Subj) (w : World) (roots : List Nat) (u : Nat) (observers : List (Nat × Nat)) (s : Nat) :
    World :=
  { ((w.setUser u fun x => { x with armed := false }).setObs (rootAt roots u) fun x =>
      { x.cleared with onUnsub := none }) with
    cells := w.cells.set S.observers (encMap (mapRoots roots (observers.filter fun p => p.1 != s))) }

/-- a user whose handle is spent, or an id that never subscribed: nothing happens -/
theorem userUnsub_noop {S roots w observers serial f} {Q : World → Prop} (U : UsersPart S roots none w observers serial f)
    (u : Nat) (hk : u < roots.length → (f u).hook = false) (hQ : Q w) : WP (.userUnsub u .done) w Q := by
  rcases Nat.lt_or_ge u roots.length with hlt | hge
  · obtain ⟨rd, h1, _⟩ := U.user u hlt
    exact wp_userUnsub_spent h1 (by simp [hk hlt]) (WP.done hQ)
  · exact wp_userUnsub_none (by apply List.getElem?_eq_none; rw [U.nUsers]; exact hge) (WP.done hQ)

theorem userUnsub_pre {S roots w observers serial f} {Q : World → Prop} (hh : SlotReads w.held)
    (U : UsersPart S roots none w observers serial f) {u s : Nat} (hu : u < roots.length)
    (hk : (f u).hook = true) (hin : (f u).inHook = some s)
    (hQ : WP (slotTail S.onUnsub (.int (((observers.filter fun p => p.1 != s).length : Nat) : Int)))
      (unsubUserWorld S w roots u observers s) fun w2 => WP .done w2 Q) :
    WP (.userUnsub u .done) w Q := by
  obtain ⟨rd, h1, h2⟩ := U.user u hu
  have hrd : rd = true := h2 (by simp)
  subst hrd
  refine wp_userUnsub_armed h1 (by simp [hk]) ?_
  refine wp_obsUnsub_some (f := hookProg S (s : Int)) (x := obsOf S u (f u)) (U.obs u hu) (by simp [obsOf, hin]) ?_
  refine hookProg_pre (obsl := mapRoots roots observers) hh U.cellO ?_
  rw [mapRoots_filter]
  have : (mapRoots roots (observers.filter fun p => p.1 != s)).length = (observers.filter fun p => p.1 != s).length := by
    simp [mapRoots]
  rw [this]
  exact hQ

theorem unsubUser_obs_other (S : Subj) (w : World) (roots : List Nat) (u : Nat) (observers s) {j : Nat}
    (hj : j ≠ rootAt roots u) : (unsubUserWorld S w roots u observers s).obs[j]? = w.obs[j]? := by
  show ((w.setUser u _).setObs (rootAt roots u) _).obs[j]? = _
  rw [getElem?_setObs_other _ (Ne.symm hj)]; rfl

theorem unsubUser_cells (S : Subj) (w : World) (roots : List Nat) (u : Nat) (observers s) {i : Nat}
    (hi : i ≠ S.observers) : (unsubUserWorld S w roots u observers s).cells[i]? = w.cells[i]? :=
  set_get_other _ (Ne.symm hi)

theorem unsubUser_cellsLen (S : Subj) (w : World) (roots : List Nat) (u : Nat) (observers s) :
    (unsubUserWorld S w roots u observers s).cells.length = w.cells.length := by
  simp [unsubUserWorld]

theorem unsubUser_glob {S roots cobs w} (g : Glob roots cobs w) (u : Nat) (observers s) :
    Glob roots cobs (unsubUserWorld S w roots u observers s) := by
  have hl : (unsubUserWorld S w roots u observers s).obs.length = w.obs.length := by
    simp [unsubUserWorld, World.setObs, World.setUser]
  exact ⟨g.status, hl ▸ g.nObs, fun r hr => hl ▸ g.rootsLt r hr, fun c hc => hl ▸ g.cobsLt c hc, g.nodup⟩

theorem unsubUser_users {S roots cobs w observers serial f} (g : Glob roots cobs w)
    (U : UsersPart S roots none w observers serial f) {u s : Nat} (hu : u < roots.length) :
    UsersPart S roots none (unsubUserWorld S w roots u observers s) (observers.filter fun p => p.1 != s) serial
      (upd f u { f u with alive := false, hook := false, inHook := none }) := by
  let r' : ObsSt := { f u with alive := false, hook := false, inHook := none }
  have hfix : ∀ (P : ObsSt → Prop) (u' : Nat), (u' ≠ u → P (f u')) → (u' = u → P r') → P (upd f u r' u') := by
    intro P u' h1 h2
    by_cases e : u' = u
    · subst e; simpa [upd] using h2 rfl
    · simpa [upd, e] using h1 e
  exact
    { ne := U.ne
      cellO := set_get_same _ U.cellO
      cellS := by show (w.cells.set _ _)[_]? = _; rw [set_get_other _ U.ne]; exact U.cellS
      nUsers := by simp [unsubUserWorld, World.setObs, World.setUser, U.nUsers]
      user := by
        intro u' hu'
        obtain ⟨rd, h1, h2⟩ := U.user u' hu'
        refine ⟨rd, ?_, h2⟩
        show (w.setUser u _).users[u']? = _
        by_cases e : u' = u
        · subst e; rw [users_modify_same _ h1]; simp [upd]
        · rw [users_modify_other _ e, h1]; simp [upd, e]
      obs := by
        intro u' hu'
        by_cases e : u' = u
        · subst e
          show ((w.setUser u' _).setObs (rootAt roots u') _).obs[rootAt roots u']? = _
          rw [getElem?_setObs_same _ (show (w.setUser u' _).obs[rootAt roots u']? = _ from U.obs u' hu')]
          simp [upd, obsOf, Obs.cleared]
        · rw [unsubUser_obs_other _ _ _ _ _ _ (fun x => e (g.root_inj hu' hu x)), U.obs u' hu']
          simp [upd, e]
      seen := fun u' hu' => hfix (fun r => r.seen = true) u' (fun _ => U.seen u' hu') (fun _ => U.seen u hu)
      unseen := fun u' hu' => hfix (fun r => View r = View {}) u' (fun _ => U.unseen u' hu') (fun e => by omega)
      hookIff := fun u' => hfix (fun r => r.hook = r.inHook.isSome) u' (fun _ => U.hookIff u') (fun _ => rfl)
      deadNoHook := fun u' => hfix (fun r => r.hook = false → r.alive = false) u' (fun _ => U.deadNoHook u')
        (fun _ _ => rfl)
      log := by
        intro u'
        show logOf w u' = _
        rw [U.log]
        exact hfix (fun r => (f u').log = r.log) u' (fun _ => rfl) (fun e => by subst e; rfl)
      keys := fun p hp => U.keys p (List.mem_filter.1 hp).1
      regBound := fun p hp => U.regBound p (List.mem_filter.1 hp).1 }

/-! ### the `SubjM` side of `unsubscribe` on a plain subject, in components -/

theorem plainUnsub_noop {S roots pend w} {s : SubjM.State} (U : UsersPart S roots pend w s.observers s.serial s.obs)
    (u : Nat) (hk : u < roots.length → (s.obs u).hook = false) :
    UsersPart S roots pend w (unsubscribeN .plain s u).1.observers (unsubscribeN .plain s u).1.serial
      (unsubscribeN .plain s u).1.obs := by
  have hk' : (s.obs u).hook = false := by
    rcases Nat.lt_or_ge u roots.length with hlt | hge
    · exact hk hlt
    · exact (View.eq (U.unseen u hge)).2.2.2.1
  have hin : (s.obs u).inHook = none := by
    have := U.hookIff u; rw [hk'] at this; simpa using this.symm
  rw [unsub_observers, unsub_serial, hin]
  refine U.congr fun u' => ?_
  rw [unsub_obs]; split
  · rename_i e; rw [e.1]; simp [View, hk', U.deadNoHook u hk', hin]
  · rfl

theorem plainUnsub_live {S roots pend} {s : SubjM.State} {u s0 : Nat} {w' : World}
    (hs : (s.obs u).seen = true) (hk : (s.obs u).hook = true) (hin : (s.obs u).inHook = some s0)
    (U' : UsersPart S roots pend w' (s.observers.filter fun p => p.1 != s0) s.serial
      (upd s.obs u { s.obs u with alive := false, hook := false, inHook := none })) :
    UsersPart S roots pend w' (unsubscribeN .plain s u).1.observers (unsubscribeN .plain s u).1.serial
      (unsubscribeN .plain s u).1.obs := by
  have hre : reaches .plain (s.obs u) = true := by simp [reaches, hs, hk, Kind.isPlain]
  rw [unsub_observers, unsub_serial, hin]
  simp only [hre, ↓reduceIte]
  refine U'.congr fun u' => ?_
  rw [unsub_obs, view_upd]
  by_cases e : u' = u
  · simp [e, hs, View, hk, Kind.isPlain]
  · simp [e]

end Rx.CRef
