import RxVerif.Theorems.C03RefBase
/-
C03-REF, part 2: `sink_complete`, `upstream_abort_observe`, and `Subject::next/error/complete` on source `i`
(the broadcast reaches exactly the inner observer of source `i`, if it is still live).
-/
namespace Rx.CRef
open Rx.Sim Rx.Ref Rx.Comb

variable {L : Lay} {fresh : Nat → Bool} {hl : List (LockId × Bool)} {c : Ctl} {x : Fr} {out : List Ev} {w : World}

/-- removing serial `ser i` from the stored map = removing source `i` from `reg` -/
theorem filter_reg (ok : L.Ok) (reg : List Nat) (hreg : ∀ j ∈ reg, j < L.k) {i : Nat} (hi : i < L.k) :
    (reg.map fun j => (L.ser j, L.ob j)).filter (fun p => p.1 != L.ser i) =
      (reg.filter (· != i)).map fun j => (L.ser j, L.ob j) := by
  rw [List.filter_map]
  congr 1
  apply List.filter_congr
  intro j hj
  simp only [Function.comp_def, bne]
  congr 1
  rw [Bool.eq_iff_iff]
  simp only [beq_iff_eq]
  exact ⟨fun q => ok.serInj _ _ (hreg j hj) hi q, fun q => by rw [q]⟩

/-- the map cell rewritten with a sub-list of `reg` -/
theorem Rel.setReg (h : Rel L fresh hl c x out w) (l' reg' : List Nat) (hsub : ∀ j ∈ reg', j ∈ c.reg)
    (hmem' : ∀ j, j ∈ l' ↔ j ∈ reg') :
    Rel L fresh hl { c with reg := reg' } x out
      { w with cells := w.cells.set (2 * L.k + 1) (encMap (l'.map fun j => (L.ser j, L.ob j))) } :=
  { h with
    regLt := fun j hj => h.regLt j (hsub j hj)
    subjO := by
      intro i hi; show (w.cells.set _ _)[_]? = _
      rw [set_get_other _ (by omega)]; exact h.subjO i hi
    subjS := by
      intro i hi; show (w.cells.set _ _)[_]? = _
      rw [set_get_other _ (by omega)]; exact h.subjS i hi
    mapC := by
      obtain ⟨l, hm, _⟩ := h.mapC
      exact ⟨l', set_get_same _ hm, hmem'⟩
    serC := by
      refine ⟨?_, fun j hj => h.serC.2 j (hsub j hj)⟩
      show (w.cells.set _ _)[_]? = _
      rw [set_get_other _ (by omega)]; exact h.serC.1
    inner := by
      intro i hi hor
      refine h.inner i hi ?_
      rcases hor with q | q
      · exact .inl q
      · exact .inr (by simpa using hsub i (by simpa using q))
    xc := by
      show (w.cells.set _ _)[_]?.getD _ = _
      rw [set_get_other _ (by omega)]; exact h.xc }

/-- stream_controller.rs:101-115 -/
theorem sinkComplete_spec (ok : L.Ok) (h : Rel L fresh [] c x out w) {i : Nat} (hi : i < L.k) :
    WP (L.sc.sinkComplete (L.ser i)) w
      (fun w' => Rel L fresh [] (c.sinkComplete i).1 x (out ++ (c.sinkComplete i).2) w') := by
  simp only [Sctl.sinkComplete, Lay.sc]
  refine wp_obsIsSub h.root ?_
  cases ha : c.alive with
  | false =>
    simp only [rootObs, Obs.isSub, Option.isSome_none, Bool.false_and, Bool.false_eq_true, ↓reduceIte,
      Ctl.sinkComplete, ha, List.append_nil]
    exact finalize_spec ok h ha
  | true =>
    simp only [rootObs, Obs.isSub, Option.isSome_some, Bool.and_self, ↓reduceIte, Ctl.sinkComplete, ha]
    refine wp_cellRead_nc (noconf_of_held_nil h.held _ _) ?_
    obtain ⟨l, hm, hmem⟩ := h.mapC
    simp only [hm, Option.getD_some]
    rw [amapRemove_encMap, filter_reg ok l (fun j hj => h.regLt j ((hmem j).1 hj)) hi]
    refine wp_cellWrite_nc (noconf_of_held_nil h.held _ _) ?_
    have hmem' : ∀ j, j ∈ l.filter (· != i) ↔ j ∈ c.reg.filter (· != i) := by
      intro j; simp only [List.mem_filter, hmem j]
    have h1 := h.setReg (l.filter (· != i)) (c.reg.filter (· != i)) (fun j hj => (List.mem_filter.1 hj).1) hmem'
    rw [amapLen_encMap, List.length_map]
    cases hr : c.reg.filter (· != i) with
    | nil =>
      rw [hr] at h1 hmem'
      have hl0 : l.filter (· != i) = [] := List.eq_nil_iff_forall_not_mem.2 fun j hj => by simpa using (hmem' j).1 hj
      rw [hl0] at h1 ⊢
      simp only [List.length_nil, beq_self_eq_true, ↓reduceIte, List.isEmpty_nil]
      refine root_deliver h1 ha .complete ?_
      exact finalize_spec (c := { c with alive := false, reg := [] }) ok (h1.rootTerminal ok .complete) rfl
    | cons a rest =>
      rw [hr] at h1 hmem'
      have hl1 : (l.filter (· != i)).length ≠ 0 := by
        intro q; have := (hmem' a).2 (by simp); rw [List.length_eq_zero_iff.1 q] at this; cases this
      simp only [hl1, beq_iff_eq,
        ↓reduceIte, List.isEmpty_cons, Bool.false_eq_true, List.append_nil]
      rw [ha] at h1
      exact WP.done h1

/-! ### `upstream_abort_observe` (stream_controller.rs:124-130) -/

theorem amapGet_encMap (l : List (Nat × Nat)) (s : Nat) :
    amapGet (encMap l) (s : Int) = (l.find? fun p => p.1 == s).map fun p => Data.int p.2 := by
  simp only [amapGet, encMap, Data.toList_ofList]
  induction l with
  | nil => rfl
  | cons q rest ih =>
    simp only [List.map_cons, List.find?_cons]
    by_cases e : q.1 = s
    · have e1 : ((q.1 : Int) == (s : Int)) = true := by simp [e]
      simp [encPair, e]
    · have e1 : ((q.1 : Int) == (s : Int)) = false := by rw [beq_eq_false_iff_ne]; omega
      have e2 : (q.1 == s) = false := by rw [beq_eq_false_iff_ne]; exact e
      simp only [encPair, e1, e2]
      exact ih

theorem find_reg (ok : L.Ok) {i : Nat} (hi : i < L.k) : ∀ (l : List Nat), (∀ j ∈ l, j < L.k) →
    (l.map fun j => (L.ser j, L.ob j)).find? (fun p => p.1 == L.ser i) =
      if l.contains i then some (L.ser i, L.ob i) else none := by
  intro l
  induction l with
  | nil => intro _; rfl
  | cons j rest ih =>
    intro hlt
    simp only [List.map_cons, List.find?_cons, List.contains_cons]
    by_cases e : L.ser j = L.ser i
    · have := ok.serInj _ _ (hlt j (by simp)) hi e
      subst this; simp
    · have hji : (i == j) = false := by
        rw [beq_eq_false_iff_ne]; intro q; exact e (by rw [q])
      have hse : (L.ser j == L.ser i) = false := by rw [beq_eq_false_iff_ne]; exact e
      simp only [hse, hji, Bool.false_or]
      exact ih fun a ha => hlt a (by simp [ha])

theorem abort_spec (ok : L.Ok) (h : Rel L fresh [] c x out w) {i : Nat} (hi : i < L.k) :
    WP (L.sc.abortObserve (L.ser i)) w (Rel L fresh [] (c.abort i) x out) := by
  simp only [Sctl.abortObserve, Lay.sc]
  refine wp_lockAcq (noconf_of_held_nil h.held _ _) ?_
  have h1 : Rel L fresh [(.cell (2 * L.k + 1), true)] c x out
      { w with held := (.cell (2 * L.k + 1), true) :: w.held } :=
    { h with held := by show _ :: w.held = _; rw [h.held], hlOk := by intro p hp; simp at hp; simp [hp] }
  refine wp_cellRead_g ?_
  obtain ⟨l, hm, hmem⟩ := h1.mapC
  have hlt : ∀ j ∈ l, j < L.k := fun j hj => h.regLt j ((hmem j).1 hj)
  simp only [hm, Option.getD_some]
  rw [amapRemove_encMap, filter_reg ok l hlt hi, amapGet_encMap, find_reg ok hi l hlt]
  refine wp_cellWrite_g ?_
  have hmem' : ∀ j, j ∈ l.filter (· != i) ↔ j ∈ c.reg.filter (· != i) := by
    intro j; simp only [List.mem_filter, hmem j]
  have h2 := h1.setReg (l.filter (· != i)) (c.reg.filter (· != i)) (fun j hj => (List.mem_filter.1 hj).1) hmem'
  have hcl : l.contains i = c.reg.contains i := by rw [Bool.eq_iff_iff]; simp [hmem i]
  rw [hcl]
  apply WP.seq
  cases hr : c.reg.contains i with
  | true =>
    obtain ⟨o, ho, hst⟩ := h.inner i hi (.inr hr)
    simp only [↓reduceIte, Option.map_some, toNat_int]
    refine (unsub_inner_aux ok h2 hi ho hst).conseq fun w3 h3 => ?_
    refine wp_lockRel ?_
    rw [release_head _ _ _ _ h3.held]
    refine WP.done ?_
    simp only [Ctl.abort, hr, ↓reduceIte]
    exact { h3 with held := rfl, hlOk := by intro p hp; cases hp }
  | false =>
    simp only [Bool.false_eq_true, ↓reduceIte, Option.map_none]
    refine WP.done (wp_lockRel ?_)
    rw [release_head _ _ _ _ h2.held]
    refine WP.done ?_
    have e : c.reg.filter (· != i) = c.reg := by
      rw [List.filter_eq_self]; intro a ha
      simp only [bne_iff_ne]; intro q; subst q
      have : c.reg.contains a = true := by simpa using ha
      rw [hr] at this; cases this
    rw [e] at h2
    simp only [Ctl.abort, hr, Bool.false_eq_true, ↓reduceIte]
    exact { h2 with held := rfl, hlOk := by intro p hp; cases hp }

/-! ### `Subject::next / error / complete` on source `i` (subject.rs:37-52) -/

theorem Rel.cells_congr (h : Rel L fresh hl c x out w) (cells' : List Data) (hc : ∀ j : Nat, cells'[j]? = w.cells[j]?) :
    Rel L fresh hl c x out { w with cells := cells' } :=
  { h with
    subjO := by intro i hi; show cells'[_]? = _; rw [hc]; exact h.subjO i hi
    subjS := by intro i hi; show cells'[_]? = _; rw [hc]; exact h.subjS i hi
    mapC := by
      obtain ⟨l, hm, hmem⟩ := h.mapC
      exact ⟨l, by show cells'[_]? = _; rw [hc]; exact hm, hmem⟩
    serC := ⟨by show cells'[_]? = _; rw [hc]; exact h.serC.1, h.serC.2⟩
    xc := by show cells'[_]?.getD _ = _; rw [hc]; exact h.xc }

theorem set_same_get {α} {l : List α} {n : Nat} {v : α} (h : l[n]? = some v) (j : Nat) :
    (l.set n v)[j]? = l[j]? := by
  by_cases e : n = j
  · subst e; rw [set_get_same _ h, h]
  · exact set_get_other _ e

/-- source `i` has no observer in its subject: the call changes nothing -/
theorem src_dead (h : Rel L fresh [] c x out w) {i : Nat} (hi : i < L.k)
    (hd : (c.live.contains i && !fresh i) = false) (ev : Ev) :
    WP (evCall (sjOf i) ev) w (Rel L fresh [] c x out) := by
  have hO := h.subjO i hi
  rw [hd] at hO
  simp only [Bool.false_eq_true, ↓reduceIte] at hO
  have hread : w.cells[2 * i]?.getD .unit = encMap [] := by rw [hO]; rfl
  have hw : Rel L fresh [] c x out { w with cells := w.cells.set (2 * i) .lnil } :=
    h.cells_congr _ (set_same_get hO)
  cases ev with
  | next d =>
    refine wp_cellRead h.held ?_
    show WP (forEach (amapVals (w.cells[2 * i]?.getD .unit)) _) w _
    rw [hread]; exact WP.done h
  | error e =>
    refine wp_cellRead h.held (wp_cellWrite h.held ?_)
    show WP (forEach (amapVals (w.cells[2 * i]?.getD .unit)) _) _ _
    rw [hread]; exact WP.done hw
  | complete =>
    refine wp_cellRead h.held (wp_cellWrite h.held ?_)
    show WP (forEach (amapVals (w.cells[2 * i]?.getD .unit)) _) _ _
    rw [hread]; exact WP.done hw

/-- source `i` is live: its inner observer receives the event — a terminal first takes the callbacks
    (observer.rs:40-52) and the subject has already forgotten its observers — and runs its closure -/
theorem src_live (ok : L.Ok) (h : Rel L fresh [] c x out w) {i : Nat} (hi : i < L.k)
    (hlv : c.live.contains i = true) (hf : fresh i = false) (ev : Ev) {Q : World → Prop}
    (hk : ∀ w1, Rel L fresh [] (if ev.isTerminal then c.kill i else c) x out w1 →
      WP (codeBody ev (L.hn i) (L.he i) (L.hc i)) w1 Q) :
    WP (evCall (sjOf i) ev) w Q := by
  have hO := h.subjO i hi
  rw [hlv, hf] at hO
  simp only [Bool.not_false, Bool.and_self, ↓reduceIte] at hO
  have hread : w.cells[2 * i]?.getD .unit = encMap [(1, L.ob i)] := by rw [hO]; rfl
  obtain ⟨o, ho, hst⟩ := h.inner i hi (.inl hlv)
  simp only [InnerSt, hlv, ↓reduceIte] at hst
  subst hst
  have hkill : Rel L fresh [] (c.kill i) x out
      { w with obs := w.obs.modify (L.ob i) Obs.cleared, cells := w.cells.set (2 * i) .lnil } :=
    h.kill_unsub ok hi ho _ (by simp [InnerSt, Obs.cleared, innerFull, hf]) _
      (fun j hj => set_get_other _ (Ne.symm hj)) (set_get_same _ hO)
  cases ev with
  | next d =>
    refine wp_cellRead h.held ?_
    show WP (forEach (amapVals (w.cells[2 * i]?.getD .unit)) _) w _
    rw [hread, amapVals_encMap]
    simp only [List.map_cons, List.map_nil, forEach, toNat_int]
    apply WP.seq
    refine wp_ev_code (ev := .next d) ho rfl rfl rfl ?_
    exact (hk w h).conseq fun w2 q => WP.done (WP.done q)
  | error e =>
    refine wp_cellRead h.held (wp_cellWrite h.held ?_)
    show WP (forEach (amapVals (w.cells[2 * i]?.getD .unit)) _) _ _
    rw [hread, amapVals_encMap]
    simp only [List.map_cons, List.map_nil, forEach, toNat_int]
    apply WP.seq
    refine wp_ev_code (ev := .error e) (x := innerFull L i (fresh i)) ho rfl rfl rfl ?_
    exact (hk _ hkill).conseq fun w2 q => WP.done (WP.done q)
  | complete =>
    refine wp_cellRead h.held (wp_cellWrite h.held ?_)
    show WP (forEach (amapVals (w.cells[2 * i]?.getD .unit)) _) _ _
    rw [hread, amapVals_encMap]
    simp only [List.map_cons, List.map_nil, forEach, toNat_int]
    apply WP.seq
    refine wp_ev_code (ev := .complete) (x := innerFull L i (fresh i)) ho rfl rfl rfl ?_
    exact (hk _ hkill).conseq fun w2 q => WP.done (WP.done q)

theorem xc_some (h : Rel L fresh hl c x out w) (hx : x.x ≠ .unit) : w.cells[2 * L.k + 2]? = some x.x := by
  have := h.xc
  cases hc : w.cells[2 * L.k + 2]? with
  | none => rw [hc] at this; exact absurd this.symm hx
  | some v => rw [hc] at this; exact congrArg some this

/-- the operator's own cell `2k+2` rewritten -/
theorem Rel.setX (h : Rel L fresh hl c x out w) (hx : x.x ≠ .unit) (x' : Data) :
    Rel L fresh hl c { x with x := x' } out { w with cells := w.cells.set (2 * L.k + 2) x' } :=
  { h with
    subjO := by
      intro i hi; show (w.cells.set _ _)[_]? = _
      rw [set_get_other _ (by omega)]; exact h.subjO i hi
    subjS := by
      intro i hi; show (w.cells.set _ _)[_]? = _
      rw [set_get_other _ (by omega)]; exact h.subjS i hi
    mapC := by
      obtain ⟨l, hm, hmem⟩ := h.mapC
      exact ⟨l, by show (w.cells.set _ _)[_]? = _; rw [set_get_other _ (by omega)]; exact hm, hmem⟩
    serC := ⟨by show (w.cells.set _ _)[_]? = _; rw [set_get_other _ (by omega)]; exact h.serC.1, h.serC.2⟩
    xc := by
      show (w.cells.set _ _)[_]?.getD _ = _
      cases hc : w.cells[2 * L.k + 2]? with
      | none => have := h.xc; rw [hc] at this; exact absurd this.symm hx
      | some v => rw [set_get_same _ hc]; rfl }

end Rx.CRef
