import RxVerif.Theorems.C03RefGSetup
/-
C03-REF (general form), part 5: operators with a fixed set of sources, entity `e` = the inner observer of subject
`e` (skip_until, sample): a call on subject `j` reaches exactly entity `j`, if it is live.
Also: the controller operations only ever shrink `live` (as a sublist).
-/
namespace Rx.GRef
open Rx.Sim Rx.Ref Rx.Comb Rx.CRef

variable {L : GLay} {E : Ent} {hl : List (LockId × Bool)} {c : Ctl} {x : Fr} {out : List Ev} {w : World}

theorem kill_sub (c : Ctl) (e : Nat) : (c.kill e).live.Sublist c.live := List.filter_sublist
theorem fin_sub (c : Ctl) : c.finalize.live.Sublist c.live := List.filter_sublist
theorem sinkNext_sub (c : Ctl) (d : Data) : (c.sinkNext d).1.live.Sublist c.live := by
  unfold Ctl.sinkNext; split
  · exact List.Sublist.refl _
  · exact fin_sub c
theorem sinkError_sub (c : Ctl) (e : Nat) : (c.sinkError e).1.live.Sublist c.live := by
  unfold Ctl.sinkError; split <;> exact fin_sub c
theorem sinkForce_sub (c : Ctl) : c.sinkCompleteForce.1.live.Sublist c.live := by
  unfold Ctl.sinkCompleteForce; split <;> exact fin_sub c
theorem sinkComplete_sub (c : Ctl) (i : Nat) : (c.sinkComplete i).1.live.Sublist c.live := by
  unfold Ctl.sinkComplete; split
  · split
    · exact List.filter_sublist
    · exact List.Sublist.refl _
  · exact fin_sub c
theorem abort_sub (c : Ctl) (i : Nat) : (c.abort i).live.Sublist c.live := by
  unfold Ctl.abort; split
  · exact List.filter_sublist
  · exact List.Sublist.refl _

/-- entity `e` observes subject `e`; live entities are registered there; no duplicates -/
structure Static (E : Ent) (c : Ctl) (n : Nat) : Prop where
  nodup : c.live.Nodup
  sub : ∀ e, e < n → E.sub e = e
  on : ∀ e ∈ c.live, e < n ∧ E.mode e = .on

theorem Static.mono {n : Nat} {c' : Ctl} (h : Static E c n) (hs : c'.live.Sublist c.live) : Static E c' n :=
  ⟨h.nodup.sublist hs, h.sub, fun e he => h.on e (hs.subset he)⟩

theorem Static.inMap_eq {n : Nat} (h : Static E c n) {j : Nat} (hj : j < n) :
    inMap E c j = if c.live.contains j then [j] else [] := by
  have hf : inMap E c j = c.live.filter (· == j) := by
    simp only [inMap]
    apply List.filter_congr
    intro e he
    obtain ⟨h1, h2⟩ := h.on e he
    rw [h.sub e h1, h2]; simp [Mode.isOn]
  rw [hf]
  have hnd := h.nodup
  clear hf h
  generalize c.live = ll at hnd ⊢
  induction ll with
  | nil => rfl
  | cons a l ih =>
    rw [List.nodup_cons] at hnd
    simp only [List.filter_cons, List.contains_cons]
    by_cases q : a = j
    · subst q
      have : l.filter (· == a) = [] := by
        rw [List.filter_eq_nil_iff]; intro b hb; simp only [beq_iff_eq]; intro r; exact hnd.1 (r ▸ hb)
      simp [this]
    · have h1 : (a == j) = false := by rw [beq_eq_false_iff_ne]; exact q
      have h2 : (j == a) = false := by rw [beq_eq_false_iff_ne]; exact fun r => q r.symm
      simp only [h1, h2, Bool.false_or, Bool.false_eq_true, ↓reduceIte]
      exact ih hnd.2

theorem Static.pend {n : Nat} {c' : Ctl} (h : Static E c n) {j : Nat} (hs : c'.live.Sublist c.live)
    (hj : c'.live.contains j = false) : Static (E.pendAll j) c' n := by
  refine ⟨h.nodup.sublist hs, h.sub, fun e he => ?_⟩
  obtain ⟨h1, h2⟩ := h.on e (hs.subset he)
  refine ⟨h1, ?_⟩
  have hne : e ≠ j := by
    intro q; subst q
    have : c'.live.contains e = true := by simpa using he
    rw [hj] at this; cases this
  simp only [Ent.pendAll, h.sub e h1, hne, false_and, ↓reduceIte, h2]

/-- a call on subject `j` in the static setting: entity `j` runs its closure, if it is live -/
theorem static_call (ok : L.Ok) (h : Rel L E [] c x out w) (hs : Static E c L.k) {j : Nat} (hj : j < L.k) (ev : Ev)
    {Q : World → Prop}
    (hdead : c.live.contains j = false → ∀ E1 w1, Rel L E1 [] c x out w1 → Static E1 c L.k → Q w1)
    (hlive : c.live.contains j = true → ∀ E1 w1,
      Rel L E1 [] (if ev.isTerminal then c.kill j else c) x out w1 →
      Static E1 (if ev.isTerminal then c.kill j else c) L.k →
      WP (codeBody ev (L.hn j) (L.he j) (L.hc j)) w1 Q) :
    WP (evCall (sjOf j) ev) w Q := by
  refine subj_call ok h hj ev fun w1 h1 => ?_
  rw [hs.inMap_eq hj]
  cases hlv : c.live.contains j with
  | false =>
    simp only [Bool.false_eq_true, ↓reduceIte, bcast_nil]
    refine WP.done (hdead hlv _ w1 h1 ?_)
    cases ev.isTerminal with
    | false => exact hs
    | true => exact hs.pend (List.Sublist.refl _) hlv
  | true =>
    simp only [↓reduceIte, bcast_cons, bcast_nil]
    apply WP.seq
    have hkj : (c.kill j).live.contains j = false := by
      simp only [Ctl.kill]; rw [contains_filter_ne]; simp
    cases ht : ev.isTerminal with
    | false =>
      simp only [ht, Bool.false_eq_true, ↓reduceIte] at h1 hlive
      refine deliver_live ok h1 hlv ev (by rw [ht]; intro q; cases q) fun w2 h2 => ?_
      simp only [ht, Bool.false_eq_true, ↓reduceIte] at h2
      exact (hlive hlv _ w2 h2 hs).conseq fun w3 q => WP.done (WP.done q)
    | true =>
      simp only [ht, ↓reduceIte] at h1 hlive
      refine deliver_live ok h1 hlv ev ?_ fun w2 h2 => ?_
      · intro _
        obtain ⟨q1, q2⟩ := hs.on j (by simpa using hlv)
        simp [Ent.pendAll, hs.sub j q1, q2]
      · simp only [ht, ↓reduceIte] at h2
        exact (hlive hlv _ w2 h2 (hs.pend (kill_sub c j) hkj)).conseq fun w3 q => WP.done (WP.done q)

/-- the relation only depends on the controller state up to the order of `reg` and of `live` across subjects -/
theorem Rel.perm (h : Rel L E hl c x out w) (c' : Ctl) (ha : c'.alive = c.alive)
    (hr : ∀ e, e ∈ c'.reg ↔ e ∈ c.reg) (hlv : ∀ e, c'.live.contains e = c.live.contains e)
    (hm : ∀ j, j < L.k → inMap E c' j = inMap E c j) : Rel L E hl c' x out w := by
  have hk : ∀ e, known c' e = known c e := by
    intro e; simp only [known, hlv e]; congr 1; rw [Bool.eq_iff_iff]; simp [hr e]
  exact
  { status := h.status, held := h.held, hlOk := h.hlOk
    root := by rw [ha]; exact h.root
    user := h.user
    subLt := fun e he => h.subLt e (by rw [← hk]; exact he)
    ex := fun e he => h.ex e (by rw [← hk]; exact he)
    subjO := by intro j hj; rw [hm j hj]; exact h.subjO j hj
    subjS := h.subjS
    keyLe := fun e he => h.keyLe e (by rw [← hk]; exact he)
    keyInj := fun a b ha hb => h.keyInj a b (by rw [← hk]; exact ha) (by rw [← hk]; exact hb)
    slots := h.slots, slotF := h.slotF
    mapC := by
      obtain ⟨l, hml, hmem⟩ := h.mapC
      exact ⟨l, hml, fun e => (hmem e).trans (hr e).symm⟩
    serC := ⟨h.serC.1, fun e he => h.serC.2 e ((hr e).1 he)⟩
    nObs := h.nObs
    inner := by
      intro e o ho
      have := h.inner e o ho
      unfold InnerSt at *
      rw [hlv e]; exact this
    xc := h.xc, log := h.log }

end Rx.GRef
