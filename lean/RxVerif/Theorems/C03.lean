import RxVerif.Spec.Comb
/-
C03 — combining operators: the history machines of `Kernel/Comb.lean` (the code) against the ReactiveX
characterisations of `Spec/Comb.lean`, for ALL well-formed histories and ALL numbers of sources.
-/
namespace Rx.Comb

/-! ### generic facts -/

@[simp] theorem isTerminal_next (d : Data) : (Ev.next d).isTerminal = false := rfl
@[simp] theorem isTerminal_error (e : Nat) : (Ev.error e).isTerminal = true := rfl
@[simp] theorem isTerminal_complete : Ev.complete.isTerminal = true := rfl
@[simp] theorem isError_next (d : Data) : (Ev.next d).isError = false := rfl
@[simp] theorem isError_error (e : Nat) : (Ev.error e).isError = true := rfl
@[simp] theorem isError_complete : Ev.complete.isError = false := rfl
@[simp] theorem isNext_next (d : Data) : (Ev.next d).isNext = true := rfl
@[simp] theorem isNext_error (e : Nat) : (Ev.error e).isNext = false := rfl
@[simp] theorem isNext_complete : Ev.complete.isNext = false := rfl

theorem runFrom_append {σ : Type} (step : σ → Nat × Ev → σ × List Ev) (s : σ) (H1 H2 : History) :
    runFrom step s (H1 ++ H2) = runFrom step s H1 ++ runFrom step (finalFrom step s H1) H2 := by
  induction H1 generalizing s with
  | nil => simp [runFrom, finalFrom]
  | cons p H1 ih => simp [runFrom, finalFrom, ih]

theorem wf_cons (R : List Nat) (p : Nat × Ev) (H : History) :
    wfFrom R (p :: H) = (R.contains p.1 && wfFrom (if p.2.isTerminal then R.filter (· != p.1) else R) H) := by
  cases p; rfl

/-- a source that has terminated does not occur any more -/
theorem wf_not_mem (R : List Nat) (H : History) (i : Nat) (h : wfFrom R H = true) (hi : i ∉ R) :
    ∀ p ∈ H, p.1 ≠ i := by
  induction H generalizing R with
  | nil => simp
  | cons q H ih =>
    rw [wf_cons] at h
    simp only [Bool.and_eq_true] at h
    intro p hp
    rcases List.mem_cons.mp hp with rfl | hp
    · intro hq; apply hi; simpa [hq] using h.1
    · refine ih _ h.2 ?_ p hp
      split <;> simp_all

theorem wf_nil (H : History) (h : wfFrom [] H = true) : H = [] := by
  cases H with
  | nil => rfl
  | cons p H => rw [wf_cons] at h; simp at h

@[simp] theorem srcEvents_nil (i : Nat) : srcEvents i [] = [] := rfl
theorem srcEvents_cons (i : Nat) (p : Nat × Ev) (H : History) :
    srcEvents i (p :: H) = if p.1 == i then p.2 :: srcEvents i H else srcEvents i H := by
  simp only [srcEvents, List.filter_cons]; split <;> simp

theorem srcEvents_eq_nil (i : Nat) (H : History) (h : ∀ p ∈ H, p.1 ≠ i) : srcEvents i H = [] := by
  induction H with
  | nil => rfl
  | cons p H ih =>
    rw [srcEvents_cons]
    have := h p (by simp)
    simp [this, ih (fun q hq => h q (by simp [hq]))]

@[simp] theorem itemsOf_nil : itemsOf [] = [] := rfl
theorem itemsOf_cons (p : Nat × Ev) (H : History) :
    itemsOf (p :: H) = if p.2.isNext then p.2 :: itemsOf H else itemsOf H := by
  simp only [itemsOf, List.map_cons, List.filter_cons]

@[simp] theorem firstError_nil : firstError [] = none := rfl
theorem firstError_cons (p : Nat × Ev) (H : History) :
    firstError (p :: H) = match p.2 with | .error e => some e | _ => firstError H := by
  obtain ⟨i, ev⟩ := p
  cases ev <;> simp [firstError]

@[simp] theorem beforeError_nil : beforeError [] = [] := rfl
theorem beforeError_cons (p : Nat × Ev) (H : History) :
    beforeError (p :: H) = if p.2.isError then [] else p :: beforeError H := by
  simp only [beforeError, List.takeWhile_cons]; split <;> simp_all

@[simp] theorem completedIn_nil (i : Nat) : completedIn [] i = false := rfl
theorem completedIn_cons (p : Nat × Ev) (H : History) (i : Nat) :
    completedIn (p :: H) i = ((p.1 == i && p.2 == .complete) || completedIn H i) := by
  simp [completedIn]

theorem all_completed_cons (R : List Nat) (i : Nat) (H : History) :
    R.all (completedIn ((i, Ev.complete) :: H)) = (R.filter (· != i)).all (completedIn H) := by
  induction R with
  | nil => rfl
  | cons a R ih =>
    simp only [List.all_cons, List.filter_cons, ih, completedIn_cons]
    by_cases h : i = a
    · subst h; simp
    · have : (a != i) = true := by simp; omega
      have h2 : (i == a) = false := by simp [h]
      simp [this, h2]

theorem terminalOf_cons_next (R : List Nat) (i : Nat) (d : Data) (H : History) :
    terminalOf R ((i, Ev.next d) :: H) = terminalOf R H := by
  simp [terminalOf, firstError_cons, completedIn_cons]

theorem terminalOf_cons_error (R : List Nat) (i e : Nat) (H : History) :
    terminalOf R ((i, Ev.error e) :: H) = [.error e] := by
  simp [terminalOf, firstError_cons]

theorem terminalOf_cons_complete (R : List Nat) (i : Nat) (H : History) :
    terminalOf R ((i, Ev.complete) :: H) = terminalOf (R.filter (· != i)) H := by
  simp only [terminalOf, firstError_cons, all_completed_cons]

/-! ### merge -/

theorem merge_dead (c : Ctl) (H : History) (h : c.alive = false) : runFrom merge.step c H = [] := by
  induction H generalizing c with
  | nil => rfl
  | cons p H ih =>
    obtain ⟨i, ev⟩ := p
    simp only [runFrom, merge.step]
    split
    · cases ev <;> simp [Ctl.sinkNext, Ctl.sinkError, Ctl.sinkComplete, Ctl.kill, h] <;> apply ih <;> simp [Ctl.finalize]
    · simpa using ih c h

theorem merge_from (c : Ctl) (H : History) (ha : c.alive = true) (hr : c.reg = c.live) (hne : c.live ≠ [])
    (hwf : wfFrom c.live H = true) :
    runFrom merge.step c H = itemsOf (beforeError H) ++ terminalOf c.live H := by
  induction H generalizing c with
  | nil =>
    simp [runFrom, terminalOf]
    cases h : c.live with
    | nil => exact absurd h hne
    | cons a l => simp
  | cons p H ih =>
    obtain ⟨i, ev⟩ := p
    rw [wf_cons] at hwf
    simp only [Bool.and_eq_true] at hwf
    obtain ⟨hi, hwf⟩ := hwf
    simp only [runFrom, merge.step, Ctl.isLive, hi, if_true]
    cases ev with
    | next d =>
      simp only [Ctl.sinkNext, ha, if_true]
      rw [ih c ha hr hne (by simpa using hwf)]
      simp [beforeError_cons, itemsOf_cons, Ev.isError, Ev.isNext, terminalOf, firstError_cons, completedIn_cons]
    | error e =>
      simp only [Ctl.sinkError, Ctl.kill, ha, if_true]
      rw [merge_dead _ _ (by simp [Ctl.finalize])]
      simp [beforeError_cons, Ev.isError, terminalOf, firstError_cons]
    | complete =>
      simp only [Ctl.sinkComplete, Ctl.kill, ha, if_true]
      simp only [isTerminal_complete, if_true] at hwf
      rw [terminalOf_cons_complete]
      split
      · rename_i hemp
        rw [merge_dead _ _ (by simp [Ctl.finalize])]
        have hnil : c.live.filter (· != i) = [] := by rw [← hr]; simpa using hemp
        rw [hnil] at hwf ⊢
        rw [wf_nil H hwf]
        simp [beforeError_cons, itemsOf_cons, terminalOf]
      · rename_i hemp
        have hne' : c.live.filter (· != i) ≠ [] := by
          intro h0; apply hemp; rw [hr, h0]; rfl
        simp only [List.nil_append]
        rw [ih ⟨true, c.reg.filter (· != i), c.live.filter (· != i)⟩ rfl (by simp [hr]) hne' hwf]
        simp [beforeError_cons, itemsOf_cons]

/-- merge forwards every item of every source in arrival order; the first error ends the output; it
    completes exactly when the last source completes. -/
theorem merge_spec (k : Nat) (hk : 0 < k) (H : History) (hwf : WellFormed k H) :
    merge.run k H = mergeSpec k H := by
  have := merge_from (Ctl.init k) H rfl rfl (by simp [Ctl.init]; omega) hwf
  simpa [merge.run, mergeSpec, Ctl.init] using this

/-! ### amb -/

theorem amb_dead (s : amb.State) (H : History) (h : s.ctl.alive = false) : runFrom amb.step s H = [] := by
  induction H generalizing s with
  | nil => rfl
  | cons p H ih =>
    obtain ⟨i, ev⟩ := p
    simp only [runFrom, amb.step]
    split
    · split
      · cases ev <;> simp [Ctl.sinkNext, Ctl.sinkError, Ctl.sinkCompleteForce, Ctl.kill, h] <;> apply ih <;>
          simp [Ctl.finalize]
      · simp only [List.nil_append]
        apply ih
        simp only [Ctl.abort, Ctl.kill]
        split <;> split <;> simp [h]
    · simpa using ih s h

theorem mem_filter_ne {l : List Nat} {w i : Nat} (hw : l.contains w = true) (h : w ≠ i) :
    (l.filter (· != i)).contains w = true := by
  simp only [List.contains_iff_mem, List.mem_filter] at hw ⊢
  exact ⟨hw, by simpa using h⟩

theorem amb_won (s : amb.State) (w : Nat) (R : List Nat) (H : History) (ha : s.ctl.alive = true)
    (hwin : s.winner = some w) (hl : s.ctl.live.contains w = true) (hR : R.contains w = true)
    (hwf : wfFrom R H = true) :
    runFrom amb.step s H = srcEvents w H := by
  induction H generalizing s R with
  | nil => rfl
  | cons p H ih =>
    obtain ⟨i, ev⟩ := p
    rw [wf_cons] at hwf
    simp only [Bool.and_eq_true] at hwf
    obtain ⟨hi, hwf⟩ := hwf
    simp only [runFrom, amb.step, Ctl.isLive, amb.isWin, amb.claim, hwin, srcEvents_cons]
    by_cases hiw : i = w
    · subst hiw
      simp only [hl, if_true, beq_self_eq_true]
      cases ev with
      | next d =>
        simp only [Ctl.sinkNext, ha, if_true]
        rw [ih ⟨s.ctl, some i⟩ R ha rfl hl hR (by simpa using hwf)]
        simp
      | error e =>
        simp only [Ctl.sinkError, Ctl.kill, ha, if_true]
        rw [amb_dead _ _ (by simp [Ctl.finalize])]
        rw [srcEvents_eq_nil i H (wf_not_mem _ H i hwf (by simp))]
        simp
      | complete =>
        simp only [Ctl.sinkCompleteForce, Ctl.kill, ha, if_true]
        rw [amb_dead _ _ (by simp [Ctl.finalize])]
        rw [srcEvents_eq_nil i H (wf_not_mem _ H i hwf (by simp))]
        simp
    · have hne : (i == w) = false := by simp [hiw]
      have hwi : w ≠ i := fun h => hiw h.symm
      have hR' : (if ev.isTerminal then R.filter (· != i) else R).contains w = true := by
        split
        · exact mem_filter_ne hR hwi
        · exact hR
      simp only [hne]
      split
      · simp only [Bool.false_eq_true, if_false, List.nil_append]
        refine ih _ _ ?_ rfl ?_ hR' hwf
        · simp only [Ctl.abort, Ctl.kill]; split <;> split <;> simp [ha]
        · simp only [Ctl.abort, Ctl.kill]
          split <;> split <;> first | exact hl | exact mem_filter_ne hl hwi | skip
          all_goals first | exact mem_filter_ne (mem_filter_ne hl hwi) hwi
      · simp only [Bool.false_eq_true, if_false, List.nil_append]
        exact ih s _ ha hwin hl hR' hwf

theorem amb_step_first (c : Ctl) (p : Nat × Ev) (h : c.isLive p.1 = true) :
    amb.step ⟨c, none⟩ p = amb.step ⟨c, some p.1⟩ p := by
  simp [amb.step, amb.isWin, amb.claim, h]

/-- amb mirrors exactly the source that signals first (whatever that signal is), terminal included. -/
theorem amb_spec (k : Nat) (H : History) (hwf : WellFormed k H) : amb.run k H = ambSpec H := by
  cases H with
  | nil => rfl
  | cons p H =>
    have hp : (List.range k).contains p.1 = true := by
      unfold WellFormed at hwf; rw [wf_cons] at hwf; simp only [Bool.and_eq_true] at hwf; exact hwf.1
    have h1 : amb.run k (p :: H) = runFrom amb.step ⟨Ctl.init k, some p.1⟩ (p :: H) := by
      simp only [amb.run, amb.init, runFrom, amb_step_first (Ctl.init k) p hp]
    rw [h1]
    exact amb_won _ p.1 (List.range k) (p :: H) rfl rfl hp hp hwf

/-! ### take_until -/

theorem takeUntil_dead (c : Ctl) (H : History) (h : c.alive = false) : runFrom takeUntil.step c H = [] := by
  induction H generalizing c with
  | nil => rfl
  | cons p H ih =>
    obtain ⟨i, ev⟩ := p
    simp only [runFrom, takeUntil.step]
    split
    · split
      · cases ev <;> simp [Ctl.sinkNext, Ctl.sinkError, Ctl.sinkCompleteForce, Ctl.kill, h] <;> apply ih <;>
          simp [Ctl.finalize]
      · split
        · cases ev <;> simp [Ctl.sinkCompleteForce, Ctl.kill, h] <;> apply ih <;> simp [Ctl.finalize]
        · simpa using ih c h
    · simpa using ih c h

/-- the source's events before the first trigger item -/
def gatePre (H : History) : List Ev := srcEvents 0 (H.takeWhile fun p => !isTrigItem p)

theorem gatePre_cons (p : Nat × Ev) (H : History) :
    gatePre (p :: H) = if isTrigItem p then [] else if p.1 == 0 then p.2 :: gatePre H else gatePre H := by
  simp only [gatePre, List.takeWhile_cons]
  cases isTrigItem p <;> simp [srcEvents_cons]

theorem takeUntilSpec_eq (H : History) :
    takeUntilSpec H =
      if (gatePre H).any Ev.isTerminal then gatePre H
      else if H.any isTrigItem then gatePre H ++ [.complete] else gatePre H := rfl

theorem takeUntilSpec_src_next (d : Data) (H : History) :
    takeUntilSpec ((0, Ev.next d) :: H) = Ev.next d :: takeUntilSpec H := by
  have h : isTrigItem (0, Ev.next d) = false := rfl
  simp only [takeUntilSpec_eq, gatePre_cons, h, List.any_cons, isTerminal_next, Bool.false_or,
    Bool.false_eq_true, if_false, beq_self_eq_true, if_true]
  split
  · rfl
  · split <;> rfl

theorem takeUntilSpec_trig_next (d : Data) (H : History) :
    takeUntilSpec ((1, Ev.next d) :: H) = [Ev.complete] := by
  have h : isTrigItem (1, Ev.next d) = true := rfl
  simp [takeUntilSpec_eq, gatePre_cons, h]

theorem takeUntilSpec_other (i : Nat) (ev : Ev) (H : History) (hi : i ≠ 0) (h : isTrigItem (i, ev) = false) :
    takeUntilSpec ((i, ev) :: H) = takeUntilSpec H := by
  have h0 : (i == 0) = false := by simp [hi]
  simp only [takeUntilSpec_eq, gatePre_cons, h, List.any_cons, Bool.false_or, h0, Bool.false_eq_true, if_false]

theorem takeUntilSpec_src_term (ev : Ev) (H : History) (ht : ev.isTerminal = true) (hH : gatePre H = []) :
    takeUntilSpec ((0, ev) :: H) = [ev] := by
  have h : isTrigItem (0, ev) = false := rfl
  simp [takeUntilSpec_eq, gatePre_cons, h, hH, ht]

theorem gatePre_eq_nil (R : List Nat) (H : History) (hwf : wfFrom R H = true) (h0 : 0 ∉ R) : gatePre H = [] :=
  srcEvents_eq_nil 0 _ fun p hp => wf_not_mem R H 0 hwf h0 p (List.takeWhile_subset _ hp)

theorem takeUntil_from (c : Ctl) (R : List Nat) (H : History) (ha : c.alive = true) (hl : c.live = R)
    (h0 : R.contains 0 = true) (h2 : ∀ j ∈ R, j < 2) (hwf : wfFrom R H = true) :
    runFrom takeUntil.step c H = takeUntilSpec H := by
  induction H generalizing c R with
  | nil => rfl
  | cons p H ih =>
    obtain ⟨i, ev⟩ := p
    rw [wf_cons] at hwf
    simp only [Bool.and_eq_true] at hwf
    obtain ⟨hi, hwf⟩ := hwf
    subst hl
    simp only [runFrom, takeUntil.step, Ctl.isLive, hi, if_true]
    by_cases hi0 : i = 0
    · subst hi0
      simp only [beq_self_eq_true, if_true]
      cases ev with
      | next d =>
        simp only [Ctl.sinkNext, ha, if_true]
        rw [ih c _ ha rfl h0 h2 (by simpa using hwf), takeUntilSpec_src_next]; simp
      | error e =>
        simp only [Ctl.sinkError, Ctl.kill, ha, if_true]
        rw [takeUntil_dead _ _ (by simp [Ctl.finalize])]
        rw [takeUntilSpec_src_term _ _ rfl (gatePre_eq_nil _ H hwf (by simp))]; simp
      | complete =>
        simp only [Ctl.sinkCompleteForce, Ctl.kill, ha, if_true]
        rw [takeUntil_dead _ _ (by simp [Ctl.finalize])]
        rw [takeUntilSpec_src_term _ _ rfl (gatePre_eq_nil _ H hwf (by simp))]; simp
    · have hb : (i == 0) = false := by simp [hi0]
      simp only [hb, Bool.false_eq_true, if_false]
      by_cases hi1 : i = 1
      · subst hi1
        simp only [beq_self_eq_true, if_true]
        cases ev with
        | next d =>
          simp only [Ctl.sinkCompleteForce, ha, if_true]
          rw [takeUntil_dead _ _ (by simp [Ctl.finalize]), takeUntilSpec_trig_next]; simp
        | error e =>
          simp only [List.nil_append]
          rw [ih (c.kill 1) _ ha rfl (mem_filter_ne h0 (by decide))
            (fun j hj => h2 j (List.mem_filter.mp hj).1) (by simpa [Ctl.kill] using hwf)]
          rw [takeUntilSpec_other _ _ _ (by decide) (by simp [isTrigItem])]
        | complete =>
          simp only [List.nil_append]
          rw [ih (c.kill 1) _ ha rfl (mem_filter_ne h0 (by decide))
            (fun j hj => h2 j (List.mem_filter.mp hj).1) (by simpa [Ctl.kill] using hwf)]
          rw [takeUntilSpec_other _ _ _ (by decide) (by simp [isTrigItem])]
      · have hb1 : (i == 1) = false := by simp [hi1]
        have := h2 i (by simpa using hi)
        omega

/-- take_until mirrors the source up to the first ITEM of the trigger and completes there; the trigger's
    own error / completion is ignored (`|_, _| {}`, `|_| {}`). -/
theorem take_until_spec (k : Nat) (H : History) (hwf : WellFormed 2 H) :
    takeUntil.run k H = takeUntilSpec H :=
  takeUntil_from (Ctl.init 2) (List.range 2) H rfl rfl (by decide) (by simp) hwf

/-! ### concat -/

theorem wf_mem (R : List Nat) (H : History) (h : wfFrom R H = true) : ∀ p ∈ H, p.1 ∈ R := by
  induction H generalizing R with
  | nil => simp
  | cons q H ih =>
    rw [wf_cons] at h
    simp only [Bool.and_eq_true] at h
    intro p hp
    rcases List.mem_cons.mp hp with rfl | hp
    · simpa using h.1
    · have := ih _ h.2 p hp
      split at this
      · exact (List.mem_filter.mp this).1
      · exact this

theorem wellFormed_lt (k : Nat) (H : History) (h : WellFormed k H) : ∀ p ∈ H, p.1 < k := by
  intro p hp; simpa using wf_mem _ H h p hp

theorem concat_dead (s : concat.State) (H : History) (h : s.ctl.alive = false) :
    runFrom concat.step s H = [] := by
  induction H generalizing s with
  | nil => rfl
  | cons p H ih =>
    obtain ⟨i, ev⟩ := p
    simp only [runFrom, concat.step]
    split
    · cases ev with
      | next d => simp [Ctl.sinkNext, h]; apply ih; simp [Ctl.finalize]
      | error e => simp [Ctl.sinkError, Ctl.kill, h]; apply ih; simp [Ctl.finalize]
      | complete =>
        simp only
        split
        · simp only [List.nil_append]; apply ih; simp [Ctl.addObserver, Ctl.kill, h]
        · simp [Ctl.sinkCompleteForce, Ctl.kill, h]; apply ih; simp [Ctl.finalize]
    · simpa using ih s h

theorem concatSeen_cons (s : Nat) (p : Nat × Ev) (H : History) :
    concatSeen s (p :: H) =
      if p.1 == s then p :: concatSeen (if p.2 == .complete then s + 1 else s) H else concatSeen s H := rfl

theorem concatSeen_eq_nil (s : Nat) (H : History) (h : ∀ p ∈ H, p.1 < s) : concatSeen s H = [] := by
  induction H with
  | nil => rfl
  | cons p H ih =>
    have hp := h p (by simp)
    have : (p.1 == s) = false := by simp; omega
    rw [concatSeen_cons, this]
    exact ih fun q hq => h q (by simp [hq])

/-- what the spec says from turn `cur` on -/
def concatSpecFrom (k cur : Nat) (H : History) : List Ev :=
  itemsOf (beforeError (concatSeen cur H)) ++
    match firstError (concatSeen cur H) with
    | some e => [.error e]
    | none => if completedIn (concatSeen cur H) (k - 1) then [.complete] else []

theorem concat_from (s : concat.State) (cur : Nat) (H : History) (ha : s.ctl.alive = true)
    (hl : s.ctl.live = [cur]) (hn : s.next = cur + 1) (hc : cur < s.k) (hk : ∀ p ∈ H, p.1 < s.k) :
    runFrom concat.step s H = concatSpecFrom s.k cur H := by
  induction H generalizing s cur with
  | nil => simp [runFrom, concatSpecFrom, concatSeen]
  | cons p H ih =>
    obtain ⟨i, ev⟩ := p
    have hk' : ∀ p ∈ H, p.1 < s.k := fun q hq => hk q (by simp [hq])
    simp only [runFrom, concat.step, Ctl.isLive, hl, concatSpecFrom, concatSeen_cons]
    by_cases hic : i = cur
    · subst hic
      simp only [List.contains_cons, beq_self_eq_true, Bool.true_or, if_true]
      cases ev with
      | next d =>
        simp only [Ctl.sinkNext, ha, if_true]
        rw [ih ⟨s.ctl, s.next, s.k⟩ i ha hl hn hc hk']
        simp [concatSpecFrom, beforeError_cons, itemsOf_cons, firstError_cons, completedIn_cons]
      | error e =>
        simp only [Ctl.sinkError, Ctl.kill, ha, if_true]
        rw [concat_dead _ _ (by simp [Ctl.finalize])]
        simp [beforeError_cons, firstError_cons]
      | complete =>
        simp only [beq_self_eq_true, if_true]
        split
        · rename_i hlt
          simp only [List.nil_append]
          rw [ih ⟨(s.ctl.kill i).addObserver s.next, s.next + 1, s.k⟩ (i + 1) (by simp [Ctl.addObserver, Ctl.kill, ha])
            (by simp [Ctl.addObserver, Ctl.kill, hl, hn]) (by simp [hn]) (by simp only; omega) hk']
          have : (i == s.k - 1) = false := by simp; omega
          simp [concatSpecFrom, beforeError_cons, itemsOf_cons, firstError_cons, completedIn_cons, this]
        · rename_i hlt
          simp only [Ctl.sinkCompleteForce, Ctl.kill, ha, if_true]
          rw [concat_dead _ _ (by simp [Ctl.finalize])]
          rw [concatSeen_eq_nil (i + 1) H (fun q hq => by have := hk' q hq; omega)]
          have : (i == s.k - 1) = true := by simp; omega
          simp [beforeError_cons, itemsOf_cons, firstError_cons, completedIn_cons, this]
    · have h1 : ([cur].contains i) = false := by simp [hic]
      have h2 : (i == cur) = false := by simp [hic]
      simp only [h1, h2, Bool.false_eq_true, if_false, List.nil_append]
      exact ih s cur ha hl hn hc hk'

/-- concat plays the sources strictly one after another: source `i+1` is subscribed when source `i`
    completes (what it emitted before is lost — hot sources do not replay), an error of the current source
    ends everything, the completion of the last source completes the output.
    Holds for every history over sources `< k`, well-formed or not. -/
theorem concat_spec (k : Nat) (hk : 0 < k) (H : History) (hlt : ∀ p ∈ H, p.1 < k) :
    concat.run k H = concatSpec k H :=
  concat_from (concat.init k) 0 H rfl rfl rfl hk hlt

theorem concat_spec_wf (k : Nat) (hk : 0 < k) (H : History) (hwf : WellFormed k H) :
    concat.run k H = concatSpec k H :=
  concat_spec k hk H (wellFormed_lt k H hwf)

/-! ### zip -/

def nonEmptyAll (qs : List (List Data)) : Bool := qs.all fun q => !q.isEmpty
def heads (qs : List (List Data)) : List Data := qs.map fun q => q.headD .unit
def tails (qs : List (List Data)) : List (List Data) := qs.map List.tail

theorem zipRows_of_not (cs : List (List Data)) (h : nonEmptyAll cs = false) : zipRows cs = [] := by
  unfold zipRows
  unfold nonEmptyAll at h
  cases (cs.headD []).length <;> simp [zipRowsAux, h]

theorem zipRows_step (cs : List (List Data)) (hne : cs ≠ []) (h : nonEmptyAll cs = true) :
    zipRows cs = heads cs :: zipRows (tails cs) := by
  cases cs with
  | nil => exact absurd rfl hne
  | cons c cs =>
    unfold nonEmptyAll at h
    cases c with
    | nil => simp at h
    | cons x c =>
      simp only [zipRows, List.headD_cons, List.length_cons, zipRowsAux, h, if_true, heads, tails,
        List.map_cons, List.tail_cons]

/-- the `get()` loop of zip.rs:50-68 after one push into a state where some queue was empty: at most one
    tuple leaves, and afterwards some queue is empty again -/
theorem nonEmpty_tails_modify (qs : List (List Data)) (i : Nat) (d : Data) (h0 : nonEmptyAll qs = false)
    (h1 : nonEmptyAll (qs.modify i (· ++ [d])) = true) :
    nonEmptyAll (tails (qs.modify i (· ++ [d]))) = false := by
  induction qs generalizing i with
  | nil => simp [nonEmptyAll] at h0
  | cons q qs ih =>
    cases i with
    | zero =>
      simp only [List.modify_zero_cons, nonEmptyAll, List.all_cons, Bool.and_eq_true] at h1
      simp only [nonEmptyAll, List.all_cons, h1.2, Bool.and_true] at h0
      have : q = [] := by simpa using h0
      subst this
      simp [nonEmptyAll, tails]
    | succ j =>
      simp only [List.modify_succ_cons, nonEmptyAll, List.all_cons, Bool.and_eq_true] at h1
      simp only [nonEmptyAll, List.all_cons, h1.1, Bool.true_and] at h0
      have := ih j h0 h1.2
      simp only [nonEmptyAll, tails] at this
      simp [nonEmptyAll, tails, List.modify_succ_cons, this]

theorem drain_after_push (qs : List (List Data)) (i : Nat) (d : Data) (f : Nat) (h0 : nonEmptyAll qs = false) :
    zip.drain true (f + 1) (qs.modify i (· ++ [d])) =
      if nonEmptyAll (qs.modify i (· ++ [d])) then
        (tails (qs.modify i (· ++ [d])), [tupleEv (heads (qs.modify i (· ++ [d])))])
      else (qs.modify i (· ++ [d]), []) := by
  by_cases h1 : nonEmptyAll (qs.modify i (· ++ [d])) = true
  · have h2 := nonEmpty_tails_modify qs i d h0 h1
    simp only [h1, if_true]
    unfold nonEmptyAll at h1 h2
    unfold tails at h2
    cases f with
    | zero => simp [zip.drain, h1, tails, heads, tupleEv]
    | succ f => simp [zip.drain, h1, h2, tails, heads, tupleEv]
  · simp only [h1]
    unfold nonEmptyAll at h1
    simp [zip.drain, h1]

/-- queue contents followed by the items still to come -/
def addCols (qs C : List (List Data)) : List (List Data) := List.zipWith (· ++ ·) qs C

theorem addCols_modify (qs C : List (List Data)) (i : Nat) (d : Data) :
    addCols qs (C.modify i (d :: ·)) = addCols (qs.modify i (· ++ [d])) C := by
  induction qs generalizing C i with
  | nil => simp [addCols]
  | cons q qs ih =>
    cases C with
    | nil => simp [addCols]
    | cons c C =>
      cases i with
      | zero => simp [addCols]
      | succ j =>
        have := ih C j
        simp only [addCols] at this
        simp [addCols, this]

theorem addCols_nonEmpty (qs C : List (List Data)) (hlen : qs.length = C.length)
    (h : nonEmptyAll qs = true) :
    nonEmptyAll (addCols qs C) = true ∧ heads (addCols qs C) = heads qs ∧
      tails (addCols qs C) = addCols (tails qs) C := by
  induction qs generalizing C with
  | nil => simp [addCols, nonEmptyAll, heads, tails]
  | cons q qs ih =>
    cases C with
    | nil => simp at hlen
    | cons c C =>
      simp only [nonEmptyAll, List.all_cons, Bool.and_eq_true] at h
      have hq : q ≠ [] := by simpa using h.1
      obtain ⟨x, q', rfl⟩ := List.exists_cons_of_ne_nil hq
      obtain ⟨t1, t2, t3⟩ := ih C (by simpa using hlen) h.2
      simp only [nonEmptyAll, heads, tails, addCols] at t1 t2 t3
      refine ⟨?_, ?_, ?_⟩
      · simp only [nonEmptyAll, addCols, List.zipWith_cons_cons, List.all_cons, t1]; simp
      · simp only [heads, addCols, List.zipWith_cons_cons, List.map_cons, t2]; simp
      · simp only [tails, addCols, List.zipWith_cons_cons, List.map_cons, t3]; simp

theorem srcItems_cons (j : Nat) (p : Nat × Ev) (H : History) :
    srcItems j (p :: H) =
      (if p.1 == j then (match p.2 with | .next d => [d] | _ => []) else []) ++ srcItems j H := by
  obtain ⟨i, ev⟩ := p
  simp only [srcItems, List.filterMap_cons]
  split <;> cases ev <;> simp_all

theorem srcItems_append (i : Nat) (A B : History) : srcItems i (A ++ B) = srcItems i A ++ srcItems i B := by
  simp [srcItems, List.filterMap_append]

theorem srcItems_eq_nil (i : Nat) (H : History) (h : ∀ p ∈ H, p.1 ≠ i) : srcItems i H = [] := by
  induction H with
  | nil => rfl
  | cons p H ih =>
    have hp := h p (by simp)
    have : (p.1 == i) = false := by simp [hp]
    rw [srcItems_cons, this, ih fun q hq => h q (by simp [hq])]
    simp

theorem columns_cons_next (k i : Nat) (d : Data) (H : History) :
    columns k ((i, Ev.next d) :: H) = (columns k H).modify i (d :: ·) := by
  apply List.ext_getElem?
  intro j
  simp only [columns, List.getElem?_modify, List.getElem?_map, srcItems_cons]
  by_cases hj : j < k
  · simp only [List.getElem?_range hj, Option.map_some]
    by_cases hij : i = j
    · subst hij; simp
    · have : (i == j) = false := by simp [hij]
      simp [this, hij]
  · simp [List.getElem?_eq_none (l := List.range k) (by simpa using hj)]

theorem columns_cons_other (k i : Nat) (ev : Ev) (H : History) (h : ev.isNext = false) :
    columns k ((i, ev) :: H) = columns k H := by
  simp only [columns, srcItems_cons]
  cases ev <;> simp_all

theorem addCols_columns_nil (qs : List (List Data)) (k : Nat) (h : qs.length = k) :
    addCols qs (columns k []) = qs := by
  apply List.ext_getElem?
  intro j
  simp only [addCols, columns, srcItems, List.filterMap_nil, List.getElem?_zipWith, List.getElem?_map]
  by_cases hj : j < k
  · have : j < qs.length := by omega
    simp [List.getElem?_range hj, List.getElem?_eq_getElem this]
  · have : qs.length ≤ j := by omega
    simp [List.getElem?_eq_none this]

theorem zip_dead (s : zip.State) (H : History) (h : s.ctl.alive = false) : runFrom zip.step s H = [] := by
  induction H generalizing s with
  | nil => rfl
  | cons p H ih =>
    obtain ⟨i, ev⟩ := p
    simp only [runFrom, zip.step]
    split
    · cases ev with
      | next d =>
        have hd : ∀ f qs, (zip.drain false f qs).2 = [] := by
          intro f qs; cases f <;> simp only [zip.drain] <;> split <;> simp
        simp only [h, hd, List.nil_append]
        apply ih; exact h
      | error e => simp [Ctl.sinkError, Ctl.kill, h]; apply ih; simp [Ctl.finalize]
      | complete => simp [Ctl.sinkComplete, Ctl.kill, h]; apply ih; simp [Ctl.finalize]
    · simpa using ih s h

theorem zip_from (k : Nat) (hk : 0 < k) (s : zip.State) (H : History) (ha : s.ctl.alive = true)
    (hr : s.ctl.reg = s.ctl.live) (hne : s.ctl.live ≠ []) (hwf : wfFrom s.ctl.live H = true)
    (hlen : s.queues.length = k) (hE : nonEmptyAll s.queues = false) :
    runFrom zip.step s H =
      (zipRows (addCols s.queues (columns k (beforeError H)))).map tupleEv ++ terminalOf s.ctl.live H := by
  induction H generalizing s with
  | nil =>
    have : terminalOf s.ctl.live [] = [] := by
      cases h : s.ctl.live with
      | nil => exact absurd h hne
      | cons a l => simp [terminalOf]
    simp [runFrom, this, addCols_columns_nil _ _ hlen, zipRows_of_not _ hE]
  | cons p H ih =>
    obtain ⟨i, ev⟩ := p
    obtain ⟨c, qs⟩ := s
    simp only at ha hr hne hwf hlen hE
    rw [wf_cons] at hwf
    simp only [Bool.and_eq_true] at hwf
    obtain ⟨hi, hwf⟩ := hwf
    simp only [runFrom, zip.step, Ctl.isLive, hi, if_true]
    cases ev with
    | next d =>
      simp only [ha, drain_after_push qs i d _ hE, beforeError_cons, isError_next, Bool.false_eq_true,
        if_false, columns_cons_next, addCols_modify, terminalOf_cons_next]
      simp only [isTerminal_next, Bool.false_eq_true, if_false] at hwf
      by_cases h1 : nonEmptyAll (qs.modify i (· ++ [d])) = true
      · simp only [h1, if_true]
        have hl2 : (qs.modify i (· ++ [d])).length = (columns k (beforeError H)).length := by
          simp [columns, hlen]
        obtain ⟨a1, a2, a3⟩ := addCols_nonEmpty _ (columns k (beforeError H)) hl2 h1
        have hne2 : addCols (qs.modify i (· ++ [d])) (columns k (beforeError H)) ≠ [] := by
          intro h0
          have := congrArg List.length h0
          simp [addCols, columns, hlen] at this
          omega
        rw [zipRows_step _ hne2 a1, a2, a3]
        rw [ih ⟨c, tails (qs.modify i (· ++ [d]))⟩ ha hr hne hwf (by simp [tails, hlen])
          (nonEmpty_tails_modify qs i d hE h1)]
        simp
      · simp only [h1, Bool.false_eq_true, if_false, List.nil_append]
        exact ih ⟨c, qs.modify i (· ++ [d])⟩ ha hr hne hwf (by simp [hlen]) (by simpa using h1)
    | error e =>
      simp only [Ctl.sinkError, Ctl.kill, ha, if_true]
      rw [zip_dead _ _ (by simp [Ctl.finalize])]
      simp [beforeError_cons, terminalOf_cons_error, addCols_columns_nil _ _ hlen, zipRows_of_not _ hE]
    | complete =>
      simp only [Ctl.sinkComplete, Ctl.kill, ha, if_true]
      simp only [isTerminal_complete, if_true] at hwf
      rw [terminalOf_cons_complete, beforeError_cons]
      simp only [isError_complete, Bool.false_eq_true, if_false]
      rw [columns_cons_other _ _ _ _ rfl]
      split
      · rename_i hemp
        rw [zip_dead _ _ (by simp [Ctl.finalize])]
        have hnil : c.live.filter (· != i) = [] := by rw [← hr]; simpa using hemp
        rw [hnil] at hwf ⊢
        rw [wf_nil H hwf]
        simp [terminalOf, addCols_columns_nil _ _ hlen, zipRows_of_not _ hE]
      · rename_i hemp
        have hne' : c.live.filter (· != i) ≠ [] := by
          intro h0; apply hemp; rw [hr, h0]; rfl
        simp only [List.nil_append]
        exact ih ⟨⟨true, c.reg.filter (· != i), c.live.filter (· != i)⟩, qs⟩ rfl (by simp [hr]) hne' hwf hlen hE

/-- zip: the n-th output is the tuple of the n-th items of all sources (see `zipRows_getElem?`), emitted
    when the last of them arrives (the statement holds for every prefix of a history, and `run` only ever
    appends: `runFrom_append`); an error ends the output at once; COMPLETION: only after every source has
    completed — not, as in ReactiveX, as soon as one source completes with all its items paired
    (`zip_completion_late`). -/
theorem zip_spec (k : Nat) (hk : 0 < k) (H : History) (hwf : WellFormed k H) :
    zip.run k H = zipSpec k H := by
  have hE : nonEmptyAll (List.replicate k ([] : List Data)) = false := by
    cases k with
    | zero => omega
    | succ n => simp [nonEmptyAll, List.replicate_succ]
  have := zip_from k hk (zip.init k) H rfl rfl (by simp [zip.init, Ctl.init]; omega) hwf
    (by simp [zip.init]) hE
  rw [zip.run, this, zipSpec]
  have h2 : ∀ C : List (List Data), C.length = k → addCols (List.replicate k []) C = C := by
    intro C hC
    apply List.ext_getElem?
    intro j
    simp only [addCols, List.getElem?_zipWith, List.getElem?_replicate]
    by_cases hj : j < k
    · simp [hj, List.getElem?_eq_getElem (show j < C.length by omega)]
    · simp [hj, List.getElem?_eq_none (show C.length ≤ j by omega)]
  simp [zip.init, Ctl.init, h2 _ (show (columns k (beforeError H)).length = k by simp [columns])]

theorem zipRows_getElem? (cs : List (List Data)) (hne : cs ≠ []) (n : Nat) :
    (zipRows cs)[n]? =
      if cs.all (fun c => n < c.length) then some (cs.map fun c => c.getD n .unit) else none := by
  induction n generalizing cs with
  | zero =>
    by_cases h : nonEmptyAll cs = true
    · rw [zipRows_step cs hne h]
      have : cs.all (fun c => 0 < c.length) = true := by
        simp only [nonEmptyAll, List.all_eq_true] at h ⊢
        intro c hc; have := h c hc; cases c <;> simp_all
      simp only [this, if_true, List.getElem?_cons_zero, heads]
      congr 1
      apply List.map_congr_left
      intro c hc; cases c <;> simp
    · have h' : nonEmptyAll cs = false := by simpa using h
      rw [zipRows_of_not cs h']
      have : cs.all (fun c => 0 < c.length) = false := by
        simp only [nonEmptyAll, List.all_eq_false] at h' ⊢
        obtain ⟨c, hc, h2⟩ := h'
        exact ⟨c, hc, by cases c <;> simp_all⟩
      simp [this]
  | succ n ih =>
    by_cases h : nonEmptyAll cs = true
    · rw [zipRows_step cs hne h, List.getElem?_cons_succ, ih (tails cs) (by simpa [tails] using hne)]
      have h1 : (tails cs).all (fun c => n < c.length) = cs.all (fun c => n + 1 < c.length) := by
        simp only [tails, List.all_map]
        apply List.all_congr rfl
        intro c
        simp only [Function.comp]
        rw [Bool.eq_iff_iff]
        cases c with
        | nil => simp
        | cons x c => simp; exact decide_eq_true_iff
      have h2 : ((tails cs).map fun c => c.getD n .unit) = cs.map fun c => c.getD (n + 1) .unit := by
        simp only [tails, List.map_map]
        apply List.map_congr_left
        intro c hc
        cases c <;> simp
      rw [h1, h2]
    · have h' : nonEmptyAll cs = false := by simpa using h
      rw [zipRows_of_not cs h']
      have : cs.all (fun c => n + 1 < c.length) = false := by
        simp only [nonEmptyAll, List.all_eq_false] at h' ⊢
        obtain ⟨c, hc, h2⟩ := h'
        exact ⟨c, hc, by cases c <;> simp_all⟩
      simp [this]

/-- the n-th output of zip is the tuple of the n-th items of every source (items before the first error) -/
theorem zip_items (k : Nat) (hk : 0 < k) (H : History) (hwf : WellFormed k H) (n : Nat)
    (hn : ∀ i, i < k → n < (srcItems i (beforeError H)).length) :
    (zip.run k H)[n]? =
      some (tupleEv ((List.range k).map fun i => (srcItems i (beforeError H)).getD n .unit)) := by
  rw [zip_spec k hk H hwf, zipSpec]
  have hne : columns k (beforeError H) ≠ [] := by
    intro h0; have := congrArg List.length h0; simp [columns] at this; omega
  have hrow := zipRows_getElem? (columns k (beforeError H)) hne n
  have hall : (columns k (beforeError H)).all (fun c => n < c.length) = true := by
    simp only [columns, List.all_map, List.all_eq_true, List.mem_range]
    intro i hi; simpa using hn i hi
  rw [hall] at hrow
  simp only [if_true] at hrow
  have hlt : n < ((zipRows (columns k (beforeError H))).map tupleEv).length := by
    have := (List.getElem?_eq_some_iff.mp hrow).1
    simpa using this
  rw [List.getElem?_append_left hlt, List.getElem?_map, hrow]
  simp [columns, List.map_map, Function.comp_def]

/-- ... and there is no n-th tuple as long as some source has not delivered its n-th item -/
theorem zip_items_none (k : Nat) (hk : 0 < k) (H : History) (hwf : WellFormed k H) (n i : Nat) (hi : i < k)
    (hn : (srcItems i (beforeError H)).length ≤ n) (d : Data) :
    (zip.run k H)[n]? ≠ some (.next d) := by
  rw [zip_spec k hk H hwf, zipSpec]
  have hne : columns k (beforeError H) ≠ [] := by
    intro h0; have := congrArg List.length h0; simp [columns] at this; omega
  have hrow := zipRows_getElem? (columns k (beforeError H)) hne n
  have hall : (columns k (beforeError H)).all (fun c => n < c.length) = false := by
    simp only [columns, List.all_map, List.all_eq_false, List.mem_range]
    exact ⟨i, hi, by simpa using hn⟩
  rw [hall] at hrow
  simp only [Bool.false_eq_true, if_false] at hrow
  have hge : ((zipRows (columns k (beforeError H))).map tupleEv).length ≤ n := by
    simpa using List.getElem?_eq_none_iff.mp hrow
  rw [List.getElem?_append_right hge]
  intro h
  have hmem := List.mem_of_getElem? h
  simp only [terminalOf] at hmem
  split at hmem
  · simp at hmem
  · split at hmem <;> simp at hmem

/-- ReactiveX zip would complete here (source 0 has completed and its only item is paired); the code does
    not: it waits for every source to complete -/
theorem zip_completion_late :
    ∃ H, WellFormed 2 H ∧ zipRxCompletes 2 H = true ∧ Ev.complete ∉ zip.run 2 H :=
  ⟨[(0, .next (.int 1)), (1, .next (.int 10)), (0, .complete)], by decide, by decide, by decide⟩

/-! ### skip_until -/

theorem skipUntil_dead (s : skipUntil.State) (H : History) (h : s.ctl.alive = false) :
    runFrom skipUntil.step s H = [] := by
  induction H generalizing s with
  | nil => rfl
  | cons p H ih =>
    obtain ⟨i, ev⟩ := p
    simp only [runFrom, skipUntil.step]
    split
    · split
      · cases ev with
        | next d =>
          simp only [Ctl.sinkNext, h]
          cases s.enable <;> simp <;> apply ih <;> simp [Ctl.finalize, h]
        | error e => simp [Ctl.sinkError, Ctl.kill, h]; apply ih; simp [Ctl.finalize]
        | complete => simp [Ctl.sinkCompleteForce, Ctl.kill, h]; apply ih; simp [Ctl.finalize]
      · split
        · cases ev <;> simp only [List.nil_append] <;> apply ih
          · simp only [Ctl.abort]; split <;> simp [h]
          · simp [Ctl.kill, h]
          · simp [Ctl.kill, h]
        · simpa using ih s h
    · simpa using ih s h

/-- once enabled, the source is mirrored -/
theorem skipUntil_enabled (s : skipUntil.State) (R : List Nat) (H : History) (ha : s.ctl.alive = true)
    (he : s.enable = true) (hl : s.ctl.live.contains 0 = true) (hR : R.contains 0 = true)
    (hwf : wfFrom R H = true) :
    runFrom skipUntil.step s H = srcEvents 0 H := by
  induction H generalizing s R with
  | nil => rfl
  | cons p H ih =>
    obtain ⟨i, ev⟩ := p
    rw [wf_cons] at hwf
    simp only [Bool.and_eq_true] at hwf
    obtain ⟨hi, hwf⟩ := hwf
    simp only [runFrom, skipUntil.step, Ctl.isLive, srcEvents_cons]
    by_cases hi0 : i = 0
    · subst hi0
      simp only [hl, if_true, beq_self_eq_true]
      cases ev with
      | next d =>
        simp only [Ctl.sinkNext, ha, he, if_true]
        rw [ih ⟨s.ctl, true⟩ R ha rfl hl hR (by simpa using hwf)]; simp
      | error e =>
        simp only [Ctl.sinkError, Ctl.kill, ha, if_true]
        rw [skipUntil_dead _ _ (by simp [Ctl.finalize])]
        rw [srcEvents_eq_nil 0 H (wf_not_mem _ H 0 hwf (by simp))]; simp
      | complete =>
        simp only [Ctl.sinkCompleteForce, Ctl.kill, ha, if_true]
        rw [skipUntil_dead _ _ (by simp [Ctl.finalize])]
        rw [srcEvents_eq_nil 0 H (wf_not_mem _ H 0 hwf (by simp))]; simp
    · have hb : (i == 0) = false := by simp [hi0]
      have h0i : (0 : Nat) ≠ i := fun h => hi0 h.symm
      have hR' : (if ev.isTerminal then R.filter (· != i) else R).contains 0 = true := by
        split
        · exact mem_filter_ne hR h0i
        · exact hR
      simp only [hb, Bool.false_eq_true, if_false]
      split
      · split
        · rename_i h1
          have h1' : i = 1 := by simpa using h1
          subst h1'
          cases ev with
          | next d =>
            simp only [List.nil_append]
            refine ih ⟨s.ctl.abort 1, true⟩ _ ?_ rfl ?_ hR' hwf
            · simp only [Ctl.abort]; split <;> simp [ha]
            · simp only [Ctl.abort]; split
              · exact mem_filter_ne hl (by decide)
              · exact hl
          | error e =>
            simp only [List.nil_append]
            exact ih ⟨s.ctl.kill 1, s.enable⟩ _ (by simp [Ctl.kill, ha]) he
              (by simpa [Ctl.kill] using mem_filter_ne hl (show (0:Nat) ≠ 1 by decide)) hR' hwf
          | complete =>
            simp only [List.nil_append]
            exact ih ⟨s.ctl.kill 1, s.enable⟩ _ (by simp [Ctl.kill, ha]) he
              (by simpa [Ctl.kill] using mem_filter_ne hl (show (0:Nat) ≠ 1 by decide)) hR' hwf
        · simp only [List.nil_append]
          exact ih s _ ha he hl hR' hwf
      · simp only [List.nil_append]
        exact ih s _ ha he hl hR' hwf

/-- the rest of the history from the first trigger item on -/
def gatePost (H : History) : History := H.dropWhile fun p => !isTrigItem p

theorem gatePost_cons (p : Nat × Ev) (H : History) :
    gatePost (p :: H) = if isTrigItem p then p :: H else gatePost H := by
  simp only [gatePost, List.dropWhile_cons]
  cases isTrigItem p <;> simp

theorem skipUntilSpec_eq (H : History) :
    skipUntilSpec H = (gatePre H).filter Ev.isTerminal ++ srcEvents 0 (gatePost H) := rfl

theorem skipUntil_from (s : skipUntil.State) (R : List Nat) (H : History) (ha : s.ctl.alive = true)
    (he : s.enable = false) (hl : s.ctl.live = R) (h0 : R.contains 0 = true) (h2 : ∀ j ∈ R, j < 2)
    (hwf : wfFrom R H = true) :
    runFrom skipUntil.step s H = skipUntilSpec H := by
  induction H generalizing s R with
  | nil => rfl
  | cons p H ih =>
    obtain ⟨i, ev⟩ := p
    obtain ⟨c, en⟩ := s
    simp only at ha he hl
    subst he hl
    have hwf0 := hwf
    rw [wf_cons] at hwf
    simp only [Bool.and_eq_true] at hwf
    obtain ⟨hi, hwf⟩ := hwf
    simp only [runFrom, skipUntil.step, Ctl.isLive, hi, if_true, skipUntilSpec_eq, gatePre_cons, gatePost_cons]
    by_cases hi0 : i = 0
    · subst hi0
      have ht : isTrigItem (0, ev) = false := rfl
      simp only [beq_self_eq_true, if_true, ht, Bool.false_eq_true, if_false]
      cases ev with
      | next d =>
        simp only [List.nil_append]
        rw [ih ⟨c, false⟩ _ ha rfl rfl h0 h2 (by simpa using hwf), skipUntilSpec_eq]
        simp
      | error e =>
        simp only [Ctl.sinkError, Ctl.kill, ha, if_true]
        rw [skipUntil_dead _ _ (by simp [Ctl.finalize])]
        have hno := wf_not_mem _ H 0 hwf (by simp)
        rw [gatePre_eq_nil _ H hwf (by simp),
          srcEvents_eq_nil 0 (gatePost H) (fun p hp => hno p (List.dropWhile_subset _ hp))]
        simp [List.filter_cons]
      | complete =>
        simp only [Ctl.sinkCompleteForce, Ctl.kill, ha, if_true]
        rw [skipUntil_dead _ _ (by simp [Ctl.finalize])]
        have hno := wf_not_mem _ H 0 hwf (by simp)
        rw [gatePre_eq_nil _ H hwf (by simp),
          srcEvents_eq_nil 0 (gatePost H) (fun p hp => hno p (List.dropWhile_subset _ hp))]
        simp [List.filter_cons]
    · have hb : (i == 0) = false := by simp [hi0]
      simp only [hb, Bool.false_eq_true, if_false]
      have hi1 : i = 1 := by
        have := h2 i (by simpa using hi); omega
      subst hi1
      simp only [beq_self_eq_true, if_true]
      cases ev with
      | next d =>
        have ht : isTrigItem (1, Ev.next d) = true := rfl
        simp only [ht, if_true, List.nil_append, List.filter_nil]
        have := skipUntil_enabled ⟨c.abort 1, true⟩ c.live H
          (by simp only [Ctl.abort]; split <;> simp [ha]) rfl
          (by simp only [Ctl.abort]; split
              · exact mem_filter_ne h0 (by decide)
              · exact h0) h0 (by simpa using hwf)
        rw [this, srcEvents_cons]
        simp
      | error e =>
        have ht : isTrigItem (1, Ev.error e) = false := rfl
        simp only [ht, Bool.false_eq_true, if_false, List.nil_append]
        exact ih ⟨c.kill 1, false⟩ _ (by simp [Ctl.kill, ha]) rfl rfl (mem_filter_ne h0 (by decide))
          (fun j hj => h2 j (List.mem_filter.mp hj).1) (by simpa [Ctl.kill] using hwf)
      | complete =>
        have ht : isTrigItem (1, Ev.complete) = false := rfl
        simp only [ht, Bool.false_eq_true, if_false, List.nil_append]
        exact ih ⟨c.kill 1, false⟩ _ (by simp [Ctl.kill, ha]) rfl rfl (mem_filter_ne h0 (by decide))
          (fun j hj => h2 j (List.mem_filter.mp hj).1) (by simpa [Ctl.kill] using hwf)

/-- skip_until drops the source's items until the first ITEM of the trigger and mirrors the source from
    then on; a terminal of the source is mirrored in any case; the trigger's terminal is ignored. -/
theorem skip_until_spec (k : Nat) (H : History) (hwf : WellFormed 2 H) :
    skipUntil.run k H = skipUntilSpec H :=
  skipUntil_from skipUntil.init (List.range 2) H rfl rfl rfl (by decide) (by simp) hwf

/-! ### sample -/

theorem sample_dead (s : sample.State) (H : History) (h : s.ctl.alive = false) :
    runFrom sample.step s H = [] := by
  induction H generalizing s with
  | nil => rfl
  | cons p H ih =>
    obtain ⟨i, ev⟩ := p
    simp only [runFrom, sample.step]
    split
    · split
      · cases ev with
        | next d => simp only [List.nil_append]; apply ih; exact h
        | error e => simp [Ctl.sinkError, Ctl.kill, h]; apply ih; simp [Ctl.finalize]
        | complete => simp [Ctl.sinkCompleteForce, Ctl.kill, h]; apply ih; simp [Ctl.finalize]
      · split
        · cases ev with
          | next d =>
            simp only
            split
            · simp [Ctl.sinkNext, h]; apply ih; simp [Ctl.finalize]
            · simp only [List.nil_append]; exact ih s h
          | error e => simp only [List.nil_append]; apply ih; simp [Ctl.kill, h]
          | complete => simp only [List.nil_append]; apply ih; simp [Ctl.kill, h]
        · simpa using ih s h
    · simpa using ih s h

def notSrcTerm (p : Nat × Ev) : Bool := !(p.1 == 0 && p.2.isTerminal)

def lastNext (c : List Data) : Option Ev := c.getLast?.map Ev.next

theorem sampleSpec_eq (H : History) :
    sampleSpec H =
      (sampleChunks [] (H.takeWhile notSrcTerm)).filterMap lastNext ++ (srcEvents 0 H).filter Ev.isTerminal :=
  rfl

theorem sampleChunks_trig (cur : List Data) (d : Data) (T : History) :
    sampleChunks cur ((1, Ev.next d) :: T) = cur :: sampleChunks [] T := rfl

theorem sampleChunks_trig_term (cur : List Data) (ev : Ev) (T : History) (h : ev.isNext = false) :
    sampleChunks cur ((1, ev) :: T) = sampleChunks cur T := by
  cases ev <;> first | rfl | simp at h

theorem sampleChunks_src_next (cur : List Data) (d : Data) (T : History) :
    sampleChunks cur ((0, Ev.next d) :: T) = sampleChunks (cur ++ [d]) T := rfl

theorem sample_from (s : sample.State) (cur : List Data) (R : List Nat) (H : History)
    (ha : s.ctl.alive = true) (hv : s.value = cur.getLast?) (hl : s.ctl.live = R)
    (h0 : R.contains 0 = true) (h2 : ∀ j ∈ R, j < 2) (hwf : wfFrom R H = true) :
    runFrom sample.step s H =
      (sampleChunks cur (H.takeWhile notSrcTerm)).filterMap lastNext ++
        (srcEvents 0 H).filter Ev.isTerminal := by
  induction H generalizing s cur R with
  | nil => rfl
  | cons p H ih =>
    obtain ⟨i, ev⟩ := p
    obtain ⟨c, v⟩ := s
    simp only at ha hv hl
    subst hl
    rw [wf_cons] at hwf
    simp only [Bool.and_eq_true] at hwf
    obtain ⟨hi, hwf⟩ := hwf
    simp only [runFrom, sample.step, Ctl.isLive, hi, if_true, List.takeWhile_cons, srcEvents_cons]
    by_cases hi0 : i = 0
    · subst hi0
      simp only [beq_self_eq_true, if_true]
      cases ev with
      | next d =>
        have hn : notSrcTerm (0, Ev.next d) = true := rfl
        simp only [hn, if_true, List.nil_append]
        rw [ih ⟨c, some d⟩ (cur ++ [d]) _ ha (by simp) rfl h0 h2 (by simpa using hwf)]
        simp [sampleChunks_src_next]
      | error e =>
        have hn : notSrcTerm (0, Ev.error e) = false := rfl
        simp only [Ctl.sinkError, Ctl.kill, ha, if_true, hn]
        rw [sample_dead _ _ (by simp [Ctl.finalize])]
        rw [srcEvents_eq_nil 0 H (wf_not_mem _ H 0 hwf (by simp))]
        simp [sampleChunks, List.filter_cons]
      | complete =>
        have hn : notSrcTerm (0, Ev.complete) = false := rfl
        simp only [Ctl.sinkCompleteForce, Ctl.kill, ha, if_true, hn]
        rw [sample_dead _ _ (by simp [Ctl.finalize])]
        rw [srcEvents_eq_nil 0 H (wf_not_mem _ H 0 hwf (by simp))]
        simp [sampleChunks, List.filter_cons]
    · have hb : (i == 0) = false := by simp [hi0]
      have hi1 : i = 1 := by
        have := h2 i (by simpa using hi); omega
      subst hi1
      have hn : notSrcTerm (1, ev) = true := rfl
      simp only [hb, Bool.false_eq_true, if_false, beq_self_eq_true, if_true, hn]
      cases ev with
      | next d =>
        simp only [sampleChunks_trig, List.filterMap_cons]
        simp only [isTerminal_next, Bool.false_eq_true, if_false] at hwf
        cases hc : cur.getLast? with
        | none =>
          rw [hc] at hv; subst hv
          simp only [lastNext, hc, Option.map_none, List.nil_append]
          exact ih ⟨c, none⟩ [] _ ha rfl rfl h0 h2 hwf
        | some x =>
          rw [hc] at hv; subst hv
          simp only [lastNext, hc, Option.map_some, Ctl.sinkNext, ha, if_true]
          rw [ih ⟨c, none⟩ [] _ ha rfl rfl h0 h2 hwf]
          simp
      | error e =>
        simp only [sampleChunks_trig_term _ _ _ (isNext_error e), List.nil_append]
        exact ih ⟨c.kill 1, v⟩ cur _ (by simp [Ctl.kill, ha]) hv rfl (mem_filter_ne h0 (by decide))
          (fun j hj => h2 j (List.mem_filter.mp hj).1) (by simpa [Ctl.kill] using hwf)
      | complete =>
        simp only [sampleChunks_trig_term _ _ _ isNext_complete, List.nil_append]
        exact ih ⟨c.kill 1, v⟩ cur _ (by simp [Ctl.kill, ha]) hv rfl (mem_filter_ne h0 (by decide))
          (fun j hj => h2 j (List.mem_filter.mp hj).1) (by simpa [Ctl.kill] using hwf)

/-- sample: at every ITEM of the trigger, the latest source item since the previous trigger item (nothing
    if there is none); the source's terminal is mirrored at once; the trigger's terminal is ignored. -/
theorem sample_spec (k : Nat) (H : History) (hwf : WellFormed 2 H) :
    sample.run k H = sampleSpec H :=
  sample_from sample.init [] (List.range 2) H rfl rfl rfl (by decide) (by simp) hwf

/-! ### utils::ready_set_go -/
open readySetGo

/-- a stream up to and including its first terminal -/
def cutAtTerminal : List Ev → List Ev
  | [] => []
  | ev :: l => if ev.isTerminal then [ev] else ev :: cutAtTerminal l

theorem hot_act_stopped (h : Hot) (action : List Ev) (hs : h.stopped = true) : (h.act action).got = h.got := by
  induction action generalizing h with
  | nil => rfl
  | cons ev l ih =>
    have : h.emit ev = h := by simp [Hot.emit, hs]
    simp only [Hot.act, List.foldl_cons, this]
    exact ih h hs

theorem hot_act_unregistered (h : Hot) (action : List Ev) (hr : h.registered = false) : h.act action = h := by
  induction action generalizing h with
  | nil => rfl
  | cons ev l ih =>
    have : h.emit ev = h := by simp [Hot.emit, hr]
    simp only [Hot.act, List.foldl_cons, this]
    exact ih h hr

theorem hot_act_live (h : Hot) (action : List Ev) (hr : h.registered = true) (hs : h.stopped = false) :
    (h.act action).got = h.got ++ cutAtTerminal action := by
  induction action generalizing h with
  | nil => simp [Hot.act, cutAtTerminal]
  | cons ev l ih =>
    simp only [Hot.act, List.foldl_cons, cutAtTerminal]
    have he : h.emit ev = { h with got := h.got ++ [ev], stopped := ev.isTerminal } := by
      simp [Hot.emit, hr, hs]
    rw [he]
    cases ht : ev.isTerminal with
    | true =>
      have := hot_act_stopped { h with got := h.got ++ [ev], stopped := true } l rfl
      simp only [Hot.act] at this
      simp [this]
    | false =>
      have := ih { h with got := h.got ++ [ev], stopped := false } hr rfl
      simp only [Hot.act] at this
      simp [this]

/-- as written (subscribe, then run the action): the observer receives the action's emissions up to and
    including the first terminal -/
theorem ready_set_go_run (action : List Ev) : readySetGo.run action = cutAtTerminal action := by
  simpa [readySetGo.run, Hot.subscribe] using hot_act_live (Hot.subscribe {}) action rfl rfl

/-- nothing the action emits is missed: every emission that is not preceded by a terminal reaches the
    observer, at its own position -/
theorem ready_set_go_no_loss (action pre post : List Ev) (ev : Ev) (h : action = pre ++ ev :: post)
    (hpre : ∀ x ∈ pre, x.isTerminal = false) :
    (readySetGo.run action)[pre.length]? = some ev := by
  subst h
  rw [ready_set_go_run]
  induction pre with
  | nil => simp only [List.nil_append, cutAtTerminal]; split <;> simp
  | cons x pre ih =>
    have hx := hpre x (by simp)
    simp only [List.cons_append, cutAtTerminal, hx, Bool.false_eq_true, if_false, List.length_cons,
      List.getElem?_cons_succ]
    exact ih fun y hy => hpre y (by simp [hy])

/-- for an action that respects the contract (nothing after a terminal) the observer sees all of it -/
theorem ready_set_go_all (action : List Ev) (h : ∀ x ∈ action.dropLast, x.isTerminal = false) :
    readySetGo.run action = action := by
  rw [ready_set_go_run]
  induction action with
  | nil => rfl
  | cons x l ih =>
    cases l with
    | nil => simp only [cutAtTerminal]; split <;> rfl
    | cons y l =>
      have hx := h x (by simp)
      simp only [cutAtTerminal, hx, Bool.false_eq_true, if_false] at ih ⊢
      rw [ih fun z hz => h z (by simp [hz])]

/-- the order ready_set_go avoids (run the action, then subscribe) loses everything -/
theorem run_late_loses_all (action : List Ev) : readySetGo.runLate action = [] := by
  simp [readySetGo.runLate, Hot.subscribe, hot_act_unregistered]

example : readySetGo.run [.next (.int 1), .next (.int 2), .complete] = [.next (.int 1), .next (.int 2), .complete] ∧
    readySetGo.runLate [.next (.int 1), .next (.int 2), .complete] = [] := by decide

/-! ### flat_map -/

theorem pair_fst_inj {l : List (Nat × Nat)} (h : (l.map Prod.fst).Nodup) {a b : Nat × Nat}
    (ha : a ∈ l) (hb : b ∈ l) (hab : a.1 = b.1) : a = b := by
  induction l with
  | nil => cases ha
  | cons x l ih =>
    simp only [List.map_cons, List.nodup_cons, List.mem_map, not_exists, not_and] at h
    rcases List.mem_cons.mp ha with rfl | ha' <;> rcases List.mem_cons.mp hb with rfl | hb'
    · rfl
    · exact absurd hab.symm (h.1 b hb')
    · exact absurd hab (h.1 a ha')
    · exact ih h.2 ha' hb'

theorem pair_snd_inj {l : List (Nat × Nat)} (h : (l.map Prod.snd).Nodup) {a b : Nat × Nat}
    (ha : a ∈ l) (hb : b ∈ l) (hab : a.2 = b.2) : a = b := by
  induction l with
  | nil => cases ha
  | cons x l ih =>
    simp only [List.map_cons, List.nodup_cons, List.mem_map, not_exists, not_and] at h
    rcases List.mem_cons.mp ha with rfl | ha' <;> rcases List.mem_cons.mp hb with rfl | hb'
    · rfl
    · exact absurd hab.symm (h.1 b hb')
    · exact absurd hab (h.1 a ha')
    · exact ih h.2 ha' hb'

theorem filter_snd_nil (l : List (Nat × Nat)) (j : Nat) (h : j ∉ l.map Prod.snd) :
    (l.filter (·.2 == j)).map Prod.fst = [] := by
  have : l.filter (·.2 == j) = [] := by
    rw [List.filter_eq_nil_iff]
    intro q hq hqj
    exact h (List.mem_map.mpr ⟨q, hq, by simpa using hqj⟩)
  simp [this]

theorem filter_snd_singleton (l : List (Nat × Nat)) (n j : Nat) (h : (l.map Prod.snd).Nodup)
    (hm : (n, j) ∈ l) : (l.filter (·.2 == j)).map Prod.fst = [n] := by
  induction l with
  | nil => cases hm
  | cons x l ih =>
    simp only [List.map_cons, List.nodup_cons] at h
    rcases List.mem_cons.mp hm with hx | hm'
    · subst hx
      have : (l.filter (·.2 == j)).map Prod.fst = [] := filter_snd_nil l j h.1
      simp [this]
    · have hxj : (x.2 == j) = false := by
        have : x.2 ≠ j := by
          intro hx; apply h.1; rw [hx]; exact List.mem_map.mpr ⟨(n, j), hm', rfl⟩
        simp [this]
      simp [hxj, ih h.2 hm']

theorem fmSeen_cons (inner : Data → Nat) (S : List Nat) (p : Nat × Ev) (H : History) :
    fmSeen inner S (p :: H) =
      if p.1 == 0 then p :: fmSeen inner (match p.2 with | .next x => S ++ [inner x] | _ => S) H
      else List.replicate (S.count p.1) p ++ fmSeen inner S H := rfl

theorem fmSeen_skip (inner : Data → Nat) (S : List Nat) (p : Nat × Ev) (H : History)
    (h0 : p.1 ≠ 0) (hS : p.1 ∉ S) : fmSeen inner S (p :: H) = fmSeen inner S H := by
  have h1 : (p.1 == 0) = false := by simp [h0]
  rw [fmSeen_cons, h1, List.count_eq_zero_of_not_mem hS]
  simp

theorem fmSeen_eq_nil (inner : Data → Nat) (S : List Nat) (H : History)
    (h : ∀ p ∈ H, p.1 ≠ 0 ∧ p.1 ∉ S) : fmSeen inner S H = [] := by
  induction H with
  | nil => rfl
  | cons p H ih =>
    have hp := h p (by simp)
    rw [fmSeen_skip inner S p H hp.1 hp.2]
    exact ih fun q hq => h q (by simp [hq])

theorem filter_append_not_mem (L sel : List Nat) (j : Nat) (h : j ∉ sel) :
    (L ++ sel).filter (· != j) = L.filter (· != j) ++ sel := by
  rw [List.filter_append]
  congr 1
  rw [List.filter_eq_self]
  intro a ha
  have : a ≠ j := fun e => h (e ▸ ha)
  simp [this]

/-! the closures of flat_map.rs on a terminal are the same for the outer and the inner observers -/
theorem deliver_error (inner : Data → Nat) (s : flatMap.State) (n e : Nat) (h : s.ctl.isLive n = true) :
    flatMap.deliver inner s n (.error e) =
      ({ s with ctl := ((s.ctl.kill n).sinkError e).1 }, ((s.ctl.kill n).sinkError e).2) := by
  simp only [flatMap.deliver, h, if_true]
  split
  · rename_i h0; have : n = 0 := by simpa using h0
    subst this; rfl
  · rfl

theorem deliver_complete (inner : Data → Nat) (s : flatMap.State) (n : Nat) (h : s.ctl.isLive n = true) :
    flatMap.deliver inner s n .complete =
      ({ s with ctl := ((s.ctl.kill n).sinkComplete n).1 }, ((s.ctl.kill n).sinkComplete n).2) := by
  simp only [flatMap.deliver, h, if_true]
  split
  · rename_i h0; have : n = 0 := by simpa using h0
    subst this; rfl
  · rfl

theorem deliver_dead (inner : Data → Nat) (s : flatMap.State) (n : Nat) (ev : Ev) (h : s.ctl.alive = false) :
    (flatMap.deliver inner s n ev).2 = [] ∧ (flatMap.deliver inner s n ev).1.ctl.alive = false := by
  simp only [flatMap.deliver]
  split
  · split
    · cases ev <;> simp [Ctl.addObserver, Ctl.sinkError, Ctl.sinkComplete, Ctl.kill, Ctl.finalize, h]
    · cases ev <;> simp [Ctl.sinkNext, Ctl.sinkError, Ctl.sinkComplete, Ctl.kill, Ctl.finalize, h]
  · exact ⟨rfl, h⟩

theorem broadcast_dead (inner : Data → Nat) (ev : Ev) (s : flatMap.State) (l : List Nat)
    (h : s.ctl.alive = false) :
    (flatMap.broadcast inner ev s l).2 = [] ∧ (flatMap.broadcast inner ev s l).1.ctl.alive = false := by
  induction l generalizing s with
  | nil => exact ⟨rfl, h⟩
  | cons n l ih =>
    have hd := deliver_dead inner s n ev h
    have := ih (flatMap.deliver inner s n ev).1 hd.2
    simp only [flatMap.broadcast, hd.1, this.1, this.2, List.nil_append, and_self]

theorem flatMap_dead (inner : Data → Nat) (s : flatMap.State) (H : History) (h : s.ctl.alive = false) :
    runFrom (flatMap.step inner) s H = [] := by
  induction H generalizing s with
  | nil => rfl
  | cons p H ih =>
    have hb := broadcast_dead inner p.2 s ((s.subs.filter (·.2 == p.1)).map (·.1)) h
    simp only [runFrom, flatMap.step, hb.1, List.nil_append]
    exact ih _ hb.2

/-- the relation between a reachable flat_map state and the bookkeeping of the specification:
    `S` = inner sources selected so far, `L` = sources whose observer is still live,
    `R` = sources that have not terminated -/
structure FmInv (s : flatMap.State) (S L R : List Nat) : Prop where
  alive : s.ctl.alive = true
  reg : s.ctl.reg = s.ctl.live
  snds : s.subs.map Prod.snd = 0 :: S
  sndN : (0 :: S).Nodup
  fstN : (s.subs.map Prod.fst).Nodup
  lt : ∀ q : Nat × Nat, q ∈ s.subs → q.1 < s.nextSerial
  h00 : ((0, 0) : Nat × Nat) ∈ s.subs
  A : ∀ q : Nat × Nat, q ∈ s.subs → s.ctl.live.contains q.1 = L.contains q.2
  B : ∀ n : Nat, n ∈ s.ctl.live → n ∈ s.subs.map Prod.fst
  LS : ∀ j : Nat, j ∈ L → j ∈ s.subs.map Prod.snd
  RL : ∀ q : Nat × Nat, q ∈ s.subs → R.contains q.2 = true → L.contains q.2 = true
  ne : s.ctl.live ≠ []

theorem FmInv.mono {s : flatMap.State} {S L R R' : List Nat} (h : FmInv s S L R)
    (hsub : ∀ j, R'.contains j = true → R.contains j = true) : FmInv s S L R' :=
  { h with RL := fun q hq hr => h.RL q hq (hsub _ hr) }

theorem FmInv.sndN' {s : flatMap.State} {S L R : List Nat} (h : FmInv s S L R) :
    (s.subs.map Prod.snd).Nodup := by rw [h.snds]; exact h.sndN

theorem FmInv.L_ne {s : flatMap.State} {S L R : List Nat} (h : FmInv s S L R) : L ≠ [] := by
  obtain ⟨n, hn⟩ := List.exists_mem_of_ne_nil _ h.ne
  obtain ⟨q, hq, rfl⟩ := List.mem_map.mp (h.B n hn)
  have := h.A q hq
  intro hL
  rw [hL] at this
  simp at this
  exact this hn

/-- the outer source selects a new inner source -/
theorem FmInv.subscribe {s : flatMap.State} {S L R : List Nat} (h : FmInv s S L R) (ix : Nat)
    (hix : ix ∉ 0 :: S) :
    FmInv { ctl := s.ctl.addObserver s.nextSerial, subs := s.subs ++ [(s.nextSerial, ix)],
            nextSerial := s.nextSerial + 1 } (S ++ [ix]) (L ++ [ix]) R := by
  have hfresh : ∀ q : Nat × Nat, q ∈ s.subs → q.1 ≠ s.nextSerial := fun q hq => by have := h.lt q hq; omega
  have hsndne : ∀ q : Nat × Nat, q ∈ s.subs → q.2 ≠ ix := by
    intro q hq e
    apply hix
    rw [← h.snds, ← e]
    exact List.mem_map.mpr ⟨q, hq, rfl⟩
  refine
    { alive := by simp [Ctl.addObserver, h.alive]
      reg := by simp [Ctl.addObserver, h.reg]
      snds := by simp [h.snds]
      sndN := ?_
      fstN := ?_
      lt := ?_
      h00 := by simp [h.h00]
      A := ?_
      B := ?_
      LS := ?_
      RL := ?_
      ne := by simp [Ctl.addObserver] }
  · have := h.sndN
    rw [← List.cons_append, List.nodup_append]
    refine ⟨this, by simp, ?_⟩
    intro a ha b hb
    simp only [List.mem_singleton] at hb
    subst hb
    intro e; subst e; exact hix ha
  · rw [List.map_append, List.nodup_append]
    refine ⟨h.fstN, by simp, ?_⟩
    intro a ha b hb
    simp only [List.map_cons, List.map_nil, List.mem_singleton] at hb
    subst hb
    obtain ⟨q, hq, rfl⟩ := List.mem_map.mp ha
    exact hfresh q hq
  · intro q hq
    rcases List.mem_append.mp hq with hq | hq
    · have := h.lt q hq; simp only; omega
    · simp only [List.mem_singleton] at hq; subst hq; simp
  · intro q hq
    rcases List.mem_append.mp hq with hq | hq
    · have h1 := hfresh q hq
      have h2 := hsndne q hq
      simp only [Ctl.addObserver, List.contains_append, List.contains_cons, List.contains_nil, Bool.or_false]
      rw [h.A q hq]
      have e1 : (q.1 == s.nextSerial) = false := by simp [h1]
      have e2 : (q.2 == ix) = false := by simp [h2]
      simp [e1, e2]
    · simp only [List.mem_singleton] at hq; subst hq
      simp [Ctl.addObserver]
  · intro n hn
    simp only [Ctl.addObserver, List.mem_append, List.mem_singleton] at hn
    rw [List.map_append, List.mem_append]
    rcases hn with hn | hn
    · exact Or.inl (h.B n hn)
    · subst hn; right; simp
  · intro j hj
    rw [List.map_append, List.mem_append]
    rcases List.mem_append.mp hj with hj | hj
    · exact Or.inl (h.LS j hj)
    · simp only [List.mem_singleton] at hj; subst hj; right; simp
  · intro q hq hr
    rcases List.mem_append.mp hq with hq | hq
    · have := h.RL q hq hr
      simp only [List.contains_append, this, Bool.true_or]
    · simp only [List.mem_singleton] at hq; subst hq; simp

/-- observer `n` (on source `j`) completes and others are still registered -/
theorem FmInv.complete {s : flatMap.State} {S L R : List Nat} (h : FmInv s S L R) (n j : Nat)
    (hm : (n, j) ∈ s.subs) (hne : s.ctl.live.filter (· != n) ≠ []) :
    FmInv { s with ctl := ⟨true, s.ctl.reg.filter (· != n), s.ctl.live.filter (· != n)⟩ } S
      (L.filter (· != j)) (R.filter (· != j)) := by
  have hiff : ∀ q : Nat × Nat, q ∈ s.subs → ((q.1 != n) = (q.2 != j)) := by
    intro q hq
    by_cases e1 : q.1 = n
    · have := pair_fst_inj h.fstN hq hm e1
      subst this; simp
    · by_cases e2 : q.2 = j
      · have := pair_snd_inj h.sndN' hq hm e2
        subst this; simp at e1
      · rw [Bool.eq_iff_iff]; simp [bne_iff_ne, e1, e2]
  refine
    { alive := rfl
      reg := by simp [h.reg]
      snds := h.snds
      sndN := h.sndN
      fstN := h.fstN
      lt := h.lt
      h00 := h.h00
      A := ?_
      B := ?_
      LS := ?_
      RL := ?_
      ne := hne }
  · intro q hq
    have e1 : (s.ctl.live.filter (· != n)).contains q.1 = (s.ctl.live.contains q.1 && (q.1 != n)) := by
      rw [Bool.eq_iff_iff]; simp [List.mem_filter]
    have e2 : (L.filter (· != j)).contains q.2 = (L.contains q.2 && (q.2 != j)) := by
      rw [Bool.eq_iff_iff]; simp [List.mem_filter]
    simp only [e1, e2, h.A q hq, hiff q hq]
  · intro m hm'
    exact h.B m (List.mem_filter.mp hm').1
  · intro j' hj'
    exact h.LS j' (List.mem_filter.mp hj').1
  · intro q hq hr
    have hr' : R.contains q.2 = true ∧ q.2 ≠ j := by
      simpa [List.mem_filter] using hr
    have := h.RL q hq hr'.1
    simp only [List.contains_iff_mem, List.mem_filter] at this ⊢
    exact ⟨this, by simpa using hr'.2⟩

/-- observer `n` (on source `j`) was the last registered one -/
theorem FmInv.last {s : flatMap.State} {S L R : List Nat} (h : FmInv s S L R) (n j : Nat)
    (hm : (n, j) ∈ s.subs) (hemp : s.ctl.live.filter (· != n) = []) :
    (∀ j' ∈ L, j' = j) ∧ (∀ q : Nat × Nat, q ∈ s.subs → R.contains q.2 = true → q.2 = j) := by
  have hall : ∀ m ∈ s.ctl.live, m = n := by
    intro m hm'
    have := List.filter_eq_nil_iff.mp hemp m hm'
    simpa using this
  have key : ∀ q : Nat × Nat, q ∈ s.subs → L.contains q.2 = true → q.2 = j := by
    intro q hq hl
    have : s.ctl.live.contains q.1 = true := by rw [h.A q hq]; exact hl
    have e := hall q.1 (by simpa using this)
    have := pair_fst_inj h.fstN hq hm e
    rw [this]
  constructor
  · intro j' hj'
    obtain ⟨q, hq, rfl⟩ := List.mem_map.mp (h.LS j' hj')
    exact key q hq (by simpa using hj')
  · intro q hq hr
    exact key q hq (h.RL q hq hr)

/-- the inner sources selected by the outer items of `H` -/
def fmSel (inner : Data → Nat) (H : History) : List Nat := (srcItems 0 H).map inner

theorem fmSel_cons_outer_next (inner : Data → Nat) (x : Data) (H : History) :
    fmSel inner ((0, Ev.next x) :: H) = inner x :: fmSel inner H := by
  simp [fmSel, srcItems_cons]

theorem fmSel_cons_other (inner : Data → Nat) (j : Nat) (ev : Ev) (H : History)
    (h : j ≠ 0 ∨ ev.isNext = false) : fmSel inner ((j, ev) :: H) = fmSel inner H := by
  simp only [fmSel, srcItems_cons]
  rcases h with h | h
  · have : (j == 0) = false := by simp [h]
    simp [this]
  · cases ev <;> simp_all

theorem nodup_move (A sel : List Nat) (x : Nat) (h : (A ++ x :: sel).Nodup) :
    x ∉ A ∧ ((A ++ [x]) ++ sel).Nodup := by
  constructor
  · intro hx
    have := (List.nodup_append.mp h).2.2 x hx x (by simp)
    exact this rfl
  · simpa [List.append_assoc] using h

theorem nodup_disjoint (A sel : List Nat) (x : Nat) (h : (A ++ sel).Nodup) (hx : x ∈ A) : x ∉ sel := by
  intro hs
  exact (List.nodup_append.mp h).2.2 x hx x hs rfl

theorem srcItems_replicate_ne (i : Nat) (n : Nat) (p : Nat × Ev) (h : p.1 ≠ i) :
    srcItems i (List.replicate n p) = [] :=
  srcItems_eq_nil i _ fun q hq => by rw [(List.mem_replicate.mp hq).2]; exact h

theorem srcItems_fmSeen (inner : Data → Nat) (S : List Nat) (H : History) :
    srcItems 0 (fmSeen inner S H) = srcItems 0 H := by
  induction H generalizing S with
  | nil => rfl
  | cons p H ih =>
    rw [fmSeen_cons]
    by_cases h0 : p.1 = 0
    · have hb : (p.1 == 0) = true := by simp [h0]
      simp only [hb, if_true, srcItems_cons, ih]
    · have hb : (p.1 == 0) = false := by simp [h0]
      simp only [hb, Bool.false_eq_true, if_false]
      rw [srcItems_append, srcItems_replicate_ne 0 _ p h0, ih, srcItems_cons, hb]
      simp

theorem fmSeen_outer_next (inner : Data → Nat) (S : List Nat) (x : Data) (H : History) :
    fmSeen inner S ((0, Ev.next x) :: H) = (0, Ev.next x) :: fmSeen inner (S ++ [inner x]) H := rfl

theorem fmSeen_seen (inner : Data → Nat) (S : List Nat) (j : Nat) (ev : Ev) (H : History)
    (hN : (0 :: S).Nodup) (hj : j ∈ 0 :: S) (hev : j ≠ 0 ∨ ev.isNext = false) :
    fmSeen inner S ((j, ev) :: H) = (j, ev) :: fmSeen inner S H := by
  rw [fmSeen_cons]
  by_cases h0 : j = 0
  · subst h0
    have : ev.isNext = false := by rcases hev with h | h; exact absurd rfl h; exact h
    cases ev <;> simp_all
  · have hb : (j == 0) = false := by simp [h0]
    have hS : j ∈ S := by simpa [h0] using hj
    have hc : S.count j = 1 := by
      have h1 := List.nodup_iff_count.mp (List.nodup_cons.mp hN).2 j
      have h2 : 0 < S.count j := List.count_pos_iff.mpr hS
      omega
    simp [hb, hc]

theorem flatMap_from (inner : Data → Nat) (s : flatMap.State) (S L R : List Nat) (H : History)
    (h : FmInv s S L R) (hsel : (0 :: S ++ fmSel inner H).Nodup) (hwf : wfFrom R H = true) :
    runFrom (flatMap.step inner) s H =
      itemsOf ((beforeError (fmSeen inner S H)).filter (·.1 != 0)) ++
        terminalOf (L ++ fmSel inner (fmSeen inner S H)) (fmSeen inner S H) := by
  induction H generalizing s S L R with
  | nil =>
    have := h.L_ne
    cases L with
    | nil => exact absurd rfl this
    | cons a L => simp [runFrom, fmSeen, fmSel, srcItems, terminalOf]
  | cons p H ih =>
    obtain ⟨j, ev⟩ := p
    rw [wf_cons] at hwf
    simp only [Bool.and_eq_true] at hwf
    obtain ⟨hj, hwf⟩ := hwf
    have hR' : ∀ x, (if ev.isTerminal then R.filter (· != j) else R).contains x = true → R.contains x = true := by
      intro x hx
      split at hx
      · simp only [List.contains_iff_mem, List.mem_filter] at hx ⊢; exact hx.1
      · exact hx
    by_cases hmem : j ∈ 0 :: S
    · -- the source has an observer
      rw [← h.snds] at hmem
      obtain ⟨q, hq, hqj⟩ := List.mem_map.mp hmem
      obtain ⟨n, j'⟩ := q
      simp only at hqj
      subst hqj
      have hlive : s.ctl.isLive n = true := by
        have := h.A (n, j') hq
        simp only at this
        rw [Ctl.isLive, this]
        exact h.RL (n, j') hq hj
      have hstep : flatMap.step inner s (j', ev) =
          ((flatMap.deliver inner s n ev).1, (flatMap.deliver inner s n ev).2) := by
        simp only [flatMap.step, filter_snd_singleton s.subs n j' h.sndN' hq, flatMap.broadcast,
          List.append_nil]
      have hjmem : j' ∈ 0 :: S := by rw [← h.snds]; exact hmem
      simp only [runFrom, hstep]
      cases ev with
      | next d =>
        simp only [isTerminal_next, Bool.false_eq_true, if_false] at hwf
        by_cases h0 : j' = 0
        · subst h0
          have hn : n = 0 := by
            have := pair_snd_inj h.sndN' hq h.h00 rfl
            exact congrArg Prod.fst this
          subst hn
          rw [fmSeen_outer_next]
          rw [fmSel_cons_outer_next] at hsel
          obtain ⟨hix, hsel'⟩ := nodup_move (0 :: S) _ _ hsel
          have hinv := h.subscribe (inner d) hix
          have hd : flatMap.deliver inner s 0 (.next d) =
              ({ ctl := s.ctl.addObserver s.nextSerial, subs := s.subs ++ [(s.nextSerial, inner d)],
                 nextSerial := s.nextSerial + 1 }, []) := by
            simp [flatMap.deliver, hlive]
          rw [hd]
          simp only [List.nil_append]
          rw [ih _ _ _ _ hinv hsel' hwf]
          simp [beforeError_cons, fmSel_cons_outer_next, terminalOf_cons_next, List.append_assoc]
        · have hn : n ≠ 0 := by
            intro hn; subst hn
            have := pair_fst_inj h.fstN hq h.h00 rfl
            exact h0 (congrArg Prod.snd this)
          have hnb : (n == 0) = false := by simp [hn]
          have hjb : (j' != 0) = true := by simp [h0]
          rw [fmSeen_seen inner S j' _ H h.sndN hjmem (Or.inl h0)]
          have hd : flatMap.deliver inner s n (.next d) = (s, [.next d]) := by
            simp [flatMap.deliver, hlive, hnb, Ctl.sinkNext, h.alive]
          rw [hd]
          rw [fmSel_cons_other inner j' _ H (Or.inl h0)] at hsel
          rw [ih _ _ _ _ h hsel hwf]
          simp [beforeError_cons, hjb, itemsOf_cons,
            fmSel_cons_other inner j' _ _ (Or.inl h0), terminalOf_cons_next]
      | error e =>
        rw [deliver_error inner s n e hlive]
        simp only [Ctl.sinkError, Ctl.kill, h.alive, if_true]
        rw [flatMap_dead _ _ _ (by simp [Ctl.finalize])]
        rw [fmSeen_seen inner S j' _ H h.sndN hjmem (Or.inr rfl)]
        simp [beforeError_cons, terminalOf_cons_error]
      | complete =>
        rw [deliver_complete inner s n hlive]
        simp only [isTerminal_complete, if_true] at hwf
        rw [fmSeen_seen inner S j' _ H h.sndN hjmem (Or.inr rfl)]
        rw [fmSel_cons_other inner j' _ H (Or.inr rfl)] at hsel
        have hjsel : j' ∉ fmSel inner (fmSeen inner S H) := by
          rw [fmSel, srcItems_fmSeen]
          exact nodup_disjoint (0 :: S) _ j' hsel hjmem
        simp only [Ctl.sinkComplete, Ctl.kill, h.alive, if_true]
        split
        · rename_i hemp
          have hemp' : s.ctl.live.filter (· != n) = [] := by rw [← h.reg]; simpa using hemp
          obtain ⟨hL1, hR1⟩ := h.last n j' hq hemp'
          rw [flatMap_dead _ _ _ (by simp [Ctl.finalize])]
          have hnil : fmSeen inner S H = [] := by
            apply fmSeen_eq_nil
            intro p hp
            have hpR := wf_mem _ H hwf p hp
            have hpR' : R.contains p.1 = true ∧ p.1 ≠ j' := by
              simpa [List.mem_filter] using hpR
            have hnot : ∀ m, (m, p.1) ∈ s.subs → False := by
              intro m hm
              exact hpR'.2 (hR1 (m, p.1) hm hpR'.1)
            constructor
            · intro hp0
              apply hnot 0
              rw [hp0]; exact h.h00
            · intro hpS
              have : p.1 ∈ s.subs.map Prod.snd := by rw [h.snds]; exact List.mem_cons_of_mem _ hpS
              obtain ⟨q, hq', hq2⟩ := List.mem_map.mp this
              apply hnot q.1
              rw [← hq2]; exact hq'
          rw [hnil]
          have hall : L.all (completedIn [(j', Ev.complete)]) = true := by
            rw [List.all_eq_true]
            intro x hx
            rw [hL1 x hx]
            simp [completedIn]
          simp [beforeError_cons, List.filter_cons, fmSel, srcItems, terminalOf,
            firstError_cons, hall]
          split <;> simp [itemsOf_cons]
        · rename_i hemp
          have hne' : s.ctl.live.filter (· != n) ≠ [] := by
            intro h0; apply hemp; rw [h.reg, h0]; rfl
          have hinv := h.complete n j' hq hne'
          simp only [List.nil_append]
          rw [ih _ _ _ _ hinv hsel hwf]
          rw [fmSel_cons_other inner j' _ _ (Or.inr rfl), terminalOf_cons_complete,
            filter_append_not_mem _ _ _ hjsel]
          simp [beforeError_cons, List.filter_cons]
          split <;> simp [itemsOf_cons]
    · -- nobody listens to this source
      have hj0 : j ≠ 0 := fun e => hmem (by simp [e])
      have hjS : j ∉ S := fun e => hmem (by simp [e])
      have hstep : flatMap.step inner s (j, ev) = (s, []) := by
        simp only [flatMap.step, filter_snd_nil s.subs j (by rw [h.snds]; exact hmem), flatMap.broadcast]
      simp only [runFrom, hstep, List.nil_append]
      rw [fmSeen_skip inner S (j, ev) H hj0 hjS]
      rw [fmSel_cons_other inner j ev H (Or.inl hj0)] at hsel
      exact ih _ _ _ _ (h.mono hR') hsel hwf

theorem fmInv_init (k : Nat) : FmInv flatMap.init [] [0] (List.range k) where
  alive := rfl
  reg := rfl
  snds := rfl
  sndN := by simp
  fstN := by simp [flatMap.init]
  lt := by intro q hq; simp [flatMap.init] at hq; subst hq; simp [flatMap.init]
  h00 := by simp [flatMap.init]
  A := by intro q hq; simp [flatMap.init] at hq; subst hq; rfl
  B := by intro n hn; simpa [flatMap.init, Ctl.init] using hn
  LS := by intro j hj; simpa [flatMap.init] using hj
  RL := by intro q hq _; simp [flatMap.init] at hq; subst hq; rfl
  ne := by simp [flatMap.init, Ctl.init]

/-- flat_map over hot sources: every item of every selected inner source, in arrival order, from the
    moment the outer item that selects it has arrived; the first error of the outer source or of a selected
    inner source ends the output; `complete` exactly when the outer source and every selected inner source
    have completed.  Hypothesis: the outer items select pairwise distinct inner sources, none of them the
    outer source itself (a source selected twice is subscribed twice and delivers every item twice). -/
theorem flat_map_spec (inner : Data → Nat) (k : Nat) (H : History) (hwf : WellFormed k H)
    (hsel : (0 :: fmSel inner H).Nodup) :
    flatMap.run k H inner = flatMapSpec inner H := by
  have := flatMap_from inner flatMap.init [] [0] (List.range k) H (fmInv_init k) (by simpa using hsel) hwf
  rw [flatMap.run, this]
  rfl

/-! ### the operators layered over zip -/

theorem drain_all_next (alive : Bool) (f : Nat) (qs : List (List Data)) :
    (zip.drain alive f qs).2.all Ev.isNext = true := by
  induction f generalizing qs with
  | zero => rfl
  | succ f ih =>
    simp only [zip.drain]
    split
    · split
      · simp [ih]
      · rfl
    · rfl

theorem drain_false_out (f : Nat) (qs : List (List Data)) : (zip.drain false f qs).2 = [] := by
  cases f <;> simp only [zip.drain] <;> split <;> simp

/-- one step of zip emits either items only (and stays as alive as it was) or exactly one terminal (and is
    dead afterwards) -/
theorem zip_step_shape (s : zip.State) (p : Nat × Ev) (ha : s.ctl.alive = true) :
    ((zip.step s p).2.all Ev.isNext = true ∧ (zip.step s p).1.ctl.alive = true) ∨
      (∃ t, t.isTerminal = true ∧ (zip.step s p).2 = [t] ∧ (zip.step s p).1.ctl.alive = false) := by
  obtain ⟨i, ev⟩ := p
  simp only [zip.step]
  split
  · cases ev with
    | next d => left; exact ⟨drain_all_next _ _ _, ha⟩
    | error e =>
      right; exact ⟨.error e, rfl, by simp [Ctl.sinkError, Ctl.kill, ha], by simp [Ctl.sinkError, Ctl.kill, ha, Ctl.finalize]⟩
    | complete =>
      simp only [Ctl.sinkComplete, Ctl.kill, ha, if_true]
      split
      · right; exact ⟨.complete, rfl, rfl, by simp [Ctl.finalize]⟩
      · left; exact ⟨rfl, rfl⟩
  · left; exact ⟨rfl, ha⟩

theorem zip_step_dead (s : zip.State) (p : Nat × Ev) (ha : s.ctl.alive = false) :
    (zip.step s p).2 = [] ∧ (zip.step s p).1.ctl.alive = false := by
  obtain ⟨i, ev⟩ := p
  simp only [zip.step]
  split
  · cases ev with
    | next d => simp only [ha]; exact ⟨drain_false_out _ _, trivial⟩
    | error e => simp [Ctl.sinkError, Ctl.kill, ha, Ctl.finalize]
    | complete => simp [Ctl.sinkComplete, Ctl.kill, ha, Ctl.finalize]
  · exact ⟨rfl, ha⟩

/-- the outer observer is gone and so is zip's controller -/
def Over.Dead (s : Over) : Prop := s.o.isLive 0 = false ∧ s.z.ctl.alive = false

/-- both controllers untouched -/
def Over.Ok (s : Over) : Prop := s.o = Ctl.init 1 ∧ s.z.ctl.alive = true

theorem sync_dead (z : zip.State) (o : Ctl) (ho : o.isLive 0 = false) : (Over.sync z o).Dead := by
  simp [Over.sync, Over.Dead, ho, Ctl.finalize]

theorem sync_ok (z : zip.State) (hz : z.ctl.alive = true) : (Over.sync z (Ctl.init 1)).Ok := by
  have : (Ctl.init 1).isLive 0 = true := by decide
  simp [Over.sync, Over.Ok, this, hz]

/-! #### combine_latest -/

def mapEv (f : List Data → Data) : Ev → Ev
  | .next v => .next (f v.toList)
  | ev => ev

/-! #### sequence_equal -/

/-- what the closures of sequence_equal.rs make of zip's output -/
def seqPost : List Ev → List Ev
  | [] => []
  | .next v :: r => if sequenceEqualCode.allSame v.toList then seqPost r else [.next (.bool false), .complete]
  | .error e :: _ => [.error e]
  | .complete :: _ => [.next (.bool true), .complete]

theorem se_feed_dead (o : Ctl) (evs : List Ev) (ho : o.isLive 0 = false) :
    sequenceEqualCode.feed o evs = (o, []) := by
  induction evs with
  | nil => rfl
  | cons ev evs ih => simp only [sequenceEqualCode.feed, ho, Bool.false_eq_true, if_false, ih]

theorem se_feed_next (evs : List Ev) (h : evs.all Ev.isNext = true) :
    (sequenceEqualCode.feed (Ctl.init 1) evs).2 = seqPost evs ∧
      ((seqPost evs = [] ∧ (sequenceEqualCode.feed (Ctl.init 1) evs).1 = Ctl.init 1) ∨
       (seqPost evs ≠ [] ∧ (sequenceEqualCode.feed (Ctl.init 1) evs).1.isLive 0 = false)) := by
  induction evs with
  | nil => exact ⟨rfl, Or.inl ⟨rfl, rfl⟩⟩
  | cons ev evs ih =>
    simp only [List.all_cons, Bool.and_eq_true] at h
    have hl : (Ctl.init 1).isLive 0 = true := by decide
    cases ev with
    | next v =>
      simp only [sequenceEqualCode.feed, hl, if_true, seqPost]
      split
      · exact ih h.2
      · have hd : (((Ctl.init 1).abort 0).sinkNext (Data.bool false)).1.sinkComplete 0 =
            (⟨false, [], []⟩, [.complete]) := by decide
        have hd2 : (((Ctl.init 1).abort 0).sinkNext (Data.bool false)).2 = [.next (.bool false)] := by decide
        simp only [hd, hd2]
        rw [se_feed_dead _ _ (by decide)]
        exact ⟨rfl, Or.inr ⟨by simp, by decide⟩⟩
    | error e => simp at h
    | complete => simp at h

theorem se_feed_term (t : Ev) (ht : t.isTerminal = true) :
    (sequenceEqualCode.feed (Ctl.init 1) [t]).2 = seqPost [t] ∧
      (sequenceEqualCode.feed (Ctl.init 1) [t]).1.isLive 0 = false := by
  cases t with
  | next d => simp at ht
  | error e => exact ⟨rfl, rfl⟩
  | complete => exact ⟨rfl, rfl⟩

theorem seqPost_append_next (A B : List Ev) (h : A.all Ev.isNext = true) :
    seqPost (A ++ B) = if seqPost A = [] then seqPost B else seqPost A := by
  induction A with
  | nil => simp [seqPost]
  | cons a A ih =>
    simp only [List.all_cons, Bool.and_eq_true] at h
    cases a with
    | next v =>
      simp only [List.cons_append, seqPost]
      split
      · exact ih h.2
      · simp
    | error e => simp at h
    | complete => simp at h

theorem seqPost_term_append (t : Ev) (B : List Ev) (ht : t.isTerminal = true) :
    seqPost ([t] ++ B) = seqPost [t] := by
  cases t with
  | next d => simp at ht
  | error e => rfl
  | complete => rfl

theorem se_dead (s : Over) (H : History) (h : s.Dead) : runFrom sequenceEqualCode.step s H = [] := by
  induction H generalizing s with
  | nil => rfl
  | cons p H ih =>
    have hz := zip_step_dead s.z p h.2
    simp only [runFrom, sequenceEqualCode.step, hz.1, sequenceEqualCode.feed, List.nil_append]
    exact ih _ (sync_dead _ _ h.1)

theorem se_ok (s : Over) (H : History) (h : s.Ok) :
    runFrom sequenceEqualCode.step s H = seqPost (runFrom zip.step s.z H) := by
  induction H generalizing s with
  | nil => rfl
  | cons p H ih =>
    obtain ⟨z, o⟩ := s
    obtain ⟨ho, hz⟩ := h
    simp only at ho hz
    subst ho
    simp only [runFrom, sequenceEqualCode.step]
    rcases zip_step_shape z p hz with ⟨hn, ha⟩ | ⟨t, ht, hout, ha⟩
    · rw [seqPost_append_next _ _ hn]
      obtain ⟨h1, h2 | h2⟩ := se_feed_next _ hn
      · rw [h1, h2.1, h2.2]
        simp only [List.nil_append, if_true]
        rw [ih _ (sync_ok _ ha)]
        have : ((Over.sync (zip.step z p).1 (Ctl.init 1)).z) = (zip.step z p).1 := by
          have hl : (Ctl.init 1).isLive 0 = true := by decide
          simp [Over.sync, hl]
        rw [this]
      · rw [h1, se_dead _ H (sync_dead _ _ h2.2)]
        simp [h2.1]
    · rw [hout]
      obtain ⟨h1, h2⟩ := se_feed_term t ht
      rw [h1, se_dead _ H (sync_dead _ _ h2), seqPost_term_append t _ ht]
      simp

/-- the code of sequence_equal is zip followed by: `false, complete` at the first tuple whose components
    are not all equal, `true, complete` when zip completes, zip's error passed on -/
theorem sequence_equal_code_eq (k : Nat) (H : History) :
    sequenceEqualCode.run k H = seqPost (zip.run k H) :=
  se_ok (Over.init k) H ⟨rfl, rfl⟩

theorem beforeError_of_no_error (H : History) (h : firstError H = none) : beforeError H = H := by
  induction H with
  | nil => rfl
  | cons p H ih =>
    obtain ⟨i, ev⟩ := p
    rw [firstError_cons] at h
    cases ev with
    | next d => simp only at h; simp [beforeError_cons, ih h]
    | error e => simp at h
    | complete => simp only at h; simp [beforeError_cons, ih h]

theorem seqPost_rows (rows : List (List Data)) :
    seqPost (rows.map tupleEv ++ [.complete]) =
      [.next (.bool (rows.all sequenceEqualCode.allSame)), .complete] := by
  induction rows with
  | nil => rfl
  | cons r rows ih =>
    simp only [List.map_cons, List.cons_append, tupleEv, seqPost, Data.toList_ofList, List.all_cons]
    split
    · rename_i h; simp [ih, h]
    · rename_i h; simp [h]

theorem all_and' {α : Type} (l : List α) (p q : α → Bool) :
    l.all (fun x => p x && q x) = (l.all p && l.all q) := by
  induction l with
  | nil => rfl
  | cons a l ih => simp only [List.all_cons, ih]; cases p a <;> cases q a <;> simp

/-- for columns of equal length: every row is constant iff all columns are equal -/
theorem rows_allSame (N : Nat) (cols : List (List Data)) (hne : cols ≠ [])
    (hlen : ∀ c ∈ cols, c.length = N) :
    (zipRows cols).all sequenceEqualCode.allSame = cols.all (· == cols.headD []) := by
  induction N generalizing cols with
  | zero =>
    have hnil : ∀ c ∈ cols, c = [] := fun c hc => List.eq_nil_of_length_eq_zero (hlen c hc)
    cases cols with
    | nil => exact absurd rfl hne
    | cons c0 cols =>
      have h0 : c0 = [] := hnil c0 (by simp)
      subst h0
      rw [zipRows_of_not _ (by simp [nonEmptyAll])]
      simp only [List.all_nil, List.headD_cons]
      symm
      rw [List.all_eq_true]
      intro c hc
      rw [hnil c hc]; rfl
  | succ N ih =>
    have hcons : ∀ c ∈ cols, ∃ x t, c = x :: t ∧ t.length = N := by
      intro c hc
      have := hlen c hc
      cases c with
      | nil => simp at this
      | cons x t => exact ⟨x, t, rfl, by simpa using this⟩
    have hall : nonEmptyAll cols = true := by
      simp only [nonEmptyAll, List.all_eq_true]
      intro c hc
      obtain ⟨x, t, rfl, _⟩ := hcons c hc
      rfl
    rw [zipRows_step cols hne hall, List.all_cons]
    have htne : tails cols ≠ [] := by simpa [tails] using hne
    rw [ih (tails cols) htne (by
      intro t ht
      simp only [tails, List.mem_map] at ht
      obtain ⟨c, hc, rfl⟩ := ht
      obtain ⟨x, t, rfl, h⟩ := hcons c hc
      exact h)]
    cases cols with
    | nil => exact absurd rfl hne
    | cons c0 cols' =>
      obtain ⟨x0, t0, rfl, _⟩ := hcons c0 (by simp)
      have hpt : ∀ c ∈ (x0 :: t0) :: cols',
          (c == x0 :: t0) = ((c.headD .unit == x0) && (c.tail == t0)) := by
        intro c hc
        obtain ⟨x, t, rfl, _⟩ := hcons c hc
        simp
      have e1 : ((x0 :: t0) :: cols').all (· == ((x0 :: t0) :: cols').headD []) =
          ((x0 :: t0) :: cols').all (fun c => (c.headD .unit == x0) && (c.tail == t0)) := by
        rw [Bool.eq_iff_iff]
        simp only [List.all_eq_true]
        constructor
        · intro h c hc; rw [← hpt c hc]; exact h c hc
        · intro h c hc; rw [List.headD_cons, hpt c hc]; exact h c hc
      rw [e1, all_and']
      simp only [sequenceEqualCode.allSame, heads, tails, List.map_cons, List.headD_cons, List.all_map,
        List.tail_cons, List.all_cons, Function.comp_def]

/-- all sources emitted the same list of items -/
def allItemsEqual (k : Nat) (H : History) : Bool := (List.range k).all fun i => srcItems i H == srcItems 0 H

theorem completedIn_append (A B : History) (i : Nat) :
    completedIn (A ++ B) i = (completedIn A i || completedIn B i) := by
  simp [completedIn, List.any_append]

/-- once a source has completed it does not occur any more -/
theorem wf_after_complete (R : List Nat) (pre rest : History) (i : Nat)
    (hwf : wfFrom R (pre ++ rest) = true) (hc : completedIn pre i = true) : ∀ q ∈ rest, q.1 ≠ i := by
  induction pre generalizing R with
  | nil => simp at hc
  | cons p pre ih =>
    rw [List.cons_append, wf_cons] at hwf
    simp only [Bool.and_eq_true] at hwf
    rw [completedIn_cons] at hc
    by_cases hp : (p.1 == i && p.2 == Ev.complete) = true
    · simp only [Bool.and_eq_true, beq_iff_eq] at hp
      have h2 := hwf.2
      rw [hp.2, hp.1] at h2
      simp only [isTerminal_complete, if_true] at h2
      intro q hq
      exact wf_not_mem _ _ i h2 (by simp) q (List.mem_append_right _ hq)
    · have hp' : (p.1 == i && p.2 == Ev.complete) = false := by simpa using hp
      rw [hp', Bool.false_or] at hc
      exact ih _ hwf.2 hc

theorem firstError_append_none (A B : History) (h : firstError (A ++ B) = none) : firstError A = none := by
  induction A with
  | nil => rfl
  | cons p A ih =>
    obtain ⟨i, ev⟩ := p
    rw [List.cons_append, firstError_cons] at h
    rw [firstError_cons]
    cases ev with
    | next d => exact ih h
    | error e => simp at h
    | complete => exact ih h

theorem zip_common_prefix (A A' B B' : List Data) (h : A ++ A' = B ++ B') :
    ∀ xy ∈ A.zip B, xy.1 = xy.2 := by
  induction A generalizing B with
  | nil => simp
  | cons x A ih =>
    cases B with
    | nil => simp
    | cons y B =>
      simp only [List.cons_append, List.cons.injEq] at h
      intro xy hxy
      simp only [List.zip_cons_cons, List.mem_cons] at hxy
      rcases hxy with rfl | hxy
      · exact h.1
      · exact ih B h.2 xy hxy

theorem zip_any_ne (a b : List Data) (hl : a.length = b.length) (hne : a ≠ b) :
    (a.zip b).any (fun xy => xy.1 != xy.2) = true := by
  induction a generalizing b with
  | nil =>
    cases b with
    | nil => exact absurd rfl hne
    | cons y b => simp at hl
  | cons x a ih =>
    cases b with
    | nil => simp at hl
    | cons y b =>
      simp only [List.zip_cons_cons, List.any_cons, Bool.or_eq_true]
      by_cases hxy : x = y
      · subst hxy
        right
        exact ih b (by simpa using hl) (fun e => hne (by rw [e]))
      · left; simpa using hxy

/-- S3: a well-formed history ends when every source has completed -/
theorem not_allCompleted_of_more (k : Nat) (pre : History) (p : Nat × Ev) (rest : History)
    (hwf : WellFormed k (pre ++ p :: rest)) : allCompleted k pre = false := by
  rw [Bool.eq_false_iff]
  intro hc
  have hp : p.1 < k := wellFormed_lt k _ hwf p (by simp)
  simp only [allCompleted, List.all_eq_true, List.mem_range] at hc
  exact wf_after_complete _ pre (p :: rest) p.1 hwf (hc p.1 hp) p (by simp) rfl

/-! #### combine_latest: vocabulary of the specification -/

theorem nonEmptyAll_columns (k : Nat) (X : History) :
    nonEmptyAll (columns k X) = true ↔ ∀ i, i < k → srcItems i X ≠ [] := by
  simp only [nonEmptyAll, columns, List.all_map, List.all_eq_true, List.mem_range, Function.comp]
  constructor
  · intro h i hi; have := h i hi; intro e; simp [e] at this
  · intro h i hi; have := h i hi; cases hs : srcItems i X <;> simp_all

theorem clItems_cons (k : Nat) (pre : History) (p : Nat × Ev) (H : History) :
    clItems k pre (p :: H) =
      (if p.2.isNext then ((latestRow k (pre ++ [p])).map tupleEv).toList else []) ++
        clItems k (pre ++ [p]) H := rfl

theorem latestRow_eq (k : Nat) (X : History) :
    latestRow k X = if nonEmptyAll (columns k X) then some ((columns k X).map fun c => c.getLastD .unit)
      else none := rfl

theorem map_mapEv_zipSpec (k : Nat) (H : History) :
    (zipSpec k H).map (mapEv Data.ofList) = zipSpec k H := by
  simp only [zipSpec, List.map_append, List.map_map]
  congr 1
  · apply List.map_congr_left
    intro r _
    simp [Function.comp, tupleEv, mapEv]
  · simp only [terminalOf]
    split
    · rfl
    · split <;> rfl

/-! #### combine_latest after the repair of F9 -/

/-- the `latest` cell after the events `pre` -/
def latestOf (k : Nat) (pre : History) : List (Option Data) :=
  (List.range k).map fun j => (srcItems j pre).getLast?

theorem srcItems_snoc_next (j : Nat) (pre : History) (i : Nat) (d : Data) :
    srcItems j (pre ++ [(i, .next d)]) = srcItems j pre ++ (if i == j then [d] else []) := by
  rw [srcItems_append, srcItems_cons]; simp [srcItems]

theorem latestOf_next (k : Nat) (pre : History) (i : Nat) (d : Data) :
    (latestOf k pre).set i (some d) = latestOf k (pre ++ [(i, .next d)]) := by
  apply List.ext_getElem?
  intro j
  simp only [latestOf, List.getElem?_set, List.length_map, List.length_range, List.getElem?_map]
  by_cases hj : j < k
  · rw [List.getElem?_range hj]
    simp only [Option.map_some, srcItems_snoc_next]
    by_cases e : i = j
    · subst e; simp [hj]
    · have : (i == j) = false := by rw [beq_eq_false_iff_ne]; exact e
      simp [e, this]
  · rw [List.getElem?_eq_none (by simp; omega)]
    by_cases e : i = j
    · subst e; simp [hj]
    · simp [e]

theorem latestOf_other (k : Nat) (pre : History) (i : Nat) (ev : Ev) (h : ev.isNext = false) :
    latestOf k (pre ++ [(i, ev)]) = latestOf k pre := by
  simp only [latestOf]
  apply List.map_congr_left
  intro j _
  rw [srcItems_append, srcItems_cons]
  cases ev <;> simp_all [Ev.isNext, srcItems]

theorem latestOf_all (k : Nat) (X : History) :
    (latestOf k X).all Option.isSome = (columns k X).all (fun c => !c.isEmpty) := by
  simp only [latestOf, columns, List.all_map]
  congr 1
  funext j
  simp only [Function.comp]
  cases srcItems j X <;> simp

theorem latestOf_vals (k : Nat) (X : History) :
    (latestOf k X).map (fun x => x.getD .unit) = (columns k X).map fun c => c.getLastD .unit := by
  simp only [latestOf, columns, List.map_map]
  apply List.map_congr_left
  intro j _
  simp only [Function.comp]
  cases h : srcItems j X with
  | nil => rfl
  | cons a l => simp [List.getLast?_eq_some_getLast, List.getLastD_eq_getLast?]

theorem latestOf_nil (k : Nat) : latestOf k [] = List.replicate k none := by
  apply List.ext_getElem?
  intro j
  by_cases hj : j < k
  · simp [latestOf, hj, srcItems]
  · simp [latestOf, hj]

theorem cl_dead (f : List Data → Data) (s : combineLatest.State) (H : History) (h : s.ctl.alive = false) :
    runFrom (combineLatest.step f) s H = [] := by
  induction H generalizing s with
  | nil => rfl
  | cons p H ih =>
    obtain ⟨i, ev⟩ := p
    by_cases hlv : s.ctl.isLive i = true
    · cases ev with
      | next d =>
        simp only [runFrom, combineLatest.step, hlv, if_true]
        split
        · simp only [Ctl.sinkNext, h, Bool.false_eq_true, if_false, List.nil_append]
          exact ih _ (by simp [Ctl.finalize])
        · simpa using ih { s with latest := s.latest.set i (some d) } h
      | error e =>
        simp only [runFrom, combineLatest.step, hlv, if_true, Ctl.sinkError, Ctl.kill, h, Bool.false_eq_true,
          if_false, List.nil_append]
        exact ih _ (by simp [Ctl.finalize])
      | complete =>
        simp only [runFrom, combineLatest.step, hlv, if_true, Ctl.sinkComplete, Ctl.kill, h, Bool.false_eq_true,
          if_false, List.nil_append]
        exact ih _ (by simp [Ctl.finalize])
    · simp only [runFrom, combineLatest.step, hlv, Bool.false_eq_true, if_false, List.nil_append]
      exact ih s h

theorem cl_from (k : Nat) (s : combineLatest.State) (pre H : History) (ha : s.ctl.alive = true)
    (hr : s.ctl.reg = s.ctl.live) (hne : s.ctl.live ≠ []) (hwf : wfFrom s.ctl.live H = true)
    (hl : s.latest = latestOf k pre) :
    runFrom (combineLatest.step Data.ofList) s H = clItems k pre (beforeError H) ++ terminalOf s.ctl.live H := by
  induction H generalizing s pre with
  | nil =>
    simp [runFrom, terminalOf, clItems]
    cases h : s.ctl.live with
    | nil => exact absurd h hne
    | cons a l => simp
  | cons p H ih =>
    obtain ⟨i, ev⟩ := p
    rw [wf_cons] at hwf
    simp only [Bool.and_eq_true] at hwf
    obtain ⟨hi, hwf⟩ := hwf
    simp only [runFrom, combineLatest.step, Ctl.isLive, hi, if_true]
    cases ev with
    | next d =>
      have hl' : s.latest.set i (some d) = latestOf k (pre ++ [(i, .next d)]) := by rw [hl, latestOf_next]
      have hbe : beforeError ((i, Ev.next d) :: H) = (i, .next d) :: beforeError H := by
        simp [beforeError_cons, Ev.isError]
      rw [hbe, clItems_cons, terminalOf_cons_next]
      simp only [hl', latestOf_all, latestOf_vals, Ev.isNext, if_true, latestRow]
      split
      · simp only [Ctl.sinkNext, ha, if_true, Option.map_some, Option.toList_some, tupleEv, List.cons_append,
          List.nil_append]
        rw [ih { ctl := s.ctl, latest := latestOf k (pre ++ [(i, .next d)]) } (pre ++ [(i, .next d)]) ha hr hne
          (by simpa using hwf) rfl]
      · simp only [Option.map_none, Option.toList_none, List.nil_append]
        rw [ih { s with latest := latestOf k (pre ++ [(i, .next d)]) } (pre ++ [(i, .next d)]) ha hr hne
          (by simpa using hwf) rfl]
    | error e =>
      simp only [Ctl.sinkError, Ctl.kill, ha, if_true]
      rw [cl_dead _ _ _ (by simp [Ctl.finalize])]
      simp [beforeError_cons, Ev.isError, terminalOf, firstError_cons, clItems]
    | complete =>
      have hbe : beforeError ((i, Ev.complete) :: H) = (i, .complete) :: beforeError H := by
        simp [beforeError_cons, Ev.isError]
      have hl' : s.latest = latestOf k (pre ++ [(i, .complete)]) := by
        rw [hl, latestOf_other k pre i .complete rfl]
      simp only [Ctl.sinkComplete, Ctl.kill, ha, if_true]
      simp only [isTerminal_complete, if_true] at hwf
      rw [terminalOf_cons_complete, hbe, clItems_cons]
      simp only [Ev.isNext, Bool.false_eq_true, if_false, List.nil_append]
      split
      · rename_i hemp
        rw [cl_dead _ _ _ (by simp [Ctl.finalize])]
        have hnil : s.ctl.live.filter (· != i) = [] := by rw [← hr]; simpa using hemp
        rw [hnil] at hwf ⊢
        rw [wf_nil H hwf]
        simp [clItems, terminalOf]
      · rename_i hemp
        have hne' : s.ctl.live.filter (· != i) ≠ [] := by
          intro h0; apply hemp; rw [hr, h0]; rfl
        simp only [List.nil_append]
        rw [ih { ctl := ⟨true, s.ctl.reg.filter (· != i), s.ctl.live.filter (· != i)⟩, latest := s.latest }
          (pre ++ [(i, .complete)]) rfl (by simp [hr]) hne' hwf hl']

/-- **combine_latest** (after the repair of F9): for every well-formed history over `k ≥ 1` hot sources the code is
    the ReactiveX operator — on each item, once every source has emitted, the tuple of the latest item of every
    source (a completed source keeps its latest value); the first error ends the output at once; it completes when
    the last source completes. -/
theorem combine_latest_spec (k : Nat) (hk : 0 < k) (H : History) (hwf : WellFormed k H) :
    combineLatest.run k H = combineLatestSpec k H := by
  have := cl_from k (combineLatest.init k) [] H rfl rfl (by simp [combineLatest.init, Ctl.init]; omega) hwf
    (by rw [latestOf_nil]; rfl)
  simpa [combineLatest.run, combineLatestSpec, combineLatest.init, Ctl.init] using this

/-! ### what `WellFormed` means, declaratively -/

theorem wf_suffix (R : List Nat) (A B : History) (h : wfFrom R (A ++ B) = true) :
    ∃ R', (∀ x, R'.contains x = true → R.contains x = true) ∧ wfFrom R' B = true := by
  induction A generalizing R with
  | nil => exact ⟨R, fun _ h => h, h⟩
  | cons p A ih =>
    rw [List.cons_append, wf_cons] at h
    simp only [Bool.and_eq_true] at h
    obtain ⟨R', h1, h2⟩ := ih _ h.2
    refine ⟨R', ?_, h2⟩
    intro x hx
    have := h1 x hx
    split at this
    · simp only [List.contains_iff_mem, List.mem_filter] at this ⊢; exact this.1
    · exact this

theorem wfFrom_iff (R : List Nat) (H : History) :
    wfFrom R H = true ↔
      (∀ p ∈ H, p.1 ∈ R) ∧
        ∀ pre p post, H = pre ++ p :: post → p.2.isTerminal = true → ∀ q ∈ post, q.1 ≠ p.1 := by
  constructor
  · intro h
    refine ⟨wf_mem R H h, ?_⟩
    intro pre p post hH ht q hq
    subst hH
    obtain ⟨R', _, h2⟩ := wf_suffix R pre (p :: post) h
    rw [wf_cons] at h2
    simp only [Bool.and_eq_true, ht, if_true] at h2
    exact wf_not_mem _ post p.1 h2.2 (by simp) q hq
  · intro ⟨h1, h2⟩
    induction H generalizing R with
    | nil => rfl
    | cons p H ih =>
      rw [wf_cons]
      simp only [Bool.and_eq_true]
      refine ⟨by simpa using h1 p (by simp), ?_⟩
      apply ih
      · intro q hq
        have hqR := h1 q (by simp [hq])
        split
        · rename_i ht
          have := h2 [] p H rfl ht q hq
          simp only [List.mem_filter]
          exact ⟨hqR, by simpa using this⟩
        · exact hqR
      · intro pre p' post hH ht q hq
        exact h2 (p :: pre) p' post (by simp [hH]) ht q hq

/-- a history is well-formed iff every index is `< k` and no source speaks after its own terminal -/
theorem wellFormed_iff (k : Nat) (H : History) :
    WellFormed k H ↔
      (∀ p ∈ H, p.1 < k) ∧
        ∀ pre p post, H = pre ++ p :: post → p.2.isTerminal = true → ∀ q ∈ post, q.1 ≠ p.1 := by
  unfold WellFormed
  rw [wfFrom_iff]
  simp

/-- outputs only ever grow: what has been delivered after a prefix of the history stays delivered -/
theorem run_prefix {σ : Type} (step : σ → Nat × Ev → σ × List Ev) (s : σ) (H1 H2 : History) :
    runFrom step s H1 <+: runFrom step s (H1 ++ H2) := by
  rw [runFrom_append]; exact List.prefix_append _ _

theorem wellFormed_prefix (k : Nat) (H1 H2 : History) (h : WellFormed k (H1 ++ H2)) : WellFormed k H1 := by
  rw [wellFormed_iff] at h ⊢
  refine ⟨fun p hp => h.1 p (by simp [hp]), ?_⟩
  intro pre p post hH ht q hq
  exact h.2 pre p (post ++ H2) (by simp [hH]) ht q (by simp [hq])


/-- "emitted when the last of them arrives": as soon as a prefix `H1` of the history contains the n-th item
    of every source, the n-th tuple has been delivered (and stays delivered, whatever follows); by
    `zip_items_none` it is not delivered before. -/
theorem zip_timing (k : Nat) (hk : 0 < k) (H1 H2 : History) (hwf : WellFormed k (H1 ++ H2)) (n : Nat)
    (hn : ∀ i, i < k → n < (srcItems i (beforeError H1)).length) :
    (zip.run k (H1 ++ H2))[n]? =
      some (tupleEv ((List.range k).map fun i => (srcItems i (beforeError H1)).getD n .unit)) := by
  have h1 := zip_items k hk H1 (wellFormed_prefix k H1 H2 hwf) n hn
  obtain ⟨t, ht⟩ := run_prefix zip.step (zip.init k) H1 H2
  have hlt : n < (zip.run k H1).length := (List.getElem?_eq_some_iff.mp h1).1
  rw [zip.run, ← ht, List.getElem?_append_left (by simpa [zip.run] using hlt)]
  exact h1

/-! ### non-vacuity: concrete well-formed histories satisfying the hypotheses, with their outputs -/
/-! #### sequence_equal after the repair of F10: the sequences are zipped together with their end markers -/
section SeqEq
open sequenceEqual (withEnd endSome endNone)

/-- the machine = the closures of `sequenceEqualCode` over zip, run on the history as zip's observers see it -/
theorem se_run_withEnd (s : Over) (H : History) :
    runFrom sequenceEqual.step s H = runFrom sequenceEqualCode.step s (withEnd H) := by
  induction H generalizing s with
  | nil => rfl
  | cons p H ih =>
    obtain ⟨i, ev⟩ := p
    cases ev with
    | next d => simp only [runFrom, withEnd, sequenceEqual.step, ih]
    | error e => simp only [runFrom, withEnd, sequenceEqual.step, ih]
    | complete => simp only [runFrom, withEnd, sequenceEqual.step, ih, List.append_assoc]

theorem sequence_equal_run_eq (k : Nat) (H : History) :
    sequenceEqual.run k H = sequenceEqualCode.run k (withEnd H) := se_run_withEnd _ H

theorem withEnd_wf (R : List Nat) (H : History) (h : wfFrom R H = true) : wfFrom R (withEnd H) = true := by
  induction H generalizing R with
  | nil => rfl
  | cons p H ih =>
    obtain ⟨i, ev⟩ := p
    rw [wf_cons] at h
    simp only [Bool.and_eq_true] at h
    cases ev with
    | next d => simp only [withEnd, wf_cons, Ev.isTerminal, Bool.and_eq_true]; exact ⟨h.1, ih _ h.2⟩
    | error e => simp only [withEnd, wf_cons, Ev.isTerminal, Bool.and_eq_true]; exact ⟨h.1, ih _ h.2⟩
    | complete =>
      simp only [withEnd, wf_cons, Ev.isTerminal, Bool.and_eq_true, Bool.false_eq_true, ↓reduceIte]
      exact ⟨h.1, h.1, ih _ h.2⟩

theorem beforeError_withEnd (H : History) : beforeError (withEnd H) = withEnd (beforeError H) := by
  induction H with
  | nil => rfl
  | cons p H ih =>
    obtain ⟨i, ev⟩ := p
    cases ev with
    | next d => simp [withEnd, beforeError_cons, Ev.isError, ih]
    | error e => simp [withEnd, beforeError_cons, Ev.isError]
    | complete => simp [withEnd, beforeError_cons, Ev.isError, ih]

theorem firstError_withEnd (H : History) : firstError (withEnd H) = firstError H := by
  induction H with
  | nil => rfl
  | cons p H ih =>
    obtain ⟨i, ev⟩ := p
    cases ev <;> simp [withEnd, firstError_cons, ih]

theorem next_beq_complete (d : Data) : (Ev.next d == Ev.complete) = false := by
  rw [beq_eq_false_iff_ne]; exact fun h => nomatch h

theorem completedIn_withEnd (H : History) (j : Nat) : completedIn (withEnd H) j = completedIn H j := by
  induction H with
  | nil => rfl
  | cons p H ih =>
    obtain ⟨i, ev⟩ := p
    cases ev <;> simp [withEnd, completedIn_cons, ih, next_beq_complete]

theorem terminalOf_withEnd (R : List Nat) (H : History) : terminalOf R (withEnd H) = terminalOf R H := by
  have : completedIn (withEnd H) = completedIn H := funext (completedIn_withEnd H)
  simp only [terminalOf, firstError_withEnd, this]

theorem withEnd_src (H : History) : ∀ p ∈ withEnd H, ∃ q ∈ H, q.1 = p.1 := by
  induction H with
  | nil => intro p hp; cases hp
  | cons q H ih =>
    obtain ⟨i, ev⟩ := q
    intro p hp
    cases ev with
    | next d =>
      simp only [withEnd, List.mem_cons] at hp
      rcases hp with rfl | hp
      · exact ⟨(i, .next d), by simp, rfl⟩
      · obtain ⟨q, hq, e⟩ := ih p hp; exact ⟨q, by simp [hq], e⟩
    | error e =>
      simp only [withEnd, List.mem_cons] at hp
      rcases hp with rfl | hp
      · exact ⟨(i, .error e), by simp, rfl⟩
      · obtain ⟨q, hq, e⟩ := ih p hp; exact ⟨q, by simp [hq], e⟩
    | complete =>
      simp only [withEnd, List.mem_cons] at hp
      rcases hp with rfl | rfl | hp
      · exact ⟨(i, .complete), by simp, rfl⟩
      · exact ⟨(i, .complete), by simp, rfl⟩
      · obtain ⟨q, hq, e⟩ := ih p hp; exact ⟨q, by simp [hq], e⟩

theorem completedIn_absent (H : History) (j : Nat) (h : ∀ p ∈ H, p.1 ≠ j) : completedIn H j = false := by
  simp only [completedIn, List.any_eq_false, Bool.and_eq_true, beq_iff_eq, not_and]
  intro p hp q; exact absurd q (h p hp)

theorem endColumn_absent (H : History) (j : Nat) (h : ∀ p ∈ H, p.1 ≠ j) : endColumn j H = [] := by
  simp [endColumn, srcItems_eq_nil j H h, completedIn_absent H j h]

/-- what zip's observer `j` receives as items: the items of source `j`, then its end marker -/
theorem srcItems_withEnd (R : List Nat) (H : History) (j : Nat) (h : wfFrom R H = true) :
    srcItems j (withEnd H) = endColumn j H := by
  induction H generalizing R with
  | nil => rfl
  | cons p H ih =>
    obtain ⟨i, ev⟩ := p
    rw [wf_cons] at h
    simp only [Bool.and_eq_true] at h
    have ih' := ih _ h.2
    by_cases hij : i = j
    · subst hij
      cases ev with
      | next d =>
        simp only [withEnd, srcItems_cons, beq_self_eq_true, ↓reduceIte, ih', endColumn, completedIn_cons,
          next_beq_complete, Bool.and_false, Bool.false_or, List.map_append, List.map_cons, List.map_nil,
          List.append_assoc, endSome]
      | error e =>
        have hab : ∀ p ∈ H, p.1 ≠ i := wf_not_mem _ H i h.2 (by simp [Ev.isTerminal])
        have hab' : ∀ p ∈ withEnd H, p.1 ≠ i := by
          intro p hp; obtain ⟨q, hq, e⟩ := withEnd_src H p hp; rw [← e]; exact hab q hq
        simp only [withEnd, srcItems_cons, beq_self_eq_true, ↓reduceIte, List.nil_append]
        rw [srcItems_eq_nil i _ hab']
        simp [endColumn, srcItems_cons, srcItems_eq_nil i H hab, completedIn_cons, completedIn_absent H i hab]
      | complete =>
        have hab : ∀ p ∈ H, p.1 ≠ i := wf_not_mem _ H i h.2 (by simp [Ev.isTerminal])
        have hab' : ∀ p ∈ withEnd H, p.1 ≠ i := by
          intro p hp; obtain ⟨q, hq, e⟩ := withEnd_src H p hp; rw [← e]; exact hab q hq
        simp only [withEnd, srcItems_cons, beq_self_eq_true, ↓reduceIte, List.nil_append]
        rw [srcItems_eq_nil i _ hab']
        simp [endColumn, srcItems_cons, srcItems_eq_nil i H hab, completedIn_cons, endNone]
    · have hb : (i == j) = false := by rw [beq_eq_false_iff_ne]; exact hij
      cases ev with
      | next d => simp [withEnd, srcItems_cons, hb, ih', endColumn, completedIn_cons]
      | error e => simp [withEnd, srcItems_cons, hb, ih', endColumn, completedIn_cons]
      | complete => simp [withEnd, srcItems_cons, hb, ih', endColumn, completedIn_cons]

theorem columns_withEnd (k : Nat) (H : History) (h : WellFormed k H) :
    columns k (withEnd H) = endColumns k H := by
  simp only [columns, endColumns]
  apply List.map_congr_left
  intro j _
  exact srcItems_withEnd _ H j h

theorem seqPost_rows_then (rows : List (List Data)) (t : List Ev) :
    seqPost (rows.map tupleEv ++ t) =
      if rows.all rowSame then seqPost t else [.next (.bool false), .complete] := by
  induction rows with
  | nil => rfl
  | cons r rows ih =>
    have hrs : rowSame r = sequenceEqualCode.allSame r := rfl
    simp only [List.map_cons, List.cons_append, tupleEv, seqPost, Data.toList_ofList, List.all_cons, hrs]
    cases sequenceEqualCode.allSame r with
    | true => simpa using ih
    | false => simp

theorem wellFormed_beforeError (k : Nat) (H : History) (h : WellFormed k H) : WellFormed k (beforeError H) := by
  have : H = beforeError H ++ H.dropWhile (fun p => !p.2.isError) := by
    simp only [beforeError, List.takeWhile_append_dropWhile]
  rw [this] at h
  exact wellFormed_prefix k _ _ h

/-- **sequence_equal** (after the repair of F10): for every well-formed history over `k ≥ 1` hot sources the code is
    the ReactiveX operator — `false, complete` at the first position, reached by every source, at which two
    sequences (ends included) differ; the first error if it arrives before that; `true, complete` when all sources
    have completed with equal sequences. -/
theorem sequence_equal_spec (k : Nat) (hk : 0 < k) (H : History) (hwf : WellFormed k H) :
    sequenceEqual.run k H = sequenceEqualSpec k H := by
  rw [sequence_equal_run_eq, sequence_equal_code_eq, zip_spec k hk _ (withEnd_wf _ H hwf), zipSpec,
    beforeError_withEnd, columns_withEnd k _ (wellFormed_beforeError k H hwf), terminalOf_withEnd,
    seqPost_rows_then, sequenceEqualSpec]
  congr 1
  simp only [terminalOf, allCompleted]
  cases firstError H with
  | some e => rfl
  | none =>
    simp only []
    by_cases hc : (List.range k).all (completedIn H) = true <;> simp [hc, seqPost]


end SeqEq

section Examples
private def n (i : Int) : Ev := .next (.int i)

example : WellFormed 2 [(0, n 1), (1, n 2), (0, .complete), (1, n 3), (1, .complete)] ∧
    merge.run 2 [(0, n 1), (1, n 2), (0, .complete), (1, n 3), (1, .complete)] = [n 1, n 2, n 3, .complete] := by
  decide
example : WellFormed 2 [(0, n 1), (1, .error 7), (0, n 2)] ∧
    merge.run 2 [(0, n 1), (1, .error 7), (0, n 2)] = [n 1, .error 7] := by decide
example : WellFormed 3 [(1, n 1), (0, n 2), (1, n 3), (2, .complete), (1, .complete), (0, n 5)] ∧
    amb.run 3 [(1, n 1), (0, n 2), (1, n 3), (2, .complete), (1, .complete), (0, n 5)] = [n 1, n 3, .complete] := by
  decide
example : WellFormed 2 [(0, n 1), (1, .complete), (0, n 2)] ∧
    takeUntil.run 2 [(0, n 1), (1, .complete), (0, n 2)] = [n 1, n 2] := by decide
example : WellFormed 2 [(0, n 1), (0, n 2), (1, n 9), (0, n 3)] ∧
    takeUntil.run 2 [(0, n 1), (0, n 2), (1, n 9), (0, n 3)] = [n 1, n 2, .complete] := by decide
example : WellFormed 2 [(1, n 5), (0, n 1), (0, .complete), (1, n 2), (1, .complete)] ∧
    concat.run 2 [(1, n 5), (0, n 1), (0, .complete), (1, n 2), (1, .complete)] = [n 1, n 2, .complete] := by
  decide
example : WellFormed 2 [(0, n 1), (0, n 2), (1, n 10), (0, .complete), (1, n 20), (1, .complete)] ∧
    zip.run 2 [(0, n 1), (0, n 2), (1, n 10), (0, .complete), (1, n 20), (1, .complete)] =
      [tupleEv [.int 1, .int 10], tupleEv [.int 2, .int 20], .complete] := by decide
example : ∀ i, i < 2 → 1 < (srcItems i (beforeError
    [(0, n 1), (0, n 2), (1, n 10), (0, .complete), (1, n 20), (1, .complete)])).length := by decide
example : WellFormed 2 [(0, n 1), (1, n 9), (0, n 2), (1, .complete), (0, .complete)] ∧
    skipUntil.run 2 [(0, n 1), (1, n 9), (0, n 2), (1, .complete), (0, .complete)] = [n 2, .complete] := by decide
example : WellFormed 2 [(0, n 1), (0, n 2), (1, n 9), (1, n 9), (0, n 3), (1, n 9), (0, .complete)] ∧
    sample.run 2 [(0, n 1), (0, n 2), (1, n 9), (1, n 9), (0, n 3), (1, n 9), (0, .complete)] =
      [n 2, n 3, .complete] := by decide
example : WellFormed 3 [(0, n 1), (1, n 10), (2, n 5), (0, n 2), (2, n 20), (1, .complete), (0, .complete), (2, .complete)] ∧
    (0 :: fmSel (flatMap.defaultInner 3)
      [(0, n 1), (1, n 10), (2, n 5), (0, n 2), (2, n 20), (1, .complete), (0, .complete), (2, .complete)]).Nodup ∧
    flatMap.run 3 [(0, n 1), (1, n 10), (2, n 5), (0, n 2), (2, n 20), (1, .complete), (0, .complete), (2, .complete)] =
      [n 10, n 20, .complete] := by decide
example : WellFormed 2 [(0, n 1), (1, n 1), (0, n 2), (1, n 3), (0, .complete), (1, .complete)] ∧
    firstError [(0, n 1), (1, n 1), (0, n 2), (1, n 3), (0, .complete), (1, .complete)] = none ∧
    allCompleted 2 [(0, n 1), (1, n 1), (0, n 2), (1, n 3), (0, .complete), (1, .complete)] = true ∧
    (∀ i, i < 2 → (srcItems i [(0, n 1), (1, n 1), (0, n 2), (1, n 3), (0, .complete), (1, .complete)]).length = 2) ∧
    sequenceEqualCode.run 2 [(0, n 1), (1, n 1), (0, n 2), (1, n 3), (0, .complete), (1, .complete)] =
      [.next (.bool false), .complete] := by decide
/-! combine_latest after the repair of F9: a1 a2 b10 b20 a3 ⇒ (2,10) (2,20) (3,20); a source that has completed keeps
    its latest value; an error ends at once; a source completing without an item ⇒ nothing is ever emitted -/
example : WellFormed 2 [(0, n 1), (0, n 2), (1, n 10), (1, n 20), (0, n 3), (0, .complete), (1, n 30), (1, .complete)] ∧
    combineLatest.run 2 [(0, n 1), (0, n 2), (1, n 10), (1, n 20), (0, n 3), (0, .complete), (1, n 30), (1, .complete)] =
      [tupleEv [.int 2, .int 10], tupleEv [.int 2, .int 20], tupleEv [.int 3, .int 20], tupleEv [.int 3, .int 30],
       .complete] ∧
    combineLatestSpec 2
        [(0, n 1), (0, n 2), (1, n 10), (1, n 20), (0, n 3), (0, .complete), (1, n 30), (1, .complete)] =
      [tupleEv [.int 2, .int 10], tupleEv [.int 2, .int 20], tupleEv [.int 3, .int 20], tupleEv [.int 3, .int 30],
       .complete] := by decide
example : combineLatest.run 2 [(0, n 1), (1, n 10), (1, .error 7), (0, n 2)] = [tupleEv [.int 1, .int 10], .error 7] ∧
    combineLatest.run 2 [(0, .complete), (1, n 10), (1, n 20), (1, .complete)] = [.complete] ∧
    combineLatestSpec 2 [(0, .complete), (1, n 10), (1, n 20), (1, .complete)] = [.complete] := by decide
/-! sequence_equal after the repair: a=1, a completes, b=1, b=2: undecided after `b 1`, `false` at `b 2` (b's second
    item meets a's end); equal sequences ⇒ `true` at the last completion; two empty sequences ⇒ `true`; an error first
    ⇒ that error; three sources: the position must be reached by all of them -/
example : WellFormed 2 [(0, n 1), (0, .complete), (1, n 1), (1, n 2), (1, .complete)] ∧
    sequenceEqual.run 2 [(0, n 1), (0, .complete), (1, n 1)] = [] ∧
    sequenceEqual.run 2 [(0, n 1), (0, .complete), (1, n 1), (1, n 2)] = [.next (.bool false), .complete] ∧
    sequenceEqualSpec 2 [(0, n 1), (0, .complete), (1, n 1), (1, n 2)] = [.next (.bool false), .complete] ∧
    sequenceEqual.run 2 [(0, n 1), (0, .complete), (1, n 1), (1, n 2), (1, .complete)] =
      [.next (.bool false), .complete] := by decide
example : WellFormed 2 [(0, n 1), (1, n 1), (0, .complete), (1, .complete)] ∧
    sequenceEqual.run 2 [(0, n 1), (1, n 1), (0, .complete), (1, .complete)] = [.next (.bool true), .complete] ∧
    sequenceEqualSpec 2 [(0, n 1), (1, n 1), (0, .complete), (1, .complete)] = [.next (.bool true), .complete] ∧
    sequenceEqual.run 2 [(0, .complete), (1, .complete)] = [.next (.bool true), .complete] ∧
    sequenceEqual.run 2 [(0, n 1), (1, .error 7), (0, .complete)] = [.error 7] ∧
    sequenceEqualSpec 2 [(0, n 1), (1, .error 7), (0, .complete)] = [.error 7] := by decide
example : WellFormed 3 [(0, n 1), (1, n 2), (2, n 1)] ∧
    sequenceEqual.run 3 [(0, n 1), (1, n 2)] = [] ∧
    sequenceEqual.run 3 [(0, n 1), (1, n 2), (2, n 1)] = [.next (.bool false), .complete] ∧
    sequenceEqualSpec 3 [(0, n 1), (1, n 2), (2, n 1)] = [.next (.bool false), .complete] := by decide
end Examples

#print axioms merge_spec
#print axioms amb_spec
#print axioms take_until_spec
#print axioms concat_spec
#print axioms zip_spec
#print axioms zip_items
#print axioms zip_items_none
#print axioms zip_timing
#print axioms zipRows_getElem?
#print axioms zip_completion_late
#print axioms combine_latest_spec
#print axioms skip_until_spec
#print axioms sample_spec
#print axioms flat_map_spec
#print axioms sequence_equal_code_eq
#print axioms sequence_equal_run_eq
#print axioms sequence_equal_spec
#print axioms ready_set_go_run
#print axioms ready_set_go_no_loss
#print axioms ready_set_go_all
#print axioms run_late_loses_all
#print axioms wellFormed_iff

end Rx.Comb
