import RxVerif.Theorems.Sim
import RxVerif.Kernel.Chain
/-
SIM for chains, part 6 (pure): what the subscriber of the flat chain machine sees is the composition
of the stages' `Kernel.run`s (`chainRun`), although an upstream stage that has been unsubscribed by a
downstream stage only ever produces a prefix of its un-cancelled run.

Structure: (K) operations at or above observer `k` do not touch the part below `k`; (C) the part below
`k` evolves autonomously; (U) a delivery into observer `k` changes nothing above `k` unless it kills
observer `k`; (F) one stage: feeding stage `j` politely = feeding observer `j` politely with the
stage's own (machine-exact) kernel run; then induction over the stages.
-/
namespace Rx.Chain
open Rx.Sim

@[simp] theorem clear_sub (x : CSt) (j k : Nat) : (x.clear j).sub k = if k = j then false else x.sub k := rfl
@[simp] theorem clear_ar (x : CSt) (j k : Nat) : (x.clear j).ar k = if k = j then false else x.ar k := rfl
@[simp] theorem clear_rg (x : CSt) (j : Nat) : (x.clear j).rg = x.rg := rfl
@[simp] theorem clear_st (x : CSt) (j : Nat) : (x.clear j).st = x.st := rfl
@[simp] theorem clear_out (x : CSt) (j : Nat) : (x.clear j).out = x.out := rfl
@[simp] theorem unreg_rg (x : CSt) (j k : Nat) : (x.unreg j).rg k = if k = j then false else x.rg k := rfl
@[simp] theorem unreg_sub (x : CSt) (j : Nat) : (x.unreg j).sub = x.sub := rfl
@[simp] theorem unreg_ar (x : CSt) (j : Nat) : (x.unreg j).ar = x.ar := rfl
@[simp] theorem unreg_st (x : CSt) (j : Nat) : (x.unreg j).st = x.st := rfl
@[simp] theorem unreg_out (x : CSt) (j : Nat) : (x.unreg j).out = x.out := rfl
theorem upd_ne {α} (f : Nat → α) {i k : Nat} (v : α) (h : k ≠ i) : upd f i v k = f k := by
  simp [upd, h]
theorem upd_apply {α} (f : Nat → α) (i k : Nat) (v : α) : upd f i v k = if k = i then v else f k := rfl

/-- `y` differs from `x` only at indices `≥ k` -/
structure Keep (k : Nat) (y x : CSt) : Prop where
  out : y.out = x.out
  st : ∀ i, i < k → y.st i = x.st i
  sub : ∀ i, i < k → y.sub i = x.sub i
  ar : ∀ i, i < k → y.ar i = x.ar i
  rg : ∀ i, i < k → y.rg i = x.rg i

theorem Keep.refl (k : Nat) (x : CSt) : Keep k x x := ⟨rfl, fun _ _ => rfl, fun _ _ => rfl, fun _ _ => rfl, fun _ _ => rfl⟩

theorem Keep.trans {k : Nat} {z y x : CSt} (h1 : Keep k z y) (h2 : Keep k y x) : Keep k z x :=
  ⟨h1.out.trans h2.out, fun i hi => (h1.st i hi).trans (h2.st i hi), fun i hi => (h1.sub i hi).trans (h2.sub i hi),
   fun i hi => (h1.ar i hi).trans (h2.ar i hi), fun i hi => (h1.rg i hi).trans (h2.rg i hi)⟩

theorem Keep.mono {k k' : Nat} {y x : CSt} (h : Keep k y x) (hk : k' ≤ k) : Keep k' y x :=
  ⟨h.out, fun i hi => h.st i (by omega), fun i hi => h.sub i (by omega), fun i hi => h.ar i (by omega),
   fun i hi => h.rg i (by omega)⟩

theorem keep_clear {k i : Nat} (x : CSt) (h : k ≤ i) : Keep k (x.clear i) x := by
  refine ⟨rfl, fun _ _ => rfl, ?_, ?_, fun _ _ => rfl⟩ <;> intro a ha <;> simp <;> omega

theorem keep_unreg {k i : Nat} (x : CSt) (h : k ≤ i) : Keep k (x.unreg i) x := by
  refine ⟨rfl, fun _ _ => rfl, fun _ _ => rfl, fun _ _ => rfl, ?_⟩; intro a ha; simp; omega

theorem keep_setSt {k i : Nat} (x : CSt) (v : Data) (h : k ≤ i) : Keep k { x with st := upd x.st i v } x := by
  refine ⟨rfl, ?_, fun _ _ => rfl, fun _ _ => rfl, fun _ _ => rfl⟩; intro a ha; simp [upd_apply]; omega

theorem keep_setSubSt {k i : Nat} (x : CSt) (v : Data) (h : k ≤ i) :
    Keep k { x with sub := upd x.sub (i + 1) false, st := upd x.st i v } x := by
  refine ⟨rfl, ?_, ?_, fun _ _ => rfl, fun _ _ => rfl⟩ <;> intro a ha <;> simp [upd_apply] <;> omega

theorem finF_sub_false (up : CSt → CSt) (i : Nat) (x : CSt) : (finF up i x).sub i = false := by
  show (if ((if x.rg i then up x else x).unreg i).sub i then _ else _ : CSt).sub i = false
  generalize (if x.rg i then up x else x).unreg i = y
  cases h : y.sub i <;> simp [h]

theorem finF_keep {up : CSt → CSt} {i : Nat} (hup : ∀ x, Keep (i + 1) (up x) x) (x : CSt) :
    Keep i (finF up i x) x := by
  have h1 : Keep i (if x.rg i then up x else x) x := by
    split
    · exact (hup x).mono (Nat.le_succ _)
    · exact Keep.refl _ _
  have h2 := (keep_unreg (k := i) (if x.rg i then up x else x) (Nat.le_refl _)).trans h1
  show Keep i (if ((if x.rg i then up x else x).unreg i).sub i then _ else _) x
  generalize (if x.rg i then up x else x).unreg i = y at h2 ⊢
  cases h : y.sub i
  · simpa using h2
  · simpa using (keep_clear _ (Nat.le_refl _)).trans h2

theorem unsubO_keep : ∀ (f i : Nat) (x : CSt), Keep i (unsubO f i x) x := by
  intro f
  induction f with
  | zero => intro i x; exact keep_clear x (Nat.le_refl _)
  | succ f ih =>
    intro i x
    simp only [unsubO]
    split
    · exact (finF_keep (fun x => ih (i + 1) x) _).trans (keep_clear x (Nat.le_refl _))
    · exact keep_clear x (Nat.le_refl _)

theorem upO_keep (n i : Nat) (x : CSt) : Keep (i + 1) (upO n i x) x := unsubO_keep _ _ _
theorem finC_keep (n i : Nat) (x : CSt) : Keep i (finC n i x) x := finF_keep (upO_keep n i) x
theorem finC_sub_false (n i : Nat) (x : CSt) : (finC n i x).sub i = false := finF_sub_false _ _ _

/-! ### (D) once observer `j` is dead, stage `j` no longer touches anything below it -/

theorem emitAllC_dead (n : Nat) (dn : Ev → CSt → CSt) (j : Nat) (ds : List Data) (x : CSt)
    (hs : x.sub j = false) : emitAllC n dn j ds x = x := by
  cases ds <;> simp [emitAllC, hs]

theorem actC_dead (n : Nat) (dn : Ev → CSt → CSt) (j : Nat) (a : Act) (x : CSt) (hs : x.sub j = false) :
    Keep j (actC n dn j a x) x ∧ (actC n dn j a x).sub j = false := by
  cases a with
  | emit d => simp only [actC, sinkNextC, hs]; exact ⟨finC_keep n j x, finC_sub_false n j x⟩
  | emitAll ds => simp only [actC, emitAllC_dead n dn j ds x hs]; exact ⟨Keep.refl _ _, hs⟩
  | fail e => simp only [actC, hs]; exact ⟨finC_keep n j x, finC_sub_false n j x⟩
  | complete => simp only [actC, hs]; exact ⟨finC_keep n j x, finC_sub_false n j x⟩
  | finalize => simp only [actC]; exact ⟨finC_keep n j x, finC_sub_false n j x⟩
  | abortSelf =>
    simp only [actC]
    split
    · have h := upO_keep n j (x.unreg j)
      exact ⟨(h.mono (Nat.le_succ _)).trans (keep_unreg x (Nat.le_refl _)),
        by rw [h.sub j (Nat.lt_succ_self _)]; simpa using hs⟩
    · exact ⟨keep_unreg x (Nat.le_refl _), by simpa using hs⟩

theorem actsC_dead (n : Nat) (dn : Ev → CSt → CSt) (j : Nat) (as : List Act) : ∀ (x : CSt),
    x.sub j = false → Keep j (actsC n dn j as x) x ∧ (actsC n dn j as x).sub j = false := by
  induction as with
  | nil => intro x hs; exact ⟨Keep.refl _ _, hs⟩
  | cons a as ih =>
    intro x hs
    simp only [actsC, List.foldl_cons]
    have h1 := actC_dead n dn j a x hs
    have h2 := ih _ h1.2
    exact ⟨h2.1.trans h1.1, h2.2⟩

theorem deliver_dead (n : Nat) (ks : Nat → DK) (j : Nat) (ev : Ev) (x : CSt) (hs : x.sub j = false) :
    Keep j (deliver n ks (j + 1) ev x) x ∧ (deliver n ks (j + 1) ev x).sub j = false := by
  simp only [deliver]
  split
  · cases ev with
    | next d =>
      simp only
      have h := actsC_dead n (deliver n ks j) j ((ks j).onNext (x.st j) d).2
        { x with st := upd x.st j ((ks j).onNext (x.st j) d).1 } hs
      exact ⟨h.1.trans (keep_setSt x _ (Nat.le_refl _)), h.2⟩
    | error e =>
      simp only
      have h := actsC_dead n (deliver n ks j) j ((ks j).onError (x.st j) e).2
        { x with sub := upd x.sub (j + 1) false, st := upd x.st j ((ks j).onError (x.st j) e).1 }
        (by simpa [upd_apply] using hs)
      exact ⟨h.1.trans (keep_setSubSt x _ (Nat.le_refl _)), h.2⟩
    | complete =>
      simp only
      have h := actsC_dead n (deliver n ks j) j ((ks j).onComplete (x.st j)).2
        { x with sub := upd x.sub (j + 1) false, st := upd x.st j ((ks j).onComplete (x.st j)).1 }
        (by simpa [upd_apply] using hs)
      exact ⟨h.1.trans (keep_setSubSt x _ (Nat.le_refl _)), h.2⟩
  · exact ⟨Keep.refl _ _, hs⟩

/-! ### (C) the part at and below observer `k` evolves autonomously -/

/-- `y` and `z` agree below `k` (stages `< k`, observers `≤ k`, the subscriber's log) -/
structure LoEq (k : Nat) (y z : CSt) : Prop where
  out : y.out = z.out
  st : ∀ i, i < k → y.st i = z.st i
  rg : ∀ i, i < k → y.rg i = z.rg i
  ar : ∀ i, i < k → y.ar i = z.ar i
  sub : ∀ i, i ≤ k → y.sub i = z.sub i

theorem LoEq.refl (k : Nat) (x : CSt) : LoEq k x x :=
  ⟨rfl, fun _ _ => rfl, fun _ _ => rfl, fun _ _ => rfl, fun _ _ => rfl⟩
theorem LoEq.symm {k : Nat} {y z : CSt} (h : LoEq k y z) : LoEq k z y :=
  ⟨h.out.symm, fun i hi => (h.st i hi).symm, fun i hi => (h.rg i hi).symm, fun i hi => (h.ar i hi).symm,
   fun i hi => (h.sub i hi).symm⟩
theorem LoEq.trans {k : Nat} {x y z : CSt} (h1 : LoEq k x y) (h2 : LoEq k y z) : LoEq k x z :=
  ⟨h1.out.trans h2.out, fun i hi => (h1.st i hi).trans (h2.st i hi), fun i hi => (h1.rg i hi).trans (h2.rg i hi),
   fun i hi => (h1.ar i hi).trans (h2.ar i hi), fun i hi => (h1.sub i hi).trans (h2.sub i hi)⟩

theorem loEq_of_keep_sub {k : Nat} {y' y : CSt} (h : Keep k y' y) (hs : y'.sub k = y.sub k) : LoEq k y' y :=
  ⟨h.out, h.st, h.rg, h.ar, fun i hi => by
    rcases Nat.lt_or_ge i k with hlt | hge
    · exact h.sub i hlt
    · have : i = k := by omega
      subst this; exact hs⟩

theorem loEq_of_keep {k : Nat} {y' y : CSt} (h : Keep (k + 1) y' y) : LoEq k y' y :=
  loEq_of_keep_sub (h.mono (Nat.le_succ _)) (h.sub k (Nat.lt_succ_self _))

theorem clear_congr {k : Nat} {y z : CSt} (i : Nat) (h : LoEq k y z) : LoEq k (y.clear i) (z.clear i) := by
  refine ⟨h.out, h.st, h.rg, ?_, ?_⟩
  · intro a ha; simp only [clear_ar]; split
    · rfl
    · exact h.ar a ha
  · intro a ha; simp only [clear_sub]; split
    · rfl
    · exact h.sub a ha

theorem unreg_congr {k : Nat} {y z : CSt} (i : Nat) (h : LoEq k y z) : LoEq k (y.unreg i) (z.unreg i) := by
  refine ⟨h.out, h.st, ?_, h.ar, h.sub⟩
  intro a ha; simp only [unreg_rg]; split
  · rfl
  · exact h.rg a ha

theorem finF_eq (up : CSt → CSt) (i : Nat) (x : CSt) :
    finF up i x = if ((if x.rg i then up x else x).unreg i).sub i
      then ((if x.rg i then up x else x).unreg i).clear i else (if x.rg i then up x else x).unreg i := rfl

theorem ite_clear_congr {k i : Nat} {y1 z1 : CSt} (h1 : LoEq k y1 z1) (hi : i ≤ k) :
    LoEq k (if y1.sub i then y1.clear i else y1) (if z1.sub i then z1.clear i else z1) := by
  rw [h1.sub i hi]
  cases z1.sub i
  · simpa using h1
  · simpa using clear_congr i h1

theorem finF_congr_lt {k i : Nat} {up : CSt → CSt} (hi : i < k)
    (hup : ∀ y z, LoEq k y z → LoEq k (up y) (up z)) {y z : CSt} (h : LoEq k y z) :
    LoEq k (finF up i y) (finF up i z) := by
  have h1 : LoEq k ((if y.rg i then up y else y).unreg i) ((if z.rg i then up z else z).unreg i) := by
    apply unreg_congr
    rw [h.rg i hi]
    split
    · exact hup _ _ h
    · exact h
  rw [finF_eq, finF_eq]
  exact ite_clear_congr h1 (Nat.le_of_lt hi)

theorem finF_congr_eq {k : Nat} {up : CSt → CSt} (hup : ∀ x, Keep (k + 1) (up x) x) {y z : CSt}
    (h : LoEq k y z) : LoEq k (finF up k y) (finF up k z) := by
  have hy : LoEq k (if y.rg k then up y else y) y := by
    split
    · exact loEq_of_keep (hup y)
    · exact LoEq.refl _ _
  have hz : LoEq k (if z.rg k then up z else z) z := by
    split
    · exact loEq_of_keep (hup z)
    · exact LoEq.refl _ _
  have h1 : LoEq k ((if y.rg k then up y else y).unreg k) ((if z.rg k then up z else z).unreg k) :=
    unreg_congr k (hy.trans (h.trans hz.symm))
  rw [finF_eq, finF_eq]
  exact ite_clear_congr h1 (Nat.le_refl _)

theorem finF_dead_loEq {k : Nat} {up : CSt → CSt} (hup : ∀ x, Keep (k + 1) (up x) x) {y : CSt}
    (hs : y.sub k = false) : LoEq k (finF up k y) y :=
  loEq_of_keep_sub (finF_keep hup y) (by rw [finF_sub_false, hs])

theorem unsubO_congr_le {k : Nat} : ∀ (f i : Nat) (y z : CSt), i ≤ k → LoEq k y z →
    LoEq k (unsubO f i y) (unsubO f i z) := by
  intro f
  induction f with
  | zero => intro i y z _ h; exact clear_congr i h
  | succ f ih =>
    intro i y z hik h
    simp only [unsubO]
    have hc := clear_congr i h
    rcases Nat.lt_or_ge i k with hlt | hge
    · rw [h.ar i hlt]
      split
      · exact finF_congr_lt hlt (fun y z h => ih (i + 1) y z hlt h) hc
      · exact hc
    · have : i = k := by omega
      subst this
      have hk : ∀ x, Keep (i + 1) (unsubO f (i + 1) x) x := fun x => unsubO_keep _ _ _
      cases hy : y.ar i <;> cases hz : z.ar i <;> simp only [Bool.false_eq_true, ↓reduceIte]
      · exact hc
      · exact hc.trans (finF_dead_loEq hk (by simp)).symm
      · exact (finF_dead_loEq hk (by simp)).trans hc
      · exact finF_congr_eq hk hc

theorem unsubO_congr {k : Nat} (f i : Nat) {y z : CSt} (h : LoEq k y z) :
    LoEq k (unsubO f i y) (unsubO f i z) := by
  rcases Nat.lt_or_ge k i with hlt | hge
  · have hy := loEq_of_keep ((unsubO_keep f i y).mono (show k + 1 ≤ i by omega))
    have hz := loEq_of_keep ((unsubO_keep f i z).mono (show k + 1 ≤ i by omega))
    exact hy.trans (h.trans hz.symm)
  · exact unsubO_congr_le f i y z hge h

def DnCongr (k : Nat) (dn : Ev → CSt → CSt) : Prop :=
  ∀ ev y z, LoEq k y z → LoEq k (dn ev y) (dn ev z)

section congr
variable {n k i : Nat} {dn : Ev → CSt → CSt}

theorem finC_congr (hi : i ≤ k) {y z : CSt} (h : LoEq k y z) : LoEq k (finC n i y) (finC n i z) := by
  rcases Nat.lt_or_ge i k with hlt | hge
  · exact finF_congr_lt hlt (fun y z h => unsubO_congr _ _ h) h
  · have : i = k := by omega
    subst this
    exact finF_congr_eq (upO_keep n i) h

theorem sinkNextC_congr (hi : i ≤ k) (hd : DnCongr k dn) (d : Data) {y z : CSt} (h : LoEq k y z) :
    LoEq k (sinkNextC n dn i d y) (sinkNextC n dn i d z) := by
  simp only [sinkNextC, h.sub i hi]
  split
  · exact hd _ _ _ h
  · exact finC_congr hi h

theorem emitAllC_congr (hi : i ≤ k) (hd : DnCongr k dn) (ds : List Data) : ∀ {y z : CSt}, LoEq k y z →
    LoEq k (emitAllC n dn i ds y) (emitAllC n dn i ds z) := by
  induction ds with
  | nil => intro y z h; exact h
  | cons d ds ih =>
    intro y z h
    simp only [emitAllC, h.sub i hi]
    split
    · exact ih (sinkNextC_congr hi hd d h)
    · exact h

theorem actC_congr (hi : i < k) (hd : DnCongr k dn) (a : Act) {y z : CSt} (h : LoEq k y z) :
    LoEq k (actC n dn i a y) (actC n dn i a z) := by
  have hle := Nat.le_of_lt hi
  cases a with
  | emit d => exact sinkNextC_congr hle hd d h
  | emitAll ds => exact emitAllC_congr hle hd ds h
  | fail e =>
    simp only [actC, h.sub i hle]
    split
    · exact finC_congr hle (hd _ _ _ h)
    · exact finC_congr hle h
  | complete =>
    simp only [actC, h.sub i hle]
    split
    · exact finC_congr hle (hd _ _ _ (unreg_congr i h))
    · exact finC_congr hle h
  | abortSelf =>
    simp only [actC, h.rg i hi]
    split
    · exact unsubO_congr _ _ (unreg_congr i h)
    · exact unreg_congr i h
  | finalize => exact finC_congr hle h

theorem actsC_congr (hi : i < k) (hd : DnCongr k dn) (as : List Act) : ∀ {y z : CSt}, LoEq k y z →
    LoEq k (actsC n dn i as y) (actsC n dn i as z) := by
  induction as with
  | nil => intro y z h; exact h
  | cons a as ih =>
    intro y z h
    simp only [actsC, List.foldl_cons]
    exact ih (actC_congr hi hd a h)

end congr

theorem setSt_congr {k j : Nat} {y z : CSt} (v : Data) (h : LoEq k y z) :
    LoEq k { y with st := upd y.st j v } { z with st := upd z.st j v } := by
  refine ⟨h.out, ?_, h.rg, h.ar, h.sub⟩
  intro a ha; simp only [upd_apply]; split
  · rfl
  · exact h.st a ha

theorem setSubSt_congr {k j : Nat} {y z : CSt} (v : Data) (h : LoEq k y z) :
    LoEq k { y with sub := upd y.sub (j + 1) false, st := upd y.st j v }
      { z with sub := upd z.sub (j + 1) false, st := upd z.st j v } := by
  refine ⟨h.out, ?_, h.rg, h.ar, ?_⟩
  · intro a ha; simp only [upd_apply]; split
    · rfl
    · exact h.st a ha
  · intro a ha; simp only [upd_apply]; split
    · rfl
    · exact h.sub a ha

theorem deliver_congr (n : Nat) (ks : Nat → DK) (k : Nat) : ∀ i, i ≤ k → DnCongr k (deliver n ks i) := by
  intro i
  induction i with
  | zero =>
    intro _ ev y z h
    simp only [deliver, h.sub 0 (Nat.zero_le _)]
    split
    · refine ⟨by simp [h.out], h.st, h.rg, h.ar, ?_⟩
      intro a ha
      show (if ev.isTerminal then upd y.sub 0 false else y.sub) a = (if ev.isTerminal then upd z.sub 0 false else z.sub) a
      split
      · simp only [upd_apply]; split
        · rfl
        · exact h.sub a ha
      · exact h.sub a ha
    · exact h
  | succ j ih =>
    intro hj ev y z h
    have hjk : j < k := by omega
    have hd := ih (Nat.le_of_lt hjk)
    simp only [deliver, h.sub (j + 1) hj, h.st j hjk]
    split
    · cases ev with
      | next d => exact actsC_congr hjk hd _ (setSt_congr _ h)
      | error e => exact actsC_congr hjk hd _ (setSubSt_congr _ h)
      | complete => exact actsC_congr hjk hd _ (setSubSt_congr _ h)
    · exact h

/-! ### (M) nothing ever re-subscribes an observer -/

def Mono (f : CSt → CSt) : Prop := ∀ x k, x.sub k = false → (f x).sub k = false

theorem mono_id : Mono (fun x => x) := fun _ _ h => h
theorem Mono.comp {f g : CSt → CSt} (hf : Mono f) (hg : Mono g) : Mono (fun x => g (f x)) :=
  fun x k h => hg _ k (hf x k h)
theorem mono_ite {c : CSt → Bool} {f g : CSt → CSt} (hf : Mono f) (hg : Mono g) :
    Mono (fun x => if c x then f x else g x) := by
  intro x k h; show (if c x then f x else g x).sub k = false
  split
  · exact hf x k h
  · exact hg x k h
theorem mono_clear (j : Nat) : Mono (fun x => x.clear j) := by
  intro x k h; simp only [clear_sub]; split
  · rfl
  · exact h
theorem mono_unreg (j : Nat) : Mono (fun x => x.unreg j) := fun _ _ h => h

theorem mono_finF {up : CSt → CSt} (hup : Mono up) (i : Nat) : Mono (finF up i) := by
  intro x k h
  rw [finF_eq]
  have h1 : ((if x.rg i then up x else x).unreg i).sub k = false := by
    show (if x.rg i then up x else x).sub k = false
    split
    · exact hup x k h
    · exact h
  generalize (if x.rg i then up x else x).unreg i = y at h1 ⊢
  split
  · exact mono_clear i y k h1
  · exact h1

theorem mono_unsubO : ∀ (f i : Nat), Mono (unsubO f i) := by
  intro f
  induction f with
  | zero => intro i; exact mono_clear i
  | succ f ih =>
    intro i x k h
    simp only [unsubO]
    split
    · exact mono_finF (ih (i + 1)) i _ k (mono_clear i x k h)
    · exact mono_clear i x k h

theorem mono_finC (n i : Nat) : Mono (finC n i) := mono_finF (mono_unsubO _ _) i

section mono
variable {n i : Nat} {dn : Ev → CSt → CSt}

theorem mono_sinkNextC (hd : ∀ ev, Mono (dn ev)) (d : Data) : Mono (sinkNextC n dn i d) := by
  intro x k h; simp only [sinkNextC]; split
  · exact hd _ x k h
  · exact mono_finC n i x k h

theorem mono_emitAllC (hd : ∀ ev, Mono (dn ev)) (ds : List Data) : Mono (emitAllC n dn i ds) := by
  induction ds with
  | nil => exact mono_id
  | cons d ds ih =>
    intro x k h; simp only [emitAllC]; split
    · exact ih _ k (mono_sinkNextC hd d x k h)
    · exact h

theorem mono_actC (hd : ∀ ev, Mono (dn ev)) (a : Act) : Mono (actC n dn i a) := by
  cases a with
  | emit d => exact mono_sinkNextC hd d
  | emitAll ds => exact mono_emitAllC hd ds
  | fail e =>
    intro x k h; simp only [actC]; split
    · exact mono_finC n i _ k (hd _ x k h)
    · exact mono_finC n i x k h
  | complete =>
    intro x k h; simp only [actC]; split
    · exact mono_finC n i _ k (hd _ _ k h)
    · exact mono_finC n i x k h
  | abortSelf =>
    intro x k h; simp only [actC]; split
    · exact mono_unsubO _ _ _ k h
    · exact h
  | finalize => exact mono_finC n i

theorem mono_actsC (hd : ∀ ev, Mono (dn ev)) (as : List Act) : Mono (actsC n dn i as) := by
  induction as with
  | nil => exact mono_id
  | cons a as ih =>
    intro x k h
    simp only [actsC, List.foldl_cons]
    exact ih _ k (mono_actC hd a x k h)

end mono

theorem mono_deliver (n : Nat) (ks : Nat → DK) : ∀ i ev, Mono (deliver n ks i ev) := by
  intro i
  induction i with
  | zero =>
    intro ev x k h
    simp only [deliver]; split
    · show (if ev.isTerminal then upd x.sub 0 false else x.sub) k = false
      split
      · simp only [upd_apply]; split
        · rfl
        · exact h
      · exact h
    · exact h
  | succ j ih =>
    intro ev x k h
    simp only [deliver]; split
    · cases ev with
      | next d => exact mono_actsC ih _ _ k h
      | error e =>
        apply mono_actsC ih _ _ k
        show upd x.sub (j + 1) false k = false
        simp only [upd_apply]; split
        · rfl
        · exact h
      | complete =>
        apply mono_actsC ih _ _ k
        show upd x.sub (j + 1) false k = false
        simp only [upd_apply]; split
        · rfl
        · exact h
    · exact h

/-! ### (U) a delivery into observer `k` changes nothing above `k` unless observer `k` dies -/

structure UpSame (k : Nat) (y x : CSt) : Prop where
  rg : ∀ a, k ≤ a → y.rg a = x.rg a
  sub : ∀ a, k < a → y.sub a = x.sub a
  ar : ∀ a, k < a → y.ar a = x.ar a

theorem UpSame.refl (k : Nat) (x : CSt) : UpSame k x x := ⟨fun _ _ => rfl, fun _ _ => rfl, fun _ _ => rfl⟩
theorem UpSame.trans {k : Nat} {z y x : CSt} (h1 : UpSame k z y) (h2 : UpSame k y x) : UpSame k z x :=
  ⟨fun a ha => (h1.rg a ha).trans (h2.rg a ha), fun a ha => (h1.sub a ha).trans (h2.sub a ha),
   fun a ha => (h1.ar a ha).trans (h2.ar a ha)⟩

def Casc (i : Nat) (f : CSt → CSt) : Prop := ∀ x k, i ≤ k → (f x).sub k = false ∨ UpSame k (f x) x

theorem Casc.lift {i i' : Nat} {f : CSt → CSt} (h : Casc i f) (hi : i ≤ i') : Casc i' f :=
  fun x k hk => h x k (by omega)

theorem casc_id (i : Nat) : Casc i (fun x => x) := fun x k _ => Or.inr (UpSame.refl k x)

theorem Casc.comp {i : Nat} {f g : CSt → CSt} (hf : Casc i f) (hg : Casc i g) (mg : Mono g) :
    Casc i (fun x => g (f x)) := by
  intro x k hk
  rcases hf x k hk with h | h
  · exact Or.inl (mg _ k h)
  · rcases hg (f x) k hk with h' | h'
    · exact Or.inl h'
    · exact Or.inr (h'.trans h)

theorem casc_ite {i : Nat} {c : CSt → Bool} {f g : CSt → CSt} (hf : Casc i f) (hg : Casc i g) :
    Casc i (fun x => if c x then f x else g x) := by
  intro x k hk; show (if c x then f x else g x).sub k = false ∨ UpSame k (if c x then f x else g x) x
  split
  · exact hf x k hk
  · exact hg x k hk

theorem casc_clear (j : Nat) : Casc j (fun x => x.clear j) := by
  intro x k hk
  rcases Nat.lt_or_ge j k with hlt | hge
  · refine Or.inr ⟨fun _ _ => rfl, ?_, ?_⟩ <;> intro a ha <;> simp <;> omega
  · have : k = j := by omega
    subst this; left; simp

theorem casc_unreg (j : Nat) : Casc (j + 1) (fun x => x.unreg j) := by
  intro x k hk
  refine Or.inr ⟨?_, fun _ _ => rfl, fun _ _ => rfl⟩
  intro a ha; simp; omega

theorem casc_finF {up : CSt → CSt} {i : Nat} (hup : Casc (i + 1) up) (mup : Mono up) : Casc i (finF up i) := by
  intro x k hk
  rcases Nat.lt_or_ge i k with hlt | hge
  · have c1 : Casc (i + 1) (fun x => if x.rg i then up x else x) := casc_ite hup (casc_id _)
    have c2 := c1.comp (casc_unreg i) (mono_unreg i)
    have c3 : Casc (i + 1) (fun y : CSt => if y.sub i then y.clear i else y) :=
      casc_ite ((casc_clear i).lift (Nat.le_succ _)) (casc_id _)
    have m3 : Mono (fun y : CSt => if y.sub i then y.clear i else y) := mono_ite (mono_clear i) mono_id
    exact c2.comp c3 m3 x k hlt
  · have : k = i := by omega
    subst this; left; exact finF_sub_false _ _ _

theorem casc_unsubO : ∀ (f i : Nat), Casc i (unsubO f i) := by
  intro f
  induction f with
  | zero => intro i; exact casc_clear i
  | succ f ih =>
    intro i
    have c1 := (casc_clear i).comp (casc_finF (ih (i + 1)) (mono_unsubO f (i + 1)))
      (mono_finF (mono_unsubO f (i + 1)) i)
    intro x k hk
    simp only [unsubO]
    split
    · exact c1 x k hk
    · exact casc_clear i x k hk

theorem casc_finC (n i : Nat) : Casc i (finC n i) := casc_finF (casc_unsubO _ _) (mono_unsubO _ _)

section casc
variable {n i : Nat} {dn : Ev → CSt → CSt}

theorem casc_sinkNextC (hm : ∀ ev, Mono (dn ev)) (hc : ∀ ev, Casc i (dn ev)) (d : Data) :
    Casc (i + 1) (sinkNextC n dn i d) :=
  casc_ite (c := fun x => x.sub i) ((hc _).lift (Nat.le_succ _)) ((casc_finC n i).lift (Nat.le_succ _))

theorem casc_emitAllC (hm : ∀ ev, Mono (dn ev)) (hc : ∀ ev, Casc i (dn ev)) (ds : List Data) :
    Casc (i + 1) (emitAllC n dn i ds) := by
  induction ds with
  | nil => exact casc_id _
  | cons d ds ih =>
    exact casc_ite (c := fun x => x.sub i) ((casc_sinkNextC hm hc d).comp ih (mono_emitAllC hm ds)) (casc_id _)

theorem casc_actC (hm : ∀ ev, Mono (dn ev)) (hc : ∀ ev, Casc i (dn ev)) (a : Act) :
    Casc (i + 1) (actC n dn i a) := by
  have hf := (casc_finC n i).lift (Nat.le_succ i)
  cases a with
  | emit d => exact casc_sinkNextC hm hc d
  | emitAll ds => exact casc_emitAllC hm hc ds
  | fail e =>
    exact casc_ite (c := fun x => x.sub i) (((hc _).lift (Nat.le_succ _)).comp hf (mono_finC n i)) hf
  | complete =>
    exact casc_ite (c := fun x => x.sub i)
      (((casc_unreg i).comp ((hc _).lift (Nat.le_succ _)) (hm _)).comp hf (mono_finC n i)) hf
  | abortSelf =>
    exact casc_ite (c := fun x => x.rg i) ((casc_unreg i).comp (casc_unsubO _ _) (mono_unsubO _ _))
      (casc_unreg i)
  | finalize => exact hf

theorem casc_actsC (hm : ∀ ev, Mono (dn ev)) (hc : ∀ ev, Casc i (dn ev)) (as : List Act) :
    Casc (i + 1) (actsC n dn i as) := by
  induction as with
  | nil => exact casc_id _
  | cons a as ih =>
    exact (casc_actC hm hc a).comp ih (mono_actsC hm as)

end casc

theorem casc_deliver (n : Nat) (ks : Nat → DK) : ∀ i ev, Casc i (deliver n ks i ev) := by
  intro i
  induction i with
  | zero =>
    intro ev x k _
    right
    simp only [deliver]; split
    · refine ⟨fun _ _ => rfl, ?_, fun _ _ => rfl⟩
      intro a ha
      show (if ev.isTerminal then upd x.sub 0 false else x.sub) a = x.sub a
      split
      · simp only [upd_apply]; split
        · omega
        · rfl
      · rfl
    · exact UpSame.refl _ _
  | succ j ih =>
    intro ev x k hk
    have hm := mono_deliver n ks j
    simp only [deliver]; split
    · have hsub : ∀ v : CSt → Data, Casc (j + 1) (fun x : CSt => { x with sub := upd x.sub (j + 1) false, st := upd x.st j (v x) }) := by
        intro v x k hk
        rcases Nat.lt_or_ge (j + 1) k with hlt | hge
        · refine Or.inr ⟨fun _ _ => rfl, ?_, fun _ _ => rfl⟩
          intro a ha; simp only [upd_apply]; split
          · omega
          · rfl
        · have : k = j + 1 := by omega
          subst this; left; simp [upd_apply]
      cases ev with
      | next d =>
        have c0 : Casc (j + 1) (fun x : CSt => { x with st := upd x.st j ((ks j).onNext (x.st j) d).1 }) :=
          fun x k _ => Or.inr ⟨fun _ _ => rfl, fun _ _ => rfl, fun _ _ => rfl⟩
        rcases c0 x k hk with h | h
        · exact Or.inl (mono_actsC hm _ _ k h)
        · rcases casc_actsC hm ih ((ks j).onNext (x.st j) d).2 _ k hk with h' | h'
          · exact Or.inl h'
          · exact Or.inr (h'.trans h)
      | error e =>
        rcases hsub (fun x => ((ks j).onError (x.st j) e).1) x k hk with h | h
        · exact Or.inl (mono_actsC hm _ _ k h)
        · rcases casc_actsC hm ih ((ks j).onError (x.st j) e).2 _ k hk with h' | h'
          · exact Or.inl h'
          · exact Or.inr (h'.trans h)
      | complete =>
        rcases hsub (fun x => ((ks j).onComplete (x.st j)).1) x k hk with h | h
        · exact Or.inl (mono_actsC hm _ _ k h)
        · rcases casc_actsC hm ih ((ks j).onComplete (x.st j)).2 _ k hk with h' | h'
          · exact Or.inl h'
          · exact Or.inr (h'.trans h)
    · exact Or.inr (UpSame.refl _ _)

/-- the form used below: a delivery that leaves observer `k` alive has touched nothing above it -/
theorem deliver_alive_up (n : Nat) (ks : Nat → DK) (k : Nat) (ev : Ev) (x : CSt)
    (h : (deliver n ks k ev x).sub k = true) : UpSame k (deliver n ks k ev x) x := by
  rcases casc_deliver n ks k ev x k (Nat.le_refl _) with h' | h'
  · rw [h'] at h; cases h
  · exact h'

/-! ### (S) kernel states: the cascade never touches them, a delivery into `i` only those below `i` -/

theorem finF_st {up : CSt → CSt} (hup : ∀ x, (up x).st = x.st) (i : Nat) (x : CSt) : (finF up i x).st = x.st := by
  rw [finF_eq]
  have h1 : ((if x.rg i then up x else x).unreg i).st = x.st := by
    show (if x.rg i then up x else x).st = x.st
    split
    · exact hup x
    · rfl
  generalize (if x.rg i then up x else x).unreg i = y at h1 ⊢
  split
  · exact h1
  · exact h1

theorem unsubO_st : ∀ (f i : Nat) (x : CSt), (unsubO f i x).st = x.st := by
  intro f
  induction f with
  | zero => intro i x; rfl
  | succ f ih =>
    intro i x
    simp only [unsubO]; split
    · rw [finF_st (ih (i + 1))]; rfl
    · rfl

theorem finC_st (n i : Nat) (x : CSt) : (finC n i x).st = x.st := finF_st (unsubO_st _ _) i x

def StUp (i : Nat) (f : CSt → CSt) : Prop := ∀ x a, i ≤ a → (f x).st a = x.st a

section stup
variable {n i : Nat} {dn : Ev → CSt → CSt}

theorem stUp_sinkNextC (hd : ∀ ev, StUp i (dn ev)) (d : Data) : StUp i (sinkNextC n dn i d) := by
  intro x a ha; simp only [sinkNextC]; split
  · exact hd _ x a ha
  · rw [finC_st]

theorem stUp_emitAllC (hd : ∀ ev, StUp i (dn ev)) (ds : List Data) : StUp i (emitAllC n dn i ds) := by
  induction ds with
  | nil => intro x a _; rfl
  | cons d ds ih =>
    intro x a ha; simp only [emitAllC]; split
    · rw [ih _ a ha, stUp_sinkNextC hd d x a ha]
    · rfl

theorem stUp_actC (hd : ∀ ev, StUp i (dn ev)) (a : Act) : StUp i (actC n dn i a) := by
  cases a with
  | emit d => exact stUp_sinkNextC hd d
  | emitAll ds => exact stUp_emitAllC hd ds
  | fail e =>
    intro x a ha; simp only [actC]; split
    · rw [finC_st, hd _ x a ha]
    · rw [finC_st]
  | complete =>
    intro x a ha; simp only [actC]; split
    · rw [finC_st, hd _ _ a ha]; rfl
    · rw [finC_st]
  | abortSelf =>
    intro x a ha; simp only [actC]; split
    · show (unsubO _ _ _).st a = _; rw [unsubO_st]; rfl
    · rfl
  | finalize => intro x a _; simp only [actC]; rw [finC_st]

theorem stUp_actsC (hd : ∀ ev, StUp i (dn ev)) (as : List Act) : StUp i (actsC n dn i as) := by
  induction as with
  | nil => intro x a _; rfl
  | cons b as ih =>
    intro x a ha
    simp only [actsC, List.foldl_cons]
    exact (ih _ a ha).trans (stUp_actC hd b x a ha)

end stup

theorem stUp_deliver (n : Nat) (ks : Nat → DK) : ∀ i ev, StUp i (deliver n ks i ev) := by
  intro i
  induction i with
  | zero => intro ev x a _; simp only [deliver]; split <;> rfl
  | succ j ih =>
    intro ev x a ha
    have hd : ∀ ev, StUp (j + 1) (deliver n ks j ev) := fun ev x a ha => ih ev x a (by omega)
    have hne : a ≠ j := by omega
    simp only [deliver]; split
    · cases ev with
      | next d =>
        exact (stUp_actsC (i := j) (fun ev x a ha => ih ev x a ha) _ _ a (by omega)).trans
          (by simp [upd_apply, hne])
      | error e =>
        exact (stUp_actsC (i := j) (fun ev x a ha => ih ev x a ha) _ _ a (by omega)).trans
          (by simp [upd_apply, hne])
      | complete =>
        exact (stUp_actsC (i := j) (fun ev x a ha => ih ev x a ha) _ _ a (by omega)).trans
          (by simp [upd_apply, hne])
    · rfl

end Rx.Chain
