import RxVerif.Theorems.C03RefSetup
/-
C03-REF (general form), part 1.  The relation of C03RefBase assumes one inner observer per subject and the
controller's cells right after the subjects.  flat_map needs several observers on one subject (created while the
history runs), skip_until / sample allocate their own cell BEFORE the controller.  `GRel` covers both:

  * entities `e` (inner observers) are attached to subject `E.sub e` under key `E.key e`; `E.mode e` says whether
    the observer is created but not subscribed (`fresh`), registered in its subject (`on`), or taken out of the
    subject's map by a terminal broadcast that has not reached it yet (`pend`)
  * the controller's cells `cs cm`, the operator's cell `cx` and the slot `fin` are layout parameters
-/
namespace Rx.GRef
open Rx.Sim Rx.Ref Rx.Comb Rx.CRef

inductive Mode where | fresh | on | pend
deriving DecidableEq, Repr

def Mode.isOn : Mode → Bool
  | .on => true
  | _ => false

theorem Mode.isOn_iff (m : Mode) : m.isOn = true ↔ m = .on := by cases m <;> simp [Mode.isOn]

structure GLay where
  k : Nat
  cs : Nat
  cm : Nat
  cx : Nat
  fin : Nat
  ser : Nat → Nat
  ob : Nat → Nat
  hn : Nat → Data → Prog
  he : Nat → Nat → Prog
  hc : Nat → Prog

def GLay.sc (L : GLay) : Sctl := ⟨0, L.cs, L.cm, L.fin⟩

structure GLay.Ok (L : GLay) : Prop where
  cs : 2 * L.k ≤ L.cs
  cm : 2 * L.k ≤ L.cm
  cx : 2 * L.k ≤ L.cx
  ne1 : L.cs ≠ L.cm
  ne2 : L.cs ≠ L.cx
  ne3 : L.cm ≠ L.cx
  fin : 2 * L.k ≤ L.fin
  obPos : ∀ e, 0 < L.ob e
  obInj : ∀ e e', L.ob e = L.ob e' → e = e'
  serInj : ∀ e e', L.ser e = L.ser e' → e = e'

/-- where the entities are attached -/
structure Ent where
  sub : Nat → Nat
  key : Nat → Nat
  mode : Nat → Mode
  cnt : Nat → Nat      -- the subjects' serial counters

def known (c : Ctl) (e : Nat) : Bool := c.live.contains e || c.reg.contains e

/-- the entities registered in subject `j`, in registration order -/
def inMap (E : Ent) (c : Ctl) (j : Nat) : List Nat :=
  c.live.filter fun e => E.sub e == j && (E.mode e).isOn

def hookE (E : Ent) (e : Nat) : Prog := hookProg (sjOf (E.sub e)) ((E.key e : Nat) : Int)

def InnerSt (L : GLay) (E : Ent) (c : Ctl) (e : Nat) (o : Obs) : Prop :=
  if c.live.contains e then
    o = ⟨some (.code (L.hn e)), some (.code (L.he e)), some (.code (L.hc e)),
         if E.mode e = .fresh then none else some (hookE E e)⟩
  else o.next = none ∧ o.error = none ∧ o.complete = none ∧
    (o.onUnsub = none ∨ (o.onUnsub = some (hookE E e) ∧ E.mode e ≠ .fresh))

def rootObs (L : GLay) (alive : Bool) : Obs :=
  ⟨if alive then some (.user 0) else none, if alive then some (.user 0) else none,
   if alive then some (.user 0) else none, some L.sc.finalize⟩

structure Rel (L : GLay) (E : Ent) (hl : List (LockId × Bool)) (c : Ctl) (x : Fr) (out : List Ev)
    (w : World) : Prop where
  status : w.status = .ok
  held : w.held = hl
  hlOk : ∀ p ∈ hl, p.1 = .cell L.cm
  root : w.obs[0]? = some (rootObs L c.alive)
  user : ∃ u, w.users[0]? = some u ∧ u.react = noReact
  subLt : ∀ e, known c e = true → E.sub e < L.k
  ex : ∀ e, known c e = true → L.ob e < w.obs.length
  subjO : ∀ j, j < L.k → w.cells[2 * j]? = some (encMap ((inMap E c j).map fun e => (E.key e, L.ob e)))
  subjS : ∀ j, j < L.k → w.cells[2 * j + 1]? = some (.int ((E.cnt j : Nat) : Int))
  keyLe : ∀ e, known c e = true → E.mode e ≠ .fresh → E.key e ≤ E.cnt (E.sub e)
  keyInj : ∀ e e', known c e = true → known c e' = true → E.mode e ≠ .fresh → E.mode e' ≠ .fresh →
    E.sub e = E.sub e' → E.key e = E.key e' → e = e'
  slots : ∀ j, j < 2 * L.k → w.slots[j]? = some none
  slotF : w.slots[L.fin]? = some none
  mapC : ∃ l : List Nat, w.cells[L.cm]? = some (encMap (l.map fun e => (L.ser e, L.ob e))) ∧
    ∀ e, e ∈ l ↔ e ∈ c.reg
  serC : w.cells[L.cs]? = some (.int (x.sv : Int)) ∧ ∀ e ∈ c.reg, L.ser e < x.sv
  nObs : w.obs.length = x.no
  inner : ∀ e o, w.obs[L.ob e]? = some o → InnerSt L E c e o
  xc : w.cells[L.cx]?.getD .unit = x.x
  log : logOf w 0 = out

variable {L : GLay} {E : Ent} {hl : List (LockId × Bool)} {c : Ctl} {x : Fr} {out : List Ev} {w : World}

theorem Rel.noconf (h : Rel L E hl c x out w) {l : LockId} (hne : l ≠ .cell L.cm) (wr : Bool) :
    w.conflicts l wr = false :=
  noconf_other (by rw [h.held]; exact h.hlOk) hne

theorem known_kill (c : Ctl) (e e' : Nat) (h : known { c with live := c.live.filter (· != e) } e' = true) :
    known c e' = true := by
  simp only [known, contains_filter_ne, Bool.or_eq_true, Bool.and_eq_true] at h ⊢
  rcases h with q | q
  · exact .inl q.1
  · exact .inr q

theorem inMap_kill (E : Ent) (c : Ctl) (e j : Nat) :
    inMap E { c with live := c.live.filter (· != e) } j = (inMap E c j).filter (· != e) := by
  simp only [inMap, List.filter_filter]; apply List.filter_congr; intro a _; rw [Bool.and_comm]

theorem inMap_kill_notin (E : Ent) (c : Ctl) (e j : Nat) (h : e ∉ inMap E c j) :
    inMap E { c with live := c.live.filter (· != e) } j = inMap E c j := by
  rw [inMap_kill, List.filter_eq_self]; intro a ha; simp only [bne_iff_ne]; intro q; exact h (q ▸ ha)

/-- the `dead` shape of an inner observer -/
def DeadObs (E : Ent) (e : Nat) (o : Obs) : Prop :=
  o.next = none ∧ o.error = none ∧ o.complete = none ∧
    (o.onUnsub = none ∨ (o.onUnsub = some (hookE E e) ∧ E.mode e ≠ .fresh))

theorem innerSt_dead {c : Ctl} {e : Nat} {o : Obs} (hl : c.live.contains e = false) :
    InnerSt L E c e o ↔ DeadObs E e o := by
  simp only [InnerSt, hl, Bool.false_eq_true, ↓reduceIte, DeadObs]

/-- the world after inner observer `e` lost its callbacks, subject `E.sub e` holding what is left of its map -/
theorem Rel.kill_unsub (ok : L.Ok) (h : Rel L E hl c x out w) {e : Nat} {o : Obs}
    (ho : w.obs[L.ob e]? = some o) (hj : E.sub e < L.k) (f : Obs → Obs) (hf : DeadObs E e (f o))
    (cells' : List Data) (hc1 : ∀ n : Nat, n ≠ 2 * E.sub e → cells'[n]? = w.cells[n]?)
    (hc2 : cells'[2 * E.sub e]? = some (encMap
      ((inMap E { c with live := c.live.filter (· != e) } (E.sub e)).map fun a => (E.key a, L.ob a)))) :
    Rel L E hl { c with live := c.live.filter (· != e) } x out
      { w with obs := w.obs.modify (L.ob e) f, cells := cells' } := by
  have h1 := ok.cs; have h2 := ok.cm; have h3 := ok.cx
  exact
  { status := h.status, held := h.held, hlOk := h.hlOk
    root := by
      show (w.obs.modify _ _)[0]? = _
      rw [modify_get_other _ _ (by have := ok.obPos e; omega)]; exact h.root
    user := h.user
    subLt := fun a ha => h.subLt a (known_kill c e a ha)
    ex := by
      intro a ha; show _ < (w.obs.modify _ _).length
      rw [List.length_modify]; exact h.ex a (known_kill c e a ha)
    subjO := by
      intro j hjk
      show cells'[2 * j]? = _
      by_cases q : j = E.sub e
      · subst q; exact hc2
      · rw [hc1 _ (by omega), h.subjO j hjk, inMap_kill_notin]
        intro hm
        simp only [inMap, List.mem_filter, Bool.and_eq_true, beq_iff_eq] at hm
        exact q hm.2.1.symm
    subjS := by
      intro j hjk; show cells'[2 * j + 1]? = _
      rw [hc1 _ (by omega)]; exact h.subjS j hjk
    keyLe := fun a ha => h.keyLe a (known_kill c e a ha)
    keyInj := fun a b ha hb => h.keyInj a b (known_kill c e a ha) (known_kill c e b hb)
    slots := h.slots, slotF := h.slotF
    mapC := by
      obtain ⟨l, hm, hmem⟩ := h.mapC
      exact ⟨l, by show cells'[_]? = _; rw [hc1 _ (by omega)]; exact hm, hmem⟩
    serC := ⟨by show cells'[_]? = _; rw [hc1 _ (by omega)]; exact h.serC.1, h.serC.2⟩
    nObs := by show (w.obs.modify _ _).length = _; rw [List.length_modify]; exact h.nObs
    inner := by
      intro a oa hoa
      have hoa' : (w.obs.modify (L.ob e) f)[L.ob a]? = some oa := hoa
      by_cases q : a = e
      · subst q
        rw [modify_get_same _ _ ho] at hoa'
        cases hoa'
        rw [innerSt_dead (by rw [contains_filter_ne]; simp)]; exact hf
      · rw [modify_get_other _ _ (fun r => q (ok.obInj _ _ r).symm)] at hoa'
        have := h.inner a oa hoa'
        have hq : (a != e) = true := by simp [q]
        simpa [InnerSt, contains_filter_ne, hq] using this
    xc := by show cells'[_]?.getD _ = _; rw [hc1 _ (by omega)]; exact h.xc
    log := h.log }

theorem known_live {c : Ctl} {e : Nat} (h : c.live.contains e = true) : known c e = true := by
  simp only [known, h, Bool.true_or]

theorem known_reg {c : Ctl} {e : Nat} (h : c.reg.contains e = true) : known c e = true := by
  simp only [known, h, Bool.or_true]

/-- removing key `E.key e` from the stored map of subject `E.sub e` removes exactly `e` -/
theorem filter_key {e : Nat} (hkey : ∀ a ∈ inMap E c (E.sub e), E.key a = E.key e → a = e) :
    ((inMap E c (E.sub e)).map fun a => (E.key a, L.ob a)).filter (fun p => p.1 != E.key e) =
      (inMap E { c with live := c.live.filter (· != e) } (E.sub e)).map fun a => (E.key a, L.ob a) := by
  rw [inMap_kill, List.filter_map]
  congr 1
  apply List.filter_congr
  intro a ha
  simp only [Function.comp_def, bne]
  congr 1
  rw [Bool.eq_iff_iff]; simp only [beq_iff_eq]
  exact ⟨hkey a ha, fun q => by rw [q]⟩

theorem Rel.hkey (h : Rel L E hl c x out w) {e : Nat} (hk : known c e = true) (hm : E.mode e ≠ .fresh) :
    ∀ a ∈ inMap E c (E.sub e), E.key a = E.key e → a = e := by
  intro a ha q
  simp only [inMap, List.mem_filter, Bool.and_eq_true, beq_iff_eq, Mode.isOn_iff] at ha
  exact h.keyInj a e (known_live (by simpa using ha.1)) hk (by rw [ha.2.2]; exact fun r => nomatch r) hm ha.2.1 q

/-- `unsubscribe` of inner observer `e` (observer.rs:53-60, then subject.rs:74-83) -/
theorem unsub_inner_aux (ok : L.Ok) (h : Rel L E hl c x out w) {e : Nat} (hj : E.sub e < L.k) {o : Obs}
    (ho : w.obs[L.ob e]? = some o)
    (hkey : E.mode e ≠ .fresh → ∀ a ∈ inMap E c (E.sub e), E.key a = E.key e → a = e) :
    WP (.obsUnsub (L.ob e) .done) w (Rel L E hl { c with live := c.live.filter (· != e) } x out) := by
  have hcm := ok.cm
  have hst := h.inner e o ho
  cases hf : o.onUnsub with
  | none =>
    refine wp_obsUnsub_none ho hf (WP.done ?_)
    refine h.kill_unsub ok ho hj _ (by simp [DeadObs, Obs.cleared]) w.cells (fun _ _ => rfl) ?_
    rw [h.subjO _ hj, inMap_kill_notin]
    intro hm
    simp only [inMap, List.mem_filter, Bool.and_eq_true, Mode.isOn_iff] at hm
    have hlv : c.live.contains e = true := by simpa using hm.1
    simp only [InnerSt, hlv, ↓reduceIte] at hst
    rw [hst] at hf
    simp [hm.2.2] at hf
  | some f =>
    have hfe : f = hookE E e ∧ E.mode e ≠ .fresh := by
      cases hlv : c.live.contains e with
      | false =>
        rw [innerSt_dead hlv] at hst
        rcases hst.2.2.2 with q | q
        · rw [hf] at q; cases q
        · rw [hf] at q; exact ⟨Option.some.inj q.1, q.2⟩
      | true =>
        simp only [InnerSt, hlv, ↓reduceIte] at hst
        rw [hst] at hf
        by_cases hm : E.mode e = .fresh
        · simp [hm] at hf
        · simp only [hm, ↓reduceIte] at hf; exact ⟨(Option.some.inj hf).symm, hm⟩
    obtain ⟨rfl, hm⟩ := hfe
    refine wp_obsUnsub_some ho hf ?_
    simp only [hookE, hookProg, sjOf]
    refine wp_cellRead_nc (h.noconf (cell_ne (by omega)) _) ?_
    have hread : ((w.setObs (L.ob e) fun x => { x.cleared with onUnsub := none }).cells[2 * E.sub e]?).getD .unit =
        encMap ((inMap E c (E.sub e)).map fun a => (E.key a, L.ob a)) := by
      show (w.cells[2 * E.sub e]?).getD .unit = _
      rw [h.subjO _ hj]; rfl
    rw [hread, amapRemove_encMap, filter_key (hkey hm)]
    refine wp_cellWrite_nc (h.noconf (cell_ne (by omega)) _) ?_
    refine wp_lockedSlotCall_none' (h.noconf (by simp) _) (h.slots _ (by omega)) (WP.done (WP.done ?_))
    exact h.kill_unsub ok ho hj _ (by simp [DeadObs, Obs.cleared]) _
      (fun n hn => set_get_other _ (Ne.symm hn)) (set_get_same _ (h.subjO _ hj))

theorem unsub_inner (ok : L.Ok) (h : Rel L E hl c x out w) {e : Nat} (hk : known c e = true) :
    WP (.obsUnsub (L.ob e) .done) w (Rel L E hl { c with live := c.live.filter (· != e) } x out) :=
  unsub_inner_aux ok h (h.subLt e hk) (List.getElem?_eq_getElem (h.ex e hk)) (fun hm => h.hkey hk hm)

theorem unsub_loop (ok : L.Ok) : ∀ (l : List Nat) (c : Ctl) (w : World), Rel L E hl c x out w →
    (∀ e ∈ l, c.reg.contains e = true) →
    WP (forEach (l.map fun e => Data.int (L.ob e)) fun o => .obsUnsub o.toInt.toNat .done) w
      (Rel L E hl { c with live := c.live.filter fun a => !l.contains a } x out) := by
  intro l
  induction l with
  | nil =>
    intro c w h _
    have e : c.live.filter (fun a => !([] : List Nat).contains a) = c.live := by simp
    rw [e]; exact WP.done h
  | cons i rest ih =>
    intro c w h hreg
    simp only [List.map_cons, forEach, toNat_int]
    apply WP.seq
    refine (unsub_inner ok h (known_reg (hreg i (by simp)))).conseq fun w1 h1 => ?_
    refine (ih _ w1 h1 fun a ha => hreg a (by simp [ha])).conseq fun w2 h2 => ?_
    have e : (c.live.filter (· != i)).filter (fun a => !rest.contains a) =
        c.live.filter fun a => !(i :: rest).contains a := by
      rw [List.filter_filter]; apply List.filter_congr; intro a _
      simp only [List.contains_cons, Bool.not_or, bne]; rw [Bool.and_comm]
    rw [← e]; exact h2

theorem known_fin {c : Ctl} {e : Nat} (h : known c.finalize e = true) : known c e = true := by
  simp only [known, Ctl.finalize, List.contains_nil, Bool.or_false] at h
  have : e ∈ c.live := by
    have q : e ∈ c.live.filter fun i => !c.reg.contains i := by simpa using h
    exact (List.mem_filter.1 q).1
  exact known_live (by simpa using this)

/-- `StreamController::finalize` (stream_controller.rs:132-145) once the subscriber has lost its callbacks -/
theorem finalize_spec (ok : L.Ok) (h : Rel L E [] c x out w) (ha : c.alive = false) :
    WP L.sc.finalize w (Rel L E [] c.finalize x out) := by
  have h1' := ok.cs; have h2' := ok.cm; have h3' := ok.cx; have h4' := ok.ne1; have h5' := ok.ne3
  simp only [Sctl.finalize, GLay.sc]
  refine wp_lockAcq (noconf_of_held_nil h.held _ _) ?_
  have h1 : Rel L E [(.cell L.cm, false)] c x out { w with held := (.cell L.cm, false) :: w.held } :=
    { h with held := by show _ :: w.held = _; rw [h.held], hlOk := by intro p hp; simp at hp; simp [hp] }
  refine wp_cellRead_g ?_
  obtain ⟨l, hm, hmem⟩ := h1.mapC
  simp only [hm, Option.getD_some, amapVals_encMap, List.map_map, Function.comp_def]
  apply WP.seq
  refine (unsub_loop ok l c _ h1 fun i hi => by simpa using (hmem i).1 hi).conseq fun w2 h2 => ?_
  have el : c.live.filter (fun j => !l.contains j) = c.live.filter (fun j => !c.reg.contains j) := by
    apply List.filter_congr; intro j _
    congr 1; rw [Bool.eq_iff_iff]; simp [hmem j]
  rw [el] at h2
  refine wp_lockRel ?_
  rw [release_head _ _ _ _ h2.held]
  refine wp_cellWrite_nc (noconf_of_held_nil rfl _ _) ?_
  refine wp_obsIsSub (x := rootObs L false) (by have := h2.root; rw [ha] at this; exact this) ?_
  simp only [rootObs, Obs.isSub, Option.isSome_none, Bool.false_and, Bool.false_eq_true, ↓reduceIte]
  apply WP.seq
  refine WP.done ?_
  refine wp_lockedSlotCall_none' (noconf_of_held_nil rfl _ _) h2.slotF (WP.done ?_)
  have hkn : ∀ e, known c.finalize e = true →
      known { c with live := c.live.filter fun j => !c.reg.contains j } e = true := by
    intro e he
    simp only [known, Ctl.finalize, List.contains_nil, Bool.or_false] at he
    simp only [known, he, Bool.true_or]
  exact
    { status := h2.status, held := rfl, hlOk := by intro p hp; cases hp
      root := by have := h2.root; rw [ha] at this; exact this
      user := h2.user
      subLt := fun e he => h2.subLt e (hkn e he)
      ex := fun e he => h2.ex e (hkn e he)
      subjO := by
        intro i hi; show (w2.cells.set _ _)[_]? = _
        rw [set_get_other _ (by omega)]; exact h2.subjO i hi
      subjS := by
        intro i hi; show (w2.cells.set _ _)[_]? = _
        rw [set_get_other _ (by omega)]; exact h2.subjS i hi
      keyLe := fun e he => h2.keyLe e (hkn e he)
      keyInj := fun a b ha hb => h2.keyInj a b (hkn a ha) (hkn b hb)
      slots := h2.slots, slotF := h2.slotF
      mapC := by
        obtain ⟨l2, hm2, _⟩ := h2.mapC
        exact ⟨[], set_get_same _ hm2, fun _ => Iff.rfl⟩
      serC := by
        refine ⟨?_, by intro i hi; cases hi⟩
        show (w2.cells.set _ _)[_]? = _
        rw [set_get_other _ (Ne.symm h4')]; exact h2.serC.1
      nObs := h2.nObs
      inner := h2.inner
      xc := by
        show (w2.cells.set _ _)[_]?.getD _ = _
        rw [set_get_other _ h5']; exact h2.xc
      log := h2.log }

end Rx.GRef
