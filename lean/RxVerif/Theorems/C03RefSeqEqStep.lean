import RxVerif.Theorems.C03RefSeqEqComb
/-
C03-REF, sequence_equal, part 13: the relation between quiescent worlds and the states of `Comb.sequenceEqual`, and
one history entry.
-/
namespace Rx.SeqRef
open Rx.Sim Rx.Ref Rx.Comb Rx.CRef

variable {k : Nat}

/-- nothing has ended: zip's map holds the sources `R`, exactly their chains are live -/
structure CorrOk (k : Nat) (R : List Nat) (qs : List (List Data)) (σ : GS) : Prop where
  ready : Ready k σ
  reg : σ.reg = R
  qs : σ.qs = qs
  chL : ∀ j, j < k → R.contains j = true → σ.ch j = bLive
  chD : ∀ j, j < k → R.contains j = false → (σ.ch j).sR = false
  rlt : ∀ j ∈ R, j < k

/-- the quiescent relation -/
def QRel (k : Nat) (s : Over) (out : List Ev) (w : World) : Prop :=
  ∃ σ, GRel k σ [] w ∧ σ.out = out ∧
    ((∃ R qs, s = okS R qs ∧ CorrOk k R qs σ) ∨ (DeadRes s ∧ ∀ j, j < k → (σ.ch j).sR = false))

theorem zStep_next_quiet (σ : GS) (i : Nat) (x : Data) (h : Zip.ne (σ.qs.modify i (· ++ [x])) = false) :
    zStep σ i (.next x) = { σ with qs := σ.qs.modify i (· ++ [x]) } := by
  simp only [zStep, h, Bool.false_eq_true, ↓reduceIte]

theorem zStep_next_same (σ : GS) (i : Nat) (x : Data) (h : Zip.ne (σ.qs.modify i (· ++ [x])) = true)
    (hs : allSame ((σ.qs.modify i (· ++ [x])).map fun q => q.headD .unit) = true) :
    zStep σ i (.next x) = { σ with qs := (σ.qs.modify i (· ++ [x])).map List.tail } := by
  simp only [zStep, h, ↓reduceIte, o1Step, Data.toList_ofList, hs]

theorem zStep_next_diff (σ : GS) (i : Nat) (x : Data) (h : Zip.ne (σ.qs.modify i (· ++ [x])) = true)
    (hs : allSame ((σ.qs.modify i (· ++ [x])).map fun q => q.headD .unit) = false) :
    zStep σ i (.next x) =
      endState { σ with qs := (σ.qs.modify i (· ++ [x])).map List.tail } true [.next (.bool false), .complete] := by
  simp only [zStep, h, ↓reduceIte, o1Step, Data.toList_ofList, hs, Bool.false_eq_true]

/-- tearing down everything in zip's map leaves no subject with an observer -/
theorem torn_sR {R : List Nat} {qs : List (List Data)} {σ : GS} (hc : CorrOk k R qs σ) (ch' : Nat → CB)
    (hch : ∀ j, j < k → (ch' j).sR = true → (σ.ch j).sR = true ∧ ch' j = σ.ch j) :
    ∀ j, j < k → (tearAll ch' R j).sR = false := by
  intro j hj
  cases hs : (tearAll ch' R j).sR with
  | false => rfl
  | true =>
    have h1 := tearAll_sR ch' R j hs
    obtain ⟨h2, h3⟩ := hch j hj h1
    cases hr : R.contains j with
    | false => rw [hc.chD j hj hr] at h2; cases h2
    | true =>
      simp only [tearAll, hr, ↓reduceIte, h3, hc.chL j hj hr, tZ_live] at hs
      cases hs

/-- the outcome of a step, seen from both sides -/
def Outcome (k : Nat) (s' : Over) (σ' : GS) : Prop :=
  (∃ R qs, s' = okS R qs ∧ CorrOk k R qs σ') ∨ (DeadRes s' ∧ ∀ j, j < k → (σ'.ch j).sR = false)

/-- an item on a live source, on both sides -/
theorem corr_next {R : List Nat} {qs : List (List Data)} {σ : GS} (hc : CorrOk k R qs σ) {i : Nat}
    (hR : R.contains i = true) (x : Data) :
    (zStep σ i (.next x)).out = σ.out ++ (sequenceEqualCode.step (okS R qs) (i, .next x)).2 ∧
      Outcome k (sequenceEqualCode.step (okS R qs) (i, .next x)).1 (zStep σ i (.next x)) := by
  have hq := hc.qs
  have h0 : Zip.ne qs = false := by rw [← hq]; exact hc.ready.ne
  cases hne : Zip.ne (qs.modify i (· ++ [x])) with
  | false =>
    rw [ok_next_quiet R qs i x hR hne, zStep_next_quiet σ i x (by rw [hq]; exact hne)]
    refine ⟨by simp, .inl ⟨R, _, rfl, ?_⟩⟩
    have ht := hc.ready.top
    exact ⟨⟨⟨ht.alive, ht.oL, ht.oH, ht.oR, ht.nd⟩, by show Zip.ne (σ.qs.modify _ _) = false; rw [hq]; exact hne,
      by show (σ.qs.modify _ _).length = k; rw [List.length_modify]; exact hc.ready.len, hc.ready.kpos⟩,
      hc.reg, by show σ.qs.modify _ _ = _; rw [hq], hc.chL, hc.chD, hc.rlt⟩
  | true =>
    have hfill := Zip.push_fills qs i x h0 hne
    cases hs : allSame ((qs.modify i (· ++ [x])).map fun q => q.headD .unit) with
    | true =>
      rw [ok_next_same R qs i x hR h0 hne hs, zStep_next_same σ i x (by rw [hq]; exact hne) (by rw [hq]; exact hs)]
      refine ⟨by simp, .inl ⟨R, _, rfl, ?_⟩⟩
      have ht := hc.ready.top
      exact ⟨⟨⟨ht.alive, ht.oL, ht.oH, ht.oR, ht.nd⟩, by show Zip.ne ((σ.qs.modify _ _).map _) = false; rw [hq]; exact hfill.1,
        by show ((σ.qs.modify _ _).map _).length = k; rw [List.length_map, List.length_modify]; exact hc.ready.len,
        hc.ready.kpos⟩, hc.reg, by show (σ.qs.modify _ _).map _ = _; rw [hq], hc.chL, hc.chD, hc.rlt⟩
    | false =>
      obtain ⟨e1, e2⟩ := ok_next_diff R qs i x hR h0 hne hs
      rw [e1, zStep_next_diff σ i x (by rw [hq]; exact hne) (by rw [hq]; exact hs)]
      refine ⟨rfl, .inr ⟨e2, ?_⟩⟩
      intro j hj
      simp only [endState, ↓reduceIte]
      rw [hc.reg]
      exact torn_sR hc σ.ch (fun _ _ h => ⟨h, rfl⟩) j hj

/-- finishing the teardown of chain `i` (`concat_i.finalize`, `map_i.finalize`) leaves the subjects alone -/
theorem fin_i_sR (ch : Nat → CB) (i : Nat) (h : ∀ j, j < k → (ch j).sR = false) :
    ∀ j, j < k → (upd ch i (tFM (tFC (ch i))) j).sR = false := by
  intro j hj
  by_cases e : j = i
  · subst e; rw [upd_same]
    cases hs : (tFM (tFC (ch j))).sR with
    | false => rfl
    | true => have := tFC_sR _ (tFM_sR _ hs); rw [h j hj] at this; cases this
  · rw [upd_other _ _ e]; exact h j hj

/-- an error on a live source, on both sides -/
theorem corr_error {R : List Nat} {qs : List (List Data)} {σ : GS} (hc : CorrOk k R qs σ) {i : Nat} (hi : i < k)
    (hR : R.contains i = true) (e : Nat) :
    (errState σ i e).out = σ.out ++ (sequenceEqualCode.step (okS R qs) (i, .error e)).2 ∧
      Outcome k (sequenceEqualCode.step (okS R qs) (i, .error e)).1 (errState σ i e) := by
  obtain ⟨e1, e2⟩ := ok_error R qs i e hR
  rw [e1]
  refine ⟨rfl, .inr ⟨e2, ?_⟩⟩
  simp only [errState]
  apply fin_i_sR
  simp only [endState, ↓reduceIte]
  show ∀ j, j < k → (tearAll (zKill { σ with ch := upd σ.ch i bErr } i).ch σ.reg j).sR = false
  rw [hc.reg]
  refine torn_sR hc _ ?_
  intro j hj hs
  simp only [zKill] at hs ⊢
  by_cases q : j = i
  · subst q
    rw [upd_same, upd_same] at hs; cases hs
  · rw [upd_other _ _ q, upd_other _ _ q] at hs ⊢; exact ⟨hs, rfl⟩

theorem tFM_only_sR (ch : Nat → CB) (i : Nat) (h : ∀ j, j < k → (ch j).sR = false) :
    ∀ j, j < k → (upd ch i (tFM (ch i)) j).sR = false := by
  intro j hj
  by_cases e : j = i
  · subst e; rw [upd_same]
    cases hs : (tFM (ch j)).sR with
    | false => rfl
    | true => have := tFM_sR _ hs; rw [h j hj] at this; cases this
  · rw [upd_other _ _ e]; exact h j hj

/-- the second half of a completion: zip's observer `i` completes -/
theorem corr_tail {R : List Nat} {qs : List (List Data)} {σ : GS} (hc : CorrOk k R qs σ) {i : Nat} (hi : i < k)
    (hR : R.contains i = true) (σX : GS) (Q : List (List Data)) (hX1 : σX.reg = R) (hX2 : σX.qs = Q)
    (hXtop : TopOk σX) (hXne : Zip.ne Q = false) (hXlen : Q.length = k) (hXout : σX.out = σ.out)
    (hXch : ∀ j, j ≠ i → σX.ch j = σ.ch j) (chf : Nat → CB)
    (hf1 : ∀ j, j ≠ i → chf j = (zStep σX i .complete).ch j) (hf2 : (chf i).sR = false) :
    ({ zStep σX i .complete with ch := chf } : GS).out =
        σ.out ++ (sequenceEqualCode.step (okS R Q) (i, .complete)).2 ∧
      Outcome k (sequenceEqualCode.step (okS R Q) (i, .complete)).1 { zStep σX i .complete with ch := chf } := by
  have hzj : ∀ j, j ≠ i → (zStep σX i .complete).ch j = σ.ch j := by
    intro j hj
    simp only [zStep]
    split
    · show upd σX.ch i _ j = _; rw [upd_other _ _ hj]; exact hXch j hj
    · show upd σX.ch i _ j = _; rw [upd_other _ _ hj]; exact hXch j hj
  cases hm : (R.filter (· != i)).isEmpty with
  | false =>
    rw [ok_complete_more R Q i hR hm]
    have hz : zStep σX i .complete = { zKill σX i with reg := R.filter (· != i) } := by
      simp only [zStep, hX1, hm, Bool.false_eq_true, ↓reduceIte]
    rw [hz]
    refine ⟨by simp [zKill, hXout], .inl ⟨_, _, rfl, ?_⟩⟩
    rw [hz] at hf1
    exact
    { ready := ⟨⟨hXtop.alive, hXtop.oL, hXtop.oH, hXtop.oR, by
          show (R.filter _).Nodup
          have := hXtop.nd; rw [hX1] at this; exact this.filter _⟩,
        by show Zip.ne σX.qs = false; rw [hX2]; exact hXne,
        by show σX.qs.length = k; rw [hX2]; exact hXlen, hc.ready.kpos⟩
      reg := rfl
      qs := hX2
      chL := by
        intro j hj hjr
        have hjr' : j ∈ R.filter (· != i) := by simpa using hjr
        obtain ⟨q1, q2⟩ := List.mem_filter.1 hjr'
        have hne : j ≠ i := by simpa using q2
        show chf j = bLive
        rw [hf1 j hne]
        show upd σX.ch i _ j = _
        rw [upd_other _ _ hne, hXch j hne]
        exact hc.chL j hj (by simpa using q1)
      chD := by
        intro j hj hjr
        show (chf j).sR = false
        by_cases e : j = i
        · subst e; exact hf2
        · rw [hf1 j e]
          show (upd σX.ch i _ j).sR = false
          rw [upd_other _ _ e, hXch j e]
          refine hc.chD j hj ?_
          cases q : R.contains j with
          | false => rfl
          | true =>
            have : j ∈ R.filter (· != i) := List.mem_filter.2 ⟨by simpa using q, by simpa using e⟩
            have : (R.filter (· != i)).contains j = true := by simpa using this
            rw [hjr] at this; cases this
      rlt := fun j hj => hc.rlt j (List.mem_filter.1 hj).1 }
  | true =>
    obtain ⟨e1, e2⟩ := ok_complete_last R Q i hR hm
    rw [e1]
    have hz : zStep σX i .complete =
        endState { zKill σX i with reg := [] } false [.next (.bool true), .complete] := by
      simp only [zStep, hX1, hm, ↓reduceIte]
    refine ⟨by rw [hz]; simp [endState, zKill, hXout], .inr ⟨e2, ?_⟩⟩
    intro j hj
    show (chf j).sR = false
    by_cases e : j = i
    · subst e; exact hf2
    · rw [hf1 j e, hzj j e]
      refine hc.chD j hj ?_
      cases q : R.contains j with
      | false => rfl
      | true =>
        have : j ∈ R.filter (· != i) := List.mem_filter.2 ⟨by simpa using q, by simpa using e⟩
        have hnil : R.filter (· != i) = [] := by simpa using hm
        rw [hnil] at this; cases this

/-- the state in which zip's observer `i` completes (the end marker has been queued: `Q`) -/
def sX (σ : GS) (i J : Nat) (Q : List (List Data)) : GS :=
  { σ with qs := Q, ch := upd σ.ch i { b7 J with jx := some (J, false) } }

/-- chain `i` after the two `finalize` calls that follow -/
def chF (σ : GS) (i J : Nat) (Q : List (List Data)) : Nat → CB :=
  upd (zStep (sX σ i J Q) i .complete).ch i (tFM (tFC ((zStep (sX σ i J Q) i .complete).ch i)))

theorem compState_alive (σ : GS) (i J : Nat) (Q : List (List Data)) (ha : σ.alive = true)
    (hz : zStep { σ with ch := upd σ.ch i (b7 J) } i (.next (Data.optEnc none)) =
      { ({ σ with ch := upd σ.ch i (b7 J) } : GS) with qs := Q }) :
    compState σ i J = { zStep (sX σ i J Q) i .complete with ch := chF σ i J Q } := by
  have hu : upd (upd σ.ch i b5) i (b7 J) = upd σ.ch i (b7 J) := upd_upd _ _ _ _
  have hσ7 : ({ ({ σ with ch := upd σ.ch i b5 } : GS) with
      ch := upd ({ σ with ch := upd σ.ch i b5 } : GS).ch i (b7 J) } : GS) = { σ with ch := upd σ.ch i (b7 J) } := by
    show ({ σ with ch := upd (upd σ.ch i b5) i (b7 J) } : GS) = _; rw [hu]
  simp only [compState, afterEnd, hσ7]
  rw [hz]
  simp only [ha, ↓reduceIte, upd_same, upd_upd, sX, chF]

theorem compState_dead (σ : GS) (i J : Nat) (σa : GS) (ha : σa.alive = false)
    (hz : zStep { σ with ch := upd σ.ch i (b7 J) } i (.next (Data.optEnc none)) = σa) :
    compState σ i J = { σa with ch := upd σa.ch i (tFM (σa.ch i)) } := by
  have hu : upd (upd σ.ch i b5) i (b7 J) = upd σ.ch i (b7 J) := upd_upd _ _ _ _
  have hσ7 : ({ ({ σ with ch := upd σ.ch i b5 } : GS) with
      ch := upd ({ σ with ch := upd σ.ch i b5 } : GS).ch i (b7 J) } : GS) = { σ with ch := upd σ.ch i (b7 J) } := by
    show ({ σ with ch := upd (upd σ.ch i b5) i (b7 J) } : GS) = _; rw [hu]
  simp only [compState, afterEnd, hσ7]
  rw [hz]
  simp only [ha, Bool.false_eq_true, ↓reduceIte]

/-- a completion on a live source, on both sides: the end marker, then zip's observer completes -/
theorem corr_complete {R : List Nat} {qs : List (List Data)} {σ : GS} (hc : CorrOk k R qs σ) {i : Nat} (hi : i < k)
    (hR : R.contains i = true) (J : Nat) :
    (compState σ i J).out = σ.out ++ (sequenceEqual.step (okS R qs) (i, .complete)).2 ∧
      Outcome k (sequenceEqual.step (okS R qs) (i, .complete)).1 (compState σ i J) := by
  have ht := hc.ready.top
  have hq := hc.qs
  have h0 : Zip.ne qs = false := by rw [← hq]; exact hc.ready.ne
  have hx : sequenceEqual.endNone = Data.optEnc none := rfl
  simp only [sequenceEqual.step, hx]
  have htail : ∀ Q, Zip.ne Q = false → Q.length = k →
      ({ zStep (sX σ i J Q) i .complete with ch := chF σ i J Q } : GS).out =
          σ.out ++ (sequenceEqualCode.step (okS R Q) (i, .complete)).2 ∧
        Outcome k (sequenceEqualCode.step (okS R Q) (i, .complete)).1
          { zStep (sX σ i J Q) i .complete with ch := chF σ i J Q } := by
    intro Q h1 h2
    refine corr_tail hc hi hR (sX σ i J Q) Q hc.reg rfl ⟨ht.alive, ht.oL, ht.oH, ht.oR, ht.nd⟩ h1 h2 rfl ?_ _ ?_ ?_
    · intro j hj; show upd σ.ch i _ j = _; rw [upd_other _ _ hj]
    · intro j hj; show upd _ i _ j = _; rw [upd_other _ _ hj]
    · show CB.sR (upd _ i _ i) = false
      rw [upd_same]
      cases hsr : (tFM (tFC ((zStep (sX σ i J Q) i .complete).ch i))).sR with
      | false => rfl
      | true =>
        have := tFC_sR _ (tFM_sR _ hsr)
        rw [zStep_complete_ch] at this
        simp only [sX, upd_same] at this
        cases this
  cases hne : Zip.ne (qs.modify i (· ++ [Data.optEnc none])) with
  | true =>
    have hfill := Zip.push_fills qs i (Data.optEnc none) h0 hne
    cases hs : allSame ((qs.modify i (· ++ [Data.optEnc none])).map fun q => q.headD .unit) with
    | false =>
      -- the end marker completes a tuple with different components
      obtain ⟨e1, e2⟩ := ok_next_diff R qs i (Data.optEnc none) hR h0 hne hs
      obtain ⟨f1, f2⟩ := dead_code_step _ e2 (i, .complete)
      have hz := zStep_next_diff { σ with ch := upd σ.ch i (b7 J) } i (Data.optEnc none)
        (by show Zip.ne (σ.qs.modify _ _) = true; rw [hq]; exact hne)
        (by show allSame ((σ.qs.modify _ _).map _) = false; rw [hq]; exact hs)
      rw [e1, f1, compState_dead σ i J _ rfl hz]
      refine ⟨by simp [endState], .inr ⟨f2, ?_⟩⟩
      apply tFM_only_sR
      show ∀ j, j < k → (tearAll (upd σ.ch i (b7 J)) σ.reg j).sR = false
      rw [hc.reg]
      refine torn_sR hc _ ?_
      intro j hj hsr
      by_cases q : j = i
      · subst q; rw [upd_same] at hsr; cases hsr
      · rw [upd_other _ _ q] at hsr ⊢; exact ⟨hsr, rfl⟩
    | true =>
      have hz := zStep_next_same { σ with ch := upd σ.ch i (b7 J) } i (Data.optEnc none)
        (by show Zip.ne (σ.qs.modify _ _) = true; rw [hq]; exact hne)
        (by show allSame ((σ.qs.modify _ _).map _) = true; rw [hq]; exact hs)
      rw [ok_next_same R qs i _ hR h0 hne hs, compState_alive σ i J _ ht.alive hz]
      simp only [List.nil_append]
      have := htail ((σ.qs.modify i (· ++ [Data.optEnc none])).map List.tail) (by rw [hq]; exact hfill.1)
        (by rw [List.length_map, List.length_modify]; exact hc.ready.len)
      rw [hq] at this ⊢
      exact this
  | false =>
    have hz := zStep_next_quiet { σ with ch := upd σ.ch i (b7 J) } i (Data.optEnc none)
      (by show Zip.ne (σ.qs.modify _ _) = false; rw [hq]; exact hne)
    rw [ok_next_quiet R qs i _ hR hne, compState_alive σ i J _ ht.alive hz]
    simp only [List.nil_append]
    have := htail (σ.qs.modify i (· ++ [Data.optEnc none])) (by rw [hq]; exact hne)
      (by rw [List.length_modify]; exact hc.ready.len)
    rw [hq] at this ⊢
    exact this

end Rx.SeqRef
