import RxVerif.Theorems.C10RefReplay
import RxVerif.Kernel.ConnM
import RxVerif.Theorems.C13
/-
C13-REF, part 1: WP rules that also hold while read guards on closure slots are held (the `on_subscribe` /
`on_unsubscribe` hooks of ref_count.rs / replay.rs run inside `Subject::observable`'s `slot.read()` scope),
and `Subject::observable`'s closure under such guards.
-/
namespace Rx.CRef
open Rx.Sim Rx.SubjM Rx.Ref Rx.RefR

/-- only read guards on closure slots are held -/
def SlotReads (H : List (LockId × Bool)) : Prop := ∀ p ∈ H, (∃ s, p.1 = LockId.slot s) ∧ p.2 = false

theorem SlotReads.nil : SlotReads [] := by intro p hp; cases hp

theorem SlotReads.cons {H} (h : SlotReads H) (s : Nat) : SlotReads ((LockId.slot s, false) :: H) := by
  intro p hp
  rcases List.mem_cons.1 hp with rfl | hp
  · exact ⟨⟨s, rfl⟩, rfl⟩
  · exact h p hp

theorem SlotReads.of_nil {H} (h : H = []) : SlotReads H := h ▸ SlotReads.nil

theorem SlotReads.noconf_cell {w : World} (h : SlotReads w.held) (c : Nat) (wr : Bool) :
    w.conflicts (.cell c) wr = false := by
  simp only [World.conflicts, List.any_eq_false]
  intro p hp
  obtain ⟨⟨s, hs⟩, _⟩ := h p hp
  obtain ⟨l, b⟩ := p
  simp only at hs; subst hs; simp

theorem SlotReads.noconf_obs {w : World} (h : SlotReads w.held) (o : Nat) (wr : Bool) :
    w.conflicts (.obs o) wr = false := by
  simp only [World.conflicts, List.any_eq_false]
  intro p hp
  obtain ⟨⟨s, hs⟩, _⟩ := h p hp
  obtain ⟨l, b⟩ := p
  simp only at hs; subst hs; simp

theorem SlotReads.noconf_slot_read {w : World} (h : SlotReads w.held) (s : Nat) :
    w.conflicts (.slot s) false = false := by
  simp only [World.conflicts, List.any_eq_false]
  intro p hp
  obtain ⟨_, hb⟩ := h p hp
  obtain ⟨l, b⟩ := p
  simp only at hb; subst hb; simp

section prims
variable {w : World} {Q : World → Prop}

theorem wp_cellReadG {c : Nat} {k : Data → Prog} (hh : SlotReads w.held)
    (hk : WP (k (w.cells[c]?.getD .unit)) w Q) : WP (.cellRead c false k) w Q :=
  wp_step _ _ (fun _ _ => by simp only [run, hh.noconf_cell, Bool.and_false]; rfl) hk

theorem wp_cellWriteG {c : Nat} {d : Data} {k : Prog} (hh : SlotReads w.held)
    (hk : WP k { w with cells := w.cells.set c d } Q) : WP (.cellWrite c false d k) w Q :=
  wp_step _ _ (fun _ _ => by simp only [run, hh.noconf_cell, Bool.and_false]; rfl) hk

theorem wp_obsSetOnUnsubG {o : Nat} {f k : Prog} (hh : SlotReads w.held)
    (hk : WP k (w.setObs o fun x => { x with onUnsub := some f }) Q) : WP (.obsSetOnUnsub o f k) w Q :=
  wp_step _ _ (fun _ _ => by simp only [run, hh.noconf_obs]; rfl) hk

theorem held_restoreG (w : World) (p : LockId × Bool) :
    ({ w with held := p :: w.held } : World).release p.1 = w := by
  cases w; simp [World.release]

/-- `lock; slot.call(d); unlock` on an empty slot, possibly inside another hook -/
theorem wp_lockedSlotCall_noneG {s : Nat} {d : Data} {k : Prog} (hh : SlotReads w.held)
    (hs : w.slots[s]? = some none) (hk : WP k w Q) :
    WP (.lockAcq (.slot s) false <| .slotCall s d false <| .lockRel (.slot s) k) w Q := by
  refine wp_step _ { w with held := (.slot s, false) :: w.held }
    (fun _ _ => by simp only [run, hh.noconf_slot_read]; rfl) ?_
  refine wp_step _ { w with held := (.slot s, false) :: w.held }
    (fun _ _ => by simp only [run]; rw [show ({ w with held := (LockId.slot s, false) :: w.held } : World).slots[s]? = some none from hs]) ?_
  refine wp_step _ w (fun _ _ => by simp only [run]; rw [held_restoreG w (.slot s, false)]) hk

/-- `lock; slot.call(d); unlock` on a slot holding the hook `f`: `f d` runs under the read guard -/
theorem wp_lockedSlotCall_someG {s : Nat} {d : Data} {k : Prog} {f : Data → Prog} (hh : SlotReads w.held)
    (hs : w.slots[s]? = some (some f))
    (hk : WP (f d) { w with held := (.slot s, false) :: w.held } fun w2 => WP (.lockRel (.slot s) k) w2 Q) :
    WP (.lockAcq (.slot s) false <| .slotCall s d false <| .lockRel (.slot s) k) w Q := by
  refine wp_step _ { w with held := (.slot s, false) :: w.held }
    (fun _ _ => by simp only [run, hh.noconf_slot_read]; rfl) ?_
  exact wp_step2 _ _ { w with held := (.slot s, false) :: w.held }
    (fun _ _ => by
      simp only [run]
      rw [show ({ w with held := (LockId.slot s, false) :: w.held } : World).slots[s]? = some (some f) from hs]
      rfl) hk

theorem wp_lockRel {l : LockId} {k : Prog} (hk : WP k (w.release l) Q) : WP (.lockRel l k) w Q :=
  wp_step _ _ (fun _ _ => by simp only [run]) hk

theorem wp_obsvSub {id o : Nat} {k : Prog} {f : Nat → Prog} (hf : w.obsvs[id]? = some f)
    (hk : WP (f o) w fun w2 => WP k w2 Q) : WP (.obsvSub id o k) w Q :=
  wp_step2 _ _ _ (fun _ _ => by simp only [run, hf]) hk

theorem wp_slotSet {s : Nat} {f : Data → Prog} {k : Prog} (hh : w.held = [])
    (hk : WP k { w with slots := w.slots.set s (some f) } Q) : WP (.slotSet s f k) w Q :=
  wp_step _ _ (fun _ _ => by simp only [run, noconf_of_held_nil hh]; rfl) hk

end prims

/-- the `lock; hook.call(d); unlock` tail of `Subject::observable` / of its teardown -/
def slotTail (s : Nat) (d : Data) : Prog :=
  .lockAcq (.slot s) false <| .slotCall s d false <| .lockRel (.slot s) .done

/-- `Subject::observable`'s closure (subject.rs:61-93) up to the `on_subscribe(len)` call site, under read guards -/
theorem observable_pre {sj : Subj} {w0 : World} {s serial : Nat} {x : Obs} {obsl : List (Nat × Nat)}
    {Q : World → Prop} (hh : SlotReads w0.held) (hx : w0.obs[s]? = some x) (hsub : x.isSub = true)
    (hne : sj.observers ≠ sj.serial)
    (hS : w0.cells[sj.serial]? = some (.int serial)) (hO : w0.cells[sj.observers]? = some (encMap obsl))
    (hkeys : ∀ p ∈ obsl, p.1 ≤ serial)
    (hQ : WP (slotTail sj.onSub (.int ((obsl.length + 1 : Nat) : Int))) (subWorld sj w0 s serial obsl) Q) :
    WP (sj.observable s) w0 Q := by
  unfold Subj.observable
  refine wp_obsIsSub hx ?_
  simp only [hsub, Bool.not_true, Bool.false_eq_true, ↓reduceIte]
  refine wp_cellReadG hh ?_
  simp only [hS, Option.getD_some, Data.toInt]
  rw [show ((serial : Int) + 1) = ((serial + 1 : Nat) : Int) from by omega]
  refine wp_cellWriteG hh ?_
  refine wp_obsSetOnUnsubG hh ?_
  refine wp_cellReadG hh ?_
  have hc : ∀ d, ((w0.cells.set sj.serial d)[sj.observers]?).getD .unit = encMap obsl := by
    intro d; rw [set_get_other _ (Ne.symm hne), hO]; rfl
  simp only [World.setObs, hc]
  rw [amapInsert_encMap _ _ _ (fun p hp => by have := hkeys p hp; omega)]
  refine wp_cellWriteG hh ?_
  rw [amapLen_encMap, List.length_append]
  exact hQ

/-- the teardown `hookProg` (subject.rs:74-83) up to the `on_unsubscribe(len)` call site -/
theorem hookProg_pre {sj : Subj} {w : World} {s : Nat} {obsl : List (Nat × Nat)} {Q : World → Prop}
    (hh : SlotReads w.held) (hO : w.cells[sj.observers]? = some (encMap obsl))
    (hQ : WP (slotTail sj.onUnsub (.int (((obsl.filter fun p => p.1 != s).length : Nat) : Int)))
      { w with cells := w.cells.set sj.observers (encMap (obsl.filter fun p => p.1 != s)) } Q) :
    WP (hookProg sj (s : Int)) w Q := by
  unfold hookProg
  refine wp_cellReadG hh ?_
  rw [hO]
  simp only [Option.getD_some, amapRemove_encMap]
  refine wp_cellWriteG hh ?_
  rw [amapLen_encMap]
  exact hQ

theorem slotTail_none {s : Nat} {d : Data} {w : World} {Q : World → Prop} (hh : SlotReads w.held)
    (hs : w.slots[s]? = some none) (hQ : Q w) : WP (slotTail s d) w Q :=
  wp_lockedSlotCall_noneG hh hs (WP.done hQ)

end Rx.CRef
