import RxVerif.Theorems.C13RefColdCountCalls
/-
C13-REF, ref_count over a COLD source: the whole program, the end-to-end theorem.
-/
namespace Rx.CRef
open Rx.Sim Rx.SubjM Rx.Ref Rx.RefR

/-- the calls of a `ref_count` / `replay` case over a cold source (`connect` / `disconnect` do not exist for them,
    nothing can be pushed into a cold source: no-ops, as in `ConnM.step`) -/
def callCcG (sid : Nat) : ConnM.Call → Prog
  | .subscribe _ => .userSub sid noReact .done
  | .unsubscribe o => .userUnsub o .done
  | _ => .done

/-- `(conn x ref_count (cold 0 ev…))` then the calls (the first Subject is never used) -/
def progRCc (script : List Ev) (cs : List ConnM.Call) : Prog :=
  subjNew fun _ => .obsvNew (coldSrc script) fun hid => subjNew fun S =>
  .cellNew (.bool false) fun c => .cellNew .lnil fun sb => .cellNew (.bool false) fun cn =>
  .obsvNew S.observable fun sid =>
  refCountHooks ⟨c, sb, cn⟩ (fun o => .obsvSub hid o .done) S.onSub S.onUnsub
    (fun x => S.next x) (fun e => S.error e) S.complete ;;
  forEach cs (callCcG sid)

theorem callCc_spec {script roots cobs armed w st} (h : RelCc script roots cobs armed none [] w st) (c : ConnM.Call)
    (hc : wfC roots.length [c] = true) :
    WP (callCcG 1 c) w (fun w' => ∃ roots' cobs' armed',
      roots'.length = roots.length + subsC [c] ∧
      RelCc script roots' cobs' armed' none [] w' (ConnM.step .refCount (.cold script) st c)) := by
  cases c with
  | subscribe o =>
    have : o = roots.length := by simpa [wfC] using hc
    subst this
    refine (subscribeCc_spec h).conseq ?_
    rintro w' ⟨c', a', h'⟩
    exact ⟨_, c', a', by simp [subsC, isSubC, List.filter], h'⟩
  | unsubscribe o =>
    refine (unsubscribeCc_spec h o).conseq ?_
    rintro w' ⟨a', h'⟩
    exact ⟨_, _, a', rfl, h'⟩
  | connect => exact WP.done ⟨_, _, _, rfl, h⟩
  | disconnect => exact WP.done ⟨_, _, _, rfl, h⟩
  | srcNext v => exact WP.done ⟨_, _, _, rfl, h⟩
  | srcError e => exact WP.done ⟨_, _, _, rfl, h⟩
  | srcComplete => exact WP.done ⟨_, _, _, rfl, h⟩

theorem callsCc_spec {script} (cs : List ConnM.Call) : ∀ (roots cobs : List Nat) (armed : List Bool) (w : World)
    (st : ConnM.State), RelCc script roots cobs armed none [] w st → wfC roots.length cs = true →
    WP (forEach cs (callCcG 1)) w (fun w' => ∃ roots' cobs' armed',
      roots'.length = roots.length + subsC cs ∧
      RelCc script roots' cobs' armed' none [] w' (ConnM.runFrom .refCount (.cold script) st cs)) := by
  induction cs with
  | nil => intro roots cobs armed w st h _; exact WP.done ⟨_, _, _, rfl, h⟩
  | cons c rest ih =>
    intro roots cobs armed w st h hwf
    rw [wfC_cons, Bool.and_eq_true] at hwf
    simp only [forEach]
    apply WP.seq
    refine (callCc_spec h c hwf.1).conseq ?_
    rintro w1 ⟨r1, c1, a1, hl1, h1⟩
    refine (ih r1 c1 a1 w1 _ h1 (by rw [hl1]; exact hwf.2)).conseq ?_
    rintro w2 ⟨r2, c2, a2, hl2, h2⟩
    exact ⟨r2, c2, a2, by rw [hl2, hl1, subsC_cons c rest, Nat.add_assoc], h2⟩

/-- the world after the allocations and the two `slotSet`s of `progRCc` -/
def w0Cc (script : List Ev) : World :=
  { cells := [.lnil, .int 0, .lnil, .int 0, .bool false, .lnil, .bool false]
    slots := [none, none, some (onSubHook rcC srcC fnP feP fcP), some (onUnsubHook rcC)]
    obsvs := [coldSrc script, Sp.observable] }

theorem relCc_init (script : List Ev) : RelCc script [] [] [] none [] (w0Cc script) ConnM.init := by
  have g : Glob [] [] (w0Cc script) := ⟨rfl, rfl, (fun _ h => by cases h), (fun _ h => by cases h), (by simp)⟩
  refine ⟨⟨g, SlotReads.nil, ⟨g, ?_, ?_, rfl⟩, ?_⟩, rfl⟩
  · exact
      { ne := by decide, cellO := rfl, cellS := rfl, nUsers := rfl
        user := fun u hu => by simp at hu
        obs := fun u hu => by simp at hu
        seen := fun u hu => by simp at hu
        unseen := fun _ _ => rfl
        hookIff := fun _ => rfl
        deadNoHook := fun _ _ => rfl
        log := fun _ => rfl
        keys := fun p hp => by cases hp
        regBound := fun p hp => by cases hp }
  · exact ⟨rfl, rfl, rfl, rfl, rfl, rfl, rfl, rfl, rfl, rfl, fun i hi => by cases hi⟩
  · exact
      { lenC := rfl, lenA := ⟨Nat.le_refl _, Nat.le_succ _⟩
        obs := fun i hi => by simp [ConnM.init] at hi
        acell := fun i hi => by simp at hi
        liveArmed := fun i hi => by simp at hi
        probes := rfl }

theorem progRCc_spec (script : List Ev) (cs : List ConnM.Call) (hwf : wfC 0 cs = true) :
    WP (progRCc script cs) {} (fun w' => ∃ roots cobs armed,
      RelCc script roots cobs armed none [] w' (ConnM.run .refCount (.cold script) cs)) := by
  unfold progRCc subjNew
  refine wp_cellNew (wp_cellNew (wp_slotNew (wp_slotNew (wp_obsvNew
    (wp_cellNew (wp_cellNew (wp_slotNew (wp_slotNew (wp_cellNew (wp_cellNew (wp_cellNew (wp_obsvNew ?_))))))))))))
  unfold refCountHooks
  refine WP.seq ?_
  refine wp_slotSet rfl ?_
  refine wp_slotSet rfl ?_
  refine WP.done ?_
  refine (callsCc_spec cs [] [] [] (w0Cc script) _ (relCc_init script) hwf).conseq ?_
  rintro w' ⟨r, c, a, _, h⟩
  exact ⟨r, c, a, h⟩

def FinalCc (script : List Ev) (cs : List ConnM.Call) (w : World) : Prop :=
  ∃ n0, ∀ fuel, n0 ≤ fuel → run fuel [progRCc script cs] {} = w

theorem FinalCc.unique {script cs w w'} (h : FinalCc script cs w) (h' : FinalCc script cs w') : w = w' := by
  obtain ⟨a, ha⟩ := h
  obtain ⟨b, hb⟩ := h'
  rw [← ha (a + b) (by omega), ← hb (a + b) (by omega)]

/-- **C13-REF, ref_count over a cold source.** -/
theorem refCount_refines_cold (script : List Ev) (cs : List ConnM.Call) (hwf : wfC 0 cs = true) :
    ∃ w, FinalCc script cs w ∧ AgreesCold w (ConnM.run .refCount (.cold script) cs) := by
  obtain ⟨n0, w, ⟨r, c, a, hrel⟩, hrun⟩ := WP.run_top (progRCc_spec script cs hwf)
  obtain ⟨g, U, X, _⟩ := hrel.inv.ur
  exact ⟨w, ⟨n0, hrun⟩, agreesCold_of g X.held rfl U hrel.inv.conns⟩

#print axioms refCount_refines_cold

end Rx.CRef
