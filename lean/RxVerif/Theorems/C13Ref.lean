import RxVerif.Theorems.C13RefCountCalls
/-
C13-REF — summary file: C13's central statements transported to model A (publish and ref_count over a hot plain
subject, directly attached recording observers, `wfC` call sequences), non-vacuity, axioms.

  publish_refines   (C13RefPublishMain.lean)   ∃ w, FinalP cs w ∧ AgreesC w (ConnM.run .publish .hot cs)
  refCount_refines  (C13RefCountCalls.lean)    ∃ w, FinalC cs w ∧ AgreesC w (ConnM.run .refCount .hot cs)
-/
namespace Rx.CRef
open Rx.Sim Rx.SubjM Rx.Ref Rx.RefR

theorem finalP_agrees {cs w} (hwf : wfC 0 cs = true) (h : FinalP cs w) : AgreesC w (ConnM.run .publish .hot cs) := by
  obtain ⟨w', hf, ha⟩ := publish_refines cs hwf
  rw [h.unique hf]; exact ha

theorem finalC_agrees {cs w} (hwf : wfC 0 cs = true) (h : FinalC cs w) : AgreesC w (ConnM.run .refCount .hot cs) := by
  obtain ⟨w', hf, ha⟩ := refCount_refines cs hwf
  rw [h.unique hf]; exact ha

theorem wfC_append (a b : List ConnM.Call) : ∀ n, wfC n (a ++ b) = (wfC n a && wfC (n + subsC a) b) := by
  induction a with
  | nil => intro n; simp [wfC, subsC]
  | cons c a ih =>
    intro n
    rw [List.cons_append, wfC_cons, ih, wfC_cons n c a, subsC_cons c a, Bool.and_assoc, Nat.add_assoc]

/-- **`publish_connects_only_on_connect` on model A**: the hot source has been subscribed to exactly once per
    `connect()` call — subscribers arriving or leaving never touch it. -/
theorem machine_publish_connects_only_on_connect (cs : List ConnM.Call) (hwf : wfC 0 cs = true) {w : World}
    (h : FinalP cs w) : srcSubsOf w = ConnM.connects cs := by
  rw [(finalP_agrees hwf h).srcSubs]; exact ConnM.publish_connects_only_on_connect .hot cs

/-- **`disconnect_stops_source` on model A**: after `disconnect` the hot source's observer map is empty. -/
theorem machine_disconnect_stops_source (cs : List ConnM.Call) (hwf : wfC 0 (cs ++ [.disconnect]) = true)
    {w : World} (h : FinalP (cs ++ [.disconnect]) w) : srcLiveOf w = false := by
  rw [(finalP_agrees hwf h).srcLive]; exact ConnM.disconnect_stops_source .hot cs

/-- **`at_most_one_source_subscription` / `ref_count_first_last` on model A**: a ref_count connectable subscribes
    to its source exactly once, when the first subscriber arrives, and never again; while the source is still
    subscribed some user is present. -/
theorem machine_ref_count_first_last (cs : List ConnM.Call) (hwf : wfC 0 cs = true) {w : World}
    (h : FinalC cs w) :
    srcSubsOf w = (if cs.any ConnM.isSubscribe then 1 else 0) ∧ srcSubsOf w ≤ 1 ∧
    (srcLiveOf w = true → ∃ o, w.isSubOf o = true) := by
  have a := finalC_agrees hwf h
  have r := ConnM.ref_count_first_last (k := .refCount) rfl .hot cs
  refine ⟨by rw [a.srcSubs]; exact r.1, by rw [a.srcSubs]; exact ConnM.at_most_one_source_subscription rfl .hot cs, ?_⟩
  intro hl
  rw [a.srcLive] at hl
  obtain ⟨o, _, ho⟩ := r.2 hl
  exact ⟨o, by rw [a.alive]; exact ho⟩

/-- **`same_items_for_present` on model A** (publish): two users that stay present over a stretch of calls record
    the same events over it. -/
theorem machine_publish_same_items (cs seg : List ConnM.Call) (o1 o2 : Nat) (hwf : wfC 0 (cs ++ seg) = true)
    (hp : ∀ n, n < seg.length →
      ConnM.present (ConnM.runFrom .publish .hot (ConnM.run .publish .hot cs) (seg.take n)) o1 ∧
      ConnM.present (ConnM.runFrom .publish .hot (ConnM.run .publish .hot cs) (seg.take n)) o2)
    {wA wB : World} (hA : FinalP cs wA) (hB : FinalP (cs ++ seg) wB) :
    ∃ d, logOf wB o1 = logOf wA o1 ++ d ∧ logOf wB o2 = logOf wA o2 ++ d := by
  have hwfA : wfC 0 cs = true := by rw [wfC_append, Bool.and_eq_true] at hwf; exact hwf.1
  have a := finalP_agrees hwfA hA
  have b := finalP_agrees hwf hB
  obtain ⟨d, e1, e2⟩ := ConnM.same_items_for_present .publish .hot cs seg o1 o2 hp
  refine ⟨d, ?_, ?_⟩
  · rw [b.logs, a.logs, ConnM.run_append]; exact e1
  · rw [b.logs, a.logs, ConnM.run_append]; exact e2

/-! ### non-vacuity: both sides evaluated -/

def demoP : List ConnM.Call :=
  [.subscribe 0, .srcNext (.int 1), .connect, .srcNext (.int 2), .subscribe 1, .connect, .srcNext (.int 3),
   .unsubscribe 0, .disconnect, .srcNext (.int 4), .connect, .srcNext (.int 5), .srcComplete, .subscribe 2]

example : wfC 0 demoP = true := by decide
example : (run 3000 [progP demoP] {}).status = .ok := by decide +kernel
/-- two live connections double every item (publish.rs connects once per `connect()`): user 0 sees 2,3,3 -/
example : (List.range 3).map (logOf (run 3000 [progP demoP] {})) =
    [[.next (.int 2), .next (.int 3), .next (.int 3)], [.next (.int 3), .next (.int 3), .next (.int 5), .complete], []] := by
  decide +kernel
example : (List.range 3).map (ConnM.logOf (ConnM.run .publish .hot demoP)) =
    [[.next (.int 2), .next (.int 3), .next (.int 3)], [.next (.int 3), .next (.int 3), .next (.int 5), .complete], []] := by
  decide +kernel
example : srcSubsOf (run 3000 [progP demoP] {}) = 3 ∧ ConnM.sourceSubscriptions (ConnM.run .publish .hot demoP) = 3 ∧
    srcLiveOf (run 3000 [progP (demoP.take 8)] {}) = true ∧ ConnM.sourceLive (ConnM.run .publish .hot (demoP.take 8)) = true ∧
    srcLiveOf (run 3000 [progP (demoP.take 9)] {}) = false ∧
    regCountOf (run 3000 [progP (demoP.take 8)] {}) = 1 := by decide +kernel

def demoC : List ConnM.Call :=
  [.srcNext (.int 9), .subscribe 0, .srcNext (.int 1), .subscribe 1, .srcNext (.int 2), .unsubscribe 0,
   .srcNext (.int 3), .unsubscribe 1, .subscribe 2, .srcNext (.int 4)]

example : wfC 0 demoC = true := by decide
example : (run 3000 [progRC demoC] {}).status = .ok := by decide +kernel
/-- the last subscriber arrives after the count fell to 0: ref_count.rs never reconnects, it sees nothing -/
example : (List.range 3).map (logOf (run 3000 [progRC demoC] {})) =
    [[.next (.int 1), .next (.int 2)], [.next (.int 2), .next (.int 3)], []] := by decide +kernel
example : (List.range 3).map (ConnM.logOf (ConnM.run .refCount .hot demoC)) =
    [[.next (.int 1), .next (.int 2)], [.next (.int 2), .next (.int 3)], []] := by decide +kernel
example : srcSubsOf (run 3000 [progRC demoC] {}) = 1 ∧ ConnM.sourceSubscriptions (ConnM.run .refCount .hot demoC) = 1 ∧
    srcLiveOf (run 3000 [progRC (demoC.take 7)] {}) = true ∧ srcLiveOf (run 3000 [progRC demoC] {}) = false ∧
    ConnM.sourceLive (ConnM.run .refCount .hot demoC) = false := by decide +kernel
/-- the hypotheses of the step lemmas are satisfiable: a related pair reached by a run -/
example : ∃ w roots cobs armed, FinalP [.subscribe 0, .connect, .subscribe 1, .unsubscribe 0] w ∧
    RelP roots cobs armed w (ConnM.run .publish .hot [.subscribe 0, .connect, .subscribe 1, .unsubscribe 0]) := by
  obtain ⟨n0, w, ⟨r, c, a, hrel⟩, hrun⟩ :=
    WP.run_top (progP_spec [.subscribe 0, .connect, .subscribe 1, .unsubscribe 0] (by decide))
  exact ⟨w, r, c, a, ⟨n0, hrun⟩, hrel⟩
example : ∃ w, FinalC demoC w := let ⟨w, h, _⟩ := refCount_refines demoC (by decide); ⟨w, h⟩

#print axioms publish_refines
#print axioms refCount_refines
#print axioms machine_publish_connects_only_on_connect
#print axioms machine_disconnect_stops_source
#print axioms machine_ref_count_first_last
#print axioms machine_publish_same_items

end Rx.CRef
