import RxVerif.Theorems.SimChainPrim
/-
SIM for chains, part 3: the StreamController macros of stage `j` of a chain, executed symbolically on
`CRep`, agree with the flat chain machine (`finF`, `unsubO`, `actC`, `deliver`).
`unsubscribe`/`finalize` cascade towards the source (induction on the number of stages above),
deliveries recurse towards the subscriber (induction on the stage index).
-/
namespace Rx.Chain
open Rx.Sim

/-- guards that may be alive while controller code of stage `j` (or above) runs: kernel state cells,
    and unscriber maps of stages strictly below `j` -/
def Up (ly : Lay) (j : Nat) (H : List (LockId × Bool)) : Prop :=
  ∀ p ∈ H, (∃ k, p.1 = .cell (ly.c0 + 3 * k + 2)) ∨ (∃ k, k < j ∧ p.1 = .cell (ly.c0 + 3 * k + 1))

/-- guards that may be alive when an event is delivered into observer `j`: state cells of stages `≥ j` -/
def Dn (ly : Lay) (j : Nat) (H : List (LockId × Bool)) : Prop :=
  ∀ p ∈ H, ∃ k, j ≤ k ∧ p.1 = .cell (ly.c0 + 3 * k + 2)

section locks
variable {ly : Lay} {j : Nat} {H : List (LockId × Bool)}

theorem noConf_of (l : LockId) (wr : Bool) (h : ∀ p ∈ H, p.1 ≠ l) : NoConf H l wr := by
  unfold NoConf
  rw [List.any_eq_false]
  intro p hp
  have := h p hp
  obtain ⟨l', w'⟩ := p
  simp only at this
  simp [this]

theorem Up.map (h : Up ly j H) {i : Nat} (hi : j ≤ i) (wr : Bool) :
    NoConf H (.cell (ly.c0 + 3 * i + 1)) wr := by
  apply noConf_of
  intro p hp e
  rcases h p hp with ⟨k, hk⟩ | ⟨k, hkj, hk⟩
  · rw [hk] at e; have := LockId.cell.inj e; omega
  · rw [hk] at e; have := LockId.cell.inj e; omega

theorem Up.slot (h : Up ly j H) (s : Nat) (wr : Bool) : NoConf H (.slot s) wr := by
  apply noConf_of
  intro p hp e
  rcases h p hp with ⟨k, hk⟩ | ⟨k, _, hk⟩ <;> (rw [hk] at e; cases e)

theorem Up.consMap (h : Up ly j H) (b : Bool) : Up ly (j + 1) ((.cell (ly.c0 + 3 * j + 1), b) :: H) := by
  intro p hp
  rcases List.mem_cons.mp hp with rfl | hp
  · exact Or.inr ⟨j, Nat.lt_succ_self _, rfl⟩
  · rcases h p hp with h1 | ⟨k, hk, h2⟩
    · exact Or.inl h1
    · exact Or.inr ⟨k, by omega, h2⟩

theorem Up.consSt (h : Up ly j H) (i : Nat) (b : Bool) : Up ly j ((.cell (ly.c0 + 3 * i + 2), b) :: H) := by
  intro p hp
  rcases List.mem_cons.mp hp with rfl | hp
  · exact Or.inl ⟨i, rfl⟩
  · exact h p hp

theorem Up.mono (h : Up ly j H) {i : Nat} (hi : j ≤ i) : Up ly i H := by
  intro p hp
  rcases h p hp with h1 | ⟨k, hk, h2⟩
  · exact Or.inl h1
  · exact Or.inr ⟨k, by omega, h2⟩

theorem Dn.up (h : Dn ly j H) (i : Nat) : Up ly i H := by
  intro p hp
  obtain ⟨k, _, hk⟩ := h p hp
  exact Or.inl ⟨k, hk⟩

theorem Dn.st (h : Dn ly (j + 1) H) (wr : Bool) : NoConf H (.cell (ly.c0 + 3 * j + 2)) wr := by
  apply noConf_of
  intro p hp e
  obtain ⟨k, hk, hk'⟩ := h p hp
  rw [hk'] at e; have := LockId.cell.inj e; omega

theorem Dn.nil : Dn ly j [] := by intro p hp; cases hp

theorem Dn.consSt (h : Dn ly (j + 1) H) (b : Bool) : Dn ly j ((.cell (ly.c0 + 3 * j + 2), b) :: H) := by
  intro p hp
  rcases List.mem_cons.mp hp with rfl | hp
  · exact ⟨j, Nat.le_refl _, rfl⟩
  · obtain ⟨k, hk, hk'⟩ := h p hp
    exact ⟨k, by omega, hk'⟩

theorem Dn.mono (h : Dn ly (j + 1) H) : Dn ly j H := by
  intro p hp
  obtain ⟨k, hk, hk'⟩ := h p hp
  exact ⟨k, by omega, hk'⟩

end locks

@[simp] theorem sc_sub (ly : Lay) (j : Nat) : (ly.sc j).sub = ly.L + j := rfl
@[simp] theorem sc_map (ly : Lay) (j : Nat) : (ly.sc j).map = ly.c0 + 3 * j + 1 := rfl
@[simp] theorem sc_fin (ly : Lay) (j : Nat) : (ly.sc j).fin = ly.s0 + j := rfl

theorem upd_self {α} (f : Nat → α) (i : Nat) (v : α) (h : f i = v) : upd f i v = f := by
  funext k; simp only [upd]; split
  · rename_i e; rw [e, h]
  · rfl

theorem unreg_self (x : CSt) (j : Nat) (h : x.rg j = false) : x.unreg j = x := by
  simp only [CSt.unreg, upd_self _ _ _ h]

theorem toNat_P (ly : Lay) (j : Nat) : (Data.int ((ly.L + (j + 1) : Nat) : Int)).toInt.toNat = ly.L + (j + 1) := by
  simp only [Data.toInt, Int.toNat_natCast]

/-- `unsubscribe` of observer `i` behaves as `up` says -/
def UnsubSpec (ly : Lay) (m i : Nat) (up : CSt → CSt) : Prop :=
  ∀ (x : CSt) (H : List (LockId × Bool)) (w : World) (k : Prog) (Q : World → Prop),
    Up ly i H → CRep ly m x H w → (∀ w', CRep ly m (up x) H w' → WP k w' Q) →
    WP (.obsUnsub (ly.L + i) k) w Q

theorem amapVals_mapD_true (ly : Lay) (j : Nat) :
    amapVals (ly.mapD j true) = [.int ((ly.L + (j + 1) : Nat) : Int)] := rfl
theorem amapVals_mapD_false (ly : Lay) (j : Nat) : amapVals (ly.mapD j false) = [] := rfl

section fin
variable {ly : Lay} {m j : Nat} {x : CSt} {H : List (LockId × Bool)} {w : World}

theorem finTail_spec (hj : j < m) (hH : Up ly j H) (h : CRep ly m x H w) :
    WP (.lockAcq (.slot (ly.s0 + j)) true <| .slotCall (ly.s0 + j) .unit true <|
        .lockRel (.slot (ly.s0 + j)) .done) w (CRep ly m x H) := by
  apply c_lockAcq h (hH.slot _ true)
  intro w1 h1
  apply c_slotCall h1 hj
  apply c_lockRel h1
  intro w2 h2
  exact WP.done h2

/-- the part of `finalize` after the `for unsub in unscribers` loop -/
theorem finRest_spec (hj : j < m) (hH : Up ly j H)
    (h : CRep ly m x ((.cell (ly.c0 + 3 * j + 1), false) :: H) w)
    (hdead : ∀ (y : CSt) w', y.rg j = false → y.sub j = false → CRep ly m y H w' →
      WP (ly.sc j).finalize w' (CRep ly m y H)) :
    WP (.lockRel (.cell (ly.c0 + 3 * j + 1)) <|
        .cellWrite (ly.c0 + 3 * j + 1) false .lnil <|
        .obsIsSub (ly.L + j) fun b =>
        (if b then Prog.obsUnsub (ly.L + j) .done else .done) ;;
        (.lockAcq (.slot (ly.s0 + j)) true <| .slotCall (ly.s0 + j) .unit true <|
         .lockRel (.slot (ly.s0 + j)) .done)) w
      (CRep ly m (if (x.unreg j).sub j then (x.unreg j).clear j else x.unreg j) H) := by
  apply c_lockRel h
  intro w1 h1
  apply c_writeMap (rg' := false) h1 hj (Or.inr (hH.map (Nat.le_refl _) true))
  intro w2 h2
  have h2' : CRep ly m (x.unreg j) H w2 := h2
  apply c_isSub h2' (Nat.le_of_lt hj)
  cases hs : (x.unreg j).sub j with
  | false =>
    simp only [Bool.false_eq_true, ↓reduceIte]
    apply WP.seq
    apply WP.done
    exact finTail_spec hj hH h2'
  | true =>
    simp only [↓reduceIte]
    apply WP.seq
    apply c_unsub h2' (Nat.le_of_lt hj)
    intro w3 h3
    have hfin : WP Prog.done w3 fun w1 => WP
        (.lockAcq (.slot (ly.s0 + j)) true <| .slotCall (ly.s0 + j) .unit true <|
         .lockRel (.slot (ly.s0 + j)) .done) w1 (CRep ly m ((x.unreg j).clear j) H) :=
      WP.done (finTail_spec hj hH h3)
    cases har : (x.unreg j).ar j with
    | false => simpa using hfin
    | true =>
      simp only [↓reduceIte]
      apply (hdead _ w3 (by simp [CSt.clear, CSt.unreg]) (by simp [CSt.clear]) h3).conseq
      intro w4 h4
      exact WP.done (finTail_spec hj hH h4)

/-- `finalize` once the map is empty and the subscriber gone: no effect -/
theorem finalize_dead (hj : j < m) (hH : Up ly j H) (hrg : x.rg j = false) (hs : x.sub j = false)
    (h : CRep ly m x H w) : WP (ly.sc j).finalize w (CRep ly m x H) := by
  simp only [Sctl.finalize, sc_sub, sc_map, sc_fin]
  apply c_lockAcq h (hH.map (Nat.le_refl _) false)
  intro w1 h1
  apply c_readMap h1 hj (Or.inl rfl)
  rw [hrg, amapVals_mapD_false]
  apply WP.seq
  apply WP.done
  apply c_lockRel h1
  intro w2 h2
  apply c_writeMap (rg' := false) h2 hj (Or.inr (hH.map (Nat.le_refl _) true))
  intro w3 h3
  have h3' : CRep ly m x H w3 := by
    have := unreg_self x j hrg
    rw [← this]; exact h3
  apply c_isSub h3' (Nat.le_of_lt hj)
  simp only [hs, Bool.false_eq_true, ↓reduceIte]
  apply WP.seq
  apply WP.done
  exact finTail_spec hj hH h3'

theorem finalize_spec (hj : j < m) (hH : Up ly j H) {up : CSt → CSt} (hup : UnsubSpec ly m (j + 1) up)
    (h : CRep ly m x H w) : WP (ly.sc j).finalize w (CRep ly m (finF up j x) H) := by
  simp only [Sctl.finalize, sc_sub, sc_map, sc_fin]
  apply c_lockAcq h (hH.map (Nat.le_refl _) false)
  intro w1 h1
  apply c_readMap h1 hj (Or.inl rfl)
  apply WP.seq
  have hloop : WP (forEach (amapVals (ly.mapD j (x.rg j))) fun o => .obsUnsub o.toInt.toNat .done) w1
      (CRep ly m (if x.rg j then up x else x) ((.cell (ly.c0 + 3 * j + 1), false) :: H)) := by
    cases hrg : x.rg j with
    | false =>
      rw [amapVals_mapD_false]
      exact WP.done (by simpa using h1)
    | true =>
      rw [amapVals_mapD_true]
      simp only [forEach, toNat_P, ↓reduceIte]
      apply WP.seq
      apply hup x _ w1 _ _ (hH.consMap false) h1
      intro w2 h2
      apply WP.done
      exact WP.done h2
  apply hloop.conseq
  intro w2 h2
  exact finRest_spec hj hH h2 (fun y w' hr hs hy => finalize_dead hj hH hr hs hy)

end fin

theorem unsubO_spec (ly : Lay) (m : Nat) : ∀ fuel i, i + fuel = m → UnsubSpec ly m i (unsubO fuel i) := by
  intro fuel
  induction fuel with
  | zero =>
    intro i hi x H w k Q hH h hk
    have : i = m := by omega
    subst this
    apply c_unsub h (Nat.le_refl _)
    intro w' h'
    simp only [h.arTop, Bool.false_eq_true, ↓reduceIte]
    exact hk _ h'
  | succ f ih =>
    intro i hi x H w k Q hH h hk
    have hlt : i < m := by omega
    apply c_unsub h (Nat.le_of_lt hlt)
    intro w' h'
    cases har : x.ar i with
    | false =>
      simp only [Bool.false_eq_true, ↓reduceIte]
      apply hk
      simpa [unsubO, har] using h'
    | true =>
      simp only [↓reduceIte]
      apply (finalize_spec hlt hH (ih (i + 1) (by omega)) h').conseq
      intro w1 h1
      apply hk
      simpa [unsubO, har] using h1

theorem upO_spec (ly : Lay) (m i : Nat) (hi : i < m) : UnsubSpec ly m (i + 1) (upO m i) :=
  unsubO_spec ly m _ _ (by omega)

theorem finC_spec {ly : Lay} {m i : Nat} {x : CSt} {H : List (LockId × Bool)} {w : World}
    (hi : i < m) (hH : Up ly i H) (h : CRep ly m x H w) :
    WP (ly.sc i).finalize w (CRep ly m (finC m i x) H) :=
  finalize_spec hi hH (upO_spec ly m i hi) h

end Rx.Chain
