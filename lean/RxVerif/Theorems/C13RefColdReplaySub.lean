import RxVerif.Theorems.C13RefColdReplayFam
/-
C13-REF, replay over a COLD source: the pure side of the FIRST subscribe (the one whose `on_subscribe(1)` connects).
The script reaches the new subscriber live, through its forwarder, before its (empty) history snapshot is replayed;
if the script ended it, `replay_subject.rs:95-99` takes the forwarder down again.
-/
namespace Rx.CRef
open Rx.Sim Rx.SubjM Rx.Ref Rx.RefR

/-- what is known of the ReplaySubject while the script runs: its only subscriber `n` (serial `s1`) is registered,
    and either still alive with no terminal stored, or ended -/
structure FoldInv (n s1 : Nat) (s : SubjM.State) : Prop where
  seen : (s.obs n).seen = true
  hook : (s.obs n).hook = true
  inHook : (s.obs n).inHook = some s1
  live : (s.obs n).alive = true →
    (s.obs n).inAlive = true ∧ s.observers = [(s1, n)] ∧ s.wasError = none ∧ s.wasCompleted = false

theorem recvK_keeps (ev : Ev) (r : ObsSt) :
    (recvK .replay ev r).seen = r.seen ∧ (recvK .replay ev r).hook = r.hook ∧
    (recvK .replay ev r).inHook = r.inHook ∧ ((recvK .replay ev r).alive = true → r.alive = true) := by
  refine ⟨rfl, rfl, rfl, ?_⟩
  simp only [recvK]
  cases r.inAlive <;> simp <;> intro h _ <;> exact h

theorem deliver_keeps (ev : Ev) (n : Nat) : ∀ (l : List (Nat × Nat)) (f : Nat → ObsSt),
    (deliver .replay ev l f n).seen = (f n).seen ∧ (deliver .replay ev l f n).hook = (f n).hook ∧
    (deliver .replay ev l f n).inHook = (f n).inHook ∧ ((deliver .replay ev l f n).alive = true → (f n).alive = true)
  | [], f => ⟨rfl, rfl, rfl, id⟩
  | p :: rest, f => by
    have ih := deliver_keeps ev n rest (upd f p.2 (recvK .replay ev (f p.2)))
    simp only [deliver]
    by_cases e : p.2 = n
    · subst e
      have k := recvK_keeps ev (f p.2)
      simp only [upd, ↓reduceIte] at ih
      exact ⟨ih.1.trans k.1, ih.2.1.trans k.2.1, ih.2.2.1.trans k.2.2.1, fun x => k.2.2.2 (ih.2.2.2 x)⟩
    · have e' : ¬ n = p.2 := fun x => e x.symm
      simp only [upd, e', ↓reduceIte] at ih
      exact ih

theorem FoldInv.emit {n s1 : Nat} {s : SubjM.State} (h : FoldInv n s1 s) (ev : Ev) :
    FoldInv n s1 (SubjM.emit .replay s ev) := by
  have k := deliver_keeps ev n s.observers s.obs
  refine ⟨k.1.trans h.seen, k.2.1.trans h.hook, k.2.2.1.trans h.inHook, ?_⟩
  intro ha
  have ha0 := k.2.2.2 ha
  obtain ⟨hia, hobs, hwe, hwc⟩ := h.live ha0
  have hd : deliver .replay ev s.observers s.obs n = recvK .replay ev (s.obs n) := by
    rw [hobs]; simp [deliver, upd]
  have ha' : (recvK .replay ev (s.obs n)).alive = true := by rw [← hd]; exact ha
  cases ht : ev.isTerminal with
  | true => simp [recvK, hia, ht] at ha'
  | false =>
    refine ⟨?_, ?_, ?_, ?_⟩
    · show (deliver .replay ev s.observers s.obs n).inAlive = true
      rw [hd]; simp [recvK, hia, ht]
    · show (if ev.isTerminal then [] else s.observers) = _
      rw [ht]; exact hobs
    · show newWasError .replay ev s.wasError = none
      cases ev <;> simp_all [newWasError, Ev.isTerminal]
    · show newWasCompleted .replay ev s.wasCompleted = false
      cases ev <;> simp_all [newWasCompleted, Ev.isTerminal]

theorem FoldInv.fold {n s1 : Nat} (m : Nat) : ∀ (script : List Ev) (st : ConnM.State), FoldInv n s1 st.sub →
    FoldInv n s1 (script.foldl (fun s ev => ConnM.connRecv .replay s m ev) st).sub
  | [], _, h => h
  | ev :: evs, st, h => by
    rw [List.foldl_cons]
    refine FoldInv.fold m evs _ ?_
    unfold ConnM.connRecv
    split
    · exact h.emit ev
    · exact h

/-- the hand-over of an empty snapshot to a subscriber that is still alive: `sbsc` is stored, nothing else -/
theorem subscribeB_fire_alive (s : SubjM.State) (n : Nat) (l : Option Nat) (ha : (s.obs n).alive = true)
    (hwe : s.wasError = none) (hwc : s.wasCompleted = false) :
    subscribeB .replay s n { fresh := true, len := l, history := [] } =
      ({ s with obs := upd s.obs n { s.obs n with armed := true } }, none) := by
  simp only [subscribeB, Kind.isReplay, Bool.and_self, ↓reduceIte, subscribeH]
  rw [handOver_eq _ _ _ _ ha]
  cases hin : (s.obs n).inHook <;> simp [termOf, hwe, hwc, reap, upd_upd, ha, upd]

/-- … to a subscriber the script has ended: its forwarder is unsubscribed again (replay_subject.rs:95-99) -/
theorem subscribeB_fire_dead (s : SubjM.State) (n s1 : Nat) (l : Option Nat) (ha : (s.obs n).alive = false)
    (hin : (s.obs n).inHook = some s1) :
    subscribeB .replay s n { fresh := true, len := l, history := [] } =
      ({ s with observers := s.observers.filter (fun p => p.1 != s1)
                obs := upd s.obs n { s.obs n with armed := false, inAlive := false, inHook := none } },
       some (s.observers.filter (fun p => p.1 != s1)).length) := by
  simp only [subscribeB, Kind.isReplay, Bool.and_self, ↓reduceIte, subscribeH]
  rw [ConnM.handOver_dead _ _ _ _ ha]
  simp [reap, upd_upd, ha, hin, upd]

end Rx.CRef
