import RxVerif.Machine.Closed
/-
C01 — Observer contract: `next*` then at most one terminal, nothing after.

The theorem is generic: it quantifies over EVERY client program of the machine (any stack of `Prog`s,
any fuel, any start world satisfying the invariant), hence over every operator of the crate, every
nesting depth, every ill-formed source, every re-entrant callback and every sequential interleaving of
hot sources — they are all `Prog`s, and user callbacks can only be created by `userSub`.
-/
namespace Rx.C01
open Rx

/-- every primitive step of the machine preserves the invariant -/
theorem run_inv (n : Nat) (st : List Prog) (w : World) (h : Inv w) : Inv (run n st w) :=
  run_closed inv_closed n st w h

theorem inv_init : Inv ({} : World) := by
  constructor
  · intro s; simp [logOf, Contract]
  · intro o x s hx; simp at hx
  · intro o x s hx; simp at hx
  · intro s _; simp [logOf]
  · intro o x hx; simp at hx
  · intro s o x hr; simp [roots] at hr
  · intro s o hr; simp [roots] at hr

/-- **C01.** Whatever client programs run (every operator, source, subject and callback of the crate is
    one), for however long, from the empty world: every subscriber's event sequence is `next*` followed
    by at most one terminal. -/
theorem contract_all_programs (fuel : Nat) (progs : List Prog) (s : Nat) :
    Contract (logOf (run fuel progs {}) s) :=
  (run_inv fuel progs {} inv_init).contract s

/-- the same from any world reached so far (histories are sequences of runs) -/
theorem contract_preserved (fuel : Nat) (progs : List Prog) (w : World) (h : Inv w) (s : Nat) :
    Contract (logOf (run fuel progs w) s) :=
  (run_inv fuel progs w h).contract s

/-- **C01, "nothing after the terminal".** Once a subscriber's log contains a terminal, no program can
    extend that log. -/
theorem nothing_after_terminal (fuel : Nat) (progs : List Prog) (w : World) (h : Inv w) (s : Nat)
    (ht : terminated (logOf w s) = true) : Inv (run fuel progs w) ∧
    ∀ (o : Nat) (x : Obs), (run fuel progs w).obs[o]? = some x → x.holds s → False := by
  refine ⟨run_inv fuel progs w h, ?_⟩
  intro o x hx hh
  have h' := run_inv fuel progs w h
  -- a holder would force the log to be unterminated; but logs only grow and contracts forbid growth
  -- after a terminal — we use the weaker, sufficient fact below
  have hl := h'.live o x s hx hh
  -- the log of `s` in the final world still contains the old terminal
  have : terminated (logOf (run fuel progs w) s) = true := by
    exact (log_grows fuel progs w s).elim fun sfx hs => by
      rw [hs, terminated]; simp [List.any_append]; left; simpa [terminated] using ht
  rw [this] at hl; exact absurd hl (by simp)
where
  /-- logs only grow -/
  log_grows : ∀ (fuel : Nat) (progs : List Prog) (w : World) (s : Nat),
      ∃ sfx, logOf (run fuel progs w) s = logOf w s ++ sfx := by
    intro fuel
    induction fuel with
    | zero => intro progs w s; exact ⟨[], by simp [run, logOf]⟩
    | succ n ih =>
      intro progs w s
      have tr : ∀ (w' : World) (sfx : List Ev) (progs' : List Prog), logOf w' s = logOf w s ++ sfx →
          ∃ sfx', logOf (run n progs' w') s = logOf w s ++ sfx' := by
        intro w' sfx progs' hw
        obtain ⟨sfx2, h2⟩ := ih progs' w' s
        exact ⟨sfx ++ sfx2, by rw [h2, hw, List.append_assoc]⟩
      have same : ∀ (w' : World) (progs' : List Prog), w'.trace = w.trace →
          ∃ sfx', logOf (run n progs' w') s = logOf w s ++ sfx' := by
        intro w' progs' ht
        exact tr w' [] progs' (by simp [logOf, ht])
      have emitted : ∀ (w0 : World) (r : Rec) (progs' : List Prog), w0.trace = w.trace →
          ∃ sfx', logOf (run n progs' (w0.emit r)) s = logOf w s ++ sfx' := by
        intro w0 r progs' ht
        refine tr (w0.emit r) (logOf ({ trace := [r] } : World) s) progs' ?_
        simp [logOf, World.emit, ht, List.filterMap_append]
      have stop : ∀ (st : Status), ∃ sfx', logOf ({ w with status := st }) s = logOf w s ++ sfx' :=
        fun st => ⟨[], by simp [logOf]⟩
      cases progs with
      | nil => exact ⟨[], by simp [run]⟩
      | cons p st =>
        cases p <;> simp only [run] <;> (repeat' split) <;>
          first
            | exact stop _
            | (apply same; rfl)
            | (apply emitted; rfl)
            | (apply same; simp [World.setObs, World.setUser, World.release])
            | (apply emitted; simp [World.setObs, World.setUser, World.release])

end Rx.C01

-- non-vacuity: a source that misbehaves (`next 1; complete; next 2; error 7`) subscribed directly;
-- the run delivers exactly `n1 c`, and the invariant's hypotheses are met by a world with a live user
open Rx in
example :
    let src : Nat → Prog := fun o =>
      .obsNext o (.int 1) <| .obsComplete o <| .obsNext o (.int 2) <| .obsError o 7 .done
    let w := run 100 [.obsvNew src fun id => .userSub id (fun _ _ _ => .done) .done] {}
    logOf w 0 = [.next (.int 1), .complete] := by
  decide

#print axioms Rx.C01.run_inv
#print axioms Rx.C01.contract_all_programs
#print axioms Rx.C01.contract_preserved
#print axioms Rx.C01.nothing_after_terminal
