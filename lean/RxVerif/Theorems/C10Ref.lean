import RxVerif.Theorems.C10RefBase
import RxVerif.Theorems.C10
/-
C10-REF — model A's `Subject` macros (`Machine/Core.lean`: `subjNew`, `Subj.next/error/complete/observable`,
transliterating src/subjects/subject.rs) REFINE the pure subject machine `SubjM` (kind `.plain`), for test
subscribers attached directly to `sj.observable` whose callbacks only record.

  * `Rel`            the simulation relation  World ↔ SubjM.State
  * `subscribe_spec`, `unsubscribe_spec`, `emit_spec`   one lemma per call kind (WP form)
  * `calls_spec`     induction over the call sequence
  * `plain_refines`  the end-to-end theorem from the empty world
  * corollaries      C10's central statements transported to model A
-/
namespace Rx.Ref
open Rx.Sim Rx.SubjM

/-- test subscribers only record -/
def noReact : Nat → Nat → Ev → Prog := fun _ _ _ => .done

/-- the teardown `Subject::observable` installs for the observer registered under `serial`
    (subject.rs:74-83: remove the entry, call `on_unsubscribe(len)`) -/
def hookProg (sj : Subj) (serial : Int) : Prog :=
  .cellRead sj.observers false fun m =>
    let m' := amapRemove m serial
    .cellWrite sj.observers false m' <|
    .lockAcq (.slot sj.onUnsub) false <|
    .slotCall sj.onUnsub (.int (amapLen m')) false <|
    .lockRel (.slot sj.onUnsub) .done

/-- the root observer of test subscriber `u` as described by its `SubjM` record -/
def obsOf (sj : Subj) (u : Nat) (r : ObsSt) : Obs :=
  ⟨if r.alive then some (.user u) else none, if r.alive then some (.user u) else none,
   if r.alive then some (.user u) else none, r.inHook.map fun s => hookProg sj (s : Int)⟩

/-- the part of a `SubjM` record the plain refinement looks at -/
def View (r : ObsSt) : Bool × Bool × List Ev × Bool × Option Nat := (r.seen, r.alive, r.log, r.hook, r.inHook)

/-- The simulation relation, on the components of a `SubjM.State` (so that it can be used in the middle of a
    broadcast, where the map cell is already cleared but the records are only partly updated).
    `n` = number of `subscribe` calls so far = number of users = number of observers;
    `ov` = the observable the users subscribe to (`sj.observable` for a plain Subject, `a.observable` for an
    AsyncSubject over `sj`). -/
structure RelC (sj : Subj) (ov : Obsv) (id n : Nat) (w : World) (observers : List (Nat × Nat)) (serial : Nat)
    (f : Nat → ObsSt) : Prop where
  status : w.status = .ok
  held : w.held = []
  ne : sj.observers ≠ sj.serial
  cellO : w.cells[sj.observers]? = some (encMap observers)
  cellS : w.cells[sj.serial]? = some (.int serial)
  slotA : w.slots[sj.onSub]? = some none
  slotB : w.slots[sj.onUnsub]? = some none
  obsv : w.obsvs[id]? = some ov
  nUsers : w.users.length = n
  nObs : w.obs.length = n
  /-- `a` = `Subscription.fn_unsubscribe` still there; it outlives the observer's hook for a subscriber that was
      handed a terminal at once (AsyncSubject after its end): hence only `hook → a` -/
  user : ∀ u, u < n → ∃ a, w.users[u]? = some ⟨u, noReact, true, a⟩ ∧ ((f u).hook = true → a = true)
  obs : ∀ u, u < n → w.obs[u]? = some (obsOf sj u (f u))
  seen : ∀ u, u < n → (f u).seen = true
  unseen : ∀ u, n ≤ u → View (f u) = View {}
  hookIff : ∀ u, (f u).hook = (f u).inHook.isSome
  deadNoHook : ∀ u, (f u).hook = false → (f u).alive = false
  log : ∀ u, logOf w u = (f u).log
  keys : ∀ p ∈ observers, p.1 ≤ serial

def Rel (sj : Subj) (ov : Obsv) (id n : Nat) (w : World) (st : State) : Prop :=
  RelC sj ov id n w st.observers st.serial st.obs

theorem View.eq {r r' : ObsSt} (h : View r' = View r) :
    r'.seen = r.seen ∧ r'.alive = r.alive ∧ r'.log = r.log ∧ r'.hook = r.hook ∧ r'.inHook = r.inHook := by
  simpa [View] using h

theorem RelC.congr {sj ov id n w observers serial f g} (h : RelC sj ov id n w observers serial f)
    (hv : ∀ u, View (g u) = View (f u)) : RelC sj ov id n w observers serial g := by
  have e := fun u => View.eq (hv u)
  refine { h with user := ?_, obs := ?_, seen := ?_, unseen := ?_, hookIff := ?_, deadNoHook := ?_, log := ?_ }
  · intro u hu; obtain ⟨a, h1, h2⟩ := h.user u hu; exact ⟨a, h1, fun x => h2 (by rw [← (e u).2.2.2.1]; exact x)⟩
  · intro u hu; rw [h.obs u hu]; simp only [obsOf, (e u).2.1, (e u).2.2.2.2]
  · intro u hu; rw [(e u).1]; exact h.seen u hu
  · intro u hu; rw [hv u]; exact h.unseen u hu
  · intro u; rw [(e u).2.2.2.1, (e u).2.2.2.2]; exact h.hookIff u
  · intro u hu; rw [(e u).2.2.2.1] at hu; rw [(e u).2.1]; exact h.deadNoHook u hu
  · intro u; rw [(e u).2.2.1]; exact h.log u

theorem RelC.obs_none {sj ov id n w observers serial f} (h : RelC sj ov id n w observers serial f) (u : Nat)
    (hu : n ≤ u) : w.obs[u]? = none := by
  apply List.getElem?_eq_none; rw [h.nObs]; exact hu

theorem RelC.users_none {sj ov id n w observers serial f} (h : RelC sj ov id n w observers serial f) (u : Nat)
    (hu : n ≤ u) : w.users[u]? = none := by
  apply List.getElem?_eq_none; rw [h.nUsers]; exact hu

/-! ### the broadcast: one delivery, then the loop over the snapshot -/

theorem modify_get_other {α} (l : List α) (f : α → α) {o u : Nat} (h : o ≠ u) : (l.modify o f)[u]? = l[u]? := by
  simp [h]

theorem modify_get_same {α} (l : List α) (f : α → α) {o : Nat} {x : α} (h : l[o]? = some x) :
    (l.modify o f)[o]? = some (f x) := by
  simp [h]

theorem view_upd (f : Nat → ObsSt) (o : Nat) (r : ObsSt) (u : Nat) :
    View (upd f o r u) = if u = o then View r else View (f u) := by
  simp only [upd]; split <;> rfl

theorem logOf_deliverTo_same (w : World) (o s : Nat) (ev : Ev) :
    logOf (w.deliverTo o s ev) s = logOf w s ++ [ev] := by
  unfold World.deliverTo; split
  · rw [logOf_emit_same]; rfl
  · rw [logOf_emit_same]

theorem logOf_deliverTo_other (w : World) (o s s' : Nat) (ev : Ev) (h : s ≠ s') :
    logOf (w.deliverTo o s ev) s' = logOf w s' := by
  unfold World.deliverTo; split
  · rw [logOf_emit_other _ _ _ _ h]; rfl
  · rw [logOf_emit_other _ _ _ _ h]

theorem deliverTo_obs (w : World) (o s : Nat) (ev : Ev) :
    (w.deliverTo o s ev).obs = if ev.isTerminal then w.obs.modify o Obs.cleared else w.obs := by
  unfold World.deliverTo; split <;> rfl

/-- `observer.next(d)` / `.error(e)` / `.complete()` on one entry of the snapshot = `ObsSt.recv` -/
theorem deliver1_specF {sj ov id n w observers serial f} (h : RelC sj ov id n w observers serial f) (ev : Ev) (o : Nat) :
    WP (evProg ev o .done) w (fun w' => RelC sj ov id n w' observers serial (upd f o ((f o).recv ev)) ∧
      w'.cells = w.cells) := by
  rcases Nat.lt_or_ge o n with hlt | hge
  · cases ha : (f o).alive with
    | false =>
      refine wp_ev_dead (h.obs o hlt) (by simp [obsOf, ha]) (WP.done ⟨?_, rfl⟩)
      refine h.congr fun u => ?_
      rw [view_upd]; split
      · rename_i e; subst e; simp [View, ObsSt.recv, ha]
      · rfl
    | true =>
      obtain ⟨a, hua, _⟩ := h.user o hlt
      refine wp_ev_user (s := o) (h.obs o hlt) (by simp [obsOf, ha]) (by simp [obsOf, ha]) (by simp [obsOf, ha])
        hua rfl (WP.done ⟨?_, by unfold World.deliverTo; split <;> rfl⟩)
      have hobs : ∀ u, u < n → (w.deliverTo o o ev).obs[u]? =
          some (obsOf sj u (upd f o ((f o).recv ev) u)) := by
        intro u hu
        rw [deliverTo_obs]
        by_cases e : u = o
        · subst e
          simp only [upd, ↓reduceIte]
          cases ht : ev.isTerminal with
          | true =>
            simp only [↓reduceIte, modify_get_same _ _ (h.obs u hu)]
            simp [obsOf, Obs.cleared, ObsSt.recv, ht]
          | false =>
            simp only [Bool.false_eq_true, ↓reduceIte, h.obs u hu]
            simp [obsOf, ObsSt.recv, ht, ha]
        · have e' : ¬ o = u := fun x => e x.symm
          simp only [upd, e, ↓reduceIte]
          split
          · rw [modify_get_other _ _ e']; exact h.obs u hu
          · exact h.obs u hu
      have hfix : ∀ (P : ObsSt → Prop) (u : Nat), P (f u) → (u = o → P ((f o).recv ev)) →
          P (upd f o ((f o).recv ev) u) := by
        intro P u h1 h2
        by_cases e : u = o
        · subst e; simpa [upd] using h2 rfl
        · simpa [upd, e] using h1
      exact
        { status := by unfold World.deliverTo; split <;> exact h.status
          held := by unfold World.deliverTo; split <;> exact h.held
          ne := h.ne
          cellO := by unfold World.deliverTo; split <;> exact h.cellO
          cellS := by unfold World.deliverTo; split <;> exact h.cellS
          slotA := by unfold World.deliverTo; split <;> exact h.slotA
          slotB := by unfold World.deliverTo; split <;> exact h.slotB
          obsv := by unfold World.deliverTo; split <;> exact h.obsv
          nUsers := by unfold World.deliverTo; split <;> exact h.nUsers
          nObs := by rw [deliverTo_obs]; split <;> simp [h.nObs]
          user := by
            intro u hu
            have : (w.deliverTo o o ev).users = w.users := by unfold World.deliverTo; split <;> rfl
            obtain ⟨a', h1, h2⟩ := h.user u hu
            refine ⟨a', by rw [this]; exact h1, ?_⟩
            exact hfix (fun r => r.hook = true → a' = true) u h2 (fun e => by subst e; exact h2)
          obs := hobs
          seen := fun u hu => hfix (fun r => r.seen = true) u (h.seen u hu) (fun e => by subst e; exact h.seen u hu)
          unseen := fun u hu => hfix (fun r => View r = View {}) u (h.unseen u hu)
            (fun e => by subst e; exact absurd hlt (Nat.not_lt.mpr hu))
          hookIff := fun u => hfix (fun r => r.hook = r.inHook.isSome) u (h.hookIff u)
            (fun _ => h.hookIff o)
          deadNoHook := fun u => hfix (fun r => r.hook = false → r.alive = false) u (h.deadNoHook u)
            (fun _ hh => by have := h.deadNoHook o hh; simp [ha] at this)
          log := by
            intro u
            by_cases e : u = o
            · subst e; rw [logOf_deliverTo_same, h.log]; simp [upd, ObsSt.recv, ha]
            · rw [logOf_deliverTo_other _ _ _ _ _ (fun x => e x.symm), h.log]; simp [upd, e]
          keys := h.keys }
  · refine wp_ev_absent (h.obs_none o hge) (WP.done ⟨?_, rfl⟩)
    refine h.congr fun u => ?_
    rw [view_upd]; split
    · rename_i e; subst e
      have := View.eq (h.unseen u hge)
      simp [View, ObsSt.recv, this]
    · rfl

theorem deliver1_spec {sj ov id n w observers serial f} (h : RelC sj ov id n w observers serial f) (ev : Ev) (o : Nat) :
    WP (evProg ev o .done) w (fun w' => RelC sj ov id n w' observers serial (upd f o ((f o).recv ev))) :=
  (deliver1_specF h ev o).conseq fun _ h' => h'.1

/-- `fetch_observers().into_iter().for_each(|o| o.next(..))` = `SubjM.deliver` (no cell is touched) -/
theorem deliver_loopF {sj ov id n observers serial} (ev : Ev) (l : List (Nat × Nat)) :
    ∀ (f : Nat → ObsSt) (w : World), RelC sj ov id n w observers serial f →
      WP (forEach (l.map fun p => Data.int p.2) fun o => evProg ev o.toInt.toNat .done) w
        (fun w' => RelC sj ov id n w' observers serial (deliver .plain ev l f) ∧ w'.cells = w.cells) := by
  induction l with
  | nil => intro f w h; exact WP.done ⟨h, rfl⟩
  | cons p rest ih =>
    intro f w h
    simp only [List.map_cons, forEach, toNat_int]
    apply WP.seq
    refine (deliver1_specF h ev p.2).conseq fun w1 h1 => ?_
    exact (ih _ w1 h1.1).conseq fun w2 h2 => ⟨h2.1, h2.2.trans h1.2⟩

theorem deliver_loop {sj ov id n observers serial} (ev : Ev) (l : List (Nat × Nat)) :
    ∀ (f : Nat → ObsSt) (w : World), RelC sj ov id n w observers serial f →
      WP (forEach (l.map fun p => Data.int p.2) fun o => evProg ev o.toInt.toNat .done) w
        (fun w' => RelC sj ov id n w' observers serial (deliver .plain ev l f)) :=
  fun f w h => (deliver_loopF ev l f w h).conseq fun _ h' => h'.1

/-! ### the calls -/

def callProg (sj : Subj) (id : Nat) : Call → Prog
  | .subscribe _ => .userSub id noReact .done
  | .unsubscribe o => .userUnsub o .done
  | .next v => sj.next v
  | .error e => sj.error e
  | .complete => sj.complete

def evCall (sj : Subj) : Ev → Prog
  | .next v => sj.next v
  | .error e => sj.error e
  | .complete => sj.complete

/-- `Subject::next / error / complete` (subject.rs:37-52) = `SubjM.emit .plain`; only the map cell is written -/
theorem emit_specF {sj ov id n w st} (h : Rel sj ov id n w st) (ev : Ev) :
    WP (evCall sj ev) w (fun w' => Rel sj ov id n w' (emit .plain st ev) ∧
      ∀ i, i ≠ sj.observers → w'.cells[i]? = w.cells[i]?) := by
  have hread : w.cells[sj.observers]?.getD .unit = encMap st.observers := by rw [h.cellO]; rfl
  cases ev with
  | next d =>
    refine wp_cellRead h.held ?_
    rw [hread, amapVals_encMap]
    exact (deliver_loopF (.next d) st.observers st.obs w h).conseq fun w' h' => ⟨h'.1, fun i _ => by rw [h'.2]⟩
  | error e =>
    refine wp_cellRead h.held ?_
    refine wp_cellWrite h.held ?_
    rw [hread, amapVals_encMap]
    have h0 : RelC sj ov id n { w with cells := w.cells.set sj.observers .lnil } [] st.serial st.obs :=
      { h with
        cellO := set_get_same _ h.cellO
        cellS := by show (w.cells.set _ _)[_]? = _; rw [set_get_other _ h.ne]; exact h.cellS
        keys := by intro p hp; cases hp }
    exact (deliver_loopF (.error e) st.observers st.obs _ h0).conseq fun w' h' =>
      ⟨h'.1, fun i hi => by rw [h'.2]; exact set_get_other _ (Ne.symm hi)⟩
  | complete =>
    refine wp_cellRead h.held ?_
    refine wp_cellWrite h.held ?_
    rw [hread, amapVals_encMap]
    have h0 : RelC sj ov id n { w with cells := w.cells.set sj.observers .lnil } [] st.serial st.obs :=
      { h with
        cellO := set_get_same _ h.cellO
        cellS := by show (w.cells.set _ _)[_]? = _; rw [set_get_other _ h.ne]; exact h.cellS
        keys := by intro p hp; cases hp }
    exact (deliver_loopF .complete st.observers st.obs _ h0).conseq fun w' h' =>
      ⟨h'.1, fun i hi => by rw [h'.2]; exact set_get_other _ (Ne.symm hi)⟩

theorem emit_spec {sj ov id n w st} (h : Rel sj ov id n w st) (ev : Ev) :
    WP (evCall sj ev) w (fun w' => Rel sj ov id n w' (emit .plain st ev)) :=
  (emit_specF h ev).conseq fun _ h' => h'.1

/-- the world after `Subject::observable`'s closure ran for a subscribed observer `s` (subject.rs:66-92) -/
def subWorld (sj : Subj) (w0 : World) (s serial : Nat) (obsl : List (Nat × Nat)) : World :=
  { (w0.setObs s fun x => { x with onUnsub := some (hookProg sj ((serial + 1 : Nat) : Int)) }) with
    cells := (w0.cells.set sj.serial (.int ((serial + 1 : Nat) : Int))).set sj.observers
      (encMap (obsl ++ [(serial + 1, s)])) }

theorem observable_spec {sj : Subj} {w0 : World} {s serial : Nat} {x : Obs} {obsl : List (Nat × Nat)}
    {Q : World → Prop} (hh : w0.held = []) (hx : w0.obs[s]? = some x) (hsub : x.isSub = true)
    (hne : sj.observers ≠ sj.serial)
    (hS : w0.cells[sj.serial]? = some (.int serial)) (hO : w0.cells[sj.observers]? = some (encMap obsl))
    (hkeys : ∀ p ∈ obsl, p.1 ≤ serial) (hA : w0.slots[sj.onSub]? = some none)
    (hQ : Q (subWorld sj w0 s serial obsl)) : WP (sj.observable s) w0 Q := by
  unfold Subj.observable
  refine wp_obsIsSub hx ?_
  simp only [hsub, Bool.not_true, Bool.false_eq_true, ↓reduceIte]
  refine wp_cellRead hh ?_
  simp only [hS, Option.getD_some, Data.toInt]
  rw [show ((serial : Int) + 1) = ((serial + 1 : Nat) : Int) from by omega]
  refine wp_cellWrite hh ?_
  refine wp_obsSetOnUnsub hh ?_
  refine wp_cellRead hh ?_
  have hc : ∀ d, ((w0.cells.set sj.serial d)[sj.observers]?).getD .unit = encMap obsl := by
    intro d; rw [set_get_other _ (Ne.symm hne), hO]; rfl
  simp only [World.setObs, hc]
  rw [amapInsert_encMap _ _ _ (fun p hp => by have := hkeys p hp; omega)]
  refine wp_cellWrite hh ?_
  refine wp_lockedSlotCall_none hh hA (WP.done ?_)
  exact hQ

/-- the relation after a fresh user `n` went through `Subject::observable`'s closure and `subscribe` returned -/
theorem RelC.afterSub {sj ov id n w} {st : State} (h : RelC sj ov id n w st.observers st.serial st.obs) :
    RelC sj ov id (n + 1)
      ((subWorld sj { w with
          obs := w.obs ++ [⟨some (.user n), some (.user n), some (.user n), none⟩]
          users := w.users ++ [⟨n, noReact, false, true⟩] } n st.serial st.observers).setUser n
        fun u => { u with ready := true })
      (register st n { seen := true, alive := true, hook := true }).observers
      (register st n { seen := true, alive := true, hook := true }).serial
      (register st n { seen := true, alive := true, hook := true }).obs := by
  have hun := View.eq (h.unseen n (Nat.le_refl _))
  have hfix : ∀ (P : ObsSt → Prop) (u : Nat) (r : ObsSt), (u ≠ n → P (st.obs u)) → (u = n → P r) →
      P (upd st.obs n r u) := by
    intro P u r h1 h2
    by_cases e : u = n
    · subst e; simpa [upd] using h2 rfl
    · simpa [upd, e] using h1 e
  have hlen : n < (w.obs ++ [(⟨some (.user n), some (.user n), some (.user n), none⟩ : Obs)]).length := by
    simp [h.nObs]
  exact
    { status := h.status
      held := h.held
      ne := h.ne
      cellO := set_get_same _ (by rw [set_get_other _ (Ne.symm h.ne)]; exact h.cellO)
      cellS := by
        show ((w.cells.set sj.serial _).set sj.observers _)[sj.serial]? = _
        rw [set_get_other _ h.ne]; exact set_get_same _ h.cellS
      slotA := h.slotA
      slotB := h.slotB
      obsv := h.obsv
      nUsers := by simp [World.setUser, subWorld, World.setObs, h.nUsers]
      nObs := by simp [World.setUser, subWorld, World.setObs, h.nObs]
      user := by
        intro u hu
        simp only [World.setUser, subWorld, World.setObs]
        by_cases e : u = n
        · subst e
          rw [modify_get_same (x := ⟨u, noReact, false, true⟩) _ _ (by rw [← h.nUsers]; simp)]
          exact ⟨true, rfl, fun _ => rfl⟩
        · obtain ⟨a', h1, h2⟩ := h.user u (by omega)
          rw [modify_get_other _ _ (fun x => e x.symm), List.getElem?_append_left (by rw [h.nUsers]; omega)]
          exact ⟨a', h1, by simpa [register, upd, e] using h2⟩
      obs := by
        intro u hu
        show ((w.obs ++ [_]).modify n _)[u]? = _
        by_cases e : u = n
        · subst e
          rw [modify_get_same (x := ⟨some (.user u), some (.user u), some (.user u), none⟩) _ _
            (by rw [← h.nObs]; simp)]
          simp [register, upd, obsOf]
        · rw [modify_get_other _ _ (fun x => e x.symm), List.getElem?_append_left (by rw [h.nObs]; omega),
            h.obs u (by omega)]
          simp [register, upd, e]
      seen := fun u hu => hfix (fun r => r.seen = true) u _ (fun e => h.seen u (by omega)) (fun _ => rfl)
      unseen := fun u hu => hfix (fun r => View r = View {}) u _ (fun _ => h.unseen u (by omega))
        (fun e => by omega)
      hookIff := fun u => hfix (fun r => r.hook = r.inHook.isSome) u _ (fun _ => h.hookIff u) (fun _ => rfl)
      deadNoHook := fun u => hfix (fun r => r.hook = false → r.alive = false) u _ (fun _ => h.deadNoHook u)
        (fun _ hh => by simp at hh)
      log := by
        intro u
        show logOf w u = _
        rw [h.log]
        exact hfix (fun r => (st.obs u).log = r.log) u _ (fun _ => rfl) (fun e => by subst e; simpa using hun.2.2.1)
      keys := by
        intro p hp
        show p.1 ≤ st.serial + 1
        rcases List.mem_append.1 hp with hp | hp
        · have := h.keys p hp; omega
        · simp at hp; subst hp; simp }

/-- `observable().subscribe(..)` of a fresh test subscriber (observable.rs `inner_subscribe`, subject.rs:61-93)
    = `SubjM.step .plain _ (.subscribe n)` for the next unused id -/
theorem subscribe_spec {sj id n w st} (h : Rel sj sj.observable id n w st) :
    WP (.userSub id noReact .done) w (fun w' => Rel sj sj.observable id (n + 1) w' (step .plain st (.subscribe n))) := by
  have hu : (st.obs n).seen = false := (View.eq (h.unseen n (Nat.le_refl _))).1
  have hst : step .plain st (.subscribe n) = register st n { seen := true, alive := true, hook := true } := by
    simp [step, subscribeA, subscribeB, subscribeH, Kind.isReplay, hu]
  rw [hst]
  refine wp_userSub h.obsv ?_
  simp only [h.nObs, h.nUsers]
  refine observable_spec (x := ⟨some (.user n), some (.user n), some (.user n), none⟩) (serial := st.serial)
    (obsl := st.observers) h.held (by rw [← h.nObs]; simp) rfl h.ne h.cellS h.cellO h.keys h.slotA ?_
  refine wp_userReady (WP.done ?_)
  exact RelC.afterSub h

/-- `Subscription::unsubscribe` of a test subscriber's handle (subscription.rs, observer.rs:53-60,
    subject.rs:74-83) = `SubjM.step .plain _ (.unsubscribe u)`; ids that never subscribed are no-ops on both sides -/
theorem unsubscribe_specF {sj ov id n w st} (h : Rel sj ov id n w st) (u : Nat) :
    WP (.userUnsub u .done) w (fun w' => Rel sj ov id n w' (step .plain st (.unsubscribe u)) ∧
      ∀ i, i ≠ sj.observers → w'.cells[i]? = w.cells[i]?) := by
  show WP _ w (fun w' => RelC sj ov id n w' (unsubscribeN .plain st u).1.observers (unsubscribeN .plain st u).1.serial
    (unsubscribeN .plain st u).1.obs ∧ ∀ i, i ≠ sj.observers → w'.cells[i]? = w.cells[i]?)
  rw [unsub_observers, unsub_serial]
  rcases Nat.lt_or_ge u n with hlt | hge
  · have hs := h.seen u hlt
    cases hk : (st.obs u).hook with
    | false =>
      have hin : (st.obs u).inHook = none := by
        have := h.hookIff u; rw [hk] at this; simpa using this.symm
      have hal := h.deadNoHook u hk
      obtain ⟨a, hua, hah⟩ := h.user u hlt
      rw [hin]
      have hview : ∀ u', View ((unsubscribeN .plain st u).1.obs u') = View (st.obs u') := by
        intro u'
        rw [unsub_obs]; split
        · rename_i e; rw [e.1]; simp [View, hk, hal]
        · rfl
      cases a with
      | false =>
        refine wp_userUnsub_spent hua (by simp) (WP.done ⟨?_, fun _ _ => rfl⟩)
        exact RelC.congr h hview
      | true =>
        -- the handle is still there but the observer ended without a teardown: `unsubscribe` only spends the handle
        refine wp_userUnsub_armed hua (by simp) ?_
        refine wp_obsUnsub_none (x := obsOf sj u (st.obs u)) (h.obs u hlt) (by simp [obsOf, hin])
          (WP.done ⟨?_, fun _ _ => rfl⟩)
        have hrel : RelC sj ov id n
            ((w.setUser u fun x => { x with armed := false }).setObs u fun x => { x.cleared with onUnsub := none })
            st.observers st.serial st.obs :=
          { h with
            nUsers := by simp [World.setObs, World.setUser, h.nUsers]
            nObs := by simp [World.setObs, World.setUser, h.nObs]
            user := by
              intro u' hu'
              have key : ((w.setUser u fun x => { x with armed := false }).setObs u
                  fun x => { x.cleared with onUnsub := none }).users =
                  w.users.modify u fun x => { x with armed := false } := rfl
              rw [key]
              by_cases e : u' = u
              · subst e; rw [modify_get_same _ _ hua]; exact ⟨false, rfl, fun x => by rw [hk] at x; cases x⟩
              · rw [modify_get_other _ _ (fun x => e x.symm)]; exact h.user u' hu'
            obs := by
              intro u' hu'
              show (w.obs.modify u _)[u']? = _
              by_cases e : u' = u
              · subst e; rw [modify_get_same _ _ (h.obs u' hu')]; simp [obsOf, Obs.cleared, hal, hin]
              · rw [modify_get_other _ _ (fun x => e x.symm)]; exact h.obs u' hu' }
        exact RelC.congr hrel hview
    | true =>
      obtain ⟨s, hin⟩ : ∃ s, (st.obs u).inHook = some s := by
        have := h.hookIff u; rw [hk] at this
        cases hi : (st.obs u).inHook with
        | none => rw [hi] at this; simp at this
        | some s => exact ⟨s, rfl⟩
      have hre : reaches .plain (st.obs u) = true := by simp [reaches, hs, hk, Kind.isPlain]
      simp only [hin, hre, ↓reduceIte]
      obtain ⟨a, hua, hah⟩ := h.user u hlt
      have ha1 : a = true := hah hk
      subst ha1
      refine wp_userUnsub_armed hua (by simp) ?_
      refine wp_obsUnsub_some (f := hookProg sj (s : Int)) (x := obsOf sj u (st.obs u)) ?_ (by simp [obsOf, hin]) ?_
      · exact h.obs u hlt
      unfold hookProg
      refine wp_cellRead h.held ?_
      have hread : w.cells[sj.observers]?.getD .unit = encMap st.observers := by rw [h.cellO]; rfl
      simp only [World.setObs, World.setUser, hread, amapRemove_encMap]
      refine wp_cellWrite h.held ?_
      refine wp_lockedSlotCall_none h.held h.slotB (WP.done (WP.done ⟨?_, fun i hi => set_get_other _ (Ne.symm hi)⟩))
      let r' : ObsSt := { st.obs u with alive := false, hook := false, inHook := none }
      have hfix : ∀ (P : ObsSt → Prop) (u' : Nat), (u' ≠ u → P (st.obs u')) → (u' = u → P r') →
          P (upd st.obs u r' u') := by
        intro P u' h1 h2
        by_cases e : u' = u
        · subst e; simpa [upd] using h2 rfl
        · simpa [upd, e] using h1 e
      have hrel : RelC sj ov id n
          { w with
            obs := w.obs.modify u fun x => { x.cleared with onUnsub := none }
            users := w.users.modify u fun x => { x with armed := false }
            cells := w.cells.set sj.observers (encMap (st.observers.filter fun p => p.1 != s)) }
          (st.observers.filter fun p => p.1 != s) st.serial (upd st.obs u r') :=
        { status := h.status
          held := h.held
          ne := h.ne
          cellO := set_get_same _ h.cellO
          cellS := by show (w.cells.set _ _)[_]? = _; rw [set_get_other _ h.ne]; exact h.cellS
          slotA := h.slotA
          slotB := h.slotB
          obsv := h.obsv
          nUsers := by simp [h.nUsers]
          nObs := by simp [h.nObs]
          user := by
            intro u' hu'
            dsimp only
            by_cases e : u' = u
            · subst e; rw [modify_get_same _ _ hua]; exact ⟨false, rfl, by simp [upd, r']⟩
            · obtain ⟨a', h1, h2⟩ := h.user u' hu'
              rw [modify_get_other _ _ (fun x => e x.symm)]
              exact ⟨a', h1, by simpa [upd, e] using h2⟩
          obs := by
            intro u' hu'
            show (w.obs.modify u _)[u']? = _
            by_cases e : u' = u
            · subst e; rw [modify_get_same _ _ (h.obs u' hu')]; simp [upd, r', obsOf, Obs.cleared]
            · rw [modify_get_other _ _ (fun x => e x.symm), h.obs u' hu']; simp [upd, e]
          seen := fun u' hu' => hfix (fun r => r.seen = true) u' (fun _ => h.seen u' hu') (fun _ => hs)
          unseen := fun u' hu' => hfix (fun r => View r = View {}) u' (fun _ => h.unseen u' hu')
            (fun e => by omega)
          hookIff := fun u' => hfix (fun r => r.hook = r.inHook.isSome) u' (fun _ => h.hookIff u') (fun _ => rfl)
          deadNoHook := fun u' => hfix (fun r => r.hook = false → r.alive = false) u' (fun _ => h.deadNoHook u')
            (fun _ _ => rfl)
          log := by
            intro u'
            show logOf w u' = _
            rw [h.log]
            exact hfix (fun r => (st.obs u').log = r.log) u' (fun _ => rfl) (fun e => by subst e; rfl)
          keys := fun p hp => h.keys p (List.mem_filter.1 hp).1 }
      refine RelC.congr hrel fun u' => ?_
      rw [unsub_obs, view_upd]
      by_cases e : u' = u
      · simp [e, hs, View, r', hk, Kind.isPlain]
      · simp [e]
  · have hun := View.eq (h.unseen u hge)
    refine wp_userUnsub_none (h.users_none u hge) (WP.done ⟨?_, fun _ _ => rfl⟩)
    rw [hun.2.2.2.2]
    refine RelC.congr h fun u' => ?_
    rw [unsub_obs]; split
    · rename_i e; rw [hun.1] at e; simp at e
    · rfl

theorem unsubscribe_spec {sj ov id n w st} (h : Rel sj ov id n w st) (u : Nat) :
    WP (.userUnsub u .done) w (fun w' => Rel sj ov id n w' (step .plain st (.unsubscribe u))) :=
  (unsubscribe_specF h u).conseq fun _ h' => h'.1

/-! ### call sequences -/

def isSubscribe : Call → Bool
  | .subscribe _ => true
  | _ => false

/-- number of `subscribe` calls -/
def subs (cs : List Call) : Nat := (cs.filter isSubscribe).length

/-- RESTRICTION on the call sequences: the `subscribe` calls name the ids `n, n+1, …` in call order, i.e. every
    `subscribe` uses a fresh id and ids are numbered by first use — exactly what `userSub` does (it creates user
    number `users.length`) and what `Observable::subscribe` does (a fresh `Observer` per call).  `SubjM` makes the
    matching assumption by ignoring a repeated `subscribe o`.  `unsubscribe o` / events are unrestricted
    (`unsubscribe` of an id that has not subscribed yet is a no-op on both sides). -/
def wfFrom (n : Nat) : List Call → Bool
  | [] => true
  | .subscribe o :: cs => o == n && wfFrom (n + 1) cs
  | _ :: cs => wfFrom n cs

theorem call_spec {sj id n w st} (h : Rel sj sj.observable id n w st) (c : Call) (hc : wfFrom n [c] = true) :
    WP (callProg sj id c) w (fun w' => Rel sj sj.observable id (n + subs [c]) w' (step .plain st c)) := by
  cases c with
  | subscribe o =>
    have : o = n := by simpa [wfFrom] using hc
    subst this
    exact subscribe_spec h
  | unsubscribe o => exact unsubscribe_spec h o
  | next v => exact emit_spec h (.next v)
  | error e => exact emit_spec h (.error e)
  | complete => exact emit_spec h .complete

theorem wfFrom_cons (n : Nat) (c : Call) (cs : List Call) :
    wfFrom n (c :: cs) = (wfFrom n [c] && wfFrom (n + subs [c]) cs) := by
  cases c <;> simp [wfFrom, subs, isSubscribe, List.filter]

theorem subs_cons (c : Call) (cs : List Call) : subs (c :: cs) = subs [c] + subs cs := by
  cases c <;> simp [subs, isSubscribe, List.filter] <;> omega

theorem calls_spec {sj id} (cs : List Call) : ∀ (n : Nat) (w : World) (st : State), Rel sj sj.observable id n w st →
    wfFrom n cs = true →
    WP (forEach cs (callProg sj id)) w (fun w' => Rel sj sj.observable id (n + subs cs) w' (runFrom .plain st cs)) := by
  induction cs with
  | nil => intro n w st h _; exact WP.done h
  | cons c rest ih =>
    intro n w st h hwf
    rw [wfFrom_cons, Bool.and_eq_true] at hwf
    simp only [forEach]
    apply WP.seq
    refine (call_spec h c hwf.1).conseq fun w1 h1 => ?_
    refine (ih _ w1 _ h1 hwf.2).conseq fun w2 h2 => ?_
    rw [subs_cons, ← Nat.add_assoc]
    exact h2

/-! ### the whole program, from the empty world -/

/-- allocate a `Subject` (subject.rs `Subject::new`), make its observable, perform the calls in order -/
def prog (cs : List Call) : Prog :=
  subjNew fun sj => .obsvNew sj.observable fun id => forEach cs (callProg sj id)

/-- the subject `prog` allocates in the empty world, and its observable's id -/
def sj0 : Subj := ⟨0, 1, 0, 1⟩

theorem rel_init :
    Rel sj0 sj0.observable 0 0 { cells := [.lnil, .int 0], slots := [none, none], obsvs := [sj0.observable] } (init .plain) :=
  { status := rfl, held := rfl, ne := by decide, cellO := rfl, cellS := rfl, slotA := rfl, slotB := rfl,
    obsv := rfl, nUsers := rfl, nObs := rfl
    user := fun u hu => by omega
    obs := fun u hu => by omega
    seen := fun u hu => by omega
    unseen := fun _ _ => rfl
    hookIff := fun _ => rfl
    deadNoHook := fun _ _ => rfl
    log := fun _ => rfl
    keys := fun p hp => by cases hp }

theorem prog_spec (cs : List Call) (hwf : wfFrom 0 cs = true) :
    WP (prog cs) {} (fun w' => Rel sj0 sj0.observable 0 (subs cs) w' (SubjM.run .plain cs)) := by
  unfold prog subjNew
  refine wp_cellNew (wp_cellNew (wp_slotNew (wp_slotNew (wp_obsvNew ?_))))
  have := calls_spec (sj := sj0) (id := 0) cs 0 _ _ rel_init hwf
  rw [Nat.zero_add] at this
  exact this

/-- "`prog cs` terminates in `w`": every sufficiently fuelled run from the empty world ends in `w` -/
def Final (cs : List Call) (w : World) : Prop := ∃ n0, ∀ fuel, n0 ≤ fuel → run fuel [prog cs] {} = w

theorem Final.unique {cs w w'} (h : Final cs w) (h' : Final cs w') : w = w' := by
  obtain ⟨a, ha⟩ := h
  obtain ⟨b, hb⟩ := h'
  rw [← ha (a + b) (by omega), ← hb (a + b) (by omega)]

/-- the ids in the subject's `observers` map, in map order (cell 0 of the world `prog` builds) -/
def regOf (w : World) : List Nat := (amapVals (w.cells[0]?.getD .lnil)).map fun d => d.toInt.toNat

/-- the harness' `O=` column -/
def mapCount (w : World) : Nat := amapLen (w.cells[0]?.getD .lnil)

/-- what the differential test compares, and more: the whole map, not only its size -/
structure Agrees (w : World) (st : State) : Prop where
  status : w.status = .ok
  held : w.held = []
  logs : ∀ u, logOf w u = SubjM.logOf st u
  reg : regOf w = registered st
  count : mapCount w = (registered st).length
  alive : ∀ u, w.isSubOf u = aliveOf st u

theorem Rel.agrees {n w st} (h : Rel sj0 sj0.observable 0 n w st) : Agrees w st := by
  have hc : w.cells[0]?.getD .lnil = encMap st.observers := by
    have := h.cellO; simp only [sj0] at this; rw [this]; rfl
  refine ⟨h.status, h.held, h.log, ?_, ?_, ?_⟩
  · simp [regOf, hc, amapVals_encMap, registered, Data.toInt, List.map_map, Function.comp_def]
  · simp [mapCount, hc, amapLen_encMap, registered]
  · intro u
    rcases Nat.lt_or_ge u n with hlt | hge
    · obtain ⟨a, hua, _⟩ := h.user u hlt
      simp only [World.isSubOf, hua, h.obs u hlt, aliveOf]
      cases ha : (st.obs u).alive <;> simp [obsOf, Obs.isSub, ha]
    · simp only [World.isSubOf, h.users_none u hge, aliveOf]
      exact (View.eq (h.unseen u hge)).2.1.symm

/-- **C10-REF, plain Subject.**  For every call sequence whose `subscribe` calls are numbered in order, model A's
    program (allocate the subject, perform the calls through the transliterated macros) terminates with
    `status = ok`, no guard held, and agrees with the pure machine `SubjM` on every user's log, on the content of
    the observer map, and on who is still subscribed. -/
theorem plain_refines (cs : List Call) (hwf : wfFrom 0 cs = true) :
    ∃ w, Final cs w ∧ Agrees w (SubjM.run .plain cs) := by
  obtain ⟨n0, w, hrel, hrun⟩ := WP.run_top (prog_spec cs hwf)
  exact ⟨w, ⟨n0, hrun⟩, hrel.agrees⟩

/-- the same in the form the task states it: for all sufficient fuel -/
theorem plain_refines_fuel (cs : List Call) (hwf : wfFrom 0 cs = true) :
    ∃ n0, ∀ fuel, n0 ≤ fuel →
      (run fuel [prog cs] {}).status = .ok ∧
      (∀ u, logOf (run fuel [prog cs] {}) u = SubjM.logOf (SubjM.run .plain cs) u) ∧
      mapCount (run fuel [prog cs] {}) = (registered (SubjM.run .plain cs)).length ∧
      (∀ u, (run fuel [prog cs] {}).isSubOf u = aliveOf (SubjM.run .plain cs) u) := by
  obtain ⟨w, ⟨n0, hrun⟩, ha⟩ := plain_refines cs hwf
  refine ⟨n0, fun fuel hf => ?_⟩
  rw [hrun fuel hf]
  exact ⟨ha.status, ha.logs, ha.count, ha.alive⟩

/-- `Subscription::is_subscribed` asked through the machine (`userIsSub`) answers `SubjM.aliveOf` -/
theorem userIsSub_agrees {w st} (h : Agrees w st) (u : Nat) (k : Bool → Prog) (Q : World → Prop)
    (hk : WP (k (aliveOf st u)) w Q) : WP (.userIsSub u k) w Q := by
  refine wp_userIsSub ?_
  rw [h.alive u]; exact hk

/-- step-wise form (what the driver does: one `run` per call on the world left by the previous one) -/
theorem call_run {sj id n w st} (h : Rel sj sj.observable id n w st) (c : Call) (hc : wfFrom n [c] = true) :
    ∃ n0, ∀ fuel, n0 ≤ fuel → Rel sj sj.observable id (n + subs [c]) (run fuel [callProg sj id c] w) (step .plain st c) := by
  obtain ⟨n0, w', hrel, hrun⟩ := WP.run_top (call_spec h c hc)
  exact ⟨n0, fun fuel hf => by rw [hrun fuel hf]; exact hrel⟩

/-! ### non-vacuity: three observers, subscribe / unsubscribe / late joiner / terminal / call after terminal -/

def demo : List Call :=
  [.subscribe 0, .next (.int 1), .subscribe 1, .next (.int 2), .unsubscribe 0, .subscribe 2, .next (.int 3),
   .unsubscribe 7, .complete, .next (.int 4), .unsubscribe 1]

example : wfFrom 0 demo = true := by decide
example : (run 400 [prog demo] {}).status = .ok := by decide +kernel
example : (List.range 4).map (logOf (run 400 [prog demo] {})) =
    [[.next (.int 1), .next (.int 2)], [.next (.int 2), .next (.int 3), .complete], [.next (.int 3), .complete], []] := by
  decide +kernel
example : (List.range 4).map (SubjM.logOf (SubjM.run .plain demo)) =
    [[.next (.int 1), .next (.int 2)], [.next (.int 2), .next (.int 3), .complete], [.next (.int 3), .complete], []] := by
  decide +kernel
/-- before the terminal: the map holds users 1 and 2 on both sides, user 0 is unsubscribed -/
example : regOf (run 400 [prog (demo.take 7)] {}) = [1, 2] ∧ registered (SubjM.run .plain (demo.take 7)) = [1, 2] ∧
    (List.range 3).map (run 400 [prog (demo.take 7)] {}).isSubOf = [false, true, true] ∧
    (List.range 3).map (aliveOf (SubjM.run .plain (demo.take 7))) = [false, true, true] := by
  decide +kernel
/-- the hypothesis of `call_run` / `call_spec` is satisfiable: a related pair with a live and a dead observer -/
example : ∃ w, Final [.subscribe 0, .subscribe 1, .unsubscribe 0] w ∧
    Rel sj0 sj0.observable 0 2 w (SubjM.run .plain [.subscribe 0, .subscribe 1, .unsubscribe 0]) := by
  obtain ⟨n0, w, hrel, hrun⟩ := WP.run_top (prog_spec [.subscribe 0, .subscribe 1, .unsubscribe 0] (by decide))
  exact ⟨w, ⟨n0, hrun⟩, hrel⟩

/-! ### C10's central statements, transported to model A (directly attached observers) -/

theorem wfFrom_append (a b : List Call) : ∀ n, wfFrom n (a ++ b) = (wfFrom n a && wfFrom (n + subs a) b) := by
  induction a with
  | nil => intro n; simp [wfFrom, subs]
  | cons c a ih =>
    intro n
    rw [List.cons_append, wfFrom_cons, ih, wfFrom_cons n c a, subs_cons c a, Bool.and_assoc, Nat.add_assoc]

theorem wf_ids (cs : List Call) : ∀ n, wfFrom n cs = true → ∀ o, Call.subscribe o ∈ cs → o < n + subs cs := by
  induction cs with
  | nil => intro n _ o ho; cases ho
  | cons c rest ih =>
    intro n hwf o ho
    rw [wfFrom_cons, Bool.and_eq_true] at hwf
    rw [subs_cons]
    rcases List.mem_cons.1 ho with rfl | ho
    · have h1 := hwf.1
      simp only [wfFrom, Bool.and_true, beq_iff_eq] at h1
      simp [subs, isSubscribe, List.filter]; omega
    · have := ih _ hwf.2 o ho; omega

/-- under the numbering discipline the id of a `subscribe` call has not been used before it -/
theorem wf_fresh (pre post : List Call) (o : Nat) (hwf : wfFrom 0 (pre ++ .subscribe o :: post) = true) :
    Call.subscribe o ∉ pre := by
  rw [wfFrom_append, Bool.and_eq_true] at hwf
  have ho : o = 0 + subs pre := by
    have := hwf.2; simp only [wfFrom, Bool.and_eq_true, beq_iff_eq] at this; exact this.1
  intro hmem
  have := wf_ids pre 0 hwf.1 o hmem
  omega

theorem final_agrees {cs w} (hwf : wfFrom 0 cs = true) (h : Final cs w) : Agrees w (SubjM.run .plain cs) := by
  obtain ⟨w', hf, ha⟩ := plain_refines cs hwf
  rw [h.unique hf]; exact ha

/-- **`delivers_to_current` on model A**: one more `next` / `error` / `complete` appends exactly that event to
    the log of exactly the users that are in the machine's observer map, and to nobody else's. -/
theorem machine_delivers_to_current (cs : List Call) (c : Call) (ev : Ev) (hc : c.toEv? = some ev)
    (hwf : wfFrom 0 (cs ++ [c]) = true) {wA wB : World} (hA : Final cs wA) (hB : Final (cs ++ [c]) wB) (u : Nat) :
    logOf wB u = if u ∈ regOf wA then logOf wA u ++ [ev] else logOf wA u := by
  have hwfA : wfFrom 0 cs = true := by
    rw [wfFrom_append, Bool.and_eq_true] at hwf; exact hwf.1
  have a := final_agrees hwfA hA
  have b := final_agrees hwf hB
  rw [b.logs, a.logs, a.reg, run_snoc]
  exact delivers_to_current_plain cs c ev hc u

/-- **`no_observer_after_terminal` on model A**: right after `error` / `complete` the machine's map is empty. -/
theorem machine_no_observer_after_terminal (cs : List Call) (c : Call) (ev : Ev) (hc : c.toEv? = some ev)
    (ht : ev.isTerminal = true) (hwf : wfFrom 0 (cs ++ [c]) = true) {w : World} (h : Final (cs ++ [c]) w) :
    regOf w = [] ∧ mapCount w = 0 := by
  have b := final_agrees hwf h
  have := no_observer_after_terminal .plain cs c ev hc ht
  rw [← run_snoc] at this
  rw [b.reg, b.count, this]; exact ⟨rfl, rfl⟩

/-- **`no_observer_after_unsubscribe` on model A**: once user `o` has unsubscribed, the machine's map never
    holds it again, whatever is called afterwards. -/
theorem machine_no_observer_after_unsubscribe (pre post : List Call) (o : Nat) (hsub : Call.subscribe o ∈ pre)
    (hwf : wfFrom 0 (pre ++ .unsubscribe o :: post) = true) {w : World}
    (h : Final (pre ++ .unsubscribe o :: post) w) : o ∉ regOf w := by
  rw [(final_agrees hwf h).reg]
  exact no_observer_after_unsubscribe .plain pre post o hsub

/-- **`plain_log_spec` on model A**: what user `o` records is exactly the `next`s made while it was subscribed,
    in call order, closed by the first terminal unless it unsubscribed first. -/
theorem machine_plain_log_spec (pre post : List Call) (o : Nat)
    (hwf : wfFrom 0 (pre ++ .subscribe o :: post) = true) {w : World}
    (h : Final (pre ++ .subscribe o :: post) w) : logOf w o = plainExpect o post := by
  rw [(final_agrees hwf h).logs]
  exact plain_log_spec pre post o (wf_fresh pre post o hwf)

/-- **`registered_alive` on model A**: the machine's map holds no user whose `is_subscribed` is false. -/
theorem machine_registered_subscribed (cs : List Call) (hwf : wfFrom 0 cs = true) {w : World} (h : Final cs w)
    (u : Nat) (hu : u ∈ regOf w) : w.isSubOf u = true := by
  have a := final_agrees hwf h
  rw [a.alive]; rw [a.reg] at hu
  exact registered_alive .plain cs u hu

/-- non-vacuity of the corollaries' hypotheses -/
example : wfFrom 0 ([Call.subscribe 0, .subscribe 1, .unsubscribe 0] ++ [.next (.int 5)]) = true ∧
    wfFrom 0 ([Call.subscribe 0, .next (.int 1)] ++ .unsubscribe 0 :: [.subscribe 1, .next (.int 2)]) = true ∧
    wfFrom 0 ([Call.subscribe 0, .next (.int 1)] ++ .subscribe 1 :: [.next (.int 2), .complete]) = true := by decide
example : ∃ w, Final ([Call.subscribe 0, .subscribe 1, .unsubscribe 0] ++ [.next (.int 5)]) w :=
  let ⟨w, h, _⟩ := plain_refines _ (by decide); ⟨w, h⟩

#print axioms plain_refines
#print axioms plain_refines_fuel
#print axioms call_run
#print axioms userIsSub_agrees
#print axioms machine_delivers_to_current
#print axioms machine_no_observer_after_terminal
#print axioms machine_no_observer_after_unsubscribe
#print axioms machine_plain_log_spec
#print axioms machine_registered_subscribed

end Rx.Ref
