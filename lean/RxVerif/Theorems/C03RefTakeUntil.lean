import RxVerif.Theorems.C03RefMerge
/-
C03-REF, take_until: model A's `oTakeUntil` (Machine/Lib.lean, transliterating src/operators/take_until.rs) over
two plain hot subjects (0 = source, 1 = trigger) REFINES the pure history machine `Comb.takeUntil`.
-/
namespace Rx.CRef.TakeUntil
open Rx.Sim Rx.Ref Rx.Comb Rx.CRef

def sc : Sctl := ⟨0, 4, 5, 4⟩

/-- take_until.rs:33-60: the trigger's observer is created first (serial 0, observer 1), then the source's
    (serial 1, observer 2) -/
def lay : Lay where
  k := 2
  ser i := 1 - i
  ob i := 2 - i
  hn i x := if i = 0 then sc.sinkNext x else sc.sinkCompleteForce
  he i e := if i = 0 then sc.sinkError e else .done
  hc i := if i = 0 then sc.sinkCompleteForce else .done

theorem lay_ok : lay.Ok where
  obPos := by intro i hi; simp only [lay] at *; omega
  obInj := by intro i j hi hj h; simp only [lay] at *; omega
  serInj := by intro i j hi hj h; simp only [lay] at *; omega

abbrev R (c : Ctl) (out : List Ev) (w : World) : Prop := Rel lay (fun _ => false) [] c ⟨.unit, 2, 3⟩ out w

/-- one history entry = `Comb.takeUntil.step` -/
theorem step_spec (c : Ctl) (out : List Ev) (w : World) (p : Nat × Ev) (h : R c out w) :
    WP (callOf (sjs 2) p) w (R (takeUntil.step c p).1 (out ++ (takeUntil.step c p).2)) := by
  obtain ⟨i, ev⟩ := p
  have ok := lay_ok
  have hdead : c.live.contains i = false →
      R (takeUntil.step c (i, ev)).1 (out ++ (takeUntil.step c (i, ev)).2) w := by
    intro hlv
    simp only [takeUntil.step, Ctl.isLive, hlv, Bool.false_eq_true, ↓reduceIte, List.append_nil]
    exact h
  rcases Nat.lt_or_ge i 2 with hi | hi
  · rw [callOf_lt hi]
    cases hlv : c.live.contains i with
    | false =>
      simp only [takeUntil.step, Ctl.isLive, hlv, Bool.false_eq_true, ↓reduceIte, List.append_nil]
      exact src_dead h hi (by rw [hlv]; rfl) ev
    | true =>
      refine src_live ok h hi hlv rfl ev fun w1 h1 => ?_
      rcases (by omega : i = 0 ∨ i = 1) with e | e
      · subst e
        simp only [takeUntil.step, Ctl.isLive, hlv, ↓reduceIte, beq_self_eq_true]
        cases ev with
        | next d => exact sinkNext_spec ok h1 d
        | error e => exact sinkError_spec ok h1 e
        | complete => exact sinkCompleteForce_spec ok h1
      · subst e
        simp only [takeUntil.step, Ctl.isLive, hlv, ↓reduceIte, beq_self_eq_true]
        cases ev with
        | next d => exact sinkCompleteForce_spec ok h1
        | error e => exact WP.done (by simpa using h1)
        | complete => exact WP.done (by simpa using h1)
  · rw [callOf_ge hi]
    have hlv : c.live.contains i = false := by
      cases q : c.live.contains i with
      | false => rfl
      | true => have := h.liveLt i (by simpa using q); simp only [lay] at this; omega
    exact WP.done (hdead hlv)

theorem drive_tu (H : History) (c : Ctl) (out : List Ev) (w : World) (h : R c out w) :
    WP (drive (sjs 2) H) w (R (finalFrom takeUntil.step c H) (out ++ runFrom takeUntil.step c H)) :=
  drive_spec takeUntil.step R (callOf (sjs 2)) step_spec H c out w h

/-! ### the program -/

/-- two plain subjects; test user 0 subscribes to `s0.take_until(s1)`; then the history -/
def prog (H : History) : Prog :=
  subjsNew 2 fun sjs =>
    .obsvNew (oTakeUntil (sjs.getD 0 default).observable (sjs.getD 1 default).observable) fun id =>
    .userSub id noReact (drive sjs H)

def mk : Nat → (Nat → Data → Prog) × (Nat → Nat → Prog) × (Nat → Prog) := fun m =>
  if m = 0 then (fun _ _ => sc.sinkCompleteForce, fun _ _ => .done, fun _ => .done)
  else (fun _ x => sc.sinkNext x, fun _ e => sc.sinkError e, fun _ => sc.sinkCompleteForce)

def theObsv : Nat → Prog := oTakeUntil (sjOf 0).observable (sjOf 1).observable

theorem rel_W2 : Rel lay (fun i => decide (0 ≤ i)) [] (Ctl.init 2) ⟨.unit, 2, 3⟩ []
    (newObsWorld sc mk (W2 lay [] theObsv) [] 0 2) :=
  CRef.rel_W2 (L := lay) [] theObsv mk (fun s => 1 - s)
    (by intro s hs; simp only [lay] at *; omega) (by intro i hi; simp only [lay] at *; omega)
    (by intro i hi; simp only [lay] at *; omega)
    (by
      intro i hi
      rcases (by simp only [lay] at hi; omega : i = 0 ∨ i = 1) with e | e <;> subst e <;> rfl)

theorem prog_spec (H : History) :
    WP (prog H) {} (R (finalFrom takeUntil.step (Ctl.init 2) H) (takeUntil.run 2 H)) := by
  have ok := lay_ok
  unfold prog
  refine wp_subjsNew 2 0 {} _ _ rfl rfl ?_
  refine wp_obsvNew ?_
  refine wp_userSub (f := theObsv) rfl ?_
  simp only [theObsv, oTakeUntil, sctlNew]
  refine wp_cellNew (wp_cellNew (wp_slotNew (wp_obsSetOnUnsub rfl ?_)))
  have e2 : ∀ (W : World) p Q, W = W2 lay [] theObsv → WP p (W2 lay [] theObsv) Q → WP p W Q :=
    fun W p Q q hq => q ▸ hq
  refine e2 _ _ _ ?_ ?_
  · simp [W2, World.setObs, rootObs, Lay.sc, lay, subjCells, theObsv, List.range'_succ, List.replicate_succ]
  show WP (newObservers sc 2 mk fun os =>
    (sjOf 1).observable.sub (os.getD 0 0) ;; (sjOf 0).observable.sub (os.getD 1 0)) _ _
  refine wp_newObservers sc mk 2 _ _ [] 0 _ rfl (by simp [sc]) (W2_ser lay _ _) (W2_map lay _ _)
    (by intro p hp; cases hp) ⟨_, rfl, rfl⟩ ?_
  show WP ((sjOf 1).observable.sub (lay.ob 1) ;; (sjOf 0).observable.sub (lay.ob 0)) _ _
  apply WP.seq
  refine (subscribe_src ok rel_W2 (j := 1) (by simp [lay]) (by simp) (by simp [Ctl.init])).conseq fun w1 h1 => ?_
  refine (subscribe_src ok h1 (j := 0) (by simp [lay]) (by simp) (by simp [Ctl.init])).conseq fun w2 h2 => ?_
  refine wp_userReady ?_
  have h3 := (h2.setUser (fun u => { u with ready := true }) (fun _ => rfl)).fresh_congr (fun _ => false)
    (fun i hi => by
      rcases (by simp only [lay] at hi; omega : i = 0 ∨ i = 1) with e | e <;> subst e <;> simp)
  have h4 := drive_tu H _ _ _ h3
  simpa [takeUntil.run, sjs] using h4

/-- **C03-REF, take_until.**  For EVERY history over the two subjects the program ends, for all sufficient fuel,
    with `status = ok`, no guard held, the user's log equal to the output of `Comb.takeUntil`, and subject `i`
    holding one observer iff `i` is in the machine's final `live` set. -/
theorem take_until_refines (H : History) :
    ∃ n0, ∀ fuel, n0 ≤ fuel →
      Agrees 2 (run fuel [prog H] {}) (finalFrom takeUntil.step (Ctl.init 2) H).live (takeUntil.run 2 H) := by
  obtain ⟨n0, w, hrel, hrun⟩ := WP.run_top (prog_spec H)
  exact ⟨n0, fun fuel hf => by rw [hrun fuel hf]; exact hrel.agrees⟩

/-- the C03 list specification transported to model A -/
theorem take_until_machine_spec (H : History) (hwf : WellFormed 2 H) :
    ∃ n0, ∀ fuel, n0 ≤ fuel → (run fuel [prog H] {}).status = .ok ∧
      logOf (run fuel [prog H] {}) 0 = takeUntilSpec H := by
  obtain ⟨n0, h⟩ := take_until_refines H
  exact ⟨n0, fun fuel hf => ⟨(h fuel hf).status, by rw [(h fuel hf).log, take_until_spec 2 H hwf]⟩⟩

/-! non-vacuity -/
def demo : History :=
  [(0, .next (.int 1)), (0, .next (.int 2)), (1, .next (.int 0)), (0, .next (.int 3)), (1, .complete), (0, .complete)]

example : (run 2000 [prog demo] {}).status = .ok := by decide +kernel
example : logOf (run 2000 [prog demo] {}) 0 = [.next (.int 1), .next (.int 2), .complete] := by decide +kernel
example : takeUntil.run 2 demo = [.next (.int 1), .next (.int 2), .complete] := by decide +kernel
example : (List.range 2).map (regCount (run 2000 [prog (demo.take 2)] {})) = [1, 1] ∧
    (List.range 2).map (regCount (run 2000 [prog demo] {})) = [0, 0] ∧
    (finalFrom takeUntil.step (Ctl.init 2) demo).live = [] := by decide +kernel
example : WellFormed 2 demo := by decide
example : logOf (run 2000 [prog demo] {}) 0 = takeUntilSpec demo := by decide +kernel

#print axioms take_until_refines
#print axioms take_until_machine_spec

end Rx.CRef.TakeUntil
