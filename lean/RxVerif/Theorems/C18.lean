import RxVerif.Conc.ToVec

namespace Rx.ToVec

/-! ### program-point predicates -/

/-- the terminal callback has been entered -/
def SPc.started : SPc → Bool
  | .idle | .nextHold _ => false
  | _ => true

/-- `done` has been written (line 36 / 42 executed) -/
def SPc.afterDone : SPc → Bool
  | .wakerAcq | .wakerHold | .woke | .fin => true
  | _ => false

/-- `err` has been written (line 35 executed) or the callback is `complete` past its first acquisition -/
def SPc.afterErr : SPc → Bool
  | .doneAcq | .doneHold | .wakerAcq | .wakerHold | .woke | .fin => true
  | _ => false

def SPc.inflight : SPc → List Data
  | .nextHold x => [x]
  | _ => []

def SPc.holdsBuf : SPc → Bool
  | .nextHold _ => true
  | _ => false

def SPc.holdsWaker : SPc → Bool
  | .wakerHold | .woke => true
  | _ => false

/-- the terminal callback has inspected the waker cell and is past the (possible) `wake()` -/
def SPc.pastWake : SPc → Bool
  | .woke | .fin => true
  | _ => false

def XPc.holdsWaker : XPc → Bool
  | .doneAcq | .doneHold | .errAcq | .errHold | .retReady | .store => true
  | _ => false

/-- this poll has read `done == true` (or `block_on` has already returned) -/
def XPc.sawDone : XPc → Bool
  | .errAcq | .errHold | .retReady | .ready => true
  | _ => false

/-- The inductive invariant. -/
structure Inv (sc : Script) (s : State) : Prop where
  lockBuf : s.lBuf = if s.sp.holdsBuf then some Tid.src else none
  lockErr : s.lErr = if s.sp = SPc.errHold then some Tid.src else if s.xp = XPc.errHold then some Tid.exe else none
  exclErr : ¬ (s.sp = SPc.errHold ∧ s.xp = XPc.errHold)
  lockDone : s.lDone = if s.sp = SPc.doneHold then some Tid.src else if s.xp = XPc.doneHold then some Tid.exe else none
  exclDone : ¬ (s.sp = SPc.doneHold ∧ s.xp = XPc.doneHold)
  lockWaker : s.lWaker = if s.sp.holdsWaker then some Tid.src else if s.xp.holdsWaker then some Tid.exe else none
  exclWaker : ¬ (s.sp.holdsWaker = true ∧ s.xp.holdsWaker = true)
  doneEq : s.done = s.sp.afterDone
  bufEq : s.buffer ++ s.sp.inflight ++ s.todo = sc.items
  todoNil : s.sp.started = true → s.todo = []
  errEq : s.err = if s.sp.afterErr then sc.errVal else none
  termSome : s.sp.started = true → sc.term.isSome = true
  sawDone : s.xp.sawDone = true → s.done = true
  storeNotFin : s.xp = XPc.store → s.sp ≠ SPc.fin
  parkWaker : s.xp = XPc.park → s.waker = some s.polls
  wakerLe : ∀ k : Nat, s.waker = some k → 1 ≤ k ∧ k ≤ s.polls
  noLost : s.xp = XPc.park → s.sp.pastWake = true → s.token = true
  retOk : ∀ r : Res, s.ret = some r → sc.expected = some r
  resOk : ∀ r : Res, s.result = some r → sc.expected = some r
  retSome : s.xp = XPc.retReady → s.ret.isSome = true
  resReady : s.result.isSome = true ↔ s.xp = XPc.ready
  pollsEq : s.polls = s.parks + s.spur + (if s.xp = XPc.poll then 0 else 1)
  tokenLe : s.parks + (if s.token = true then 1 else 0) ≤ s.wakes
  wakesLe : s.wakes ≤ (if s.sp.pastWake = true then 1 else 0)

theorem inv_init (sc : Script) : Inv sc (init sc) := by
  constructor <;> simp [init, SPc.holdsBuf, SPc.holdsWaker, SPc.afterDone, SPc.inflight, SPc.started, SPc.afterErr,
    XPc.sawDone, XPc.holdsWaker, SPc.pastWake]



macro "pc_simp" : tactic => `(tactic|
  (simp_all [SPc.holdsBuf, SPc.holdsWaker, SPc.afterDone, SPc.inflight, SPc.started, SPc.afterErr,
          XPc.sawDone, XPc.holdsWaker, SPc.pastWake]; done))

macro "inv_case" s:term : tactic => `(tactic| (
    constructor <;>
      first
      | pc_simp
      | (cases hx : State.xp $s <;> pc_simp)
      | (cases hp : State.sp $s <;> pc_simp)
      | (simp_all [SPc.holdsBuf, SPc.holdsWaker, SPc.afterDone, SPc.inflight, SPc.started, SPc.afterErr,
          XPc.sawDone, XPc.holdsWaker, SPc.pastWake, Script.errVal] <;> omega)
      | (simp only []; grind)
      | skip))

theorem inv_src_acqBuf {sc : Script} {s s' : State} (h : Inv sc s) (hs : step sc s (.src, .acqBuf) = some s') :
    Inv sc s' := by
  simp only [step] at hs; split at hs <;> (try cases hs)
  all_goals
    obtain ⟨h1, h2, h3, h4, h5, h6, h7, h8, h9, h10, h11, h12, h13, h14, h15, h16, h17, h18, h19, h20, h21, h22, h23, h24⟩ := h
    inv_case s

theorem inv_src_relBuf {sc : Script} {s s' : State} (h : Inv sc s) (hs : step sc s (.src, .relBuf) = some s') :
    Inv sc s' := by
  simp only [step] at hs; split at hs <;> (try cases hs)
  all_goals
    obtain ⟨h1, h2, h3, h4, h5, h6, h7, h8, h9, h10, h11, h12, h13, h14, h15, h16, h17, h18, h19, h20, h21, h22, h23, h24⟩ := h
    inv_case s

theorem inv_src_acqErr {sc : Script} {s s' : State} (h : Inv sc s) (hs : step sc s (.src, .acqErr) = some s') :
    Inv sc s' := by
  simp only [step] at hs; split at hs <;> (try cases hs)
  all_goals
    obtain ⟨h1, h2, h3, h4, h5, h6, h7, h8, h9, h10, h11, h12, h13, h14, h15, h16, h17, h18, h19, h20, h21, h22, h23, h24⟩ := h
    inv_case s

theorem inv_src_relErr {sc : Script} {s s' : State} (h : Inv sc s) (hs : step sc s (.src, .relErr) = some s') :
    Inv sc s' := by
  simp only [step] at hs; split at hs <;> (try cases hs)
  all_goals
    obtain ⟨h1, h2, h3, h4, h5, h6, h7, h8, h9, h10, h11, h12, h13, h14, h15, h16, h17, h18, h19, h20, h21, h22, h23, h24⟩ := h
    inv_case s

theorem inv_src_acqDone {sc : Script} {s s' : State} (h : Inv sc s) (hs : step sc s (.src, .acqDone) = some s') :
    Inv sc s' := by
  simp only [step] at hs; split at hs <;> (try cases hs)
  all_goals
    obtain ⟨h1, h2, h3, h4, h5, h6, h7, h8, h9, h10, h11, h12, h13, h14, h15, h16, h17, h18, h19, h20, h21, h22, h23, h24⟩ := h
    inv_case s

theorem inv_src_relDone {sc : Script} {s s' : State} (h : Inv sc s) (hs : step sc s (.src, .relDone) = some s') :
    Inv sc s' := by
  simp only [step] at hs; split at hs <;> (try cases hs)
  all_goals
    obtain ⟨h1, h2, h3, h4, h5, h6, h7, h8, h9, h10, h11, h12, h13, h14, h15, h16, h17, h18, h19, h20, h21, h22, h23, h24⟩ := h
    inv_case s

theorem inv_src_acqWaker {sc : Script} {s s' : State} (h : Inv sc s) (hs : step sc s (.src, .acqWaker) = some s') :
    Inv sc s' := by
  simp only [step] at hs; split at hs <;> (try cases hs)
  all_goals
    obtain ⟨h1, h2, h3, h4, h5, h6, h7, h8, h9, h10, h11, h12, h13, h14, h15, h16, h17, h18, h19, h20, h21, h22, h23, h24⟩ := h
    inv_case s

theorem inv_src_wake {sc : Script} {s s' : State} (h : Inv sc s) (hs : step sc s (.src, .wake) = some s') :
    Inv sc s' := by
  simp only [step] at hs; split at hs <;> (try cases hs)
  all_goals
    obtain ⟨h1, h2, h3, h4, h5, h6, h7, h8, h9, h10, h11, h12, h13, h14, h15, h16, h17, h18, h19, h20, h21, h22, h23, h24⟩ := h
    inv_case s

theorem inv_src_relWaker {sc : Script} {s s' : State} (h : Inv sc s) (hs : step sc s (.src, .relWaker) = some s') :
    Inv sc s' := by
  simp only [step] at hs; split at hs <;> (try cases hs)
  all_goals
    obtain ⟨h1, h2, h3, h4, h5, h6, h7, h8, h9, h10, h11, h12, h13, h14, h15, h16, h17, h18, h19, h20, h21, h22, h23, h24⟩ := h
    inv_case s

theorem inv_exe_acqWaker {sc : Script} {s s' : State} (h : Inv sc s) (hs : step sc s (.exe, .acqWaker) = some s') :
    Inv sc s' := by
  simp only [step] at hs; split at hs <;> (try cases hs)
  all_goals
    obtain ⟨h1, h2, h3, h4, h5, h6, h7, h8, h9, h10, h11, h12, h13, h14, h15, h16, h17, h18, h19, h20, h21, h22, h23, h24⟩ := h
    inv_case s

theorem inv_exe_acqDone {sc : Script} {s s' : State} (h : Inv sc s) (hs : step sc s (.exe, .acqDone) = some s') :
    Inv sc s' := by
  simp only [step] at hs; split at hs <;> (try cases hs)
  all_goals
    obtain ⟨h1, h2, h3, h4, h5, h6, h7, h8, h9, h10, h11, h12, h13, h14, h15, h16, h17, h18, h19, h20, h21, h22, h23, h24⟩ := h
    inv_case s

theorem inv_exe_relDone {sc : Script} {s s' : State} (h : Inv sc s) (hs : step sc s (.exe, .relDone) = some s') :
    Inv sc s' := by
  simp only [step] at hs; split at hs <;> (try cases hs)
  all_goals
    obtain ⟨h1, h2, h3, h4, h5, h6, h7, h8, h9, h10, h11, h12, h13, h14, h15, h16, h17, h18, h19, h20, h21, h22, h23, h24⟩ := h
    inv_case s

theorem inv_exe_acqErr {sc : Script} {s s' : State} (h : Inv sc s) (hs : step sc s (.exe, .acqErr) = some s') :
    Inv sc s' := by
  simp only [step] at hs; split at hs <;> (try cases hs)
  all_goals
    obtain ⟨h1, h2, h3, h4, h5, h6, h7, h8, h9, h10, h11, h12, h13, h14, h15, h16, h17, h18, h19, h20, h21, h22, h23, h24⟩ := h
    inv_case s

theorem inv_exe_relErr {sc : Script} {s s' : State} (h : Inv sc s) (hs : step sc s (.exe, .relErr) = some s') :
    Inv sc s' := by
  simp only [step] at hs; split at hs <;> (try cases hs)
  rename_i hxp
  obtain ⟨h1, h2, h3, h4, h5, h6, h7, h8, h9, h10, h11, h12, h13, h14, h15, h16, h17, h18, h19, h20, h21, h22, h23, h24⟩ := h
  inv_case s
  -- retOk: the value computed under `err.read()` is the expected one
  intro r hr
  simp only [Option.some.injEq] at hr
  have hd : s.done = true := h13 (by simp [hxp, XPc.sawDone])
  rw [h8] at hd
  have hst : s.sp.started = true := by cases hp : s.sp <;> simp_all [SPc.afterDone, SPc.started]
  have hae : s.sp.afterErr = true := by cases hp : s.sp <;> simp_all [SPc.afterDone, SPc.afterErr]
  have hin : s.sp.inflight = [] := by cases hp : s.sp <;> simp_all [SPc.afterDone, SPc.inflight]
  have hb : s.buffer = sc.items := by simpa [hin, h10 hst] using h9
  have ht := h12 hst
  rw [h11, if_pos hae, hb] at hr
  subst hr
  cases htm : sc.term with
  | none => simp [htm] at ht
  | some tm => cases tm <;> simp [Script.errVal, Script.expected, htm]

theorem inv_exe_relWaker {sc : Script} {s s' : State} (h : Inv sc s) (hs : step sc s (.exe, .relWaker) = some s') :
    Inv sc s' := by
  simp only [step] at hs; split at hs <;> (try cases hs)
  all_goals
    obtain ⟨h1, h2, h3, h4, h5, h6, h7, h8, h9, h10, h11, h12, h13, h14, h15, h16, h17, h18, h19, h20, h21, h22, h23, h24⟩ := h
    inv_case s

theorem inv_exe_park {sc : Script} {s s' : State} (h : Inv sc s) (hs : step sc s (.exe, .park) = some s') :
    Inv sc s' := by
  simp only [step] at hs; split at hs <;> (try cases hs)
  all_goals
    obtain ⟨h1, h2, h3, h4, h5, h6, h7, h8, h9, h10, h11, h12, h13, h14, h15, h16, h17, h18, h19, h20, h21, h22, h23, h24⟩ := h
    inv_case s

theorem inv_exe_spurious {sc : Script} {s s' : State} (h : Inv sc s) (hs : step sc s (.exe, .spurious) = some s') :
    Inv sc s' := by
  simp only [step] at hs; split at hs <;> (try cases hs)
  all_goals
    obtain ⟨h1, h2, h3, h4, h5, h6, h7, h8, h9, h10, h11, h12, h13, h14, h15, h16, h17, h18, h19, h20, h21, h22, h23, h24⟩ := h
    inv_case s

theorem inv_step {sc : Script} {s s' : State} {l : Label} (h : Inv sc s) (hs : step sc s l = some s') :
    Inv sc s' := by
  obtain ⟨t, k⟩ := l
  cases t <;> cases k
  case src.acqBuf => exact inv_src_acqBuf h hs
  case src.relBuf => exact inv_src_relBuf h hs
  case src.acqErr => exact inv_src_acqErr h hs
  case src.relErr => exact inv_src_relErr h hs
  case src.acqDone => exact inv_src_acqDone h hs
  case src.relDone => exact inv_src_relDone h hs
  case src.acqWaker => exact inv_src_acqWaker h hs
  case src.wake => exact inv_src_wake h hs
  case src.relWaker => exact inv_src_relWaker h hs
  case exe.acqWaker => exact inv_exe_acqWaker h hs
  case exe.acqDone => exact inv_exe_acqDone h hs
  case exe.relDone => exact inv_exe_relDone h hs
  case exe.acqErr => exact inv_exe_acqErr h hs
  case exe.relErr => exact inv_exe_relErr h hs
  case exe.relWaker => exact inv_exe_relWaker h hs
  case exe.park => exact inv_exe_park h hs
  case exe.spurious => exact inv_exe_spurious h hs
  all_goals (simp [step] at hs)

theorem reachable_inv {sc : Script} {s : State} (h : Reachable sc s) : Inv sc s := by
  induction h with
  | init => exact inv_init sc
  | step _ hs ih => exact inv_step ih hs

/-! ## Main theorems -/

/-- **ready_only_after_terminal.**  If `block_on` has returned (`poll` returned Ready) then the script has a terminal,
the source's terminal callback is past its write of `done` (line 36 / 42) and `done` is set.  The same holds as soon as
a poll has merely *decided* to return Ready (`xp.sawDone`). -/
theorem ready_only_after_terminal {sc : Script} {s : State} (h : Reachable sc s) :
    (s.result.isSome = true ∨ s.xp.sawDone = true) →
      s.done = true ∧ s.sp.afterDone = true ∧ sc.term.isSome = true := by
  have I := reachable_inv h
  intro hr
  have hx : s.xp.sawDone = true := by
    rcases hr with hr | hr
    · rw [I.resReady.mp hr]; rfl
    · exact hr
  have hd := I.sawDone hx
  have ha : s.sp.afterDone = true := by rw [← I.doneEq]; exact hd
  refine ⟨hd, ha, I.termSome ?_⟩
  cases hp : s.sp <;> simp_all [SPc.afterDone, SPc.started]

/-- **result_exact.**  The Ready value is `Ok(buffer)` with the buffer holding exactly the script's items in order (and
the shared buffer still holds exactly them in every later state), or `Err e` with the script's error. -/
theorem result_exact {sc : Script} {s : State} {r : Res} (h : Reachable sc s) (hr : s.result = some r) :
    sc.expected = some r ∧
    (sc.term = some Term.complete → r = Res.ok sc.items ∧ s.buffer = sc.items) ∧
    (∀ e : Nat, sc.term = some (Term.error e) → r = Res.err e ∧ s.err = some e) := by
  have I := reachable_inv h
  have he := I.resOk r hr
  have hd := ready_only_after_terminal h (Or.inl (by simp [hr]))
  have hst : s.sp.started = true := by cases hp : s.sp <;> simp_all [SPc.afterDone, SPc.started]
  have hae : s.sp.afterErr = true := by cases hp : s.sp <;> simp_all [SPc.afterDone, SPc.afterErr]
  have hin : s.sp.inflight = [] := by cases hp : s.sp <;> simp_all [SPc.afterDone, SPc.inflight]
  have hb : s.buffer = sc.items := by simpa [hin, I.todoNil hst] using I.bufEq
  have herr := I.errEq
  rw [if_pos hae] at herr
  refine ⟨he, ?_, ?_⟩
  · intro ht; simp [Script.expected, ht] at he; exact ⟨he.symm, hb⟩
  · intro e ht; simp [Script.expected, ht] at he; exact ⟨he.symm, by simp [herr, Script.errVal, ht]⟩

/-- The invariant behind "no lost wake-up", stated explicitly.
1. While a poll is between its `done` check that read `false` and the release of `waker.write()` (`xp = store`), the
   terminal callback has NOT yet inspected the waker cell (it is blocked on `waker.read()` at the latest).
2. Once that poll has returned Pending (`xp = park`), the waker cell holds the waker of exactly this (latest) poll.
3. Hence: if the terminal callback is past its inspection of the waker cell while the executor sits at `park`, the
   terminal saw the stored waker, called `wake()` (exactly once) and the token is still there.
Dually (`ready_only_after_terminal`), a poll that starts after `done` was written sees `done`. -/
theorem wakeup_invariant {sc : Script} {s : State} (h : Reachable sc s) :
    (s.xp = XPc.store → s.sp.holdsWaker = false ∧ s.sp.pastWake = false) ∧
    (s.xp = XPc.park → s.waker = some s.polls) ∧
    (s.xp = XPc.park → s.sp.pastWake = true → s.token = true ∧ s.wakes = 1) := by
  have I := reachable_inv h
  refine ⟨?_, I.parkWaker, ?_⟩
  · intro hx
    have h1 := I.exclWaker
    have h2 := I.storeNotFin hx
    cases hp : s.sp <;> simp_all [SPc.holdsWaker, SPc.pastWake, XPc.holdsWaker]
  · intro hx hp
    have ht := I.noLost hx hp
    have h1 := I.tokenLe
    have h2 := I.wakesLe
    simp [ht, hp] at h1 h2
    exact ⟨ht, by omega⟩

/-- **no_lost_wakeup** (safety form).  In every reachable state where the source has finished its terminal callback,
the executor is not inside a poll that decided Pending, and if it is about to park (after a Pending poll) the park
token is set, so `park` returns immediately: the step `exe park` is enabled. -/
theorem no_lost_wakeup {sc : Script} {s : State} (h : Reachable sc s) (hfin : s.sp = SPc.fin) :
    s.xp ≠ XPc.store ∧
    (s.xp = XPc.park → s.token = true ∧ ∃ s', step sc s (Tid.exe, Kind.park) = some s' ∧ s'.xp = XPc.poll) := by
  have I := reachable_inv h
  refine ⟨fun hx => I.storeNotFin hx hfin, fun hx => ?_⟩
  have ht := I.noLost hx (by rw [hfin]; rfl)
  exact ⟨ht, by simp [step, hx, ht]⟩

/-- ranking function of the executor once the source is finished -/
def rank : XPc → Nat
  | .ready => 0 | .retReady => 1 | .errHold => 2 | .errAcq => 3 | .doneHold => 4 | .doneAcq => 5
  | .poll => 6 | .park => 7 | .store => 8

/-- polls the executor may still start (once the source is finished) -/
def pollsLeft (x : XPc) : Nat := if 6 ≤ rank x then 1 else 0

/-- a finished source has no step at all -/
theorem src_fin_stuck {sc : Script} {s : State} (hfin : s.sp = SPc.fin) (k : Kind) : step sc s (Tid.src, k) = none := by
  cases k <;> simp [step, hfin]

/-- progress: after the source's terminal callback returned, the executor is never blocked (no lock is held by the
source any more and a pending park finds its token) until `block_on` has returned -/
theorem exe_progress {sc : Script} {s : State} (h : Reachable sc s) (hfin : s.sp = SPc.fin) (hnr : s.xp ≠ XPc.ready) :
    ∃ k s', k ≠ Kind.spurious ∧ step sc s (Tid.exe, k) = some s' := by
  have I := reachable_inv h
  have hW := I.lockWaker
  have hD := I.lockDone
  have hE := I.lockErr
  have hT := I.noLost
  have hS := I.storeNotFin
  cases hx : s.xp
  case poll => exact ⟨.acqWaker, _, by decide, by simp [step, hx, hW, hfin, SPc.holdsWaker, XPc.holdsWaker]; rfl⟩
  case doneAcq => exact ⟨.acqDone, _, by decide, by simp [step, hx, hD, hfin]; rfl⟩
  case doneHold => exact ⟨.relDone, _, by decide, by simp [step, hx]; rfl⟩
  case errAcq => exact ⟨.acqErr, _, by decide, by simp [step, hx, hE, hfin]; rfl⟩
  case errHold => exact ⟨.relErr, _, by decide, by simp [step, hx]; rfl⟩
  case retReady => exact ⟨.relWaker, _, by decide, by simp [step, hx]; rfl⟩
  case store => exact absurd hfin (hS hx)
  case park =>
    have ht : s.token = true := hT hx (by rw [hfin]; rfl)
    exact ⟨.park, _, by decide, by simp [step, hx, ht]; rfl⟩
  case ready => exact absurd hx hnr

/-- every executor step taken after the source finished (spurious park returns included) strictly decreases `rank`,
and starts at most the one poll accounted for by `pollsLeft` -/
theorem exe_rank_decreases {sc : Script} {s s' : State} {k : Kind} (h : Reachable sc s) (hfin : s.sp = SPc.fin)
    (hs : step sc s (Tid.exe, k) = some s') :
    s'.sp = SPc.fin ∧ rank s'.xp < rank s.xp ∧ s'.polls + pollsLeft s'.xp = s.polls + pollsLeft s.xp ∧
    s'.spur ≤ s.spur + 1 := by
  have I := reachable_inv h
  have hd : s.done = true := by rw [I.doneEq, hfin]; rfl
  cases k <;> simp only [step] at hs <;> (try cases hs) <;> split at hs <;> (try cases hs) <;>
    simp_all [rank, pollsLeft]

/-- a run made of executor labels only -/
def exeOnly (ls : List Label) : Prop := ∀ l ∈ ls, l.1 = Tid.exe

/-- **eventually_ready.**  Once the source's terminal callback has returned (`sp = fin`):
* every run from there consists of executor steps only, keeps `sp = fin`, and has length at most `rank s.xp ≤ 7`
  (`ls.length + rank s'.xp ≤ rank s.xp`): the executor reaches Ready within 7 of its own steps, spurious wake-ups
  included;
* at most one more poll is started (`s'.polls ≤ s.polls + 1`);
* the executor is never stuck before Ready (`exe_progress`), so every maximal run ends with `block_on` returned, and the
  value returned is the expected one. -/
theorem eventually_ready {sc : Script} {s : State} (h : Reachable sc s) (hfin : s.sp = SPc.fin) :
    rank s.xp ≤ 7 ∧
    ∀ (ls : List Label) (s' : State), runFrom sc s ls = some s' →
      exeOnly ls ∧ s'.sp = SPc.fin ∧ ls.length + rank s'.xp ≤ rank s.xp ∧
      s'.polls + pollsLeft s'.xp = s.polls + pollsLeft s.xp ∧ s'.polls ≤ s.polls + 1 ∧
      ((∀ l, step sc s' l = none) → s'.xp = XPc.ready ∧ s'.result = sc.expected ∧ sc.expected.isSome = true) := by
  constructor
  · have := (no_lost_wakeup h hfin).1
    cases hx : s.xp <;> simp_all [rank]
  · intro ls
    induction ls generalizing s with
    | nil =>
      intro s' hr
      simp only [runFrom, Option.some.injEq] at hr
      subst hr
      refine ⟨by simp [exeOnly], hfin, by simp, rfl, by omega, ?_⟩
      intro hstuck
      have hready : s.xp = XPc.ready := by
        apply Classical.byContradiction
        intro hnr
        obtain ⟨k, s1, _, hs1⟩ := exe_progress h hfin hnr
        rw [hstuck] at hs1
        cases hs1
      have I := reachable_inv h
      have hsome := I.resReady.mpr hready
      obtain ⟨r, hr⟩ := Option.isSome_iff_exists.mp hsome
      have := I.resOk r hr
      exact ⟨hready, by rw [hr, this], by rw [this]; rfl⟩
    | cons l ls ih =>
      intro s' hr
      simp only [runFrom] at hr
      split at hr
      · next s1 hs1 =>
        obtain ⟨t, k⟩ := l
        cases t
        · rw [src_fin_stuck hfin] at hs1; cases hs1
        · obtain ⟨hf1, hrk, hpl, _⟩ := exe_rank_decreases h hfin hs1
          obtain ⟨he, hf2, hlen, hpolls, _, hst⟩ := ih (Reachable.step h hs1) hf1 s' hr
          refine ⟨?_, hf2, by simp only [List.length_cons]; omega, by omega, ?_, hst⟩
          · intro l hl
            rcases List.mem_cons.mp hl with rfl | hl
            · rfl
            · exact he l hl
          · have : pollsLeft s.xp ≤ 1 := by unfold pollsLeft; split <;> omega
            omega
      · cases hr

/-- number of polls: at most two plus the number of spurious wake-ups (in every reachable state) -/
theorem polls_bound {sc : Script} {s : State} (h : Reachable sc s) :
    s.polls ≤ 2 + s.spur ∧ s.wakes ≤ 1 ∧ s.polls = s.parks + s.spur + (if s.xp = XPc.poll then 0 else 1) := by
  have I := reachable_inv h
  have h1 := I.pollsEq
  have h2 := I.tokenLe
  have h3 := I.wakesLe
  refine ⟨?_, ?_, h1⟩
  · split at h1 <;> split at h2 <;> split at h3 <;> omega
  · split at h3 <;> omega

/-- **pending_forever_if_silent.**  With a script that never terminates no poll ever decides Ready: `done` stays
false, `block_on` never returns, and the executor never even enters the Ready branch of `poll`. -/
theorem pending_forever_if_silent {sc : Script} {s : State} (hsil : sc.term = none) (h : Reachable sc s) :
    s.result = none ∧ s.ret = none ∧ s.done = false ∧ s.xp ≠ XPc.ready ∧ s.xp.sawDone = false := by
  have I := reachable_inv h
  have hsaw : s.xp.sawDone = false := by
    cases hx : s.xp.sawDone with
    | false => rfl
    | true => have := (ready_only_after_terminal h (Or.inr hx)).2.2; simp [hsil] at this
  have hres : s.result = none := by
    cases hr : s.result with
    | none => rfl
    | some r => have := (ready_only_after_terminal h (Or.inl (by simp [hr]))).2.2; simp [hsil] at this
  have hret : s.ret = none := by
    cases hr : s.ret with
    | none => rfl
    | some r => have := I.retOk r hr; simp [Script.expected, hsil] at this
  have hdone : s.done = false := by
    have hns : s.sp.started = false := by
      cases hst : s.sp.started with
      | false => rfl
      | true => have := I.termSome hst; simp [hsil] at this
    rw [I.doneEq]
    cases hp : s.sp <;> simp_all [SPc.afterDone, SPc.started]
  refine ⟨hres, hret, hdone, ?_, hsaw⟩
  intro hx; rw [hx] at hsaw; cases hsaw

/-! ## The lock discipline around the waker cell -/

/-- While `poll` holds `waker.write()` the terminal callback cannot take `waker.read()`: a terminal cannot slip between
the `done` check and the waker store. -/
theorem terminal_blocked_during_poll {sc : Script} {s : State} (h : Reachable sc s) (hx : s.xp.holdsWaker = true) :
    step sc s (Tid.src, Kind.acqWaker) = none := by
  have I := reachable_inv h
  have hW := I.lockWaker
  have hE := I.exclWaker
  cases hp : s.sp <;> simp_all [step, SPc.holdsWaker]

/-- Finding (harmless with a park-based executor): `wake()` (line 38 / 44) runs while the callback still holds
`waker.read()`.  The woken executor cannot start its poll before the source releases; a waker that polls inline on
the calling thread would self-deadlock on `waker.write()` (line 61). -/
theorem wake_called_under_read_lock {sc : Script} {s s' : State} (h : Reachable sc s)
    (hs : step sc s (Tid.src, Kind.wake) = some s') :
    s.lWaker = some Tid.src ∧ s'.lWaker = some Tid.src ∧ s'.token = true ∧
    ∀ t, step sc s' (t, Kind.acqWaker) = none := by
  have I := reachable_inv h
  have hW := I.lockWaker
  simp only [step] at hs
  split at hs <;> (try cases hs)
  rename_i hsp _
  have hl : s.lWaker = some Tid.src := by simp [hW, hsp, SPc.holdsWaker]
  refine ⟨hl, hl, rfl, ?_⟩
  intro t
  cases t <;> simp [step, hl]

/-- The waker cell only ever holds the waker of a poll that has started, and a parked executor's current waker is
the stored one (a later poll overwriting the waker is therefore harmless). -/
theorem waker_is_latest {sc : Script} {s : State} (h : Reachable sc s) :
    (∀ k : Nat, s.waker = some k → 1 ≤ k ∧ k ≤ s.polls) ∧ (s.xp = XPc.park → s.waker = some s.polls) :=
  ⟨(reachable_inv h).wakerLe, (reachable_inv h).parkWaker⟩

/-! ## Global deadlock freedom -/

def enabled (sc : Script) (s : State) (l : Label) : Bool := (step sc s l).isSome

/-- the source has nothing more to do: terminal callback returned, or a silent script fully delivered -/
def srcQuiescent (sc : Script) (s : State) : Prop :=
  s.sp = SPc.fin ∨ (s.sp = SPc.idle ∧ s.todo = [] ∧ sc.term = none)

/-- when the source holds no lock the executor can move unless it has returned or is parked without a token -/
theorem exe_enabled_of_src_lockfree {sc : Script} {s : State} (I : Inv sc s)
    (h1 : s.sp ≠ SPc.errHold) (h2 : s.sp ≠ SPc.doneHold) (h3 : s.sp.holdsWaker = false) :
    (∃ k, k ≠ Kind.spurious ∧ enabled sc s (Tid.exe, k) = true) ∨ s.xp = XPc.ready ∨
      (s.xp = XPc.park ∧ s.token = false) := by
  have hW := I.lockWaker
  have hD := I.lockDone
  have hE := I.lockErr
  cases hx : s.xp
  case poll => exact .inl ⟨.acqWaker, by decide, by simp [enabled, step, hx, hW, h3, XPc.holdsWaker]⟩
  case doneAcq => exact .inl ⟨.acqDone, by decide, by simp [enabled, step, hx, hD, h2]⟩
  case doneHold => exact .inl ⟨.relDone, by decide, by simp [enabled, step, hx]⟩
  case errAcq => exact .inl ⟨.acqErr, by decide, by simp [enabled, step, hx, hE, h1]⟩
  case errHold => exact .inl ⟨.relErr, by decide, by simp [enabled, step, hx]⟩
  case retReady => exact .inl ⟨.relWaker, by decide, by simp [enabled, step, hx]⟩
  case store => exact .inl ⟨.relWaker, by decide, by simp [enabled, step, hx]⟩
  case park =>
    cases ht : s.token
    · exact .inr (.inr ⟨rfl, rfl⟩)
    · exact .inl ⟨.park, by decide, by simp [enabled, step, hx, ht]⟩
  case ready => exact .inr (.inl rfl)

/-- **no_deadlock.**  In every reachable state some non-spurious step is enabled, unless the source is quiescent and
the executor either has returned, or is parked without token behind a source that never terminates. -/
theorem no_deadlock {sc : Script} {s : State} (h : Reachable sc s) :
    (∃ l : Label, l.2 ≠ Kind.spurious ∧ enabled sc s l = true) ∨
    (srcQuiescent sc s ∧ s.xp = XPc.ready) ∨
    (s.sp = SPc.idle ∧ s.todo = [] ∧ sc.term = none ∧ s.xp = XPc.park ∧ s.token = false) := by
  have I := reachable_inv h
  have hW := I.lockWaker
  have hD := I.lockDone
  have hE := I.lockErr
  have hB := I.lockBuf
  -- the executor moves, or the source is the only hope
  have exeCase : s.sp ≠ SPc.errHold → s.sp ≠ SPc.doneHold → s.sp.holdsWaker = false →
      (∃ l : Label, l.2 ≠ Kind.spurious ∧ enabled sc s l = true) ∨ s.xp = XPc.ready ∨
        (s.xp = XPc.park ∧ s.token = false) := by
    intro a b c
    rcases exe_enabled_of_src_lockfree I a b c with ⟨k, hk, he⟩ | hr | hp
    · exact .inl ⟨(.exe, k), hk, he⟩
    · exact .inr (.inl hr)
    · exact .inr (.inr hp)
  cases hp : s.sp
  case nextHold x => exact .inl ⟨(.src, .relBuf), by decide, by simp [enabled, step, hp]⟩
  case errHold => exact .inl ⟨(.src, .relErr), by decide, by simp [enabled, step, hp]⟩
  case doneHold => exact .inl ⟨(.src, .relDone), by decide, by simp [enabled, step, hp]⟩
  case woke => exact .inl ⟨(.src, .relWaker), by decide, by simp [enabled, step, hp]⟩
  case wakerHold =>
    cases hw : s.waker
    · exact .inl ⟨(.src, .relWaker), by decide, by simp [enabled, step, hp, hw]⟩
    · exact .inl ⟨(.src, .wake), by decide, by simp [enabled, step, hp, hw]⟩
  case doneAcq =>
    by_cases hx : s.xp = XPc.doneHold
    · exact .inl ⟨(.exe, .relDone), by decide, by simp [enabled, step, hx]⟩
    · exact .inl ⟨(.src, .acqDone), by decide, by simp [enabled, step, hp, hD, hx]⟩
  case wakerAcq =>
    cases hx : s.xp.holdsWaker
    · exact .inl ⟨(.src, .acqWaker), by decide, by simp [enabled, step, hp, hW, hx, SPc.holdsWaker]⟩
    · rcases exeCase (by simp [hp]) (by simp [hp]) (by simp [hp, SPc.holdsWaker]) with he | hr | hk
      · exact .inl he
      · rw [hr] at hx; cases hx
      · rw [hk.1] at hx; cases hx
  case fin =>
    rcases exeCase (by simp [hp]) (by simp [hp]) (by simp [hp, SPc.holdsWaker]) with he | hr | hk
    · exact .inl he
    · exact .inr (.inl ⟨.inl hp, hr⟩)
    · have := I.noLost hk.1 (by rw [hp]; rfl)
      rw [hk.2] at this; cases this
  case idle =>
    cases htd : s.todo with
    | cons x rest => exact .inl ⟨(.src, .acqBuf), by decide, by simp [enabled, step, hp, htd, hB, SPc.holdsBuf]⟩
    | nil =>
      cases htm : sc.term with
      | none =>
        rcases exeCase (by simp [hp]) (by simp [hp]) (by simp [hp, SPc.holdsWaker]) with he | hr | hk
        · exact .inl he
        · exact .inr (.inl ⟨.inr ⟨hp, htd, htm⟩, hr⟩)
        · exact .inr (.inr ⟨rfl, rfl, rfl, hk.1, hk.2⟩)
      | some tm =>
        cases tm with
        | complete =>
          by_cases hx : s.xp = XPc.doneHold
          · exact .inl ⟨(.exe, .relDone), by decide, by simp [enabled, step, hx]⟩
          · exact .inl ⟨(.src, .acqDone), by decide, by simp [enabled, step, hp, htd, htm, hD, hx]⟩
        | error e =>
          by_cases hx : s.xp = XPc.errHold
          · exact .inl ⟨(.exe, .relErr), by decide, by simp [enabled, step, hx]⟩
          · exact .inl ⟨(.src, .acqErr), by decide, by simp [enabled, step, hp, htd, htm, hE, hx]⟩

/-! ## Non-vacuity: concrete runs -/

section Examples
open Tid Kind

def scOk : Script := ⟨[Data.int 1, Data.int 2], some Term.complete⟩
def scErr : Script := ⟨[Data.int 7], some (Term.error 3)⟩
def scSilent : Script := ⟨[Data.int 1], none⟩

/-- the poll has read `done == false` and still holds `waker.write()`; meanwhile the source delivers both items and
writes `done` -/
def runRace : List Label :=
  [(exe, acqWaker), (exe, acqDone), (exe, relDone),
   (src, acqBuf), (src, relBuf), (src, acqBuf), (src, relBuf), (src, acqDone), (src, relDone)]

/-- … the poll stores its waker and returns Pending; the terminal sees the waker and wakes -/
def runRace2 : List Label := runRace ++ [(exe, relWaker), (src, acqWaker), (src, wake)]

/-- … the source finishes; the executor finds the token, polls again and returns -/
def runRace3 : List Label :=
  runRace2 ++ [(src, relWaker), (exe, park), (exe, acqWaker), (exe, acqDone), (exe, relDone), (exe, acqErr),
               (exe, relErr), (exe, relWaker)]

-- the race prefix is a run: `done` is already true, the poll is about to store (Pending), source at `waker.read()`
example : (replay scOk runRace).map (fun s => (s.done, s.xp, s.sp, s.lWaker)) =
    some (true, XPc.store, SPc.wakerAcq, some exe) := by decide
-- "terminal between the `done` check and the waker store" is impossible: the source is blocked on `waker.read()` …
example : replay scOk (runRace ++ [(src, acqWaker)]) = none := by decide
-- … until the poll has stored the waker and released; then it proceeds, sees the waker and wakes
example : (replay scOk runRace2).map (fun s => (s.sp, s.xp, s.token, s.waker, s.wakes)) =
    some (SPc.woke, XPc.park, true, some 1, 1) := by decide
-- `wake()` happens under `waker.read()`: the woken executor consumes the token but cannot enter `poll` yet
example : (replay scOk (runRace2 ++ [(exe, park)])).map (fun s => (s.xp, s.lWaker)) = some (XPc.poll, some src) := by
  decide
example : replay scOk (runRace2 ++ [(exe, park), (exe, acqWaker)]) = none := by decide
-- hypotheses of `no_lost_wakeup` / `eventually_ready`: source finished, executor about to park, token set
example : (replay scOk (runRace2 ++ [(src, relWaker)])).map (fun s => (s.sp, s.xp, s.token)) =
    some (SPc.fin, XPc.park, true) := by decide
-- the full run: Ready(Ok [1,2]) after exactly two polls, no spurious wake-up
example : (replay scOk runRace3).map (fun s => (s.result, s.polls, s.spur, s.buffer)) =
    some (some (Res.ok [Data.int 1, Data.int 2]), 2, 0, [Data.int 1, Data.int 2]) := by decide
example : ∃ s, Reachable scOk s ∧ s.result = some (Res.ok scOk.items) :=
  match h : replay scOk runRace3 with
  | some s => ⟨s, reachable_of_replay h, by
      have : (replay scOk runRace3).map (·.result) = some (some (Res.ok scOk.items)) := by decide
      rw [h] at this; simpa using this⟩
  | none => by
      have : (replay scOk runRace3).isSome = true := by decide
      rw [h] at this; cases this

/-- error script, source entirely before the first poll (synchronous source): one poll, `Err 3` -/
def runErr : List Label :=
  [(src, acqBuf), (src, relBuf), (src, acqErr), (src, relErr), (src, acqDone), (src, relDone),
   (src, acqWaker), (src, relWaker),
   (exe, acqWaker), (exe, acqDone), (exe, relDone), (exe, acqErr), (exe, relErr), (exe, relWaker)]

example : (replay scErr runErr).map (fun s => (s.result, s.polls, s.wakes, s.err, s.buffer)) =
    some (some (Res.err 3), 1, 0, some 3, [Data.int 7]) := by decide

/-- error racing a parked executor with one spurious wake-up: the bound `polls ≤ 2 + spur` is attained (3 polls) -/
def runErrSpur : List Label :=
  [(exe, acqWaker), (exe, acqDone), (exe, relDone), (exe, relWaker),                       -- poll 1: Pending
   (exe, spurious), (exe, acqWaker), (exe, acqDone), (exe, relDone), (exe, relWaker),      -- poll 2: Pending
   (src, acqBuf), (src, relBuf), (src, acqErr), (src, relErr), (src, acqDone), (src, relDone),
   (src, acqWaker), (src, wake), (src, relWaker),
   (exe, park), (exe, acqWaker), (exe, acqDone), (exe, relDone), (exe, acqErr), (exe, relErr), (exe, relWaker)]

example : (replay scErr runErrSpur).map (fun s => (s.result, s.polls, s.spur, s.waker)) =
    some (some (Res.err 3), 3, 1, some 2) := by decide

/-- silent script: the item is delivered, the executor parks for ever (only a spurious return is enabled) -/
def runSilent : List Label :=
  [(exe, acqWaker), (exe, acqDone), (src, acqBuf), (exe, relDone), (src, relBuf), (exe, relWaker)]

example : (replay scSilent runSilent).map (fun s => (s.result, s.xp, s.token, s.buffer)) =
    some (none, XPc.park, false, [Data.int 1]) := by decide
example : (replay scSilent (runSilent ++ [(exe, park)])) = none := by decide

-- text format (evaluated checks; string functions do not reduce in the kernel)
#guard parseLabel "src acq_waker" == some (src, acqWaker)
#guard parseLabel "  exe   spurious " == some (exe, spurious)
#guard parseLabel "exe acq_buffer x" == none
#guard parseLabel "main wake" == none
#guard ([src, exe].flatMap fun t => [acqBuf, relBuf, acqErr, relErr, acqDone, relDone, acqWaker, relWaker, wake,
          park, spurious].map fun k => (t, k)).all fun l => parseLabel (labelToStr l) == some l
#guard parseScript "1 2 c" == some scOk
#guard parseScript "7 e3" == some scErr
#guard parseScript "1" == some scSilent
#guard parseScript "1 c 2" == none
#guard (replayText scErr (runErr.map labelToStr)).map (·.summary) ==
  some "done=true polls=1 spurious=0 wakes=0 token=false result=Err(3) pushed=[7]"

end Examples

#print axioms ready_only_after_terminal
#print axioms result_exact
#print axioms wakeup_invariant
#print axioms no_lost_wakeup
#print axioms exe_progress
#print axioms exe_rank_decreases
#print axioms eventually_ready
#print axioms polls_bound
#print axioms pending_forever_if_silent
#print axioms terminal_blocked_during_poll
#print axioms wake_called_under_read_lock
#print axioms waker_is_latest
#print axioms no_deadlock
#print axioms reachable_inv

end Rx.ToVec
