import RxVerif.Theorems.SimChainMacro
/-
SIM for chains, part 4: `sink_next` / `sink_error` / `sink_complete` / `upstream_abort_observe` of stage
`i`, the action lists of its kernel, and its three closures — against `actC` / `deliver`.
-/
namespace Rx.Chain
open Rx.Sim

/-- deliveries into observer `i` behave as `dn` says -/
structure DeliverSpec (ly : Lay) (m i : Nat) (dn : Ev → CSt → CSt) : Prop where
  next : ∀ (x : CSt) (H : List (LockId × Bool)) (w : World) (k : Prog) (Q : World → Prop) (d : Data),
    Dn ly i H → CRep ly m x H w → (∀ w', CRep ly m (dn (.next d) x) H w' → WP k w' Q) →
    WP (.obsNext (ly.L + i) d k) w Q
  error : ∀ (x : CSt) (H : List (LockId × Bool)) (w : World) (k : Prog) (Q : World → Prop) (e : Nat),
    Dn ly i H → CRep ly m x H w → (∀ w', CRep ly m (dn (.error e) x) H w' → WP k w' Q) →
    WP (.obsError (ly.L + i) e k) w Q
  complete : ∀ (x : CSt) (H : List (LockId × Bool)) (w : World) (k : Prog) (Q : World → Prop),
    Dn ly i H → CRep ly m x H w → (∀ w', CRep ly m (dn .complete x) H w' → WP k w' Q) →
    WP (.obsComplete (ly.L + i) k) w Q

theorem amapRemove_mapD (ly : Lay) (j : Nat) (rg : Bool) :
    amapRemove (ly.mapD j rg) (0 : Nat) = ly.mapD j false := by
  cases rg <;> simp [amapRemove, Lay.mapD, Data.ofList, Data.toList]

theorem amapGet_mapD_true (ly : Lay) (j : Nat) :
    amapGet (ly.mapD j true) (0 : Nat) = some (.int ((ly.L + (j + 1) : Nat) : Int)) := by
  simp [amapGet, Lay.mapD, Data.ofList, Data.toList]

theorem amapGet_mapD_false (ly : Lay) (j : Nat) : amapGet (ly.mapD j false) (0 : Nat) = none := by
  simp [amapGet, Lay.mapD, Data.toList]

theorem amapLen_mapD_false (ly : Lay) (j : Nat) : amapLen (ly.mapD j false) = 0 := rfl

section sinks
variable {ly : Lay} {m i : Nat} {x : CSt} {H : List (LockId × Bool)} {w : World} {dn : Ev → CSt → CSt}

theorem sinkNext_spec (hi : i < m) (hd : DeliverSpec ly m i dn) (hH : Dn ly i H) {d : Data}
    (h : CRep ly m x H w) :
    WP ((ly.sc i).sinkNext d) w (CRep ly m (sinkNextC m dn i d x) H) := by
  simp only [Sctl.sinkNext, sc_sub, sinkNextC]
  apply c_isSub h (Nat.le_of_lt hi)
  cases hs : x.sub i with
  | true =>
    simp only [↓reduceIte]
    apply hd.next x H w _ _ d hH h
    intro w1 h1
    exact WP.done h1
  | false =>
    simp only [Bool.false_eq_true, ↓reduceIte]
    exact finC_spec hi (hH.up i) h

theorem sinkError_spec (hi : i < m) (hd : DeliverSpec ly m i dn) (hH : Dn ly i H) {e : Nat}
    (h : CRep ly m x H w) :
    WP ((ly.sc i).sinkError e) w (CRep ly m (actC m dn i (.fail e) x) H) := by
  simp only [Sctl.sinkError, sc_sub, actC]
  apply c_isSub h (Nat.le_of_lt hi)
  cases hs : x.sub i with
  | true =>
    simp only [↓reduceIte]
    apply hd.error x H w _ _ e hH h
    intro w1 h1
    exact finC_spec hi (hH.up i) h1
  | false =>
    simp only [Bool.false_eq_true, ↓reduceIte]
    exact finC_spec hi (hH.up i) h

theorem sinkComplete_spec (hi : i < m) (hd : DeliverSpec ly m i dn) (hH : Dn ly i H)
    (h : CRep ly m x H w) :
    WP ((ly.sc i).sinkComplete 0) w (CRep ly m (actC m dn i .complete x) H) := by
  simp only [Sctl.sinkComplete, sc_sub, sc_map, actC]
  apply c_isSub h (Nat.le_of_lt hi)
  cases hs : x.sub i with
  | true =>
    simp only [↓reduceIte]
    apply c_readMap h hi (Or.inr ((hH.up i).map (Nat.le_refl _) false))
    rw [amapRemove_mapD]
    apply c_writeMap (rg' := false) h hi (Or.inr ((hH.up i).map (Nat.le_refl _) true))
    intro w1 h1
    simp only [amapLen_mapD_false, BEq.rfl, ↓reduceIte]
    have h1' : CRep ly m (x.unreg i) H w1 := h1
    apply hd.complete _ H w1 _ _ hH h1'
    intro w2 h2
    exact finC_spec hi (hH.up i) h2
  | false =>
    simp only [Bool.false_eq_true, ↓reduceIte]
    exact finC_spec hi (hH.up i) h

theorem abortObserve_spec (hi : i < m) (hH : Dn ly i H) (h : CRep ly m x H w) :
    WP ((ly.sc i).abortObserve 0) w (CRep ly m (actC m dn i .abortSelf x) H) := by
  simp only [Sctl.abortObserve, sc_map, actC]
  apply c_lockAcq h ((hH.up i).map (Nat.le_refl _) true)
  intro w1 h1
  apply c_readMap h1 hi (Or.inl rfl)
  rw [amapRemove_mapD]
  apply c_writeMap (rg' := false) h1 hi (Or.inl rfl)
  intro w2 h2
  have h2' : CRep ly m (x.unreg i) ((.cell (ly.c0 + 3 * i + 1), true) :: H) w2 := h2
  apply WP.seq
  cases hrg : x.rg i with
  | true =>
    rw [amapGet_mapD_true]
    simp only [toNat_P, ↓reduceIte]
    apply upO_spec ly m i hi _ _ w2 _ _ ((hH.up i).consMap true) h2'
    intro w3 h3
    apply WP.done
    apply c_lockRel h3
    intro w4 h4
    exact WP.done h4
  | false =>
    rw [amapGet_mapD_false]
    simp only [Bool.false_eq_true, ↓reduceIte]
    apply WP.done
    apply c_lockRel h2'
    intro w4 h4
    exact WP.done h4

end sinks

section acts
variable {ly : Lay} {m i : Nat} {H : List (LockId × Bool)} {dn : Ev → CSt → CSt}

theorem emitAll_spec (hi : i < m) (hd : DeliverSpec ly m i dn) (hH : Dn ly i H) (ds : List Data) :
    ∀ (x : CSt) (w : World), CRep ly m x H w →
      WP (emitAllP (ly.sc i) ds) w (CRep ly m (emitAllC m dn i ds x) H) := by
  induction ds with
  | nil => intro x w h; exact WP.done h
  | cons d ds ih =>
    intro x w h
    simp only [emitAllP, Sctl.isSub, sc_sub, emitAllC]
    apply c_isSub h (Nat.le_of_lt hi)
    cases hs : x.sub i with
    | false => simp only [Bool.false_eq_true, ↓reduceIte]; exact WP.done h
    | true =>
      simp only [↓reduceIte]
      apply WP.seq
      apply (sinkNext_spec hi hd hH (d := d) h).conseq
      intro w1 h1
      exact ih _ _ h1

theorem act_spec (hi : i < m) (hd : DeliverSpec ly m i dn) (hH : Dn ly i H) (a : Act) (x : CSt) (w : World)
    (h : CRep ly m x H w) : WP (actP (ly.sc i) 0 a) w (CRep ly m (actC m dn i a x) H) := by
  cases a with
  | emit d => exact sinkNext_spec hi hd hH h
  | emitAll ds => exact emitAll_spec hi hd hH ds x w h
  | fail e => exact sinkError_spec hi hd hH h
  | complete => exact sinkComplete_spec hi hd hH h
  | abortSelf => exact abortObserve_spec hi hH h
  | finalize => exact finC_spec hi (hH.up i) h

theorem acts_spec (hi : i < m) (hd : DeliverSpec ly m i dn) (hH : Dn ly i H) (as : List Act) :
    ∀ (x : CSt) (w : World), CRep ly m x H w →
      WP (actsP (ly.sc i) 0 as) w (CRep ly m (actsC m dn i as x) H) := by
  induction as with
  | nil => intro x w h; exact WP.done h
  | cons a as ih =>
    intro x w h
    simp only [actsP, forEach, actsC, List.foldl_cons]
    apply WP.seq
    apply (act_spec hi hd hH a x w h).conseq
    intro w1 h1
    exact ih _ _ h1

/-- the actions of one closure, under the guard the Rust closure keeps alive on its state cell -/
theorem held_body (hi : i < m) (hd : DeliverSpec ly m i dn) (hH : Dn ly (i + 1) H) (hold : Hold)
    (as : List Act) (x : CSt) (w : World) (h : CRep ly m x H w) :
    WP (holdAcq hold (ly.c0 + 3 * i + 2) ;; actsP (ly.sc i) 0 as ;; holdRel hold (ly.c0 + 3 * i + 2)) w
      (CRep ly m (actsC m dn i as x) H) := by
  cases hold with
  | none =>
    simp only [holdAcq, holdRel]
    apply WP.seq
    apply WP.done
    apply WP.seq
    apply (acts_spec hi hd hH.mono as x w h).conseq
    intro w1 h1
    exact WP.done h1
  | read =>
    simp only [holdAcq, holdRel]
    apply WP.seq
    apply c_lockAcq h (hH.st false)
    intro w1 h1
    apply WP.done
    apply WP.seq
    apply (acts_spec hi hd (hH.consSt false) as x w1 h1).conseq
    intro w2 h2
    apply c_lockRel h2
    intro w3 h3
    exact WP.done h3
  | write =>
    simp only [holdAcq, holdRel]
    apply WP.seq
    apply c_lockAcq h (hH.st true)
    intro w1 h1
    apply WP.done
    apply WP.seq
    apply (acts_spec hi hd (hH.consSt true) as x w1 h1).conseq
    intro w2 h2
    apply c_lockRel h2
    intro w3 h3
    exact WP.done h3

theorem hn_spec (hi : i < m) (hd : DeliverSpec ly m i dn) (hH : Dn ly (i + 1) H) (d : Data) (x : CSt)
    (w : World) (h : CRep ly m x H w) :
    WP (ly.hn i d) w (CRep ly m (actsC m dn i ((ly.ks i).onNext (x.st i) d).2
      { x with st := upd x.st i ((ly.ks i).onNext (x.st i) d).1 }) H) := by
  show WP (.cellRead (ly.c0 + 3 * i + 2) false _) w _
  apply c_readSt h hi (hH.st false)
  apply c_writeSt h hi (hH.st true)
  intro w1 h1
  exact held_body hi hd hH _ _ _ w1 h1

theorem he_spec (hi : i < m) (hd : DeliverSpec ly m i dn) (hH : Dn ly (i + 1) H) (e : Nat) (x : CSt)
    (w : World) (h : CRep ly m x H w) :
    WP (ly.he i e) w (CRep ly m (actsC m dn i ((ly.ks i).onError (x.st i) e).2
      { x with st := upd x.st i ((ly.ks i).onError (x.st i) e).1 }) H) := by
  show WP (.cellRead (ly.c0 + 3 * i + 2) false _) w _
  apply c_readSt h hi (hH.st false)
  apply c_writeSt h hi (hH.st true)
  intro w1 h1
  exact acts_spec hi hd hH.mono _ _ w1 h1

theorem hc_spec (hi : i < m) (hd : DeliverSpec ly m i dn) (hH : Dn ly (i + 1) H) (x : CSt)
    (w : World) (h : CRep ly m x H w) :
    WP (ly.hc i) w (CRep ly m (actsC m dn i ((ly.ks i).onComplete (x.st i)).2
      { x with st := upd x.st i ((ly.ks i).onComplete (x.st i)).1 }) H) := by
  show WP (.cellRead (ly.c0 + 3 * i + 2) false _) w _
  apply c_readSt h hi (hH.st false)
  apply c_writeSt h hi (hH.st true)
  intro w1 h1
  exact held_body hi hd hH _ _ _ w1 h1

end acts

theorem deliver_spec (ly : Lay) (m : Nat) : ∀ i, i ≤ m → DeliverSpec ly m i (deliver m ly.ks i) := by
  intro i
  induction i with
  | zero =>
    intro _
    refine ⟨?_, ?_, ?_⟩
    · intro x H w k Q d _ h hk
      cases hs : x.sub 0 with
      | false =>
        apply c_next_dead h (Nat.zero_le _) hs
        apply hk; simpa [deliver, hs] using h
      | true =>
        apply c_next0 h hs
        intro w1 h1
        apply hk; simpa [deliver, hs, Ev.isTerminal] using h1
    · intro x H w k Q e _ h hk
      cases hs : x.sub 0 with
      | false =>
        apply c_error_dead h (Nat.zero_le _) hs
        apply hk; simpa [deliver, hs] using h
      | true =>
        apply c_error0 h hs
        intro w1 h1
        apply hk; simpa [deliver, hs, Ev.isTerminal] using h1
    · intro x H w k Q _ h hk
      cases hs : x.sub 0 with
      | false =>
        apply c_complete_dead h (Nat.zero_le _) hs
        apply hk; simpa [deliver, hs] using h
      | true =>
        apply c_complete0 h hs
        intro w1 h1
        apply hk; simpa [deliver, hs, Ev.isTerminal] using h1
  | succ j ih =>
    intro hj
    have hjm : j < m := by omega
    have hd := ih (Nat.le_of_lt hjm)
    refine ⟨?_, ?_, ?_⟩
    · intro x H w k Q d hH h hk
      cases hs : x.sub (j + 1) with
      | false =>
        apply c_next_dead h hj hs
        apply hk; simpa [deliver, hs] using h
      | true =>
        apply c_nextS h hj hs
        apply (hn_spec hjm hd hH d x w h).conseq
        intro w1 h1
        apply hk; simpa [deliver, hs] using h1
    · intro x H w k Q e hH h hk
      cases hs : x.sub (j + 1) with
      | false =>
        apply c_error_dead h hj hs
        apply hk; simpa [deliver, hs] using h
      | true =>
        apply c_errorS h hj hs
        intro w0 h0
        apply (he_spec hjm hd hH e _ w0 h0).conseq
        intro w1 h1
        apply hk; simpa [deliver, hs] using h1
    · intro x H w k Q hH h hk
      cases hs : x.sub (j + 1) with
      | false =>
        apply c_complete_dead h hj hs
        apply hk; simpa [deliver, hs] using h
      | true =>
        apply c_completeS h hj hs
        intro w0 h0
        apply (hc_spec hjm hd hH _ w0 h0).conseq
        intro w1 h1
        apply hk; simpa [deliver, hs] using h1

/-- the polite script: `is_subscribed` probe, then delivery into observer `m` -/
theorem loop_spec (ly : Lay) (m : Nat) (tag : Nat) (evs : List Ev) : ∀ (x : CSt) (w : World),
    CRep ly m x [] w →
      WP (scriptLoop tag true (ly.L + m) evs) w (CRep ly m (scriptC m ly.ks evs x) []) := by
  induction evs with
  | nil => intro x w h; exact WP.done h
  | cons ev evs ih =>
    intro x w h
    simp only [scriptLoop, scriptC]
    apply c_isSub h (Nat.le_refl _)
    apply c_probe h
    intro w1 h1
    cases hs : x.sub m with
    | false =>
      simp only [Bool.not_false, Bool.and_self, ↓reduceIte, Bool.false_eq_true]
      exact WP.done h1
    | true =>
      simp only [Bool.not_true, Bool.and_false, Bool.false_eq_true, ↓reduceIte]
      apply WP.seq
      have hd := deliver_spec ly m m (Nat.le_refl _)
      cases ev with
      | next d =>
        apply hd.next x [] w1 _ _ d Dn.nil h1
        intro w2 h2
        apply WP.done
        exact ih _ _ h2
      | error e =>
        apply hd.error x [] w1 _ _ e Dn.nil h1
        intro w2 h2
        apply WP.done
        exact ih _ _ h2
      | complete =>
        apply hd.complete x [] w1 _ _ Dn.nil h1
        intro w2 h2
        apply WP.done
        exact ih _ _ h2

end Rx.Chain
