import RxVerif.Machine.Lib
import RxVerif.Machine.Case
/-
C08 (last clause) / C09 over the DEFAULT scheduler — model A side.

`DefaultScheduler::post(f)` is `f()`, `abort()` does nothing.  Model A transliterates interval.rs, timer.rs,
observe_on.rs and subscribe_on.rs closure by closure with `dPost` / `dAbort` in the places where the Rust code calls
`scheduler.post` / `scheduler.abort` (Machine/Lib.lean).  The statements below say what that transliteration amounts to;
they hold by unfolding (the scheduler adds no step of its own), which is the content of "runs the task synchronously in
post" on the machine: no program that posts to the default scheduler can tell `post(task)` from `task`.
The tie to the code is the per-run differential check (`(dpost n)` steps and the `*_d` operators of the case language).
-/
namespace Rx.C08D
open Rx

/-- posting is running: for EVERY task program -/
theorem post_is_run (task : Prog) : dPost task = task := rfl

/-- a task posted from inside a posted task still runs inside the outer `post` (re-entrant post, any depth) -/
theorem post_nested (outer : Prog → Prog) (inner : Prog) : dPost (outer (dPost inner)) = outer inner := rfl

/-- timer over the default scheduler is `just(())`: the item and the completion are delivered inside `subscribe` -/
theorem timerD_eq_just : oTimerD = oJust .unit := rfl

/-- over the default scheduler `subscribe_on` and `observe_on` are the SAME program: the controller is created, the
    (no-op) abort is registered as finalizer, the source is subscribed with forwarding closures -/
theorem subscribeOnD_eq_observeOnD (src : Obsv) : oSubscribeOnD src = oObserveOnD src := rfl

/-- the interval loop polls `is_subscribed` before EVERY emission, the first included (C06: an ended subscription stops
    the producer at its next poll), and emits the counter in order -/
theorem intervalLoop_step (s n f : Nat) :
    intervalLoop s n (f + 1) = .obsIsSub s fun b => if b then .obsNext s (.int n) (intervalLoop s (n + 1) f) else .done := rfl

/-- the loop of `interval` is the loop of `repeat` with a counter for the item -/
theorem intervalLoop_shape (s n f : Nat) :
    (match intervalLoop s n (f + 1), repeatLoop s (.int n) (f + 1) with
     | .obsIsSub a _, .obsIsSub b _ => a = b
     | _, _ => False) := rfl

end Rx.C08D

-- non-vacuity / executable content: three tasks posted to the default scheduler, the machine's trace
open Rx in
example : (run 100 [forEach (List.range 2) fun i =>
    dPost (.probe ((100 + i) * 4 + 3) (.int 1) .done) ;; .probe ((100 + i) * 4 + 3) (.int 2) .done] {}).trace
    = [.probe 403 (.int 1), .probe 403 (.int 2), .probe 407 (.int 1), .probe 407 (.int 2)] := by decide

#print axioms Rx.C08D.post_is_run
#print axioms Rx.C08D.post_nested
#print axioms Rx.C08D.timerD_eq_just
#print axioms Rx.C08D.subscribeOnD_eq_observeOnD
#print axioms Rx.C08D.intervalLoop_step
#print axioms Rx.C08D.intervalLoop_shape
