/-
Structural invariant of the `ReplaySubject` LTS (all reachable states, no restriction on the schedule).
-/
import RxVerif.Conc.Replay

namespace Rx.Conc.Replay

/-- the observer whose forwarder the thread has inserted but whose `subscribe` call has not returned yet -/
def Pc.lateSub : Pc → Option Nat
  | .s6 o _ | .s7 o _ | .s8 o _ | .s8d o _ _ | .s9 o => some o
  | _ => none

theorem Pc.inSub_of_lateSub {pc : Pc} {o : Nat} (h : pc.lateSub = some o) : pc.inSub = true := by
  cases pc <;> simp [Pc.lateSub] at h <;> rfl

def LocA (obs : Nat → Obs) (t : Nat) : Pc → Prop
  | .nxL _ _ snap => snap.Nodup ∧ ∀ o ∈ snap, (obs o).ins = true
  | .nxF _ _ o rest | .nxD _ _ o rest => (o :: rest).Nodup ∧ ∀ o' ∈ o :: rest, (obs o').ins = true
  | .s0 o | .s1 o | .s2 o | .s3 o _ => (obs o).used = some t ∧ (obs o).ins = false ∧ (obs o).subDone = false
  | .s4 o _ | .s5 o _ =>
    (obs o).used = some t ∧ (obs o).ins = false ∧ (obs o).subDone = false ∧ (obs o).fSer.isSome = true
  | .s6 o _ | .s7 o _ | .s8 o _ | .s8d o _ _ | .s9 o =>
    (obs o).used = some t ∧ (obs o).ins = true ∧ (obs o).subDone = false
  | .u1 o | .u2 o | .u3 o | .u4 o | .u5 o | .u6 o | .u7 o | .u8 o | .u9 o | .u9r o | .u9c o | .u10 o
  | .e5 o | .e6 o | .e7 o | .e8 o | .e9 o | .e9r o | .e9c o =>
    (obs o).fnNext = false
  | _ => True

theorem LocA_mono {obs obs' : Nat → Obs} {t : Nat} {pc : Pc}
    (h1 : ∀ o, (obs o).ins = true → (obs' o).ins = true)
    (h2 : ∀ o, (obs o).used = some t → (obs o).subDone = false →
      (obs' o).used = some t ∧ (obs' o).ins = (obs o).ins ∧ (obs' o).subDone = false ∧
      ((obs o).fSer.isSome = true → (obs' o).fSer.isSome = true))
    (h3 : ∀ o, (obs o).fnNext = false → (obs' o).fnNext = false)
    (h : LocA obs t pc) : LocA obs' t pc := by
  cases pc <;> simp only [LocA] at h ⊢
  case nxL => exact ⟨h.1, fun o ho => h1 o (h.2 o ho)⟩
  case nxF => exact ⟨h.1, fun o ho => h1 o (h.2 o ho)⟩
  case nxD => exact ⟨h.1, fun o ho => h1 o (h.2 o ho)⟩
  case s0 o => have := h2 o h.1 h.2.2; grind
  case s1 o => have := h2 o h.1 h.2.2; grind
  case s2 o => have := h2 o h.1 h.2.2; grind
  case s3 o _ => have := h2 o h.1 h.2.2; grind
  case s4 o _ => have := h2 o h.1 h.2.2.1; grind
  case s5 o _ => have := h2 o h.1 h.2.2.1; grind
  case s6 o _ => have := h2 o h.1 h.2.2; grind
  case s7 o _ => have := h2 o h.1 h.2.2; grind
  case s8 o _ => have := h2 o h.1 h.2.2; grind
  case s8d o _ _ => have := h2 o h.1 h.2.2; grind
  case s9 o => have := h2 o h.1 h.2.2; grind
  all_goals first | exact h3 _ h | trivial

structure InvA (s : State) : Prop where
  loc : ∀ t : Nat, LocA s.obs t (s.threads t).pc
  mapSer : ∀ k o : Nat, (k, o) ∈ s.map → (s.obs o).fSer = some k ∧ (s.obs o).ins = true
  mapNodup : (s.map.map (·.2)).Nodup
  serLe : ∀ o k : Nat, (s.obs o).fSer = some k → k ≤ s.serial
  serInj : ∀ o o' k : Nat, (s.obs o).fSer = some k → (s.obs o').fSer = some k → o = o'
  live : ∀ o : Nat, (s.obs o).ins = true → (s.obs o).fnNext = true → o ∈ s.map.map (·.2)
  logIns : ∀ o : Nat, (s.obs o).rlog ≠ [] → (s.obs o).ins = true
  insUsed : ∀ o : Nat, (s.obs o).ins = true → (s.obs o).used.isSome = true
  subIns : ∀ o : Nat, (s.obs o).subDone = true → (s.obs o).ins = true
  fLive : ∀ o : Nat, (s.obs o).fFnNext = false → (s.obs o).fnNext = false
  owner : ∀ o ts : Nat, (s.obs o).used = some ts → (s.obs o).ins = true → (s.obs o).subDone = false →
    (s.threads ts).pc.lateSub = some o

theorem invA_init (progs : List (List Call)) : InvA (init progs) := by
  constructor <;> simp [init, LocA]


/-- a step that changes only the stepping thread -/
theorem invA_thr {s : State} (h : InvA s) (t : Nat) (th' : Thread) (hl : LocA s.obs t th'.pc)
    (hown : ∀ o, (s.threads t).pc.lateSub = some o → th'.pc.lateSub = some o) :
    InvA { s with threads := setThr s t th' } := by
  obtain ⟨hloc, hmapSer, hmapNodup, hserLe, hserInj, hlive, hlogIns, hinsUsed, hsubIns, hfLive, howner⟩ := h
  constructor <;> try assumption
  · intro t'
    simp only [setThr]
    split
    · rename_i h; subst h; exact hl
    · exact hloc t'
  · intro o ts h1 h2 h3
    simp only [setThr]
    split
    · rename_i h; subst h; exact hown o (howner o ts h1 h2 h3)
    · exact howner o ts h1 h2 h3

set_option hygiene false in
macro "obs_case" : tactic => `(tactic|
  (obtain ⟨hloc, hmapSer, hmapNodup, hserLe, hserInj, hlive, hlogIns, hinsUsed, hsubIns, hfLive, howner⟩ := h
   constructor <;> simp only [setThr]
   · intro t'
     by_cases ht : t' = t
     · subst ht; simp only [if_true, LocA] <;> grind [setObs]
     · simp only [if_neg ht]
       refine LocA_mono ?_ ?_ ?_ (hloc t') <;> grind [setObs]
   all_goals grind [setObs, Pc.lateSub]))

theorem invA_step_idle {s s' : State} {t : Nat}  (h : InvA s)
    (hpc : (s.threads t).pc = .idle) (hs : stepT s t = some s') : InvA s' := by
  have hl := h.loc t
  simp only [stepT, hpc] at hs
  split at hs
  · simp at hs
  · simp at hs; subst hs
    exact invA_thr h t _ (by simp [LocA]) (by simp [hpc, Pc.lateSub])
  · split at hs
    · simp at hs
    · simp at hs; subst hs
      obs_case
  · simp at hs; subst hs
    exact invA_thr h t _ (by simp [LocA]) (by simp [hpc, Pc.lateSub])

theorem invA_step_r0 {s s' : State} {t : Nat} {k : _} {v : _} (h : InvA s)
    (hpc : (s.threads t).pc = .r0 k v) (hs : stepT s t = some s') : InvA s' := by
  have hl := h.loc t
  simp only [stepT, hpc, Option.some.injEq] at hs; subst hs
  obtain ⟨hloc, hmapSer, hmapNodup, hserLe, hserInj, hlive, hlogIns, hinsUsed, hsubIns, hfLive, howner⟩ := h
  constructor <;> simp only [setThr] <;> try assumption
  · intro t'; split
    · simp [LocA]
    · exact hloc t'
  · grind [Pc.lateSub]

theorem invA_step_nx0 {s s' : State} {t : Nat} {k : _} {v : _} (h : InvA s)
    (hpc : (s.threads t).pc = .nx0 k v) (hs : stepT s t = some s') : InvA s' := by
  have hl := h.loc t
  simp only [stepT, hpc, Option.some.injEq] at hs; subst hs
  refine invA_thr h t _ ?_ (by simp [hpc, Pc.lateSub])
  simp only [LocA]
  exact ⟨h.mapNodup, by grind [InvA]⟩

theorem invA_step_nxL {s s' : State} {t : Nat} {k : _} {v : _} {snap : _} (h : InvA s)
    (hpc : (s.threads t).pc = .nxL k v snap) (hs : stepT s t = some s') : InvA s' := by
  have hl := h.loc t
  rw [hpc] at hl; simp only [LocA] at hl
  cases snap with
  | nil =>
    simp only [stepT, hpc, Option.some.injEq] at hs; subst hs
    exact invA_thr h t _ (by simp [LocA]) (by simp [hpc, Pc.lateSub])
  | cons o rest =>
    simp only [stepT, hpc, Option.some.injEq] at hs; subst hs
    refine invA_thr h t _ ?_ (by simp [hpc, Pc.lateSub])
    dsimp only
    split <;> simp only [LocA] <;> grind

theorem invA_step_nxF {s s' : State} {t : Nat} {k : _} {v : _} {o : _} {rest : _} (h : InvA s)
    (hpc : (s.threads t).pc = .nxF k v o rest) (hs : stepT s t = some s') : InvA s' := by
  have hl := h.loc t
  rw [hpc] at hl; simp only [LocA] at hl
  simp only [stepT, hpc, Option.some.injEq] at hs; subst hs
  refine invA_thr h t _ ?_ (by simp [hpc, Pc.lateSub])
  dsimp only
  split <;> simp only [LocA] <;> grind

theorem invA_step_nxD {s s' : State} {t : Nat} {k : _} {v : _} {o : _} {rest : _} (h : InvA s)
    (hpc : (s.threads t).pc = .nxD k v o rest) (hs : stepT s t = some s') : InvA s' := by
  have hl := h.loc t
  rw [hpc] at hl; simp only [LocA] at hl
  simp only [stepT, hpc, Option.some.injEq] at hs; subst hs
  obs_case

theorem invA_step_s0 {s s' : State} {t : Nat} {o : _} (h : InvA s)
    (hpc : (s.threads t).pc = .s0 o) (hs : stepT s t = some s') : InvA s' := by
  have hl := h.loc t
  rw [hpc] at hl; simp only [LocA] at hl
  simp only [stepT, hpc, Option.some.injEq] at hs; subst hs
  refine invA_thr h t _ ?_ (by simp [hpc, Pc.lateSub])
  dsimp only
  split <;> simp only [LocA] <;> grind

theorem invA_step_s1 {s s' : State} {t : Nat} {o : _} (h : InvA s)
    (hpc : (s.threads t).pc = .s1 o) (hs : stepT s t = some s') : InvA s' := by
  have hl := h.loc t
  rw [hpc] at hl; simp only [LocA] at hl
  simp only [stepT, hpc, Option.some.injEq] at hs; subst hs
  obs_case

theorem invA_step_s2 {s s' : State} {t : Nat} {o : _} (h : InvA s)
    (hpc : (s.threads t).pc = .s2 o) (hs : stepT s t = some s') : InvA s' := by
  have hl := h.loc t
  rw [hpc] at hl; simp only [LocA] at hl
  simp only [stepT, hpc, Option.some.injEq] at hs; subst hs
  exact invA_thr h t _ (by simpa [LocA] using hl) (by simp [hpc, Pc.lateSub])

theorem invA_step_s3 {s s' : State} {t : Nat} {o : _} {hh : _} (h : InvA s)
    (hpc : (s.threads t).pc = .s3 o hh) (hs : stepT s t = some s') : InvA s' := by
  have hl := h.loc t
  rw [hpc] at hl; simp only [LocA] at hl
  simp only [stepT, hpc, Option.some.injEq] at hs; subst hs
  obs_case

theorem invA_step_s4 {s s' : State} {t : Nat} {o : _} {hh : _} (h : InvA s)
    (hpc : (s.threads t).pc = .s4 o hh) (hs : stepT s t = some s') : InvA s' := by
  have hl := h.loc t
  rw [hpc] at hl; simp only [LocA] at hl
  simp only [stepT, hpc, Option.some.injEq] at hs; subst hs
  obs_case

theorem invA_step_s5 {s s' : State} {t : Nat} {o : _} {hh : _} (h : InvA s)
    (hpc : (s.threads t).pc = .s5 o hh) (hs : stepT s t = some s') : InvA s' := by
  have hl := h.loc t
  rw [hpc] at hl; simp only [LocA] at hl
  simp only [stepT, hpc, Option.some.injEq] at hs; subst hs
  obtain ⟨hu, hi, hsd, hsome⟩ := hl
  obtain ⟨kk, hk⟩ := Option.isSome_iff_exists.mp hsome
  simp only [hk, Option.getD_some]
  obtain ⟨hloc, hmapSer, hmapNodup, hserLe, hserInj, hlive, hlogIns, hinsUsed, hsubIns, hfLive, howner⟩ := h
  have hnotin : o ∉ s.map.map (·.2) := by
    intro hin
    simp only [List.mem_map] at hin
    obtain ⟨⟨k, o'⟩, hm, rfl⟩ := hin
    have := (hmapSer k o' hm).2
    simp_all
  constructor <;> simp only [setThr]
  · intro t'
    by_cases ht : t' = t
    · subst ht; simp [LocA, setObs, hu, hsd]
    · simp only [if_neg ht]
      refine LocA_mono ?_ ?_ ?_ (hloc t') <;> grind [setObs]
  · intro k o' hm
    simp only [List.mem_append, List.mem_singleton, Prod.mk.injEq] at hm
    grind [setObs]
  · simp only [List.map_append, List.map_cons, List.map_nil]
    rw [List.nodup_append]
    refine ⟨hmapNodup, by simp, ?_⟩
    intro a ha b hb
    simp at hb; subst hb
    intro hab; subst hab; exact hnotin ha
  · grind [setObs]
  · grind [setObs]
  · intro o' h1 h2
    simp only [List.map_append, List.map_cons, List.map_nil, List.mem_append, List.mem_singleton]
    by_cases hoo : o' = o
    · exact .inr hoo
    · left; apply hlive <;> grind [setObs]
  · grind [setObs]
  · grind [setObs]
  · grind [setObs]
  · grind [setObs]
  · grind [setObs, Pc.lateSub]

theorem invA_step_s6 {s s' : State} {t : Nat} {o : _} {hh : _} (h : InvA s)
    (hpc : (s.threads t).pc = .s6 o hh) (hs : stepT s t = some s') : InvA s' := by
  have hl := h.loc t
  rw [hpc] at hl; simp only [LocA] at hl
  simp only [stepT, hpc, Option.some.injEq] at hs; subst hs
  exact invA_thr h t _ (by simpa [LocA] using hl) (by simp [hpc, Pc.lateSub])

theorem invA_step_s7 {s s' : State} {t : Nat} {o : _} {hh : _} (h : InvA s)
    (hpc : (s.threads t).pc = .s7 o hh) (hs : stepT s t = some s') : InvA s' := by
  have hl := h.loc t
  rw [hpc] at hl; simp only [LocA] at hl
  simp only [stepT, hpc, Option.some.injEq] at hs; subst hs
  exact invA_thr h t _ (by simpa [LocA] using hl) (by simp [hpc, Pc.lateSub])

theorem invA_step_s8 {s s' : State} {t : Nat} {o : _} {hh : _} (h : InvA s)
    (hpc : (s.threads t).pc = .s8 o hh) (hs : stepT s t = some s') : InvA s' := by
  have hl := h.loc t
  rw [hpc] at hl; simp only [LocA] at hl
  cases hh with
  | nil =>
    simp only [stepT, hpc, Option.some.injEq] at hs; subst hs
    exact invA_thr h t _ (by simpa [LocA] using hl) (by simp [hpc, Pc.lateSub])
  | cons x hh =>
    simp only [stepT, hpc, Option.some.injEq] at hs; subst hs
    refine invA_thr h t _ ?_ ?_
    · dsimp only
      split <;> simp only [LocA] <;> grind
    · dsimp only
      split <;> simp [hpc, Pc.lateSub]

theorem invA_step_s8d {s s' : State} {t : Nat} {o : _} {x : _} {hh : _} (h : InvA s)
    (hpc : (s.threads t).pc = .s8d o x hh) (hs : stepT s t = some s') : InvA s' := by
  have hl := h.loc t
  rw [hpc] at hl; simp only [LocA] at hl
  simp only [stepT, hpc, Option.some.injEq] at hs; subst hs
  obs_case

theorem invA_step_s9 {s s' : State} {t : Nat} {o : _} (h : InvA s)
    (hpc : (s.threads t).pc = .s9 o) (hs : stepT s t = some s') : InvA s' := by
  have hl := h.loc t
  rw [hpc] at hl; simp only [LocA] at hl
  simp only [stepT, hpc, Option.some.injEq] at hs; subst hs
  obs_case

theorem invA_step_u0 {s s' : State} {t : Nat} {o : _} (h : InvA s)
    (hpc : (s.threads t).pc = .u0 o) (hs : stepT s t = some s') : InvA s' := by
  have hl := h.loc t
  simp only [stepT, hpc, Option.some.injEq] at hs; subst hs
  obs_case

theorem invA_step_u1 {s s' : State} {t : Nat} {o : _} (h : InvA s)
    (hpc : (s.threads t).pc = .u1 o) (hs : stepT s t = some s') : InvA s' := by
  have hl := h.loc t
  rw [hpc] at hl; simp only [LocA] at hl
  simp only [stepT, hpc, Option.some.injEq] at hs; subst hs
  exact invA_thr h t _ (by simpa [LocA] using hl) (by simp [hpc, Pc.lateSub])

theorem invA_step_u2 {s s' : State} {t : Nat} {o : _} (h : InvA s)
    (hpc : (s.threads t).pc = .u2 o) (hs : stepT s t = some s') : InvA s' := by
  have hl := h.loc t
  rw [hpc] at hl; simp only [LocA] at hl
  simp only [stepT, hpc, Option.some.injEq] at hs; subst hs
  exact invA_thr h t _ (by simpa [LocA] using hl) (by simp [hpc, Pc.lateSub])

theorem invA_step_u7 {s s' : State} {t : Nat} {o : _} (h : InvA s)
    (hpc : (s.threads t).pc = .u7 o) (hs : stepT s t = some s') : InvA s' := by
  have hl := h.loc t
  rw [hpc] at hl; simp only [LocA] at hl
  simp only [stepT, hpc, Option.some.injEq] at hs; subst hs
  exact invA_thr h t _ (by simpa [LocA] using hl) (by simp [hpc, Pc.lateSub])

theorem invA_step_u8 {s s' : State} {t : Nat} {o : _} (h : InvA s)
    (hpc : (s.threads t).pc = .u8 o) (hs : stepT s t = some s') : InvA s' := by
  have hl := h.loc t
  rw [hpc] at hl; simp only [LocA] at hl
  simp only [stepT, hpc, Option.some.injEq] at hs; subst hs
  exact invA_thr h t _ (by simpa [LocA] using hl) (by simp [hpc, Pc.lateSub])

theorem invA_step_u3 {s s' : State} {t : Nat} {o : _} (h : InvA s)
    (hpc : (s.threads t).pc = .u3 o) (hs : stepT s t = some s') : InvA s' := by
  have hl := h.loc t
  rw [hpc] at hl; simp only [LocA] at hl
  simp only [stepT, hpc, Option.some.injEq] at hs; subst hs
  refine invA_thr h t _ ?_ (by simp [hpc, Pc.lateSub])
  dsimp only
  split <;> simp only [LocA] <;> grind

theorem invA_step_u4 {s s' : State} {t : Nat} {o : _} (h : InvA s)
    (hpc : (s.threads t).pc = .u4 o) (hs : stepT s t = some s') : InvA s' := by
  have hl := h.loc t
  rw [hpc] at hl; simp only [LocA] at hl
  simp only [stepT, hpc, Option.some.injEq] at hs; subst hs
  refine invA_thr h t _ ?_ (by simp [hpc, Pc.lateSub])
  dsimp only
  split <;> simp only [LocA] <;> grind

theorem invA_step_u9 {s s' : State} {t : Nat} {o : _} (h : InvA s)
    (hpc : (s.threads t).pc = .u9 o) (hs : stepT s t = some s') : InvA s' := by
  have hl := h.loc t
  rw [hpc] at hl; simp only [LocA] at hl
  simp only [stepT, hpc, Option.some.injEq] at hs; subst hs
  refine invA_thr h t _ ?_ (by simp [hpc, Pc.lateSub])
  dsimp only
  split <;> simp only [LocA] <;> grind

theorem invA_step_u5 {s s' : State} {t : Nat} {o : _} (h : InvA s)
    (hpc : (s.threads t).pc = .u5 o) (hs : stepT s t = some s') : InvA s' := by
  have hl := h.loc t
  rw [hpc] at hl; simp only [LocA] at hl
  simp only [stepT, hpc, Option.some.injEq] at hs; subst hs
  obtain ⟨hloc, hmapSer, hmapNodup, hserLe, hserInj, hlive, hlogIns, hinsUsed, hsubIns, hfLive, howner⟩ := h
  constructor <;> simp only [setThr]
  · intro t'
    by_cases ht : t' = t
    · subst ht; simp only [if_true]; split <;> simp only [LocA] <;> grind [setObs]
    · simp only [if_neg ht]
      refine LocA_mono ?_ ?_ ?_ (hloc t') <;> grind [setObs]
  all_goals grind [setObs, Pc.lateSub]

theorem invA_step_u6 {s s' : State} {t : Nat} {o : _} (h : InvA s)
    (hpc : (s.threads t).pc = .u6 o) (hs : stepT s t = some s') : InvA s' := by
  have hl := h.loc t
  rw [hpc] at hl; simp only [LocA] at hl
  simp only [stepT, hpc, Option.some.injEq] at hs; subst hs
  obs_case

theorem invA_step_u9r {s s' : State} {t : Nat} {o : _} (h : InvA s)
    (hpc : (s.threads t).pc = .u9r o) (hs : stepT s t = some s') : InvA s' := by
  have hl := h.loc t
  rw [hpc] at hl; simp only [LocA] at hl
  simp only [stepT, hpc, Option.some.injEq] at hs; subst hs
  obtain ⟨hloc, hmapSer, hmapNodup, hserLe, hserInj, hlive, hlogIns, hinsUsed, hsubIns, hfLive, howner⟩ := h
  constructor <;> simp only [setThr] <;> try assumption
  · intro t'
    by_cases ht : t' = t
    · subst ht; simpa [LocA] using hl
    · simp only [if_neg ht]; exact hloc t'
  · intro k o' hm
    exact hmapSer k o' (List.mem_filter.mp hm).1
  · exact hmapNodup.sublist ((List.filter_sublist).map _)
  · intro o' h1 h2
    have hin := hlive o' h1 h2
    simp only [List.mem_map] at hin ⊢
    obtain ⟨⟨k, o''⟩, hm, rfl⟩ := hin
    refine ⟨(k, o''), List.mem_filter.mpr ⟨hm, ?_⟩, rfl⟩
    have hk := (hmapSer k o'' hm).1
    simp only [bne_iff_ne, ne_eq]
    intro heq
    have := hserInj o o'' k heq.symm hk
    subst this
    rw [hl] at h2; exact Bool.noConfusion h2
  · grind [Pc.lateSub]

theorem invA_step_u9c {s s' : State} {t : Nat} {o : _} (h : InvA s)
    (hpc : (s.threads t).pc = .u9c o) (hs : stepT s t = some s') : InvA s' := by
  have hl := h.loc t
  rw [hpc] at hl; simp only [LocA] at hl
  simp only [stepT, hpc, Option.some.injEq] at hs; subst hs
  obs_case

theorem invA_step_u10 {s s' : State} {t : Nat} {o : _} (h : InvA s)
    (hpc : (s.threads t).pc = .u10 o) (hs : stepT s t = some s') : InvA s' := by
  have hl := h.loc t
  rw [hpc] at hl; simp only [LocA] at hl
  simp only [stepT, hpc, Option.some.injEq] at hs; subst hs
  obs_case


theorem invA_step_s10 {s s' : State} {t : Nat} {o : _} (h : InvA s)
    (hpc : (s.threads t).pc = .s10 o) (hs : stepT s t = some s') : InvA s' := by
  simp only [stepT, hpc, Option.some.injEq] at hs; subst hs
  refine invA_thr h t _ ?_ (by simp [hpc, Pc.lateSub])
  dsimp only
  split <;> simp only [LocA] <;> grind

theorem invA_step_e5 {s s' : State} {t : Nat} {o : _} (h : InvA s)
    (hpc : (s.threads t).pc = .e5 o) (hs : stepT s t = some s') : InvA s' := by
  have hl := h.loc t
  rw [hpc] at hl; simp only [LocA] at hl
  simp only [stepT, hpc, Option.some.injEq] at hs; subst hs
  obtain ⟨hloc, hmapSer, hmapNodup, hserLe, hserInj, hlive, hlogIns, hinsUsed, hsubIns, hfLive, howner⟩ := h
  constructor <;> simp only [setThr]
  · intro t'
    by_cases ht : t' = t
    · subst ht; simp only [if_true]; split <;> simp only [LocA] <;> grind [setObs]
    · simp only [if_neg ht]
      refine LocA_mono ?_ ?_ ?_ (hloc t') <;> grind [setObs]
  all_goals grind [setObs, Pc.lateSub]

theorem invA_step_e6 {s s' : State} {t : Nat} {o : _} (h : InvA s)
    (hpc : (s.threads t).pc = .e6 o) (hs : stepT s t = some s') : InvA s' := by
  have hl := h.loc t
  rw [hpc] at hl; simp only [LocA] at hl
  simp only [stepT, hpc, Option.some.injEq] at hs; subst hs
  obs_case

theorem invA_step_e7 {s s' : State} {t : Nat} {o : _} (h : InvA s)
    (hpc : (s.threads t).pc = .e7 o) (hs : stepT s t = some s') : InvA s' := by
  have hl := h.loc t
  rw [hpc] at hl; simp only [LocA] at hl
  simp only [stepT, hpc, Option.some.injEq] at hs; subst hs
  exact invA_thr h t _ (by simpa [LocA] using hl) (by simp [hpc, Pc.lateSub])

theorem invA_step_e8 {s s' : State} {t : Nat} {o : _} (h : InvA s)
    (hpc : (s.threads t).pc = .e8 o) (hs : stepT s t = some s') : InvA s' := by
  have hl := h.loc t
  rw [hpc] at hl; simp only [LocA] at hl
  simp only [stepT, hpc, Option.some.injEq] at hs; subst hs
  exact invA_thr h t _ (by simpa [LocA] using hl) (by simp [hpc, Pc.lateSub])

theorem invA_step_e9 {s s' : State} {t : Nat} {o : _} (h : InvA s)
    (hpc : (s.threads t).pc = .e9 o) (hs : stepT s t = some s') : InvA s' := by
  have hl := h.loc t
  rw [hpc] at hl; simp only [LocA] at hl
  simp only [stepT, hpc, Option.some.injEq] at hs; subst hs
  refine invA_thr h t _ ?_ (by simp [hpc, Pc.lateSub])
  dsimp only
  split <;> simp only [LocA] <;> grind

theorem invA_step_e9r {s s' : State} {t : Nat} {o : _} (h : InvA s)
    (hpc : (s.threads t).pc = .e9r o) (hs : stepT s t = some s') : InvA s' := by
  have hl := h.loc t
  rw [hpc] at hl; simp only [LocA] at hl
  simp only [stepT, hpc, Option.some.injEq] at hs; subst hs
  obtain ⟨hloc, hmapSer, hmapNodup, hserLe, hserInj, hlive, hlogIns, hinsUsed, hsubIns, hfLive, howner⟩ := h
  constructor <;> simp only [setThr] <;> try assumption
  · intro t'
    by_cases ht : t' = t
    · subst ht; simpa [LocA] using hl
    · simp only [if_neg ht]; exact hloc t'
  · intro k o' hm
    exact hmapSer k o' (List.mem_filter.mp hm).1
  · exact hmapNodup.sublist ((List.filter_sublist).map _)
  · intro o' h1 h2
    have hin := hlive o' h1 h2
    simp only [List.mem_map] at hin ⊢
    obtain ⟨⟨k, o''⟩, hm, rfl⟩ := hin
    refine ⟨(k, o''), List.mem_filter.mpr ⟨hm, ?_⟩, rfl⟩
    have hk := (hmapSer k o'' hm).1
    simp only [bne_iff_ne, ne_eq]
    intro heq
    have := hserInj o o'' k heq.symm hk
    subst this
    rw [hl] at h2; exact Bool.noConfusion h2
  · grind [Pc.lateSub]

theorem invA_step_e9c {s s' : State} {t : Nat} {o : _} (h : InvA s)
    (hpc : (s.threads t).pc = .e9c o) (hs : stepT s t = some s') : InvA s' := by
  have hl := h.loc t
  rw [hpc] at hl; simp only [LocA] at hl
  simp only [stepT, hpc, Option.some.injEq] at hs; subst hs
  obs_case


theorem invA_step {s s' : State} {t : Nat} (h : InvA s) (hs : stepT s t = some s') : InvA s' := by
  cases hpc : (s.threads t).pc with
  | idle => exact invA_step_idle h hpc hs
  | r0 k v => exact invA_step_r0 h hpc hs
  | nx0 k v => exact invA_step_nx0 h hpc hs
  | nxL k v snap => exact invA_step_nxL h hpc hs
  | nxF k v o rest => exact invA_step_nxF h hpc hs
  | nxD k v o rest => exact invA_step_nxD h hpc hs
  | s0 o => exact invA_step_s0 h hpc hs
  | s1 o => exact invA_step_s1 h hpc hs
  | s2 o => exact invA_step_s2 h hpc hs
  | s3 o hh => exact invA_step_s3 h hpc hs
  | s4 o hh => exact invA_step_s4 h hpc hs
  | s5 o hh => exact invA_step_s5 h hpc hs
  | s6 o hh => exact invA_step_s6 h hpc hs
  | s7 o hh => exact invA_step_s7 h hpc hs
  | s8 o hh => exact invA_step_s8 h hpc hs
  | s8d o x hh => exact invA_step_s8d h hpc hs
  | s9 o => exact invA_step_s9 h hpc hs
  | s10 o => exact invA_step_s10 h hpc hs
  | e5 o => exact invA_step_e5 h hpc hs
  | e6 o => exact invA_step_e6 h hpc hs
  | e7 o => exact invA_step_e7 h hpc hs
  | e8 o => exact invA_step_e8 h hpc hs
  | e9 o => exact invA_step_e9 h hpc hs
  | e9r o => exact invA_step_e9r h hpc hs
  | e9c o => exact invA_step_e9c h hpc hs
  | u0 o => exact invA_step_u0 h hpc hs
  | u1 o => exact invA_step_u1 h hpc hs
  | u2 o => exact invA_step_u2 h hpc hs
  | u7 o => exact invA_step_u7 h hpc hs
  | u8 o => exact invA_step_u8 h hpc hs
  | u3 o => exact invA_step_u3 h hpc hs
  | u4 o => exact invA_step_u4 h hpc hs
  | u9 o => exact invA_step_u9 h hpc hs
  | u5 o => exact invA_step_u5 h hpc hs
  | u6 o => exact invA_step_u6 h hpc hs
  | u9r o => exact invA_step_u9r h hpc hs
  | u9c o => exact invA_step_u9c h hpc hs
  | u10 o => exact invA_step_u10 h hpc hs


theorem invA_reachable {progs : List (List Call)} {s : State} (h : Reachable progs s) : InvA s := by
  induction h with
  | init => exact invA_init progs
  | step _ hs ih =>
    simp only [step] at hs
    split at hs
    · exact invA_step ih hs
    · simp at hs

/-- in a quiet state in which some thread is inside `next`, every inserted forwarder belongs to an observer whose
`subscribe` call has returned -/
theorem InvA.subDone_of_quiet {s : State} (h : InvA s) (hq : s.quiet) {t : Nat} (ht : (s.threads t).pc.inNext = true)
    {o : Nat} (hins : (s.obs o).ins = true) : (s.obs o).subDone = true := by
  cases hsd : (s.obs o).subDone with
  | true => rfl
  | false =>
    obtain ⟨ts, hts⟩ := Option.isSome_iff_exists.mp (h.insUsed o hins)
    exact (hq ts t (Pc.inSub_of_lateSub (h.owner o ts hts hins hsd)) ht).elim

end Rx.Conc.Replay
