import RxVerif.Theorems.C13RefReplaySub
/-
C13-REF, replay: `subscribe` of a test user, part 2: everything after `subject.observable().subscribe(..)` has
registered the forwarder and the `on_subscribe` hook has run — the replay of the snapshot, the stored terminal,
storing `sbsc`, and (replay_subject.rs:95-99) taking the forwarder down again if the subscriber was ended.
-/
namespace Rx.CRef
open Rx.Sim Rx.SubjM Rx.Ref Rx.RefR

theorem URr.ready {L cobs cacs unst Hd cg sb cn w n} {s : SubjM.State}
    (hur : URr L cobs cacs (some n) unst Hd cg sb cn w s) :
    URr L cobs cacs none unst Hd cg sb cn (w.setUser n fun u => { u with ready := true }) s := by
  obtain ⟨g, U, X⟩ := hur
  have g' : Glob (L.roots ++ L.fwds) cobs (w.setUser n fun u => { u with ready := true }) :=
    ⟨g.status, g.nObs, g.rootsLt, g.cobsLt, g.nodup⟩
  refine ⟨g', ?_, { X with }⟩
  exact
    { U with
      nUsers := by simp [World.setUser, U.nUsers]
      users := fun u hu => by
        have UU := U.users u hu
        obtain ⟨rd, h1, h2⟩ := UU.user
        refine { UU with user := ?_ }
        by_cases e : u = n
        · subst e; exact ⟨true, by rw [users_modify_same _ h1], fun _ => rfl⟩
        · exact ⟨rd, by rw [users_modify_other _ e]; exact h1, fun _ => h2 (fun x => e (Option.some.inj x).symm)⟩ }

theorem RelRp.ready {L cobs cacs armed unst Hd w st n} (h : RelRp L cobs cacs armed (some n) unst Hd w st) :
    RelRp L cobs cacs armed none unst Hd (w.setUser n fun u => { u with ready := true }) st :=
  ⟨h.ur.ready.1, h.held, h.ur.ready, h.conns.frame rfl rfl (fun _ _ => rfl) (fun _ _ => rfl)⟩

/-- the stored-terminal program of replay_subject.rs:77-83, in the form `RSubj.observable` unfolds to -/
def termProgR (we : Option Nat) (wc : Bool) (o : Nat) : Prog :=
  match (Data.optEnc (we.map fun (e : Nat) => Data.int (e : Int))).optDec with
  | some e => Prog.obsError o e.toInt.toNat .done
  | none => if wc = true then Prog.obsComplete o .done else .done

/-- `cellNew a; sbsc = Some(live); if !s.is_subscribed() { live.unsubscribe() }` -/
def storeProgR (root fwd sb : Nat) : Prog :=
  .cellNew (.bool true) fun a =>
    .cellWrite sb false (.pair (.int (fwd : Nat)) (.int (a : Nat))) <|
    .obsIsSub root fun alive =>
      if alive then .done else subUnsub (.pair (.int (fwd : Nat)) (.int (a : Nat)))

theorem logOf_trace_evs (w : World) (evs : List Ev) (n u : Nat) :
    logOf { w with trace := w.trace ++ evs.map (Rec.ev n) } u = logOf w u ++ if n = u then evs else [] := by
  rw [logOf_trace_append, logOf_evs]

theorem probesOf_evs (t : List Rec) (n : Nat) (evs : List Ev) :
    (t ++ evs.map (Rec.ev n)).filter isProbe = t.filter isProbe := by
  rw [List.filter_append]
  have : (evs.map (Rec.ev n)).filter isProbe = [] := by
    rw [List.filter_eq_nil_iff]; intro r hr; obtain ⟨e, _, rfl⟩ := List.mem_map.1 hr; simp [isProbe]
  rw [this, List.append_nil]

theorem subscribeTailG_spec (F : RFam) {L cobs cacs armed w st n s1} (l : Option Nat) {root fwd sb : Nat}
    (e1 : root = rootAt L.roots n) (e2 : fwd = rootAt L.fwds n) (e3 : sb = rootAt L.sbs n)
    (h : F.Rel L cobs cacs armed (some n) (some n) [] w st) (hr : st.sub.obs n = regRec s1) :
    WP ((forEach st.sub.items fun x => .obsNext root x .done) ;;
        termProgR st.sub.wasError st.sub.wasCompleted root) w (fun w3 =>
      WP (storeProgR root fwd sb) w3 (fun w4 =>
        WP (.userReady n .done) w4 (fun w' => ∃ L' armed', L'.roots = L.roots ∧
          F.Rel L' cobs cacs armed' none none [] w'
            (ConnM.onUnsubscribe
              { st with sub := (subscribeB .replay st.sub n { fresh := true, len := l, history := st.sub.items }).1 }
              (subscribeB .replay st.sub n { fresh := true, len := l, history := st.sub.items }).2)))) := by
  subst e1 e2 e3
  obtain ⟨g, U, X⟩ := F.ur h
  have hn : n + 1 = L.roots.length := U.unstLast n rfl
  have hnl : n < L.roots.length := by omega
  have hlf : n < L.fwds.length := U.lenF ▸ hnl
  have UN := U.users n hnl
  rw [hr] at UN
  obtain ⟨rd, hun, _⟩ := UN.user
  have hroot : w.obs[rootAt L.roots n]? = some (rootOfL (rootAt L.sbs n) n (regRec s1)) := UN.root
  have hne : rootAt L.fwds n ≠ rootAt L.roots n := fun e => GlobR.root_ne_fwd g hnl hlf e.symm
  have hsbn := U.sb_ge hnl
  have h9 : 9 < w.cells.length := lt_of_getElem?_some X.cellN
  have hlog0 : logOf w n = [] := by rw [UN.log]; rfl
  rw [subscribeB_replay_eq _ _ _ _ _ hr]
  refine WP.seq ?_
  refine (replayLoop_spec st.sub.items (rootAt L.roots n) n w _ _ hroot rfl rfl rfl hun rfl).conseq ?_
  intro w6 hw6
  subst hw6
  have hroot6 : ({ w with trace := w.trace ++ List.map (fun x => Rec.ev n (Ev.next x)) st.sub.items } :
      World).obs[rootAt L.roots n]? = some (rootOfL (rootAt L.sbs n) n (regRec s1)) := hroot
  have hun6 : ({ w with trace := w.trace ++ List.map (fun x => Rec.ev n (Ev.next x)) st.sub.items } :
      World).users[n]? = some ⟨rootAt L.roots n, noReact, rd, (regRec s1).hook⟩ := hun
  unfold termProgR
  refine (termProg_spec st.sub.wasError st.sub.wasCompleted (rootAt L.roots n) n _ _ _
    hroot6 rfl rfl rfl hun6 rfl).conseq ?_
  intro w7 hw7
  subst hw7
  cases hterm : termOf st.sub.wasError st.sub.wasCompleted with
  | none =>
    dsimp only
    unfold storeProgR
    refine wp_cellNew ?_
    refine wp_cellWrite X.held ?_
    refine wp_obsIsSub (show _ = some _ from hroot) ?_
    simp only [rootOfL, regRec, Obs.isSub, cbN, cbE, cbC, ↓reduceIte, Option.isSome_some, Bool.and_self]
    refine WP.done (wp_userReady (WP.done ⟨L.store w.cells.length, armed, rfl, ?_⟩))
    rw [onUnsubscribe_none]
    refine F.ready ?_
    refine F.storeUser h _ (liveRecS s1 st.sub.items) st.sub.observers rfl rfl rfl rfl rfl (by simp)
      ?_ ?_ ?_ ?_ rfl (fun _ _ _ => rfl) ?_ ?_ ?_ ?_ (by rw [hr]; rfl) rfl (fun hh => by cases hh) U.keys U.regBound ?_
    · show ((w.cells ++ [_]).set _ _)[2]? = _
      rw [set_get_other _ (by omega), get_app_lt _ _ _ (by omega)]; exact U.cellO
    · intro i h2 hsb hi
      show ((w.cells ++ [_]).set _ _)[i]? = _
      rw [set_get_other _ (Ne.symm hsb), get_app_lt _ _ _ hi]
    · show ((w.cells ++ [_]).set _ _)[_]? = _
      rw [set_get_same (x := Data.lnil) _ (by rw [get_app_lt _ _ _ hsbn.2]; have := UN.sb; simpa using this)]
      simp [handleL, LayR.store]
      rw [← (show L.acs.length = n by have := U.lenA; simp at this; omega), rootAt_append_last]
    · show ((w.cells ++ [_]).set _ _)[w.cells.length]? = _
      rw [set_get_other _ (by omega), get_app0]; rfl
    · intro u hu
      show logOf { w with trace := _ } u = _
      have := logOf_trace_evs w (st.sub.items.map .next) n u
      simp only [List.map_map] at this
      rw [show (fun x => Rec.ev n (Ev.next x)) = (Rec.ev n ∘ Ev.next) from rfl, this]
      simp [show ¬ n = u from fun e => hu e.symm]
    · rw [show (liveRecS s1 st.sub.items) = { regRec s1 with armed := true, log := st.sub.items.map .next } from rfl]
      exact hroot
    · rw [show fwdOfL (rootAt L.roots n) (liveRecS s1 st.sub.items) = fwdOfL (rootAt L.roots n) (regRec s1) from rfl]
      exact UN.fwd
    · show logOf { w with trace := _ } n = _
      have := logOf_trace_evs w (st.sub.items.map .next) n n
      simp only [List.map_map] at this
      rw [show (fun x => Rec.ev n (Ev.next x)) = (Rec.ev n ∘ Ev.next) from rfl, this, hlog0]
      simp [liveRecS]
    · show List.filter isProbe (w.trace ++ _) = _
      have := probesOf_evs w.trace n (st.sub.items.map .next)
      simp only [List.map_map] at this
      exact this
  | some t =>
    have ht := termOf_terminal hterm
    dsimp only
    simp only [World.deliverTo, ht, ↓reduceIte]
    dsimp only [World.setObs, World.emit]
    unfold storeProgR
    refine wp_cellNew ?_
    refine wp_cellWrite X.held ?_
    dsimp only
    have hroot7 : (w.obs.modify (rootAt L.roots n) Obs.cleared)[rootAt L.roots n]? =
        some ⟨none, none, none, some (rootHookL (rootAt L.sbs n))⟩ := by
      rw [modify_get_same _ _ hroot]; simp [rootOfL, regRec, Obs.cleared, cbN, cbE, cbC]
    refine wp_obsIsSub (show _ = some _ from hroot7) ?_
    simp only [Obs.isSub, Option.isSome_none, Bool.and_self, Bool.false_eq_true, ↓reduceIte, subUnsub,
      Int.toNat_natCast]
    refine wp_cellRead X.held ?_
    dsimp only
    rw [set_get_other _ (by omega), get_app0]
    simp only [List.getElem?_cons_zero, Option.getD_some, toBool_bool, ↓reduceIte]
    refine wp_cellWrite X.held ?_
    dsimp only
    have hfwd7 : (w.obs.modify (rootAt L.roots n) Obs.cleared)[rootAt L.fwds n]? =
        some (fwdOfL (rootAt L.roots n) (regRec s1)) := by
      rw [modify_get_other _ _ (Ne.symm hne)]; exact UN.fwd
    refine wp_obsUnsub_some (f := hookProg Sp (s1 : Int)) (show _ = some _ from hfwd7) (by simp [fwdOfL, regRec]) ?_
    dsimp only [World.setObs]
    have hc2 : ((((w.cells ++ [Data.bool true]).set (rootAt L.sbs n)
        (.pair (.int (rootAt L.fwds n : Nat)) (.int (w.cells.length : Nat)))).set w.cells.length (.bool false)))[2]? =
        some (encMap (mapL L st.sub.observers)) := by
      rw [set_get_other _ (by omega), set_get_other _ (by omega), get_app_lt _ _ _ (by omega)]; exact U.cellO
    refine hookProg_pre (obsl := mapL L st.sub.observers) (SlotReads.of_nil X.held) (show _ = some _ from hc2) ?_
    rw [mapL_filter]
    have hlen : (mapL L (st.sub.observers.filter fun p => p.1 != s1)).length =
        (st.sub.observers.filter fun p => p.1 != s1).length := by simp [mapL]
    rw [hlen]
    dsimp only
    -- the relation before the `on_unsubscribe` hook
    have hacsl : L.acs.length = n := by have := U.lenA; simp at this; omega
    have hR := F.storeUser h
      { obs := (w.obs.modify (rootAt L.roots n) Obs.cleared).modify (rootAt L.fwds n)
          (fun x => { x.cleared with onUnsub := none })
        slots := w.slots
        cells := (((w.cells ++ [Data.bool true]).set (rootAt L.sbs n)
          (.pair (.int (rootAt L.fwds n : Nat)) (.int (w.cells.length : Nat)))).set w.cells.length (.bool false)).set
          2 (encMap (mapL L (st.sub.observers.filter fun p => p.1 != s1)))
        obsvs := w.obsvs, users := w.users, held := w.held
        trace := w.trace ++ List.map (fun x => Rec.ev n (Ev.next x)) st.sub.items ++ [Rec.ev n t]
        status := w.status }
      (deadRec st.sub.items t) (st.sub.observers.filter fun p => p.1 != s1) rfl rfl rfl rfl (by simp) (by simp)
      (set_get_same _ hc2)
      (fun i h2 hsb hi => by
        show ((((w.cells ++ [_]).set _ _).set _ _).set _ _)[i]? = _
        rw [set_get_other _ (Ne.symm h2), set_get_other _ (by omega), set_get_other _ (Ne.symm hsb),
          get_app_lt _ _ _ hi])
      (by
        show ((((w.cells ++ [_]).set _ _).set _ _).set _ _)[_]? = _
        rw [set_get_other _ (by omega), set_get_other _ (by omega),
          set_get_same (x := Data.lnil) _ (by rw [get_app_lt _ _ _ hsbn.2]; have := UN.sb; simpa using this)]
        simp only [handleL, LayR.store]
        rw [← hacsl, rootAt_append_last])
      (by
        show ((((w.cells ++ [_]).set _ _).set _ _).set _ _)[_]? = _
        rw [set_get_other _ (by omega),
          set_get_same (x := Data.bool true) _ (by rw [set_get_other _ (by omega), get_app0]; rfl)]
        rfl)
      rfl
      (fun i h1 h2 => by
        show ((w.obs.modify _ _).modify _ _)[i]? = _
        rw [modify_get_other _ _ (Ne.symm h2), modify_get_other _ _ (Ne.symm h1)])
      (fun u hu => by
        show logOf { w with trace := _ } u = _
        have := logOf_trace_evs w (st.sub.items.map .next ++ [t]) n u
        simp only [List.map_append, List.map_map, List.map_cons, List.map_nil, ← List.append_assoc] at this
        rw [show (fun x => Rec.ev n (Ev.next x)) = (Rec.ev n ∘ Ev.next) from rfl, this]
        simp [show ¬ n = u from fun e => hu e.symm])
      (by
        show ((w.obs.modify _ _).modify _ _)[_]? = _
        rw [modify_get_other _ _ hne, hroot7]; simp [rootOfL, deadRec, cbN, cbE, cbC])
      (by
        show ((w.obs.modify _ _).modify _ _)[_]? = _
        rw [modify_get_same _ _ hfwd7]; simp [fwdOfL, deadRec, regRec, Obs.cleared])
      (by
        show logOf { w with trace := _ } n = _
        have := logOf_trace_evs w (st.sub.items.map .next ++ [t]) n n
        simp only [List.map_append, List.map_map, List.map_cons, List.map_nil, ← List.append_assoc] at this
        rw [show (fun x => Rec.ev n (Ev.next x)) = (Rec.ev n ∘ Ev.next) from rfl, this, hlog0]
        simp [deadRec])
      (by rw [hr]; rfl) rfl (fun hh => by cases hh)
      (fun p hp => U.keys p (List.mem_filter.1 hp).1) (fun p hp => U.regBound p (List.mem_filter.1 hp).1)
      (by
        show List.filter isProbe (w.trace ++ _ ++ [Rec.ev n t]) = _
        have := probesOf_evs w.trace n (st.sub.items.map .next ++ [t])
        simp only [List.map_append, List.map_map, List.map_cons, List.map_nil, ← List.append_assoc] at this
        exact this)
    unfold slotTail
    refine wp_lockedSlotCall_someG (SlotReads.of_nil X.held) (show _ = some (some _) from (F.ur hR).2.2.slot3) ?_
    dsimp only
    rw [X.held]
    have hmid := F.held_swap hR (Hd' := [(LockId.slot 3, false)]) (w' := _) rfl (SlotReads.nil.cons 3)
    refine (F.onUnsubHook hmid _).conseq ?_
    rintro w5 ⟨armed', h5⟩
    refine wp_lockRel (WP.done (WP.done ?_))
    have hrel : w5.release (LockId.slot Sp.onUnsub) = { w5 with held := [] } :=
      release_single w5 _ false (F.ur h5).2.2.held
    rw [hrel]
    refine wp_userReady (WP.done ⟨L.store w.cells.length, armed', rfl, ?_⟩)
    exact F.ready (F.held_swap h5 rfl SlotReads.nil)

end Rx.CRef
