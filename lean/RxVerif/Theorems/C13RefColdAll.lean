import RxVerif.Theorems.C13RefColdReplayMain
import RxVerif.Machine.Case
/-
C13-REF over a COLD synchronous source, closing file.

  publish_refines_cold     (C13RefColdPublishMain)  ∃ w, FinalPc  script cs w ∧ AgreesCold w (ConnM.run .publish  (.cold script) cs)
  refCount_refines_cold    (C13RefColdCountMain)    ∃ w, FinalCc  script cs w ∧ AgreesCold w (ConnM.run .refCount (.cold script) cs)
  replayConn_refines_cold  (C13RefColdReplayMain)   ∃ w, FinalRpc script cs w ∧ AgreesCold w (ConnM.run .replay   (.cold script) cs)

for every script and every `wfC 0 cs` call sequence.  RESTRICTIONS: recording (passive) observers attached directly —
re-entrant calls from inside a callback are out of scope (so `cancelled` never becomes true in these runs,
`ConnM.never_cancelled`; the hook lemmas nevertheless cover the `cancelled` branch); the cold source is the harness'
`(cold 0 ev…)` = `oScript 0 true script` (polite: asks `is_subscribed()` before each event; never installs a teardown);
`srcSubs` / `srcLive` are read off the observers recorded by the source's probe (`coldSubsOf`, `coldLiveOf` = what
`Rx.stashed` / `observe` of Machine/Case.lean print), the other fields of `AgreesCold` are those of `AgreesC`.

NOTE on model A (Machine/Subjects.lean `RSubj.observable`): it reads `was_error` / `was_completed` BEFORE
`subject.observable().subscribe(..)`, i.e. before the `on_subscribe` hook; replay_subject.rs:70-84 and `SubjM.subscribeH`
read them inside the closure `f` of `ready_set_go`, i.e. AFTER the live subscription and the hook.  Over a cold source
the hook of the first subscriber emits, so the two orders read different values.  `replayConn_refines_cold` shows the
difference cannot be observed by passive subscribers: whenever the values differ the script has already ended the
subscriber, for which the stored terminal is a no-op (`subscribeB_fire_dead`, `ConnM.handOver_dead`).
-/
namespace Rx.CRef
open Rx.Sim Rx.SubjM Rx.Ref Rx.RefR

/-- `coldObs` is the case runner's `stashed` -/
theorem coldObs_eq_stashed (w : World) : coldObs w = Rx.stashed w := by
  rw [coldObs_eq]; unfold Rx.stashed
  induction w.trace with
  | nil => rfl
  | cons r rest ih =>
    simp only [List.filterMap_cons, ih]
    cases r with
    | ev s e => rfl
    | probe t d => cases d <;> rfl

theorem finalRpc_agrees {script cs w} (hwf : wfC 0 cs = true) (h : FinalRpc script cs w) :
    AgreesCold w (ConnM.run .replay (.cold script) cs) := by
  obtain ⟨w', hf, ha⟩ := replayConn_refines_cold script cs hwf
  rw [h.unique hf]; exact ha

theorem finalCc_agrees {script cs w} (hwf : wfC 0 cs = true) (h : FinalCc script cs w) :
    AgreesCold w (ConnM.run .refCount (.cold script) cs) := by
  obtain ⟨w', hf, ha⟩ := refCount_refines_cold script cs hwf
  rw [h.unique hf]; exact ha

/-- **`at_most_one_source_subscription` / `ref_count_first_last` on model A**, ref_count over a cold source -/
theorem machine_refCount_cold_first_last (script : List Ev) (cs : List ConnM.Call) (hwf : wfC 0 cs = true) {w : World}
    (h : FinalCc script cs w) :
    coldSubsOf w = (if cs.any ConnM.isSubscribe then 1 else 0) ∧ coldSubsOf w ≤ 1 ∧
    (coldLiveOf w = true → ∃ o, w.isSubOf o = true) := by
  have a := finalCc_agrees hwf h
  have r := ConnM.ref_count_first_last (k := .refCount) rfl (.cold script) cs
  refine ⟨by rw [a.srcSubs]; exact r.1,
    by rw [a.srcSubs]; exact ConnM.at_most_one_source_subscription rfl (.cold script) cs, ?_⟩
  intro hl
  rw [a.srcLive] at hl
  obtain ⟨o, _, ho⟩ := r.2 hl
  exact ⟨o, by rw [a.alive]; exact ho⟩

/-- the same for replay -/
theorem machine_replay_cold_first_last (script : List Ev) (cs : List ConnM.Call) (hwf : wfC 0 cs = true) {w : World}
    (h : FinalRpc script cs w) :
    coldSubsOf w = (if cs.any ConnM.isSubscribe then 1 else 0) ∧ coldSubsOf w ≤ 1 ∧
    (coldLiveOf w = true → ∃ o, w.isSubOf o = true) := by
  have a := finalRpc_agrees hwf h
  have r := ConnM.ref_count_first_last (k := .replay) rfl (.cold script) cs
  refine ⟨by rw [a.srcSubs]; exact r.1,
    by rw [a.srcSubs]; exact ConnM.at_most_one_source_subscription rfl (.cold script) cs, ?_⟩
  intro hl
  rw [a.srcLive] at hl
  obtain ⟨o, _, ho⟩ := r.2 hl
  exact ⟨o, by rw [a.alive]; exact ho⟩

/-- **`replay_complete_history` on model A**, cold source: the first subscriber got the items live, every later one
    from the history — all end up with exactly the items the source observer accepted -/
theorem machine_replay_cold_complete_history (script : List Ev) (cs : List ConnM.Call) (hwf : wfC 0 cs = true)
    {w : World} (h : FinalRpc script cs w) :
    (∀ o, w.isSubOf o = true → logOf w o = (ConnM.run .replay (.cold script) cs).emitted.map .next) ∧
    (∀ o, SubjM.nonTerminal (logOf w o) = false →
      ConnM.itemsOf (logOf w o) = (ConnM.run .replay (.cold script) cs).emitted) ∧
    (∀ o, ConnM.itemsOf (logOf w o) <+: (ConnM.run .replay (.cold script) cs).emitted) := by
  have a := finalRpc_agrees hwf h
  have r := ConnM.replay_complete_history (.cold script) cs
  refine ⟨fun o ho => ?_, fun o ho => ?_, fun o => ?_⟩
  · rw [a.logs]; exact r.2.1 o (by rw [← a.alive]; exact ho)
  · rw [a.logs] at ho ⊢; exact r.2.2.1 o ho
  · rw [a.logs]; exact r.2.2.2 o

/-! ### non-vacuity (both sides evaluated) -/

def scriptT : List Ev := [.next (.int 1), .next (.int 2), .complete, .next (.int 3)]
def scriptN : List Ev := [.next (.int 1), .next (.int 2)]

def demoPc : List ConnM.Call := [.subscribe 0, .connect, .subscribe 1, .connect, .unsubscribe 0, .disconnect]
def demoCc : List ConnM.Call := [.subscribe 0, .subscribe 1, .unsubscribe 0, .unsubscribe 1, .subscribe 2]

example : wfC 0 demoPc = true ∧ wfC 0 demoCc = true := by decide

/-- publish: every `connect()` replays the script to whoever is subscribed; the terminal ends them -/
example : (run 6000 [progPc scriptT demoPc] {}).status = .ok ∧
    (List.range 2).map (logOf (run 6000 [progPc scriptT demoPc] {})) =
      [[.next (.int 1), .next (.int 2), .complete], [.next (.int 1), .next (.int 2), .complete]] ∧
    (List.range 2).map (ConnM.logOf (ConnM.run .publish (.cold scriptT) demoPc)) =
      [[.next (.int 1), .next (.int 2), .complete], [.next (.int 1), .next (.int 2), .complete]] ∧
    coldSubsOf (run 6000 [progPc scriptT demoPc] {}) = 2 ∧
    ConnM.sourceSubscriptions (ConnM.run .publish (.cold scriptT) demoPc) = 2 := by decide +kernel

/-- ref_count: only the first subscriber sees the script (it runs inside its `subscribe`); the source subscription
    lives until the last subscriber leaves and is never made again -/
example : (run 9000 [progRCc scriptN demoCc] {}).status = .ok ∧
    (List.range 3).map (logOf (run 9000 [progRCc scriptN demoCc] {})) = [[.next (.int 1), .next (.int 2)], [], []] ∧
    (List.range 3).map (ConnM.logOf (ConnM.run .refCount (.cold scriptN) demoCc)) =
      [[.next (.int 1), .next (.int 2)], [], []] ∧
    coldSubsOf (run 9000 [progRCc scriptN demoCc] {}) = 1 ∧
    ConnM.sourceSubscriptions (ConnM.run .refCount (.cold scriptN) demoCc) = 1 ∧
    coldLiveOf (run 9000 [progRCc scriptN (demoCc.take 2)] {}) = true ∧
    ConnM.sourceLive (ConnM.run .refCount (.cold scriptN) (demoCc.take 2)) = true ∧
    coldLiveOf (run 9000 [progRCc scriptN demoCc] {}) = false ∧
    ConnM.sourceLive (ConnM.run .refCount (.cold scriptN) demoCc) = false := by decide +kernel

/-- replay: the first subscriber gets the script live, the later ones from the history (with the stored terminal) -/
example : (run 12000 [progRpc scriptT demoCc] {}).status = .ok ∧
    (List.range 3).map (logOf (run 12000 [progRpc scriptT demoCc] {})) =
      [[.next (.int 1), .next (.int 2), .complete], [.next (.int 1), .next (.int 2), .complete],
       [.next (.int 1), .next (.int 2), .complete]] ∧
    (List.range 3).map (ConnM.logOf (ConnM.run .replay (.cold scriptT) demoCc)) =
      [[.next (.int 1), .next (.int 2), .complete], [.next (.int 1), .next (.int 2), .complete],
       [.next (.int 1), .next (.int 2), .complete]] ∧
    regCountOf (run 12000 [progRpc scriptT demoCc] {}) = 0 ∧
    (registered (ConnM.run .replay (.cold scriptT) demoCc).sub).length = 0 := by decide +kernel

example : (List.range 3).map (logOf (run 12000 [progRpc scriptN demoCc] {})) =
      [[.next (.int 1), .next (.int 2)], [.next (.int 1), .next (.int 2)], [.next (.int 1), .next (.int 2)]] ∧
    (List.range 3).map (ConnM.logOf (ConnM.run .replay (.cold scriptN) demoCc)) =
      [[.next (.int 1), .next (.int 2)], [.next (.int 1), .next (.int 2)], [.next (.int 1), .next (.int 2)]] ∧
    regCountOf (run 12000 [progRpc scriptN demoCc] {}) = 1 ∧
    (registered (ConnM.run .replay (.cold scriptN) demoCc).sub).length = 1 := by decide +kernel

example : ∃ w, FinalPc scriptT demoPc w := let ⟨w, h, _⟩ := publish_refines_cold scriptT demoPc (by decide); ⟨w, h⟩
example : ∃ w, FinalCc scriptN demoCc w := let ⟨w, h, _⟩ := refCount_refines_cold scriptN demoCc (by decide); ⟨w, h⟩
example : ∃ w, FinalRpc scriptT demoCc w := let ⟨w, h, _⟩ := replayConn_refines_cold scriptT demoCc (by decide); ⟨w, h⟩

#print axioms publish_refines_cold
#print axioms refCount_refines_cold
#print axioms replayConn_refines_cold
#print axioms machine_refCount_cold_first_last
#print axioms machine_replay_cold_first_last
#print axioms machine_replay_cold_complete_history

end Rx.CRef
