import RxVerif.Kernel.Run
import RxVerif.Spec.Single
/-
C02 (first half): every single-source operator kernel of `Kernel/Basic.lean`, run against a cold polite
source (`Kernel.run`), produces exactly the ReactiveX list function of `Spec/Single.lean` — for all item
lists, all three endings and all parameters.  Each proof goes through a generalised lemma about
`Kernel.feed` from an arbitrary intermediate state, proved by induction on the item list, which
determines the COMPLETE run record (`alive`, `cancelled`, `registered`, `out`); the C06 companions
(`<op>_cancels`) are read off the same lemmas.
-/
namespace Rx.C02
open Rx

/-! ### run records -/

/-- a run record whose downstream is still subscribed and whose upstream has not been cancelled -/
def live (g : Bool) (acc : List Ev) : KRun :=
  { alive := true, cancelled := false, registered := g, out := acc }

/-- the record after the operator itself terminated the stream from inside `onNext` -/
def stopped (acc : List Ev) : KRun :=
  { alive := false, cancelled := true, registered := false, out := acc }

theorem init_live : ({} : KRun) = live true [] := rfl

theorem run_eq {σ} (K : Kernel σ) (s : Stream) :
    K.run s = (K.runFull s).out := rfl

theorem runFull_eq {σ} (K : Kernel σ) (s : Stream) :
    K.runFull s = K.finish (K.feed K.init {} s.1).1 (K.feed K.init {} s.1).2 s.2 := rfl

/-- a cancelled upstream delivers nothing more -/
theorem feed_cancelled {σ} (K : Kernel σ) (st : σ) (r : KRun) (xs : List Data)
    (h : r.cancelled = true) : K.feed st r xs = (st, r) := by
  cases xs <;> simp [Kernel.feed, h]

theorem feed_nil {σ} (K : Kernel σ) (st : σ) (r : KRun) : K.feed st r [] = (st, r) := rfl

/-- one item delivered to a live, un-cancelled operator -/
theorem feed_cons {σ} (K : Kernel σ) (st : σ) (g : Bool) (acc : List Ev) (x : Data) (xs : List Data) :
    K.feed st (live g acc) (x :: xs)
      = K.feed (K.onNext st x).1 ((live g acc).acts (K.onNext st x).2) xs := by
  simp [Kernel.feed, live]

theorem feed_stopped {σ} (K : Kernel σ) (st : σ) (acc : List Ev) (xs : List Data) :
    K.feed st (stopped acc) xs = (st, stopped acc) :=
  feed_cancelled K st _ xs rfl

theorem finish_stopped {σ} (K : Kernel σ) (st : σ) (acc : List Ev) (e : Ending) :
    K.finish st (stopped acc) e = stopped acc := by
  cases e <;> simp [Kernel.finish, stopped]

/-- the record after the source's own terminal went through the default `onError` / `onComplete` -/
def ended (g : Bool) (acc : List Ev) : Ending → KRun
  | .silent => live g acc
  | .complete => { alive := false, cancelled := false, registered := false, out := acc ++ [.complete] }
  | .error e => { alive := false, cancelled := g, registered := false, out := acc ++ [.error e] }

theorem ended_out (g : Bool) (acc : List Ev) (e : Ending) : (ended g acc e).out = acc ++ e.toEvs := by
  cases e <;> simp [ended, live, Ending.toEvs]

/-- C06 shape of `ended`: dead only because the source delivered a terminal -/
theorem ended_alive (g : Bool) (acc : List Ev) (e : Ending) :
    (ended g acc e).alive = false → e ≠ .silent := by
  cases e <;> simp [ended, live]

/-- finishing a live run of a kernel that forwards the source's terminals unchanged -/
theorem finish_live {σ} (K : Kernel σ) (st : σ) (g : Bool) (acc : List Ev) (e : Ending)
    (hc : (K.onComplete st).2 = [.complete]) (he : ∀ n, (K.onError st n).2 = [.fail n]) :
    K.finish st (live g acc) e = ended g acc e := by
  cases e <;> simp [Kernel.finish, live, ended, hc, he, KRun.acts, KRun.act]

theorem acts_emit (g : Bool) (acc : List Ev) (d : Data) :
    (live g acc).acts [.emit d] = live g (acc ++ [.next d]) := by
  simp [KRun.acts, KRun.act, live]

theorem acts_nil (r : KRun) : r.acts [] = r := rfl

theorem toEvs_mk (l : List Data) (e : Ending) : Stream.toEvs (l, e) = l.map .next ++ e.toEvs := rfl

/-- a kernel whose feed phase leaves the run live and which forwards terminals: the whole run -/
theorem runFull_of_feed {σ} (K : Kernel σ) (s : Stream) (st : σ) (acc : List Ev)
    (hf : K.feed K.init (live true []) s.1 = (st, live true acc))
    (hc : (K.onComplete st).2 = [.complete]) (he : ∀ n, (K.onError st n).2 = [.fail n]) :
    K.runFull s = ended true acc s.2 := by
  rw [runFull_eq, init_live, hf]
  exact finish_live K st true acc s.2 hc he

/-- … and when the feed phase ended with the operator's own terminal -/
theorem runFull_of_feed_stopped {σ} (K : Kernel σ) (s : Stream) (st : σ) (acc : List Ev)
    (hf : K.feed K.init (live true []) s.1 = (st, stopped acc)) :
    K.runFull s = stopped acc := by
  rw [runFull_eq, init_live, hf]
  exact finish_stopped K st acc s.2

/-- C06 for forwarding kernels -/
theorem cancels_of_ended {r : KRun} {acc : List Ev} {e : Ending} (h : r = ended true acc e) :
    r.alive = false → r.cancelled = true ∨ e ≠ .silent := by
  subst h; exact fun h => Or.inr (ended_alive _ _ _ h)

/-! ### map -/

theorem map_feed (f : Fn) (g : Bool) (acc : List Ev) (xs : List Data) :
    (kMap f).feed () (live g acc) xs = ((), live g (acc ++ (xs.map f.app).map .next)) := by
  induction xs generalizing acc with
  | nil => simp [feed_nil]
  | cons x xs ih =>
    have h : (kMap f).onNext () x = ((), [.emit (f.app x)]) := rfl
    simp [feed_cons, h, acts_emit, ih]

theorem map_runFull (f : Fn) (s : Stream) :
    (kMap f).runFull s = ended true ((s.1.map f.app).map .next) s.2 :=
  runFull_of_feed _ s () _ (by simpa using map_feed f true [] s.1) rfl (fun _ => rfl)

theorem map_spec (f : Fn) (s : Stream) : (kMap f).run s = (Spec.map f s).toEvs := by
  rw [run_eq, map_runFull, ended_out]; rfl

theorem map_cancels (f : Fn) (s : Stream) :
    ((kMap f).runFull s).alive = false → ((kMap f).runFull s).cancelled = true ∨ s.2 ≠ .silent :=
  cancels_of_ended (map_runFull f s)

example : (kMap .inc).run ([.int 1, .int 2], .error 3) = [.next (.int 2), .next (.int 3), .error 3] := by decide
example : (Spec.map .inc ([.int 1, .int 2], .error 3)).toEvs = [.next (.int 2), .next (.int 3), .error 3] := by decide
example : ((kMap .inc).runFull ([.int 1], .error 3)).alive = false := by decide

/-! ### identity forwarding -/

theorem id_feed (g : Bool) (acc : List Ev) (xs : List Data) :
    kId.feed () (live g acc) xs = ((), live g (acc ++ xs.map .next)) := by
  induction xs generalizing acc with
  | nil => simp [feed_nil]
  | cons x xs ih =>
    have h : kId.onNext () x = ((), [.emit x]) := rfl
    simp [feed_cons, h, acts_emit, ih]

theorem id_runFull (s : Stream) : kId.runFull s = ended true (s.1.map .next) s.2 :=
  runFull_of_feed _ s () _ (by simpa using id_feed true [] s.1) rfl (fun _ => rfl)

theorem id_spec (s : Stream) : kId.run s = s.toEvs := by
  rw [run_eq, id_runFull, ended_out]; rfl

theorem id_cancels (s : Stream) :
    (kId.runFull s).alive = false → (kId.runFull s).cancelled = true ∨ s.2 ≠ .silent :=
  cancels_of_ended (id_runFull s)

example : kId.run ([.int 1, .int 2], .complete) = Stream.toEvs ([.int 1, .int 2], .complete) := by decide
example : (kId.runFull ([.int 1], .complete)).alive = false := by decide

/-! ### ignore_elements -/

theorem ignoreElements_feed (g : Bool) (acc : List Ev) (xs : List Data) :
    kIgnoreElements.feed () (live g acc) xs = ((), live g acc) := by
  induction xs generalizing acc with
  | nil => simp [feed_nil]
  | cons x xs ih =>
    have h : kIgnoreElements.onNext () x = ((), []) := rfl
    simp [feed_cons, h, acts_nil, ih]

theorem ignoreElements_runFull (s : Stream) : kIgnoreElements.runFull s = ended true [] s.2 :=
  runFull_of_feed _ s () _ (by simpa using ignoreElements_feed true [] s.1) rfl (fun _ => rfl)

theorem ignoreElements_spec (s : Stream) :
    kIgnoreElements.run s = (Spec.ignoreElements s).toEvs := by
  rw [run_eq, ignoreElements_runFull, ended_out]; rfl

theorem ignoreElements_cancels (s : Stream) :
    (kIgnoreElements.runFull s).alive = false →
      (kIgnoreElements.runFull s).cancelled = true ∨ s.2 ≠ .silent :=
  cancels_of_ended (ignoreElements_runFull s)

example : kIgnoreElements.run ([.int 1, .int 2], .error 5) = [.error 5] := by decide
example : (Spec.ignoreElements ([.int 1, .int 2], .error 5)).toEvs = [.error 5] := by decide
example : (kIgnoreElements.runFull ([.int 1], .complete)).alive = false := by decide

/-! ### filter -/

theorem filter_feed (p : Pred) (g : Bool) (acc : List Ev) (xs : List Data) :
    (kFilter p).feed () (live g acc) xs = ((), live g (acc ++ (xs.filter p.app).map .next)) := by
  induction xs generalizing acc with
  | nil => simp [feed_nil]
  | cons x xs ih =>
    have h : (kFilter p).onNext () x = ((), if p.app x then [.emit x] else []) := rfl
    by_cases hp : p.app x = true <;> simp [feed_cons, h, hp, acts_emit, acts_nil, ih]

theorem filter_runFull (p : Pred) (s : Stream) :
    (kFilter p).runFull s = ended true ((s.1.filter p.app).map .next) s.2 :=
  runFull_of_feed _ s () _ (by simpa using filter_feed p true [] s.1) rfl (fun _ => rfl)

theorem filter_spec (p : Pred) (s : Stream) : (kFilter p).run s = (Spec.filter p s).toEvs := by
  rw [run_eq, filter_runFull, ended_out]; rfl

theorem filter_cancels (p : Pred) (s : Stream) :
    ((kFilter p).runFull s).alive = false → ((kFilter p).runFull s).cancelled = true ∨ s.2 ≠ .silent :=
  cancels_of_ended (filter_runFull p s)

example : (kFilter .even).run ([.int 1, .int 2, .int 4], .complete) = [.next (.int 2), .next (.int 4), .complete] := by decide
example : (Spec.filter .even ([.int 1, .int 2, .int 4], .complete)).toEvs = [.next (.int 2), .next (.int 4), .complete] := by decide
example : ((kFilter .even).runFull ([.int 1], .complete)).alive = false := by decide

/-! ### skip -/

theorem skip_feed (n k : Nat) (g : Bool) (acc : List Ev) (xs : List Data) :
    (kSkip n).feed k (live g acc) xs
      = (k + xs.length, live g (acc ++ (xs.drop (n - k)).map .next)) := by
  induction xs generalizing k acc with
  | nil => simp [feed_nil]
  | cons x xs ih =>
    have h : (kSkip n).onNext k x = (k + 1, if k ≥ n then [.emit x] else []) := rfl
    by_cases hk : k ≥ n
    · have h1 : n - k = 0 := by omega
      have h2 : n - (k + 1) = 0 := by omega
      simp [feed_cons, h, hk, acts_emit, ih, h1, h2]; omega
    · have h1 : n - k = (n - (k + 1)) + 1 := by omega
      rw [feed_cons, h]
      simp only [hk, if_false, acts_nil, ih]
      rw [h1, List.drop_succ_cons]
      simp; omega

theorem skip_runFull (n : Nat) (s : Stream) :
    (kSkip n).runFull s = ended true ((s.1.drop n).map .next) s.2 := by
  have := runFull_of_feed (kSkip n) s _ _ (skip_feed n 0 true [] s.1) rfl (fun _ => rfl)
  simpa using this

theorem skip_spec (n : Nat) (s : Stream) : (kSkip n).run s = (Spec.skip n s).toEvs := by
  rw [run_eq, skip_runFull, ended_out]; rfl

theorem skip_cancels (n : Nat) (s : Stream) :
    ((kSkip n).runFull s).alive = false → ((kSkip n).runFull s).cancelled = true ∨ s.2 ≠ .silent :=
  cancels_of_ended (skip_runFull n s)

example : (kSkip 2).run ([.int 1, .int 2, .int 3], .complete) = [.next (.int 3), .complete] := by decide
example : (Spec.skip 2 ([.int 1, .int 2, .int 3], .complete)).toEvs = [.next (.int 3), .complete] := by decide
example : ((kSkip 2).runFull ([.int 1], .error 0)).alive = false := by decide

/-! ### skip_while -/

/-- once the flag is down everything is forwarded -/
theorem skipWhile_feed_false (p : Pred) (g : Bool) (acc : List Ev) (xs : List Data) :
    (kSkipWhile p).feed false (live g acc) xs = (false, live g (acc ++ xs.map .next)) := by
  induction xs generalizing acc with
  | nil => simp [feed_nil]
  | cons x xs ih =>
    have h : (kSkipWhile p).onNext false x = (false, [.emit x]) := rfl
    simp [feed_cons, h, acts_emit, ih]

theorem skipWhile_feed (p : Pred) (g : Bool) (acc : List Ev) (xs : List Data) :
    (kSkipWhile p).feed true (live g acc) xs
      = (xs.all p.app, live g (acc ++ (xs.dropWhile p.app).map .next)) := by
  induction xs generalizing acc with
  | nil => simp [feed_nil]
  | cons x xs ih =>
    have h : (kSkipWhile p).onNext true x = if p.app x then (true, []) else (false, [.emit x]) := by
      simp [kSkipWhile]
    by_cases hp : p.app x = true
    · simp [feed_cons, h, hp, acts_nil, ih]
    · simp [feed_cons, h, hp, acts_emit, skipWhile_feed_false]

theorem skipWhile_runFull (p : Pred) (s : Stream) :
    (kSkipWhile p).runFull s = ended true ((s.1.dropWhile p.app).map .next) s.2 := by
  have := runFull_of_feed (kSkipWhile p) s _ _ (skipWhile_feed p true [] s.1) rfl (fun _ => rfl)
  simpa using this

theorem skipWhile_spec (p : Pred) (s : Stream) :
    (kSkipWhile p).run s = (Spec.skipWhile p s).toEvs := by
  rw [run_eq, skipWhile_runFull, ended_out]; rfl

theorem skipWhile_cancels (p : Pred) (s : Stream) :
    ((kSkipWhile p).runFull s).alive = false →
      ((kSkipWhile p).runFull s).cancelled = true ∨ s.2 ≠ .silent :=
  cancels_of_ended (skipWhile_runFull p s)

example : (kSkipWhile (.lt 2)).run ([.int 1, .int 2, .int 1], .complete)
    = [.next (.int 2), .next (.int 1), .complete] := by decide
example : (Spec.skipWhile (.lt 2) ([.int 1, .int 2, .int 1], .complete)).toEvs
    = [.next (.int 2), .next (.int 1), .complete] := by decide
example : ((kSkipWhile (.lt 2)).runFull ([.int 1], .error 0)).alive = false := by decide

/-! ### distinct_until_changed -/

/-- `Spec.dedup (y :: xs)` without its head: what is emitted after `y` has been seen -/
def dedupFrom (y : Data) : List Data → List Data
  | [] => []
  | x :: xs => if y = x then dedupFrom x xs else x :: dedupFrom x xs

theorem dedup_cons (y : Data) (xs : List Data) : Spec.dedup (y :: xs) = y :: dedupFrom y xs := by
  induction xs generalizing y with
  | nil => simp [Spec.dedup, dedupFrom]
  | cons x xs ih =>
    by_cases h : y = x
    · subst h; simp [Spec.dedup, dedupFrom, ih]
    · simp [Spec.dedup, dedupFrom, h, ih]

/-- the item the kernel remembers after `y` followed by `xs` -/
def lastFrom (y : Data) : List Data → Data
  | [] => y
  | x :: xs => lastFrom x xs

theorem distinct_feed_some (y : Data) (g : Bool) (acc : List Ev) (xs : List Data) :
    kDistinct.feed (some y) (live g acc) xs
      = (some (lastFrom y xs), live g (acc ++ (dedupFrom y xs).map .next)) := by
  induction xs generalizing y acc with
  | nil => simp [feed_nil, dedupFrom, lastFrom]
  | cons x xs ih =>
    have h : kDistinct.onNext (some y) x = if y != x then (some x, [.emit x]) else (some y, []) := rfl
    by_cases hyx : y = x
    · subst hyx; simp [feed_cons, h, acts_nil, ih, dedupFrom, lastFrom]
    · simp [feed_cons, h, hyx, acts_emit, ih, dedupFrom, lastFrom]

theorem distinct_feed (g : Bool) (acc : List Ev) (xs : List Data) :
    kDistinct.feed none (live g acc) xs
      = (match xs with | [] => none | x :: xs => some (lastFrom x xs),
         live g (acc ++ (Spec.dedup xs).map .next)) := by
  cases xs with
  | nil => simp [feed_nil, Spec.dedup]
  | cons x xs =>
    have h : kDistinct.onNext none x = (some x, [.emit x]) := rfl
    simp [feed_cons, h, acts_emit, distinct_feed_some, dedup_cons]

theorem distinct_runFull (s : Stream) :
    kDistinct.runFull s = ended true ((Spec.dedup s.1).map .next) s.2 := by
  have := runFull_of_feed kDistinct s _ _ (distinct_feed true [] s.1) rfl (fun _ => rfl)
  simpa using this

theorem distinct_spec (s : Stream) : kDistinct.run s = (Spec.distinctUntilChanged s).toEvs := by
  rw [run_eq, distinct_runFull, ended_out]; rfl

theorem distinct_cancels (s : Stream) :
    (kDistinct.runFull s).alive = false → (kDistinct.runFull s).cancelled = true ∨ s.2 ≠ .silent :=
  cancels_of_ended (distinct_runFull s)

example : kDistinct.run ([.int 1, .int 1, .int 2, .int 1], .complete)
    = [.next (.int 1), .next (.int 2), .next (.int 1), .complete] := by decide
example : (Spec.distinctUntilChanged ([.int 1, .int 1, .int 2, .int 1], .complete)).toEvs
    = [.next (.int 1), .next (.int 2), .next (.int 1), .complete] := by decide
example : (kDistinct.runFull ([.int 1], .error 0)).alive = false := by decide

/-! ### take -/

theorem acts_emit_stop (g : Bool) (acc : List Ev) (x : Data) :
    (live g acc).acts [.emit x, .abortSelf, .complete, .finalize] = stopped (acc ++ [.next x, .complete]) := by
  simp [KRun.acts, KRun.act, live, stopped]

theorem acts_stop (g : Bool) (acc : List Ev) :
    (live g acc).acts [.abortSelf, .complete, .finalize] = stopped (acc ++ [.complete]) := by
  simp [KRun.acts, KRun.act, live, stopped]

theorem take_onNext (n k : Nat) (x : Data) :
    (kTake n).onNext k x
      = (k + 1, (if k < n then [.emit x] else []) ++
                (if k + 1 ≥ n then [.abortSelf, .complete, .finalize] else [])) := rfl

/-- counter already at or past `count` (only possible for `take 0`): the first item completes -/
theorem take_feed_past (n k : Nat) (hk : n ≤ k) (g : Bool) (acc : List Ev) (x : Data) (xs : List Data) :
    (kTake n).feed k (live g acc) (x :: xs) = (k + 1, stopped (acc ++ [.complete])) := by
  have h1 : ¬ k < n := by omega
  have h2 : k + 1 ≥ n := by omega
  rw [feed_cons, take_onNext]
  simp only [h1, h2, if_true, if_false, List.nil_append, acts_stop, feed_stopped]

/-- from counter `k < count`: either the remaining `count - k` items arrive and the operator completes
    and cancels, or the source runs out first and the run stays live -/
theorem take_feed (n k : Nat) (hk : k < n) (g : Bool) (acc : List Ev) (xs : List Data) :
    (kTake n).feed k (live g acc) xs
      = if n - k ≤ xs.length
        then (n, stopped (acc ++ (xs.take (n - k)).map .next ++ [.complete]))
        else (k + xs.length, live g (acc ++ xs.map .next)) := by
  induction xs generalizing k acc with
  | nil =>
    have : ¬ n - k ≤ 0 := by omega
    simp [feed_nil, this]
  | cons x xs ih =>
    rw [feed_cons, take_onNext]
    by_cases hl : k + 1 ≥ n
    · have hn : n - k = 1 := by omega
      have hk1 : k + 1 = n := by omega
      simp [hk, acts_emit_stop, feed_stopped, hn, hk1]
    · have hk' : k + 1 < n := by omega
      have hn : n - k = (n - (k + 1)) + 1 := by omega
      simp only [hk, hl, if_true, if_false, List.append_nil, acts_emit, ih (k + 1) hk']
      rw [hn, List.take_succ_cons, List.length_cons]
      by_cases hx : n - (k + 1) ≤ xs.length
      · simp [hx]
      · simp [hx]; omega

theorem take_runFull_stop (n : Nat) (s : Stream) (h1 : s.1 ≠ []) (h2 : n ≤ s.1.length) :
    (kTake n).runFull s = stopped ((s.1.take n).map .next ++ [.complete]) := by
  apply runFull_of_feed_stopped (st := max n 1)
  obtain ⟨xs, e⟩ := s
  cases xs with
  | nil => exact absurd rfl h1
  | cons x xs =>
    by_cases hn : n = 0
    · subst hn
      exact take_feed_past 0 0 (Nat.le_refl 0) true [] x xs
    · have := take_feed n 0 (by omega) true [] (x :: xs)
      have hm : max n 1 = n := by omega
      have h2' : n - 0 ≤ (x :: xs).length := by simpa using h2
      rw [if_pos h2'] at this
      show (kTake n).feed 0 (live true []) (x :: xs) = _
      simpa [hm] using this

theorem take_runFull_pass (n : Nat) (s : Stream) (h : s.1.length < n) :
    (kTake n).runFull s = ended true (s.1.map .next) s.2 := by
  have hf := take_feed n 0 (by omega) true [] s.1
  have hl : ¬ n - 0 ≤ s.1.length := by omega
  rw [if_neg hl] at hf
  have := runFull_of_feed (kTake n) s _ _ hf rfl (fun _ => rfl)
  simpa using this

theorem take_runFull_nil (n : Nat) (e : Ending) :
    (kTake n).runFull ([], e) = ended true [] e :=
  runFull_of_feed (kTake n) ([], e) 0 [] rfl rfl (fun _ => rfl)

theorem take_spec (n : Nat) (s : Stream) : (kTake n).run s = (Spec.take n s).toEvs := by
  obtain ⟨xs, e⟩ := s
  rw [run_eq]
  by_cases hx : xs = []
  · subst hx
    rw [take_runFull_nil, ended_out]
    by_cases hn : n = 0 <;> simp [Spec.take, hn, toEvs_mk]
  · by_cases hl : n ≤ xs.length
    · rw [take_runFull_stop n (xs, e) hx hl]
      by_cases hn : n = 0
      · subst hn; simp [Spec.take, hx, toEvs_mk, stopped, Ending.toEvs]
      · simp [Spec.take, hn, hl, toEvs_mk, stopped, Ending.toEvs]
    · have hn : n ≠ 0 := by omega
      rw [take_runFull_pass n (xs, e) (by simpa using hl), ended_out]
      simp [Spec.take, hn, hl, toEvs_mk]

/-- C06: when `take` completes from inside `on_next`, the upstream has been unsubscribed -/
theorem take_cancels (n : Nat) (s : Stream) (h1 : s.1 ≠ []) (h2 : n ≤ s.1.length) :
    ((kTake n).runFull s).cancelled = true := by
  rw [take_runFull_stop n s h1 h2]; rfl

/-- C06, general form -/
theorem take_cancels' (n : Nat) (s : Stream) :
    ((kTake n).runFull s).alive = false → ((kTake n).runFull s).cancelled = true ∨ s.2 ≠ .silent := by
  by_cases h : s.1 ≠ [] ∧ n ≤ s.1.length
  · exact fun _ => Or.inl (take_cancels n s h.1 h.2)
  · by_cases hx : s.1 = []
    · obtain ⟨xs, e⟩ := s
      cases hx
      exact cancels_of_ended (take_runFull_nil n e)
    · have hl : s.1.length < n := by
        rcases Nat.lt_or_ge s.1.length n with hl | hl
        · exact hl
        · exact absurd ⟨hx, hl⟩ h
      exact cancels_of_ended (take_runFull_pass n s hl)

example : (kTake 2).run ([.int 1, .int 2, .int 3], .error 9) = [.next (.int 1), .next (.int 2), .complete] := by decide
example : (Spec.take 2 ([.int 1, .int 2, .int 3], .error 9)).toEvs = [.next (.int 1), .next (.int 2), .complete] := by decide
example : (kTake 0).run ([.int 1], .silent) = [.complete] ∧ (Spec.take 0 ([.int 1], .silent)).toEvs = [.complete] := by decide
example : (kTake 3).run ([.int 1], .silent) = [.next (.int 1)] := by decide
example : ([Data.int 1, .int 2] ≠ []) ∧ 2 ≤ [Data.int 1, .int 2].length ∧
    ((kTake 2).runFull ([.int 1, .int 2], .silent)).cancelled = true := by decide

/-! ### take_while -/

theorem acts_abort_complete (g : Bool) (acc : List Ev) :
    (live g acc).acts [.abortSelf, .complete] = stopped (acc ++ [.complete]) := by
  simp [KRun.acts, KRun.act, live, stopped]

theorem takeWhile_feed (p : Pred) (g : Bool) (acc : List Ev) (xs : List Data) :
    (kTakeWhile p).feed () (live g acc) xs
      = ((), if xs.all p.app then live g (acc ++ xs.map .next)
             else stopped (acc ++ (xs.takeWhile p.app).map .next ++ [.complete])) := by
  induction xs generalizing acc with
  | nil => simp [feed_nil]
  | cons x xs ih =>
    have h : (kTakeWhile p).onNext () x = ((), if p.app x then [.emit x] else [.abortSelf, .complete]) := rfl
    by_cases hp : p.app x = true
    · by_cases ha : xs.all p.app = true
      · simp [feed_cons, h, hp, acts_emit, ih, ha]
      · simp [feed_cons, h, hp, acts_emit, ih, ha]
    · simp [feed_cons, h, hp, acts_abort_complete, feed_stopped]

theorem takeWhile_runFull_pass (p : Pred) (s : Stream) (h : s.1.all p.app = true) :
    (kTakeWhile p).runFull s = ended true (s.1.map .next) s.2 := by
  have hf := takeWhile_feed p true [] s.1
  rw [if_pos h] at hf
  have := runFull_of_feed (kTakeWhile p) s _ _ hf rfl (fun _ => rfl)
  simpa using this

theorem takeWhile_runFull_stop (p : Pred) (s : Stream) (h : ¬ s.1.all p.app = true) :
    (kTakeWhile p).runFull s = stopped ((s.1.takeWhile p.app).map .next ++ [.complete]) := by
  have hf := takeWhile_feed p true [] s.1
  rw [if_neg h] at hf
  have := runFull_of_feed_stopped (kTakeWhile p) s _ _ hf
  simpa using this

theorem takeWhile_spec (p : Pred) (s : Stream) :
    (kTakeWhile p).run s = (Spec.takeWhile p s).toEvs := by
  rw [run_eq]
  by_cases h : s.1.all p.app = true
  · rw [takeWhile_runFull_pass p s h, ended_out]
    simp only [Spec.takeWhile, h, if_true]; rfl
  · rw [takeWhile_runFull_stop p s h]
    simp only [Spec.takeWhile, h]; rfl

/-- C06: when `take_while` completes from inside `on_next`, the upstream has been unsubscribed -/
theorem takeWhile_cancels (p : Pred) (s : Stream) (h : ¬ s.1.all p.app = true) :
    ((kTakeWhile p).runFull s).cancelled = true := by
  rw [takeWhile_runFull_stop p s h]; rfl

theorem takeWhile_cancels' (p : Pred) (s : Stream) :
    ((kTakeWhile p).runFull s).alive = false →
      ((kTakeWhile p).runFull s).cancelled = true ∨ s.2 ≠ .silent := by
  by_cases h : s.1.all p.app = true
  · exact cancels_of_ended (takeWhile_runFull_pass p s h)
  · exact fun _ => Or.inl (takeWhile_cancels p s h)

example : (kTakeWhile (.lt 2)).run ([.int 1, .int 2, .int 1], .error 4) = [.next (.int 1), .complete] := by decide
example : (Spec.takeWhile (.lt 2) ([.int 1, .int 2, .int 1], .error 4)).toEvs = [.next (.int 1), .complete] := by decide
example : ¬ ([Data.int 1, .int 2].all (Pred.lt 2).app = true) ∧
    ((kTakeWhile (.lt 2)).runFull ([.int 1, .int 2], .silent)).cancelled = true := by decide

/-! ### take_last / skip_last: the bounded queue -/

/-- pushing onto a queue of at most `n` items and trimming keeps the last `n` of everything seen -/
theorem queue_push (n : Nat) (q xs : List Data) (x : Data) (hq : q.length ≤ n) :
    ((q ++ [x]).drop (q.length + 1 - n) ++ xs).drop (((q ++ [x]).drop (q.length + 1 - n) ++ xs).length - n)
      = (q ++ x :: xs).drop ((q ++ x :: xs).length - n) := by
  have hd : q.length + 1 - n ≤ (q ++ [x]).length := by simp
  rw [← List.drop_append_of_le_length hd, List.drop_drop]
  have e1 : q ++ [x] ++ xs = q ++ x :: xs := by simp
  rw [e1]
  congr 1
  simp only [List.length_drop, List.length_append, List.length_cons]
  have := hq
  omega

theorem queue_push_len (n : Nat) (q : List Data) (x : Data) (hq : q.length ≤ n) :
    ((q ++ [x]).drop (q.length + 1 - n)).length ≤ n := by
  simp only [List.length_drop, List.length_append, List.length_cons, List.length_nil]; omega

/-! ### take_last -/

theorem takeLast_onNext (n : Nat) (q : List Data) (x : Data) (hq : q.length ≤ n) :
    (kTakeLast n).onNext q x = ((q ++ [x]).drop (q.length + 1 - n), []) := by
  show ((if (q ++ [x]).length > n then (q ++ [x]).drop 1 else q ++ [x]), []) = _
  by_cases h : (q ++ [x]).length > n
  · have : q.length + 1 - n = 1 := by simp at h; omega
    rw [if_pos h, this]
  · have : q.length + 1 - n = 0 := by simp at h; omega
    rw [if_neg h, this]; rfl

theorem takeLast_feed (n : Nat) (q : List Data) (hq : q.length ≤ n) (g : Bool) (acc : List Ev)
    (xs : List Data) :
    (kTakeLast n).feed q (live g acc) xs
      = ((q ++ xs).drop ((q ++ xs).length - n), live g acc) := by
  induction xs generalizing q with
  | nil =>
    have : q.length - n = 0 := by omega
    simp [feed_nil, this]
  | cons x xs ih =>
    rw [feed_cons, takeLast_onNext n q x hq]
    simp only [acts_nil]
    rw [ih _ (queue_push_len n q x hq), queue_push n q xs x hq]

/-- the record after `take_last` flushed its queue on completion -/
def flushed (acc : List Ev) : KRun :=
  { alive := false, cancelled := false, registered := false, out := acc ++ [.complete] }

theorem takeLast_runFull (n : Nat) (s : Stream) :
    (kTakeLast n).runFull s
      = match s.2 with
        | .complete => flushed ((s.1.drop (s.1.length - n)).map .next)
        | e => ended true [] e := by
  have hf := takeLast_feed n [] (Nat.zero_le n) true [] s.1
  rw [runFull_eq, init_live]
  show (kTakeLast n).finish ((kTakeLast n).feed [] _ _).1 ((kTakeLast n).feed [] _ _).2 _ = _
  rw [hf]
  obtain ⟨xs, e⟩ := s
  cases e <;> simp [Kernel.finish, live, ended, flushed, kTakeLast, KRun.acts, KRun.act]

theorem takeLast_spec (n : Nat) (s : Stream) : (kTakeLast n).run s = (Spec.takeLast n s).toEvs := by
  rw [run_eq, takeLast_runFull]
  obtain ⟨xs, e⟩ := s
  cases e <;> simp [Spec.takeLast, toEvs_mk, flushed, ended, live, Ending.toEvs]

theorem takeLast_cancels (n : Nat) (s : Stream) :
    ((kTakeLast n).runFull s).alive = false →
      ((kTakeLast n).runFull s).cancelled = true ∨ s.2 ≠ .silent := by
  rw [takeLast_runFull]
  obtain ⟨xs, e⟩ := s
  cases e <;> simp [ended, live]

example : (kTakeLast 2).run ([.int 1, .int 2, .int 3], .complete) = [.next (.int 2), .next (.int 3), .complete] := by decide
example : (Spec.takeLast 2 ([.int 1, .int 2, .int 3], .complete)).toEvs = [.next (.int 2), .next (.int 3), .complete] := by decide
example : (kTakeLast 2).run ([.int 1, .int 2, .int 3], .error 1) = [.error 1] := by decide
example : ((kTakeLast 2).runFull ([.int 1], .complete)).alive = false := by decide

/-! ### skip_last -/

theorem skipLast_onNext (n : Nat) (q : List Data) (x : Data) (hq : q.length ≤ n) :
    (kSkipLast n).onNext q x
      = ((q ++ [x]).drop (q.length + 1 - n), ((q ++ [x]).take (q.length + 1 - n)).map .emit) := by
  show (if (q ++ [x]).length > n
        then ((q ++ [x]).drop 1, match (q ++ [x]).head? with | some y => [Act.emit y] | none => [])
        else (q ++ [x], [])) = _
  by_cases h : (q ++ [x]).length > n
  · have : q.length + 1 - n = 1 := by simp at h; omega
    rw [if_pos h, this]
    cases q <;> simp
  · have : q.length + 1 - n = 0 := by simp at h; omega
    rw [if_neg h, this]; rfl

theorem acts_emits (g : Bool) (acc : List Ev) (ds : List Data) :
    (live g acc).acts (ds.map .emit) = live g (acc ++ ds.map .next) := by
  induction ds generalizing acc with
  | nil => simp [acts_nil]
  | cons d ds ih =>
    have : (live g acc).acts (Act.emit d :: ds.map .emit) = (live g (acc ++ [.next d])).acts (ds.map .emit) := by
      simp [KRun.acts, KRun.act, live]
    simp [this, ih]

/-- what has left the queue so far, appended to what was emitted before -/
theorem queue_push_take (n : Nat) (q xs : List Data) (x : Data) (hq : q.length ≤ n) :
    (q ++ [x]).take (q.length + 1 - n) ++
      ((q ++ [x]).drop (q.length + 1 - n) ++ xs).take (((q ++ [x]).drop (q.length + 1 - n) ++ xs).length - n)
      = (q ++ x :: xs).take ((q ++ x :: xs).length - n) := by
  have hd : q.length + 1 - n ≤ (q ++ [x]).length := by simp
  have e1 : q ++ x :: xs = q ++ [x] ++ xs := by simp
  rw [← List.drop_append_of_le_length hd, e1]
  generalize hL : q ++ [x] ++ xs = L
  have hlen : L.length = q.length + 1 + xs.length := by simp [← hL]; omega
  have h2 : (q ++ [x]).take (q.length + 1 - n) = L.take (q.length + 1 - n) := by
    rw [← hL, List.take_append_of_le_length hd]
  rw [h2]
  have h3 : L.length - n = (q.length + 1 - n) + ((L.drop (q.length + 1 - n)).length - n) := by
    simp only [List.length_drop]; omega
  rw [h3, List.take_add]

theorem skipLast_feed (n : Nat) (q : List Data) (hq : q.length ≤ n) (g : Bool) (acc : List Ev)
    (xs : List Data) :
    (kSkipLast n).feed q (live g acc) xs
      = ((q ++ xs).drop ((q ++ xs).length - n),
         live g (acc ++ ((q ++ xs).take ((q ++ xs).length - n)).map .next)) := by
  induction xs generalizing q acc with
  | nil =>
    have : q.length - n = 0 := by omega
    simp [feed_nil, this]
  | cons x xs ih =>
    rw [feed_cons, skipLast_onNext n q x hq]
    simp only [acts_emits]
    rw [ih _ (queue_push_len n q x hq), queue_push n q xs x hq, ← queue_push_take n q xs x hq]
    simp

theorem skipLast_runFull (n : Nat) (s : Stream) :
    (kSkipLast n).runFull s = ended true ((s.1.take (s.1.length - n)).map .next) s.2 := by
  have := runFull_of_feed (kSkipLast n) s _ _ (skipLast_feed n [] (Nat.zero_le n) true [] s.1) rfl (fun _ => rfl)
  simpa using this

theorem skipLast_spec (n : Nat) (s : Stream) : (kSkipLast n).run s = (Spec.skipLast n s).toEvs := by
  rw [run_eq, skipLast_runFull, ended_out]; rfl

theorem skipLast_cancels (n : Nat) (s : Stream) :
    ((kSkipLast n).runFull s).alive = false →
      ((kSkipLast n).runFull s).cancelled = true ∨ s.2 ≠ .silent :=
  cancels_of_ended (skipLast_runFull n s)

example : (kSkipLast 2).run ([.int 1, .int 2, .int 3], .error 1) = [.next (.int 1), .error 1] := by decide
example : (Spec.skipLast 2 ([.int 1, .int 2, .int 3], .error 1)).toEvs = [.next (.int 1), .error 1] := by decide
example : ((kSkipLast 2).runFull ([.int 1], .complete)).alive = false := by decide

/-! ### C06, feed-phase form

`K.runFull (xs, .silent)` IS the record at the end of the feed phase, so the general `_cancels` statements
specialise to: a downstream terminal produced by `onNext` always comes with the upstream cancelled. -/

theorem feed_phase_cancels {σ} (K : Kernel σ)
    (h : ∀ s : Stream, (K.runFull s).alive = false → (K.runFull s).cancelled = true ∨ s.2 ≠ .silent)
    (xs : List Data) :
    (K.feed K.init {} xs).2.alive = false → (K.feed K.init {} xs).2.cancelled = true := by
  intro ha
  have hr : K.runFull (xs, .silent) = (K.feed K.init {} xs).2 := rfl
  have := h (xs, .silent) (hr ▸ ha)
  rw [hr] at this
  simpa using this

theorem take_feed_cancels (n : Nat) (xs : List Data) :
    ((kTake n).feed (kTake n).init {} xs).2.alive = false → ((kTake n).feed (kTake n).init {} xs).2.cancelled = true :=
  feed_phase_cancels (kTake n) (take_cancels' n) xs
theorem takeWhile_feed_cancels (p : Pred) (xs : List Data) :
    ((kTakeWhile p).feed (kTakeWhile p).init {} xs).2.alive = false → ((kTakeWhile p).feed (kTakeWhile p).init {} xs).2.cancelled = true :=
  feed_phase_cancels (kTakeWhile p) (takeWhile_cancels' p) xs
theorem skip_feed_cancels (n : Nat) (xs : List Data) :
    ((kSkip n).feed (kSkip n).init {} xs).2.alive = false → ((kSkip n).feed (kSkip n).init {} xs).2.cancelled = true :=
  feed_phase_cancels (kSkip n) (skip_cancels n) xs
theorem map_feed_cancels (f : Fn) (xs : List Data) :
    ((kMap f).feed (kMap f).init {} xs).2.alive = false → ((kMap f).feed (kMap f).init {} xs).2.cancelled = true :=
  feed_phase_cancels (kMap f) (map_cancels f) xs
theorem filter_feed_cancels (p : Pred) (xs : List Data) :
    ((kFilter p).feed (kFilter p).init {} xs).2.alive = false → ((kFilter p).feed (kFilter p).init {} xs).2.cancelled = true :=
  feed_phase_cancels (kFilter p) (filter_cancels p) xs
theorem skipWhile_feed_cancels (p : Pred) (xs : List Data) :
    ((kSkipWhile p).feed (kSkipWhile p).init {} xs).2.alive = false → ((kSkipWhile p).feed (kSkipWhile p).init {} xs).2.cancelled = true :=
  feed_phase_cancels (kSkipWhile p) (skipWhile_cancels p) xs
theorem takeLast_feed_cancels (n : Nat) (xs : List Data) :
    ((kTakeLast n).feed (kTakeLast n).init {} xs).2.alive = false → ((kTakeLast n).feed (kTakeLast n).init {} xs).2.cancelled = true :=
  feed_phase_cancels (kTakeLast n) (takeLast_cancels n) xs
theorem skipLast_feed_cancels (n : Nat) (xs : List Data) :
    ((kSkipLast n).feed (kSkipLast n).init {} xs).2.alive = false → ((kSkipLast n).feed (kSkipLast n).init {} xs).2.cancelled = true :=
  feed_phase_cancels (kSkipLast n) (skipLast_cancels n) xs
theorem distinct_feed_cancels (xs : List Data) :
    (kDistinct.feed kDistinct.init {} xs).2.alive = false → (kDistinct.feed kDistinct.init {} xs).2.cancelled = true :=
  feed_phase_cancels kDistinct (distinct_cancels) xs
theorem ignoreElements_feed_cancels (xs : List Data) :
    (kIgnoreElements.feed kIgnoreElements.init {} xs).2.alive = false → (kIgnoreElements.feed kIgnoreElements.init {} xs).2.cancelled = true :=
  feed_phase_cancels kIgnoreElements (ignoreElements_cancels) xs
theorem id_feed_cancels (xs : List Data) :
    (kId.feed kId.init {} xs).2.alive = false → (kId.feed kId.init {} xs).2.cancelled = true :=
  feed_phase_cancels kId (id_cancels) xs

example : ((kTake 1).feed (kTake 1).init {} [.int 1, .int 2]).2.alive = false := by decide

#print axioms take_spec
#print axioms skip_spec
#print axioms map_spec
#print axioms filter_spec
#print axioms takeWhile_spec
#print axioms skipWhile_spec
#print axioms takeLast_spec
#print axioms skipLast_spec
#print axioms distinct_spec
#print axioms ignoreElements_spec
#print axioms id_spec
#print axioms take_cancels
#print axioms take_cancels'
#print axioms takeWhile_cancels
#print axioms takeWhile_cancels'
#print axioms skip_cancels
#print axioms map_cancels
#print axioms filter_cancels
#print axioms skipWhile_cancels
#print axioms takeLast_cancels
#print axioms skipLast_cancels
#print axioms distinct_cancels
#print axioms ignoreElements_cancels
#print axioms id_cancels
#print axioms take_feed_cancels
#print axioms takeWhile_feed_cancels

end Rx.C02
