import RxVerif.Theorems.C03RefSeqEqChain
/-
C03-REF, sequence_equal, part 3: `concat_j.finalize` and the teardown of the whole chain `j`.
-/
namespace Rx.SeqRef
open Rx.Sim Rx.Ref Rx.Comb Rx.CRef

variable {k j : Nat} {b : CB} {w : World}

theorem mem3 {a b c x : Nat} (h : x ∈ [a, b]) : x ∈ [a, b, c] := by
  simp only [List.mem_cons, List.not_mem_nil, or_false] at h ⊢
  rcases h with q | q <;> simp [q]

/-- the entry of the `just(None)` observer in concat_j's map -/
def jl (b : CB) : List (Nat × Nat) := match b.jx with | some p => [(1, p.1)] | none => []

/-- the observers of chain `j` below zip's observer -/
def lowObs (k j : Nat) (b : CB) : List Nat := Co k j :: Mo k j :: (jl b).map (·.2)

def tFC (b : CB) : CB := { (if b.cR then tJ (tC b) else b) with cR := false }

theorem tC_jx (b : CB) : (tC b).jx = b.jx := by
  simp only [tC, tFM, tM]; split <;> (try split) <;> rfl
theorem tC_cR (b : CB) : (tC b).cR = b.cR := by
  simp only [tC, tFM, tM]; split <;> (try split) <;> rfl
theorem tC_z (b : CB) : (tC b).zL = b.zL ∧ (tC b).zH = b.zH := by
  simp only [tC, tFM, tM]; split <;> (try split) <;> exact ⟨rfl, rfl⟩

/-- `concat_j.finalize` (its subscriber, zip's observer `j`, has already lost its callbacks) -/
theorem finConcat_spec (h : ChainAt k j b w) (hj : j < k) (hz : b.zL = false)
    (hf : HF [2 * j, mmap k j, cmap k j] w) :
    WP (scC k j).finalize w
      (fun w' => ChainAt k j (tFC b) w' ∧ Same w w' [2 * j, mmap k j, cmap k j] (lowObs k j b)) := by
  have hne := @cells_ne k j
  let bE : CB := if b.cR then tJ (tC b) else b
  let CS : List Nat := [2 * j, mmap k j]
  let Inv : List (Nat × Nat) → World → Prop := fun l' w1 =>
    w1.held = (.cell (cmap k j), false) :: w.held ∧ Same w { w1 with held := w.held } CS (lowObs k j b) ∧
    ((l' = cmapOf k j b ∧ ChainAt k j b w1) ∨ (b.cR = true ∧ l' = jl b ∧ ChainAt k j (tC b) w1) ∨
     (b.cR = true ∧ l' = [] ∧ ChainAt k j (tJ (tC b)) w1))
  refine finalize_gen (scC k j) (cmapOf k j b) (Inv := Inv) h.cM (hf.free (by simp [scC]) _)
    ⟨rfl, Same.refl _ _ _, .inl ⟨rfl, h.setHeld _⟩⟩ ?_ ?_
  · rintro p rest w1 ⟨hh, hs, hI⟩
    have hf1 : HF CS w1 := by
      intro p hp; rw [hh] at hp
      exact (hf.push (cmap k j) false (S' := CS) (fun x hx => mem3 hx)
        (by simp [CS]; exact ⟨Ne.symm hne.1, hne.2.2.1⟩)) p hp
    rcases hI with ⟨hl, hch⟩ | ⟨hcr, hl, hch⟩ | ⟨_, hl, _⟩
    · have hcr : b.cR = true := by cases q : b.cR <;> simp [cmapOf, q] at hl; rfl
      simp only [cmapOf, hcr, ↓reduceIte, List.cons.injEq] at hl
      obtain ⟨rfl, hrest⟩ := hl
      refine (unsubC_spec hch hj hf1).conseq fun w2 ⟨h2, s2⟩ =>
        ⟨s2.held.trans hh, ?_, .inr (.inl ⟨hcr, ?_, h2⟩)⟩
      · exact hs.trans (Same.mono ⟨s2.cells, s2.obs, s2.slots, s2.users, s2.trace, s2.status, rfl, s2.obsLen⟩
          (fun _ q => q) (by intro o ho; simp only [lowObs, List.mem_cons, List.not_mem_nil, or_false] at ho ⊢; rcases ho with q | q <;> simp [q]))
      · rw [hrest]; rfl
    · cases hx : b.jx with
      | none => simp [jl, hx] at hl
      | some pj =>
        simp only [jl, hx, List.cons.injEq] at hl
        obtain ⟨rfl, rfl⟩ := hl
        refine (unsubJ_spec hch hj pj (by rw [tC_jx]; exact hx)).conseq fun w2 ⟨h2, s2⟩ =>
          ⟨s2.held.trans hh, ?_, .inr (.inr ⟨hcr, rfl, h2⟩)⟩
        exact hs.trans (Same.mono ⟨s2.cells, s2.obs, s2.slots, s2.users, s2.trace, s2.status, rfl, s2.obsLen⟩
          (by simp) (by simp [lowObs, jl, hx]))
    · exact absurd hl (by simp)
  · rintro w2 ⟨hh, hs, hI⟩
    have hE : ChainAt k j bE w2 := by
      rcases hI with ⟨hl, hch⟩ | ⟨hcr, hl, hch⟩ | ⟨hcr, _, hch⟩
      · have hcr : b.cR = false := by cases q : b.cR <;> simp [cmapOf, q] at hl; rfl
        simp only [bE, hcr, Bool.false_eq_true, ↓reduceIte]; exact hch
      · have hx : b.jx = none := by cases q : b.jx <;> simp [jl, q] at hl; rfl
        have : tJ (tC b) = tC b := by
          have hjn := tC_jx b; rw [hx] at hjn
          simp only [tJ, hjn, Option.map_none]
          rw [← hjn]
        simp only [bE, hcr, ↓reduceIte, this]; exact hch
      · simp only [bE, hcr, ↓reduceIte]; exact hch
    have hzl : bE.zL = false := by
      simp only [bE]; split
      · simp only [tJ]; rw [(tC_z b).1]; exact hz
      · exact hz
    have hsub := hE.oZ
    rw [hzl] at hsub
    refine finTail_spec (scC k j) (x := deadObs _) hh
      (fun p hp q => by obtain ⟨c, e, hn⟩ := hf p hp; rw [e] at q; cases q; exact hn (by simp [scC]))
      hf.cells hsub rfl hE.sl3 ⟨?_, ?_⟩
    · refine (hE.setHeld w.held).setCells hj _ (fun c _ h2 _ => set_get_other _ (Ne.symm h2)) (tFC b)
        (by simp only [tFC, bE])
        (by simp only [tFC]; rw [set_get_other _ (Ne.symm hne.1)]; exact hE.subjO)
        (by simp only [tFC, cmapOf]; exact set_get_same _ hE.cM)
        (by simp only [tFC]; rw [set_get_other _ hne.2.2.1]; exact hE.mM)
    · refine (hs.mono (fun x hx => mem3 hx) (fun _ q => q)).trans
        ⟨fun c hc' => ?_, fun _ _ => rfl, rfl, rfl, rfl, rfl, rfl, rfl⟩
      exact set_get_other _ (fun q => hc' (by rw [← q]; simp [scC]))

def tZ (b : CB) : CB := if b.zH then tFC { b with zL := false, zH := false } else { b with zL := false, zH := false }

/-- the cells / observers a teardown of chain `j` may touch -/
def chainCells (k j : Nat) : List Nat := [2 * j, mmap k j, cmap k j]
def chainObs (k j : Nat) (b : CB) : List Nat := Zo j :: lowObs k j b

/-- `unsubscribe` of zip's observer `j` (its teardown is `concat_j.finalize`): the whole chain is torn down -/
theorem unsubZ_spec (h : ChainAt k j b w) (hj : j < k) (hf : HF (chainCells k j) w) :
    WP (.obsUnsub (Zo j) .done) w
      (fun w' => ChainAt k j (tZ b) w' ∧ Same w w' (chainCells k j) (chainObs k j b)) := by
  have hZ := h.setZ hj (fun x => { x.cleared with onUnsub := none }) false false (by
    intro x hx
    rw [h.oZ] at hx; cases hx
    exact dead_of _ _ _ rfl)
  have hsame : Same w { w with obs := w.obs.modify (Zo j) fun x => { x.cleared with onUnsub := none } }
      (chainCells k j) (chainObs k j b) :=
    ⟨fun _ _ => rfl, fun o ho => modify_get_other _ _ (fun q => ho (by simp [chainObs, q])), rfl, rfl, rfl, rfl, rfl,
      by simp⟩
  cases hH : b.zH with
  | false =>
    refine wp_obsUnsub_none h.oZ (by cases b.zL <;> simp [zipObs, deadObs, optHook, hH]) (WP.done ⟨?_, hsame⟩)
    have e : tZ b = { b with zL := false, zH := false } := by simp [tZ, hH]
    rw [e]; exact hZ
  | true =>
    refine wp_obsUnsub_some (f := (scC k j).finalize) h.oZ
      (by cases b.zL <;> simp [zipObs, deadObs, optHook, hH]) ?_
    refine (finConcat_spec hZ hj rfl hf).conseq fun w2 ⟨h2, s2⟩ => WP.done ⟨?_, ?_⟩
    · have e : tZ b = tFC { b with zL := false, zH := false } := by simp [tZ, hH]
      rw [e]; exact h2
    · exact hsame.trans (s2.mono (fun _ q => q) (by intro o ho; simp only [chainObs, List.mem_cons]; right
                                                    simpa [lowObs, jl] using ho))

end Rx.SeqRef
