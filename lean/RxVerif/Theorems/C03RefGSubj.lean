import RxVerif.Theorems.C03RefGCtl
/-
C03-REF (general form), part 3: `Subject::next/error/complete` on subject `j` (subject.rs:37-52): the snapshot of
the subject's observers is exactly `inMap E c j`; a terminal first empties the subject's map (the entities of the
snapshot become `pend`), then each entity of the snapshot receives the event.
-/
namespace Rx.GRef
open Rx.Sim Rx.Ref Rx.Comb Rx.CRef

variable {L : GLay} {E : Ent} {hl : List (LockId × Bool)} {c : Ctl} {x : Fr} {out : List Ev} {w : World}

/-- a terminal broadcast on subject `j` has emptied its map -/
def Ent.pendAll (E : Ent) (j : Nat) : Ent :=
  { E with mode := fun e => if E.sub e = j ∧ E.mode e = .on then .pend else E.mode e }

theorem pend_fresh (E : Ent) (j e : Nat) : (E.pendAll j).mode e = .fresh ↔ E.mode e = .fresh := by
  simp only [Ent.pendAll]
  split
  · rename_i q; simp [q.2]
  · rfl

theorem pend_sub (E : Ent) (j : Nat) : (E.pendAll j).sub = E.sub := rfl
theorem pend_key (E : Ent) (j : Nat) : (E.pendAll j).key = E.key := rfl

theorem inMap_pend_same (E : Ent) (c : Ctl) (j : Nat) : inMap (E.pendAll j) c j = [] := by
  simp only [inMap, Ent.pendAll, List.filter_eq_nil_iff]
  intro e _
  by_cases q1 : E.sub e = j <;> by_cases q2 : E.mode e = .on <;> simp [q1, q2, Mode.isOn]

theorem inMap_pend_other (E : Ent) (c : Ctl) (j j' : Nat) (hne : j' ≠ j) :
    inMap (E.pendAll j) c j' = inMap E c j' := by
  simp only [inMap, Ent.pendAll]
  apply List.filter_congr
  intro e _
  by_cases q : E.sub e = j'
  · have : ¬ (E.sub e = j ∧ E.mode e = .on) := fun r => hne (q ▸ r.1)
    simp [this]
  · have : (E.sub e == j') = false := by rw [beq_eq_false_iff_ne]; exact q
    simp only [this, Bool.false_and]

theorem Rel.toPend (ok : L.Ok) (h : Rel L E hl c x out w) {j : Nat} (hj : j < L.k) :
    Rel L (E.pendAll j) hl c x out { w with cells := w.cells.set (2 * j) .lnil } := by
  have h1' := ok.cs; have h2' := ok.cm; have h3' := ok.cx
  have hnf : ∀ e, (E.pendAll j).mode e ≠ .fresh → E.mode e ≠ .fresh := fun e q r => q ((pend_fresh E j e).2 r)
  exact
  { status := h.status, held := h.held, hlOk := h.hlOk, root := h.root, user := h.user
    subLt := h.subLt, ex := h.ex
    subjO := by
      intro j' hj'
      show (w.cells.set _ _)[_]? = _
      by_cases q : j' = j
      · subst q; rw [set_get_same _ (h.subjO _ hj'), inMap_pend_same]; rfl
      · rw [set_get_other _ (by omega), inMap_pend_other E c j j' q]; exact h.subjO j' hj'
    subjS := by
      intro j' hj'; show (w.cells.set _ _)[_]? = _
      rw [set_get_other _ (by omega)]; exact h.subjS j' hj'
    keyLe := fun e he hm => h.keyLe e he (hnf e hm)
    keyInj := fun a b ha hb hma hmb => h.keyInj a b ha hb (hnf a hma) (hnf b hmb)
    slots := h.slots, slotF := h.slotF
    mapC := by
      obtain ⟨l, hm, hmem⟩ := h.mapC
      exact ⟨l, by show (w.cells.set _ _)[_]? = _; rw [set_get_other _ (by omega)]; exact hm, hmem⟩
    serC := ⟨by show (w.cells.set _ _)[_]? = _; rw [set_get_other _ (by omega)]; exact h.serC.1, h.serC.2⟩
    nObs := h.nObs
    inner := by
      intro e o ho
      have := h.inner e o ho
      by_cases q : E.mode e = .fresh
      · have q' := (pend_fresh E j e).2 q
        simpa [InnerSt, hookE, pend_sub, pend_key, q, q'] using this
      · have q' : (E.pendAll j).mode e ≠ .fresh := fun r => q ((pend_fresh E j e).1 r)
        simpa [InnerSt, hookE, pend_sub, pend_key, q, q'] using this
    xc := by show (w.cells.set _ _)[_]?.getD _ = _; rw [set_get_other _ (by omega)]; exact h.xc
    log := h.log }

/-! ### one delivery -/

/-- the broadcast loop over a snapshot of entities -/
def bcast (L : GLay) (ev : Ev) (l : List Nat) : Prog :=
  forEach (l.map fun e => Data.int (L.ob e)) fun o => evProg ev o.toInt.toNat .done

theorem bcast_nil (ev : Ev) : bcast L ev [] = .done := rfl

theorem bcast_cons (ev : Ev) (e : Nat) (l : List Nat) :
    bcast L ev (e :: l) = (evProg ev (L.ob e) .done ;; bcast L ev l) := by
  simp only [bcast, List.map_cons, forEach, toNat_int]

/-- an entity that is no longer live ignores the event (observer.rs: `fn_next` is gone) -/
theorem deliver_notlive {k : Prog} {Q : World → Prop} (h : Rel L E hl c x out w) {e : Nat}
    (hlv : c.live.contains e = false) (ev : Ev) (hk : WP k w Q) : WP (evProg ev (L.ob e) k) w Q := by
  cases ho : w.obs[L.ob e]? with
  | none => exact wp_ev_absent ho hk
  | some o =>
    have := h.inner e o ho
    rw [innerSt_dead hlv] at this
    exact wp_ev_dead ho this.1 hk

/-- a live entity receives the event: a terminal first takes its callbacks (observer.rs:40-52), then its closure runs -/
theorem deliver_live (ok : L.Ok) {k : Prog} {Q : World → Prop} (h : Rel L E hl c x out w) {e : Nat}
    (hlv : c.live.contains e = true) (ev : Ev) (hmode : ev.isTerminal = true → E.mode e ≠ .on)
    (hk : ∀ w1, Rel L E hl (if ev.isTerminal then c.kill e else c) x out w1 →
      WP (codeBody ev (L.hn e) (L.he e) (L.hc e)) w1 fun w2 => WP k w2 Q) :
    WP (evProg ev (L.ob e) k) w Q := by
  have hkn := known_live hlv
  obtain ⟨o, ho⟩ : ∃ o, w.obs[L.ob e]? = some o := ⟨_, List.getElem?_eq_getElem (h.ex e hkn)⟩
  have hst := h.inner e o ho
  simp only [InnerSt, hlv, ↓reduceIte] at hst
  refine wp_ev_code ho (by rw [hst]) (by rw [hst]) (by rw [hst]) ?_
  cases ht : ev.isTerminal with
  | false => simp only [ht, Bool.false_eq_true, ↓reduceIte] at hk ⊢; exact hk w h
  | true =>
    simp only [ht, ↓reduceIte] at hk ⊢
    refine hk _ ?_
    have hj := h.subLt e hkn
    refine h.kill_unsub ok ho hj Obs.cleared ?_ w.cells (fun _ _ => rfl) ?_
    · rw [hst]
      by_cases q : E.mode e = .fresh <;> simp [DeadObs, Obs.cleared, q]
    · rw [h.subjO _ hj, inMap_kill_notin]
      intro hm
      simp only [inMap, List.mem_filter, Bool.and_eq_true, Mode.isOn_iff] at hm
      exact hmode ht hm.2.2

/-- `Subject::next / error / complete` on subject `j` -/
theorem subj_call (ok : L.Ok) {Q : World → Prop} (h : Rel L E [] c x out w) {j : Nat} (hj : j < L.k) (ev : Ev)
    (hk : ∀ w1, Rel L (if ev.isTerminal then E.pendAll j else E) [] c x out w1 →
      WP (bcast L ev (inMap E c j)) w1 Q) : WP (evCall (sjOf j) ev) w Q := by
  have hread : w.cells[2 * j]?.getD .unit = encMap ((inMap E c j).map fun e => (E.key e, L.ob e)) := by
    rw [h.subjO j hj]; rfl
  have hvals : amapVals (encMap ((inMap E c j).map fun e => (E.key e, L.ob e))) =
      (inMap E c j).map fun e => Data.int (L.ob e) := by
    rw [amapVals_encMap, List.map_map]; rfl
  cases ev with
  | next d =>
    refine wp_cellRead h.held ?_
    show WP (forEach (amapVals (w.cells[2 * j]?.getD .unit)) _) w _
    rw [hread, hvals]
    exact hk w h
  | error e =>
    refine wp_cellRead h.held (wp_cellWrite h.held ?_)
    show WP (forEach (amapVals (w.cells[2 * j]?.getD .unit)) _) _ _
    rw [hread, hvals]
    exact hk _ (h.toPend ok hj)
  | complete =>
    refine wp_cellRead h.held (wp_cellWrite h.held ?_)
    show WP (forEach (amapVals (w.cells[2 * j]?.getD .unit)) _) _ _
    rw [hread, hvals]
    exact hk _ (h.toPend ok hj)

end Rx.GRef
