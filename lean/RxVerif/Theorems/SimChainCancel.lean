import RxVerif.Theorems.SimChainStage
/-
SIM for chains, part 9 (pure): the cancellation cascade (C06 for chains).  For kernels that abort first
(`Kernel.AbortsFirst`, true of every kernel of Kernel/Basic.lean) the flat chain machine keeps, between
source events:   observer `j` dead  ⟹  observer `j+1` dead   (all the way up to the source's observer).

Invariants (stage `j < n`):  G2: serial of stage `j` no longer registered ⟹ its upstream observer is dead;
G31: teardown of observer `j` taken ⟹ observer `j+1` dead;  G1: observer `j` dead ⟹ observer `j+1` dead
(G1 `j` is broken only between a terminal delivered into observer `j` and the `finalize` that follows).
-/
namespace Rx.Chain
open Rx.Sim

def G1 (j : Nat) (x : CSt) : Prop := x.sub j = false → x.sub (j + 1) = false
def G2 (j : Nat) (x : CSt) : Prop := x.rg j = false → x.sub (j + 1) = false
def G31 (j : Nat) (x : CSt) : Prop := x.ar j = false → x.sub (j + 1) = false

/-- G2 and G31 for all stages `k ≤ j < n` -/
def ClUp (n k : Nat) (x : CSt) : Prop := ∀ j, k ≤ j → j < n → G2 j x ∧ G31 j x

/-- all invariants; G1 is not claimed at the indices in `B` -/
structure HB (n : Nat) (B : Nat → Prop) (x : CSt) : Prop where
  cl : ClUp n 0 x
  g1 : ∀ j, j < n → ¬ B j → G1 j x

/-- `y` and `x` have the same flags above index `j` -/
def SameAbove (j : Nat) (y x : CSt) : Prop :=
  ∀ a, j < a → y.sub a = x.sub a ∧ y.ar a = x.ar a ∧ y.rg a = x.rg a

theorem SameAbove.g1 {j k : Nat} {y x : CSt} (h : SameAbove j y x) (hk : j < k) (g : G1 k x) : G1 k y := by
  unfold G1 at *; rw [(h k hk).1, (h (k + 1) (by omega)).1]; exact g
theorem SameAbove.g2 {j k : Nat} {y x : CSt} (h : SameAbove j y x) (hk : j < k) (g : G2 k x) : G2 k y := by
  unfold G2 at *; rw [(h k hk).2.2, (h (k + 1) (by omega)).1]; exact g
theorem SameAbove.g31 {j k : Nat} {y x : CSt} (h : SameAbove j y x) (hk : j < k) (g : G31 k x) : G31 k y := by
  unfold G31 at *; rw [(h k hk).2.1, (h (k + 1) (by omega)).1]; exact g

/-- the tail of `finalize` of stage `j`: forget the serial, unsubscribe the subscriber -/
def finTail (j : Nat) (y : CSt) : CSt := if (y.unreg j).sub j then (y.unreg j).clear j else y.unreg j

theorem finF_tail (up : CSt → CSt) (j : Nat) (x : CSt) :
    finF up j x = finTail j (if x.rg j then up x else x) := rfl

theorem finTail_above (j : Nat) (y : CSt) : SameAbove j (finTail j y) y := by
  intro a ha
  have hne : a ≠ j := by omega
  unfold finTail; split <;> simp [hne]

theorem finTail_sub_succ (j : Nat) (y : CSt) : (finTail j y).sub (j + 1) = y.sub (j + 1) :=
  ((finTail_above j y) (j + 1) (Nat.lt_succ_self _)).1

/-- what the upward cascade from observer `j` guarantees -/
structure UpOk (n j : Nat) (x y : CSt) : Prop where
  cl : ClUp n j y
  g1 : ∀ k, j ≤ k → k < n → G1 k x → G1 k y
  g1j : j < n → G1 j y
  dead : y.sub j = false

theorem finF_ok {n j : Nat} {up : CSt → CSt} (hj : j < n)
    (hup : ∀ x, ClUp n (j + 1) x → UpOk n (j + 1) x (up x)) (x : CSt)
    (hcl : ClUp n (j + 1) x) (h2 : G2 j x) :
    ClUp n j (finF up j x) ∧ (∀ k, j < k → k < n → G1 k x → G1 k (finF up j x)) ∧
      (finF up j x).sub (j + 1) = false := by
  rw [finF_tail]
  -- the state after the `for unsub in unscribers` loop
  have hmid : ClUp n (j + 1) (if x.rg j then up x else x) ∧
      (∀ k, j < k → k < n → G1 k x → G1 k (if x.rg j then up x else x)) ∧
      (if x.rg j then up x else x).sub (j + 1) = false := by
    cases hr : x.rg j with
    | true =>
      simp only [↓reduceIte]
      have h := hup x hcl
      exact ⟨h.cl, fun k hk hkn g => h.g1 k hk hkn g, h.dead⟩
    | false =>
      simp only [Bool.false_eq_true, ↓reduceIte]
      exact ⟨hcl, fun _ _ _ g => g, h2 hr⟩
  generalize (if x.rg j then up x else x) = y at hmid ⊢
  obtain ⟨hc, hg, hd⟩ := hmid
  have ha := finTail_above j y
  have hd' : (finTail j y).sub (j + 1) = false := by rw [finTail_sub_succ]; exact hd
  refine ⟨?_, fun k hk hkn g => ha.g1 hk (hg k hk hkn g), hd'⟩
  intro k hk hkn
  rcases Nat.lt_or_ge j k with hlt | hge
  · exact ⟨ha.g2 hlt (hc k hlt hkn).1, ha.g31 hlt (hc k hlt hkn).2⟩
  · have : k = j := by omega
    subst this
    exact ⟨fun _ => hd', fun _ => hd'⟩

theorem unsubO_ok (n : Nat) : ∀ (f j : Nat) (x : CSt), j + f = n → ClUp n j x → UpOk n j x (unsubO f j x) := by
  intro f
  induction f with
  | zero =>
    intro j x hj _
    have : j = n := by omega
    subst this
    exact ⟨fun k hk hkn => by omega, fun k hk hkn => by omega, fun h => by omega, by simp [unsubO]⟩
  | succ f ih =>
    intro j x hj hcl
    have hjn : j < n := by omega
    have hcl1 : ClUp n (j + 1) (x.clear j) := by
      intro k hk hkn
      have sa : SameAbove j (x.clear j) x := by
        intro a ha; have : a ≠ j := by omega
        simp [this]
      exact ⟨sa.g2 hk (hcl k (by omega) hkn).1, sa.g31 hk (hcl k (by omega) hkn).2⟩
    have sa : SameAbove j (x.clear j) x := by
      intro a ha; have : a ≠ j := by omega
      simp [this]
    simp only [unsubO]
    cases har : x.ar j with
    | true =>
      simp only [↓reduceIte]
      have h2 : G2 j (x.clear j) := by
        intro hr
        have := (hcl j (Nat.le_refl _) hjn).1 hr
        simpa using this
      obtain ⟨c, g, d⟩ := finF_ok hjn (fun x hx => ih (j + 1) x (by omega) hx) (x.clear j) hcl1 h2
      refine ⟨c, ?_, fun _ _ => d, finF_sub_false _ _ _⟩
      intro k hk hkn gk
      rcases Nat.lt_or_ge j k with hlt | hge
      · exact g k hlt hkn (sa.g1 hlt gk)
      · have : k = j := by omega
        subst this; exact fun _ => d
    | false =>
      simp only [Bool.false_eq_true, ↓reduceIte]
      have hd : (x.clear j).sub (j + 1) = false := by
        have := (hcl j (Nat.le_refl _) hjn).2 har
        simpa using this
      refine ⟨?_, ?_, fun _ _ => hd, by simp⟩
      · intro k hk hkn
        rcases Nat.lt_or_ge j k with hlt | hge
        · exact hcl1 k hlt hkn
        · have : k = j := by omega
          subst this; exact ⟨fun _ => hd, fun _ => hd⟩
      · intro k hk hkn gk
        rcases Nat.lt_or_ge j k with hlt | hge
        · exact sa.g1 hlt gk
        · have : k = j := by omega
          subst this; exact fun _ => hd

/-- an operation that keeps everything below `i` and never re-subscribes keeps the invariants below `i` -/
theorem below_keep {i k : Nat} {y x : CSt} (hk : Keep i y x) (hm : x.sub i = false → y.sub i = false)
    (hki : k < i) : (G1 k x → G1 k y) ∧ (G2 k x → G2 k y) ∧ (G31 k x → G31 k y) := by
  have hs : x.sub (k + 1) = false → y.sub (k + 1) = false := by
    intro h
    rcases Nat.lt_or_ge (k + 1) i with hlt | hge
    · rw [hk.sub _ hlt]; exact h
    · have : k + 1 = i := by omega
      rw [this] at h ⊢; exact hm h
  refine ⟨fun g h => hs (g ?_), fun g h => hs (g ?_), fun g h => hs (g ?_)⟩
  · rw [← hk.sub k hki]; exact h
  · rw [← hk.rg k hki]; exact h
  · rw [← hk.ar k hki]; exact h

theorem HB.weaken {n : Nat} {B B' : Nat → Prop} {x : CSt} (h : HB n B x) (hb : ∀ j, B j → B' j) : HB n B' x :=
  ⟨h.cl, fun j hj hn => h.g1 j hj (fun hbj => hn (hb j hbj))⟩

/-- `finalize` of stage `i` re-establishes G1 `i` -/
theorem finC_HB {n i : Nat} {B : Nat → Prop} {x : CSt} (hi : i < n) (h : HB n (fun j => B j ∨ j = i) x) :
    HB n B (finC n i x) := by
  have hcl1 : ClUp n (i + 1) x := fun k hk hkn => h.cl k (Nat.zero_le _) hkn
  obtain ⟨c, g, d⟩ := finF_ok (up := upO n i) hi
    (fun x hx => unsubO_ok n _ _ x (by omega) hx) x hcl1 (h.cl i (Nat.zero_le _) hi).1
  have hb := fun k (hk : k < i) => below_keep (k := k) (finC_keep n i x) (mono_finC n i x i) hk
  refine ⟨?_, ?_⟩
  · intro k _ hkn
    rcases Nat.lt_or_ge k i with hlt | hge
    · exact ⟨(hb k hlt).2.1 (h.cl k (Nat.zero_le _) hkn).1, (hb k hlt).2.2 (h.cl k (Nat.zero_le _) hkn).2⟩
    · exact c k hge hkn
  · intro k hkn hB
    rcases Nat.lt_trichotomy k i with hlt | heq | hgt
    · exact (hb k hlt).1 (h.g1 k hkn (by intro hh; rcases hh with hh | hh; exact hB hh; omega))
    · subst heq; exact fun _ => d
    · exact g k hgt hkn (h.g1 k hkn (by intro hh; rcases hh with hh | hh; exact hB hh; omega))

/-- `upstream_abort_observe` of stage `i` -/
theorem abort_HB {n i : Nat} {B : Nat → Prop} {x : CSt} (hi : i < n) (h : HB n B x) :
    HB n B (if x.rg i then upO n i (x.unreg i) else x.unreg i) ∧
      (if x.rg i then upO n i (x.unreg i) else x.unreg i).sub (i + 1) = false := by
  have sa : SameAbove i (x.unreg i) x := by
    intro a ha; have : a ≠ i := by omega
    simp [this]
  cases hr : x.rg i with
  | true =>
    simp only [↓reduceIte]
    have hcl1 : ClUp n (i + 1) (x.unreg i) := fun k hk hkn =>
      ⟨sa.g2 hk (h.cl k (Nat.zero_le _) hkn).1, sa.g31 hk (h.cl k (Nat.zero_le _) hkn).2⟩
    have hu := unsubO_ok n (n - (i + 1)) (i + 1) (x.unreg i) (by omega) hcl1
    have hkeep : Keep i (upO n i (x.unreg i)) x :=
      ((upO_keep n i _).mono (Nat.le_succ _)).trans (keep_unreg x (Nat.le_refl _))
    have hm : x.sub i = false → (upO n i (x.unreg i)).sub i = false :=
      fun hs => mono_unsubO _ _ (x.unreg i) i hs
    have hb := fun k (hk : k < i) => below_keep (k := k) hkeep hm hk
    refine ⟨⟨?_, ?_⟩, hu.dead⟩
    · intro k _ hkn
      rcases Nat.lt_trichotomy k i with hlt | heq | hgt
      · exact ⟨(hb k hlt).2.1 (h.cl k (Nat.zero_le _) hkn).1, (hb k hlt).2.2 (h.cl k (Nat.zero_le _) hkn).2⟩
      · subst heq; exact ⟨fun _ => hu.dead, fun _ => hu.dead⟩
      · exact hu.cl k hgt hkn
    · intro k hkn hB
      rcases Nat.lt_trichotomy k i with hlt | heq | hgt
      · exact (hb k hlt).1 (h.g1 k hkn hB)
      · subst heq; exact fun _ => hu.dead
      · exact hu.g1 k hgt hkn (sa.g1 hgt (h.g1 k hkn hB))
  | false =>
    simp only [Bool.false_eq_true, ↓reduceIte]
    have hd : x.sub (i + 1) = false := (h.cl i (Nat.zero_le _) hi).1 hr
    refine ⟨⟨?_, fun k hkn hB => h.g1 k hkn hB⟩, hd⟩
    intro k _ hkn
    refine ⟨?_, (h.cl k (Nat.zero_le _) hkn).2⟩
    intro hrk
    by_cases e : k = i
    · subst e; exact hd
    · exact (h.cl k (Nat.zero_le _) hkn).1 (by simpa [e] using hrk)

/-! ### deliveries -/

/-- a delivery into observer `i` keeps the invariants, except G1 `i` when it was a terminal -/
def DnHB (n i : Nat) (dn : Ev → CSt → CSt) : Prop :=
  ∀ ev B x, HB n B x → HB n (fun j => B j ∨ (ev.isTerminal = true ∧ j = i)) (dn ev x)

theorem okActs_true (as : List Act) : okActs true as = true := by
  induction as with
  | nil => rfl
  | cons a as ih => cases a <;> simp [okActs, ih]

theorem HB.flags {n : Nat} {B : Nat → Prop} {x y : CSt} (h : HB n B x) (hs : y.sub = x.sub) (ha : y.ar = x.ar)
    (hr : y.rg = x.rg) : HB n B y := by
  refine ⟨fun j _ hj => ?_, fun j hj hB => ?_⟩
  · have := h.cl j (Nat.zero_le _) hj
    simpa [G2, G31, hs, ha, hr] using this
  · have := h.g1 j hj hB
    simpa [G1, hs] using this

section actsHB
variable {n i : Nat} {dn : Ev → CSt → CSt}

theorem sinkNext_HB (hi : i < n) (hd : DnHB n i dn) {B : Nat → Prop} (d : Data) {x : CSt} (h : HB n B x) :
    HB n B (sinkNextC n dn i d x) := by
  simp only [sinkNextC]; split
  · exact (hd (.next d) B x h).weaken (fun j hj => by
      rcases hj with hj | ⟨hj, _⟩
      · exact hj
      · cases hj)
  · exact finC_HB hi (h.weaken fun j hj => Or.inl hj)

theorem emitAll_HB (hi : i < n) (hd : DnHB n i dn) {B : Nat → Prop} (ds : List Data) : ∀ {x : CSt}, HB n B x →
    HB n B (emitAllC n dn i ds x) := by
  induction ds with
  | nil => intro x h; exact h
  | cons d ds ih =>
    intro x h
    simp only [emitAllC]; split
    · exact ih (sinkNext_HB hi hd d h)
    · exact h

theorem unreg_HB (hi : i < n) {B : Nat → Prop} {x : CSt} (h : HB n B x) (hs : x.sub (i + 1) = false) :
    HB n B (x.unreg i) := by
  refine ⟨fun j _ hj => ⟨?_, (h.cl j (Nat.zero_le _) hj).2⟩, fun j hj hB => h.g1 j hj hB⟩
  intro hr
  by_cases e : j = i
  · subst e; exact hs
  · exact (h.cl j (Nat.zero_le _) hj).1 (by simpa [e] using hr)

theorem act_HB (hi : i < n) (hd : DnHB n i dn) {B : Nat → Prop} (a : Act) {x : CSt} (h : HB n B x)
    (hc : a = .complete → x.sub (i + 1) = false) : HB n B (actC n dn i a x) := by
  have term : ∀ {ev : Ev} {y : CSt}, HB n (fun j => B j ∨ (ev.isTerminal = true ∧ j = i)) y →
      HB n B (finC n i y) := fun hy => finC_HB hi (hy.weaken fun j hj => by
        rcases hj with hj | ⟨_, hj⟩
        · exact Or.inl hj
        · exact Or.inr hj)
  have fin : ∀ {y : CSt}, HB n B y → HB n B (finC n i y) :=
    fun hy => finC_HB hi (hy.weaken fun j hj => Or.inl hj)
  cases a with
  | emit d => exact sinkNext_HB hi hd d h
  | emitAll ds => exact emitAll_HB hi hd ds h
  | fail e =>
    simp only [actC]; split
    · exact term (hd (.error e) B x h)
    · exact fin h
  | complete =>
    simp only [actC]; split
    · exact term (hd .complete B _ (unreg_HB hi h (hc rfl)))
    · exact fin h
  | abortSelf => exact (abort_HB hi h).1
  | finalize => exact fin h

theorem acts_HB (hi : i < n) (hd : DnHB n i dn) (hm : ∀ ev, Mono (dn ev)) {B : Nat → Prop} (as : List Act) :
    ∀ (ab : Bool) {x : CSt}, okActs ab as = true → (ab = true → x.sub (i + 1) = false) → HB n B x →
      HB n B (actsC n dn i as x) := by
  induction as with
  | nil => intro ab x _ _ h; exact h
  | cons a as ih =>
    intro ab x hok hab h
    simp only [actsC, List.foldl_cons]
    have hmono := mono_actC (n := n) (i := i) hm a x (i + 1)
    cases a with
    | abortSelf =>
      exact ih true (by simpa [okActs] using hok) (fun _ => (abort_HB hi h).2) (abort_HB hi h).1
    | complete =>
      simp only [okActs, Bool.and_eq_true] at hok
      have hs := hab hok.1
      exact ih ab hok.2 (fun _ => hmono hs) (act_HB hi hd _ h (fun _ => hs))
    | emit d =>
      exact ih ab (by simpa [okActs] using hok) (fun e => hmono (hab e)) (act_HB hi hd _ h (fun e => by cases e))
    | emitAll ds =>
      exact ih ab (by simpa [okActs] using hok) (fun e => hmono (hab e)) (act_HB hi hd _ h (fun e => by cases e))
    | fail e =>
      exact ih ab (by simpa [okActs] using hok) (fun e => hmono (hab e)) (act_HB hi hd _ h (fun e => by cases e))
    | finalize =>
      exact ih ab (by simpa [okActs] using hok) (fun e => hmono (hab e)) (act_HB hi hd _ h (fun e => by cases e))

end actsHB

/-- every stage's `on_next` aborts before it completes -/
def AFks (ks : Nat → DK) : Prop := ∀ j st x, okActs false ((ks j).onNext st x).2 = true

theorem deliver_HB (n : Nat) (ks : Nat → DK) (haf : AFks ks) : ∀ i, i ≤ n → DnHB n i (deliver n ks i) := by
  intro i
  induction i with
  | zero =>
    intro _ ev B x h
    simp only [deliver]; split
    · refine ⟨fun j _ hj => ?_, fun j hj hB => ?_⟩
      · have hc := h.cl j (Nat.zero_le _) hj
        have e : ∀ a, (if ev.isTerminal then upd x.sub 0 false else x.sub) (a + 1) = x.sub (a + 1) := by
          intro a; split
          · simp [upd_apply]
          · rfl
        exact ⟨fun hr => (e j).trans (hc.1 hr), fun hr => (e j).trans (hc.2 hr)⟩
      · have e : ∀ a, (if ev.isTerminal then upd x.sub 0 false else x.sub) (a + 1) = x.sub (a + 1) := by
          intro a; split
          · simp [upd_apply]
          · rfl
        intro hs
        refine (e j).trans (h.g1 j hj (fun hb => hB (Or.inl hb)) ?_)
        cases j with
        | zero =>
          cases ht : ev.isTerminal with
          | true => exact absurd (Or.inr ⟨ht, rfl⟩) hB
          | false => simpa [ht] using hs
        | succ a => exact (e a).symm.trans hs
    · exact h.weaken fun j hj => Or.inl hj
  | succ i ih =>
    intro hi ev B x h
    have hin : i < n := by omega
    have hd := ih (Nat.le_of_lt hin)
    have hm := mono_deliver n ks i
    simp only [deliver]; split
    · cases ev with
      | next d =>
        have h0 : HB n B { x with st := upd x.st i ((ks i).onNext (x.st i) d).1 } := h.flags rfl rfl rfl
        exact (acts_HB hin hd hm _ false (haf i _ _) (fun e => by cases e) h0).weaken fun j hj => Or.inl hj
      | error e =>
        have h0 : HB n (fun j => B j ∨ ((Ev.error e).isTerminal = true ∧ j = i + 1))
            { x with sub := upd x.sub (i + 1) false, st := upd x.st i ((ks i).onError (x.st i) e).1 } := by
          have hsub : ∀ a, x.sub a = false → upd x.sub (i + 1) false a = false := by
            intro a ha; simp only [upd_apply]; split
            · rfl
            · exact ha
          refine ⟨fun j _ hj => ⟨fun hr => hsub _ ((h.cl j (Nat.zero_le _) hj).1 hr),
            fun hr => hsub _ ((h.cl j (Nat.zero_le _) hj).2 hr)⟩, fun j hj hB hs => ?_⟩
          have hne : j ≠ i + 1 := fun e => hB (Or.inr ⟨rfl, e⟩)
          exact hsub _ (h.g1 j hj (fun hb => hB (Or.inl hb)) (by simpa [upd_apply, hne] using hs))
        exact acts_HB hin hd hm _ true (okActs_true _) (fun _ => by simp [upd_apply]) h0
      | complete =>
        have h0 : HB n (fun j => B j ∨ (Ev.complete.isTerminal = true ∧ j = i + 1))
            { x with sub := upd x.sub (i + 1) false, st := upd x.st i ((ks i).onComplete (x.st i)).1 } := by
          have hsub : ∀ a, x.sub a = false → upd x.sub (i + 1) false a = false := by
            intro a ha; simp only [upd_apply]; split
            · rfl
            · exact ha
          refine ⟨fun j _ hj => ⟨fun hr => hsub _ ((h.cl j (Nat.zero_le _) hj).1 hr),
            fun hr => hsub _ ((h.cl j (Nat.zero_le _) hj).2 hr)⟩, fun j hj hB hs => ?_⟩
          have hne : j ≠ i + 1 := fun e => hB (Or.inr ⟨rfl, e⟩)
          exact hsub _ (h.g1 j hj (fun hb => hB (Or.inl hb)) (by simpa [upd_apply, hne] using hs))
        exact acts_HB hin hd hm _ true (okActs_true _) (fun _ => by simp [upd_apply]) h0
    · exact h.weaken fun j hj => Or.inl hj

theorem pf_HB (n : Nat) (ks : Nat → DK) (haf : AFks ks) (l : List Ev) : ∀ (x : CSt),
    HB n (fun j => j = n) x → HB n (fun j => j = n) (pf n ks n l x) := by
  induction l with
  | nil => intro x h; exact h
  | cons e l ih =>
    intro x h
    rw [pf_cons]
    split
    · exact ih _ ((deliver_HB n ks haf n (Nat.le_refl _) e _ x h).weaken fun j hj => by
        rcases hj with hj | ⟨_, hj⟩ <;> exact hj)
    · exact ih _ h

theorem init_HB (n : Nat) (ks : Nat → DK) : HB n (fun j => j = n) (CSt.init n ks) := by
  refine ⟨fun j _ hj => ⟨fun h => (by cases h), fun h => ?_⟩, fun j _ _ h => (by cases h)⟩
  simp [CSt.init, hj] at h

/-- between source events: a dead observer anywhere in the chain means the source's observer is dead -/
theorem dead_up {n : Nat} {x : CSt} (h : ∀ j, j < n → G1 j x) : ∀ (d j : Nat), j + d = n →
    x.sub j = false → x.sub n = false := by
  intro d
  induction d with
  | zero => intro j hj hs; have : j = n := by omega
            subst this; exact hs
  | succ d ih => intro j hj hs; exact ih (j + 1) (by omega) (h j (by omega) hs)

def AllAF (Ks : List AnyKernel) : Prop := ∀ A ∈ Ks, Kernel.AbortsFirst A.K

theorem afks_of (Ks : List AnyKernel) (h : AllAF Ks) : AFks (ksOf Ks) := by
  intro j st x
  simp only [ksOf]
  split
  · rename_i A hA
    exact h A (List.mem_reverse.mp (List.mem_of_getElem? hA)) _ _
  · rfl

/-- C06 for chains (pure form): in the final state of the flat chain machine, a dead observer anywhere
    in the chain implies that the source's observer is dead -/
theorem chainFlat_cascade (Ks : List AnyKernel) (hA : AllAF Ks) (s : Stream) (j : Nat) (hj : j ≤ Ks.length)
    (hd : (chainFlat Ks s).sub j = false) : (chainFlat Ks s).sub Ks.length = false := by
  have h : HB Ks.length (fun j => j = Ks.length) (chainFlat Ks s) := by
    unfold chainFlat
    rw [scriptC_eq_pf]
    exact pf_HB _ _ (afks_of Ks hA) _ _ (init_HB _ _)
  exact dead_up (fun k hk => h.g1 k hk (by omega)) (Ks.length - j) j (by omega) hd

/-- a terminal delivered politely into observer `i` leaves it dead -/
theorem deliver_terminal_dead (n : Nat) (ks : Nat → DK) (i : Nat) (ev : Ev) (x : CSt) (ht : ev.isTerminal = true) :
    (if x.sub i then deliver n ks i ev x else x).sub i = false := by
  cases hs : x.sub i with
  | false => simpa using hs
  | true =>
    simp only [↓reduceIte]
    cases i with
    | zero => simp [deliver, hs, ht, upd_apply]
    | succ j =>
      cases ev with
      | next d => cases ht
      | error e =>
        simp only [deliver, hs, ↓reduceIte]
        exact mono_actsC (mono_deliver n ks j) _ _ (j + 1) (by simp [upd_apply])
      | complete =>
        simp only [deliver, hs, ↓reduceIte]
        exact mono_actsC (mono_deliver n ks j) _ _ (j + 1) (by simp [upd_apply])

/-- a source that delivers its own terminal finds its observer dead afterwards (any kernels) -/
theorem chainFlat_source_terminal (Ks : List AnyKernel) (s : Stream) (hs : s.2 ≠ .silent) :
    (chainFlat Ks s).sub Ks.length = false := by
  unfold chainFlat
  rw [scriptC_eq_pf]
  obtain ⟨xs, e⟩ := s
  cases e with
  | silent => exact absurd rfl hs
  | complete =>
    simp only [Stream.toEvs, Ending.toEvs, pf_append, pf_cons, pf_nil]
    exact deliver_terminal_dead _ _ _ _ _ rfl
  | error e =>
    simp only [Stream.toEvs, Ending.toEvs, pf_append, pf_cons, pf_nil]
    exact deliver_terminal_dead _ _ _ _ _ rfl

end Rx.Chain
