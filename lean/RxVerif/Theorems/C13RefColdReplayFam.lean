import RxVerif.Theorems.C13RefColdReplayHooks2
/-
C13-REF, replay over a COLD source: `on_unsubscribe`, and the cold relation as an `RFam` — which gives
`unsubscribe`, the front part of `subscribe` and the ordinary hand-over for it.
-/
namespace Rx.CRef
open Rx.Sim Rx.SubjM Rx.Ref Rx.RefR

/-- `on_unsubscribe(len)` (replay.rs:41-50) = `ConnM.onUnsubscribe` -/
theorem onUnsubHookRc_spec {script L cobs cacs armed pend unst Hd w st}
    (h : RelRpc script L cobs cacs armed pend unst Hd w st) (len0 : Nat) :
    WP (onUnsubHook rcR (.int (len0 : Nat))) w (fun w' => ∃ armed',
      RelRpc script L cobs cacs armed' pend unst Hd w' (ConnM.onUnsubscribe st (some len0))) := by
  obtain ⟨g, U, X, hs⟩ := h.inv.ur
  unfold onUnsubHook ConnM.onUnsubscribe
  have hti : (Data.int (len0 : Nat)).toInt = (len0 : Int) := rfl
  simp only [hti]
  by_cases h0 : len0 = 0
  · subst h0
    simp only [Int.natCast_zero, beq_self_eq_true, ↓reduceIte]
    refine wp_cellReadG h.inv.held ?_
    rw [show w.cells[rcR.subscription]? = some (subCellR cobs cacs st.subscription) from X.cellB]
    simp only [Option.getD_some]
    cases hsb : st.subscription with
    | none =>
      simp only [subCellR]
      refine wp_cellWriteG h.inv.held (WP.done ⟨armed, ?_⟩)
      have g1 : Glob (L.roots ++ L.fwds) cobs { w with cells := w.cells.set rcR.cancelled (.bool true) } :=
        ⟨g.status, g.nObs, g.rootsLt, g.cobsLt, g.nodup⟩
      refine ⟨⟨g1, h.inv.held, ⟨g1, ?_, ?_, hs⟩, ?_⟩, h.full, h.pristine⟩
      · refine U.frameW rfl (by simp) (fun i _ h6 => set_get_other _ (by simp [rcR]; omega)) ?_ (fun _ _ => rfl)
          (fun _ => rfl)
        intro c hc
        exact set_get_other _ (by have := (U.cellsGe c hc).1; simp [rcR]; omega)
      · simp only [Option.isNone_none, Bool.or_true]
        exact
          { X with
            cellG := by show (w.cells.set 9 _)[7]? = _; rw [set_get_other _ (by decide)]; exact X.cellG
            cellB := by show (w.cells.set 9 _)[8]? = _; rw [set_get_other _ (by decide)]; exact hsb ▸ X.cellB
            cellN := set_get_same _ X.cellN
            sbLt := fun i hi => by cases hi
            caGe := fun c hc => by simpa using X.caGe c hc }
      · refine h.inv.conns.frame (fun _ _ => rfl) (fun i hi => set_get_other _ ?_) rfl
        have := (X.caGe _ (rootAt_mem (l := cacs) (i := i)
          (by rw [X.lenCa, h.inv.conns.lenC, ← h.full]; exact hi))).1
        simp [rcR]; omega
    | some i =>
      simp only [subCellR]
      have hi : i < st.conns.length := by rw [← h.inv.conns.lenC]; exact X.sbLt i hsb
      refine (srcUnsubRc_spec h hi).conseq ?_
      intro w' h'
      exact ⟨_, h'.flags rfl rfl rfl hsb.symm (by simp)⟩
  · have : ((len0 : Int) == 0) = false := by
      rw [beq_eq_false_iff_ne]; intro e; exact h0 (by omega)
    simp only [this, Bool.false_eq_true, ↓reduceIte]
    have hne : ¬ (some len0 = some 0) := by simpa using h0
    rw [if_neg hne]
    exact WP.done ⟨armed, h⟩

def coldFam (script : List Ev) : RFam where
  src := .cold script
  Rel := RelRpc script
  ur := fun h => h.ur
  held := fun h => h.inv.held
  held_swap := fun h hw hs => h.held_swap hw hs
  ready := fun h => h.ready
  registerUser := fun h => h.registerUser
  patchUser := fun h _ ho w' r' O' a1 a2 a3 a4 a5 a6 a7 a8 a9 a10 a11 a12 a13 a14 a15 a16 a17 a18 a19 a20 a21 a22 a23
      a24 =>
    h.patchUser ho w' r' O' a1 a2 a3 a4 a5 a6 a7 a8 a9 a10 a11 a12 a13 a14 a15 a16 a17 a18 a19 a20 a21 a22 a23 a24
  storeUser := fun h w' r' O' a1 a2 a3 a4 a5 a6 a7 a8 a9 a10 a11 a12 a13 a14 a15 a16 a17 a18 a19 a20 a21 a22 =>
    h.storeUser w' r' O' a1 a2 a3 a4 a5 a6 a7 a8 a9 a10 a11 a12 a13 a14 a15 a16 a17 a18 a19 a20 a21 a22
  onUnsubHook := fun h len0 => onUnsubHookRc_spec h len0
  onSubHook := fun h len1 => onSubHookRc_spec h len1

/-- `Subscription::unsubscribe` of a test user -/
theorem unsubscribeRc_spec {script L cobs cacs armed w st} (h : RelRpc script L cobs cacs armed none none [] w st)
    (u : Nat) :
    WP (.userUnsub u .done) w (fun w' => ∃ armed',
      RelRpc script L cobs cacs armed' none none [] w' (ConnM.step .replay (.cold script) st (.unsubscribe u))) :=
  unsubscribeG_spec (coldFam script) h u

end Rx.CRef
