import RxVerif.Conc.Queue
/-
C08 — theorems about the scheduler queue LTS of `RxVerif/Conc/Queue.lean`
(`/repo/src/schedulers/async_function_queue.rs`, `new_thread_scheduler.rs`, `default_scheduler.rs`).

All statements quantify over every configuration (any number of poster threads, any programs, any task bodies) and
every reachable state (any interleaving), and are proved from three inductive invariants:
`Inv` (control: mutex ownership, program-point facts, wake-up bookkeeping), `EInv` (ghost event log) and
`DInv` (data: FIFO / partition / uniqueness; needs `cfg.Unique`).

Index of the main results
* `mutex_exclusive`, `abort_access_under_mutex`  – the mutex is exclusive; `abort` is only accessed under it
* `one_at_a_time`                                – ≤ 1 task between start and end, always on thread 0
* `at_most_once`, `fifo`, `partition`            – given `cfg.Unique`
* `no_take_after_abort`, `start_after_abort`     – no `pop_front` after abort; ≤ 1 start after abort (popped before)
* `strict_no_start_after_abort_false`            – WITNESS: a `taskStart` can follow the return of `abort()`
* `worker_exits_no_take`, `worker_exit_rank`, `worker_exit_run`, `exitRank_bound`, `exitRank_zero`
* `no_lost_wakeup`, `worker_enabled`, `holder_progress`
* `progress_worker_step`, `progress_other_step`, `progress_run`
* `DS.default_scheduler_sync`, `DS.default_post_inline`, `DS.default_abort_noop`
* `reachable_iff_replay`                         – `Reachable` = "some label list replays to it"
-/
namespace Rx.Queue

/-! ## program-point classes -/

/-- the program points at which the thread owns the queue mutex -/
def Pc.holds : Pc → Bool
  | .pPush _ | .pNotify | .pUnlock | .sClear | .sWrite | .sNotify | .sUnlock
  | .wCond | .wWait | .wRead2 | .wPop | .wUnlock _ => true
  | _ => false

/-- the program points of `post` / `stop` and between calls (everything a poster thread can be at) -/
def Pc.isCall : Pc → Bool
  | .idle | .pLock _ | .pPush _ | .pNotify | .pUnlock | .pRet
  | .sLock | .sClear | .sWrite | .sNotify | .sUnlock | .sRet => true
  | _ => false

/-- mutex held, a `notify_one` is still ahead in the same critical section -/
def Pc.beforeNotify : Pc → Bool
  | .pPush _ | .pNotify | .sClear | .sWrite | .sNotify => true
  | _ => false

/-- the task popped from the queue and not yet started (the local `f` of `scheduling`) -/
def Pc.inflight : Pc → List Nat
  | .wUnlock (some t) => [t]
  | .wStart t => [t]
  | _ => []

def inflight (s : State) : List Nat :=
  match s.threads[0]? with
  | some th => th.pc.inflight
  | none => []

theorem getElem?_set_iff {α} {l : List α} {i j : Nat} {a b c : α} (h : l[i]? = some a) :
    (l.set i b)[j]? = some c ↔ (j = i ∧ c = b) ∨ (j ≠ i ∧ l[j]? = some c) := by
  have hi : i < l.length := by
    rcases Nat.lt_or_ge i l.length with h' | h'
    · exact h'
    · simp [List.getElem?_eq_none h'] at h
  rw [List.getElem?_set]
  by_cases hij : i = j
  · subst hij; simp [hi]; exact eq_comm
  · have hji : ¬ j = i := fun h => hij h.symm
    simp [hij, hji]

/-! ## the control invariant -/

structure LocalInv (s : State) (i : Nat) (th : Thread) : Prop where
  holds : th.pc.holds = true ↔ s.holder = some i
  poster : i ≠ 0 → th.pc.isCall = true ∧ th.cur = none
  inTask : i = 0 → th.pc.isCall = true → ∃ u, th.cur = some u ∧ s.started = s.finished ++ [u]
  outTask : i = 0 → th.pc.isCall = false → th.cur = none ∧ th.todo = [] ∧ s.started = s.finished
  wWait : th.pc = .wWait → s.queue = [] ∧ s.abort = false
  wRead2 : th.pc = .wRead2 → s.abort = true ∨ s.queue ≠ []
  wPop : th.pc = .wPop → s.abort = false ∧ s.queue ≠ []
  wNone : th.pc = .wUnlock none ∨ th.pc = .wExit ∨ th.pc = .wExited → s.abort = true
  sDone : th.pc = .sNotify ∨ th.pc = .sUnlock ∨ th.pc = .sRet → s.abort = true
  parked : i ∈ s.waiters → th.pc = .wParked

structure Inv (s : State) : Prop where
  loc : ∀ (i : Nat) (th : Thread), s.threads[i]? = some th → LocalInv s i th
  holderValid : ∀ (j : Nat), s.holder = some j → j < s.threads.length
  waiters : s.waiters = [] ∨ s.waiters = [0]
  aret : s.abortReturned = true → s.abort = true
  nlw : ∀ (th0 : Thread), s.threads[0]? = some th0 → th0.pc = .wParked → 0 ∈ s.waiters →
    (∀ (j : Nat) (thj : Thread), s.threads[j]? = some thj → thj.pc.beforeNotify = false) →
    s.queue = [] ∧ s.abort = false
  runner : s.runner.map Prod.fst = s.started ∧ ∀ p ∈ s.runner, p.2 = 0
  nonempty : 0 < s.threads.length

theorem inv_init (cfg : Config) : Inv (init cfg) := by
  refine ⟨?_, ?_, ?_, ?_, ?_, ?_, ?_⟩
  · intro i th h
    cases i with
    | zero =>
      simp [init] at h; subst h
      constructor <;> simp [Pc.holds, Pc.isCall, init]
    | succ i =>
      simp [init] at h
      obtain ⟨p, _, hp⟩ := h
      subst hp
      constructor <;> simp [Pc.holds, Pc.isCall, init]
  · simp [init]
  · simp [init]
  · simp [init]
  · simp [init]
  · simp [init]
  · simp [init]

theorem lt_of_getElem?_some {α} {l : List α} {i : Nat} {a : α} (h : l[i]? = some a) : i < l.length := by
  rcases Nat.lt_or_ge i l.length with h' | h'
  · exact h'
  · simp [List.getElem?_eq_none h'] at h

/-! ### preservation, one lemma per program point (same script; split only to keep each declaration small) -/

set_option hygiene false in
local macro "inv_tac" : tactic => `(tactic| (
    have hL := hI.loc i th hth
    have hW := hI.waiters
    have hlt := lt_of_getElem?_some hth
    obtain ⟨h1, h2, h3, h4, h5, h6, h7, h8, h9, h10⟩ := hL
    refine ⟨?_, ?_, ?_, ?_, ?_, ?_, ?_⟩
    · intro j thj hj
      simp only [upd] at hj
      rw [getElem?_set_iff hth] at hj
      rcases hj with ⟨rfl, rfl⟩ | ⟨hne, hj⟩
      · constructor <;> first | (simp_all [upd, Pc.holds, Pc.isCall]; done) | grind [upd, Pc.holds, Pc.isCall, List.mem_of_mem_tail, List.mem_of_mem_erase]
      · obtain ⟨g1, g2, g3, g4, g5, g6, g7, g8, g9, g10⟩ := hI.loc j thj hj
        constructor <;> grind [upd, Pc.holds, Pc.isCall, List.mem_of_mem_tail, List.mem_of_mem_erase]
    · have := hI.holderValid
      simp only [upd, List.length_set]
      grind
    · simp only [upd]
      grind [Pc.isCall, List.tail_cons, List.tail_nil, List.erase_cons_head]
    · have := hI.aret
      simp only [upd]
      grind
    · intro th0 h0 hp hw hall
      simp only [upd] at h0 hall hw ⊢
      have hall' : ∀ (j : Nat) (thj : Thread), j ≠ i → s.threads[j]? = some thj → thj.pc.beforeNotify = false :=
        fun j thj hji hj => hall j thj ((getElem?_set_iff hth).2 (Or.inr ⟨hji, hj⟩))
      have halli := hall i _ ((getElem?_set_iff hth).2 (Or.inl ⟨rfl, rfl⟩))
      have hn : th.pc.beforeNotify = false → ∀ (th0 : Thread), s.threads[0]? = some th0 → th0.pc = .wParked →
          0 ∈ s.waiters → s.queue = [] ∧ s.abort = false := by
        intro hb th0 a b c
        refine hI.nlw th0 a b c ?_
        intro j thj hj
        by_cases hji : j = i
        · subst hji; rw [hth] at hj; cases hj; exact hb
        · exact hall' j thj hji hj
      rw [getElem?_set_iff hth] at h0
      grind [Pc.beforeNotify, Pc.holds, Pc.isCall, List.tail_cons, List.tail_nil, List.erase_cons_head]
    · have := hI.runner
      simp only [upd]
      grind [Pc.isCall]
    · simp only [upd, List.length_set]
      exact hI.nonempty))

set_option hygiene false in
local macro "inv_pc" : tactic => `(tactic| (
    simp [adv, hpc] at h
    first | (obtain ⟨hh, h⟩ := h; subst h) | subst h
    inv_tac))

theorem inv_pLock {cfg s i th s'} (hI : Inv s) (hth : s.threads[i]? = some th)
    (h : adv cfg s i th = some s') {t} (hpc : th.pc = .pLock t) : Inv s' := by
  inv_pc

theorem inv_pPush {cfg s i th s'} (hI : Inv s) (hth : s.threads[i]? = some th)
    (h : adv cfg s i th = some s') {t} (hpc : th.pc = .pPush t) : Inv s' := by
  inv_pc

theorem inv_pNotify {cfg s i th s'} (hI : Inv s) (hth : s.threads[i]? = some th)
    (h : adv cfg s i th = some s')  (hpc : th.pc = .pNotify) : Inv s' := by
  inv_pc

theorem inv_pUnlock {cfg s i th s'} (hI : Inv s) (hth : s.threads[i]? = some th)
    (h : adv cfg s i th = some s')  (hpc : th.pc = .pUnlock) : Inv s' := by
  inv_pc

theorem inv_pRet {cfg s i th s'} (hI : Inv s) (hth : s.threads[i]? = some th)
    (h : adv cfg s i th = some s')  (hpc : th.pc = .pRet) : Inv s' := by
  inv_pc

theorem inv_sLock {cfg s i th s'} (hI : Inv s) (hth : s.threads[i]? = some th)
    (h : adv cfg s i th = some s')  (hpc : th.pc = .sLock) : Inv s' := by
  inv_pc

theorem inv_sClear {cfg s i th s'} (hI : Inv s) (hth : s.threads[i]? = some th)
    (h : adv cfg s i th = some s')  (hpc : th.pc = .sClear) : Inv s' := by
  inv_pc

theorem inv_sWrite {cfg s i th s'} (hI : Inv s) (hth : s.threads[i]? = some th)
    (h : adv cfg s i th = some s')  (hpc : th.pc = .sWrite) : Inv s' := by
  inv_pc

theorem inv_sNotify {cfg s i th s'} (hI : Inv s) (hth : s.threads[i]? = some th)
    (h : adv cfg s i th = some s')  (hpc : th.pc = .sNotify) : Inv s' := by
  inv_pc

theorem inv_sUnlock {cfg s i th s'} (hI : Inv s) (hth : s.threads[i]? = some th)
    (h : adv cfg s i th = some s')  (hpc : th.pc = .sUnlock) : Inv s' := by
  inv_pc

theorem inv_sRet {cfg s i th s'} (hI : Inv s) (hth : s.threads[i]? = some th)
    (h : adv cfg s i th = some s')  (hpc : th.pc = .sRet) : Inv s' := by
  inv_pc

theorem inv_wLock {cfg s i th s'} (hI : Inv s) (hth : s.threads[i]? = some th)
    (h : adv cfg s i th = some s')  (hpc : th.pc = .wLock) : Inv s' := by
  inv_pc

theorem inv_wCond {cfg s i th s'} (hI : Inv s) (hth : s.threads[i]? = some th)
    (h : adv cfg s i th = some s')  (hpc : th.pc = .wCond) : Inv s' := by
  inv_pc

theorem inv_wWait {cfg s i th s'} (hI : Inv s) (hth : s.threads[i]? = some th)
    (h : adv cfg s i th = some s')  (hpc : th.pc = .wWait) : Inv s' := by
  inv_pc

theorem inv_wParked {cfg s i th s'} (hI : Inv s) (hth : s.threads[i]? = some th)
    (h : adv cfg s i th = some s')  (hpc : th.pc = .wParked) : Inv s' := by
  inv_pc

theorem inv_wReacq {cfg s i th s'} (hI : Inv s) (hth : s.threads[i]? = some th)
    (h : adv cfg s i th = some s')  (hpc : th.pc = .wReacq) : Inv s' := by
  inv_pc

theorem inv_wRead2 {cfg s i th s'} (hI : Inv s) (hth : s.threads[i]? = some th)
    (h : adv cfg s i th = some s')  (hpc : th.pc = .wRead2) : Inv s' := by
  inv_pc

theorem inv_wPop {cfg s i th s'} (hI : Inv s) (hth : s.threads[i]? = some th)
    (h : adv cfg s i th = some s')  (hpc : th.pc = .wPop) : Inv s' := by
  inv_pc

theorem inv_wUnlock {cfg s i th s'} (hI : Inv s) (hth : s.threads[i]? = some th)
    (h : adv cfg s i th = some s') {f} (hpc : th.pc = .wUnlock f) : Inv s' := by
  inv_pc

theorem inv_wStart {cfg s i th s'} (hI : Inv s) (hth : s.threads[i]? = some th)
    (h : adv cfg s i th = some s') {t} (hpc : th.pc = .wStart t) : Inv s' := by
  inv_pc

theorem inv_wExit {cfg s i th s'} (hI : Inv s) (hth : s.threads[i]? = some th)
    (h : adv cfg s i th = some s')  (hpc : th.pc = .wExit) : Inv s' := by
  inv_pc

theorem inv_idle {cfg s i th s'} (hI : Inv s) (hth : s.threads[i]? = some th)
    (h : adv cfg s i th = some s') (hpc : th.pc = .idle) : Inv s' := by
  simp only [adv, hpc] at h
  split at h
  · simp at h; subst h; inv_tac
  · simp at h; subst h; inv_tac
  · split at h
    · simp at h; subst h; inv_tac
    · simp at h

theorem inv_adv {cfg s i th s'} (hI : Inv s) (hth : s.threads[i]? = some th)
    (h : adv cfg s i th = some s') : Inv s' := by
  cases hpc : th.pc with
  | idle => exact inv_idle hI hth h hpc
  | pLock t => exact inv_pLock hI hth h hpc
  | pPush t => exact inv_pPush hI hth h hpc
  | pNotify => exact inv_pNotify hI hth h hpc
  | pUnlock => exact inv_pUnlock hI hth h hpc
  | pRet => exact inv_pRet hI hth h hpc
  | sLock => exact inv_sLock hI hth h hpc
  | sClear => exact inv_sClear hI hth h hpc
  | sWrite => exact inv_sWrite hI hth h hpc
  | sNotify => exact inv_sNotify hI hth h hpc
  | sUnlock => exact inv_sUnlock hI hth h hpc
  | sRet => exact inv_sRet hI hth h hpc
  | wLock => exact inv_wLock hI hth h hpc
  | wCond => exact inv_wCond hI hth h hpc
  | wWait => exact inv_wWait hI hth h hpc
  | wParked => exact inv_wParked hI hth h hpc
  | wReacq => exact inv_wReacq hI hth h hpc
  | wRead2 => exact inv_wRead2 hI hth h hpc
  | wPop => exact inv_wPop hI hth h hpc
  | wUnlock f => exact inv_wUnlock hI hth h hpc
  | wStart t => exact inv_wStart hI hth h hpc
  | wExit => exact inv_wExit hI hth h hpc
  | wExited => simp [adv, hpc] at h

theorem step_adv {cfg s l s'} (h : step cfg s l = some s') :
    ∃ th, s.threads[l.tid]? = some th ∧ th.kind = some l.kind ∧ adv cfg s l.tid th = some s' := by
  unfold step at h
  split at h
  · simp at h
  · rename_i th hth
    split at h
    · exact ⟨th, hth, by assumption, h⟩
    · simp at h

theorem inv_step {cfg s l s'} (hI : Inv s) (h : step cfg s l = some s') : Inv s' := by
  obtain ⟨th, hth, _, ha⟩ := step_adv h
  exact inv_adv hI hth ha

theorem inv_reachable {cfg s} (h : Reachable cfg s) : Inv s := by
  induction h with
  | init => exact inv_init cfg
  | step _ hs ih => exact inv_step ih hs


/-! ## safety theorems that follow from the control invariant -/

theorem worker_thread {s} (hI : Inv s) : ∃ th, s.threads[0]? = some th := by
  have := hI.nonempty
  exact ⟨s.threads[0], by simp [this]⟩

/-- mutual exclusion of the queue mutex -/
theorem mutex_exclusive {cfg s} (h : Reachable cfg s) {i j : Nat} {thi thj : Thread}
    (hi : s.threads[i]? = some thi) (hj : s.threads[j]? = some thj)
    (hhi : thi.pc.holds = true) (hhj : thj.pc.holds = true) : i = j := by
  have hI := inv_reachable h
  have a := ((hI.loc i thi hi).holds).1 hhi
  have b := ((hI.loc j thj hj).holds).1 hhj
  rw [a] at b; exact Option.some.inj b

/-- the program points that access the `abort` RwLock -/
def Pc.accessesAbort : Pc → Bool
  | .sWrite | .wCond | .wRead2 => true
  | _ => false

/-- every access to the `abort` RwLock happens while the accessing thread holds the queue mutex (so modelling the
RwLock by atomic reads / writes loses nothing, and the lock order is always mutex → RwLock) -/
theorem abort_access_under_mutex {cfg s} (h : Reachable cfg s) {i : Nat} {th : Thread}
    (hi : s.threads[i]? = some th) (ha : th.pc.accessesAbort = true) : s.holder = some i := by
  apply ((inv_reachable h).loc i th hi).holds.1
  cases hpc : th.pc <;> simp_all [Pc.accessesAbort, Pc.holds]

/-- `one_at_a_time`: at most one task is between start and end (`started = finished ++ r`, `|r| ≤ 1`), the running
task is the one recorded in thread 0, poster threads never run a task and are never at a program point of
`scheduling`, and every start was executed by thread 0. -/
theorem one_at_a_time {cfg s} (h : Reachable cfg s) :
    (∃ r, s.started = s.finished ++ r ∧ r.length ≤ 1 ∧
      ∀ t ∈ r, ∃ th, s.threads[0]? = some th ∧ th.cur = some t) ∧
    (∀ i th, s.threads[i]? = some th → i ≠ 0 → th.cur = none ∧ th.pc.isCall = true) ∧
    s.runner.map Prod.fst = s.started ∧ (∀ p ∈ s.runner, p.2 = 0) := by
  have hI := inv_reachable h
  refine ⟨?_, fun i th hi hne => ⟨((hI.loc i th hi).poster hne).2, ((hI.loc i th hi).poster hne).1⟩,
    hI.runner.1, hI.runner.2⟩
  obtain ⟨th, h0⟩ := worker_thread hI
  have hL := hI.loc 0 th h0
  cases hc : th.pc.isCall with
  | true =>
    obtain ⟨u, hu, hs⟩ := hL.inTask rfl hc
    exact ⟨[u], hs, by simp, by simp [h0, hu]⟩
  | false =>
    exact ⟨[], by simp [(hL.outTask rfl hc).2.2], by simp, by simp⟩

/-- `no_lost_wakeup` (safety form): if the worker is parked and there is work (`queue ≠ []`) or `abort` is set, then
a wake-up is pending (thread 0 has been removed from the condvar's waiter list by a `notify_one`) or some thread
holds the mutex at a program point before its `notify_one`. -/
theorem no_lost_wakeup {cfg s} (h : Reachable cfg s) {th0 : Thread} (h0 : s.threads[0]? = some th0)
    (hp : th0.pc = .wParked) (hw : s.queue ≠ [] ∨ s.abort = true) :
    0 ∉ s.waiters ∨
      ∃ (j : Nat) (thj : Thread), s.holder = some j ∧ s.threads[j]? = some thj ∧ thj.pc.beforeNotify = true := by
  have hI := inv_reachable h
  by_cases hin : 0 ∈ s.waiters
  · right
    by_cases hex : ∃ (j : Nat) (thj : Thread), s.threads[j]? = some thj ∧ thj.pc.beforeNotify = true
    · obtain ⟨j, thj, hj, hb⟩ := hex
      refine ⟨j, thj, ((hI.loc j thj hj).holds).1 ?_, hj, hb⟩
      cases hpc : thj.pc <;> simp_all [Pc.beforeNotify, Pc.holds]
    · have := hI.nlw th0 h0 hp hin (by
        intro j thj hj
        cases hb : thj.pc.beforeNotify with
        | false => rfl
        | true => exact absurd ⟨j, thj, hj, hb⟩ hex)
      rcases hw with hw | hw
      · exact absurd this.1 hw
      · rw [this.2] at hw; cases hw
  · exact Or.inl hin

/-! ## the ghost event log -/

def GEv.isStart : GEv → Bool
  | .start _ => true
  | _ => false

def GEv.isAbort : GEv → Bool
  | .abortSet | .abortRet => true
  | _ => false

structure EInv (s : State) : Prop where
  evAbort : ∀ (e : GEv), e ∈ s.events → e.isAbort = true → s.abort = true
  evAfter : ∀ (pre : List GEv) (e : GEv) (post : List GEv), s.events = pre ++ e :: post → e.isAbort = true →
    (∀ (t : Nat), GEv.pop t ∉ post) ∧ (post.filter GEv.isStart).length + (inflight s).length ≤ 1
  evStart : ∀ (t : Nat), GEv.start t ∈ s.events → GEv.pop t ∈ s.events
  evInfl : ∀ (t : Nat), t ∈ inflight s → GEv.pop t ∈ s.events
  evRet : s.abortReturned = true ↔ GEv.abortRet ∈ s.events
  evStarted : s.started = s.events.filterMap fun e => match e with | .start t => some t | _ => none

theorem append_singleton_eq_split {α} {es pre post : List α} {x e : α} (h : es ++ [x] = pre ++ e :: post) :
    (∃ post0, post = post0 ++ [x] ∧ es = pre ++ e :: post0) ∨ (post = [] ∧ es = pre ∧ x = e) := by
  rcases List.eq_nil_or_concat post with hp | ⟨post0, y, hp⟩
  · subst hp
    right
    have : es ++ [x] = pre ++ [e] := h
    have h2 := List.append_inj' this rfl
    simp at h2
    exact ⟨rfl, h2.1, h2.2⟩
  · subst hp
    left
    have : es ++ [x] = (pre ++ e :: post0) ++ [y] := by simpa using h
    have h2 := List.append_inj' this rfl
    simp at h2
    exact ⟨post0, by rw [h2.2, List.concat_eq_append], h2.1⟩

theorem inflight_length_le (s : State) : (inflight s).length ≤ 1 := by
  unfold inflight
  split
  · rename_i th _
    cases hpc : th.pc <;> simp [Pc.inflight]
    rename_i f; cases f <;> simp
  · simp

theorem inflight_set {s s' : State} {i : Nat} {th th' : Thread} (hth : s.threads[i]? = some th)
    (hs' : s'.threads = s.threads.set i th') (hpc : th'.pc.inflight = th.pc.inflight) : inflight s' = inflight s := by
  unfold inflight
  rw [hs']
  by_cases hi : i = 0
  · subst hi
    obtain ⟨hlt, heq⟩ := List.getElem?_eq_some_iff.1 hth
    simp [hlt, hpc, heq]
  · rw [List.getElem?_set_ne hi]

theorem inflight_set_worker {s s' : State} {th th' : Thread} (hth : s.threads[0]? = some th)
    (hs' : s'.threads = s.threads.set 0 th') : inflight s' = th'.pc.inflight := by
  unfold inflight
  rw [hs']
  have := lt_of_getElem?_some hth
  simp [this]

theorem einv_frame {s s' : State} (hE : EInv s) (hev : s'.events = s.events) (hab : s.abort = true → s'.abort = true)
    (hin : inflight s' = inflight s) (har : s'.abortReturned = s.abortReturned) (hst : s'.started = s.started) :
    EInv s' := by
  obtain ⟨e1, e2, e3, e4, e5, e6⟩ := hE
  refine ⟨?_, ?_, ?_, ?_, ?_, ?_⟩
  · rw [hev]; exact fun e he ha => hab (e1 e he ha)
  · rw [hev, hin]; exact e2
  · rw [hev]; exact e3
  · rw [hev, hin]; exact e4
  · rw [hev, har]; exact e5
  · rw [hev, hst]; exact e6

theorem einv_init (cfg : Config) : EInv (init cfg) := by
  refine ⟨?_, ?_, ?_, ?_, ?_, ?_⟩ <;> simp [init, inflight, Pc.inflight]


/-- appending an abort event -/
theorem einv_abortEv {s s' : State} (hE : EInv s) (e0 : GEv) (he0 : e0.isAbort = true)
    (hev : s'.events = s.events ++ [e0]) (hab : s'.abort = true) (hin : inflight s' = inflight s)
    (har : s'.abortReturned = (s.abortReturned || decide (e0 = .abortRet))) (hst : s'.started = s.started) :
    EInv s' := by
  obtain ⟨e1, e2, e3, e4, e5, e6⟩ := hE
  refine ⟨?_, ?_, ?_, ?_, ?_, ?_⟩
  · intro _ _ _; exact hab
  · intro pre e post hdec he
    rw [hin]
    rw [hev] at hdec
    rcases append_singleton_eq_split hdec with ⟨post0, rfl, hes⟩ | ⟨rfl, _, _⟩
    · have := e2 pre e post0 hes he
      refine ⟨fun t ht => ?_, ?_⟩
      · rcases List.mem_append.1 ht with h | h
        · exact this.1 t h
        · simp at h; subst h; simp [GEv.isAbort] at he0
      · have hf : List.filter GEv.isStart [e0] = [] := by
          cases e0 <;> simp_all [GEv.isStart, GEv.isAbort]
        rw [List.filter_append, hf, List.append_nil]; exact this.2
    · simpa using inflight_length_le s
  · intro t ht
    rw [hev] at ht ⊢
    rcases List.mem_append.1 ht with h | h
    · exact List.mem_append_left _ (e3 t h)
    · simp at h; subst h; simp [GEv.isAbort] at he0
  · intro t ht; rw [hin] at ht; rw [hev]; exact List.mem_append_left _ (e4 t ht)
  · rw [har, hev]
    cases e0 <;> simp_all [GEv.isAbort]
  · rw [hst, hev, List.filterMap_append, ← e6]
    cases e0 <;> simp_all [GEv.isAbort]

theorem worker_of_not_isCall {s i th} (hI : Inv s) (hth : s.threads[i]? = some th) (hc : th.pc.isCall = false) :
    i = 0 := by
  have := (hI.loc i th hth).poster
  rw [hc] at this
  simpa using this

theorem einv_wPop {cfg s i th s'} (hI : Inv s) (hE : EInv s) (hth : s.threads[i]? = some th)
    (h : adv cfg s i th = some s') (hpc : th.pc = .wPop) : EInv s' := by
  have hi : i = 0 := worker_of_not_isCall hI hth (by rw [hpc]; rfl)
  subst hi
  have hab : s.abort = false := ((hI.loc 0 th hth).wPop hpc).1
  simp [adv, hpc] at h
  have hT : s'.threads = s.threads.set 0 { th with pc := .wUnlock s.queue.head? } := by subst h; rfl
  have hEv : s'.events = s.events ++ (match s.queue.head? with | some t => [GEv.pop t] | none => []) := by
    subst h; rfl
  have hAb : s'.abort = s.abort := by subst h; rfl
  have hAR : s'.abortReturned = s.abortReturned := by subst h; rfl
  have hSt : s'.started = s.started := by subst h; rfl
  clear h
  obtain ⟨e1, e2, e3, e4, e5, e6⟩ := hE
  have hno : ∀ (e : GEv), e ∈ s.events → e.isAbort = false := by
    intro e he
    cases hx : e.isAbort with
    | false => rfl
    | true => rw [e1 e he hx] at hab; cases hab
  have hnew : ∀ (e : GEv), e ∈ (match s.queue.head? with | some t => [GEv.pop t] | none => []) →
      ∃ t, e = .pop t ∧ s.queue.head? = some t := by
    intro e he
    cases hq : s.queue.head? with
    | none => simp [hq] at he
    | some t => simp [hq] at he; exact ⟨t, he, rfl⟩
  have hno' : ∀ (e : GEv), e ∈ s'.events → e.isAbort = false := by
    intro e he
    rw [hEv] at he
    rcases List.mem_append.1 he with he | he
    · exact hno e he
    · obtain ⟨t, rfl, _⟩ := hnew e he; rfl
  have hin : inflight s' = Pc.inflight (.wUnlock s.queue.head?) := inflight_set_worker hth hT
  refine ⟨?_, ?_, ?_, ?_, ?_, ?_⟩
  · intro e he ha
    have := hno' e he
    rw [ha] at this; cases this
  · intro pre e post hdec he
    have := hno' e (by rw [hdec]; simp)
    rw [he] at this; cases this
  · intro t ht
    rw [hEv] at ht ⊢
    rcases List.mem_append.1 ht with h | h
    · exact List.mem_append_left _ (e3 t h)
    · obtain ⟨u, hu, _⟩ := hnew _ h; cases hu
  · intro t ht
    rw [hin] at ht
    rw [hEv]
    cases hq : s.queue.head? with
    | none => simp [hq, Pc.inflight] at ht
    | some u =>
      simp [hq, Pc.inflight] at ht; subst ht
      simp
  · rw [hAR, e5, hEv]
    constructor
    · intro h; exact List.mem_append_left _ h
    · intro h
      rcases List.mem_append.1 h with h | h
      · exact h
      · obtain ⟨u, hu, _⟩ := hnew _ h; cases hu
  · rw [hSt, hEv, List.filterMap_append, ← e6]
    split <;> simp

theorem einv_wStart {cfg s i th s'} (hI : Inv s) (hE : EInv s) (hth : s.threads[i]? = some th)
    (h : adv cfg s i th = some s') {t : Nat} (hpc : th.pc = .wStart t) : EInv s' := by
  have hi : i = 0 := worker_of_not_isCall hI hth (by rw [hpc]; rfl)
  subst hi
  simp [adv, hpc] at h
  have hT : s'.threads = s.threads.set 0 { todo := cfg.body t, pc := .idle, cur := some t } := by subst h; rfl
  have hEv : s'.events = s.events ++ [.start t] := by subst h; rfl
  have hAb : s'.abort = s.abort := by subst h; rfl
  have hAR : s'.abortReturned = s.abortReturned := by subst h; rfl
  have hSt : s'.started = s.started ++ [t] := by subst h; rfl
  clear h
  obtain ⟨e1, e2, e3, e4, e5, e6⟩ := hE
  have hin : inflight s' = [] := inflight_set_worker hth hT
  have hin0 : inflight s = [t] := by simp [inflight, hth, hpc, Pc.inflight]
  refine ⟨?_, ?_, ?_, ?_, ?_, ?_⟩
  · intro e he ha
    rw [hEv] at he; rw [hAb]
    rcases List.mem_append.1 he with h | h
    · exact e1 e h ha
    · simp at h; subst h; simp [GEv.isAbort] at ha
  · intro pre e post hdec he
    rw [hin]
    rw [hEv] at hdec
    rcases append_singleton_eq_split hdec with ⟨post0, rfl, hes⟩ | ⟨rfl, _, hx⟩
    · have := e2 pre e post0 hes he
      rw [hin0] at this
      refine ⟨fun u hu => ?_, ?_⟩
      · rcases List.mem_append.1 hu with h | h
        · exact this.1 u h
        · simp at h
      · have h2 := this.2
        have h3 : List.filter GEv.isStart [GEv.start t] = [GEv.start t] := rfl
        rw [List.filter_append, List.length_append, h3]
        simp only [List.length_cons, List.length_nil] at h2 ⊢
        omega
    · subst hx; simp [GEv.isAbort] at he
  · intro u hu
    rw [hEv] at hu ⊢
    apply List.mem_append_left
    rcases List.mem_append.1 hu with h | h
    · exact e3 u h
    · simp at h; subst h; exact e4 u (by simp [hin0])
  · intro u hu; rw [hin] at hu; simp at hu
  · rw [hAR, e5, hEv]; simp
  · rw [hSt, hEv, List.filterMap_append, ← e6]; rfl

set_option hygiene false in
local macro "ev_frame" : tactic => `(tactic| (
    first | (obtain ⟨hh, h⟩ := h; subst h) | subst h
    exact einv_frame hE rfl id
      (inflight_set hth rfl (by rw [hpc]; first | rfl | (split <;> rfl) | (split <;> first | rfl | (split <;> rfl)))) rfl rfl))

theorem einv_adv {cfg s i th s'} (hI : Inv s) (hE : EInv s) (hth : s.threads[i]? = some th)
    (h : adv cfg s i th = some s') : EInv s' := by
  cases hpc : th.pc with
  | sWrite =>
    simp [adv, hpc] at h; subst h
    exact einv_abortEv hE .abortSet rfl rfl rfl (inflight_set hth rfl (by rw [hpc]; rfl)) (by simp [upd]) rfl
  | sRet =>
    have hab : s.abort = true := (hI.loc i th hth).sDone (Or.inr (Or.inr hpc))
    simp [adv, hpc] at h; subst h
    exact einv_abortEv hE .abortRet rfl rfl hab (inflight_set hth rfl (by rw [hpc]; rfl)) (by simp [upd]) rfl
  | wPop => exact einv_wPop hI hE hth h hpc
  | wStart t => exact einv_wStart hI hE hth h hpc
  | wExited => simp [adv, hpc] at h
  | idle =>
    simp only [adv, hpc] at h
    split at h
    · simp at h; ev_frame
    · simp at h; ev_frame
    · split at h
      · simp at h; ev_frame
      · simp at h
  | _ => simp [adv, hpc] at h; ev_frame

theorem inv_einv_reachable {cfg s} (h : Reachable cfg s) : Inv s ∧ EInv s := by
  induction h with
  | init => exact ⟨inv_init cfg, einv_init cfg⟩
  | step _ hs ih =>
    obtain ⟨th, hth, _, ha⟩ := step_adv hs
    exact ⟨inv_adv ih.1 hth ha, einv_adv ih.1 ih.2 hth ha⟩

theorem einv_reachable {cfg s} (h : Reachable cfg s) : EInv s := (inv_einv_reachable h).2

theorem reachable_run {cfg s} (h : Reachable cfg s) : ∀ {ls s'}, run cfg s ls = some s' → Reachable cfg s' := by
  intro ls
  induction ls generalizing s with
  | nil => intro s' hr; simp [run] at hr; subst hr; exact h
  | cons l ls ih =>
    intro s' hr
    simp only [run] at hr
    split at hr
    · rename_i s1 hs1; exact ih (Reachable.step h hs1) hr
    · cases hr

theorem reachable_replay {cfg ls s} (h : replay cfg ls = some s) : Reachable cfg s :=
  reachable_run Reachable.init h

theorem run_append {cfg s ls l s1 s2} (h1 : run cfg s ls = some s1) (h2 : step cfg s1 l = some s2) :
    run cfg s (ls ++ [l]) = some s2 := by
  induction ls generalizing s with
  | nil => simp [run] at h1; subst h1; simp [run, h2]
  | cons a ls ih =>
    simp only [run, List.cons_append] at h1 ⊢
    split at h1
    · exact ih h1
    · cases h1

theorem reachable_iff_replay {cfg s} : Reachable cfg s ↔ ∃ ls, replay cfg ls = some s := by
  constructor
  · intro h
    induction h with
    | init => exact ⟨[], rfl⟩
    | step _ hs ih => obtain ⟨ls, hl⟩ := ih; exact ⟨ls ++ [_], run_append hl hs⟩
  · rintro ⟨ls, h⟩; exact reachable_replay h

/-! ## `no_take_after_abort` -/

/-- `no_take_after_abort`: in the chronological event log no `pop_front` follows the return of a `stop()` call
(nor even the write `abort := true` inside it: `e` may be `abortSet` or `abortRet`). -/
theorem no_take_after_abort {cfg s} (h : Reachable cfg s) {pre post : List GEv} {e : GEv}
    (he : e = .abortRet ∨ e = .abortSet) (hd : s.events = pre ++ e :: post) : ∀ t, GEv.pop t ∉ post :=
  ((einv_reachable h).evAfter pre e post hd (by rcases he with rfl | rfl <;> rfl)).1

/-- What is true about task *starts* after abort: at most one task is started after `abort` was set (a fortiori
after `stop()` returned), and that task had been taken from the queue before the abort. -/
theorem start_after_abort {cfg s} (h : Reachable cfg s) {pre post : List GEv} {e : GEv}
    (he : e = .abortRet ∨ e = .abortSet) (hd : s.events = pre ++ e :: post) :
    (post.filter GEv.isStart).length ≤ 1 ∧ ∀ t, GEv.start t ∈ post → GEv.pop t ∈ pre := by
  have hE := einv_reachable h
  have hab : e.isAbort = true := by rcases he with rfl | rfl <;> rfl
  have h1 := hE.evAfter pre e post hd hab
  refine ⟨by omega, fun t ht => ?_⟩
  have : GEv.pop t ∈ s.events := hE.evStart t (by rw [hd]; simp [ht])
  rw [hd] at this
  rcases List.mem_append.1 this with h | h
  · exact h
  · rcases List.mem_cons.1 h with h | h
    · subst h; cases hab
    · exact absurd h (h1.1 t)

/-- the flag `abortReturned` is exactly "an `abortRet` event is in the log", and `started` is the projection of the log -/
theorem log_consistent {cfg s} (h : Reachable cfg s) :
    (s.abortReturned = true ↔ GEv.abortRet ∈ s.events) ∧
    s.started = s.events.filterMap (fun e => match e with | .start t => some t | _ => none) :=
  ⟨(einv_reachable h).evRet, (einv_reachable h).evStarted⟩

/-- witness configuration: one poster doing `post 1; abort`, empty task bodies -/
def cfgLate : Config := { progs := [[.post 1, .abort]], body := fun _ => [] }

/-- the poster posts task 1, the worker pops it and releases the mutex, the poster runs `abort()` to completion,
and only then the worker enters the task -/
def runLate : List Label :=
  [⟨1, .callStart⟩, ⟨1, .lock⟩, ⟨1, .push⟩, ⟨1, .notify⟩, ⟨1, .unlock⟩, ⟨1, .callRet⟩,
   ⟨0, .lock⟩, ⟨0, .abortRead⟩, ⟨0, .abortRead⟩, ⟨0, .pop⟩, ⟨0, .unlock⟩,
   ⟨1, .callStart⟩, ⟨1, .lock⟩, ⟨1, .clear⟩, ⟨1, .abortWrite⟩, ⟨1, .notify⟩, ⟨1, .unlock⟩, ⟨1, .callRet⟩,
   ⟨0, .taskStart⟩]

theorem runLate_events :
    (replay cfgLate runLate).map (·.events) = some [.pop 1, .abortSet, .abortRet, .start 1] := by decide

/-- THE STRICT READING IS FALSE OF THE CODE AS WRITTEN: "once an `abort` call has returned, no `taskStart` happens
afterwards" is violated by a reachable run (the task was popped before the abort, `f.call(())` is entered after
`stop()` has returned). -/
theorem strict_no_start_after_abort_false :
    ∃ (cfg : Config) (ls : List Label) (s : State), replay cfg ls = some s ∧
      ∃ (pre post : List GEv) (t : Nat), s.events = pre ++ .abortRet :: post ∧ GEv.start t ∈ post := by
  have h := runLate_events
  cases hr : replay cfgLate runLate with
  | none => rw [hr] at h; cases h
  | some s =>
    rw [hr] at h
    simp only [Option.map_some, Option.some.injEq] at h
    exact ⟨cfgLate, runLate, s, hr, [.pop 1, .abortSet], [.start 1], 1, by rw [h]; rfl, by simp⟩

/-! ## `worker_exits` -/

theorem adv_idle_cases {cfg s i th s'} (hpc : th.pc = .idle) (h : adv cfg s i th = some s') :
    (∃ t rest, th.todo = .post t :: rest ∧ s' = upd s i { th with todo := rest, pc := .pLock t }) ∨
    (∃ rest, th.todo = .abort :: rest ∧ s' = upd s i { th with todo := rest, pc := .sLock }) ∨
    (∃ t, th.todo = [] ∧ th.cur = some t ∧
      s' = upd { s with finished := s.finished ++ [t] } i { th with pc := .wLock, cur := none }) := by
  simp only [adv, hpc] at h
  split at h
  · rename_i t rest ht; simp at h; exact Or.inl ⟨t, rest, ht, h.symm⟩
  · rename_i rest ht; simp at h; exact Or.inr (Or.inl ⟨rest, ht, h.symm⟩)
  · rename_i ht
    split at h
    · rename_i t hc; simp at h; exact Or.inr (Or.inr ⟨t, ht, hc, h.symm⟩)
    · simp at h

/-- `abort` is never reset -/
theorem abort_monotone {cfg s l s'} (hs : step cfg s l = some s') (ha : s.abort = true) : s'.abort = true := by
  obtain ⟨th, hth, _, h⟩ := step_adv hs
  cases hpc : th.pc with
  | idle =>
    rcases adv_idle_cases hpc h with ⟨_, _, _, rfl⟩ | ⟨_, _, rfl⟩ | ⟨_, _, _, rfl⟩ <;> exact ha
  | wExited => simp [adv, hpc] at h
  | _ =>
    simp [adv, hpc] at h
    first | (obtain ⟨_, h⟩ := h; subst h) | subst h
    first | exact ha | rfl

theorem kind_pop {th : Thread} (h : th.kind = some .pop) : th.pc = .wPop := by
  cases hpc : th.pc <;> simp [Thread.kind, hpc] at h ⊢
  split at h <;> simp at h

theorem kind_taskStart {th : Thread} (h : th.kind = some .taskStart) : ∃ t, th.pc = .wStart t := by
  cases hpc : th.pc <;> simp [Thread.kind, hpc] at h ⊢
  split at h <;> simp at h

/-- once `abort` is set no step is a `pop_front` -/
theorem no_pop_when_abort {cfg s} (h : Reachable cfg s) (ha : s.abort = true) {l s'}
    (hs : step cfg s l = some s') : l.kind ≠ .pop := by
  intro hk
  obtain ⟨th, hth, hkind, _⟩ := step_adv hs
  rw [hk] at hkind
  have := ((inv_reachable h).loc _ th hth).wPop (kind_pop hkind)
  rw [ha] at this; cases this.1

/-- every step other than `pop` keeps `started ++ inflight` (a `taskStart` moves the in-flight task to `started`) -/
theorem started_inflight_step {cfg s} (h : Reachable cfg s) {l s'} (hs : step cfg s l = some s')
    (hk : l.kind ≠ .pop) : s'.started ++ inflight s' = s.started ++ inflight s := by
  have hI := inv_reachable h
  obtain ⟨th, hth, hkind, ha⟩ := step_adv hs
  cases hpc : th.pc with
  | idle =>
    rcases adv_idle_cases hpc ha with ⟨_, _, _, rfl⟩ | ⟨_, _, rfl⟩ | ⟨_, _, _, rfl⟩ <;>
      exact congrArg _ (inflight_set hth rfl (by rw [hpc]; rfl))
  | wExited => simp [adv, hpc] at ha
  | wPop => simp [Thread.kind, hpc] at hkind; exact absurd hkind.symm hk
  | wStart t =>
    have hi : l.tid = 0 := worker_of_not_isCall hI hth (by rw [hpc]; rfl)
    rw [hi] at hth ha
    simp [adv, hpc] at ha; subst ha
    have h1 : inflight s = [t] := by simp [inflight, hth, hpc, Pc.inflight]
    rw [h1, inflight_set_worker hth rfl]
    simp [upd, Pc.inflight]
  | _ =>
    simp [adv, hpc] at ha
    first | (obtain ⟨_, ha⟩ := ha; subst ha) | subst ha
    exact congrArg _ (inflight_set hth rfl
      (by rw [hpc]; first | rfl | (split <;> rfl) | (split <;> first | rfl | (split <;> rfl))))

/-- `worker_exits`, part 1 (what is true instead of "never performs `taskStart` again"): from a reachable state with
`abort = true`, along ANY run no task is taken from the queue any more, `abort` stays set, and the only task that can
still be started is the one already popped (`inflight`, at most one): `started ++ inflight` is constant. -/
theorem worker_exits_no_take {cfg s} (h : Reachable cfg s) (ha : s.abort = true) :
    ∀ {ls s'}, run cfg s ls = some s' →
      (∀ l ∈ ls, l.kind ≠ .pop) ∧ s'.abort = true ∧ s'.started ++ inflight s' = s.started ++ inflight s := by
  intro ls
  induction ls generalizing s with
  | nil => intro s' hr; simp [run] at hr; subst hr; simp [ha]
  | cons l ls ih =>
    intro s' hr
    simp only [run] at hr
    split at hr
    · rename_i s1 hs1
      have hk := no_pop_when_abort h ha hs1
      obtain ⟨a, b, c⟩ := ih (Reachable.step h hs1) (abort_monotone hs1 ha) hr
      refine ⟨?_, b, c.trans (started_inflight_step h hs1 hk)⟩
      intro l' hl'
      rcases List.mem_cons.1 hl' with rfl | hl'
      · exact hk
      · exact a l' hl'
    · cases hr

theorem upd_get_self {s0 : State} {i : Nat} {th' : Thread} (h : i < s0.threads.length) :
    (upd s0 i th').threads[i]? = some th' := by
  simp [upd, h]

/-- steps remaining inside the current `post` / `stop` call -/
def callRank : Pc → Nat
  | .pLock _ => 5 | .pPush _ => 4 | .pNotify => 3 | .pUnlock => 2 | .pRet => 1
  | .sLock => 6 | .sClear => 5 | .sWrite => 4 | .sNotify => 3 | .sUnlock => 2 | .sRet => 1
  | _ => 0

/-- number of worker steps to `wExited` once `abort` is set -/
def exitRank (cfg : Config) (th : Thread) : Nat :=
  match th.pc with
  | .wExited => 0
  | .wExit => 1
  | .wUnlock none => 2
  | .wRead2 => 3
  | .wCond => 4
  | .wLock => 5
  | .wReacq => 5
  | .wParked => 6
  | .wWait => 7
  | .wPop => 0
  | .wUnlock (some t) => 7 * (cfg.body t).length + 8
  | .wStart t => 7 * (cfg.body t).length + 7
  | pc => 7 * th.todo.length + callRank pc + 6

/-- `worker_exits`, part 2 (ranking): with `abort = true` every step of the worker strictly decreases `exitRank` -/
theorem worker_exit_rank {cfg s} (h : Reachable cfg s) (ha : s.abort = true) {th : Thread}
    (h0 : s.threads[0]? = some th) {k s'} (hs : step cfg s ⟨0, k⟩ = some s') :
    ∃ th', s'.threads[0]? = some th' ∧ exitRank cfg th' < exitRank cfg th := by
  have hI := inv_reachable h
  obtain ⟨th1, hth, _, hadv⟩ := step_adv hs
  simp only at hth hadv
  rw [h0] at hth; cases hth
  have hlt := lt_of_getElem?_some h0
  have hL := hI.loc 0 th h0
  cases hpc : th.pc with
  | idle =>
    rcases adv_idle_cases hpc hadv with ⟨t, rest, ht, rfl⟩ | ⟨rest, ht, rfl⟩ | ⟨t, ht, _, rfl⟩ <;>
      refine ⟨_, upd_get_self hlt, ?_⟩ <;> simp [exitRank, hpc, ht, callRank] <;> omega
  | wExited => simp [adv, hpc] at hadv
  | wPop => have := (hL.wPop hpc).1; rw [ha] at this; cases this
  | wWait => have := (hL.wWait hpc).2; rw [ha] at this; cases this
  | wUnlock f =>
    simp [adv, hpc] at hadv; subst hadv
    refine ⟨_, upd_get_self hlt, ?_⟩
    cases f <;> simp [exitRank, hpc]
  | _ =>
    simp [adv, hpc] at hadv
    first | (obtain ⟨_, hadv⟩ := hadv; subst hadv) | subst hadv
    refine ⟨_, upd_get_self hlt, ?_⟩
    simp [exitRank, hpc, ha, callRank]

/-- steps of other threads do not touch the worker's record, hence not its `exitRank` -/
theorem other_step_worker {cfg s i k s'} (hi : i ≠ 0) (hs : step cfg s ⟨i, k⟩ = some s') :
    s'.threads[0]? = s.threads[0]? := by
  obtain ⟨th, hth, _, h⟩ := step_adv hs
  simp only at hth h
  have key : ∀ (s0 : State) (th' : Thread), s0.threads = s.threads → (upd s0 i th').threads[0]? = s.threads[0]? := by
    intro s0 th' h0
    simp only [upd, h0]
    exact List.getElem?_set_ne hi
  cases hpc : th.pc with
  | idle =>
    rcases adv_idle_cases hpc h with ⟨_, _, _, rfl⟩ | ⟨_, _, rfl⟩ | ⟨_, _, _, rfl⟩ <;> exact key _ _ rfl
  | wExited => simp [adv, hpc] at h
  | _ =>
    simp [adv, hpc] at h
    first | (obtain ⟨_, h⟩ := h; subst h) | subst h
    exact key _ _ rfl

/-- the constant bound: outside of a task (and with no popped task in hand) the worker is at most 7 of its own steps
away from `wExited` -/
theorem exitRank_bound (cfg : Config) {th : Thread} (hc : th.pc.isCall = false) (hin : th.pc.inflight = []) :
    exitRank cfg th ≤ 7 := by
  cases hpc : th.pc <;> simp_all [exitRank, Pc.isCall, Pc.inflight]
  rename_i f; cases f <;> simp_all

/-- inside / in front of a task the bound is linear in the number of calls the task still has to make -/
theorem exitRank_bound_task (cfg : Config) (th : Thread) :
    exitRank cfg th ≤ 7 * (th.todo.length + (th.pc.inflight.map fun t => (cfg.body t).length).sum) + 12 := by
  cases hpc : th.pc <;> simp [exitRank, hpc, Pc.inflight, callRank] <;> try omega
  rename_i f; cases f <;> simp <;> omega

theorem exitRank_zero {cfg s} (h : Reachable cfg s) (ha : s.abort = true) {th : Thread}
    (h0 : s.threads[0]? = some th) (hz : exitRank cfg th = 0) : th.pc = .wExited := by
  have hL := (inv_reachable h).loc 0 th h0
  cases hpc : th.pc <;> simp [exitRank, hpc] at hz ⊢
  · have := (hL.wPop hpc).1; rw [ha] at this; cases this
  · rename_i f; cases f <;> simp at hz

/-! ## enabledness: the worker is never stuck except behind a mutex holder; holders always make progress -/

/-- a `wake` step of a thread that is still in the condvar's waiter list, i.e. a spurious wake-up -/
def spurious (s : State) (l : Label) : Bool := l.kind == .wake && s.waiters.contains l.tid

/-- the only blocking operation is `lock` on a busy mutex -/
theorem adv_enabled (cfg : Config) (s : State) (i : Nat) (th : Thread) :
    (∃ k s', th.kind = some k ∧ adv cfg s i th = some s') ∨ (th.kind = some .lock ∧ s.holder ≠ none) ∨
      th.kind = none := by
  cases hpc : th.pc with
  | idle =>
    cases ht : th.todo with
    | nil =>
      cases hc : th.cur with
      | none => right; right; simp [Thread.kind, hpc, ht, hc]
      | some t => left; exact ⟨.taskEnd, _, by simp [Thread.kind, hpc, ht, hc], by simp [adv, hpc, ht, hc]; rfl⟩
    | cons c rest =>
      left
      cases c with
      | post t => exact ⟨.callStart, _, by simp [Thread.kind, hpc, ht], by simp [adv, hpc, ht]; rfl⟩
      | abort => exact ⟨.callStart, _, by simp [Thread.kind, hpc, ht], by simp [adv, hpc, ht]; rfl⟩
  | wExited => right; right; simp [Thread.kind, hpc]
  | pLock t =>
    cases hh : s.holder with
    | none => left; exact ⟨.lock, _, by simp [Thread.kind, hpc], by simp [adv, hpc, hh]; rfl⟩
    | some j => right; left; simp [Thread.kind, hpc]
  | sLock =>
    cases hh : s.holder with
    | none => left; exact ⟨.lock, _, by simp [Thread.kind, hpc], by simp [adv, hpc, hh]; rfl⟩
    | some j => right; left; simp [Thread.kind, hpc]
  | wLock =>
    cases hh : s.holder with
    | none => left; exact ⟨.lock, _, by simp [Thread.kind, hpc], by simp [adv, hpc, hh]; rfl⟩
    | some j => right; left; simp [Thread.kind, hpc]
  | wReacq =>
    cases hh : s.holder with
    | none => left; exact ⟨.lock, _, by simp [Thread.kind, hpc], by simp [adv, hpc, hh]; rfl⟩
    | some j => right; left; simp [Thread.kind, hpc]
  | _ =>
    left
    have hk : ∃ k, th.kind = some k := by simp [Thread.kind, hpc]
    have ha : ∃ s', adv cfg s i th = some s' := by simp [adv, hpc]
    obtain ⟨k, hk⟩ := hk
    obtain ⟨s', ha⟩ := ha
    exact ⟨k, s', hk, ha⟩

theorem step_of_adv {cfg s i th k s'} (hth : s.threads[i]? = some th) (hk : th.kind = some k)
    (h : adv cfg s i th = some s') : step cfg s ⟨i, k⟩ = some s' := by
  simp [step, hth, hk, h]

theorem kind_wake {th : Thread} (h : th.kind = some .wake) : th.pc = .wParked := by
  cases hpc : th.pc <;> simp [Thread.kind, hpc] at h ⊢
  split at h <;> simp at h

theorem kind_lock_not_holds {th : Thread} (h : th.kind = some .lock) : th.pc.holds = false := by
  cases hpc : th.pc <;> simp [Thread.kind, hpc, Pc.holds] at h ⊢

/-- `worker_enabled`: in every reachable state the worker has terminated, or has an enabled step that is not a
spurious wake-up, or is blocked by a mutex holder other than itself, or is parked with nothing to do
(`queue = []`, `abort = false`).  In particular a parked worker with work or abort pending is never stuck
(this is `no_lost_wakeup` in enabledness form). -/
theorem worker_enabled {cfg s} (h : Reachable cfg s) {th : Thread} (h0 : s.threads[0]? = some th) :
    th.pc = .wExited ∨
    (∃ k s', step cfg s ⟨0, k⟩ = some s' ∧ spurious s ⟨0, k⟩ = false) ∨
    (∃ j, j ≠ 0 ∧ s.holder = some j) ∨
    (th.pc = .wParked ∧ 0 ∈ s.waiters ∧ s.queue = [] ∧ s.abort = false) := by
  have hI := inv_reachable h
  have hL := hI.loc 0 th h0
  rcases adv_enabled cfg s 0 th with ⟨k, s', hk, ha⟩ | ⟨hk, hh⟩ | hk
  · by_cases hsp : spurious s ⟨0, k⟩ = true
    · simp [spurious] at hsp
      obtain ⟨hkw, hw⟩ := hsp
      subst hkw
      have hp := kind_wake hk
      by_cases hq : s.queue = [] ∧ s.abort = false
      · exact Or.inr (Or.inr (Or.inr ⟨hp, hw, hq⟩))
      · have hq' : s.queue ≠ [] ∨ s.abort = true := by
          by_cases h1 : s.queue = []
          · right; cases hb : s.abort with
            | true => rfl
            | false => exact absurd ⟨h1, hb⟩ hq
          · exact Or.inl h1
        rcases no_lost_wakeup h h0 hp hq' with hn | ⟨j, thj, hj, hthj, hb⟩
        · exact absurd hw hn
        · refine Or.inr (Or.inr (Or.inl ⟨j, ?_, hj⟩))
          rintro rfl
          rw [h0] at hthj; cases hthj
          rw [hp] at hb; cases hb
    · right; left
      exact ⟨k, s', step_of_adv h0 hk ha, by simpa using hsp⟩
  · cases hj : s.holder with
    | none => exact absurd hj hh
    | some j =>
      refine Or.inr (Or.inr (Or.inl ⟨j, ?_, rfl⟩))
      rintro rfl
      have := hL.holds.2 hj
      rw [kind_lock_not_holds hk] at this; cases this
  · left
    cases hpc : th.pc <;> simp [Thread.kind, hpc] at hk ⊢
    obtain ⟨u, hu, _⟩ := hL.inTask rfl (by rw [hpc]; rfl)
    rw [hu] at hk
    split at hk <;> simp_all

/-- steps a mutex holder needs to release the mutex -/
def holdRank : Pc → Nat
  | .pPush _ => 3 | .pNotify => 2 | .pUnlock => 1
  | .sClear => 4 | .sWrite => 3 | .sNotify => 2 | .sUnlock => 1
  | .wCond => 4 | .wRead2 => 3 | .wPop => 2 | .wUnlock _ => 1 | .wWait => 1
  | _ => 0

theorem holdRank_le (pc : Pc) : holdRank pc ≤ 4 := by cases pc <;> simp [holdRank]

/-- `holder_progress`: the thread holding the mutex always has an enabled step (it never blocks), and each of its
steps either releases the mutex or decreases `holdRank ≤ 4`: critical sections are finite. -/
theorem holder_progress {cfg s} (h : Reachable cfg s) {j : Nat} (hj : s.holder = some j) :
    ∃ th k s', s.threads[j]? = some th ∧ step cfg s ⟨j, k⟩ = some s' ∧ ∃ th', s'.threads[j]? = some th' ∧
      (s'.holder = none ∨ (s'.holder = some j ∧ holdRank th'.pc < holdRank th.pc)) := by
  have hI := inv_reachable h
  have hlt := hI.holderValid j hj
  have hth : s.threads[j]? = some s.threads[j] := by simp [hlt]
  generalize s.threads[j] = th at hth
  have hh := (hI.loc j th hth).holds.2 hj
  cases hpc : th.pc <;> simp [hpc, Pc.holds] at hh
  all_goals
    have hk : ∃ k, th.kind = some k := by simp [Thread.kind, hpc]
    have ha : ∃ s', adv cfg s j th = some s' := by simp [adv, hpc]
    obtain ⟨k, hk⟩ := hk
    obtain ⟨s', ha⟩ := ha
    refine ⟨th, k, s', hth, step_of_adv hth hk ha, ?_⟩
    simp [adv, hpc] at ha; subst ha
    refine ⟨_, upd_get_self hlt, ?_⟩
    rw [hpc]
    simp [upd, holdRank, hj]
  all_goals cases hab : s.abort <;> cases hq : s.queue <;> simp

/-! ## `progress`: a ranking function for "task `t` is eventually started" -/

/-- worker steps of one full loop iteration for task `u`: lock, 2 × abort read, pop, unlock, taskStart,
≤ 7 steps per call of the body, taskEnd -/
def iterCost (cfg : Config) (u : Nat) : Nat := 7 * (cfg.body u).length + 7

/-- cost of the loop iterations for the tasks queued in front of (the first occurrence of) `t` -/
def queueCost (cfg : Config) (t : Nat) : List Nat → Nat
  | [] => 0
  | u :: q => if u = t then 0 else iterCost cfg u + queueCost cfg t q

theorem queueCost_append_of_mem {cfg : Config} {t : Nat} {q : List Nat} (r : List Nat) (h : t ∈ q) :
    queueCost cfg t (q ++ r) = queueCost cfg t q := by
  induction q with
  | nil => cases h
  | cons u q ih =>
    by_cases hu : u = t
    · simp [queueCost, hu]
    · have : t ∈ q := by
        rcases List.mem_cons.1 h with h | h
        · exact absurd h.symm hu
        · exact h
      simp [queueCost, hu, ih this]

/-- worker steps until the worker is back at `wLock`, plus the 6 steps `wLock … taskStart` of the last iteration -/
def workerCost (cfg : Config) (th : Thread) : Nat :=
  match th.pc with
  | .wLock => 6
  | .wCond => 5
  | .wRead2 => 4
  | .wPop => 3
  | .wReacq => 6
  | .wParked => 7
  | .wWait => 8
  | .wUnlock (some u) => 7 * (cfg.body u).length + 9
  | .wStart u => 7 * (cfg.body u).length + 8
  | .wUnlock none => 0
  | .wExit => 0
  | .wExited => 0
  | pc => 7 * th.todo.length + callRank pc + 7

/-- `t` is waiting to be run: still in the queue, or popped and not yet started -/
def pend (s : State) (t : Nat) : Prop := t ∈ s.queue ∨ t ∈ inflight s

/-- upper bound on the number of worker steps before `taskStart t`, as a function of the worker's record and the queue -/
def rankOf (cfg : Config) (th : Thread) (q : List Nat) (t : Nat) : Nat :=
  if t ∈ th.pc.inflight then (match th.pc with | .wUnlock _ => 2 | _ => 1)
  else workerCost cfg th + queueCost cfg t q

def startRank (cfg : Config) (s : State) (t : Nat) : Nat :=
  match s.threads[0]? with
  | none => 0
  | some th => rankOf cfg th s.queue t

theorem kind_of_wStart {th : Thread} {u : Nat} {k : Kind} (hpc : th.pc = .wStart u) (h : th.kind = some k) :
    k = .taskStart := by
  simp [Thread.kind, hpc] at h; exact h.symm

theorem pend_upd {s s0 : State} {th th' : Thread} {t : Nat} (h0 : s.threads[0]? = some th)
    (hs0 : s0.threads = s.threads) (hp : pend (upd s0 0 th') t) : t ∈ s0.queue ∨ t ∈ th'.pc.inflight := by
  unfold pend at hp
  rwa [inflight_set_worker (s' := upd s0 0 th') h0 (by rw [← hs0]; rfl)] at hp

set_option hygiene false in
local macro "rank_tac" : tactic => `(tactic| (
    first | (obtain ⟨_, hadv⟩ := hadv; subst hadv) | subst hadv
    right; intro hp'
    have hp' := pend_upd h0 (by rfl) hp'
    refine ⟨_, upd_get_self hlt, ?_⟩
    simp [rankOf, upd, hpc, Pc.inflight, workerCost, callRank, ha] at hp' ⊢
    try omega))

/-- `progress`, worker steps (core statement on the worker's record) -/
theorem progress_worker_step' {cfg s} (h : Reachable cfg s) (ha : s.abort = false) {t : Nat} (hp : pend s t)
    {th : Thread} (h0 : s.threads[0]? = some th) {k s'} (hs : step cfg s ⟨0, k⟩ = some s') :
    (k = .taskStart ∧ s'.started = s.started ++ [t]) ∨
    (pend s' t → ∃ th', s'.threads[0]? = some th' ∧ rankOf cfg th' s'.queue t < rankOf cfg th s.queue t) := by
  have hI := inv_reachable h
  obtain ⟨th1, h1, hkind, hadv⟩ := step_adv hs
  simp only at h1 hadv hkind
  rw [h0] at h1; cases h1
  have hlt := lt_of_getElem?_some h0
  have hL := hI.loc 0 th h0
  have hq : t ∈ th.pc.inflight ∨ t ∈ s.queue := by
    rcases hp with h | h
    · exact Or.inr h
    · left; simpa [inflight, h0] using h
  cases hpc : th.pc with
  | idle =>
    simp [hpc, Pc.inflight] at hq
    rcases adv_idle_cases hpc hadv with ⟨x, rest, ht, hadv⟩ | ⟨rest, ht, hadv⟩ | ⟨x, ht, _, hadv⟩
    · rank_tac; simp [ht]; omega
    · rank_tac; simp [ht]; omega
    · rank_tac
  | wExited => simp [adv, hpc] at hadv
  | wExit => have := hL.wNone (Or.inr (Or.inl hpc)); rw [ha] at this; cases this
  | wPop =>
    simp [hpc, Pc.inflight] at hq
    simp [adv, hpc] at hadv; subst hadv
    right; intro _
    refine ⟨_, upd_get_self hlt, ?_⟩
    cases hqq : s.queue with
    | nil => rw [hqq] at hq; cases hq
    | cons u q =>
      by_cases hu : u = t
      · subst hu
        simp [rankOf, hpc, Pc.inflight, workerCost, queueCost]
      · have hu' : ¬ t = u := fun h => hu h.symm
        simp [rankOf, upd, hpc, Pc.inflight, workerCost, queueCost, iterCost, hu, hu']
        omega
  | wUnlock f =>
    cases f with
    | none => have := hL.wNone (Or.inl hpc); rw [ha] at this; cases this
    | some u =>
      simp [adv, hpc] at hadv; subst hadv
      right; intro _
      refine ⟨_, upd_get_self hlt, ?_⟩
      by_cases hu : t = u
      · subst hu
        simp [rankOf, hpc, Pc.inflight]
      · simp [rankOf, upd, hpc, Pc.inflight, workerCost, hu]
  | wStart u =>
    simp [adv, hpc] at hadv; subst hadv
    by_cases hu : t = u
    · subst hu
      exact Or.inl ⟨kind_of_wStart hpc hkind, rfl⟩
    · right; intro _
      refine ⟨_, upd_get_self hlt, ?_⟩
      simp [rankOf, upd, hpc, Pc.inflight, workerCost, callRank, hu]
  | wCond =>
    simp [hpc, Pc.inflight] at hq
    have hne : s.queue ≠ [] := by intro h; rw [h] at hq; cases hq
    simp [adv, hpc] at hadv; subst hadv
    right; intro _
    refine ⟨_, upd_get_self hlt, ?_⟩
    simp [rankOf, upd, hpc, Pc.inflight, workerCost, ha, hne]
  | pPush x =>
    simp [hpc, Pc.inflight] at hq
    simp [adv, hpc] at hadv; subst hadv
    right; intro _
    refine ⟨_, upd_get_self hlt, ?_⟩
    simp [rankOf, upd, hpc, Pc.inflight, workerCost, callRank, queueCost_append_of_mem _ hq]
  | sClear =>
    simp [adv, hpc] at hadv; subst hadv
    right; intro hp'
    have hp' := pend_upd h0 (by rfl) hp'
    simp [Pc.inflight] at hp'
  | _ => simp [hpc, Pc.inflight] at hq; simp [adv, hpc] at hadv; rank_tac

/-- `progress`, worker steps: while `abort = false` and `t` is pending, every step of the worker either is
`taskStart t`, or strictly decreases `startRank` (provided `t` is still pending afterwards, i.e. it was not
discarded by an `abort()` issued from inside the running task). -/
theorem progress_worker_step {cfg s} (h : Reachable cfg s) (ha : s.abort = false) {t : Nat} (hp : pend s t)
    {k s'} (hs : step cfg s ⟨0, k⟩ = some s') :
    (k = .taskStart ∧ s'.started = s.started ++ [t]) ∨ (pend s' t → startRank cfg s' t < startRank cfg s t) := by
  obtain ⟨th, h0⟩ := worker_thread (inv_reachable h)
  rcases progress_worker_step' h ha hp h0 hs with h1 | h1
  · exact Or.inl h1
  · right; intro hp'
    obtain ⟨th', h0', hlt⟩ := h1 hp'
    simpa [startRank, h0, h0'] using hlt

/-- what a step of a poster thread can do to the queue: nothing, `push_back`, or `clear` -/
theorem other_step_queue {cfg s} (h : Reachable cfg s) {i k s'} (hi : i ≠ 0) (hs : step cfg s ⟨i, k⟩ = some s') :
    s'.queue = s.queue ∨ (∃ x, s'.queue = s.queue ++ [x]) ∨ s'.queue = [] := by
  obtain ⟨th, hth, _, ha⟩ := step_adv hs
  simp only at hth ha
  cases hpc : th.pc with
  | idle =>
    rcases adv_idle_cases hpc ha with ⟨_, _, _, rfl⟩ | ⟨_, _, rfl⟩ | ⟨_, _, _, rfl⟩ <;> exact Or.inl rfl
  | wExited => simp [adv, hpc] at ha
  | wPop =>
    have := worker_of_not_isCall (inv_reachable h) hth (by rw [hpc]; rfl)
    exact absurd this hi
  | pPush x => simp [adv, hpc] at ha; subst ha; exact Or.inr (Or.inl ⟨x, rfl⟩)
  | sClear => simp [adv, hpc] at ha; subst ha; exact Or.inr (Or.inr rfl)
  | _ =>
    simp [adv, hpc] at ha
    first | (obtain ⟨_, ha⟩ := ha; subst ha) | subst ha
    exact Or.inl rfl

/-- `progress`, other threads: a step of a poster thread does not change `startRank` (as long as `t` stays pending) -/
theorem progress_other_step {cfg s} (h : Reachable cfg s) {t : Nat} (hp : pend s t) {i k s'} (hi : i ≠ 0)
    (hs : step cfg s ⟨i, k⟩ = some s') (hp' : pend s' t) : startRank cfg s' t = startRank cfg s t := by
  have h0 := other_step_worker hi hs
  have hin : inflight s' = inflight s := by simp [inflight, h0]
  unfold startRank
  rw [h0]
  cases hth : s.threads[0]? with
  | none => rfl
  | some th =>
    simp only [rankOf]
    by_cases hinf : t ∈ th.pc.inflight
    · simp [hinf]
    · have hq : t ∈ s.queue := by
        rcases hp with h | h
        · exact h
        · simp [inflight, hth] at h; exact absurd h hinf
      have hq' : t ∈ s'.queue := by
        rcases hp' with h | h
        · exact h
        · rw [hin] at h; simp [inflight, hth] at h; exact absurd h hinf
      simp only [hinf, if_false]
      rcases other_step_queue h hi hs with h1 | ⟨x, h1⟩ | h1
      · rw [h1]
      · rw [h1, queueCost_append_of_mem _ hq]
      · rw [h1] at hq'; cases hq'

/-- `started` only grows -/
theorem started_mono_step {cfg s l s'} (hs : step cfg s l = some s') : ∃ r, s'.started = s.started ++ r := by
  obtain ⟨th, hth, _, ha⟩ := step_adv hs
  cases hpc : th.pc with
  | idle =>
    rcases adv_idle_cases hpc ha with ⟨_, _, _, rfl⟩ | ⟨_, _, rfl⟩ | ⟨_, _, _, rfl⟩ <;> exact ⟨[], by simp [upd]⟩
  | wExited => simp [adv, hpc] at ha
  | wStart t => simp [adv, hpc] at ha; subst ha; exact ⟨[t], rfl⟩
  | _ =>
    simp [adv, hpc] at ha
    first | (obtain ⟨_, ha⟩ := ha; subst ha) | subst ha
    exact ⟨[], by simp [upd]⟩

theorem started_mono_run {cfg} : ∀ {ls s s'}, run cfg s ls = some s' → ∃ r, s'.started = s.started ++ r := by
  intro ls
  induction ls with
  | nil => intro s s' hr; simp [run] at hr; subst hr; exact ⟨[], by simp⟩
  | cons l ls ih =>
    intro s s' hr
    simp only [run] at hr
    split at hr
    · rename_i s1 hs1
      obtain ⟨r1, h1⟩ := started_mono_step hs1
      obtain ⟨r2, h2⟩ := ih hr
      exact ⟨r1 ++ r2, by rw [h2, h1, List.append_assoc]⟩
    · cases hr

/-- the states visited by a run (including the first one) -/
def runStates (cfg : Config) : State → List Label → List State
  | s, [] => [s]
  | s, l :: ls => s :: (match step cfg s l with | some s' => runStates cfg s' ls | none => [])

theorem head_mem_runStates (cfg : Config) (s : State) (ls : List Label) : s ∈ runStates cfg s ls := by
  cases ls <;> simp [runStates]

/-- number of steps of the worker in a run -/
def workerSteps (ls : List Label) : Nat := (ls.filter fun l => l.tid == 0).length

/-- `progress`, run form: along ANY run (any interleaving, any number of poster steps) during which `abort` stays
false and `t` stays pending, the worker performs at most `startRank` steps before `t` is started.  Together with
`worker_enabled` / `holder_progress` (the worker is never stuck while work is pending and mutex holders always
progress) this is "under weak fairness every task posted with no abort pending is eventually run". -/
theorem progress_run {cfg} {t : Nat} : ∀ {ls s s'}, Reachable cfg s → run cfg s ls = some s' →
    (∀ x ∈ runStates cfg s ls, x.abort = false ∧ pend x t) →
    t ∈ s'.started ∨ workerSteps ls + startRank cfg s' t ≤ startRank cfg s t := by
  intro ls
  induction ls with
  | nil => intro s s' _ hr _; simp [run] at hr; subst hr; right; simp [workerSteps]
  | cons l ls ih =>
    intro s s' h hr hall
    simp only [run] at hr
    split at hr
    · rename_i s1 hs1
      have hs := hall s (head_mem_runStates _ _ _)
      have hall1 : ∀ x ∈ runStates cfg s1 ls, x.abort = false ∧ pend x t := by
        intro x hx
        apply hall x
        simp [runStates, hs1, hx]
      have hs1p := hall1 s1 (head_mem_runStates _ _ _)
      rcases ih (Reachable.step h hs1) hr hall1 with h1 | h1
      · exact Or.inl h1
      · obtain ⟨i, k⟩ := l
        by_cases hi : i = 0
        · subst hi
          rcases progress_worker_step h hs.1 hs.2 hs1 with ⟨_, h2⟩ | h2
          · left
            obtain ⟨r, hr'⟩ := started_mono_run hr
            rw [hr', h2]; simp
          · right
            have := h2 hs1p.2
            simp only [workerSteps, List.filter_cons, beq_self_eq_true, if_true, List.length_cons] at h1 ⊢
            omega
        · right
          have := progress_other_step h hs.2 hi hs1 hs1p.2
          have hf : workerSteps (⟨i, k⟩ :: ls) = workerSteps ls := by
            simp [workerSteps, hi]
          rw [hf]; omega
    · cases hr

def exitRankS (cfg : Config) (s : State) : Nat :=
  match s.threads[0]? with
  | some th => exitRank cfg th
  | none => 0

/-- `worker_exits`, run form: from a reachable state with `abort = true`, along ANY run the worker performs at most
`exitRankS` steps (≤ 7 when it is not inside / in front of a task, see `exitRank_bound`); when the budget is used up
it is at `wExited` (`exitRank_zero`).  `worker_enabled` / `holder_progress` show it is never stuck before that. -/
theorem worker_exit_run {cfg} : ∀ {ls s s'}, Reachable cfg s → s.abort = true → run cfg s ls = some s' →
    workerSteps ls + exitRankS cfg s' ≤ exitRankS cfg s := by
  intro ls
  induction ls with
  | nil => intro s s' _ _ hr; simp [run] at hr; subst hr; simp [workerSteps]
  | cons l ls ih =>
    intro s s' h ha hr
    simp only [run] at hr
    split at hr
    · rename_i s1 hs1
      have h1 := ih (Reachable.step h hs1) (abort_monotone hs1 ha) hr
      obtain ⟨i, k⟩ := l
      by_cases hi : i = 0
      · subst hi
        obtain ⟨th, h0⟩ := worker_thread (inv_reachable h)
        obtain ⟨th', h0', hlt⟩ := worker_exit_rank h ha h0 hs1
        have e1 : exitRankS cfg s = exitRank cfg th := by simp [exitRankS, h0]
        have e2 : exitRankS cfg s1 = exitRank cfg th' := by simp [exitRankS, h0']
        simp only [workerSteps, List.filter_cons, beq_self_eq_true, if_true, List.length_cons] at h1 ⊢
        omega
      · have := other_step_worker hi hs1
        have e : exitRankS cfg s1 = exitRankS cfg s := by simp [exitRankS, this]
        have hf : workerSteps (⟨i, k⟩ :: ls) = workerSteps ls := by simp [workerSteps, hi]
        rw [hf]; omega
    · cases hr

/-! ## data invariant: FIFO, partition, at most once (needs unique task ids) -/

/-- the task ids posted by a call list -/
def ids : List Call → List Nat
  | [] => []
  | .post t :: cs => t :: ids cs
  | .abort :: cs => ids cs

/-- the id a thread is in the middle of posting -/
def Pc.ids : Pc → List Nat
  | .pLock t => [t]
  | .pPush t => [t]
  | _ => []

/-- ids the thread will still push (current call + remaining calls) -/
def Thread.fut (th : Thread) : List Nat := th.pc.ids ++ ids th.todo

/-- "unique task ids in the programs": every id is posted by at most one call site over all poster programs and
all task bodies -/
structure Config.Unique (cfg : Config) : Prop where
  progNodup : ∀ (i : Nat) (p : List Call), cfg.progs[i]? = some p → (ids p).Nodup
  progDisj : ∀ (i j : Nat) (p q : List Call), i ≠ j → cfg.progs[i]? = some p → cfg.progs[j]? = some q →
    ∀ x ∈ ids p, x ∉ ids q
  bodyNodup : ∀ (u : Nat), (ids (cfg.body u)).Nodup
  bodyDisj : ∀ (u v : Nat), u ≠ v → ∀ x ∈ ids (cfg.body u), x ∉ ids (cfg.body v)
  bodyProg : ∀ (u i : Nat) (p : List Call), cfg.progs[i]? = some p → ∀ x ∈ ids (cfg.body u), x ∉ ids p

structure DInv (cfg : Config) (s : State) : Prop where
  fifo : s.pushed.filter (fun x => decide (x ∉ s.discarded)) = s.started ++ inflight s ++ s.queue
  nodup : s.pushed.Nodup
  discSub : ∀ (x : Nat), x ∈ s.discarded → x ∈ s.pushed
  discNodup : s.discarded.Nodup
  futNodup : ∀ (i : Nat) (th : Thread), s.threads[i]? = some th → th.fut.Nodup
  futDisj : ∀ (i j : Nat) (thi thj : Thread), i ≠ j → s.threads[i]? = some thi → s.threads[j]? = some thj →
    ∀ x ∈ thi.fut, x ∉ thj.fut
  futFresh : ∀ (i : Nat) (th : Thread), s.threads[i]? = some th → ∀ x ∈ th.fut, x ∉ s.pushed
  bodyFresh : ∀ (u : Nat), u ∉ s.started → ∀ x ∈ ids (cfg.body u),
    x ∉ s.pushed ∧ ∀ (i : Nat) (th : Thread), s.threads[i]? = some th → x ∉ th.fut

theorem dinv_init {cfg : Config} (hU : cfg.Unique) : DInv cfg (init cfg) := by
  have hthr : ∀ (i : Nat) (th : Thread), (init cfg).threads[i]? = some th →
      (i = 0 ∧ th.fut = []) ∨ (∃ k p, i = k + 1 ∧ cfg.progs[k]? = some p ∧ th.fut = ids p) := by
    intro i th h
    cases i with
    | zero => simp [init] at h; subst h; left; simp [Thread.fut, Pc.ids, ids]
    | succ k =>
      simp [init] at h
      obtain ⟨p, hp, rfl⟩ := h
      right; exact ⟨k, p, rfl, hp, by simp [Thread.fut, Pc.ids]⟩
  refine ⟨?_, ?_, ?_, ?_, ?_, ?_, ?_, ?_⟩
  · simp [init, inflight, Pc.inflight]
  · simp [init]
  · simp [init]
  · simp [init]
  · intro i th h
    rcases hthr i th h with ⟨_, hf⟩ | ⟨k, p, _, hp, hf⟩
    · rw [hf]; exact List.nodup_nil
    · rw [hf]; exact hU.progNodup k p hp
  · intro i j thi thj hij hi hj x hx
    rcases hthr i thi hi with ⟨_, hf⟩ | ⟨k, p, hk, hp, hf⟩
    · rw [hf] at hx; cases hx
    · rcases hthr j thj hj with ⟨_, hg⟩ | ⟨k', q, hk', hq, hg⟩
      · rw [hg]; simp
      · rw [hg]; rw [hf] at hx
        exact hU.progDisj k k' p q (by omega) hp hq x hx
  · intro i th h x hx; simp [init]
  · intro u _ x hx
    refine ⟨by simp [init], ?_⟩
    intro i th h
    rcases hthr i th h with ⟨_, hf⟩ | ⟨k, p, _, hp, hf⟩
    · rw [hf]; simp
    · rw [hf]; exact hU.bodyProg u k p hp x hx

/-- frame lemma: a step that replaces thread `i` by a record with a subset of its future ids and leaves the
ghost lists / queue / in-flight task alone -/
theorem dinv_frame {cfg : Config} {s s' : State} {i : Nat} {th th' : Thread} (hD : DInv cfg s)
    (hth : s.threads[i]? = some th) (hT : s'.threads = s.threads.set i th') (hfut : th'.fut = th.fut)
    (hpu : s'.pushed = s.pushed) (hst : s'.started = s.started) (hdi : s'.discarded = s.discarded)
    (hq : s'.queue = s.queue) (hin : inflight s' = inflight s) : DInv cfg s' := by
  have hthr : ∀ (j : Nat) (thj' : Thread), s'.threads[j]? = some thj' →
      ∃ thj, s.threads[j]? = some thj ∧ thj'.fut = thj.fut := by
    intro j thj' h
    rw [hT, getElem?_set_iff hth] at h
    rcases h with ⟨rfl, rfl⟩ | ⟨_, h⟩
    · exact ⟨th, hth, hfut⟩
    · exact ⟨thj', h, rfl⟩
  obtain ⟨d1, d2, d3, dn, d4, d5, d6, d7⟩ := hD
  refine ⟨?_, ?_, ?_, ?_, ?_, ?_, ?_, ?_⟩
  · rw [hpu, hdi, hst, hin, hq]; exact d1
  · rw [hpu]; exact d2
  · rw [hpu, hdi]; exact d3
  · rw [hdi]; exact dn
  · intro j thj' h
    obtain ⟨thj, hj, hf⟩ := hthr j thj' h
    rw [hf]; exact d4 j thj hj
  · intro j k thj' thk' hjk hj hk x hx
    obtain ⟨thj, hj, hf⟩ := hthr j thj' hj
    obtain ⟨thk, hk, hg⟩ := hthr k thk' hk
    rw [hg]; rw [hf] at hx
    exact d5 j k thj thk hjk hj hk x hx
  · intro j thj' h x hx
    obtain ⟨thj, hj, hf⟩ := hthr j thj' h
    rw [hpu]; rw [hf] at hx
    exact d6 j thj hj x hx
  · intro u hu x hx
    rw [hst] at hu
    obtain ⟨a, b⟩ := d7 u hu x hx
    refine ⟨by rw [hpu]; exact a, ?_⟩
    intro j thj' h
    obtain ⟨thj, hj, hf⟩ := hthr j thj' h
    rw [hf]; exact b j thj hj

theorem dinv_pPush {cfg : Config} {s s' : State} {i : Nat} {th : Thread} {t : Nat} (hD : DInv cfg s)
    (hth : s.threads[i]? = some th) (hpc : th.pc = .pPush t) (h : adv cfg s i th = some s') : DInv cfg s' := by
  simp [adv, hpc] at h
  have hT : s'.threads = s.threads.set i { th with pc := .pNotify } := by subst h; rfl
  have hpu : s'.pushed = s.pushed ++ [t] := by subst h; rfl
  have hst : s'.started = s.started := by subst h; rfl
  have hdi : s'.discarded = s.discarded := by subst h; rfl
  have hq : s'.queue = s.queue ++ [t] := by subst h; rfl
  have hin : inflight s' = inflight s := inflight_set hth hT (by rw [hpc]; rfl)
  clear h
  obtain ⟨d1, d2, d3, dn, d4, d5, d6, d7⟩ := hD
  have hfut : th.fut = t :: ids th.todo := by simp [Thread.fut, hpc, Pc.ids]
  have hfut' : ({ th with pc := Pc.pNotify } : Thread).fut = ids th.todo := by simp [Thread.fut, Pc.ids]
  have htf : t ∈ th.fut := by rw [hfut]; simp
  have htp : t ∉ s.pushed := d6 i th hth t htf
  have htd : t ∉ s.discarded := fun h => htp (d3 t h)
  have hnd := d4 i th hth
  rw [hfut] at hnd
  have htr : t ∉ ids th.todo := (List.nodup_cons.1 hnd).1
  have hthr : ∀ (j : Nat) (thj' : Thread), s'.threads[j]? = some thj' →
      ∃ thj, s.threads[j]? = some thj ∧ (∀ x ∈ thj'.fut, x ∈ thj.fut) ∧ thj'.fut.Nodup ∧ t ∉ thj'.fut := by
    intro j thj' h
    rw [hT, getElem?_set_iff hth] at h
    rcases h with ⟨rfl, rfl⟩ | ⟨hne, h⟩
    · refine ⟨th, hth, ?_, ?_, ?_⟩
      · intro x hx; rw [hfut'] at hx; rw [hfut]; exact List.mem_cons_of_mem _ hx
      · rw [hfut']; exact (List.nodup_cons.1 hnd).2
      · rw [hfut']; exact htr
    · exact ⟨thj', h, fun x hx => hx, d4 j thj' h, fun hx => d5 i j th thj' (Ne.symm hne) hth h t htf hx⟩
  refine ⟨?_, ?_, ?_, by rw [hdi]; exact dn, ?_, ?_, ?_, ?_⟩
  · rw [hpu, hdi, hst, hin, hq, List.filter_append, d1]
    simp [htd]
  · rw [hpu]
    exact List.nodup_append.2 ⟨d2, by simp, by
      intro a ha b hb
      simp at hb; subst hb
      intro hab; subst hab; exact htp ha⟩
  · intro x hx; rw [hdi] at hx; rw [hpu]; exact List.mem_append_left _ (d3 x hx)
  · intro j thj' h
    exact (hthr j thj' h).choose_spec.2.2.1
  · intro j k thj' thk' hjk hj hk x hx hx'
    obtain ⟨thj, hj, hsub, _, _⟩ := hthr j thj' hj
    obtain ⟨thk, hk, hsub', _, _⟩ := hthr k thk' hk
    exact d5 j k thj thk hjk hj hk x (hsub x hx) (hsub' x hx')
  · intro j thj' h x hx
    obtain ⟨thj, hj, hsub, _, hnt⟩ := hthr j thj' h
    rw [hpu]
    intro hmem
    rcases List.mem_append.1 hmem with hm | hm
    · exact d6 j thj hj x (hsub x hx) hm
    · simp at hm; subst hm; exact hnt hx
  · intro u hu x hx
    rw [hst] at hu
    obtain ⟨a, b⟩ := d7 u hu x hx
    refine ⟨?_, ?_⟩
    · rw [hpu]
      intro hmem
      rcases List.mem_append.1 hmem with hm | hm
      · exact a hm
      · simp at hm; subst hm; exact b i th hth htf
    · intro j thj' h hx'
      obtain ⟨thj, hj, hsub, _, _⟩ := hthr j thj' h
      exact b j thj hj (hsub x hx')

theorem live_nodup {cfg : Config} {s : State} (hD : DInv cfg s) :
    (s.started ++ inflight s ++ s.queue).Nodup := by
  rw [← hD.fifo]; exact hD.nodup.filter _

theorem dinv_sClear {cfg : Config} {s s' : State} {i : Nat} {th : Thread} (hD : DInv cfg s)
    (hth : s.threads[i]? = some th) (hpc : th.pc = .sClear) (h : adv cfg s i th = some s') : DInv cfg s' := by
  simp [adv, hpc] at h
  have hT : s'.threads = s.threads.set i { th with pc := .sWrite } := by subst h; rfl
  have hpu : s'.pushed = s.pushed := by subst h; rfl
  have hst : s'.started = s.started := by subst h; rfl
  have hdi : s'.discarded = s.discarded ++ s.queue := by subst h; rfl
  have hq : s'.queue = [] := by subst h; rfl
  have hin : inflight s' = inflight s := inflight_set hth hT (by rw [hpc]; rfl)
  clear h
  have hnd := live_nodup hD
  -- first the part of the invariant that does not mention `discarded` / `queue`, via the frame lemma on a
  -- state that differs from `s'` only there
  have hfr : DInv cfg { s' with discarded := s.discarded, queue := s.queue } :=
    dinv_frame hD hth hT (by simp [Thread.fut, hpc, Pc.ids]) hpu hst rfl rfl
      (by simpa [inflight] using hin)
  obtain ⟨d1, d2, d3, dn, d4, d5, d6, d7⟩ := hD
  obtain ⟨_, f2, _, _, f4, f5, f6, f7⟩ := hfr
  have hsubq : ∀ x ∈ s.queue, x ∈ s.pushed ∧ x ∉ s.discarded := by
    intro x h
    have : x ∈ s.pushed.filter (fun x => decide (x ∉ s.discarded)) := by
      rw [d1]; exact List.mem_append_right _ h
    simpa using List.mem_filter.1 this
  refine ⟨?_, f2, ?_, ?_, f4, f5, f6, f7⟩
  · rw [hpu, hdi, hst, hin, hq]
    have e : s.pushed.filter (fun x => decide (x ∉ s.discarded ++ s.queue)) =
        (s.pushed.filter (fun x => decide (x ∉ s.discarded))).filter (fun x => decide (x ∉ s.queue)) := by
      rw [List.filter_filter]
      apply List.filter_congr
      intro x _
      simp [List.mem_append]
      by_cases h1 : x ∈ s.queue <;> by_cases h2 : x ∈ s.discarded <;> simp [h1, h2]
    rw [e, d1, List.filter_append, List.append_nil]
    have hdis := (List.nodup_append.1 hnd).2.2
    have e1 : (s.started ++ inflight s).filter (fun x => decide (x ∉ s.queue)) = s.started ++ inflight s := by
      apply List.filter_eq_self.2
      intro a ha
      simp only [decide_eq_true_eq]
      intro hq'
      exact hdis a ha a hq' rfl
    have e2 : s.queue.filter (fun x => decide (x ∉ s.queue)) = [] := by
      apply List.filter_eq_nil_iff.2
      intro a ha; simp [ha]
    rw [e1, e2, List.append_nil]
  · intro x hx
    rw [hdi] at hx; rw [hpu]
    rcases List.mem_append.1 hx with h | h
    · exact d3 x h
    · exact (hsubq x h).1
  · rw [hdi]
    refine List.nodup_append.2 ⟨dn, (List.nodup_append.1 hnd).2.1, ?_⟩
    intro a ha b hb hab
    subst hab
    exact (hsubq a hb).2 ha

theorem dinv_wPop {cfg : Config} {s s' : State} {th : Thread} (hD : DInv cfg s)
    (hth : s.threads[0]? = some th) (hpc : th.pc = .wPop) (h : adv cfg s 0 th = some s') : DInv cfg s' := by
  simp [adv, hpc] at h
  have hT : s'.threads = s.threads.set 0 { th with pc := .wUnlock s.queue.head? } := by subst h; rfl
  have hpu : s'.pushed = s.pushed := by subst h; rfl
  have hst : s'.started = s.started := by subst h; rfl
  have hdi : s'.discarded = s.discarded := by subst h; rfl
  have hq : s'.queue = s.queue.tail := by subst h; rfl
  have hin : inflight s' = Pc.inflight (.wUnlock s.queue.head?) := inflight_set_worker hth hT
  have hin0 : inflight s = [] := by simp [inflight, hth, hpc, Pc.inflight]
  clear h
  have hfr : DInv cfg { s' with queue := s.queue, threads := s.threads.set 0 { th with pc := .wLock } } :=
    dinv_frame (s' := { s' with queue := s.queue, threads := s.threads.set 0 { th with pc := .wLock } })
      hD hth rfl (by simp [Thread.fut, hpc, Pc.ids]) hpu hst hdi rfl
      (inflight_set hth rfl (by rw [hpc]; rfl))
  have hfut : ∀ (j : Nat) (thj : Thread), s'.threads[j]? = some thj →
      ∃ thj0, (s.threads.set 0 { th with pc := Pc.wLock })[j]? = some thj0 ∧ thj.fut = thj0.fut := by
    intro j thj hj
    rw [hT, getElem?_set_iff hth] at hj
    rcases hj with ⟨rfl, rfl⟩ | ⟨hne, hj⟩
    · exact ⟨_, (getElem?_set_iff hth).2 (Or.inl ⟨rfl, rfl⟩), by simp [Thread.fut, Pc.ids]⟩
    · exact ⟨thj, (getElem?_set_iff hth).2 (Or.inr ⟨hne, hj⟩), rfl⟩
  obtain ⟨d1, d2, d3, dn, d4, d5, d6, d7⟩ := hD
  obtain ⟨_, f2, f3, fn, f4, f5, f6, f7⟩ := hfr
  refine ⟨?_, f2, f3, fn, ?_, ?_, ?_, ?_⟩
  · rw [hpu, hdi, hst, hin, hq, d1, hin0]
    cases hqq : s.queue with
    | nil => simp [Pc.inflight]
    | cons u q => simp [Pc.inflight]
  · intro j thj hj
    obtain ⟨thj0, h0, e⟩ := hfut j thj hj
    rw [e]; exact f4 j thj0 h0
  · intro j k thj thk hjk hj hk x hx
    obtain ⟨thj0, h0, e⟩ := hfut j thj hj
    obtain ⟨thk0, h0', e'⟩ := hfut k thk hk
    rw [e'] ; rw [e] at hx
    exact f5 j k thj0 thk0 hjk h0 h0' x hx
  · intro j thj hj x hx
    obtain ⟨thj0, h0, e⟩ := hfut j thj hj
    rw [e] at hx
    exact f6 j thj0 h0 x hx
  · intro u hu x hx
    obtain ⟨a, b⟩ := f7 u hu x hx
    refine ⟨a, ?_⟩
    intro j thj hj
    obtain ⟨thj0, h0, e⟩ := hfut j thj hj
    rw [e]; exact b j thj0 h0

theorem dinv_wStart {cfg : Config} (hU : cfg.Unique) {s s' : State} {th : Thread} {t : Nat}
    (hD : DInv cfg s) (hth : s.threads[0]? = some th) (hpc : th.pc = .wStart t)
    (h : adv cfg s 0 th = some s') : DInv cfg s' := by
  simp [adv, hpc] at h
  have hT : s'.threads = s.threads.set 0 { todo := cfg.body t, pc := .idle, cur := some t } := by subst h; rfl
  have hpu : s'.pushed = s.pushed := by subst h; rfl
  have hst : s'.started = s.started ++ [t] := by subst h; rfl
  have hdi : s'.discarded = s.discarded := by subst h; rfl
  have hq : s'.queue = s.queue := by subst h; rfl
  have hin : inflight s' = [] := inflight_set_worker hth hT
  have hin0 : inflight s = [t] := by simp [inflight, hth, hpc, Pc.inflight]
  clear h
  have hnd := live_nodup hD
  rw [hin0] at hnd
  have hts : t ∉ s.started := by
    have := (List.nodup_append.1 (List.nodup_append.1 hnd).1).2.2
    intro hmem
    exact this t hmem t (by simp) rfl
  obtain ⟨d1, d2, d3, dn, d4, d5, d6, d7⟩ := hD
  have bp : ∀ x ∈ ids (cfg.body t), x ∉ s.pushed := fun x hx => (d7 t hts x hx).1
  have bt : ∀ x ∈ ids (cfg.body t), ∀ (i : Nat) (th : Thread), s.threads[i]? = some th → x ∉ th.fut :=
    fun x hx => (d7 t hts x hx).2
  have hfut' : ({ todo := cfg.body t, pc := Pc.idle, cur := some t } : Thread).fut = ids (cfg.body t) := by
    simp [Thread.fut, Pc.ids]
  have hthr : ∀ (j : Nat) (thj : Thread), s'.threads[j]? = some thj →
      (j = 0 ∧ thj.fut = ids (cfg.body t)) ∨ (j ≠ 0 ∧ s.threads[j]? = some thj) := by
    intro j thj hj
    rw [hT, getElem?_set_iff hth] at hj
    rcases hj with ⟨rfl, rfl⟩ | ⟨hne, hj⟩
    · exact Or.inl ⟨rfl, hfut'⟩
    · exact Or.inr ⟨hne, hj⟩
  refine ⟨?_, ?_, ?_, by rw [hdi]; exact dn, ?_, ?_, ?_, ?_⟩
  · rw [hpu, hdi, hst, hin, hq, d1, hin0]; simp
  · rw [hpu]; exact d2
  · rw [hpu, hdi]; exact d3
  · intro j thj hj
    rcases hthr j thj hj with ⟨_, e⟩ | ⟨_, hj⟩
    · rw [e]; exact hU.bodyNodup t
    · exact d4 j thj hj
  · intro j k thj thk hjk hj hk x hx hx'
    rcases hthr j thj hj with ⟨rfl, e⟩ | ⟨hj0, hj⟩
    · rcases hthr k thk hk with ⟨rfl, _⟩ | ⟨_, hk⟩
      · exact hjk rfl
      · rw [e] at hx; exact bt x hx k thk hk hx'
    · rcases hthr k thk hk with ⟨rfl, e⟩ | ⟨_, hk⟩
      · rw [e] at hx'; exact bt x hx' j thj hj hx
      · exact d5 j k thj thk hjk hj hk x hx hx'
  · intro j thj hj x hx
    rw [hpu]
    rcases hthr j thj hj with ⟨_, e⟩ | ⟨_, hj⟩
    · rw [e] at hx; exact bp x hx
    · exact d6 j thj hj x hx
  · intro u hu x hx
    rw [hst] at hu
    have hu1 : u ∉ s.started := fun h => hu (List.mem_append_left _ h)
    have hut : u ≠ t := fun h => hu (by rw [h]; simp)
    obtain ⟨a, b⟩ := d7 u hu1 x hx
    refine ⟨by rw [hpu]; exact a, ?_⟩
    intro j thj hj
    rcases hthr j thj hj with ⟨_, e⟩ | ⟨_, hj⟩
    · rw [e]; exact hU.bodyDisj u t hut x hx
    · exact b j thj hj

set_option hygiene false in
local macro "d_frame" : tactic => `(tactic| (
    first | (obtain ⟨hh, h⟩ := h; subst h) | subst h
    exact dinv_frame hD hth rfl
      (by first
        | (simp [Thread.fut, hpc, Pc.ids]; done)
        | (simp [Thread.fut, hpc, Pc.ids]; cases s.abort <;> cases s.queue <;> simp; done)
        | (rename_i f; cases f <;> simp [Thread.fut, hpc, Pc.ids]))
      rfl rfl rfl rfl
      (inflight_set hth rfl (by rw [hpc]; first | rfl | (split <;> rfl) | (split <;> first | rfl | (split <;> rfl))))))

theorem dinv_adv {cfg : Config} (hU : cfg.Unique) {s s' : State} {i : Nat} {th : Thread} (hI : Inv s)
    (hD : DInv cfg s) (hth : s.threads[i]? = some th) (h : adv cfg s i th = some s') : DInv cfg s' := by
  cases hpc : th.pc with
  | pPush t => exact dinv_pPush hD hth hpc h
  | sClear => exact dinv_sClear hD hth hpc h
  | wPop =>
    have hi : i = 0 := worker_of_not_isCall hI hth (by rw [hpc]; rfl)
    subst hi
    exact dinv_wPop hD hth hpc h
  | wStart t =>
    have hi : i = 0 := worker_of_not_isCall hI hth (by rw [hpc]; rfl)
    subst hi
    exact dinv_wStart hU hD hth hpc h
  | wExited => simp [adv, hpc] at h
  | idle =>
    rcases adv_idle_cases hpc h with ⟨t, rest, ht, rfl⟩ | ⟨rest, ht, rfl⟩ | ⟨t, ht, _, rfl⟩
    · exact dinv_frame hD hth rfl (by simp [Thread.fut, hpc, Pc.ids, ht, ids]) rfl rfl rfl rfl
        (inflight_set hth rfl (by rw [hpc]; rfl))
    · exact dinv_frame hD hth rfl (by simp [Thread.fut, hpc, Pc.ids, ht, ids]) rfl rfl rfl rfl
        (inflight_set hth rfl (by rw [hpc]; rfl))
    · exact dinv_frame hD hth rfl (by simp [Thread.fut, hpc, Pc.ids, ht, ids]) rfl rfl rfl rfl
        (inflight_set hth rfl (by rw [hpc]; rfl))
  | _ => simp [adv, hpc] at h; d_frame

theorem all_inv_reachable {cfg : Config} (hU : cfg.Unique) {s : State} (h : Reachable cfg s) :
    Inv s ∧ DInv cfg s := by
  induction h with
  | init => exact ⟨inv_init cfg, dinv_init hU⟩
  | step _ hs ih =>
    obtain ⟨th, hth, _, ha⟩ := step_adv hs
    exact ⟨inv_adv ih.1 hth ha, dinv_adv hU ih.1 ih.2 hth ha⟩

theorem dinv_reachable {cfg : Config} (hU : cfg.Unique) {s : State} (h : Reachable cfg s) : DInv cfg s :=
  (all_inv_reachable hU h).2

/-- `at_most_once`: with unique task ids no task is started twice (and no id is pushed twice) -/
theorem at_most_once {cfg : Config} (hU : cfg.Unique) {s : State} (h : Reachable cfg s) :
    s.started.Nodup ∧ s.pushed.Nodup := by
  have hD := dinv_reachable hU h
  exact ⟨(List.nodup_append.1 (List.nodup_append.1 (live_nodup hD)).1).1, hD.nodup⟩

/-- `fifo`: the tasks started so far, then the popped-but-not-yet-started one, then the queue content are exactly
the pushed tasks that were not discarded by an `abort`, in push order.  In particular `started` is a subsequence of
`pushed` (same relative order), and the queue is served from the front. -/
theorem fifo {cfg : Config} (hU : cfg.Unique) {s : State} (h : Reachable cfg s) :
    s.started ++ inflight s ++ s.queue = s.pushed.filter (fun x => decide (x ∉ s.discarded)) ∧
    s.started.Sublist s.pushed := by
  have hD := dinv_reachable hU h
  refine ⟨hD.fifo.symm, ?_⟩
  have h1 : (s.started ++ inflight s ++ s.queue).Sublist s.pushed := by
    rw [← hD.fifo]; exact List.filter_sublist
  refine List.Sublist.trans ?_ h1
  rw [List.append_assoc]
  exact List.sublist_append_left _ _

/-- `partition`: every pushed task is in exactly one of the classes started / in flight (popped, about to start) /
still queued / discarded by an abort; nothing else is in those classes. -/
theorem partition {cfg : Config} (hU : cfg.Unique) {s : State} (h : Reachable cfg s) :
    (∀ t, t ∈ s.pushed ↔ (t ∈ s.started ∨ t ∈ inflight s ∨ t ∈ s.queue ∨ t ∈ s.discarded)) ∧
    (s.started ++ inflight s ++ s.queue ++ s.discarded).Nodup := by
  have hD := dinv_reachable hU h
  have hmem : ∀ t, t ∈ s.started ++ inflight s ++ s.queue ↔ (t ∈ s.pushed ∧ t ∉ s.discarded) := by
    intro t
    rw [← hD.fifo, List.mem_filter]; simp
  refine ⟨?_, ?_⟩
  · intro t
    constructor
    · intro ht
      by_cases hd : t ∈ s.discarded
      · exact Or.inr (Or.inr (Or.inr hd))
      · have := (hmem t).2 ⟨ht, hd⟩
        simp only [List.mem_append] at this
        rcases this with (h | h) | h
        · exact Or.inl h
        · exact Or.inr (Or.inl h)
        · exact Or.inr (Or.inr (Or.inl h))
    · intro ht
      have hl : t ∈ s.started ++ inflight s ++ s.queue → t ∈ s.pushed := fun h => ((hmem t).1 h).1
      rcases ht with h | h | h | h
      · exact hl (by simp [h])
      · exact hl (by simp [h])
      · exact hl (by simp [h])
      · exact hD.discSub t h
  · refine List.nodup_append.2 ⟨live_nodup hD, hD.discNodup, ?_⟩
    intro a ha b hb hab
    subst hab
    exact ((hmem a).1 ha).2 hb

/-! ## DefaultScheduler -/

namespace DS
open Rx.DefaultSched

/-- `default_scheduler_sync`: in every reachable state of the DefaultScheduler model the log is well nested and the
open (started, not yet finished) tasks are exactly the tasks of the frames on the call stack, innermost first.
Hence a task posted from a frame runs to completion (`fin t` logged, everything it posted inline finished) before
that frame executes its next call: `post` is synchronous; `abort` changes nothing but the caller's position. -/
theorem default_scheduler_sync {cfg : Config} {prog : List Call} {s : DefaultSched.State}
    (h : DefaultSched.Reachable cfg prog s) : openTasks s.log = some (s.stack.filterMap (·.task)) := by
  induction h with
  | init => simp [DefaultSched.init, openTasks]
  | step _ hs ih =>
    rename_i s s'
    unfold DefaultSched.step at hs
    split at hs
    · cases hs
    · rename_i fr rest hst
      split at hs
      · rename_i t cs htodo
        simp at hs; subst hs
        simp [openTasks, List.foldl_append] at ih ⊢
        rw [ih, hst]; simp [bracket, List.filterMap_cons]
      · rename_i cs htodo
        simp at hs; subst hs
        simp [openTasks] at ih ⊢
        rw [ih, hst]; simp [List.filterMap_cons]
      · rename_i htodo
        split at hs
        · rename_i t htask
          simp at hs; subst hs
          simp [openTasks, List.foldl_append] at ih ⊢
          rw [ih, hst]; simp [bracket, htask]
        · cases hs

/-- `post t` enters the task body at once, on the calling thread, with the caller suspended underneath -/
theorem default_post_inline (cfg : Config) (fr : Frame) (rest : List Frame) (log : List DEv) (t : Nat)
    (cs : List Call) (h : fr.todo = .post t :: cs) :
    DefaultSched.step cfg { stack := fr :: rest, log := log } =
      some { stack := ⟨some t, cfg.body t⟩ :: { fr with todo := cs } :: rest, log := log ++ [.start t] } := by
  simp [DefaultSched.step, h]

/-- `abort()` is a no-op -/
theorem default_abort_noop (cfg : Config) (fr : Frame) (rest : List Frame) (log : List DEv)
    (cs : List Call) (h : fr.todo = .abort :: cs) :
    DefaultSched.step cfg { stack := fr :: rest, log := log } =
      some { stack := { fr with todo := cs } :: rest, log := log } := by
  simp [DefaultSched.step, h]

/-- non-vacuity: task 1 posts task 2 from inside; the log is nested and everything has finished -/
example :
    (runN { progs := [], body := fun t => if t = 1 then [.post 2, .abort] else [] } 20
      (DefaultSched.init [.post 1, .abort, .post 3])).log
      = [.start 1, .start 2, .fin 2, .fin 1, .start 3, .fin 3] := by decide

end DS

/-! ## non-vacuity: concrete runs -/

/-- the observable part of a state, for the examples -/
structure Summary where
  pcs : List Pc
  pushed : List Nat
  started : List Nat
  finished : List Nat
  discarded : List Nat := []
  queue : List Nat := []
  runner : List (Nat × Nat)
  abort : Bool := false
  abortReturned : Bool := false
deriving DecidableEq, Repr

def summary (s : State) : Summary :=
  { pcs := s.threads.map (·.pc), pushed := s.pushed, started := s.started, finished := s.finished,
    discarded := s.discarded, queue := s.queue, runner := s.runner, abort := s.abort,
    abortReturned := s.abortReturned }

/-- two posters, one task each -/
def cfg2 : Config := { progs := [[.post 1], [.post 2]], body := fun _ => [] }

/-- the worker parks first; poster 1 then poster 2 post; the worker is woken and runs both tasks in FIFO order, then parks again -/
def run2 : List Label :=
  [⟨0, .lock⟩, ⟨0, .abortRead⟩, ⟨0, .wait⟩,
   ⟨1, .callStart⟩, ⟨2, .callStart⟩, ⟨1, .lock⟩, ⟨1, .push⟩, ⟨1, .notify⟩, ⟨1, .unlock⟩, ⟨1, .callRet⟩,
   ⟨2, .lock⟩, ⟨2, .push⟩, ⟨2, .notify⟩, ⟨2, .unlock⟩, ⟨2, .callRet⟩,
   ⟨0, .wake⟩, ⟨0, .lock⟩, ⟨0, .abortRead⟩, ⟨0, .abortRead⟩, ⟨0, .pop⟩, ⟨0, .unlock⟩, ⟨0, .taskStart⟩, ⟨0, .taskEnd⟩,
   ⟨0, .lock⟩, ⟨0, .abortRead⟩, ⟨0, .abortRead⟩, ⟨0, .pop⟩, ⟨0, .unlock⟩, ⟨0, .taskStart⟩, ⟨0, .taskEnd⟩,
   ⟨0, .lock⟩, ⟨0, .abortRead⟩, ⟨0, .wait⟩]

/-- a concrete 2-poster run reaching a state where two tasks have finished in FIFO order -/
example : (replay cfg2 run2).map summary =
    some { pcs := [.wParked, .idle, .idle], pushed := [1, 2], started := [1, 2], finished := [1, 2],
           runner := [(1, 0), (2, 0)] } := by decide

/-- task 1 calls `abort()` from inside and then posts task 3; task 2 was queued behind task 1 -/
def cfgAbortInside : Config :=
  { progs := [[.post 1, .post 2]], body := fun t => if t = 1 then [.abort, .post 3] else [] }

def runAbortInside : List Label :=
  [⟨1, .callStart⟩, ⟨1, .lock⟩, ⟨1, .push⟩, ⟨1, .notify⟩, ⟨1, .unlock⟩, ⟨1, .callRet⟩,
   ⟨1, .callStart⟩, ⟨1, .lock⟩, ⟨1, .push⟩, ⟨1, .notify⟩, ⟨1, .unlock⟩, ⟨1, .callRet⟩,
   ⟨0, .lock⟩, ⟨0, .abortRead⟩, ⟨0, .abortRead⟩, ⟨0, .pop⟩, ⟨0, .unlock⟩, ⟨0, .taskStart⟩,
   ⟨0, .callStart⟩, ⟨0, .lock⟩, ⟨0, .clear⟩, ⟨0, .abortWrite⟩, ⟨0, .notify⟩, ⟨0, .unlock⟩, ⟨0, .callRet⟩,
   ⟨0, .callStart⟩, ⟨0, .lock⟩, ⟨0, .push⟩, ⟨0, .notify⟩, ⟨0, .unlock⟩, ⟨0, .callRet⟩,
   ⟨0, .taskEnd⟩,
   ⟨0, .lock⟩, ⟨0, .abortRead⟩, ⟨0, .abortRead⟩, ⟨0, .unlock⟩, ⟨0, .exit⟩]

/-- abort from inside a task: the worker finishes the task, takes nothing more (task 2 discarded, task 3 — posted
after the abort — stays in the queue for ever: neither run nor discarded) and exits -/
example : (replay cfgAbortInside runAbortInside).map summary =
    some { pcs := [.wExited, .idle], pushed := [1, 2, 3], started := [1], finished := [1], discarded := [2],
           queue := [3], runner := [(1, 0)], abort := true, abortReturned := true } := by decide

/-- the final state of that run is terminal for the worker: no label of thread 0 is enabled -/
example : ((replay cfgAbortInside runAbortInside).map fun s =>
    Kind.all.all fun k => (step cfgAbortInside s ⟨0, k⟩).isNone) = some true := by decide

/-- a lost `notify_one` is harmless: both posts notify while the worker is not parked -/
example : (replay cfg2
    [⟨1, .callStart⟩, ⟨1, .lock⟩, ⟨1, .push⟩, ⟨1, .notify⟩, ⟨1, .unlock⟩,
     ⟨0, .lock⟩, ⟨0, .abortRead⟩, ⟨0, .abortRead⟩, ⟨0, .pop⟩, ⟨0, .unlock⟩, ⟨0, .taskStart⟩, ⟨0, .taskEnd⟩]).map
      (fun s => s.started ++ s.waiters) = some [1] := by decide

/-- the model rejects traces that do not follow the code (here: `push` without holding the mutex) -/
example : replay cfg2 [⟨1, .callStart⟩, ⟨1, .push⟩] = none := by decide

/-- …and a `lock` while the mutex is held -/
example : replay cfg2 [⟨0, .lock⟩, ⟨1, .callStart⟩, ⟨1, .lock⟩] = none := by decide

/-! text format round trip (evaluated, not proved: string functions do not reduce in the kernel) -/
#guard parseLabel "0 lock" == some ⟨0, .lock⟩
#guard parseLabel "  12   taskStart " == some ⟨12, .taskStart⟩
#guard parseLabel "1 frobnicate" == none
#guard parseLabel "1 lock extra" == none
#guard (Kind.all.map fun k => parseLabel (Label.toString ⟨3, k⟩)) == Kind.all.map fun k => some ⟨3, k⟩
#guard (parseTrace "# demo\n0 lock\n0 abortRead\n\n0 wait\n").bind (replay cfg2) |>.isSome
#guard (run2.map Label.toString).mapM parseLabel == some run2

/-! ## non-vacuity of the hypotheses of the main theorems -/

theorem reach_of {cfg : Config} {ls : List Label} (p : State → Bool)
    (h : (replay cfg ls).map p = some true) : ∃ s, Reachable cfg s ∧ p s = true := by
  cases hr : replay cfg ls with
  | none => rw [hr] at h; cases h
  | some s =>
    rw [hr] at h
    simp only [Option.map_some, Option.some.injEq] at h
    exact ⟨s, reachable_replay hr, h⟩

theorem cfg2_unique : cfg2.Unique := by
  have hp : ∀ (i : Nat) (p : List Call), cfg2.progs[i]? = some p →
      (i = 0 ∧ p = [.post 1]) ∨ (i = 1 ∧ p = [.post 2]) := by
    intro i p h
    match i with
    | 0 => simp [cfg2] at h; exact Or.inl ⟨rfl, h.symm⟩
    | 1 => simp [cfg2] at h; exact Or.inr ⟨rfl, h.symm⟩
    | n + 2 => simp [cfg2] at h
  refine ⟨?_, ?_, ?_, ?_, ?_⟩
  · intro i p h
    rcases hp i p h with ⟨_, rfl⟩ | ⟨_, rfl⟩ <;> simp [ids]
  · intro i j p q hij hi hj x hx
    rcases hp i p hi with ⟨rfl, rfl⟩ | ⟨rfl, rfl⟩ <;> rcases hp j q hj with ⟨rfl, rfl⟩ | ⟨rfl, rfl⟩ <;>
      simp_all [ids]
  · intro u; simp [cfg2, ids]
  · intro u v _ x hx; simp [cfg2, ids] at hx
  · intro u i p _ x hx; simp [cfg2, ids] at hx

theorem cfgAbortInside_unique : cfgAbortInside.Unique := by
  have hp : ∀ (i : Nat) (p : List Call), cfgAbortInside.progs[i]? = some p → p = [.post 1, .post 2] := by
    intro i p h
    match i with
    | 0 => simp [cfgAbortInside] at h; exact h.symm
    | n + 1 => simp [cfgAbortInside] at h
  have hb : ∀ (u : Nat), ids (cfgAbortInside.body u) = if u = 1 then [3] else [] := by
    intro u
    by_cases hu : u = 1 <;> simp [cfgAbortInside, hu, ids]
  refine ⟨?_, ?_, ?_, ?_, ?_⟩
  · intro i p h; rw [hp i p h]; simp [ids]
  · intro i j p q hij hi hj
    match i, j with
    | 0, 0 => exact absurd rfl hij
    | 0, n + 1 => simp [cfgAbortInside] at hj
    | n + 1, _ => simp [cfgAbortInside] at hi
  · intro u; rw [hb]; split <;> simp
  · intro u v huv x hx
    rw [hb] at hx ⊢
    by_cases hu : u = 1
    · have : ¬ v = 1 := fun h => huv (hu.trans h.symm)
      simp [this]
    · simp [hu] at hx
  · intro u i p h x hx
    rw [hp i p h]; rw [hb] at hx
    by_cases hu : u = 1
    · simp [hu] at hx; subst hx; simp [ids]
    · simp [hu] at hx

/-- `one_at_a_time`, `at_most_once`, `fifo`, `partition`: a reachable state of a configuration with unique ids in
which a task is running while another one is queued -/
example : ∃ s, Reachable cfg2 s ∧ cfg2.Unique ∧
    (decide (s.started = [1] ∧ s.finished = [] ∧ s.queue = [2] ∧ s.pushed = [1, 2]) = true) := by
  obtain ⟨s, hr, hp⟩ := reach_of (cfg := cfg2) (ls := run2.take 22)
    (fun s => decide (s.started = [1] ∧ s.finished = [] ∧ s.queue = [2] ∧ s.pushed = [1, 2])) (by decide)
  exact ⟨s, hr, cfg2_unique, hp⟩

/-- `partition` with a non-empty `discarded` class, `worker_exits` / `worker_exit_rank` (a reachable state with
`abort = true` in which the worker, inside a task, still has steps to do) -/
example : ∃ s, Reachable cfgAbortInside s ∧ cfgAbortInside.Unique ∧
    (decide (s.abort = true ∧ s.discarded = [2] ∧ s.started = [1] ∧ s.finished = [] ∧
      (step cfgAbortInside s ⟨0, .notify⟩).isSome) = true) := by
  obtain ⟨s, hr, hp⟩ := reach_of (cfg := cfgAbortInside) (ls := runAbortInside.take 22)
    (fun s => decide (s.abort = true ∧ s.discarded = [2] ∧ s.started = [1] ∧ s.finished = [] ∧
      (step cfgAbortInside s ⟨0, .notify⟩).isSome)) (by decide)
  exact ⟨s, hr, cfgAbortInside_unique, hp⟩

/-- `no_lost_wakeup`: the worker is parked (still in the waiter list), the queue is non-empty, and the poster holds
the mutex just before its `notify_one` -/
example : ∃ s, Reachable cfg2 s ∧
    (decide (s.threads.map (·.pc) = [.wParked, .pNotify, .pLock 2] ∧ s.queue = [1] ∧ s.waiters = [0] ∧
      s.holder = some 1) = true) :=
  reach_of (cfg := cfg2) (ls := run2.take 7) _ (by decide)

/-- `progress`: task 2 is pending behind task 1 with `abort = false`; its rank is finite and positive -/
example : ∃ s, Reachable cfg2 s ∧
    (decide (s.abort = false ∧ 2 ∈ s.queue ∧ startRank cfg2 s 2 = 14) = true) :=
  reach_of (cfg := cfg2) (ls := run2.take 15) _ (by decide)

/-- `worker_exits`: with `abort` set and the worker parked, 6 worker steps remain -/
example : ∃ s, Reachable cfgLate s ∧ (decide (s.abort = true ∧ exitRankS cfgLate s = 6) = true) :=
  reach_of (cfg := cfgLate)
    (ls := [⟨0, .lock⟩, ⟨0, .abortRead⟩, ⟨0, .wait⟩, ⟨1, .callStart⟩, ⟨1, .lock⟩, ⟨1, .push⟩, ⟨1, .notify⟩,
      ⟨1, .unlock⟩, ⟨1, .callRet⟩, ⟨1, .callStart⟩, ⟨1, .lock⟩, ⟨1, .clear⟩, ⟨1, .abortWrite⟩]) _ (by decide)

/-! ## axioms -/
#print axioms one_at_a_time
#print axioms at_most_once
#print axioms fifo
#print axioms partition
#print axioms no_take_after_abort
#print axioms start_after_abort
#print axioms strict_no_start_after_abort_false
#print axioms worker_exits_no_take
#print axioms worker_exit_rank
#print axioms worker_exit_run
#print axioms exitRank_bound
#print axioms no_lost_wakeup
#print axioms worker_enabled
#print axioms holder_progress
#print axioms progress_worker_step
#print axioms progress_other_step
#print axioms progress_run
#print axioms abort_access_under_mutex
#print axioms mutex_exclusive
#print axioms DS.default_scheduler_sync
#print axioms reachable_iff_replay

end Rx.Queue
