import RxVerif.Theorems.C13RefColdConn
/-
C13-REF, publish over a COLD source — model A's `publishConnect` (publish.rs:26-41) with the harness' cold source
refines `ConnM` (kind `.publish`, source `.cold script`).

World of `progPc`: as for the hot case (cells 2,3 = the connectable's subject S, 4 = the handles `connect()` returned,
5+i = armed flag of handle i; slots 2,3 = hooks of S; observable 1 = `S.observable`), except that observable 0 is the
cold source.  Cells 0,1 / slots 0,1 belong to a plain Subject that is allocated first and never used; it is kept so
that the numbering coincides with the hot development.
-/
namespace Rx.CRef
open Rx.Sim Rx.SubjM Rx.Ref Rx.RefR

/-- the users' side of a cold publish world.  `cobsX` = the source observers whose handle exists (it lags one
    behind `cobsG` while the script runs inside `connect()`). -/
def URpc (script : List Ev) (roots cobsG cobsX : List Nat) (w : World) (s : SubjM.State) : Prop :=
  Glob roots cobsG w ∧ UsersPart Sp roots none w s.observers s.serial s.obs ∧ ExtrasP cobsX w ∧
  w.obsvs[0]? = some (coldSrc script)

structure RelPc (script : List Ev) (roots cobs : List Nat) (armed : List Bool) (w : World) (st : ConnM.State) :
    Prop where
  inv : ColdInv (URpc script roots cobs cobs) fnP feP fcP acellP roots cobs w st armed
  full : armed.length = st.conns.length

theorem URpc.conn {script roots cobsG cobsX w s} (h : URpc script roots cobsG cobsX w s) (i : Nat)
    (hi : i < cobsG.length) : URpc script roots cobsG cobsX (w.setObs (rootAt cobsG i) Obs.cleared) s := by
  obtain ⟨g, U, X, hs⟩ := h
  refine ⟨g.touch (Touch.setObs (J := fun _ => True) (K := NoCell) w _ _ trivial), ?_, ?_, hs⟩
  · exact U.frame rfl rfl rfl
      (fun u hu => getElem?_setObs_other _ (fun e => g.root_ne_cob hu hi e.symm)) (fun _ => rfl)
  · exact ⟨X.held, X.slots, X.obsvS, X.cn, X.nCells⟩

theorem URpc.probe {script roots cobsG cobsX w s} (h : URpc script roots cobsG cobsX w s) (t : Nat) (d : Data) :
    URpc script roots cobsG cobsX (w.emit (.probe t d)) s := by
  obtain ⟨g, U, X, hs⟩ := h
  refine ⟨⟨g.status, g.nObs, g.rootsLt, g.cobsLt, g.nodup⟩, ?_, ⟨X.held, X.slots, X.obsvS, X.cn, X.nCells⟩, hs⟩
  exact U.frame rfl rfl rfl (fun _ _ => rfl) (fun u => logOf_emit_probe w t d u)

theorem URpc.emit {script roots cobsG cobsX w s} (ev : Ev) (hh : SlotReads w.held)
    (h : URpc script roots cobsG cobsX w s) :
    WP (codeBody ev fnP feP fcP) w (fun w' => URpc script roots cobsG cobsX w' (emit .plain s ev) ∧
      Touch (InRoots roots) (IsCell 2) w w') := by
  obtain ⟨g, U, X, hs⟩ := h
  rw [codeBody_P]
  refine (emitS_spec hh g U ev).conseq ?_
  rintro w' ⟨U', t⟩
  exact ⟨⟨g.touch t, U', X.touch t (by intro e; cases e), t.obsvs ▸ hs⟩, t⟩

theorem URpc.touchConns {script roots cobs cobsX w w' s} (h : URpc script roots cobs cobsX w s)
    (t : Touch (InList cobs) KP w w') (htr : w'.trace = w.trace) : URpc script roots cobs cobsX w' s := by
  obtain ⟨g, U, X, hs⟩ := h
  refine ⟨g.touch t, ?_, X.touch t (by simp [KP]), t.obsvs ▸ hs⟩
  refine U.frame (t.cells _ (by simp [KP, Sp])) (t.cells _ (by simp [KP, Sp])) t.users ?_ ?_
  · intro u hu
    refine t.obs _ (fun hm => ?_)
    exact (List.nodup_append.1 g.nodup).2.2 _ (rootAt_mem hu) _ hm rfl
  · intro u; simp only [logOf, htr]

theorem stepPc_subscribe (script) (st : ConnM.State) (o : Nat) :
    ConnM.step .publish (.cold script) st (.subscribe o) =
      { st with sub := SubjM.step .plain st.sub (.subscribe o) } := rfl

theorem stepPc_unsubscribe (script) (st : ConnM.State) (o : Nat) :
    ConnM.step .publish (.cold script) st (.unsubscribe o) =
      { st with sub := SubjM.step .plain st.sub (.unsubscribe o) } := rfl

theorem subscribePc_spec {script roots cobs armed w st} (h : RelPc script roots cobs armed w st) :
    WP (.userSub 1 noReact .done) w (fun w' =>
      RelPc script (roots ++ [w.obs.length]) cobs armed w'
        (ConnM.step .publish (.cold script) st (.subscribe roots.length))) := by
  obtain ⟨g, U, X, hs⟩ := h.inv.ur
  have hu : (st.sub.obs roots.length).seen = false := (View.eq (U.unseen _ (Nat.le_refl _))).1
  rw [stepPc_subscribe, plain_subscribe_fresh _ _ hu]
  refine userSub_pre X.obsvS h.inv.held U ?_
  refine slotTail_none h.inv.held (X.slots 2 (by decide)) (wp_userReady (WP.done ?_))
  have g1 := subUser_glob (S := Sp) g st.sub.observers st.sub.serial
  have U1 := (subUser_users g U).ready
  rw [U.nUsers]
  have g1' : Glob (roots ++ [w.obs.length]) cobs
      ((subUserWorld Sp w roots st.sub.observers st.sub.serial).setUser roots.length
        fun u => { u with ready := true }) := ⟨g1.status, g1.nObs, g1.rootsLt, g1.cobsLt, g1.nodup⟩
  refine ⟨⟨g1', h.inv.held, ⟨g1', U1, ?_, hs⟩, ?_⟩, h.full⟩
  · exact ⟨X.held, X.slots, X.obsvS,
      by show (subUserWorld Sp w roots st.sub.observers st.sub.serial).cells[4]? = _
         rw [subUser_cells Sp w roots st.sub.observers st.sub.serial (by decide) (by decide)]; exact X.cn,
      by show (subUserWorld Sp w roots st.sub.observers st.sub.serial).cells.length = _
         rw [subUser_cellsLen]; exact X.nCells⟩
  · refine h.inv.conns.frame ?_ ?_ rfl
    · intro i hi
      exact subUser_obs_lt Sp w roots st.sub.observers st.sub.serial
        (g.cobsLt _ (rootAt_mem (h.inv.conns.lenC ▸ hi)))
    · intro i hi
      exact subUser_cells Sp w roots st.sub.observers st.sub.serial (by simp [acellP, Sp]; omega)
        (by simp [acellP, Sp]; omega)

theorem unsubscribePc_spec {script roots cobs armed w st} (h : RelPc script roots cobs armed w st) (u : Nat) :
    WP (.userUnsub u .done) w (fun w' =>
      RelPc script roots cobs armed w' (ConnM.step .publish (.cold script) st (.unsubscribe u))) := by
  obtain ⟨g, U, X, hs⟩ := h.inv.ur
  rw [stepPc_unsubscribe]
  show WP _ w (fun w' => RelPc script roots cobs armed w' { st with sub := (unsubscribeN .plain st.sub u).1 })
  by_cases hlive : u < roots.length ∧ (st.sub.obs u).hook = true
  · obtain ⟨hu, hk⟩ := hlive
    obtain ⟨s0, hin⟩ : ∃ s0, (st.sub.obs u).inHook = some s0 := by
      have := U.hookIff u; rw [hk] at this
      cases hi : (st.sub.obs u).inHook with
      | none => rw [hi] at this; simp at this
      | some s0 => exact ⟨s0, rfl⟩
    refine userUnsub_pre h.inv.held U hu hk hin ?_
    refine slotTail_none h.inv.held (X.slots 3 (by decide)) (WP.done ?_)
    have g1 := unsubUser_glob (S := Sp) g u st.sub.observers s0
    have U1 := plainUnsub_live (U.seen u hu) hk hin (unsubUser_users (s := s0) g U hu)
    refine ⟨⟨g1, h.inv.held, ⟨g1, U1, ?_, hs⟩, ?_⟩, h.full⟩
    · exact ⟨X.held, X.slots, X.obsvS,
        by rw [unsubUser_cells Sp w roots u st.sub.observers s0 (by decide)]; exact X.cn,
        by rw [unsubUser_cellsLen]; exact X.nCells⟩
    · refine h.inv.conns.frame ?_ ?_ rfl
      · intro i hi
        exact unsubUser_obs_other Sp w roots u st.sub.observers s0
          (fun e => g.root_ne_cob hu (h.inv.conns.lenC ▸ hi) e.symm)
      · intro i hi
        exact unsubUser_cells Sp w roots u st.sub.observers s0 (by simp [acellP, Sp]; omega)
  · have hk : u < roots.length → (st.sub.obs u).hook = false := by
      intro hu
      cases hk : (st.sub.obs u).hook with
      | false => rfl
      | true => exact absurd ⟨hu, hk⟩ hlive
    refine userUnsub_noop U u hk ?_
    exact ⟨⟨h.inv.glob, h.inv.held, ⟨g, plainUnsub_noop U u hk, X, hs⟩, h.inv.conns⟩, h.full⟩

end Rx.CRef
