import RxVerif.Theorems.C10Ref
import RxVerif.Machine.Subjects
/-
C10-REF, ReplaySubject — model A's `RSubj` macros (`Machine/Subjects.lean`, transliterating
src/subjects/replay_subject.rs on top of `Subj`) refine `SubjM` with kind `.replay`.

World layout of `progR` (everything is allocated in program order, so it is arithmetic):
  cells 0,1 = Subject.observers / serial   2 = items   3 = was_error   4 = was_completed
  cell 5+2u = `sbsc` of subscription u     cell 6+2u = the armed flag of its live `Subscription`
  observer 2u = root observer of user u    observer 2u+1 = the forwarding observer registered in the Subject
-/
namespace Rx.RefR
open Rx.Sim Rx.SubjM Rx.Ref

def r0 : RSubj := ⟨sj0, 2, 3, 4⟩

/-- `s_unsub.set_on_unsubscribe(move || sbsc.take().unsubscribe())` (replay_subject.rs:52-58) -/
def rootHook (u : Nat) : Prog := .cellRead (5 + 2 * u) false fun h => subUnsub h

def cbN (b : Bool) (u : Nat) : Option HN := if b then some (.user u) else none
def cbE (b : Bool) (u : Nat) : Option HE := if b then some (.user u) else none
def cbC (b : Bool) (u : Nat) : Option HC := if b then some (.user u) else none

def rootOf (u : Nat) (r : ObsSt) : Obs :=
  ⟨cbN r.alive u, cbE r.alive u, cbC r.alive u, if r.hook then some (rootHook u) else none⟩

def fwdN (u : Nat) : Data → Prog := fun x => .obsNext (2 * u) x .done
def fwdE (u : Nat) : Nat → Prog := fun e => .obsError (2 * u) e .done
def fwdC (u : Nat) : Prog := .obsComplete (2 * u) .done

/-- the forwarder `subject.observable().subscribe(next, error, complete)` builds (replay_subject.rs:87-93) -/
def fwdOf (u : Nat) (r : ObsSt) : Obs :=
  ⟨if r.inAlive then some (.code (fwdN u)) else none, if r.inAlive then some (.code (fwdE u)) else none,
   if r.inAlive then some (.code (fwdC u)) else none, r.inHook.map fun s => hookProg sj0 (s : Int)⟩

/-- the `Subscription` handle stored in `sbsc` -/
def handle (u : Nat) : Data := .pair (.int ((2 * u + 1 : Nat) : Int)) (.int ((6 + 2 * u : Nat) : Int))

/-- everything the world holds for subscription `u`, described by its `SubjM` record -/
structure UserOk (w : World) (u : Nat) (r : ObsSt) : Prop where
  user : w.users[u]? = some ⟨2 * u, noReact, true, r.hook⟩
  root : w.obs[2 * u]? = some (rootOf u r)
  fwd : w.obs[2 * u + 1]? = some (fwdOf u r)
  sb : w.cells[5 + 2 * u]? = some (handle u)
  ac : w.cells[6 + 2 * u]? = some (.bool r.armed)
  log : logOf w u = r.log
  seen : r.seen = true
  dead : r.hook = false → r.alive = false

/-- the map as stored: serial ↦ index of the forwarder -/
def mapR (l : List (Nat × Nat)) : List (Nat × Nat) := l.map fun p => (p.1, 2 * p.2 + 1)

structure RelR (n : Nat) (w : World) (st : State) : Prop where
  status : w.status = .ok
  held : w.held = []
  cellO : w.cells[0]? = some (encMap (mapR st.observers))
  cellS : w.cells[1]? = some (.int st.serial)
  cellI : w.cells[2]? = some (Data.ofList st.items)
  cellE : w.cells[3]? = some (Data.optEnc (st.wasError.map fun (e : Nat) => Data.int (e : Int)))
  cellC : w.cells[4]? = some (.bool st.wasCompleted)
  nCells : w.cells.length = 5 + 2 * n
  slotA : w.slots[0]? = some none
  slotB : w.slots[1]? = some none
  obsv : w.obsvs[0]? = some r0.observable
  nUsers : w.users.length = n
  nObs : w.obs.length = 2 * n
  users : ∀ u, u < n → UserOk w u (st.obs u)
  unseen : ∀ u, n ≤ u → st.obs u = {}
  quiet : ∀ u, n ≤ u → logOf w u = []
  keys : ∀ p ∈ st.observers, p.1 ≤ st.serial

/-- the two worlds hold the same things for subscription `u` -/
structure SameU (w w' : World) (u : Nat) : Prop where
  user : w'.users[u]? = w.users[u]?
  root : w'.obs[2 * u]? = w.obs[2 * u]?
  fwd : w'.obs[2 * u + 1]? = w.obs[2 * u + 1]?
  sb : w'.cells[5 + 2 * u]? = w.cells[5 + 2 * u]?
  ac : w'.cells[6 + 2 * u]? = w.cells[6 + 2 * u]?
  log : logOf w' u = logOf w u

theorem UserOk.frame {w w' u r} (h : UserOk w u r) (s : SameU w w' u) : UserOk w' u r :=
  ⟨s.user ▸ h.user, s.root ▸ h.root, s.fwd ▸ h.fwd, s.sb ▸ h.sb, s.ac ▸ h.ac, s.log ▸ h.log, h.seen, h.dead⟩

theorem upd_self (f : Nat → ObsSt) (o : Nat) : upd f o (f o) = f := by
  funext i; simp only [upd]; split
  · rename_i e; rw [e]
  · rfl

theorem keys_mapR {l : List (Nat × Nat)} {s : Nat} (h : ∀ p ∈ l, p.1 ≤ s) : ∀ p ∈ mapR l, p.1 ≤ s := by
  intro p hp
  obtain ⟨q, hq, rfl⟩ := List.mem_map.1 hp
  exact h q hq

/-! ### the broadcast -/

theorem recvK_replay_dead (ev : Ev) (r : ObsSt) (h : r.inAlive = false) : recvK .replay ev r = r := by
  cases r; simp_all [recvK]

theorem codeBody_fwd (ev : Ev) (u : Nat) : codeBody ev (fwdN u) (fwdE u) (fwdC u) = evProg ev (2 * u) .done := by
  cases ev <;> rfl

/-- a change of the world confined to the two observers and the log of subscription `o` -/
theorem RelR.patch {n w st} (h : RelR n w st) {o : Nat} (ho : o < n) (w' : World) (r' : ObsSt)
    (hstatus : w'.status = w.status) (hheld : w'.held = w.held) (hcells : w'.cells = w.cells)
    (hslots : w'.slots = w.slots) (hobsvs : w'.obsvs = w.obsvs) (husers : w'.users = w.users)
    (hlen : w'.obs.length = w.obs.length)
    (hothers : ∀ i, i ≠ 2 * o → i ≠ 2 * o + 1 → w'.obs[i]? = w.obs[i]?)
    (hlogs : ∀ u, u ≠ o → logOf w' u = logOf w u)
    (hroot : w'.obs[2 * o]? = some (rootOf o r')) (hfwd : w'.obs[2 * o + 1]? = some (fwdOf o r'))
    (hlog : logOf w' o = r'.log) (hhook : r'.hook = (st.obs o).hook) (harmed : r'.armed = (st.obs o).armed)
    (hseen : r'.seen = true) (hdead : r'.hook = false → r'.alive = false) :
    RelR n w' { st with obs := upd st.obs o r' } :=
  { status := hstatus ▸ h.status
    held := hheld ▸ h.held
    cellO := hcells ▸ h.cellO
    cellS := hcells ▸ h.cellS
    cellI := hcells ▸ h.cellI
    cellE := hcells ▸ h.cellE
    cellC := hcells ▸ h.cellC
    nCells := hcells ▸ h.nCells
    slotA := hslots ▸ h.slotA
    slotB := hslots ▸ h.slotB
    obsv := hobsvs ▸ h.obsv
    nUsers := husers ▸ h.nUsers
    nObs := hlen ▸ h.nObs
    users := by
      intro u hu
      have U := h.users u hu
      by_cases e : u = o
      · subst e
        simp only [upd, ↓reduceIte]
        exact ⟨by rw [husers, hhook]; exact U.user, hroot, hfwd, by rw [hcells]; exact U.sb,
          by rw [hcells, harmed]; exact U.ac, hlog, hseen, hdead⟩
      · simp only [upd, e, ↓reduceIte]
        exact U.frame ⟨by rw [husers], hothers _ (by omega) (by omega), hothers _ (by omega) (by omega),
          by rw [hcells], by rw [hcells], hlogs u e⟩
    unseen := by
      intro u hu
      have : u ≠ o := by omega
      simp only [upd, this, ↓reduceIte]; exact h.unseen u hu
    quiet := by
      intro u hu
      rw [hlogs u (by omega)]; exact h.quiet u hu
    keys := h.keys }

theorem cb_alive (u : Nat) : cbN true u = some (.user u) ∧ cbE true u = some (.user u) ∧ cbC true u = some (.user u) :=
  ⟨rfl, rfl, rfl⟩

/-- one entry of the snapshot: the forwarder's callback, which calls the subscriber's (replay_subject.rs:87-93) -/
theorem deliverR1_spec {n w st} (h : RelR n w st) (ev : Ev) (o : Nat) :
    WP (evProg ev (2 * o + 1) .done) w
      (fun w' => RelR n w' { st with obs := upd st.obs o (recvK .replay ev (st.obs o)) }) := by
  rcases Nat.lt_or_ge o n with hlt | hge
  · have U := h.users o hlt
    cases hia : (st.obs o).inAlive with
    | false =>
      refine wp_ev_dead U.fwd (by simp [fwdOf, hia]) (WP.done ?_)
      rw [recvK_replay_dead ev _ hia, upd_self]; exact h
    | true =>
      refine wp_ev_code U.fwd (by simp [fwdOf, hia]; rfl) (by simp [fwdOf, hia]; rfl) (by simp [fwdOf, hia]; rfl) ?_
      rw [codeBody_fwd]
      -- the world after the forwarder's own gate
      have hw1root : (if ev.isTerminal then w.setObs (2 * o + 1) Obs.cleared else w).obs[2 * o]? =
          some (rootOf o (st.obs o)) := by
        split
        · rw [getElem?_setObs_other _ (by omega)]; exact U.root
        · exact U.root
      have hw1users : (if ev.isTerminal then w.setObs (2 * o + 1) Obs.cleared else w).users = w.users := by
        split <;> rfl
      cases hal : (st.obs o).alive with
      | false =>
        refine wp_ev_dead hw1root (by simp [rootOf, hal, cbN]) (WP.done (WP.done ?_))
        refine h.patch hlt _ _ (by split <;> rfl) (by split <;> rfl) (by split <;> rfl) (by split <;> rfl)
          (by split <;> rfl) hw1users (by split <;> simp [World.setObs]) ?_ (by intro u _; split <;> rfl)
          ?_ ?_ ?_ rfl rfl U.seen ?_
        · intro i h1 h2; split
          · rw [getElem?_setObs_other _ (by omega)]
          · rfl
        · rw [hw1root]; simp [rootOf, recvK, hal]
        · split
          · rename_i ht
            rw [getElem?_setObs_same _ U.fwd]; simp [fwdOf, recvK, hia, ht, Obs.cleared]
          · rename_i ht
            rw [U.fwd]; simp [fwdOf, recvK, hia, ht]
        · have : logOf (if ev.isTerminal then w.setObs (2 * o + 1) Obs.cleared else w) o = logOf w o := by
            split <;> rfl
          rw [this, U.log]; simp [recvK, hal]
        · intro _; simp [recvK, hia, hal]
      | true =>
        have hu : (if ev.isTerminal then w.setObs (2 * o + 1) Obs.cleared else w).users[o]? =
            some ⟨2 * o, noReact, true, (st.obs o).hook⟩ := by rw [hw1users]; exact U.user
        refine wp_ev_user (s := o) hw1root (by simp [rootOf, hal, cbN]) (by simp [rootOf, hal, cbE])
          (by simp [rootOf, hal, cbC]) hu rfl (WP.done (WP.done ?_))
        cases ht : ev.isTerminal with
        | false =>
          simp only [Bool.false_eq_true, ↓reduceIte]
          refine h.patch hlt _ _ ?_ ?_ ?_ ?_ ?_ ?_ ?_ ?_ ?_ ?_ ?_ ?_ rfl rfl U.seen ?_
          all_goals (try (simp only [World.deliverTo, ht, Bool.false_eq_true, ↓reduceIte]))
          all_goals (try rfl)
          · intro i _ _; rfl
          · intro u hu; exact logOf_emit_other _ _ _ _ (fun e => hu e.symm)
          · show w.obs[2 * o]? = _; rw [U.root]; simp [rootOf, recvK, hal, hia, ht]
          · show w.obs[2 * o + 1]? = _; rw [U.fwd]; simp [fwdOf, recvK, hia, ht]
          · rw [logOf_emit_same, U.log]; simp [recvK, hia, hal]
          · intro hh; have := U.dead hh; simp [hal] at this
        | true =>
          simp only [↓reduceIte]
          refine h.patch hlt _ _ ?_ ?_ ?_ ?_ ?_ ?_ ?_ ?_ ?_ ?_ ?_ ?_ rfl rfl U.seen ?_
          all_goals (try (simp only [World.deliverTo, ht, ↓reduceIte]))
          all_goals (try rfl)
          · simp [World.emit, World.setObs]
          · intro i h1 h2
            show ((w.setObs (2 * o + 1) Obs.cleared).setObs (2 * o) Obs.cleared).obs[i]? = _
            rw [getElem?_setObs_other _ (fun e => h1 e.symm), getElem?_setObs_other _ (fun e => h2 e.symm)]
          · intro u hu; exact logOf_emit_other _ _ _ _ (fun e => hu e.symm)
          · show ((w.setObs (2 * o + 1) Obs.cleared).setObs (2 * o) Obs.cleared).obs[2 * o]? = _
            rw [getElem?_setObs_same _ (by rw [getElem?_setObs_other _ (by omega)]; exact U.root)]
            simp [rootOf, recvK, hal, hia, ht, Obs.cleared, cbN, cbE, cbC]
          · show ((w.setObs (2 * o + 1) Obs.cleared).setObs (2 * o) Obs.cleared).obs[2 * o + 1]? = _
            rw [getElem?_setObs_other _ (by omega), getElem?_setObs_same _ U.fwd]
            simp [fwdOf, recvK, hia, ht, Obs.cleared]
          · rw [logOf_emit_same]
            show logOf w o ++ _ = _
            rw [U.log]; simp [recvK, hia, hal]
          · intro _; simp [recvK, hia, ht]
  · have hnone : w.obs[2 * o + 1]? = none := by
      apply List.getElem?_eq_none; rw [h.nObs]; omega
    refine wp_ev_absent hnone (WP.done ?_)
    rw [h.unseen o hge, recvK_default]
    have : upd st.obs o {} = st.obs := by
      rw [← h.unseen o hge]; exact upd_self _ _
    rw [this]; exact h

theorem toNat_fwd (o : Nat) : (Data.int ((2 * o + 1 : Nat) : Int)).toInt.toNat = 2 * o + 1 := toNat_int _

theorem deliverR_loop {n} (ev : Ev) (l : List (Nat × Nat)) :
    ∀ (st : State) (w : World), RelR n w st →
      WP (forEach ((mapR l).map fun p => Data.int p.2) fun o => evProg ev o.toInt.toNat .done) w
        (fun w' => RelR n w' { st with obs := deliver .replay ev l st.obs }) := by
  induction l with
  | nil => intro st w h; exact WP.done h
  | cons p rest ih =>
    intro st w h
    simp only [mapR, List.map_cons, forEach, toNat_fwd]
    apply WP.seq
    refine (deliverR1_spec h ev p.2).conseq fun w1 h1 => ?_
    exact ih _ w1 h1

/-! ### frames -/

theorem SameU.setCell (w : World) (i : Nat) (d : Data) (u : Nat) (h1 : i ≠ 5 + 2 * u) (h2 : i ≠ 6 + 2 * u) :
    SameU w { w with cells := w.cells.set i d } u :=
  ⟨rfl, rfl, rfl, set_get_other _ h1, set_get_other _ h2, rfl⟩

theorem RelR.setCell {n w st} (_h : RelR n w st) (i : Nat) (hi : i < 5) (d : Data) (u : Nat) :
    UserOk { w with cells := w.cells.set i d } u (st.obs u) ↔ UserOk w u (st.obs u) := by
  constructor
  · intro U
    refine U.frame ⟨rfl, rfl, rfl, ?_, ?_, rfl⟩
    · exact (set_get_other (l := w.cells) d (by omega : i ≠ 5 + 2 * u)).symm
    · exact (set_get_other (l := w.cells) d (by omega : i ≠ 6 + 2 * u)).symm
  · intro U; exact U.frame (SameU.setCell w i d u (by omega) (by omega))

@[simp] theorem r0_items : r0.items = 2 := rfl
@[simp] theorem r0_wasError : r0.wasError = 3 := rfl
@[simp] theorem r0_wasCompleted : r0.wasCompleted = 4 := rfl
@[simp] theorem r0_inner : r0.inner = sj0 := rfl
@[simp] theorem sj0_observers : sj0.observers = 0 := rfl
@[simp] theorem sj0_serial : sj0.serial = 1 := rfl
@[simp] theorem sj0_onSub : sj0.onSub = 0 := rfl
@[simp] theorem sj0_onUnsub : sj0.onUnsub = 1 := rfl

def evCallR : Ev → Prog
  | .next v => r0.next v
  | .error e => r0.error e
  | .complete => r0.complete

/-- `ReplaySubject::next / error / complete` (replay_subject.rs:28-39) = `SubjM.emit .replay` -/
theorem emitR_spec {n w st} (h : RelR n w st) (ev : Ev) :
    WP (evCallR ev) w (fun w' => RelR n w' (emit .replay st ev)) := by
  cases ev with
  | next v =>
    simp only [evCallR, RSubj.next, Subj.next, r0_items, r0_inner, sj0_observers]
    refine wp_cellRead h.held ?_
    refine wp_cellWrite h.held ?_
    have h1 : RelR n { w with cells := w.cells.set 2 (Data.ofList (st.items ++ [v])) }
        { st with items := st.items ++ [v] } :=
      { h with
        cellO := by show (w.cells.set _ _)[_]? = _; rw [set_get_other _ (by decide)]; exact h.cellO
        cellS := by show (w.cells.set _ _)[_]? = _; rw [set_get_other _ (by decide)]; exact h.cellS
        cellI := set_get_same _ h.cellI
        cellE := by show (w.cells.set _ _)[_]? = _; rw [set_get_other _ (by decide)]; exact h.cellE
        cellC := by show (w.cells.set _ _)[_]? = _; rw [set_get_other _ (by decide)]; exact h.cellC
        nCells := by simp [h.nCells]
        users := fun u hu => (h.setCell 2 (by decide) _ u).2 (h.users u hu) }
    have hread : w.cells[2]?.getD .unit = Data.ofList st.items := by rw [h.cellI]; rfl
    rw [hread, Data.toList_ofList]
    refine wp_cellRead h1.held ?_
    rw [show ({ w with cells := w.cells.set 2 (Data.ofList (st.items ++ [v])) } : World).cells[0]?.getD .unit
        = encMap (mapR st.observers) from by rw [h1.cellO]; rfl, amapVals_encMap]
    exact (deliverR_loop (.next v) st.observers _ _ h1).conseq fun w' h' => h'
  | error e =>
    simp only [evCallR, RSubj.error, Subj.error, r0_wasError, r0_inner, sj0_observers]
    refine wp_cellWrite h.held ?_
    refine wp_cellRead h.held ?_
    refine wp_cellWrite h.held ?_
    rw [show ({ w with cells := w.cells.set 3 (Data.optEnc (some (.int e))) } : World).cells[0]?.getD .unit
        = encMap (mapR st.observers) from by
      show (w.cells.set 3 _)[0]?.getD .unit = _
      rw [set_get_other _ (by decide), h.cellO]; rfl, amapVals_encMap]
    have h1 : RelR n { w with cells := (w.cells.set 3 (Data.optEnc (some (.int e)))).set 0 .lnil }
        { st with wasError := some e, observers := [] } :=
      { h with
        cellO := set_get_same _ (by rw [set_get_other _ (by decide)]; exact h.cellO)
        cellS := by
          show ((w.cells.set _ _).set _ _)[_]? = _
          rw [set_get_other _ (by decide), set_get_other _ (by decide)]; exact h.cellS
        cellI := by
          show ((w.cells.set _ _).set _ _)[_]? = _
          rw [set_get_other _ (by decide), set_get_other _ (by decide)]; exact h.cellI
        cellE := by
          show ((w.cells.set _ _).set _ _)[_]? = _
          rw [set_get_other _ (by decide)]; exact set_get_same _ h.cellE
        cellC := by
          show ((w.cells.set _ _).set _ _)[_]? = _
          rw [set_get_other _ (by decide), set_get_other _ (by decide)]; exact h.cellC
        nCells := by simp [h.nCells]
        users := fun u hu => ((h.users u hu).frame (SameU.setCell w 3 _ u (by omega) (by omega))).frame
          (SameU.setCell _ 0 _ u (by omega) (by omega))
        keys := by intro p hp; cases hp }
    exact (deliverR_loop (.error e) st.observers _ _ h1).conseq fun w' h' => h'
  | complete =>
    simp only [evCallR, RSubj.complete, Subj.complete, r0_wasCompleted, r0_inner, sj0_observers]
    refine wp_cellWrite h.held ?_
    refine wp_cellRead h.held ?_
    refine wp_cellWrite h.held ?_
    rw [show ({ w with cells := w.cells.set 4 (.bool true) } : World).cells[0]?.getD .unit
        = encMap (mapR st.observers) from by
      show (w.cells.set 4 _)[0]?.getD .unit = _
      rw [set_get_other _ (by decide), h.cellO]; rfl, amapVals_encMap]
    have h1 : RelR n { w with cells := (w.cells.set 4 (.bool true)).set 0 .lnil }
        { st with wasCompleted := true, observers := [] } :=
      { h with
        cellO := set_get_same _ (by rw [set_get_other _ (by decide)]; exact h.cellO)
        cellS := by
          show ((w.cells.set _ _).set _ _)[_]? = _
          rw [set_get_other _ (by decide), set_get_other _ (by decide)]; exact h.cellS
        cellI := by
          show ((w.cells.set _ _).set _ _)[_]? = _
          rw [set_get_other _ (by decide), set_get_other _ (by decide)]; exact h.cellI
        cellE := by
          show ((w.cells.set _ _).set _ _)[_]? = _
          rw [set_get_other _ (by decide), set_get_other _ (by decide)]; exact h.cellE
        cellC := by
          show ((w.cells.set _ _).set _ _)[_]? = _
          rw [set_get_other _ (by decide)]; exact set_get_same _ h.cellC
        nCells := by simp [h.nCells]
        users := fun u hu => ((h.users u hu).frame (SameU.setCell w 4 _ u (by omega) (by omega))).frame
          (SameU.setCell _ 0 _ u (by omega) (by omega))
        keys := by intro p hp; cases hp }
    exact (deliverR_loop .complete st.observers _ _ h1).conseq fun w' h' => h'

/-! ### unsubscribe -/

theorem mapR_filter (l : List (Nat × Nat)) (s : Nat) :
    (mapR l).filter (fun p => p.1 != s) = mapR (l.filter fun p => p.1 != s) := by
  simp only [mapR, List.filter_map]; rfl

theorem users_modify_same {w : World} {u : Nat} {x : User} (g : User → User) (h : w.users[u]? = some x) :
    (w.setUser u g).users[u]? = some (g x) := modify_get_same _ _ h

theorem users_modify_other {w : World} {u i : Nat} (g : User → User) (h : i ≠ u) :
    (w.setUser u g).users[i]? = w.users[i]? := modify_get_other _ _ (fun e => h e.symm)

/-- a change of the world confined to subscription `o` (its user record, two observers, armed flag, log) and
    to the map cell -/
theorem RelR.patch2 {n w st} (h : RelR n w st) {o : Nat} (ho : o < n) (w' : World) (r' : ObsSt)
    (O' : List (Nat × Nat))
    (hstatus : w'.status = w.status) (hheld : w'.held = w.held)
    (hslots : w'.slots = w.slots) (hobsvs : w'.obsvs = w.obsvs)
    (hclen : w'.cells.length = w.cells.length)
    (hcell0 : w'.cells[0]? = some (encMap (mapR O')))
    (hcells : ∀ i, i ≠ 0 → i ≠ 6 + 2 * o → w'.cells[i]? = w.cells[i]?)
    (hac : w'.cells[6 + 2 * o]? = some (.bool r'.armed))
    (hulen : w'.users.length = w.users.length)
    (husers : ∀ i, i ≠ o → w'.users[i]? = w.users[i]?)
    (huser : w'.users[o]? = some ⟨2 * o, noReact, true, r'.hook⟩)
    (hlen : w'.obs.length = w.obs.length)
    (hothers : ∀ i, i ≠ 2 * o → i ≠ 2 * o + 1 → w'.obs[i]? = w.obs[i]?)
    (hlogs : ∀ u, u ≠ o → logOf w' u = logOf w u)
    (hroot : w'.obs[2 * o]? = some (rootOf o r')) (hfwd : w'.obs[2 * o + 1]? = some (fwdOf o r'))
    (hlog : logOf w' o = r'.log)
    (hseen : r'.seen = true) (hdead : r'.hook = false → r'.alive = false)
    (hkeys : ∀ p ∈ O', p.1 ≤ st.serial) :
    RelR n w' { st with observers := O', obs := upd st.obs o r' } :=
  { status := hstatus ▸ h.status
    held := hheld ▸ h.held
    cellO := hcell0
    cellS := by rw [hcells 1 (by omega) (by omega)]; exact h.cellS
    cellI := by rw [hcells 2 (by omega) (by omega)]; exact h.cellI
    cellE := by rw [hcells 3 (by omega) (by omega)]; exact h.cellE
    cellC := by rw [hcells 4 (by omega) (by omega)]; exact h.cellC
    nCells := hclen ▸ h.nCells
    slotA := hslots ▸ h.slotA
    slotB := hslots ▸ h.slotB
    obsv := hobsvs ▸ h.obsv
    nUsers := hulen ▸ h.nUsers
    nObs := hlen ▸ h.nObs
    users := by
      intro u hu
      have U := h.users u hu
      by_cases e : u = o
      · subst e
        simp only [upd, ↓reduceIte]
        exact ⟨huser, hroot, hfwd, by rw [hcells _ (by omega) (by omega)]; exact U.sb, hac, hlog, hseen, hdead⟩
      · simp only [upd, e, ↓reduceIte]
        exact U.frame ⟨husers u e, hothers _ (by omega) (by omega), hothers _ (by omega) (by omega),
          hcells _ (by omega) (by omega), hcells _ (by omega) (by omega), hlogs u e⟩
    unseen := by
      intro u hu
      have : u ≠ o := by omega
      simp only [upd, this, ↓reduceIte]; exact h.unseen u hu
    quiet := by
      intro u hu
      rw [hlogs u (by omega)]; exact h.quiet u hu
    keys := hkeys }

theorem unsub_eta (k : Kind) (st : State) (u : Nat) :
    (unsubscribeN k st u).1 =
      { st with observers := (unsubscribeN k st u).1.observers, obs := (unsubscribeN k st u).1.obs } := by
  unfold unsubscribeN; split <;> rfl

theorem unsub_obs_upd (k : Kind) (st : State) (u : Nat) (hs : (st.obs u).seen = true) :
    (unsubscribeN k st u).1.obs = upd st.obs u
      { st.obs u with
        alive := false
        hook := false
        inAlive := (st.obs u).inAlive && !((st.obs u).hook && (k.isPlain || (st.obs u).armed))
        armed := (st.obs u).armed && !(st.obs u).hook
        inHook := if (st.obs u).hook && (k.isPlain || (st.obs u).armed) then none else (st.obs u).inHook } := by
  funext o'
  rw [unsub_obs, upd_apply]
  by_cases e : o' = u
  · simp [e, hs]
  · simp [e]

theorem unsub_noop (k : Kind) (st : State) (u : Nat) (hk : (st.obs u).hook = false)
    (hal : (st.obs u).alive = false) : (unsubscribeN k st u).1 = st := by
  rw [unsub_eta]
  have h1 : (unsubscribeN k st u).1.observers = st.observers := by
    rw [unsub_observers]; cases (st.obs u).inHook <;> simp [reaches, hk]
  have h2 : (unsubscribeN k st u).1.obs = st.obs := by
    funext o'
    rw [unsub_obs]; split
    · rename_i e
      rw [e.1]
      generalize st.obs u = r at *
      cases r; simp_all
    · rfl
  rw [h1, h2]

theorem toNat_ac (u : Nat) : (Data.int ((6 + 2 * u : Nat) : Int)).toInt.toNat = 6 + 2 * u := toNat_int _

theorem unsubscribeR_spec {n w st} (h : RelR n w st) (u : Nat) :
    WP (.userUnsub u .done) w (fun w' => RelR n w' (step .replay st (.unsubscribe u))) := by
  show WP _ w (fun w' => RelR n w' (unsubscribeN .replay st u).1)
  rcases Nat.lt_or_ge u n with hlt | hge
  · have U := h.users u hlt
    cases hk : (st.obs u).hook with
    | false =>
      refine wp_userUnsub_spent U.user (by simp [hk]) (WP.done ?_)
      rw [unsub_noop _ _ _ hk (U.dead hk)]; exact h
    | true =>
      refine wp_userUnsub_armed U.user (by simp [hk]) ?_
      refine wp_obsUnsub_some (f := rootHook u) (x := rootOf u (st.obs u)) ?_ (by simp [rootOf, hk]) ?_
      · exact U.root
      generalize hw1 : World.setObs _ _ _ = w1
      have c1 : w1.cells = w.cells := by rw [← hw1]; rfl
      have held1 : w1.held = [] := by rw [← hw1]; exact h.held
      unfold rootHook
      refine wp_cellRead held1 ?_
      rw [c1, U.sb]
      simp only [Option.getD_some, handle, subUnsub, Int.toNat_natCast]
      refine wp_cellRead held1 ?_
      rw [c1, U.ac]
      simp only [Option.getD_some, Data.toBool]
      -- facts about the world after `Subscription::unsubscribe` took the handle and cleared the root observer
      have u1 : w1.users[u]? = some ⟨2 * u, noReact, true, false⟩ := by
        rw [← hw1]; show (w.setUser u _).users[u]? = _; rw [users_modify_same _ U.user]
      have u1o : ∀ i, i ≠ u → w1.users[i]? = w.users[i]? := by
        intro i hi; rw [← hw1]; exact users_modify_other _ hi
      have u1l : w1.users.length = w.users.length := by rw [← hw1]; simp [World.setObs, World.setUser]
      have o1l : w1.obs.length = w.obs.length := by rw [← hw1]; simp [World.setObs, World.setUser]
      have o1r : w1.obs[2 * u]? = some ⟨none, none, none, none⟩ := by
        rw [← hw1]
        show ((w.setUser u _).setObs (2 * u) _).obs[2 * u]? = _
        rw [getElem?_setObs_same _ (show (w.setUser u _).obs[2 * u]? = _ from U.root)]; rfl
      have o1o : ∀ i, i ≠ 2 * u → w1.obs[i]? = w.obs[i]? := by
        intro i hi; rw [← hw1]
        show ((w.setUser u _).setObs (2 * u) _).obs[i]? = _
        rw [getElem?_setObs_other _ (fun e => hi e.symm)]; rfl
      have l1 : ∀ i, logOf w1 i = logOf w i := by intro i; rw [← hw1]; rfl
      have s1 : w1.status = w.status := by rw [← hw1]; rfl
      have sl1 : w1.slots = w.slots := by rw [← hw1]; rfl
      have ov1 : w1.obsvs = w.obsvs := by rw [← hw1]; rfl
      rw [unsub_eta, unsub_obs_upd _ _ _ U.seen, unsub_observers]
      cases har : (st.obs u).armed with
      | false =>
        have hre : reaches .replay (st.obs u) = false := by simp [reaches, har, Kind.isPlain]
        simp only [Bool.false_eq_true, ↓reduceIte]
        refine WP.done (WP.done ?_)
        cases hin : (st.obs u).inHook <;> simp only [hre, Bool.false_eq_true, ↓reduceIte] <;>
        exact h.patch2 hlt w1 _ st.observers s1 (held1.trans h.held.symm) sl1 ov1 (by rw [c1])
          (by rw [c1]; exact h.cellO)
          (fun i _ _ => by rw [c1]) (by rw [c1, U.ac]; simp [har]) u1l u1o (by rw [u1])
          o1l (fun i a _ => o1o i a) (fun i _ => l1 i) (by rw [o1r]; simp [rootOf, cbN, cbE, cbC])
          (by rw [o1o _ (by omega), U.fwd]; simp [fwdOf, hk, hin, Kind.isPlain])
          (by rw [l1, U.log]) U.seen (fun _ => rfl) h.keys
      | true =>
        simp only [↓reduceIte]
        refine wp_cellWrite held1 ?_
        generalize hw2 : World.mk _ _ _ _ _ _ _ _ = w2
        have held2 : w2.held = [] := by rw [← hw2]; exact held1
        have f2 : w2.obs[2 * u + 1]? = some (fwdOf u (st.obs u)) := by
          rw [← hw2]; show w1.obs[2 * u + 1]? = _; rw [o1o _ (by omega)]; exact U.fwd
        have c2 : w2.cells = w.cells.set (6 + 2 * u) (.bool false) := by rw [← hw2, ← c1]
        have hre : reaches .replay (st.obs u) = true := by simp [reaches, U.seen, hk, har]
        cases hin : (st.obs u).inHook with
        | none =>
          refine wp_obsUnsub_none f2 (by simp [fwdOf, hin]) (WP.done (WP.done ?_))
          simp only []
          refine h.patch2 hlt _ _ st.observers (by rw [← hw2]; exact s1) (held2.trans h.held.symm) (by rw [← hw2]; exact sl1)
            (by rw [← hw2]; exact ov1)
            (by show w2.cells.length = _; rw [c2]; simp)
            (by show w2.cells[0]? = _; rw [c2, set_get_other _ (by omega)]; exact h.cellO)
            (fun i _ hi => by show w2.cells[i]? = _; rw [c2, set_get_other _ (fun e => hi e.symm)])
            (by show w2.cells[6 + 2 * u]? = _; rw [c2, set_get_same _ U.ac]; simp [hk])
            (by rw [← hw2]; exact u1l) (fun i hi => by rw [← hw2]; exact u1o i hi) (by rw [← hw2]; exact u1)
            (by rw [← hw2]; simp [World.setObs, o1l])
            (fun i a b => by
              rw [getElem?_setObs_other _ (fun e => b e.symm), ← hw2]; exact o1o i a)
            (fun i _ => by rw [← hw2]; exact l1 i)
            (by rw [getElem?_setObs_other _ (by omega), ← hw2, o1r]; simp [rootOf, cbN, cbE, cbC])
            (by rw [getElem?_setObs_same _ f2]; simp [fwdOf, hk, hin, Obs.cleared])
            (by rw [← hw2]; show logOf w1 u = _; rw [l1, U.log]) U.seen (fun _ => rfl) h.keys
        | some s =>
          simp only [hre, ↓reduceIte]
          refine wp_obsUnsub_some (f := hookProg sj0 (s : Int)) f2 (by simp [fwdOf, hin]) ?_
          generalize hw3 : World.setObs _ _ _ = w3
          have held3 : w3.held = [] := by rw [← hw3]; exact held2
          have c3 : w3.cells = w.cells.set (6 + 2 * u) (.bool false) := by rw [← hw3]; exact c2
          unfold hookProg
          simp only [sj0_observers, sj0_onUnsub]
          refine wp_cellRead held3 ?_
          rw [c3, set_get_other _ (by omega), h.cellO]
          simp only [Option.getD_some, amapRemove_encMap, mapR_filter]
          refine wp_cellWrite held3 ?_
          refine wp_lockedSlotCall_none held3 (by rw [← hw3, ← hw2]; show w1.slots[1]? = _; rw [sl1]; exact h.slotB)
            (WP.done (WP.done (WP.done ?_)))
          refine h.patch2 hlt _ _ _ (by rw [← hw3, ← hw2]; exact s1) (held3.trans h.held.symm)
            (by rw [← hw3, ← hw2]; exact sl1) (by rw [← hw3, ← hw2]; exact ov1)
            (by show (w3.cells.set _ _).length = _; rw [c3]; simp)
            (by show (w3.cells.set _ _)[0]? = _
                rw [c3]; exact set_get_same _ (by rw [set_get_other _ (by omega)]; exact h.cellO))
            (fun i h0 hi => by
              show (w3.cells.set _ _)[i]? = _
              rw [c3, set_get_other _ (fun e => h0 e.symm), set_get_other _ (fun e => hi e.symm)])
            (by show (w3.cells.set _ _)[6 + 2 * u]? = _
                rw [c3, set_get_other _ (by omega), set_get_same _ U.ac]; simp [hk])
            (by rw [← hw3, ← hw2]; exact u1l) (fun i hi => by rw [← hw3, ← hw2]; exact u1o i hi)
            (by rw [← hw3, ← hw2]; exact u1)
            (by rw [← hw3, ← hw2]; simp [World.setObs, o1l])
            (fun i a b => by
              rw [← hw3]
              show (w2.setObs _ _).obs[i]? = _
              rw [getElem?_setObs_other _ (fun e => b e.symm), ← hw2]; exact o1o i a)
            (fun i _ => by rw [← hw3, ← hw2]; exact l1 i)
            (by rw [← hw3]
                show (w2.setObs _ _).obs[2 * u]? = _
                rw [getElem?_setObs_other _ (by omega), ← hw2, o1r]; simp [rootOf, cbN, cbE, cbC])
            (by rw [← hw3]
                show (w2.setObs _ _).obs[2 * u + 1]? = _
                rw [getElem?_setObs_same _ f2]; simp [fwdOf, hk, Obs.cleared])
            (by rw [← hw3, ← hw2]; show logOf w1 u = _; rw [l1, U.log]) U.seen (fun _ => rfl)
            (fun p hp => h.keys p (List.mem_filter.1 hp).1)
  · refine wp_userUnsub_none (by apply List.getElem?_eq_none; rw [h.nUsers]; exact hge) (WP.done ?_)
    have : (unsubscribeN .replay st u).1 = st := by
      unfold unsubscribeN; simp [h.unseen u hge]
    rw [this]; exact h

/-! ### subscribe -/

/-- the stored terminal (error wins, replay_subject.rs:77-83) -/
def termOf (we : Option Nat) (wc : Bool) : Option Ev :=
  match we with
  | some e => some (.error e)
  | none => if wc then some .complete else none

theorem foldRecv_eq (hist : List Data) (r : ObsSt) (ha : r.alive = true) :
    hist.foldl (fun r x => r.recv (.next x)) r = { r with log := r.log ++ hist.map .next } := by
  induction hist generalizing r with
  | nil => simp
  | cons x xs ih =>
    rw [List.foldl_cons, ih _ (by simp [ObsSt.recv, ha, Ev.isTerminal])]
    simp [ObsSt.recv, ha, Ev.isTerminal]

theorem handOver_eq (r : ObsSt) (hist : List Data) (we : Option Nat) (wc : Bool) (ha : r.alive = true) :
    handOver r hist we wc = match termOf we wc with
      | none => { r with log := r.log ++ hist.map .next }
      | some t => { r with log := r.log ++ hist.map .next ++ [t], alive := false } := by
  unfold handOver termOf
  simp only [foldRecv_eq hist r ha]
  cases we with
  | some e => simp [ObsSt.recv, ha, Ev.isTerminal]
  | none => cases wc <;> simp [ObsSt.recv, ha, Ev.isTerminal]

theorem termOf_terminal {we : Option Nat} {wc : Bool} {t : Ev} (h : termOf we wc = some t) : t.isTerminal = true := by
  unfold termOf at h
  cases we with
  | some e => simp at h; subst h; rfl
  | none =>
    cases wc with
    | true => simp at h; subst h; rfl
    | false => simp at h

theorem upd_upd (f : Nat → ObsSt) (o : Nat) (a b : ObsSt) : upd (upd f o a) o b = upd f o b := by
  funext i; simp only [upd]; split <;> rfl

theorem filter_fresh (l : List (Nat × Nat)) (s o : Nat) (h : ∀ p ∈ l, p.1 ≤ s) :
    (l ++ [(s + 1, o)]).filter (fun p => p.1 != s + 1) = l := by
  rw [List.filter_append, List.filter_eq_self.2]
  · simp
  · intro p hp; have := h p hp; simp; omega

/-- the record of a subscriber that joined a ReplaySubject with no stored terminal … -/
def liveRec (serial : Nat) (items : List Data) : ObsSt :=
  { seen := true, alive := true, hook := true, inAlive := true, inHook := some (serial + 1), armed := true, log := items.map .next }

/-- … and of one that was ended by the hand-over (its forwarder taken out again, replay_subject.rs:95-99) -/
def deadRec (items : List Data) (t : Ev) : ObsSt :=
  { seen := true, alive := false, hook := true, inAlive := false, inHook := none, armed := false, log := items.map .next ++ [t] }

/-- `SubjM.step .replay _ (.subscribe n)` for an unused id, computed -/
theorem stepR_subscribe (st : State) (n : Nat) (hu : (st.obs n).seen = false)
    (hkeys : ∀ p ∈ st.observers, p.1 ≤ st.serial) :
    step .replay st (.subscribe n) = match termOf st.wasError st.wasCompleted with
      | none =>
        { st with
          serial := st.serial + 1
          observers := st.observers ++ [(st.serial + 1, n)]
          obs := upd st.obs n (liveRec st.serial st.items) }
      | some t =>
        { st with
          serial := st.serial + 1
          observers := st.observers
          obs := upd st.obs n (deadRec st.items t) } := by
  simp only [step, subscribeA, hu, Bool.false_eq_true, ↓reduceIte, subscribeB, Kind.isReplay, Bool.and_self,
    subscribeH, register, upd_same, upd_upd]
  rw [handOver_eq _ _ _ _ rfl]
  cases termOf st.wasError st.wasCompleted with
  | none => simp [reap, upd_upd, liveRec]
  | some t => simp [reap, upd_upd, filter_fresh _ _ _ hkeys, deadRec]

theorem modify_app {α} (l l' : List α) (j : Nat) (f : α → α) :
    (l ++ l').modify (l.length + j) f = l ++ l'.modify j f := by
  apply List.ext_getElem?
  intro i
  simp only [List.getElem?_modify, List.getElem?_append]
  by_cases h : i < l.length
  · simp [h]; intro e; omega
  · simp only [h, ↓reduceIte]
    by_cases e : l.length + j = i
    · subst e; simp
    · have e2 : ¬ j = i - l.length := by omega
      simp [e, e2]

theorem modify_app0 {α} (l l' : List α) (f : α → α) : (l ++ l').modify l.length f = l ++ l'.modify 0 f :=
  modify_app l l' 0 f

theorem set_app_lt {α} (l l' : List α) (i : Nat) (d : α) (h : i < l.length) :
    (l ++ l').set i d = l.set i d ++ l' := by
  rw [List.set_append]; simp [h]

theorem set_app_ge {α} (l l' : List α) (j : Nat) (d : α) :
    (l ++ l').set (l.length + j) d = l ++ l'.set j d := by
  rw [List.set_append]
  have : ¬ l.length + j < l.length := by omega
  simp [this]

theorem get_app_ge {α} (l l' : List α) (j : Nat) : (l ++ l')[l.length + j]? = l'[j]? := by
  rw [List.getElem?_append_right (by omega)]; simp

theorem get_app_lt {α} (l l' : List α) (i : Nat) (h : i < l.length) : (l ++ l')[i]? = l[i]? :=
  List.getElem?_append_left h

theorem get_app_at {α} (l l' : List α) (k j : Nat) (hk : k = l.length + j) : (l ++ l')[k]? = l'[j]? := by
  subst hk; exact get_app_ge l l' j

theorem set_app_at {α} (l l' : List α) (k j : Nat) (d : α) (hk : k = l.length + j) :
    (l ++ l').set k d = l ++ l'.set j d := by
  subst hk; exact set_app_ge l l' j d

theorem modify_app_at {α} (l l' : List α) (k j : Nat) (f : α → α) (hk : k = l.length + j) :
    (l ++ l').modify k f = l ++ l'.modify j f := by
  subst hk; exact modify_app l l' j f

theorem logOf_trace_append (w : World) (tr : List Rec) (u : Nat) :
    logOf { w with trace := w.trace ++ tr } u = logOf w u ++ logOf { w with trace := tr } u := by
  simp [logOf, List.filterMap_append]

theorem logOf_evs (w : World) (evs : List Ev) (s u : Nat) :
    logOf { w with trace := evs.map (Rec.ev s) } u = if s = u then evs else [] := by
  simp only [logOf]
  induction evs with
  | nil => simp
  | cons e rest ih =>
    simp only [List.map_cons, List.filterMap_cons]
    split <;> simp_all

/-- the world after a complete `subscribe` of user `n`, described by the new subscriber's record -/
theorem RelR.extend {n w st} (h : RelR n w st) (w' : World) (rF : ObsSt) (O' : List (Nat × Nat))
    (hstatus : w'.status = w.status) (hheld : w'.held = w.held) (hslots : w'.slots = w.slots)
    (hobsvs : w'.obsvs = w.obsvs)
    (hobs : w'.obs = w.obs ++ [rootOf n rF, fwdOf n rF])
    (husers : w'.users = w.users ++ [⟨2 * n, noReact, true, rF.hook⟩])
    (hcells : w'.cells = (w.cells.set 1 (.int ((st.serial + 1 : Nat) : Int))).set 0 (encMap (mapR O')) ++
      [handle n, .bool rF.armed])
    (htrace : w'.trace = w.trace ++ rF.log.map (Rec.ev n))
    (hseen : rF.seen = true) (hdead : rF.hook = false → rF.alive = false)
    (hkeys : ∀ p ∈ O', p.1 ≤ st.serial + 1) :
    RelR (n + 1) w' { st with serial := st.serial + 1, observers := O', obs := upd st.obs n rF } := by
  have hcl := h.nCells
  have hol := h.nObs
  have hul := h.nUsers
  have hB : ((w.cells.set 1 (.int ((st.serial + 1 : Nat) : Int))).set 0 (encMap (mapR O'))).length = 5 + 2 * n := by
    simp [hcl]
  have cfix : ∀ i, 2 ≤ i → i < 5 + 2 * n → w'.cells[i]? = w.cells[i]? := by
    intro i h2 hi
    rw [hcells, get_app_lt _ _ _ (by rw [hB]; exact hi), set_get_other _ (by omega), set_get_other _ (by omega)]
  have hlogs : ∀ u, logOf w' u = logOf w u ++ if n = u then rF.log else [] := by
    intro u
    have : w' = { w' with trace := w.trace ++ rF.log.map (Rec.ev n) } := by rw [← htrace]
    have e1 : logOf w' u = logOf { w with trace := w.trace ++ rF.log.map (Rec.ev n) } u := by
      simp only [logOf, htrace]
    rw [e1, logOf_trace_append, logOf_evs]
  exact
    { status := hstatus ▸ h.status
      held := hheld ▸ h.held
      cellO := by
        rw [hcells, get_app_lt _ _ _ (by rw [hB]; omega)]
        exact set_get_same _ (by rw [set_get_other _ (by omega)]; exact h.cellO)
      cellS := by
        rw [hcells, get_app_lt _ _ _ (by rw [hB]; omega), set_get_other _ (by omega)]
        exact set_get_same _ h.cellS
      cellI := by rw [cfix 2 (by omega) (by omega)]; exact h.cellI
      cellE := by rw [cfix 3 (by omega) (by omega)]; exact h.cellE
      cellC := by rw [cfix 4 (by omega) (by omega)]; exact h.cellC
      nCells := by rw [hcells, List.length_append, hB]; simp; omega
      slotA := hslots ▸ h.slotA
      slotB := hslots ▸ h.slotB
      obsv := hobsvs ▸ h.obsv
      nUsers := by rw [husers]; simp [hul]
      nObs := by rw [hobs]; simp [hol]; omega
      users := by
        intro u hu
        by_cases e : u = n
        · subst e
          simp only [upd, ↓reduceIte]
          exact
            { user := by rw [husers, get_app_at _ _ _ 0 (by omega)]; rfl
              root := by rw [hobs, get_app_at _ _ _ 0 (by omega)]; rfl
              fwd := by rw [hobs, get_app_at _ _ _ 1 (by omega)]; rfl
              sb := by rw [hcells, get_app_at _ _ _ 0 (by omega)]; rfl
              ac := by rw [hcells, get_app_at _ _ _ 1 (by omega)]; rfl
              log := by rw [hlogs, h.quiet u (Nat.le_refl _)]; simp
              seen := hseen
              dead := hdead }
        · have hlt : u < n := by omega
          simp only [upd, e, ↓reduceIte]
          refine (h.users u hlt).frame ⟨?_, ?_, ?_, cfix _ (by omega) (by omega), cfix _ (by omega) (by omega), ?_⟩
          · rw [husers, get_app_lt _ _ _ (by omega)]
          · rw [hobs, get_app_lt _ _ _ (by omega)]
          · rw [hobs, get_app_lt _ _ _ (by omega)]
          · rw [hlogs]; simp [show ¬ n = u from fun x => e x.symm]
      unseen := by
        intro u hu
        have : u ≠ n := by omega
        simp only [upd, this, ↓reduceIte]; exact h.unseen u (by omega)
      quiet := by
        intro u hu
        rw [hlogs, h.quiet u (by omega)]
        simp [show ¬ n = u by omega]
      keys := hkeys }

theorem get_app0 {α} (l l' : List α) : (l ++ l')[l.length]? = l'[0]? := get_app_ge l l' 0

/-- the replay of the snapshot to a recording test subscriber (replay_subject.rs:71-76) -/
theorem replayLoop_spec (items : List Data) (o s : Nat) : ∀ (w : World) (x : Obs) (u : User),
    w.obs[o]? = some x → x.next = some (.user s) → x.error = some (.user s) → x.complete = some (.user s) →
    w.users[s]? = some u → u.react = noReact →
    WP (forEach items fun x => .obsNext o x .done) w
      (fun w' => w' = { w with trace := w.trace ++ items.map fun x => .ev s (.next x) }) := by
  induction items with
  | nil => intro w x u _ _ _ _ _ _; exact WP.done (by simp)
  | cons d rest ih =>
    intro w x u ho hn he hc hu hr
    simp only [forEach]
    refine WP.seq ?_
    refine wp_ev_user (ev := .next d) ho hn he hc hu hr (WP.done ?_)
    refine (ih (w.deliverTo o s (.next d)) x u ho hn he hc hu hr).conseq ?_
    intro w' hw'
    rw [hw']
    simp [World.deliverTo, Ev.isTerminal, World.emit]

/-- the stored terminal handed to the subscriber (replay_subject.rs:77-83) -/
theorem termProg_spec (we : Option Nat) (wc : Bool) (o s : Nat) (w : World) (x : Obs) (u : User)
    (ho : w.obs[o]? = some x) (hn : x.next = some (.user s)) (he : x.error = some (.user s))
    (hc : x.complete = some (.user s)) (hu : w.users[s]? = some u) (hr : u.react = noReact) :
    WP (match (Data.optEnc (we.map fun (e : Nat) => Data.int (e : Int))).optDec with
        | some e => Prog.obsError o e.toInt.toNat .done
        | none => if wc = true then Prog.obsComplete o .done else .done) w
      (fun w' => w' = match termOf we wc with
        | some t => w.deliverTo o s t
        | none => w) := by
  cases we with
  | some e =>
    simp only [Option.map_some, Data.optEnc, Data.optDec, toNat_int, termOf]
    exact wp_ev_user (ev := .error e) ho hn he hc hu hr (WP.done rfl)
  | none =>
    cases wc with
    | true =>
      simp only [Option.map_none, Data.optEnc, Data.optDec, termOf, ↓reduceIte]
      exact wp_ev_user (ev := .complete) ho hn he hc hu hr (WP.done rfl)
    | false =>
      simp only [Option.map_none, Data.optEnc, Data.optDec, termOf, Bool.false_eq_true, ↓reduceIte]
      exact WP.done rfl

theorem subscribeR_spec {n w st} (h : RelR n w st) :
    WP (.userSub 0 noReact .done) w (fun w' => RelR (n + 1) w' (step .replay st (.subscribe n))) := by
  have hu : (st.obs n).seen = false := by rw [h.unseen n (Nat.le_refl _)]
  rw [stepR_subscribe st n hu h.keys]
  refine wp_userSub h.obsv ?_
  unfold RSubj.observable
  simp only [r0_items, r0_wasError, r0_wasCompleted, r0_inner]
  refine wp_cellNew ?_
  dsimp only
  refine wp_obsSetOnUnsub h.held ?_
  dsimp only [World.setObs]
  rw [modify_app0]
  simp only [List.modify_cons, ↓reduceIte]
  generalize hrh : (Prog.cellRead w.cells.length false fun h => subUnsub h) = rh
  have hcl : w.cells.length = 5 + 2 * n := h.nCells
  have g0 : ∀ l' : List Data, (w.cells ++ l')[0]? = some (encMap (mapR st.observers)) := fun l' => by
    rw [get_app_lt _ _ _ (by omega)]; exact h.cellO
  have g1 : ∀ l' : List Data, (w.cells ++ l')[1]? = some (.int st.serial) := fun l' => by
    rw [get_app_lt _ _ _ (by omega)]; exact h.cellS
  have g2 : ∀ l' : List Data, (w.cells ++ l')[2]? = some (Data.ofList st.items) := fun l' => by
    rw [get_app_lt _ _ _ (by omega)]; exact h.cellI
  have g3 : ∀ l' : List Data, (w.cells ++ l')[3]? = some (Data.optEnc (st.wasError.map fun (e : Nat) => Data.int (e : Int))) :=
    fun l' => by rw [get_app_lt _ _ _ (by omega)]; exact h.cellE
  have g4 : ∀ l' : List Data, (w.cells ++ l')[4]? = some (.bool st.wasCompleted) := fun l' => by
    rw [get_app_lt _ _ _ (by omega)]; exact h.cellC
  refine wp_cellRead h.held ?_
  refine wp_cellRead h.held ?_
  refine wp_cellRead h.held ?_
  dsimp only
  rw [g2, g3, g4]
  simp only [Option.getD_some, Data.toList_ofList, Data.toBool]
  unfold subscribeWith
  refine wp_obsNew ?_
  dsimp only
  simp only [List.length_append, List.length_cons, List.length_nil, List.append_assoc, List.cons_append,
    List.nil_append, Nat.zero_add]
  simp only [Obsv.sub]
  refine WP.seq ?_
  refine wp_obsIsSub (by dsimp only; rw [get_app_ge _ _ 1]; rfl) ?_
  simp only [Obs.isSub, Option.isSome_some, Bool.and_self, ↓reduceIte]
  refine WP.seq ?_
  refine wp_obsIsSub (by dsimp only; rw [get_app_ge _ _ 1]; rfl) ?_
  simp only [Obs.isSub, Option.isSome_some, Bool.and_self, ↓reduceIte]
  refine observable_spec (sj := sj0) (serial := st.serial) (obsl := mapR st.observers) h.held
    (by dsimp only; rw [get_app_ge _ _ 1]; rfl) rfl (by decide) (g1 _) (g0 _) (keys_mapR h.keys)
    h.slotA ?_
  dsimp only [subWorld, World.setObs, sj0_serial, sj0_observers]
  rw [modify_app _ _ 1]
  simp only [List.modify_cons, ↓reduceIte, Nat.reduceEqDiff, Nat.add_one_sub_one]
  rw [set_app_lt _ _ _ _ (by omega), set_app_lt _ _ _ _ (by simp; omega)]
  refine WP.seq ?_
  refine (replayLoop_spec st.items w.obs.length w.users.length _ _ _ (by dsimp only; rw [get_app0]; rfl) rfl rfl rfl
    (by dsimp only; rw [get_app0]; rfl) rfl).conseq ?_
  intro w6 hw6
  subst hw6
  dsimp only
  refine (termProg_spec st.wasError st.wasCompleted w.obs.length w.users.length _ _ _
    (by dsimp only; rw [get_app0]; rfl) rfl rfl rfl (by dsimp only; rw [get_app0]; rfl) rfl).conseq ?_
  intro w7 hw7
  subst hw7
  cases hterm : termOf st.wasError st.wasCompleted with
  | none =>
    dsimp only
    refine wp_cellNew ?_
    dsimp only
    simp only [List.length_append, List.length_set, List.length_cons, List.length_nil, Nat.zero_add]
    refine wp_cellWrite h.held ?_
    dsimp only
    rw [List.append_assoc, set_app_at _ _ _ 0 _ (by simp)]
    simp only [List.cons_append, List.nil_append, List.set_cons_zero]
    refine wp_obsIsSub (by dsimp only; rw [get_app0]; rfl) ?_
    simp only [Obs.isSub, Option.isSome_some, Bool.and_self, ↓reduceIte]
    refine WP.done (wp_userReady (WP.done ?_))
    dsimp only [World.setUser]
    rw [modify_app0]
    simp only [List.modify_cons, ↓reduceIte]
    subst hrh
    refine h.extend _ (liveRec st.serial st.items) (st.observers ++ [(st.serial + 1, n)]) rfl rfl rfl rfl
      ?_ ?_ ?_ ?_ rfl (by simp [liveRec]) ?_
    · dsimp only; rw [h.nObs, h.nUsers, hcl]; rfl
    · dsimp only; rw [h.nObs]; rfl
    · dsimp only; rw [h.nObs, hcl]
      simp [mapR, handle, liveRec]
      omega
    · dsimp only; rw [h.nUsers]; simp [liveRec, List.map_map, Function.comp_def]
    · intro p hp
      rcases List.mem_append.1 hp with hp | hp
      · have := h.keys p hp; omega
      · simp at hp; subst hp; simp
  | some t =>
    have ht := termOf_terminal hterm
    dsimp only [World.deliverTo]
    simp only [ht, ↓reduceIte]
    dsimp only [World.setObs, World.emit]
    rw [modify_app0]
    simp only [List.modify_cons, ↓reduceIte, Obs.cleared]
    refine wp_cellNew ?_
    dsimp only
    simp only [List.length_append, List.length_set, List.length_cons, List.length_nil, Nat.zero_add]
    refine wp_cellWrite h.held ?_
    dsimp only
    rw [List.append_assoc, set_app_at _ _ _ 0 _ (by simp)]
    simp only [List.cons_append, List.nil_append, List.set_cons_zero]
    refine wp_obsIsSub (by dsimp only; rw [get_app0]; rfl) ?_
    simp only [Obs.isSub, Option.isSome_none, Bool.and_self, Bool.false_eq_true, ↓reduceIte, subUnsub,
      Int.toNat_natCast]
    refine wp_cellRead h.held ?_
    dsimp only
    rw [get_app_at _ _ _ 1 (by simp)]
    simp only [List.getElem?_cons_succ, List.getElem?_cons_zero, Option.getD_some, Data.toBool, ↓reduceIte]
    refine wp_cellWrite h.held ?_
    dsimp only
    rw [set_app_at _ _ _ 1 _ (by simp)]
    simp only [List.set_cons_succ, List.set_cons_zero]
    refine wp_obsUnsub_some (f := hookProg sj0 ((st.serial + 1 : Nat) : Int))
      (by dsimp only; rw [get_app_ge _ _ 1]; rfl) rfl ?_
    dsimp only [World.setObs]
    rw [modify_app _ _ 1]
    simp only [List.modify_cons, ↓reduceIte, Nat.reduceEqDiff, Nat.add_one_sub_one, Obs.cleared]
    unfold hookProg
    simp only [sj0_observers, sj0_onUnsub]
    refine wp_cellRead h.held ?_
    dsimp only
    rw [get_app_lt _ _ _ (by simp; omega), set_get_same _ (by rw [set_get_other _ (by omega)]; exact h.cellO)]
    simp only [Option.getD_some, amapRemove_encMap, filter_fresh _ _ _ (keys_mapR h.keys)]
    refine wp_cellWrite h.held ?_
    dsimp only
    rw [set_app_lt _ _ _ _ (by simp; omega), List.set_set]
    refine wp_lockedSlotCall_none h.held h.slotB (WP.done (WP.done (wp_userReady (WP.done ?_))))
    dsimp only [World.setUser]
    rw [modify_app0]
    simp only [List.modify_cons, ↓reduceIte]
    subst hrh
    refine h.extend _ (deadRec st.items t) st.observers rfl rfl rfl rfl
      ?_ ?_ ?_ ?_ rfl (by simp [deadRec]) ?_
    · dsimp only; rw [hcl]; rfl
    · dsimp only; rw [h.nObs]; rfl
    · dsimp only; rw [h.nObs, hcl]
      simp [handle, deadRec]
      omega
    · dsimp only; rw [h.nUsers]; simp [deadRec, List.map_map, Function.comp_def]
    · intro p hp; have := h.keys p hp; omega

/-! ### call sequences, the whole program -/

def callProgR (r : RSubj) (id : Nat) : Call → Prog
  | .subscribe _ => .userSub id noReact .done
  | .unsubscribe o => .userUnsub o .done
  | .next v => r.next v
  | .error e => r.error e
  | .complete => r.complete

theorem callR_spec {n w st} (h : RelR n w st) (c : Call) (hc : wfFrom n [c] = true) :
    WP (callProgR r0 0 c) w (fun w' => RelR (n + subs [c]) w' (step .replay st c)) := by
  cases c with
  | subscribe o =>
    have : o = n := by simpa [wfFrom] using hc
    subst this
    exact subscribeR_spec h
  | unsubscribe o => exact unsubscribeR_spec h o
  | next v => exact emitR_spec h (.next v)
  | error e => exact emitR_spec h (.error e)
  | complete => exact emitR_spec h .complete

theorem callsR_spec (cs : List Call) : ∀ (n : Nat) (w : World) (st : State), RelR n w st →
    wfFrom n cs = true →
    WP (forEach cs (callProgR r0 0)) w (fun w' => RelR (n + subs cs) w' (runFrom .replay st cs)) := by
  induction cs with
  | nil => intro n w st h _; exact WP.done h
  | cons c rest ih =>
    intro n w st h hwf
    rw [wfFrom_cons, Bool.and_eq_true] at hwf
    simp only [forEach]
    apply WP.seq
    refine (callR_spec h c hwf.1).conseq fun w1 h1 => ?_
    refine (ih _ w1 _ h1 hwf.2).conseq fun w2 h2 => ?_
    rw [subs_cons, ← Nat.add_assoc]
    exact h2

/-- allocate a `ReplaySubject` (replay_subject.rs `new`: Subject, items, was_error, was_completed), make its
    observable, perform the calls in order -/
def progR (cs : List Call) : Prog :=
  subjNew fun sj => .cellNew .lnil fun it => .cellNew .lnil fun we => .cellNew (.bool false) fun wc =>
    .obsvNew (RSubj.observable ⟨sj, it, we, wc⟩) fun id => forEach cs (callProgR ⟨sj, it, we, wc⟩ id)

theorem relR_init :
    RelR 0 { cells := [.lnil, .int 0, .lnil, .lnil, .bool false], slots := [none, none], obsvs := [r0.observable] }
      (init .replay) :=
  { status := rfl, held := rfl, cellO := rfl, cellS := rfl, cellI := rfl, cellE := rfl, cellC := rfl, nCells := rfl
    slotA := rfl, slotB := rfl, obsv := rfl, nUsers := rfl, nObs := rfl
    users := fun u hu => by omega
    unseen := fun _ _ => rfl
    quiet := fun _ _ => rfl
    keys := fun p hp => by cases hp }

theorem progR_spec (cs : List Call) (hwf : wfFrom 0 cs = true) :
    WP (progR cs) {} (fun w' => RelR (subs cs) w' (SubjM.run .replay cs)) := by
  unfold progR subjNew
  refine wp_cellNew (wp_cellNew (wp_slotNew (wp_slotNew (wp_cellNew (wp_cellNew (wp_cellNew (wp_obsvNew ?_)))))))
  have := callsR_spec cs 0 _ _ relR_init hwf
  rw [Nat.zero_add] at this
  exact this

def FinalR (cs : List Call) (w : World) : Prop := ∃ n0, ∀ fuel, n0 ≤ fuel → run fuel [progR cs] {} = w

theorem FinalR.unique {cs w w'} (h : FinalR cs w) (h' : FinalR cs w') : w = w' := by
  obtain ⟨a, ha⟩ := h
  obtain ⟨b, hb⟩ := h'
  rw [← ha (a + b) (by omega), ← hb (a + b) (by omega)]

/-- what the differential test compares (`O=` is `mapCount`); the map itself holds the forwarders `2u+1` -/
structure AgreesR (w : World) (st : State) : Prop where
  status : w.status = .ok
  held : w.held = []
  logs : ∀ u, logOf w u = SubjM.logOf st u
  reg : regOf w = (registered st).map fun u => 2 * u + 1
  count : mapCount w = (registered st).length
  alive : ∀ u, w.isSubOf u = aliveOf st u

theorem RelR.agrees {n w st} (h : RelR n w st) : AgreesR w st := by
  have hc : w.cells[0]?.getD .lnil = encMap (mapR st.observers) := by rw [h.cellO]; rfl
  refine ⟨h.status, h.held, ?_, ?_, ?_, ?_⟩
  · intro u
    rcases Nat.lt_or_ge u n with hlt | hge
    · exact (h.users u hlt).log
    · rw [h.quiet u hge, SubjM.logOf, h.unseen u hge]
  · simp [regOf, hc, amapVals_encMap, registered, mapR, Data.toInt, List.map_map, Function.comp_def]
    intro a b _; omega
  · simp [mapCount, hc, amapLen_encMap, registered, mapR]
  · intro u
    rcases Nat.lt_or_ge u n with hlt | hge
    · have U := h.users u hlt
      simp only [World.isSubOf, U.user, U.root, aliveOf]
      cases ha : (st.obs u).alive <;> simp [rootOf, Obs.isSub, ha, cbN, cbE, cbC]
    · have : w.users[u]? = none := by apply List.getElem?_eq_none; rw [h.nUsers]; exact hge
      simp only [World.isSubOf, this, aliveOf, h.unseen u hge]

/-- **C10-REF, ReplaySubject.**  For every call sequence whose `subscribe` calls are numbered in order, model A's
    program (allocate the replay subject, perform the calls through the transliterated macros of
    `Machine/Subjects.lean`) terminates with `status = ok` and agrees with `SubjM` (kind `.replay`, i.e. with the
    two-step hand-over `subscribeA / subscribeH / subscribeB`) on every user's log, on the observer map and on who
    is still subscribed. -/
theorem replay_refines (cs : List Call) (hwf : wfFrom 0 cs = true) :
    ∃ w, FinalR cs w ∧ AgreesR w (SubjM.run .replay cs) := by
  obtain ⟨n0, w, hrel, hrun⟩ := WP.run_top (progR_spec cs hwf)
  exact ⟨w, ⟨n0, hrun⟩, hrel.agrees⟩

theorem replay_refines_fuel (cs : List Call) (hwf : wfFrom 0 cs = true) :
    ∃ n0, ∀ fuel, n0 ≤ fuel →
      (run fuel [progR cs] {}).status = .ok ∧
      (∀ u, logOf (run fuel [progR cs] {}) u = SubjM.logOf (SubjM.run .replay cs) u) ∧
      mapCount (run fuel [progR cs] {}) = (registered (SubjM.run .replay cs)).length ∧
      (∀ u, (run fuel [progR cs] {}).isSubOf u = aliveOf (SubjM.run .replay cs) u) := by
  obtain ⟨w, ⟨n0, hrun⟩, ha⟩ := replay_refines cs hwf
  refine ⟨n0, fun fuel hf => ?_⟩
  rw [hrun fuel hf]
  exact ⟨ha.status, ha.logs, ha.count, ha.alive⟩

theorem callR_run {n w st} (h : RelR n w st) (c : Call) (hc : wfFrom n [c] = true) :
    ∃ n0, ∀ fuel, n0 ≤ fuel → RelR (n + subs [c]) (run fuel [callProgR r0 0 c] w) (step .replay st c) := by
  obtain ⟨n0, w', hrel, hrun⟩ := WP.run_top (callR_spec h c hc)
  exact ⟨n0, fun fuel hf => by rw [hrun fuel hf]; exact hrel⟩

theorem finalR_agrees {cs w} (hwf : wfFrom 0 cs = true) (h : FinalR cs w) : AgreesR w (SubjM.run .replay cs) := by
  obtain ⟨w', hf, ha⟩ := replay_refines cs hwf
  rw [h.unique hf]; exact ha

/-! ### C10's ReplaySubject statements on model A -/

/-- **`replay_handover` on model A**: a new user of the machine's ReplaySubject first records every past item in
    call order, then the stored terminal if there is one (and nothing more), otherwise exactly what a plain
    Subject gives an observer subscribed at that moment. -/
theorem machine_replay_handover (pre post : List Call) (o : Nat)
    (hwf : wfFrom 0 (pre ++ .subscribe o :: post) = true) {w : World}
    (h : FinalR (pre ++ .subscribe o :: post) w) :
    logOf w o = (pastItems pre).map .next ++
      match storedError none pre with
      | some e => [.error e]
      | none => if completedIn pre then [.complete] else plainExpect o post := by
  rw [(finalR_agrees hwf h).logs, replay_handover pre post o (wf_fresh pre post o hwf)]
  have hplain : SubjM.logOf (SubjM.run .plain (.subscribe o :: post)) o = plainExpect o post := by
    simpa using plain_log_spec [] post o (by simp)
  rw [hplain]
  cases storedError none pre <;> rfl

/-- **`no_observer_after_terminal` on model A** (replay) -/
theorem machine_replay_no_observer_after_terminal (cs : List Call) (c : Call) (ev : Ev) (hc : c.toEv? = some ev)
    (ht : ev.isTerminal = true) (hwf : wfFrom 0 (cs ++ [c]) = true) {w : World} (h : FinalR (cs ++ [c]) w) :
    regOf w = [] ∧ mapCount w = 0 := by
  have b := finalR_agrees hwf h
  have := no_observer_after_terminal .replay cs c ev hc ht
  rw [← run_snoc] at this
  rw [b.reg, b.count, this]; exact ⟨rfl, rfl⟩

/-- **`no_observer_after_unsubscribe` on model A** (replay): the forwarder of an unsubscribed user is never in the
    machine's map again -/
theorem machine_replay_no_observer_after_unsubscribe (pre post : List Call) (o : Nat)
    (hsub : Call.subscribe o ∈ pre) (hwf : wfFrom 0 (pre ++ .unsubscribe o :: post) = true) {w : World}
    (h : FinalR (pre ++ .unsubscribe o :: post) w) : 2 * o + 1 ∉ regOf w := by
  rw [(finalR_agrees hwf h).reg]
  intro hm
  obtain ⟨u, hu, e⟩ := List.mem_map.1 hm
  have : u = o := by omega
  subst this
  exact no_observer_after_unsubscribe .replay pre post u hsub hu

/-- the late subscriber that used to leave its forwarder behind: not in the machine's map either -/
theorem machine_replay_late_subscriber_not_held {w : World}
    (h : FinalR [.next (.int 1), .complete, .subscribe 0] w) :
    logOf w 0 = [.next (.int 1), .complete] ∧ w.isSubOf 0 = false ∧ mapCount w = 0 := by
  have a := finalR_agrees (by decide) h
  have := replay_late_subscriber_not_held
  simp only at this
  rw [a.logs, a.alive, a.count, this.1, this.2.1, this.2.2]
  exact ⟨rfl, rfl, rfl⟩

/-! ### non-vacuity -/

def demoR : List Call :=
  [.next (.int 1), .subscribe 0, .next (.int 2), .subscribe 1, .unsubscribe 0, .next (.int 3), .complete,
   .subscribe 2, .next (.int 4), .unsubscribe 1]

example : wfFrom 0 demoR = true := by decide
example : (run 2000 [progR demoR] {}).status = .ok := by decide +kernel
example : (List.range 4).map (logOf (run 2000 [progR demoR] {})) =
    [[.next (.int 1), .next (.int 2)],
     [.next (.int 1), .next (.int 2), .next (.int 3), .complete],
     [.next (.int 1), .next (.int 2), .next (.int 3), .complete], []] := by
  decide +kernel
example : (List.range 4).map (SubjM.logOf (SubjM.run .replay demoR)) =
    [[.next (.int 1), .next (.int 2)],
     [.next (.int 1), .next (.int 2), .next (.int 3), .complete],
     [.next (.int 1), .next (.int 2), .next (.int 3), .complete], []] := by
  decide +kernel
example : regOf (run 2000 [progR (demoR.take 6)] {}) = [3] ∧ registered (SubjM.run .replay (demoR.take 6)) = [1] := by
  decide +kernel
example : ∃ w, FinalR [.next (.int 1), .subscribe 0, .subscribe 1, .unsubscribe 0] w ∧
    RelR 2 w (SubjM.run .replay [.next (.int 1), .subscribe 0, .subscribe 1, .unsubscribe 0]) := by
  obtain ⟨n0, w, hrel, hrun⟩ := WP.run_top (progR_spec [.next (.int 1), .subscribe 0, .subscribe 1, .unsubscribe 0]
    (by decide))
  exact ⟨w, ⟨n0, hrun⟩, hrel⟩

#print axioms replay_refines
#print axioms replay_refines_fuel
#print axioms callR_run
#print axioms machine_replay_handover
#print axioms machine_replay_no_observer_after_terminal
#print axioms machine_replay_no_observer_after_unsubscribe
#print axioms machine_replay_late_subscriber_not_held

end Rx.RefR
