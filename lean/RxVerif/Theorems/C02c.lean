import RxVerif.Theorems.C02b
import RxVerif.Theorems.C04k
import RxVerif.Theorems.Sim
/-
C02 (continued): operators added to the model after C02a / C02b were written.
`time_interval` (src/operators/time_interval.rs) with its durations abstracted to `()`; `timestamp`
(src/operators/timestamp.rs) with the time stamps dropped is the identity kernel `kId` (identity_spec in C02a).
-/
namespace Rx.C02
open Rx Rx.C02b

theorem kTimeInterval_onNext_true (x : Data) : kTimeInterval.onNext true x = (true, [.emit .unit]) := rfl
theorem kTimeInterval_onNext_false (x : Data) : kTimeInterval.onNext false x = (true, []) := rfl

theorem kTimeInterval_feed_true (xs : List Data) : ∀ (out : List Ev),
    kTimeInterval.feed true ⟨true, false, true, out⟩ xs =
      (true, ⟨true, false, true, out ++ xs.map fun _ => Ev.next Data.unit⟩) := by
  induction xs with
  | nil => intro out; simp [feed_nil]
  | cons x xs ih =>
    intro out
    rw [feed_cons, kTimeInterval_onNext_true]
    simp [KRun.acts, KRun.act, ih]

theorem kTimeInterval_feed (xs : List Data) (out : List Ev) :
    kTimeInterval.feed false ⟨true, false, true, out⟩ xs =
      (!xs.isEmpty, ⟨true, false, true, out ++ (xs.drop 1).map fun _ => Ev.next Data.unit⟩) := by
  cases xs with
  | nil => simp [feed_nil]
  | cons x xs =>
    rw [feed_cons, kTimeInterval_onNext_false]
    simp [KRun.acts, kTimeInterval_feed_true]

/-- `time_interval`: one `()` per item after the first, one more when the source completes after at least one item -/
theorem timeInterval_spec (s : Stream) : kTimeInterval.run s = (Spec.timeInterval s).toEvs := by
  obtain ⟨xs, t⟩ := s
  rw [run_eq]
  have h : kTimeInterval.init = false := rfl
  simp only [h, kTimeInterval_feed]
  cases xs with
  | nil => cases t <;> simp [Kernel.finish, kTimeInterval, KRun.acts, KRun.act, Spec.timeInterval, toEvs_mk, Ending.toEvs]
  | cons x xs =>
    cases t <;> simp [Kernel.finish, kTimeInterval, KRun.acts, KRun.act, Spec.timeInterval, toEvs_mk, Ending.toEvs]

theorem we_kTimeInterval : Kernel.WellEncoded kTimeInterval := fun st => by cases st <;> rfl
theorem af_kTimeInterval : Kernel.AbortsFirst kTimeInterval := fun st x => by cases st <;> rfl

/-- errors pass through `time_interval` unchanged -/
theorem timeInterval_passes : C04.PassesErrors kTimeInterval :=
  ⟨fun _ _ => rfl, by intro st x e h; cases st <;> simp [kTimeInterval] at h,
   by intro st e h; cases st <;> simp [kTimeInterval] at h⟩

example : kTimeInterval.run ([.int 1, .int 2, .int 3], .complete) = [.next .unit, .next .unit, .next .unit, .complete] := by decide
example : kTimeInterval.run ([.int 1], .error 5) = [.error 5] := by decide
example : kTimeInterval.run ([], .complete) = [.complete] := by decide

end Rx.C02

#print axioms Rx.C02.timeInterval_spec
#print axioms Rx.C02.timeInterval_passes
