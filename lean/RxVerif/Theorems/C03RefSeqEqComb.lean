import RxVerif.Theorems.C03RefSeqEqDone3
/-
C03-REF, sequence_equal, part 12: what `Comb.sequenceEqualCode.step` does in the two kinds of reachable states —
`Ok` (nothing has ended; zip's `reg` and `live` coincide) and `Dead`.
-/
namespace Rx.SeqRef
open Rx.Comb Rx.CRef

/-- the `Ok` states -/
def okS (R : List Nat) (qs : List (List Data)) : Over := ⟨⟨⟨true, R, R⟩, qs⟩, Ctl.init 1⟩

theorem drain_stop (a : Bool) (f : Nat) (qs : List (List Data)) (h : Zip.ne qs = false) :
    zip.drain a (f + 1) qs = (qs, []) := by
  simp only [zip.drain]; rw [show (qs.all fun q => !q.isEmpty) = Zip.ne qs from rfl, h]; rfl

theorem drain_one (qs : List (List Data)) (h1 : Zip.ne qs = true) (h2 : Zip.ne (qs.map List.tail) = false) :
    zip.drain true (1 + 1) qs = (qs.map List.tail, [.next (Data.ofList (qs.map fun q => q.headD .unit))]) := by
  simp only [zip.drain]
  rw [show (qs.all fun q => !q.isEmpty) = Zip.ne qs from rfl, h1,
    show ((qs.map List.tail).all fun q => !q.isEmpty) = Zip.ne (qs.map List.tail) from rfl, h2]
  rfl

/-- an item on a live source that does not complete a tuple -/
theorem ok_next_quiet (R : List Nat) (qs : List (List Data)) (i : Nat) (x : Data) (hi : R.contains i = true)
    (hne : Zip.ne (qs.modify i (· ++ [x])) = false) :
    sequenceEqualCode.step (okS R qs) (i, .next x) = (okS R (qs.modify i (· ++ [x])), []) := by
  simp only [sequenceEqualCode.step, okS, zip.step, Ctl.isLive, hi, ↓reduceIte, drain_stop _ _ _ hne,
    sequenceEqualCode.feed, Over.sync]
  rfl

/-- ... that completes a tuple with equal components -/
theorem ok_next_same (R : List Nat) (qs : List (List Data)) (i : Nat) (x : Data) (hi : R.contains i = true)
    (h0 : Zip.ne qs = false) (hne : Zip.ne (qs.modify i (· ++ [x])) = true)
    (hs : allSame ((qs.modify i (· ++ [x])).map fun q => q.headD .unit) = true) :
    sequenceEqualCode.step (okS R qs) (i, .next x) = (okS R ((qs.modify i (· ++ [x])).map List.tail), []) := by
  obtain ⟨h2, h1⟩ := Zip.push_fills qs i x h0 hne
  have hs' : sequenceEqualCode.allSame ((qs.modify i (· ++ [x])).map fun q => q.headD .unit) = true := hs
  simp only [sequenceEqualCode.step, okS, zip.step, Ctl.isLive, hi, ↓reduceIte, h1, drain_one _ hne h2,
    sequenceEqualCode.feed, Over.sync, Data.toList_ofList, hs']
  rfl

theorem filter_not_self (l : List Nat) (p : Nat → Bool) : (l.filter p).filter (fun a => !l.contains a) = [] := by
  rw [List.filter_eq_nil_iff]; intro a ha
  have := (List.mem_filter.1 ha).1
  simp [this]

/-- the result of a step is a `Dead` state with nobody live any more -/
structure DeadRes (s : Over) : Prop where
  dead : s.Dead
  live : s.z.ctl.live = []

/-- ... that completes a tuple with different components: the verdict `false` -/
theorem ok_next_diff (R : List Nat) (qs : List (List Data)) (i : Nat) (x : Data) (hi : R.contains i = true)
    (h0 : Zip.ne qs = false) (hne : Zip.ne (qs.modify i (· ++ [x])) = true)
    (hs : allSame ((qs.modify i (· ++ [x])).map fun q => q.headD .unit) = false) :
    (sequenceEqualCode.step (okS R qs) (i, .next x)).2 = [.next (.bool false), .complete] ∧
      DeadRes (sequenceEqualCode.step (okS R qs) (i, .next x)).1 := by
  obtain ⟨h2, h1⟩ := Zip.push_fills qs i x h0 hne
  have hs' : sequenceEqualCode.allSame ((qs.modify i (· ++ [x])).map fun q => q.headD .unit) = false := hs
  have e1 : sequenceEqualCode.feed (Ctl.init 1)
      [.next (Data.ofList ((qs.modify i (· ++ [x])).map fun q => q.headD .unit))] =
      (⟨false, [], []⟩, [.next (.bool false), .complete]) := by
    simp only [sequenceEqualCode.feed, Data.toList_ofList, hs']
    decide
  simp only [sequenceEqualCode.step, okS, zip.step, Ctl.isLive, hi, ↓reduceIte, h1, drain_one _ hne h2, e1]
  refine ⟨trivial, ⟨by simp [Over.sync, Over.Dead, Ctl.isLive, Ctl.finalize], ?_⟩⟩
  simp only [Over.sync, Ctl.isLive, List.contains_nil, Bool.false_eq_true, ↓reduceIte, Ctl.finalize]
  rw [List.filter_eq_nil_iff]; intro a ha; simp [ha]

/-- an error on a live source -/
theorem ok_error (R : List Nat) (qs : List (List Data)) (i : Nat) (e : Nat) (hi : R.contains i = true) :
    (sequenceEqualCode.step (okS R qs) (i, .error e)).2 = [.error e] ∧
      DeadRes (sequenceEqualCode.step (okS R qs) (i, .error e)).1 := by
  have e1 : sequenceEqualCode.feed (Ctl.init 1) [.error e] = (⟨false, [], []⟩, [.error e]) := by
    simp [sequenceEqualCode.feed, Ctl.init, Ctl.isLive, Ctl.kill, Ctl.sinkError, Ctl.finalize, List.range_succ]
  simp only [sequenceEqualCode.step, okS, zip.step, Ctl.isLive, hi, ↓reduceIte, Ctl.kill, Ctl.sinkError, e1]
  refine ⟨trivial, ⟨by simp [Over.sync, Over.Dead, Ctl.isLive, Ctl.finalize], ?_⟩⟩
  simp only [Over.sync, Ctl.isLive, List.contains_nil, Bool.false_eq_true, ↓reduceIte, Ctl.finalize,
    List.filter_filter]
  rw [List.filter_eq_nil_iff]; intro a ha; simp [ha]

/-- a completion on a live source that is not the last one -/
theorem ok_complete_more (R : List Nat) (qs : List (List Data)) (i : Nat) (hi : R.contains i = true)
    (hm : (R.filter (· != i)).isEmpty = false) :
    sequenceEqualCode.step (okS R qs) (i, .complete) = (okS (R.filter (· != i)) qs, []) := by
  simp only [sequenceEqualCode.step, okS, zip.step, Ctl.isLive, hi, ↓reduceIte, Ctl.kill, Ctl.sinkComplete, hm,
    Bool.false_eq_true, sequenceEqualCode.feed, Over.sync]
  rfl

/-- the completion of the last live source: the verdict `true` -/
theorem ok_complete_last (R : List Nat) (qs : List (List Data)) (i : Nat) (hi : R.contains i = true)
    (hm : (R.filter (· != i)).isEmpty = true) :
    (sequenceEqualCode.step (okS R qs) (i, .complete)).2 = [.next (.bool true), .complete] ∧
      DeadRes (sequenceEqualCode.step (okS R qs) (i, .complete)).1 := by
  have e1 : sequenceEqualCode.feed (Ctl.init 1) [.complete] = (⟨false, [], []⟩, [.next (.bool true), .complete]) := by
    decide
  simp only [sequenceEqualCode.step, okS, zip.step, Ctl.isLive, hi, ↓reduceIte, Ctl.kill, Ctl.sinkComplete, hm, e1]
  refine ⟨trivial, ⟨by simp [Over.sync, Over.Dead, Ctl.isLive, Ctl.finalize], ?_⟩⟩
  simp only [Over.sync, Ctl.isLive, List.contains_nil, Bool.false_eq_true, ↓reduceIte, Ctl.finalize]
  rw [List.filter_eq_nil_iff]; intro a ha
  have : R.filter (· != i) = [] := by simpa using hm
  rw [this] at ha; cases ha

/-- an event of a source that is not live changes nothing -/
theorem ok_notlive (R : List Nat) (qs : List (List Data)) (i : Nat) (ev : Ev) (hi : R.contains i = false) :
    sequenceEqualCode.step (okS R qs) (i, ev) = (okS R qs, []) := by
  simp only [sequenceEqualCode.step, okS, zip.step, Ctl.isLive, hi, Bool.false_eq_true, ↓reduceIte,
    sequenceEqualCode.feed, Over.sync]
  rfl

/-- once everything is over nothing happens any more -/
theorem dead_code_step (s : Over) (h : DeadRes s) (p : Nat × Ev) :
    (sequenceEqualCode.step s p).2 = [] ∧ DeadRes (sequenceEqualCode.step s p).1 := by
  obtain ⟨⟨h1, h2⟩, h3⟩ := h
  have hl : s.z.ctl.isLive p.1 = false := by simp [Ctl.isLive, h3]
  simp only [sequenceEqualCode.step, zip.step, hl, Bool.false_eq_true, ↓reduceIte, sequenceEqualCode.feed]
  refine ⟨trivial, ⟨sync_dead _ _ h1, ?_⟩⟩
  simp only [Over.sync, h1, Bool.false_eq_true, ↓reduceIte, Ctl.finalize, h3, List.filter_nil]

theorem dead_step (s : Over) (h : DeadRes s) (p : Nat × Ev) :
    (sequenceEqual.step s p).2 = [] ∧ DeadRes (sequenceEqual.step s p).1 := by
  obtain ⟨i, ev⟩ := p
  cases ev with
  | next d => exact dead_code_step s h _
  | error e => exact dead_code_step s h _
  | complete =>
    simp only [sequenceEqual.step]
    have a := dead_code_step s h (i, .next sequenceEqual.endNone)
    have b := dead_code_step _ a.2 (i, .complete)
    exact ⟨by rw [a.1, b.1]; rfl, b.2⟩

end Rx.SeqRef
