import RxVerif.Theorems.C03RefCtl
/-
C03-REF, part 3: the set-up phase of the test programs — allocating `k` subjects, `new_observer` × n
("prepare subscribers"), subscribing an inner observer to its subject — and the generic induction over the history.
-/
namespace Rx.CRef
open Rx.Sim Rx.Ref Rx.Comb

variable {L : Lay} {fresh : Nat → Bool} {hl : List (LockId × Bool)} {c : Ctl} {x : Fr} {out : List Ev} {w : World}

/-! ### the history, performed as calls on the subjects -/

/-- one history entry = one call of `Subject::next/error/complete` on that source (ignored if there is no such source) -/
def callOf (sjs : List Subj) (p : Nat × Ev) : Prog :=
  match sjs[p.1]? with
  | some sj => evCall sj p.2
  | none => .done

def drive (sjs : List Subj) (H : History) : Prog := forEach H (callOf sjs)

theorem drive_spec {σ : Type} (step : σ → Nat × Ev → σ × List Ev) (R : σ → List Ev → World → Prop)
    (prog : Nat × Ev → Prog)
    (hstep : ∀ s out w p, R s out w → WP (prog p) w (R (step s p).1 (out ++ (step s p).2))) :
    ∀ (H : History) s out w, R s out w →
      WP (forEach H prog) w (R (finalFrom step s H) (out ++ runFrom step s H)) := by
  intro H
  induction H with
  | nil => intro s out w h; simpa [finalFrom, runFrom, forEach] using WP.done h
  | cons p rest ih =>
    intro s out w h
    simp only [forEach, finalFrom, runFrom]
    apply WP.seq
    refine (hstep s out w p h).conseq fun w1 h1 => ?_
    rw [← List.append_assoc]
    exact ih _ _ w1 h1

/-! ### `Subject::new` × n -/

def subjsNew : Nat → (List Subj → Prog) → Prog
  | 0, k => k []
  | n+1, k => subjNew fun sj => subjsNew n fun l => k (sj :: l)

def subjCells : Nat → List Data
  | 0 => []
  | n+1 => .lnil :: .int 0 :: subjCells n

theorem subjCells_length (n : Nat) : (subjCells n).length = 2 * n := by
  induction n with
  | zero => rfl
  | succ n ih => simp [subjCells, ih]; omega

theorem subjCells_even : ∀ (n i : Nat), i < n → (subjCells n)[2 * i]? = some .lnil
  | n+1, 0, _ => rfl
  | n+1, i+1, h => by
    rw [show 2 * (i + 1) = 2 * i + 1 + 1 by omega]
    simp only [subjCells, List.getElem?_cons_succ]
    exact subjCells_even n i (by omega)

theorem subjCells_odd : ∀ (n i : Nat), i < n → (subjCells n)[2 * i + 1]? = some (.int 0)
  | n+1, 0, _ => rfl
  | n+1, i+1, h => by
    rw [show 2 * (i + 1) + 1 = 2 * i + 1 + 1 + 1 by omega]
    simp only [subjCells, List.getElem?_cons_succ]
    exact subjCells_odd n i (by omega)

theorem wp_subjsNew : ∀ (n j : Nat) (w : World) (K : List Subj → Prog) (Q : World → Prop),
    w.cells.length = 2 * j → w.slots.length = 2 * j →
    WP (K ((List.range' j n).map sjOf))
      { w with cells := w.cells ++ subjCells n, slots := w.slots ++ List.replicate (2 * n) none } Q →
    WP (subjsNew n K) w Q := by
  intro n
  induction n with
  | zero =>
    intro j w K Q _ _ hk
    simpa [subjsNew, subjCells] using hk
  | succ n ih =>
    intro j w K Q hc hs hk
    simp only [subjsNew, subjNew]
    refine wp_cellNew (wp_cellNew (wp_slotNew (wp_slotNew ?_)))
    simp only [List.length_append, List.length_cons, List.length_nil, hc, hs]
    refine ih (j + 1) _ (fun l => K (sjOf j :: l)) Q (by simp [hc]; omega) (by simp [hs]; omega) ?_
    have e : 2 * (n + 1) = 2 * n + 1 + 1 := by omega
    simp only [List.range'_succ, List.map_cons, subjCells, e, List.replicate_succ] at hk
    simpa [List.append_assoc] using hk

/-! ### `new_observer` × n (stream_controller.rs:41-82, "prepare subscribers" of merge/amb/zip) -/

def codeObs (h : (Nat → Data → Prog) × (Nat → Nat → Prog) × (Nat → Prog)) (serial : Nat) : Obs :=
  ⟨some (.code (h.1 serial)), some (.code (h.2.1 serial)), some (.code (h.2.2 serial)), none⟩

/-- the world after `n` calls of `new_observer`: serials `s0 ..`, observers `w.obs.length ..` -/
def newObsWorld (sc : Sctl) (mk : Nat → (Nat → Data → Prog) × (Nat → Nat → Prog) × (Nat → Prog)) (w : World)
    (M : List (Nat × Nat)) (s0 n : Nat) : World :=
  { w with
    cells := (w.cells.set sc.serial (.int ((s0 + n : Nat) : Int))).set sc.map
      (encMap (M ++ (List.range n).map fun j => (s0 + j, w.obs.length + j)))
    obs := w.obs ++ (List.range n).map fun j => codeObs (mk j) (s0 + j) }

theorem set_same_eq {α} {l : List α} {n : Nat} {v : α} (h : l[n]? = some v) : l.set n v = l :=
  List.ext_getElem? fun j => set_same_get h j

theorem set_set_comm {α} (l : List α) {a b : Nat} (_hne : a ≠ b) (u v u' v' : α) :
    (((l.set a u).set b v).set a u').set b v' = (l.set a u').set b v' := by
  apply List.ext_getElem?
  intro j
  simp only [List.getElem?_set, List.length_set]
  by_cases e1 : b = j
  · simp [e1]
  · by_cases e2 : a = j
    · simp [e1, e2]
    · simp [e1, e2]

theorem wp_newObservers (sc : Sctl) (mk : Nat → (Nat → Data → Prog) × (Nat → Nat → Prog) × (Nat → Prog)) :
    ∀ (n : Nat) (K : List Nat → Prog) (w : World) (M : List (Nat × Nat)) (s0 : Nat) (Q : World → Prop),
    w.held = [] → sc.serial ≠ sc.map → w.cells[sc.serial]? = some (.int (s0 : Int)) →
    w.cells[sc.map]? = some (encMap M) → (∀ p ∈ M, p.1 < s0) →
    (∃ x, w.obs[sc.sub]? = some x ∧ x.isSub = true) →
    WP (K ((List.range n).map (w.obs.length + ·))) (newObsWorld sc mk w M s0 n) Q →
    WP (newObservers sc n mk K) w Q := by
  intro n
  induction n with
  | zero =>
    intro K w M s0 Q _ _ hS hM _ _ hk
    have e : newObsWorld sc mk w M s0 0 = w := by
      cases w
      simp only [newObsWorld, List.range_zero, List.map_nil, List.append_nil, Nat.add_zero] at hS hM ⊢
      rw [set_same_eq hS, set_same_eq hM]
    rw [e] at hk
    simpa [newObservers] using hk
  | succ m ih =>
    intro K w M s0 Q hh hne hS hM hkeys hsub hk
    obtain ⟨xs, hxs, hxsub⟩ := hsub
    simp only [newObservers]
    refine ih _ w M s0 Q hh hne hS hM hkeys ⟨xs, hxs, hxsub⟩ ?_
    simp only [Sctl.newObserver]
    have hS' : (newObsWorld sc mk w M s0 m).cells[sc.serial]? = some (.int ((s0 + m : Nat) : Int)) := by
      simp only [newObsWorld]
      rw [set_get_other _ (Ne.symm hne)]; exact set_get_same _ hS
    refine wp_cellRead hh ?_
    simp only [hS', Option.getD_some, toNat_int]
    refine wp_cellWrite hh (wp_obsNew (wp_cellRead hh ?_))
    have hM' : ∀ d o, (({ newObsWorld sc mk w M s0 m with
          cells := (newObsWorld sc mk w M s0 m).cells.set sc.serial d
          obs := (newObsWorld sc mk w M s0 m).obs ++ [o] } : World).cells[sc.map]?).getD .unit =
        encMap (M ++ (List.range m).map fun j => (s0 + j, w.obs.length + j)) := by
      intro d o
      simp only [newObsWorld]
      rw [set_get_other _ hne, set_get_same _ (by rw [set_get_other _ hne]; exact hM)]; rfl
    rw [hM']
    rw [amapInsert_encMap]
    · refine wp_cellWrite hh ?_
      refine wp_obsIsSub (x := xs) (by
        show (((newObsWorld sc mk w M s0 m).obs ++ _)[sc.sub]?) = _
        simp only [newObsWorld, List.append_assoc]
        rw [List.getElem?_append_left (by
          rcases Nat.lt_or_ge sc.sub w.obs.length with q | q
          · exact q
          · rw [List.getElem?_eq_none q] at hxs; cases hxs)]
        exact hxs) ?_
      simp only [hxsub, ↓reduceIte]
      have e1 : (List.range m).map (w.obs.length + ·) ++ [(newObsWorld sc mk w M s0 m).obs.length] =
          (List.range (m + 1)).map (w.obs.length + ·) := by
        simp [newObsWorld, List.range_succ]
      rw [e1]
      have e2 : ∀ W, W = newObsWorld sc mk w M s0 (m + 1) → WP (K ((List.range (m + 1)).map (w.obs.length + ·))) W Q :=
        fun W q => q ▸ hk
      apply e2
      simp only [newObsWorld, List.range_succ, List.map_append, List.map_cons, List.map_nil, List.length_append,
        List.length_map, List.length_range, List.append_assoc]
      congr 1
      rw [set_set_comm _ hne]
      rfl
    · intro p hp
      rcases List.mem_append.1 hp with q | q
      · have := hkeys p q; omega
      · simp only [List.mem_map, List.mem_range] at q
        obtain ⟨j, hj, rfl⟩ := q
        simp only; omega

/-! ### subscribing the inner observer of source `j` to its (still unsubscribed) subject -/

/-- `observable.inner_subscribe(observer)` (observable.rs) on `Subject::observable` (subject.rs:61-93) -/
theorem subscribe_src (ok : L.Ok) (h : Rel L fresh [] c x out w) {j : Nat} (hj : j < L.k)
    (hfr : fresh j = true) (hlv : c.live.contains j = true) :
    WP ((sjOf j).observable.sub (L.ob j)) w
      (Rel L (fun i => if i = j then false else fresh i) [] c x out) := by
  obtain ⟨o, ho, hst⟩ := h.inner j hj (.inl hlv)
  simp only [InnerSt, hlv, ↓reduceIte, hfr] at hst
  subst hst
  have hO := h.subjO j hj
  simp only [hfr, Bool.not_true, Bool.and_false, Bool.false_eq_true, ↓reduceIte] at hO
  have hS := h.subjS j hj
  simp only [hfr, ↓reduceIte] at hS
  simp only [Obsv.sub]
  refine wp_obsIsSub ho ?_
  simp only [innerFull, Obs.isSub, Option.isSome_some, Bool.and_self, ↓reduceIte]
  refine observable_spec (sj := sjOf j) (serial := 0) (obsl := []) h.held ho rfl (by simp [sjOf]) hS hO
    (by intro p hp; cases hp) (h.slots _ (by simp [sjOf]; omega)) ?_
  have hc : ∀ n : Nat, n ≠ 2 * j → n ≠ 2 * j + 1 →
      (subWorld (sjOf j) w (L.ob j) 0 []).cells[n]? = w.cells[n]? := by
    intro n h1 h2
    simp only [subWorld, sjOf]
    rw [set_get_other _ (Ne.symm h1), set_get_other _ (Ne.symm h2)]
  exact
    { status := h.status, held := h.held, hlOk := h.hlOk
      root := by
        show (w.obs.modify _ _)[0]? = _
        rw [modify_get_other _ _ (by have := ok.obPos j hj; omega)]; exact h.root
      user := h.user, regLt := h.regLt, liveLt := h.liveLt
      subjO := by
        intro i hi
        by_cases e : i = j
        · subst e
          simp only [subWorld, sjOf, ↓reduceIte, hlv]
          rw [set_get_same _ (by rw [set_get_other _ (by omega)]; exact hO)]
          rfl
        · rw [hc _ (by omega) (by omega), h.subjO i hi]; simp [e]
      subjS := by
        intro i hi
        by_cases e : i = j
        · subst e
          simp only [subWorld, sjOf, ↓reduceIte]
          rw [set_get_other _ (by omega), set_get_same _ hS]
          rfl
        · rw [hc _ (by omega) (by omega), h.subjS i hi]; simp [e]
      slots := h.slots
      mapC := by
        obtain ⟨l, hm, hmem⟩ := h.mapC
        exact ⟨l, by rw [hc _ (by omega) (by omega)]; exact hm, hmem⟩
      serC := ⟨by rw [hc _ (by omega) (by omega)]; exact h.serC.1, h.serC.2⟩
      nObs := by show (w.obs.modify _ _).length = _; rw [List.length_modify]; exact h.nObs
      inner := by
        intro i hi hor
        show ∃ o, (w.obs.modify _ _)[L.ob i]? = some o ∧ _
        by_cases e : i = j
        · subst e
          refine ⟨_, modify_get_same _ _ ho, ?_⟩
          simp only [InnerSt, hlv, ↓reduceIte, innerFull]
          rfl
        · have hne : L.ob j ≠ L.ob i := fun q => e (ok.obInj _ _ hj hi q).symm
          rw [modify_get_other _ _ hne]
          simp only [e, ↓reduceIte]
          exact h.inner i hi hor
      xc := by rw [hc _ (by omega) (by omega)]; exact h.xc
      log := h.log }

theorem Rel.fresh_congr (h : Rel L fresh hl c x out w) (fresh' : Nat → Bool)
    (he : ∀ i, i < L.k → fresh' i = fresh i) : Rel L fresh' hl c x out w :=
  { h with
    subjO := by intro i hi; rw [he i hi]; exact h.subjO i hi
    subjS := by intro i hi; rw [he i hi]; exact h.subjS i hi
    inner := by intro i hi hor; rw [he i hi]; exact h.inner i hi hor }

/-- "subscribe all": sources `j, j+1, ..` in order, each to its own inner observer -/
theorem subscribeAll_spec (ok : L.Ok) (hlive : ∀ i, i < L.k → c.live.contains i = true) :
    ∀ (n j : Nat) (w : World), j + n = L.k → Rel L (fun i => decide (j ≤ i)) [] c x out w →
    WP (subscribeAll ((List.range' j n).map fun i => ((sjOf i).observable, L.ob i))) w
      (Rel L (fun _ => false) [] c x out) := by
  intro n
  induction n with
  | zero =>
    intro j w hj h
    exact WP.done (h.fresh_congr _ fun i hi => by simp; omega)
  | succ n ih =>
    intro j w hj h
    simp only [List.range'_succ, List.map_cons, subscribeAll]
    apply WP.seq
    refine (subscribe_src ok h (by omega) (by simp) (hlive j (by omega))).conseq fun w1 h1 => ?_
    refine ih (j + 1) w1 (by omega) (h1.fresh_congr _ fun i _ => ?_)
    by_cases e : i = j
    · subst e; simp
    · simp only [e, ↓reduceIte, decide_eq_decide]; omega

theorem Rel.setUser (h : Rel L fresh hl c x out w) (f : User → User) (hf : ∀ u, (f u).react = u.react) :
    Rel L fresh hl c x out (w.setUser 0 f) :=
  { h with
    user := by
      obtain ⟨u, hu, hr⟩ := h.user
      exact ⟨f u, modify_get_same _ _ hu, by rw [hf, hr]⟩ }

/-- The world right after "prepare subscribers": `k` fresh subjects, the controller, `k` inner observers created
    in serial order `0 .. k-1` (observer of serial `s` is `1 + s`), nobody subscribed to a subject yet.
    `src s` = the source that will be given the observer of serial `s`. -/
theorem rel_prepared (mk : Nat → (Nat → Data → Prog) × (Nat → Nat → Prog) × (Nat → Prog)) (src : Nat → Nat)
    (hsrc : ∀ s, s < L.k → src s < L.k ∧ L.ser (src s) = s)
    (hser : ∀ i, i < L.k → L.ser i < L.k ∧ src (L.ser i) = i)
    (hob : ∀ i, i < L.k → L.ob i = 1 + L.ser i)
    (hcode : ∀ i, i < L.k → codeObs (mk (L.ser i)) (L.ser i) = innerFull L i true)
    (hst : w.status = .ok) (hh : w.held = []) (hobs : w.obs = [rootObs L true])
    (hu : ∃ u, w.users[0]? = some u ∧ u.react = noReact)
    (hce : ∀ i, i < L.k → w.cells[2 * i]? = some .lnil) (hco : ∀ i, i < L.k → w.cells[2 * i + 1]? = some (.int 0))
    (hcs : w.cells[2 * L.k]? = some (.int ((0 : Nat) : Int))) (hcm : w.cells[2 * L.k + 1]? = some (encMap []))
    (hsl : ∀ j, j < 2 * L.k + 1 → w.slots[j]? = some none) (hlog : logOf w 0 = []) :
    Rel L (fun _ => true) [] (Ctl.init L.k) ⟨w.cells[2 * L.k + 2]?.getD .unit, L.k, 1 + L.k⟩ []
      (newObsWorld L.sc mk w [] 0 L.k) := by
  have hc : ∀ n : Nat, n ≠ 2 * L.k → n ≠ 2 * L.k + 1 →
      (newObsWorld L.sc mk w [] 0 L.k).cells[n]? = w.cells[n]? := by
    intro n h1 h2
    simp only [newObsWorld, Lay.sc]
    rw [set_get_other _ (Ne.symm h2), set_get_other _ (Ne.symm h1)]
  exact
    { status := hst, held := hh, hlOk := by intro p hp; cases hp
      root := by simp [newObsWorld, hobs, Ctl.init]
      user := hu
      regLt := by intro i hi; simpa [Ctl.init] using hi
      liveLt := by intro i hi; simpa [Ctl.init] using hi
      subjO := by intro i hi; rw [hc _ (by omega) (by omega), hce i hi]; simp [encMap_nil]
      subjS := by intro i hi; rw [hc _ (by omega) (by omega), hco i hi]; rfl
      slots := hsl
      mapC := by
        refine ⟨(List.range L.k).map src, ?_, ?_⟩
        · simp only [newObsWorld, Lay.sc]
          rw [set_get_same _ (by rw [set_get_other _ (by omega)]; exact hcm)]
          congr 2
          simp only [List.nil_append, List.map_map, hobs, List.length_cons, List.length_nil]
          apply List.map_congr_left
          intro s hs
          have hs' := List.mem_range.1 hs
          simp only [Function.comp_def, hob _ (hsrc s hs').1, (hsrc s hs').2]
          simp
        · intro i
          simp only [List.mem_map, List.mem_range, Ctl.init]
          constructor
          · rintro ⟨s, hs, rfl⟩; exact (hsrc s hs).1
          · intro hi; exact ⟨L.ser i, (hser i hi).1, (hser i hi).2⟩
      nObs := by simp [newObsWorld, hobs]; omega
      serC := by
        refine ⟨?_, ?_⟩
        · simp only [newObsWorld, Lay.sc]
          rw [set_get_other _ (by omega), set_get_same _ hcs]; simp
        · intro i hi; exact (hser i (by simpa [Ctl.init] using hi)).1
      inner := by
        intro i hi _
        refine ⟨innerFull L i true, ?_, by simp [InnerSt, Ctl.init, hi]⟩
        simp only [newObsWorld, hobs, hob i hi]
        rw [List.getElem?_append_right (by simp)]
        simp only [List.length_cons, List.length_nil, Nat.zero_add, Nat.add_sub_cancel_left]
        rw [List.getElem?_map, List.getElem?_range (hser i hi).1]
        exact congrArg some (hcode i hi)
      xc := by rw [hc _ (by omega) (by omega)]
      log := hlog }

/-- the world when "prepare subscribers" starts: subjects, controller cells, the operator's own cells `extra` -/
def W2 (L : Lay) (extra : List Data) (f : Nat → Prog) : World :=
  { obs := [rootObs L true], users := [⟨0, noReact, false, true⟩],
    cells := subjCells L.k ++ [.int 0, .lnil] ++ extra,
    slots := List.replicate (2 * L.k) none ++ [none], obsvs := [f] }

theorem W2_even (L : Lay) (extra : List Data) (f : Nat → Prog) (i : Nat) (hi : i < L.k) :
    (W2 L extra f).cells[2 * i]? = some .lnil := by
  simp only [W2, List.append_assoc]
  rw [List.getElem?_append_left (by rw [subjCells_length]; omega)]
  exact subjCells_even L.k i hi

theorem W2_odd (L : Lay) (extra : List Data) (f : Nat → Prog) (i : Nat) (hi : i < L.k) :
    (W2 L extra f).cells[2 * i + 1]? = some (.int 0) := by
  simp only [W2, List.append_assoc]
  rw [List.getElem?_append_left (by rw [subjCells_length]; omega)]
  exact subjCells_odd L.k i hi

theorem W2_ser (L : Lay) (extra : List Data) (f : Nat → Prog) :
    (W2 L extra f).cells[2 * L.k]? = some (.int ((0 : Nat) : Int)) := by
  simp only [W2, List.append_assoc]
  rw [List.getElem?_append_right (by rw [subjCells_length]; omega), subjCells_length]
  simp

theorem W2_map (L : Lay) (extra : List Data) (f : Nat → Prog) :
    (W2 L extra f).cells[2 * L.k + 1]? = some (encMap []) := by
  simp only [W2, List.append_assoc]
  rw [List.getElem?_append_right (by rw [subjCells_length]; omega), subjCells_length]
  simp [encMap_nil]

theorem W2_extra (L : Lay) (extra : List Data) (f : Nat → Prog) (j : Nat) :
    (W2 L extra f).cells[2 * L.k + 2 + j]? = extra[j]? := by
  simp only [W2]
  rw [List.getElem?_append_right (by simp [subjCells_length])]
  simp [subjCells_length]

theorem W2_slots (L : Lay) (extra : List Data) (f : Nat → Prog) (j : Nat) (hj : j < 2 * L.k + 1) :
    (W2 L extra f).slots[j]? = some none := by
  simp only [W2]
  rcases Nat.lt_or_ge j (2 * L.k) with h | h
  · rw [List.getElem?_append_left (by simpa using h)]; simp [h]
  · have : j = 2 * L.k := by omega
    subst this
    rw [List.getElem?_append_right (by simp)]; simp

theorem rel_W2 (extra : List Data) (f : Nat → Prog)
    (mk : Nat → (Nat → Data → Prog) × (Nat → Nat → Prog) × (Nat → Prog)) (src : Nat → Nat)
    (hsrc : ∀ s, s < L.k → src s < L.k ∧ L.ser (src s) = s)
    (hser : ∀ i, i < L.k → L.ser i < L.k ∧ src (L.ser i) = i)
    (hob : ∀ i, i < L.k → L.ob i = 1 + L.ser i)
    (hcode : ∀ i, i < L.k → codeObs (mk (L.ser i)) (L.ser i) = innerFull L i true) :
    Rel L (fun i => decide (0 ≤ i)) [] (Ctl.init L.k) ⟨extra[0]?.getD .unit, L.k, 1 + L.k⟩ []
      (newObsWorld L.sc mk (W2 L extra f) [] 0 L.k) := by
  have h := rel_prepared (L := L) (w := W2 L extra f) mk src hsrc hser hob hcode rfl rfl rfl ⟨_, rfl, rfl⟩
    (W2_even L extra f) (W2_odd L extra f) (W2_ser L extra f) (W2_map L extra f) (W2_slots L extra f) rfl
  have hx := W2_extra L extra f 0
  rw [Nat.add_zero] at hx
  rw [hx] at h
  exact h.fresh_congr _ fun i _ => by simp

/-! ### `new_observer` for one more source, then subscribing it (concat: `complete_and_next`) -/

theorem contains_append_one (l : List Nat) (j i : Nat) : (l ++ [j]).contains i = (l.contains i || i == j) := by
  rw [Bool.eq_iff_iff]; simp

/-- the world after `new_observer` for the not yet observed source `j` -/
theorem Rel.addObserver (h : Rel L fresh [] c x out w) {j : Nat} (hj : j < L.k) (hfr : fresh j = true)
    (hnl : c.live.contains j = false) (hnr : c.reg.contains j = false) (hs : L.ser j = x.sv) (ho : L.ob j = x.no)
    (l : List Nat) (hm : w.cells[2 * L.k + 1]? = some (encMap (l.map fun i => (L.ser i, L.ob i))))
    (hmem : ∀ i, i ∈ l ↔ i ∈ c.reg) :
    Rel L fresh [] (c.addObserver j) { x with sv := x.sv + 1, no := x.no + 1 } out
      { w with
        cells := (w.cells.set (2 * L.k) (.int ((x.sv + 1 : Nat) : Int))).set (2 * L.k + 1)
          (encMap ((l.map fun i => (L.ser i, L.ob i)) ++ [(x.sv, x.no)]))
        obs := w.obs ++ [innerFull L j true] } := by
  have hc : ∀ n : Nat, n ≠ 2 * L.k → n ≠ 2 * L.k + 1 →
      ((w.cells.set (2 * L.k) (.int ((x.sv + 1 : Nat) : Int))).set (2 * L.k + 1)
          (encMap ((l.map fun i => (L.ser i, L.ob i)) ++ [(x.sv, x.no)])))[n]? = w.cells[n]? := by
    intro n h1 h2
    rw [set_get_other _ (Ne.symm h2), set_get_other _ (Ne.symm h1)]
  have hlive : ∀ i, i ≠ j → (c.addObserver j).live.contains i = c.live.contains i := by
    intro i hi; simp only [Ctl.addObserver, contains_append_one]
    have : (i == j) = false := by rw [beq_eq_false_iff_ne]; exact hi
    rw [this, Bool.or_false]
  exact
    { status := h.status, held := h.held, hlOk := h.hlOk
      root := by
        show (w.obs ++ _)[0]? = _
        rw [List.getElem?_append_left (by
          have := h.root; rcases Nat.lt_or_ge 0 w.obs.length with q | q
          · exact q
          · rw [List.getElem?_eq_none q] at this; cases this)]
        exact h.root
      user := h.user
      regLt := by
        intro i hi; simp only [Ctl.addObserver, List.mem_append, List.mem_singleton] at hi
        rcases hi with q | q
        · exact h.regLt i q
        · rw [q]; exact hj
      liveLt := by
        intro i hi; simp only [Ctl.addObserver, List.mem_append, List.mem_singleton] at hi
        rcases hi with q | q
        · exact h.liveLt i q
        · rw [q]; exact hj
      subjO := by
        intro i hi
        show (List.set _ _ _)[_]? = _
        rw [hc _ (by omega) (by omega), h.subjO i hi]
        by_cases e : i = j
        · subst e; simp [hfr]
        · rw [hlive i e]
      subjS := by
        intro i hi
        show (List.set _ _ _)[_]? = _
        rw [hc _ (by omega) (by omega)]; exact h.subjS i hi
      slots := h.slots
      mapC := by
        refine ⟨l ++ [j], ?_, ?_⟩
        · show (List.set _ _ _)[_]? = _
          rw [set_get_same _ (by rw [set_get_other _ (by omega)]; exact hm)]
          simp [hs, ho]
        · intro i; simp only [Ctl.addObserver, List.mem_append, hmem i]
      serC := by
        refine ⟨?_, ?_⟩
        · show (List.set _ _ _)[_]? = _
          rw [set_get_other _ (by omega), set_get_same _ h.serC.1]
        · intro i hi
          simp only [Ctl.addObserver, List.mem_append, List.mem_singleton] at hi
          rcases hi with q | q
          · have := h.serC.2 i q; show _ < x.sv + 1; omega
          · rw [q, hs]; show _ < x.sv + 1; omega
      nObs := by show (w.obs ++ _).length = x.no + 1; rw [List.length_append, h.nObs]; rfl
      inner := by
        intro i hi hor
        show ∃ o, (w.obs ++ _)[L.ob i]? = some o ∧ _
        by_cases e : i = j
        · subst e
          refine ⟨innerFull L i true, ?_, ?_⟩
          · rw [ho, ← h.nObs]; simp
          · simp [InnerSt, Ctl.addObserver, hfr]
        · rw [hlive i e]
          have hor' : c.live.contains i = true ∨ c.reg.contains i = true := by
            rcases hor with q | q
            · left; rw [← hlive i e]; exact q
            · right
              simp only [Ctl.addObserver, contains_append_one] at q
              have : (i == j) = false := by rw [beq_eq_false_iff_ne]; exact e
              rw [this, Bool.or_false] at q; exact q
          obtain ⟨o, ho', hst⟩ := h.inner i hi hor'
          refine ⟨o, ?_, hst⟩
          rw [List.getElem?_append_left (by
            rcases Nat.lt_or_ge (L.ob i) w.obs.length with q | q
            · exact q
            · rw [List.getElem?_eq_none q] at ho'; cases ho')]
          exact ho'
      xc := by
        show (List.set _ _ _)[_]?.getD _ = _
        rw [hc _ (by omega) (by omega)]; exact h.xc
      log := h.log }

/-- `new_observer(..)` for source `j` (stream_controller.rs:41-82) followed by `inner_subscribe` to subject `j` -/
theorem newObserver_sub (ok : L.Ok) (h : Rel L fresh [] c x out w) (ha : c.alive = true) {j : Nat} (hj : j < L.k)
    (hfr : fresh j = true)
    (hnl : c.live.contains j = false) (hnr : c.reg.contains j = false) (hs : L.ser j = x.sv) (ho : L.ob j = x.no)
    (n : Nat → Data → Prog) (e : Nat → Nat → Prog) (cc : Nat → Prog)
    (hcode : innerFull L j true =
      ⟨some (.code (n x.sv)), some (.code (e x.sv)), some (.code (cc x.sv)), none⟩) :
    WP (L.sc.newObserver n e cc fun ob => (sjOf j).observable.sub ob) w
      (Rel L (fun i => if i = j then false else fresh i) [] (c.addObserver j)
        { x with sv := x.sv + 1, no := x.no + 1 } out) := by
  obtain ⟨l, hm, hmem⟩ := h.mapC
  have hA := h.addObserver hj hfr hnl hnr hs ho l hm hmem
  simp only [Sctl.newObserver, Lay.sc]
  refine wp_cellRead_val h.held h.serC.1 ?_
  simp only [toNat_int]
  refine wp_cellWrite h.held (wp_obsNew (wp_cellRead_val (v := encMap (l.map fun i => (L.ser i, L.ob i))) h.held
    (by show (w.cells.set _ _)[_]? = _; rw [set_get_other _ (by omega)]; exact hm) ?_))
  have hcast : ((x.sv : Int) + 1) = ((x.sv + 1 : Nat) : Int) := by omega
  simp only [hcast]
  rw [amapInsert_encMap]
  · refine wp_cellWrite h.held ?_
    have e2 : ∀ (W : World) p Q, W = { w with
        cells := (w.cells.set (2 * L.k) (.int ((x.sv + 1 : Nat) : Int))).set (2 * L.k + 1)
          (encMap ((l.map fun i => (L.ser i, L.ob i)) ++ [(x.sv, x.no)]))
        obs := w.obs ++ [innerFull L j true] } → WP p { w with
        cells := (w.cells.set (2 * L.k) (.int ((x.sv + 1 : Nat) : Int))).set (2 * L.k + 1)
          (encMap ((l.map fun i => (L.ser i, L.ob i)) ++ [(x.sv, x.no)]))
        obs := w.obs ++ [innerFull L j true] } Q → WP p W Q := fun W p Q q hq => q ▸ hq
    refine e2 _ _ _ ?_ ?_
    · rw [hcode, h.nObs]
    · have hroot := hA.root
      rw [show (c.addObserver j).alive = true from ha] at hroot
      refine wp_obsIsSub hroot ?_
      simp only [rootObs, Obs.isSub, Option.isSome_some, Bool.and_self, ↓reduceIte]
      rw [h.nObs]
      have hsub := subscribe_src ok hA hj hfr (by simp [Ctl.addObserver])
      rw [ho] at hsub
      exact hsub
  · intro p hp
    simp only [List.mem_map] at hp
    obtain ⟨i, hi, rfl⟩ := hp
    have := h.serC.2 i ((hmem i).1 hi)
    simp only; omega

/-- the controller has just been created: no inner observer yet (concat, take_until) -/
theorem rel_W2_empty (L : Lay) (extra : List Data) (f : Nat → Prog) :
    Rel L (fun _ => true) [] ⟨true, [], []⟩ ⟨extra[0]?.getD .unit, 0, 1⟩ [] (W2 L extra f) where
  status := rfl
  held := rfl
  hlOk := by intro p hp; cases hp
  root := rfl
  user := ⟨_, rfl, rfl⟩
  regLt := by intro i hi; cases hi
  liveLt := by intro i hi; cases hi
  subjO := by intro i hi; rw [W2_even L extra f i hi]; rfl
  subjS := by intro i hi; rw [W2_odd L extra f i hi]; rfl
  slots := W2_slots L extra f
  mapC := ⟨[], W2_map L extra f, fun _ => Iff.rfl⟩
  serC := ⟨W2_ser L extra f, by intro i hi; cases hi⟩
  nObs := rfl
  inner := by intro i _ hor; simp at hor
  xc := by have := W2_extra L extra f 0; rw [Nat.add_zero] at this; rw [this]
  log := rfl

/-- the subjects `subjsNew k` allocates in the empty world -/
def sjs (k : Nat) : List Subj := (List.range' 0 k).map sjOf

theorem sjs_get (k i : Nat) : (sjs k)[i]? = if i < k then some (sjOf i) else none := by
  simp only [sjs, List.getElem?_map]
  split
  · rename_i h; rw [List.getElem?_range' (by omega)]; simp
  · rename_i h; rw [List.getElem?_eq_none (by simp; omega)]; rfl

theorem callOf_lt {k i : Nat} (hi : i < k) (ev : Ev) : callOf (sjs k) (i, ev) = evCall (sjOf i) ev := by
  simp [callOf, sjs_get, hi]

theorem callOf_ge {k i : Nat} (hi : k ≤ i) (ev : Ev) : callOf (sjs k) (i, ev) = .done := by
  simp [callOf, sjs_get, Nat.not_lt.2 hi]

/-- number of observers registered in subject `i` (the harness' `O=` column for that subject) -/
def regCount (w : World) (i : Nat) : Nat := amapLen (w.cells[2 * i]?.getD .lnil)

theorem Rel.regCount (h : Rel L (fun _ => false) hl c x out w) {i : Nat} (hi : i < L.k) :
    regCount w i = if c.live.contains i then 1 else 0 := by
  simp only [CRef.regCount, h.subjO i hi, Option.getD_some, amapLen_encMap]
  cases c.live.contains i <;> rfl

/-- what the differential test compares: status, guards, the subscriber's log, the subjects' observer counts -/
structure Agrees (k : Nat) (w : World) (live : List Nat) (out : List Ev) : Prop where
  status : w.status = .ok
  held : w.held = []
  log : logOf w 0 = out
  counts : ∀ i, i < k → regCount w i = if live.contains i then 1 else 0

theorem Rel.agrees (h : Rel L (fun _ => false) [] c x out w) : Agrees L.k w c.live out :=
  ⟨h.status, h.held, h.log, fun _ hi => h.regCount hi⟩

end Rx.CRef
