import RxVerif.Theorems.C13RefReplayCalls
/-
C13-REF, closing file: the `replay` connectable's C13 statements on model A, non-vacuity, what is not done.

  publish_refines     (C13RefPublishMain)  ∃ w, FinalP cs w  ∧ AgreesC w (ConnM.run .publish  .hot cs)
  refCount_refines    (C13RefCountCalls)   ∃ w, FinalC cs w  ∧ AgreesC w (ConnM.run .refCount .hot cs)
  replayConn_refines  (C13RefReplayCalls)  ∃ w, FinalRp cs w ∧ AgreesC w (ConnM.run .replay   .hot cs)
each for every `wfC 0 cs` call sequence (subscribe ids numbered in call order), recording observers attached
directly, hot source = a plain `Subject` driven by the `srcNext / srcError / srcComplete` calls.
-/
namespace Rx.CRef
open Rx.Sim Rx.SubjM Rx.Ref Rx.RefR

theorem finalRp_agrees {cs w} (hwf : wfC 0 cs = true) (h : FinalRp cs w) : AgreesC w (ConnM.run .replay .hot cs) := by
  obtain ⟨w', hf, ha⟩ := replayConn_refines cs hwf
  rw [h.unique hf]; exact ha

/-- **`at_most_one_source_subscription` / `ref_count_first_last` on model A** (replay) -/
theorem machine_replay_first_last (cs : List ConnM.Call) (hwf : wfC 0 cs = true) {w : World}
    (h : FinalRp cs w) :
    srcSubsOf w = (if cs.any ConnM.isSubscribe then 1 else 0) ∧ srcSubsOf w ≤ 1 ∧
    (srcLiveOf w = true → ∃ o, w.isSubOf o = true) := by
  have a := finalRp_agrees hwf h
  have r := ConnM.ref_count_first_last (k := .replay) rfl .hot cs
  refine ⟨by rw [a.srcSubs]; exact r.1, by rw [a.srcSubs]; exact ConnM.at_most_one_source_subscription rfl .hot cs, ?_⟩
  intro hl
  rw [a.srcLive] at hl
  obtain ⟨o, _, ho⟩ := r.2 hl
  exact ⟨o, by rw [a.alive]; exact ho⟩

/-- **`replay_complete_history` on model A**: every user still subscribed has recorded exactly the items the
    source observers accepted, in order; a user that was ended recorded all of them before its terminal; nobody
    has recorded anything else. -/
theorem machine_replay_complete_history (cs : List ConnM.Call) (hwf : wfC 0 cs = true) {w : World}
    (h : FinalRp cs w) :
    (∀ o, w.isSubOf o = true → logOf w o = (ConnM.run .replay .hot cs).emitted.map .next) ∧
    (∀ o, SubjM.nonTerminal (logOf w o) = false →
      ConnM.itemsOf (logOf w o) = (ConnM.run .replay .hot cs).emitted) ∧
    (∀ o, ConnM.itemsOf (logOf w o) <+: (ConnM.run .replay .hot cs).emitted) := by
  have a := finalRp_agrees hwf h
  have r := ConnM.replay_complete_history .hot cs
  refine ⟨fun o ho => ?_, fun o ho => ?_, fun o => ?_⟩
  · rw [a.logs]; exact r.2.1 o (by rw [← a.alive]; exact ho)
  · rw [a.logs] at ho ⊢; exact r.2.2.1 o ho
  · rw [a.logs]; exact r.2.2.2 o

/-! ### non-vacuity -/

def demoRp : List ConnM.Call :=
  [.srcNext (.int 9), .subscribe 0, .srcNext (.int 1), .subscribe 1, .srcNext (.int 2), .unsubscribe 0,
   .srcComplete, .subscribe 2, .unsubscribe 1, .srcNext (.int 4)]

example : wfC 0 demoRp = true := by decide
example : (run 6000 [progRp demoRp] {}).status = .ok := by decide +kernel
/-- late subscribers get the history (user 1: item 1, user 2: items 1,2 and the stored `complete`) -/
example : (List.range 3).map (logOf (run 6000 [progRp demoRp] {})) =
    [[.next (.int 1), .next (.int 2)], [.next (.int 1), .next (.int 2), .complete],
     [.next (.int 1), .next (.int 2), .complete]] := by decide +kernel
example : (List.range 3).map (ConnM.logOf (ConnM.run .replay .hot demoRp)) =
    [[.next (.int 1), .next (.int 2)], [.next (.int 1), .next (.int 2), .complete],
     [.next (.int 1), .next (.int 2), .complete]] := by decide +kernel
example : srcSubsOf (run 6000 [progRp demoRp] {}) = 1 ∧ ConnM.sourceSubscriptions (ConnM.run .replay .hot demoRp) = 1 ∧
    srcLiveOf (run 6000 [progRp (demoRp.take 6)] {}) = true ∧
    ConnM.sourceLive (ConnM.run .replay .hot (demoRp.take 6)) = true ∧
    regCountOf (run 6000 [progRp (demoRp.take 6)] {}) = 1 ∧
    (registered (ConnM.run .replay .hot (demoRp.take 6)).sub).length = 1 := by decide +kernel
example : ∃ w, FinalRp demoRp w := let ⟨w, h, _⟩ := replayConn_refines demoRp (by decide); ⟨w, h⟩

/-
The COLD synchronous source (`ConnM.Src.cold script`: the script is emitted inside `source.subscribe`, i.e. inside
`connect()` for publish and inside the first subscriber's `on_subscribe` hook for ref_count / replay) is done in
C13RefCold*.lean: `publish_refines_cold`, `refCount_refines_cold`, `replayConn_refines_cold` (summary in
C13RefColdAll.lean).  For that, this development was made independent of the source where it could be:
`Touch` also says that the probe records of the trace are untouched; which source sits behind observable 0 is a field
of `ConnsPart` (`obsv`) instead of the `Extras*`; the users' side of the replay wrappers is in `URr.patchUser /
storeUser / registerUser / held_swap / ready`; and `subscribe` / `unsubscribe` of a test user on the replay connectable
are proved once for any relation family `RFam` (`unsubscribeG_spec`, `subscribeFrontG`, `subscribeTailG_spec`), the
hot relation `RelRp` being the instance `hotFam`.
-/

#print axioms replayConn_refines
#print axioms machine_replay_first_last
#print axioms machine_replay_complete_history

end Rx.CRef
