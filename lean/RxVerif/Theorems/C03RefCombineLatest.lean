import RxVerif.Theorems.C03RefZip
/-
C03-REF, combine_latest (after the repair of F9): model A's `oCombineLatest` (Machine/Lib.lean, transliterating
src/operators/combine_latest.rs) over `k` plain hot subjects REFINES the pure history machine `Comb.combineLatest`
(with `combine_f` = the left fold of the case language's binary function).
-/
namespace Rx.CRef.CombineLatest
open Rx.Sim Rx.Ref Rx.Comb Rx.CRef

def scOf (k : Nat) : Sctl := ⟨0, 2 * k, 2 * k + 1, 2 * k⟩

/-- the `latest` vector as stored in cell `2k+2` -/
def encL (l : List (Option Data)) : Data := Data.ofList (l.map Data.optEnc)

theorem encL_ne (l : List (Option Data)) : encL l ≠ .unit := by
  cases l <;> simp [encL, Data.ofList]

/-- combine_latest.rs: source `i` gets serial `i` = observer `1+i` (`pop_front`), as in zip -/
def lay (f : Fn2) (k : Nat) : Lay where
  k := k
  ser i := i
  ob i := 1 + i
  hn i x := clRegister f (scOf k) (2 * k + 2) i x
  he _ e := (scOf k).sinkError e
  hc i := (scOf k).sinkComplete i

theorem lay_ok (f : Fn2) (k : Nat) : (lay f k).Ok where
  obPos := by intro i hi; simp only [lay] at *; omega
  obInj := by intro i j hi hj h; simp only [lay] at *; omega
  serInj := by intro i j hi hj h; simp only [lay] at *; exact h

theorem optDec_optEnc (o : Option Data) : Data.optDec (Data.optEnc o) = o := by
  cases o <;> rfl

theorem set_enc (l : List (Option Data)) (i : Nat) (d : Data) :
    (l.map Data.optEnc).set i (Data.optEnc (some d)) = (l.set i (some d)).map Data.optEnc := by
  apply List.ext_getElem?
  intro j
  simp only [List.getElem?_set, List.getElem?_map, List.length_map]
  by_cases e : i = j
  · subst e; by_cases h : i < l.length <;> simp [h]
  · simp [e]

abbrev RelL (f : Fn2) (k : Nat) (c : Ctl) (l : List (Option Data)) (out : List Ev) (w : World) : Prop :=
  Rel (lay f k) (fun _ => false) [] c ⟨encL l, k, 1 + k⟩ out w

structure R (f : Fn2) (k : Nat) (s : combineLatest.State) (out : List Ev) (w : World) : Prop where
  rel : RelL f k s.ctl s.latest out w

/-- `register(&id, item)` (combine_latest.rs): the store and the snapshot happen under the write guard of the
    `latest` cell, the emission after its release = the `.next` case of `Comb.combineLatest.step` -/
theorem register_spec {f : Fn2} {k : Nat} {c : Ctl} {l : List (Option Data)} {out : List Ev} {w : World}
    (h : RelL f k c l out w) (i : Nat) (d : Data) :
    WP (clRegister f (scOf k) (2 * k + 2) i d) w
      (fun w' =>
        if (l.set i (some d)).all Option.isSome then
          RelL f k (c.sinkNext (combineLatest.foldFn2 f ((l.set i (some d)).map fun x => x.getD .unit))).1
            (l.set i (some d))
            (out ++ (c.sinkNext (combineLatest.foldFn2 f ((l.set i (some d)).map fun x => x.getD .unit))).2) w'
        else RelL f k c (l.set i (some d)) out w') := by
  have ok := lay_ok f k
  simp only [clRegister]
  refine wp_lockAcq (noconf_of_held_nil h.held _ _) ?_
  refine wp_cellRead_g ?_
  have hx : ({ w with held := (LockId.cell (2 * k + 2), true) :: w.held } : World).cells[2 * k + 2]?.getD .unit =
      encL l := h.xc
  rw [hx]
  simp only [encL, Data.toList_ofList, set_enc]
  refine wp_cellWrite_g (wp_lockRel ?_)
  rw [release_head _ _ _ w.held rfl]
  have h2 : RelL f k c (l.set i (some d)) out
      { w with cells := w.cells.set (2 * k + 2) (encL (l.set i (some d))) } := h.setX (encL_ne _) _
  have hall : ((l.set i (some d)).map Data.optEnc).all (fun o => (Data.optDec o).isSome) =
      (l.set i (some d)).all Option.isSome := by
    rw [List.all_map]; congr 1; funext o; simp only [Function.comp, optDec_optEnc]
  have hvals : ((l.set i (some d)).map Data.optEnc).map (fun o => (Data.optDec o).getD .unit) =
      (l.set i (some d)).map fun x => x.getD .unit := by
    rw [List.map_map]; congr 1; funext o; simp only [Function.comp, optDec_optEnc]
  rw [hall, hvals]
  have e2 : ∀ (W : World) p Q, W = { w with cells := w.cells.set (2 * k + 2) (encL (l.set i (some d))) } →
      WP p { w with cells := w.cells.set (2 * k + 2) (encL (l.set i (some d))) } Q → WP p W Q :=
    fun W p Q q hq => q ▸ hq
  refine e2 _ _ _ (by rw [h.held]; rfl) ?_
  cases hc : (l.set i (some d)).all Option.isSome with
  | true =>
    simp only [↓reduceIte]
    exact sinkNext_spec ok h2 _
  | false =>
    simp only [Bool.false_eq_true, ↓reduceIte]
    exact WP.done h2

/-- one history entry = `Comb.combineLatest.step` -/
theorem step_spec (f : Fn2) (k : Nat) (s : combineLatest.State) (out : List Ev) (w : World) (p : Nat × Ev)
    (h : R f k s out w) :
    WP (callOf (sjs k) p) w
      (R f k (combineLatest.step (combineLatest.foldFn2 f) s p).1
        (out ++ (combineLatest.step (combineLatest.foldFn2 f) s p).2)) := by
  obtain ⟨i, ev⟩ := p
  obtain ⟨c, l⟩ := s
  have ok := lay_ok f k
  have hrel : RelL f k c l out w := h.rel
  rcases Nat.lt_or_ge i k with hi | hi
  · rw [callOf_lt hi]
    cases hlv : c.live.contains i with
    | false =>
      simp only [combineLatest.step, Ctl.isLive, hlv, Bool.false_eq_true, ↓reduceIte, List.append_nil]
      exact (src_dead hrel hi (by rw [hlv]; rfl) ev).conseq fun w1 h1 => ⟨h1⟩
    | true =>
      simp only [combineLatest.step, Ctl.isLive, hlv, ↓reduceIte]
      refine src_live ok hrel hi hlv rfl ev fun w1 h1 => ?_
      cases ev with
      | next d =>
        refine (register_spec (f := f) h1 i d).conseq fun w2 h2 => ?_
        cases hc : (l.set i (some d)).all Option.isSome with
        | true => simp only [hc, ↓reduceIte] at h2 ⊢; exact ⟨h2⟩
        | false => simp only [hc, Bool.false_eq_true, ↓reduceIte, List.append_nil] at h2 ⊢; exact ⟨h2⟩
      | error e => exact (sinkError_spec ok h1 e).conseq fun w2 h2 => ⟨h2⟩
      | complete => exact (sinkComplete_spec ok h1 hi).conseq fun w2 h2 => ⟨h2⟩
  · rw [callOf_ge hi]
    have hlv : c.live.contains i = false := by
      cases q : c.live.contains i with
      | false => rfl
      | true => have := hrel.liveLt i (by simpa using q); simp only [lay] at this; omega
    simp only [combineLatest.step, Ctl.isLive, hlv, Bool.false_eq_true, ↓reduceIte, List.append_nil]
    exact WP.done h

theorem drive_cl (f : Fn2) (k : Nat) (H : History) (s : combineLatest.State) (out : List Ev) (w : World)
    (h : R f k s out w) :
    WP (drive (sjs k) H) w (R f k (finalFrom (combineLatest.step (combineLatest.foldFn2 f)) s H)
      (out ++ runFrom (combineLatest.step (combineLatest.foldFn2 f)) s H)) :=
  drive_spec (combineLatest.step (combineLatest.foldFn2 f)) (R f k) (callOf (sjs k)) (step_spec f k) H s out w h

/-! ### the program -/

/-- `n+1` plain subjects; test user 0 subscribes to `s0.combine_latest(&[s1, .., sn], fold f)`; then the history -/
def prog (f : Fn2) (n : Nat) (H : History) : Prog :=
  subjsNew (n + 1) fun sjs =>
    .obsvNew (oCombineLatest f (sjs.headD default).observable (sjs.tail.map Subj.observable)) fun id =>
    .userSub id noReact (drive sjs H)

def mk (f : Fn2) (k : Nat) : Nat → (Nat → Data → Prog) × (Nat → Nat → Prog) × (Nat → Prog) :=
  fun id => (fun _ x => clRegister f (scOf k) (2 * k + 2) id x, fun _ e => (scOf k).sinkError e,
             fun serial => (scOf k).sinkComplete serial)

theorem encL_init (k : Nat) :
    Data.ofList (List.replicate k (Data.optEnc none)) = encL (List.replicate k none) := by
  simp [encL, List.map_replicate]

theorem rel_W2 (f : Fn2) (k : Nat) (g : Nat → Prog) :
    Rel (lay f k) (fun i => decide (0 ≤ i)) [] (Ctl.init k) ⟨encL (List.replicate k none), k, 1 + k⟩ []
      (newObsWorld (scOf k) (mk f k) (W2 (lay f k) [encL (List.replicate k none)] g) [] 0 k) :=
  CRef.rel_W2 (L := lay f k) [encL (List.replicate k none)] g (mk f k) (fun s => s)
    (by intro s hs; exact ⟨hs, rfl⟩) (by intro i hi; exact ⟨hi, rfl⟩) (by intro i hi; rfl) (by intro i hi; rfl)

theorem prog_spec (f : Fn2) (n : Nat) (H : History) :
    WP (prog f n H) {}
      (R f (n + 1) (finalFrom (combineLatest.step (combineLatest.foldFn2 f)) (combineLatest.init (n + 1)) H)
        (combineLatest.runFn2 f (n + 1) H)) := by
  have ok := lay_ok f (n + 1)
  unfold prog
  refine wp_subjsNew (n + 1) 0 {} _ _ rfl rfl ?_
  refine wp_obsvNew ?_
  refine wp_userSub
    (f := oCombineLatest f ((sjs (n + 1)).headD default).observable ((sjs (n + 1)).tail.map Subj.observable)) rfl ?_
  simp only [oCombineLatest, sctlNew]
  refine wp_cellNew (wp_cellNew (wp_slotNew (wp_obsSetOnUnsub rfl (wp_cellNew ?_))))
  have hlen : ((sjs (n + 1)).tail.map Subj.observable).length + 1 = n + 1 := by simp [sjs]
  rw [hlen, encL_init]
  simp only [World.setObs, List.nil_append, List.length_nil, List.length_append, subjCells_length,
    List.length_replicate, List.length_cons, Nat.zero_add]
  have e2 : ∀ (W : World) p Q, W = W2 (lay f (n + 1)) [encL (List.replicate (n + 1) none)]
      (oCombineLatest f ((sjs (n + 1)).headD default).observable ((sjs (n + 1)).tail.map Subj.observable)) →
      WP p (W2 (lay f (n + 1)) [encL (List.replicate (n + 1) none)]
        (oCombineLatest f ((sjs (n + 1)).headD default).observable ((sjs (n + 1)).tail.map Subj.observable))) Q →
      WP p W Q := fun W p Q q hq => q ▸ hq
  refine e2 _ _ _ ?_ ?_
  · simp [W2, rootObs, Lay.sc, lay, scOf, sjs]
  refine wp_newObservers (scOf (n + 1)) (mk f (n + 1)) (n + 1) _ _ [] 0 _ rfl (by simp [scOf])
    (W2_ser (lay f (n + 1)) _ _) (W2_map (lay f (n + 1)) _ _) (by intro p hp; cases hp) ⟨_, rfl, rfl⟩ ?_
  have hol : (W2 (lay f (n + 1)) [encL (List.replicate (n + 1) none)]
      (oCombineLatest f ((sjs (n + 1)).headD default).observable
        ((sjs (n + 1)).tail.map Subj.observable))).obs.length = 1 := rfl
  rw [hol, Zip.zip_eq]
  refine (subscribeAll_spec ok (L := lay f (n + 1)) (c := Ctl.init (n + 1))
    (by intro i hi; simpa [Ctl.init, lay] using hi)
    (n + 1) 0 _ (by simp [lay]) (rel_W2 f _ _)).conseq fun w1 h1 => ?_
  refine wp_userReady ?_
  have h2 := h1.setUser (fun u => { u with ready := true }) (fun _ => rfl)
  have h3 := drive_cl f (n + 1) H (combineLatest.init (n + 1)) [] _ ⟨h2⟩
  simpa [combineLatest.runFn2, combineLatest.run, sjs] using h3

/-- **C03-REF, combine_latest.**  For EVERY history the combine_latest program ends, for all sufficient fuel, with
    `status = ok`, no guard held, the user's log equal to the output of `Comb.combineLatest` (with the folded binary
    function), and subject `i` holding one observer iff `i` is in the machine's final `live` set. -/
theorem combine_latest_refines (f : Fn2) (n : Nat) (H : History) :
    ∃ n0, ∀ fuel, n0 ≤ fuel →
      Agrees (n + 1) (run fuel [prog f n H] {})
        (finalFrom (combineLatest.step (combineLatest.foldFn2 f)) (combineLatest.init (n + 1)) H).ctl.live
        (combineLatest.runFn2 f (n + 1) H) := by
  obtain ⟨n0, w, hrel, hrun⟩ := WP.run_top (prog_spec f n H)
  exact ⟨n0, fun fuel hf => by rw [hrun fuel hf]; exact hrel.rel.agrees⟩

/-! ### the list specification transported to model A: `combine_f` only changes the payload -/

theorem step_payload (g : List Data → Data) (s : combineLatest.State) (p : Nat × Ev) :
    (combineLatest.step g s p).1 = (combineLatest.step Data.ofList s p).1 ∧
      (combineLatest.step g s p).2 = (combineLatest.step Data.ofList s p).2.map (mapEv g) := by
  obtain ⟨i, ev⟩ := p
  simp only [combineLatest.step]
  split
  · cases ev with
    | next d =>
      simp only []
      split
      · simp only [Ctl.sinkNext]
        split <;> simp [mapEv]
      · simp
    | error e =>
      simp only [Ctl.sinkError]
      split <;> simp [mapEv]
    | complete =>
      simp only [Ctl.sinkComplete]
      split
      · split <;> simp [mapEv]
      · simp
  · simp

theorem run_payload (g : List Data → Data) (s : combineLatest.State) (H : History) :
    runFrom (combineLatest.step g) s H = (runFrom (combineLatest.step Data.ofList) s H).map (mapEv g) := by
  induction H generalizing s with
  | nil => rfl
  | cons p H ih =>
    simp only [runFrom, List.map_append, (step_payload g s p).1, (step_payload g s p).2, ih]

/-- the C03 list specification transported to model A: the tuples of `combineLatestSpec`, folded by `f` -/
theorem combine_latest_machine_spec (f : Fn2) (n : Nat) (H : History) (hwf : WellFormed (n + 1) H) :
    ∃ n0, ∀ fuel, n0 ≤ fuel → (run fuel [prog f n H] {}).status = .ok ∧
      logOf (run fuel [prog f n H] {}) 0 =
        (combineLatestSpec (n + 1) H).map (mapEv (combineLatest.foldFn2 f)) := by
  obtain ⟨n0, h⟩ := combine_latest_refines f n H
  refine ⟨n0, fun fuel hf => ⟨(h fuel hf).status, ?_⟩⟩
  rw [(h fuel hf).log, ← combine_latest_spec (n + 1) (by omega) H hwf]
  exact run_payload _ _ H

/-! non-vacuity: a1 a2 b10 b20 a3, a completes, b30, b completes with `f = add` -/
def demo : History :=
  [(0, .next (.int 1)), (0, .next (.int 2)), (1, .next (.int 10)), (1, .next (.int 20)), (0, .next (.int 3)),
   (0, .complete), (1, .next (.int 30)), (1, .complete), (1, .next (.int 40))]

example : (run 4000 [prog .add 1 demo] {}).status = .ok := by decide +kernel
example : logOf (run 4000 [prog .add 1 demo] {}) 0 =
    [.next (.int 12), .next (.int 22), .next (.int 23), .next (.int 33), .complete] := by decide +kernel
example : combineLatest.runFn2 .add 2 demo =
    [.next (.int 12), .next (.int 22), .next (.int 23), .next (.int 33), .complete] := by decide +kernel
example : (List.range 2).map (regCount (run 4000 [prog .add 1 (demo.take 6)] {})) = [0, 1] ∧
    (finalFrom (combineLatest.step (combineLatest.foldFn2 .add)) (combineLatest.init 2) (demo.take 6)).ctl.live = [1] := by
  decide +kernel
example : WellFormed 2 (demo.take 8) := by decide
example : logOf (run 4000 [prog .add 1 (demo.take 8)] {}) 0 =
    (combineLatestSpec 2 (demo.take 8)).map (mapEv (combineLatest.foldFn2 .add)) := by decide +kernel

#print axioms combine_latest_refines
#print axioms combine_latest_machine_spec

end Rx.CRef.CombineLatest
