import RxVerif.Theorems.C03RefSeqEqPath
/-
C03-REF, sequence_equal, part 9: `Subject::complete()` on a live chain — map_i completes, concat_i subscribes
`just(None)` (a NEW observer), the end marker travels to zip, concat_i completes, zip's observer `i` completes.
-/
namespace Rx.SeqRef
open Rx.Sim Rx.Ref Rx.Comb Rx.CRef

variable {k : Nat} {σ : GS} {hl : List (LockId × Bool)} {w : World}

theorem getElem?_lt {α} {l : List α} {n : Nat} {x : α} (h : l[n]? = some x) : n < l.length := by
  rcases Nat.lt_or_ge n l.length with q | q
  · exact q
  · rw [List.getElem?_eq_none q] at h; cases h

/-- a chain is not affected by a new observer -/
theorem ChainAt.appendObs {j : Nat} {b : CB} (h : ChainAt k j b w) (o : Obs) :
    ChainAt k j b { w with obs := w.obs ++ [o] } :=
  h.congr (fun _ _ => rfl)
    (fun x hx => by
      show (w.obs ++ [o])[x]? = _
      have hlt : x < w.obs.length := by
        simp only [chainObs, lowObs, List.mem_cons] at hx
        rcases hx with q | q | q | q
        · rw [q]; exact getElem?_lt h.oZ
        · rw [q]; exact getElem?_lt h.oC
        · rw [q]; exact getElem?_lt h.oM
        · cases hj : b.jx with
          | none => simp [jl, hj] at q
          | some p =>
            simp only [jl, hj, List.map_cons, List.map_nil, List.mem_singleton] at q
            rw [q]; exact getElem?_lt (h.oJ p hj).2
      rw [List.getElem?_append_left hlt]) rfl

theorem GRel.appendObs (h : GRel k σ hl w) (o : Obs) : GRel k σ hl { w with obs := w.obs ++ [o] } :=
  { h with
    root := by show (w.obs ++ [o])[0]? = _; rw [List.getElem?_append_left (getElem?_lt h.root)]; exact h.root
    o1 := by show (w.obs ++ [o])[1]? = _; rw [List.getElem?_append_left (getElem?_lt h.o1)]; exact h.o1
    chains := fun j hj => (h.chains j hj).appendObs o }

/-- the `just(None)` observers all exist already -/
theorem GRel.jx_lt (h : GRel k σ hl w) {j : Nat} (hj : j < k) {p : Nat × Bool} (hp : (σ.ch j).jx = some p) :
    p.1 < w.obs.length := getElem?_lt ((h.chains j hj).oJ p hp).2

theorem GRel.obsLen (h : GRel k σ hl w) (hk : 0 < k) : 3 * k + 2 ≤ w.obs.length := by
  have := getElem?_lt (h.chains (k - 1) (by omega)).oM
  simp only [Mo] at this; omega

theorem cells_ne2 {j : Nat} : cq k j ≠ 2 * j ∧ cq k j ≠ 2 * j + 1 ∧ cq k j ≠ cser k j ∧ cq k j ≠ cmap k j ∧
    cq k j ≠ mmap k j ∧ cq k j ≠ mst k j ∧ cser k j ≠ 2 * j ∧ cser k j ≠ 2 * j + 1 ∧ cser k j ≠ cmap k j ∧
    cser k j ≠ mmap k j ∧ cser k j ≠ mst k j ∧ cmap k j ≠ 2 * j ∧ cmap k j ≠ 2 * j + 1 ∧ cmap k j ≠ mmap k j ∧
    cmap k j ≠ mst k j := by
  simp only [cq, cser, cmap, mmap, mst]; omega

theorem ChainAt.setQ {j : Nat} {b : CB} (h : ChainAt k j b w) (v : Nat) :
    ChainAt k j { b with q := v } { w with cells := w.cells.set (cq k j) (.int (v : Int)) } := by
  have n := @cells_ne2 k j
  exact
  { h with
    subjO := by show (w.cells.set _ _)[_]? = _; rw [set_get_other _ n.1]; exact h.subjO
    subjS := by show (w.cells.set _ _)[_]? = _; rw [set_get_other _ n.2.1]; exact h.subjS
    cS := by show (w.cells.set _ _)[_]? = _; rw [set_get_other _ n.2.2.1]; exact h.cS
    cM := by show (w.cells.set _ _)[_]? = _; rw [set_get_other _ n.2.2.2.1]; exact h.cM
    cQ := by show (w.cells.set _ _)[_]? = _; exact set_get_same _ h.cQ
    mM := by show (w.cells.set _ _)[_]? = _; rw [set_get_other _ n.2.2.2.2.1]; exact h.mM
    mT := by show (w.cells.set _ _)[_]? = _; rw [set_get_other _ n.2.2.2.2.2.1]; exact h.mT }

theorem ChainAt.setCs {j : Nat} {b : CB} (h : ChainAt k j b w) (v : Nat) :
    ChainAt k j { b with cs := v } { w with cells := w.cells.set (cser k j) (.int (v : Int)) } := by
  have n := @cells_ne2 k j
  exact
  { h with
    subjO := by show (w.cells.set _ _)[_]? = _; rw [set_get_other _ n.2.2.2.2.2.2.1]; exact h.subjO
    subjS := by show (w.cells.set _ _)[_]? = _; rw [set_get_other _ n.2.2.2.2.2.2.2.1]; exact h.subjS
    cS := by show (w.cells.set _ _)[_]? = _; exact set_get_same _ h.cS
    cM := by show (w.cells.set _ _)[_]? = _; rw [set_get_other _ n.2.2.2.2.2.2.2.2.1]; exact h.cM
    cQ := by show (w.cells.set _ _)[_]? = _; rw [set_get_other _ (Ne.symm n.2.2.1)]; exact h.cQ
    mM := by show (w.cells.set _ _)[_]? = _; rw [set_get_other _ n.2.2.2.2.2.2.2.2.2.1]; exact h.mM
    mT := by show (w.cells.set _ _)[_]? = _; rw [set_get_other _ n.2.2.2.2.2.2.2.2.2.2.1]; exact h.mT }

/-- concat_j registers its new observer on `just(None)` -/
theorem ChainAt.addJ {j : Nat} {b : CB} (h : ChainAt k j b w) (_hb : b.jx = none) (hcr : b.cR = true) (J : Nat)
    (hJ : 3 * k + 2 ≤ J) (hoJ : w.obs[J]? = some (justObs k j)) :
    ChainAt k j { b with jx := some (J, true) }
      { w with cells := w.cells.set (cmap k j) (encMap [(0, Co k j), (1, J)]) } := by
  have n := @cells_ne2 k j
  exact
  { h with
    subjO := by show (w.cells.set _ _)[_]? = _; rw [set_get_other _ n.2.2.2.2.2.2.2.2.2.2.2.1]; exact h.subjO
    subjS := by show (w.cells.set _ _)[_]? = _; rw [set_get_other _ n.2.2.2.2.2.2.2.2.2.2.2.2.1]; exact h.subjS
    cS := by show (w.cells.set _ _)[_]? = _; rw [set_get_other _ (Ne.symm n.2.2.2.2.2.2.2.2.1)]; exact h.cS
    cM := by
      show (w.cells.set _ _)[_]? = _
      rw [set_get_same _ h.cM]; simp [cmapOf, hcr]
    cQ := by show (w.cells.set _ _)[_]? = _; rw [set_get_other _ (Ne.symm n.2.2.2.1)]; exact h.cQ
    mM := by show (w.cells.set _ _)[_]? = _; rw [set_get_other _ n.2.2.2.2.2.2.2.2.2.2.2.2.2.1]; exact h.mM
    mT := by show (w.cells.set _ _)[_]? = _; rw [set_get_other _ n.2.2.2.2.2.2.2.2.2.2.2.2.2.2]; exact h.mT
    oJ := by
      intro p hp
      simp only [Option.some.injEq] at hp
      subst hp
      exact ⟨hJ, by simpa using hoJ⟩ }

/-- chain `i` when concat_i's observer on map_i completes: the subject and map_i are done -/
def b5 : CB := { bLive with sR := false, mL := false, mR := false, cL := false }
/-- ... and concat_i has subscribed its observer `J` to `just(None)` -/
def b7 (J : Nat) : CB := { b5 with jx := some (J, true), cs := 2, q := 1 }

/-- after the end marker has been delivered and concat_i has completed -/
def afterEnd (σ : GS) (i J : Nat) : GS :=
  let σa := zStep { σ with ch := upd σ.ch i (b7 J) } i (.next (Data.optEnc none))
  if σa.alive then
    let σc := zStep { σa with ch := upd σa.ch i { σa.ch i with jx := some (J, false) } } i .complete
    { σc with ch := upd σc.ch i (tFC (σc.ch i)) }
  else σa

/-- an item that leaves the subscription running only changes zip's queues -/
theorem zStep_next_alive (hr : Ready k σ) (i : Nat) (x : Data) (ha : (zStep σ i (.next x)).alive = true) :
    ∃ Q, zStep σ i (.next x) = { σ with qs := Q } ∧ Zip.ne Q = false ∧ Q.length = k := by
  simp only [zStep] at ha ⊢
  cases hne : Zip.ne (σ.qs.modify i (· ++ [x])) with
  | false =>
    simp only [Bool.false_eq_true, ↓reduceIte]
    exact ⟨_, rfl, hne, by rw [List.length_modify]; exact hr.len⟩
  | true =>
    simp only [hne, ↓reduceIte, o1Step] at ha ⊢
    split at ha
    · rename_i hs
      simp only [hs, ↓reduceIte]
      exact ⟨_, rfl, (Zip.push_fills σ.qs i x hr.ne hne).1, by simp [hr.len]⟩
    · simp [endState] at ha

/-- the observer on `just(None)` takes its callbacks (it received `complete`) -/
theorem ChainAt.killJ {j : Nat} {b : CB} (h : ChainAt k j b w) (hj : j < k) (J : Nat) (l : Bool)
    (hp : b.jx = some (J, l)) :
    ChainAt k j { b with jx := some (J, false) } { w with obs := w.obs.modify J Obs.cleared } := by
  obtain ⟨h1, h2, h3, h4⟩ := idx_lt hj
  obtain ⟨q1, q2⟩ := h.oJ (J, l) hp
  simp only at q1 q2
  exact
  { h with
    oZ := by show (w.obs.modify _ _)[_]? = _; rw [modify_get_other _ _ (by omega)]; exact h.oZ
    oC := by show (w.obs.modify _ _)[_]? = _; rw [modify_get_other _ _ (by omega)]; exact h.oC
    oM := by show (w.obs.modify _ _)[_]? = _; rw [modify_get_other _ _ (by omega)]; exact h.oM
    cM := by
      have : cmapOf k j { b with jx := some (J, false) } = cmapOf k j b := by simp only [cmapOf, hp]
      rw [this]; exact h.cM
    oJ := by
      intro p' hp'
      simp only [Option.some.injEq] at hp'
      subst hp'
      refine ⟨q1, ?_⟩
      show (w.obs.modify _ _)[_]? = _
      rw [modify_get_same _ _ q2]
      cases l <;> rfl }

theorem zStep_complete_ch (σ : GS) (i : Nat) : (zStep σ i .complete).ch i = { σ.ch i with zL := false } := by
  simp only [zStep]
  split
  · show upd σ.ch i _ i = _; rw [upd_same]
  · show upd σ.ch i _ i = _; rw [upd_same]

end Rx.SeqRef
