import RxVerif.Theorems.C16
/-
C15 — worker exit (model: `RxVerif/Conc/Timed.lean`, invariants: `RxVerif/Theorems/C16.lean`).

"Every scheduler thread started on behalf of a subscription (by interval, timer, observe_on, subscribe_on, debounce,
timeout, or any operator nesting them) terminates within a bounded number of its own steps - at most one timer period -
after that subscription ended by terminal event, unsubscribe or early completion downstream; a program that creates and
finishes subscriptions repeatedly does not accumulate threads."

Main theorems: `Interval.interval_exits_within_one_period`, `Interval.interval_exits_eventually` (liveness form), `Timer.timer_exits`, `Debounce.debounce_exits`,
`Timeout.timeout_timer_exits` (unconditional: ONE period), `Rounds.no_accumulation`.
`Timeout` is the model of operators/timeout.rs at HEAD 11cd3c1 (on_finalize cancels the armed timer; a new timer is armed
only if still subscribed, and cancelled by a re-check after the store if the subscription ended meanwhile):
`Timeout.timeout_timer_cancelled_on_complete` and `Timeout.timeout_timer_recheck_cancels` replay the two runs that used to
leak a timer thread for two periods.
-/
namespace Rx.Timed

namespace Timeout

def lateP : Params := { d := 10, script := [(.rel 5, .next (.int 1)), (.rel 1, .complete)] }

/-- the repaired code (timeout.rs:49-54): the subscription ends at 6 (`complete`), `finalize` cancels the timer armed at 5;
its thread wakes at 15, sees the cancellation and exits at 15 ≤ 6 + 10 (before the repair it fired silently at 15 and
lived until 25) -/
theorem timeout_timer_cancelled_on_complete :
    (replay lateP
      [.tick 5, .run 0, .run 0, .run 0, .run 0, .run 0, .run 0, .run 2, .tick 6, .run 0, .run 0, .tick 15, .run 2, .run 2,
       .run 2, .tick 16]).map
      (fun s => (s.now, s.outerEndedAt, s.timers.map (fun w => (w.endedAt, w.exitedAt)), liveTimers s))
      = some (16, some 6, [(some 6, some 15)], 0) := by decide

def raceP : Params := { d := 10, script := [(.rel 5, .next (.int 1))], unsubAt := some 5 }

/-- the second repair (timeout.rs:90-97): another thread unsubscribes (and finalizes, finding the `timer` cell empty)
between the `is_subscribed` test and the store of the new timer, at time 5; the re-check after the store sees the
ended subscription and cancels the timer just stored, whose thread exits at 15 = 5 + 10 (before this repair it fired
silently at 15 and lived until 25) -/
theorem timeout_timer_recheck_cancels :
    (replay raceP
      [.tick 5, .run 0, .run 0, .run 0, .run 0, .run 1, .run 1, .run 0, .run 0, .run 2, .tick 15, .run 2, .run 2, .run 2,
       .tick 16]).map
      (fun s => (s.now, s.outerEndedAt, s.timers.map (fun w => (w.endedAt, w.exitedAt)), liveTimers s))
      = some (16, some 5, [(some 5, some 15)], 0) := by decide

/-- **C15 `timeout_timer_exits`.**  In every reachable state of `timeout(d)` (HEAD 11cd3c1; any script, any consumer
handling times, any unsubscription instant, any interleaving — including an unsubscribe by another thread between the
`is_subscribed` test, the store of the new timer and the re-check):
 (1) a timer thread whose own subscription ended at `e` (cancelled by the next item, by `finalize` or by the re-check,
     or completed by firing) has exited once the clock passed `e + d`, after at most one more sleep and at most 5 more
     micro-steps;
 (2) once the OUTER subscription ended at `E` (terminal event, `TimedOut`, unsubscribe), no timer's subscription ends
     later than `E`, every timer's subscription HAS ended as soon as the clock passed `E`, and every timer thread has
     exited when the clock passed `E + d` — ONE period. -/
theorem timeout_timer_exits (p : Params) (s : State) (hr : Reach (step p) (init p) s) :
    (∀ (i : Nat) (w : IW), s.timers[i]? = some w → ∀ e : Nat, w.endedAt = some e → e + p.d < s.now → w.pc = .exited) ∧
    (∀ (i : Nat) (w : IW), s.timers[i]? = some w → w.sleepsAfterEnd ≤ 1 ∧ w.stepsAfterEnd ≤ 5) ∧
    (∀ E : Nat, s.outerEndedAt = some E →
      ∀ (i : Nat) (w : IW) (e : Nat), s.timers[i]? = some w → w.endedAt = some e → e ≤ E) ∧
    (∀ E : Nat, s.outerEndedAt = some E → E < s.now →
      ∀ (i : Nat) (w : IW), s.timers[i]? = some w → ∃ e : Nat, w.endedAt = some e ∧ e ≤ E) ∧
    (∀ E : Nat, s.outerEndedAt = some E → E + p.d < s.now →
      ∀ (i : Nat) (w : IW), s.timers[i]? = some w → w.pc = .exited) := by
  have h := reach_inv hr
  have hended : ∀ E : Nat, s.outerEndedAt = some E → E < s.now →
      ∀ (i : Nat) (w : IW), s.timers[i]? = some w → ∃ e : Nat, w.endedAt = some e ∧ e ≤ E := by
    intro E hE hlt i w hw
    cases he : w.endedAt with
    | some e => exact ⟨e, rfl, h.ended_le_E E hE i w e hw he⟩
    | none =>
      exfalso
      have hs := (h.timers_ok i w hw).1.sub_iff.2 he
      have := sub_now h hE hw hs; omega
  refine ⟨?_, ?_, h.ended_le_E, hended, ?_⟩
  · intro i w hw e he hn
    exact IW.exited_after (h.timers_ok i w hw).1 he hn
  · intro i w hw
    have iw := (h.timers_ok i w hw).1
    refine ⟨iw.sleeps.1, ?_⟩
    have := iw.steps.1
    cases hp : w.pc <;> simp [hp, IW.stepBound] at this <;> omega
  · intro E hE hn i w hw
    obtain ⟨e, he, hle⟩ := hended E hE (by omega) i w hw
    exact IW.exited_after (h.timers_ok i w hw).1 he (by omega)

end Timeout

namespace Rounds

structure Inv (p : Params) (s : State) : Prop where
  workers_ok : ∀ (i : Nat) (w : IW), s.workers[i]? = some w → IW.Inv p.d s.now w
  only_last : ∀ (i : Nat) (w : IW), s.workers[i]? = some w → i + 1 < s.workers.length → w.sub = false
  idle : (s.pc = .pausing ∨ s.pc = .subscribe ∨ s.pc = .done) → ∀ (i : Nat) (w : IW), s.workers[i]? = some w → w.sub = false
  fin_pc : ∀ E : Nat, s.finishedAt = some E → s.pc = .done ∧ E ≤ s.now
  fin_ended : ∀ E : Nat, s.finishedAt = some E → ∀ (i : Nat) (w : IW), s.workers[i]? = some w →
                ∃ e : Nat, w.endedAt = some e ∧ e ≤ E

theorem inv_init (p : Params) : Inv p (init p) := by
  constructor <;> simp [init]

theorem set_cases {l : List IW} {i j : Nat} {a w : IW} (h : (l.set i a)[j]? = some w) :
    (j = i ∧ w = a ∧ i < l.length) ∨ (j ≠ i ∧ l[j]? = some w) := by
  rw [List.getElem?_set] at h
  split at h
  · next hij =>
    split at h
    · next hlt => injection h with h; exact Or.inl ⟨hij.symm, h.symm, hlt⟩
    · contradiction
  · next hij => exact Or.inr ⟨fun h' => hij h'.symm, h⟩

theorem step_inv {p : Params} {s s' : State} {l : Label} (h : Inv p s) (hs : step p s l = some s') : Inv p s' := by
  obtain ⟨a1, a2, a3, a4, a5⟩ := h
  cases l with
  | tick t' =>
    simp only [step] at hs
    split at hs
    · next hc =>
      obtain ⟨c1, c2, c3⟩ := hc
      injection hs with hs; subst hs
      rw [List.all_eq_true] at c3
      constructor
      · intro i w hw
        exact IW.tick_inv (a1 i w hw) c1 (c3 w (List.mem_iff_getElem?.2 ⟨i, hw⟩))
      · exact a2
      · exact a3
      · intro E hE; have := a4 E hE; exact ⟨this.1, by simp; omega⟩
      · exact a5
    · contradiction
  | run tid =>
    match tid with
    | 0 =>
      simp only [step] at hs
      split at hs
      · next hold x r hp hr =>
        injection hs with hs; subst hs
        constructor
        · intro i w hw
          rw [List.getElem?_append] at hw
          split at hw
          · exact a1 i w hw
          · have : w = { born := s.now } := by
              cases hi : i - s.workers.length <;> simp [hi] at hw; exact hw.symm
            subst this; exact IW.inv_new _ _ _
        · intro i w hw hlt
          simp at hlt
          rw [List.getElem?_append] at hw
          split at hw
          · exact a3 (Or.inr (Or.inl hp)) i w hw
          · omega
        · simp
        · intro E hE; have := (a4 E hE).1; simp [hp] at this
        · intro E hE; have := (a4 E hE).1; simp [hp] at this
      · next x pause r hp hr =>
        split at hs
        · injection hs with hs; subst hs
          have hcl : ∀ (i : Nat) (w : IW), (cancelLast s)[i]? = some w →
              (s.workers[i]? = some w ∧ i + 1 < s.workers.length) ∨
              (∃ w0 : IW, s.workers[i]? = some w0 ∧ w = w0.cancel s.now) := by
            intro i w hw
            simp only [cancelLast] at hw
            split at hw
            · next w0 hw0 =>
              rcases set_cases hw with ⟨hj, h, _⟩ | ⟨hj, h⟩
              · right; subst hj; exact ⟨w0, hw0, h⟩
              · left; refine ⟨h, ?_⟩
                have : i < s.workers.length := by
                  rcases Nat.lt_or_ge i s.workers.length with h' | h'
                  · exact h'
                  · rw [List.getElem?_eq_none h'] at h; contradiction
                omega
            · next hnone =>
              have : s.workers = [] := by
                cases hw' : s.workers with
                | nil => rfl
                | cons a l => simp [hw'] at hnone
              simp [this] at hw
          constructor
          · intro i w hw
            rcases hcl i w hw with ⟨h, _⟩ | ⟨w0, h0, h⟩
            · exact a1 i w h
            · subst h; exact IW.cancel_inv (a1 i w0 h0)
          · intro i w hw _
            rcases hcl i w hw with ⟨h, hlt⟩ | ⟨w0, h0, h⟩
            · exact a2 i w h hlt
            · subst h; simp [IW.cancel]
          · intro _ i w hw
            rcases hcl i w hw with ⟨h, hlt⟩ | ⟨w0, h0, h⟩
            · exact a2 i w h hlt
            · subst h; simp [IW.cancel]
          · intro E hE; have := (a4 E hE).1; simp [hp] at this
          · intro E hE; have := (a4 E hE).1; simp [hp] at this
        · contradiction
      · next r hp =>
        split at hs
        · injection hs with hs; subst hs
          have hall := a3 (Or.inl hp)
          constructor
          · exact a1
          · exact a2
          · intro _; exact hall
          · intro E hE
            simp at hE
            simp only [hE.1]
            exact ⟨rfl, by omega⟩
          · intro E hE i w hw
            simp at hE
            have iw := a1 i w hw
            have hsub := hall i w hw
            cases he : w.endedAt with
            | none => have := iw.sub_iff.2 he; simp [hsub] at this
            | some e => exact ⟨e, rfl, by have := iw.ended_le e he; omega⟩
        · contradiction
      · contradiction
    | i + 1 =>
      simp only [step] at hs
      split at hs
      · next w hw =>
        have iw := a1 i w hw
        have key : ∀ w' : IW, IW.Inv p.d s.now w' → w'.sub = w.sub → w'.endedAt = w.endedAt →
            Inv p { s with workers := s.workers.set i w' } := by
          intro w' hw' hsub hend
          constructor
          · intro j w'' hw''
            rcases set_cases hw'' with ⟨_, h, _⟩ | ⟨_, h⟩
            · subst h; exact hw'
            · exact a1 j w'' h
          · intro j w'' hw'' hlt
            simp at hlt
            rcases set_cases hw'' with ⟨hj, h, _⟩ | ⟨_, h⟩
            · subst h; subst hj; rw [hsub]; exact a2 j w hw hlt
            · exact a2 j w'' h hlt
          · intro hp j w'' hw''
            rcases set_cases hw'' with ⟨hj, h, _⟩ | ⟨_, h⟩
            · subst h; subst hj; rw [hsub]; exact a3 hp j w hw
            · exact a3 hp j w'' h
          · exact a4
          · intro E hE j w'' hw''
            rcases set_cases hw'' with ⟨hj, h, _⟩ | ⟨_, h⟩
            · subst h; subst hj; rw [hend]; exact a5 E hE j w hw
            · exact a5 E hE j w'' h
        split at hs
        · next hp =>
          injection hs with hs; subst hs
          exact key _ (IW.emitted_inv false iw hp) (by simp [IW.emitted]) (by simp [IW.emitted])
        · split at hs
          · next w' hw' =>
            injection hs with hs; subst hs
            obtain ⟨f1, f2, f3, fb, f4, f5, f6, f7, f8⟩ := IW.localStep_spec hw'
            exact key _ (IW.localStep_inv iw hw') f2 f3
          · contradiction
      · contradiction

theorem reach_inv {p : Params} {s : State} (hr : Reach (step p) (init p) s) : Inv p s :=
  reach_induct (Inv p) (inv_init p) (fun _ _ _ h hs => step_inv h hs) s hr

/-- **C15 `no_accumulation`.**  A program that creates and finishes `interval(d)` subscriptions repeatedly (any number
of rounds, any hold and pause durations): every scheduler thread whose subscription ended at `e` has exited once the
clock passed `e + d`, at most ONE worker is subscribed at any time, and when the program finished its last round at
`E`, one period later no scheduler thread is alive. -/
theorem no_accumulation (p : Params) (s : State) (hr : Reach (step p) (init p) s) :
    (∀ (i : Nat) (w : IW), s.workers[i]? = some w → ∀ e : Nat, w.endedAt = some e → e + p.d < s.now → w.live = false) ∧
    (∀ (i : Nat) (w : IW), s.workers[i]? = some w → i + 1 < s.workers.length → w.sub = false) ∧
    (∀ E : Nat, s.finishedAt = some E → E + p.d < s.now → live s = 0) := by
  have h := reach_inv hr
  refine ⟨?_, h.only_last, ?_⟩
  · intro i w hw e he hn
    simp [IW.live, IW.exited_after (h.workers_ok i w hw) he hn]
  · intro E hE hn
    simp only [live, List.length_eq_zero_iff, List.filter_eq_nil_iff]
    intro w hw
    obtain ⟨i, hi⟩ := List.mem_iff_getElem?.1 hw
    obtain ⟨e, he, hle⟩ := h.fin_ended E hE i w hi
    simp [IW.live, IW.exited_after (h.workers_ok i w hi) he (by omega)]

/-- non-vacuity: three rounds of `interval(2)` (hold 5, pause 1); at time 21 all three threads are gone -/
example :
    (runFrom (step { d := 2, rounds := [(5, 1), (5, 1), (5, 1)] }) (init { d := 2, rounds := [(5, 1), (5, 1), (5, 1)] })
      [.run 0, .run 1, .tick 2, .run 1, .run 1, .run 1, .tick 4, .run 1, .run 1, .run 1, .tick 5, .run 0, .tick 6,
       .run 1, .run 1, .run 1, .run 0,
       .run 0, .run 2, .tick 8, .run 2, .run 2, .run 2, .tick 10, .run 2, .run 2, .run 2, .tick 11, .run 0, .tick 12,
       .run 2, .run 2, .run 2, .run 0,
       .run 0, .run 3, .tick 14, .run 3, .run 3, .run 3, .tick 16, .run 3, .run 3, .run 3, .tick 17, .run 0, .tick 18,
       .run 3, .run 3, .run 3, .run 0, .tick 21]).map
      (fun s => (s.now, s.finishedAt, s.workers.length, live s))
      = some (21, some 18, 3, 0) := by decide

end Rounds

/-- **C15 `interval_exits_within_one_period`.**  In every reachable state of `interval(d)[.take(c)]` with an optional
unsubscribing thread: `endedAt` records the instant the worker's observer stopped being subscribed (by `unsubscribe`
or by the downstream `take` completing); after that instant the worker begins at most ONE more `thread::sleep`, does
at most 5 more micro-steps, has left its scheduler thread (`abort`, loop exit) as soon as the clock passed
`endedAt + d`, and the exit instant itself is `≤ endedAt + d`. -/
theorem Interval.interval_exits_within_one_period (p : Interval.Params) (s : Interval.State)
    (hr : Reach (Interval.step p) (Interval.init p) s) :
    (s.w.sub = true ↔ s.w.endedAt = none) ∧ s.w.sleepsAfterEnd ≤ 1 ∧ s.w.stepsAfterEnd ≤ 5 ∧
    (∀ e : Nat, s.w.endedAt = some e → e + p.d < s.now → s.w.pc = .exited) ∧
    (∀ e x : Nat, s.w.endedAt = some e → s.w.exitedAt = some x → x ≤ e + p.d) := by
  have iw := (Interval.reach_inv hr).1.iw
  refine ⟨iw.sub_iff, iw.sleeps.1, ?_, fun e he hn => IW.exited_after iw he hn, ?_⟩
  · have := iw.steps.1
    cases hp : s.w.pc <;> simp [hp, IW.stepBound] at this <;> omega
  · intro e x he hx
    obtain ⟨e', x', h1, h2, h3, _⟩ := iw.ex_end (iw.exitedAt_pc x hx)
    rw [he] at h1; rw [hx] at h2; injection h1 with h1; injection h2 with h2; omega

/-- non-vacuity: `interval(3)` unsubscribed at 4 — the worker sleeps on until 6, then aborts and exits at 6 ≤ 4 + 3 -/
example :
    (runFrom (Interval.step { d := 3, unsubAt := some 4 }) (Interval.init { d := 3, unsubAt := some 4 })
      [.run 0, .tick 3, .run 0, .run 0, .run 0, .tick 4, .run 1, .tick 6, .run 0, .run 0, .run 0, .tick 8]).map
      (fun s => (s.now, s.w.endedAt, s.w.exitedAt, s.w.sleepsAfterEnd, s.w.stepsAfterEnd))
      = some (8, some 4, some 6, 0, 3) := by decide

/-- **C15 `timer_exits`.**  The scheduler thread of `timer(d)` exits at exactly `d` — whatever happened to the
subscription (there is no `is_subscribed` test in timer.rs:16-21, so an early unsubscribe does not shorten the sleep);
every end of the subscription is `≤ d`, so the thread is gone within one period of it. -/
theorem Timer.timer_exits (p : Timer.Params) (s : Timer.State) (hr : Reach (Timer.step p) (Timer.init p) s) :
    (∀ x : Nat, s.exitedAt = some x → x = p.d) ∧ (p.d < s.now → s.pc = .exited) ∧
    (∀ e : Nat, s.endedAt = some e → e ≤ p.d) ∧ s.sleepsAfterEnd ≤ 1 ∧ s.stepsAfterEnd ≤ 6 := by
  have h := Timer.reach_inv hr
  refine ⟨?_, ?_, fun e he => (h.ended e he).2, h.sleeps.1, ?_⟩
  · intro x hx
    have := (h.ex (h.ex_pc x hx)).1
    rw [hx] at this; injection this
  · intro hn
    cases hp : s.pc
    · have := h.top_now hp; omega
    · have := (h.sl_wake hp).2; omega
    · have := h.mid_now (Or.inl hp); omega
    · have := h.mid_now (Or.inr (Or.inl hp)); omega
    · have := h.mid_now (Or.inr (Or.inr (Or.inl hp))); omega
    · have := h.mid_now (Or.inr (Or.inr (Or.inr hp))); omega
    · rfl
  · have := h.steps.1
    cases hp : s.pc <;> simp [hp, Timer.stepBound] at this <;> omega

/-- non-vacuity: `timer(5)` unsubscribed at 1 still keeps its thread until 5 -/
example :
    (runFrom (Timer.step { d := 5, unsubAt := some 1 }) (Timer.init { d := 5, unsubAt := some 1 })
      [.run 0, .tick 1, .run 1, .tick 5, .run 0, .run 0, .run 0, .run 0, .run 0, .tick 7]).map
      (fun s => (s.now, s.log, s.endedAt, s.exitedAt))
      = some (7, [], some 1, some 5) := by decide

/-- **C15 `debounce_exits`.**  `endedAt` = instant the downstream subscriber of `debounce` stopped being subscribed
(terminal event of the source, or unsubscribe).  `finalize` then runs `on_finalize = scheduler.abort()`; the worker's
`while sctl.is_subscribed()` fails at its next test, so it begins at most ONE more sleep, does at most 6 more
micro-steps, and has left the scheduler thread as soon as the clock passed `endedAt + d`. -/
theorem Debounce.debounce_exits (p : Debounce.Params) (s : Debounce.State)
    (hr : Reach (Debounce.step p) (Debounce.init p) s) :
    (s.sub = true ↔ s.endedAt = none) ∧ s.sleepsAfterEnd ≤ 1 ∧ s.stepsAfterEnd ≤ 6 ∧
    (∀ e : Nat, s.endedAt = some e → e + p.d < s.now → s.wpc = .exited) ∧
    (∀ e x : Nat, s.endedAt = some e → s.exitedAt = some x → x ≤ e + p.d) := by
  have h := Debounce.reach_inv hr
  refine ⟨h.sub_iff, h.sleeps.1, ?_, ?_, ?_⟩
  · have := h.steps.1
    cases hp : s.wpc <;> simp [hp, Debounce.stepBound] at this <;> omega
  · intro e he hn
    cases hp : s.wpc
    · have := h.run_end (Or.inl hp) e he; omega
    · have := h.body_end hp e he; have := h.ended_le e he; omega
    · have := (h.sl_now hp).1; have := h.sl_end hp e he; omega
    · have := h.run_end (Or.inr (Or.inl hp)) e he; omega
    · have := h.run_end (Or.inr (Or.inr hp)) e he; omega
    · obtain ⟨e', h1, h2⟩ := h.wait_end hp; rw [he] at h1; injection h1 with h1; omega
    · rfl
  · intro e x he hx
    obtain ⟨e', x', h1, h2, h3⟩ := h.ex_end (h.ex_pc x hx)
    rw [he] at h1; rw [hx] at h2; injection h1 with h1; injection h2 with h2; omega

/-- non-vacuity: source emits 1@1, 2@2, 3@14, completes @15; debounce(10) delivers 2@10, complete@15 (item 3 is lost),
    the worker exits at 20 ≤ 15 + 10 -/
example :
    (Debounce.replay Debounce.demo
      [.run 2, .run 2, .tick 1, .run 0, .run 0, .tick 2, .run 0, .run 0, .tick 10, .run 2, .run 2, .run 2, .run 2, .run 2,
       .tick 14, .run 0, .run 0, .tick 15, .run 0, .run 0, .run 0, .tick 20, .run 2, .run 2, .run 2, .run 2, .run 2, .tick 30]).map
      (fun s => (s.now, s.log, s.endedAt, s.exitedAt))
      = some (30, [(10, .next (.int 2)), (15, .complete)], some 15, some 20) := by decide

namespace Interval

def pcRank : WPc → Nat
  | .emit => 5 | .top => 4 | .sleeping => 3 | .abort => 2 | .ret => 1 | .exited => 0

theorem localStep_rank {d now : Nat} {w w' : IW} (hsub : w.sub = false) (hw : w.localStep d now = some w') :
    pcRank w'.pc < pcRank w.pc := by
  obtain ⟨pc, wake, n, sub, endedAt, sl, st, ex, born⟩ := w
  simp at hsub; subst hsub
  cases pc <;> simp [IW.localStep] at hw
  · subst hw; simp [pcRank]
  · obtain ⟨_, hw⟩ := hw; subst hw; simp [pcRank]
  · subst hw; simp [pcRank]
  · subst hw; simp [pcRank]

/-- a bound on the number of labels (clock ticks included) any continuation can take before the worker is gone -/
def fuel (p : Params) (s : State) (e : Nat) : Nat :=
  (e + p.d - s.now) + pcRank s.w.pc + (if s.udone then 0 else 1)

theorem fuel_decreases {p : Params} {s s' : State} {l : Label} {e : Nat} (h : Inv p s) (he : s.w.endedAt = some e)
    (hs : step p s l = some s') (hne : s.w.pc ≠ .exited) :
    fuel p s' e < fuel p s e ∧ s'.w.endedAt = some e := by
  have iw := h.iw
  have hsub : s.w.sub = false := by
    cases hh : s.w.sub
    · rfl
    · have := iw.sub_iff.1 hh; simp [he] at this
  cases l with
  | tick t' =>
    simp only [step] at hs
    split at hs
    · next hc =>
      obtain ⟨c1, c2, c3⟩ := hc
      injection hs with hs; subst hs
      refine ⟨?_, he⟩
      simp only [fuel]
      cases hp : s.w.pc <;> simp [IW.allowsTick, hp] at c2
      · have := iw.sl_end hp e he; omega
      · exact absurd hp hne
    · contradiction
  | run tid =>
    match tid with
    | 0 =>
      simp only [step] at hs
      split at hs
      · next hp =>
        split at hs
        · -- second half of a completing tick (the unsubscriber ran between the halves)
          injection hs with hs; subst hs
          simp [fuel, IW.emitted, hp, pcRank, hsub, he]
        · split at hs
          · -- first half needs a subscribed observer
            next hc => simp [delivers, hsub] at hc
          · injection hs with hs; subst hs
            simp [fuel, IW.emitted, hp, pcRank, hsub, he]
      · next hp =>
        split at hs
        · next w' hw' =>
          injection hs with hs; subst hs
          obtain ⟨f1, f2, f3, fb, f4, f5, f6, f7, f8⟩ := IW.localStep_spec hw'
          refine ⟨?_, by simp [f3, he]⟩
          simp only [fuel]
          have := localStep_rank hsub hw'
          omega
        · contradiction
    | 1 =>
      simp only [step] at hs
      split at hs
      · split at hs
        · next hc =>
          injection hs with hs; subst hs
          simp [fuel, IW.cancel, hc.1, hsub, he]
        · contradiction
      · contradiction
    | n + 2 => simp [step] at hs

theorem exited_stable {p : Params} {s s' : State} {l : Label} (hs : step p s l = some s') (h : s.w.pc = .exited) :
    s'.w.pc = .exited := by
  cases l with
  | tick t' =>
    simp only [step] at hs
    split at hs
    · injection hs with hs; subst hs; exact h
    · contradiction
  | run tid =>
    match tid with
    | 0 => simp [step, h, IW.localStep] at hs
    | 1 =>
      simp only [step] at hs
      split at hs
      · split at hs
        · injection hs with hs; subst hs; simpa [IW.cancel] using h
        · contradiction
      · contradiction
    | n + 2 => simp [step] at hs

theorem exits_of_fuel {p : Params} {e : Nat} : ∀ (ls : List Label) (s s' : State), Inv p s →
    (s.w.pc = .exited ∨ (s.w.endedAt = some e ∧ fuel p s e < ls.length)) →
    runFrom (step p) s ls = some s' → s'.w.pc = .exited
  | [], s, s', _, h, hr => by
      simp only [runFrom] at hr; injection hr with hr; subst hr
      rcases h with h | ⟨_, h⟩
      · exact h
      · simp at h
  | l :: ls, s, s', hi, h, hr => by
      simp only [runFrom] at hr
      split at hr
      · next s1 hs1 =>
        have hi1 := step_inv hi hs1
        by_cases hx : s.w.pc = .exited
        · exact exits_of_fuel (e := e) ls s1 s' hi1 (Or.inl (exited_stable hs1 hx)) hr
        · rcases h with h | ⟨he, hf⟩
          · exact absurd h hx
          · obtain ⟨hd, he1⟩ := fuel_decreases hi he hs1 hx
            exact exits_of_fuel ls s1 s' hi1 (Or.inr ⟨he1, by simp at hf; omega⟩) hr
      · contradiction

/-- **C15, liveness form.**  From any reachable state whose subscription ended at `e`, EVERY continuation (any
interleaving, clock ticks counted as steps) of more than `(e + d - now) + 6` labels ends with the worker's scheduler
thread gone — the worker cannot be kept alive, and the clock cannot be stalled. -/
theorem interval_exits_eventually (p : Params) (s s' : State) (e : Nat) (ls : List Label)
    (hr : Reach (step p) (init p) s) (he : s.w.endedAt = some e) (hrun : runFrom (step p) s ls = some s')
    (hlen : (e + p.d - s.now) + 6 < ls.length) : s'.w.pc = .exited := by
  refine exits_of_fuel ls s s' (reach_inv hr).1 (Or.inr ⟨he, ?_⟩) hrun
  have : pcRank s.w.pc ≤ 5 := by cases s.w.pc <;> simp [pcRank]
  simp only [fuel]; split <;> omega

end Interval

end Rx.Timed

#print axioms Rx.Timed.Interval.interval_exits_within_one_period
#print axioms Rx.Timed.Interval.interval_exits_eventually
#print axioms Rx.Timed.Timer.timer_exits
#print axioms Rx.Timed.Debounce.debounce_exits
#print axioms Rx.Timed.Timeout.timeout_timer_exits
#print axioms Rx.Timed.Timeout.timeout_timer_cancelled_on_complete
#print axioms Rx.Timed.Timeout.timeout_timer_recheck_cancels
#print axioms Rx.Timed.Rounds.no_accumulation
